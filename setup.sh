#!/bin/sh
# build the framework from files on disk only (offline): harness, regenerated tables, model driver, theorem modules
set -e
cd /verif
mkdir -p .build evidence replay
(cd harness && CARGO_NET_OFFLINE=true cargo build 2>&1 | tail -3)
(cd /repo && CARGO_NET_OFFLINE=true cargo build --offline 2>&1 | tail -1)
/verif/.build/cargo/debug/apverif extract /verif/lean/Aplang/Gen
(cd lean && lake build apdriver 2>&1 | tail -2)
(cd lean && lake build Aplang.Thm.C01 Aplang.Thm.C01b Aplang.Thm.C02 Aplang.Thm.C02b Aplang.Thm.C03 Aplang.Thm.C03b Aplang.Thm.C04 Aplang.Thm.C04b Aplang.Thm.C04c Aplang.Thm.C05 Aplang.Thm.C05b Aplang.Thm.C06 Aplang.Thm.C06b \
   Aplang.Thm.C07 Aplang.Thm.C07b Aplang.Thm.C08 Aplang.Thm.C08b Aplang.Thm.C09 Aplang.Thm.C09b Aplang.Thm.C09c Aplang.Thm.C10 Aplang.Thm.C10b Aplang.Thm.C11 Aplang.Thm.C11b Aplang.Thm.C12 \
   Aplang.Thm.C13 Aplang.Thm.C14 Aplang.Thm.C15 Aplang.Thm.C15b Aplang.Thm.C16 Aplang.Thm.C17 Aplang.Thm.C18 Aplang.Thm.C19 Aplang.Thm.TablesKeywords Aplang.Thm.TablesEnders Aplang.Thm.TablesRegistry 2>&1 | grep -v "^info\|^ℹ\|^✔\|^⚠" | tail -5)
echo "setup done"
