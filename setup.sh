#!/bin/sh
# build the framework from files on disk only (offline)
set -e
cd /verif
mkdir -p .build evidence replay
(cd harness && CARGO_NET_OFFLINE=true cargo build 2>&1 | tail -3)
/verif/.build/cargo/debug/apverif extract /verif/lean/Aplang/Gen
(cd lean && lake build apdriver 2>&1 | tail -3)
