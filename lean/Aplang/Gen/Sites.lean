/-! GENERATED: every output site in /repo/src (comments and literals stripped), on every run; do not edit -/
namespace Aplang.Gen
/-- (file, macro or call) -/
def outputSites : List (String × String) := [
  ("lib.rs", "println!"),
  ("main.rs", "eprintln!"),
  ("main.rs", "eprintln!"),
  ("output.rs", "print!"),
  ("output.rs", "eprint!"),
  ("splash.rs", "println!"),
  ("splash.rs", "println!"),
  ("standard_library/io.rs", "display!"),
  ("standard_library/io.rs", "io::stdout"),
  ("standard_library/io.rs", "display!"),
  ("standard_library/io.rs", "display!"),
  ("standard_library/mod.rs", "display!"),
  ("standard_library/mod.rs", "display!"),
  ("standard_library/style.rs", "display!"),
  ("standard_library/style.rs", "display!"),
  ("verif.rs", "print!"),
  ("wasm.rs", "display_error!"),
  ("wasm.rs", "display_error!"),
  ("wasm.rs", "display_error!")
]
end Aplang.Gen
