import Aplang.Model.Interp
/-!
# Reference semantics: structured control flow  (the specification the evaluator model is proved to refine)

Written in the vocabulary of the properties: a statement ends with a *signal* — `normal`, `brk`
(BREAK), `cont` (CONTINUE) or `ret v` (RETURN) — instead of setting flags that blocks and loops poll.
Everything that is not control flow (operators, indexing, assignment, the library, the import
mechanism, the statement budget) is shared with the model, so the refinement theorem is about control
flow only: BREAK / CONTINUE flags and the pending return value versus signals.
-/
namespace Aplang

inductive Sig
  | normal
  | brk
  | cont
  | ret (v : Value)
deriving Inhabited

namespace Spec

mutual

/-- reference semantics of expressions -/
def expr (cfg : Cfg) : Nat → Expr → St → Res (Value × St)
  | 0, _, _ => .fuel
  | f+1, .grouping e _ _, σ => expr cfg f e σ
  | _+1, .lit v _, σ => .ok (litValue v, σ)
  | f+1, .binary l op r tok, σ =>
    (expr cfg f l σ).bind fun (a, σ) => (expr cfg f r σ).bind fun (b, σ) => binop op tok a b σ
  | f+1, .unary op r tok, σ => (expr cfg f r σ).bind fun (v, σ) => unop op tok v σ
  | f+1, .call name args spans tok lp rp, σ =>
    (exprs cfg f args σ).bind fun (vs, σ) =>
    match σ.procs.find? name with
    | none => rtErr "Invalid PROCEDURE" tok.span σ
    | some (.native n) =>
      if n.arity != vs.length then rtErr "Incorrect Number Of Args" (interior lp rp) σ
      else callNative cfg.chars n vs spans σ
    | some (.user params body) =>
      if params.length != vs.length then rtErr "Incorrect Number Of Args" (interior lp rp) σ else
      -- a call: fresh scope with the parameters bound by position; the value is what RETURN gave, else NULL
      (stmt cfg f body { σ with scopes := bindParams params vs [] :: σ.scopes }).bind fun (sig, σ) =>
      match σ.scopes with
      | [] => .panic "env.scrape" σ.out
      | _ :: rest => .ok ((match sig with | .ret v => v | _ => .null), { σ with scopes := rest })
  | f+1, .access l listTok k lb rb, σ =>
    (expr cfg f l σ).bind fun (lv, σ) => (expr cfg f k σ).bind fun (kv, σ) => indexRead lv kv listTok lb rb σ
  | f+1, .list items _ _, σ => (exprs cfg f items σ).bind fun (vs, σ) => .ok (mkList σ vs)
  | _+1, .var name tok, σ =>
    (match lookupVar σ name with
     | some v => .ok (v, σ)
     | none => rtErr "Invalid Variable" tok.span σ)
  | f+1, .assign name _ value _, σ => (expr cfg f value σ).bind fun (v, σ) => assignVar name v σ
  | f+1, .set l listTok idx lb rb value _, σ =>
    (expr cfg f l σ).bind fun (lv, σ) => (expr cfg f idx σ).bind fun (kv, σ) =>
    (expr cfg f value σ).bind fun (v, σ) => indexWrite lv kv v listTok lb rb σ
  | f+1, .logical l op r _, σ =>
    (expr cfg f l σ).bind fun (a, σ) =>
    let short := match op with | .or => truthy a | .and => !truthy a
    if short then .ok (a, σ) else expr cfg f r σ

/-- argument / item lists, left to right -/
def exprs (cfg : Cfg) : Nat → List Expr → St → Res (List Value × St)
  | _, [], σ => .ok ([], σ)
  | 0, _ :: _, _ => .fuel
  | f+1, e :: es, σ =>
    (expr cfg f e σ).bind fun (v, σ) => (exprs cfg f es σ).bind fun (vs, σ) => .ok (v :: vs, σ)

/-- a statement runs to a signal -/
def stmt (cfg : Cfg) : Nat → Stmt → St → Res (Sig × St)
  | 0, _, _ => .fuel
  | f+1, s, σ0 =>
    match tick σ0 with
    | none => .fuel
    | some σ =>
    match s with
    | .expr e => (expr cfg f e σ).bind fun (_, σ) => .ok (.normal, σ)
    | .ifs c t e _ _ =>
      -- exactly the one branch selected by the truthiness of the condition
      (expr cfg f c σ).bind fun (v, σ) =>
      if truthy v then stmt cfg f t σ
      else (match e with | some e => stmt cfg f e σ | none => .ok (.normal, σ))
    | .repeatTimes count body _ _ countTok =>
      -- the count is evaluated once; the body runs `countOf n` times
      (expr cfg f count σ).bind fun (v, σ) =>
      (match v with
       | .num n =>
         (repeatLoop cfg f (countOf n) body { σ with loops := {} :: σ.loops }).bind fun (sig, σ) =>
         (popLoop σ).bind fun σ => .ok (sig, σ)
       | _ => rtErr "Invalid Value for nTIMES" countTok.span σ)
    | .repeatUntil cond body _ _ =>
      (untilLoop cfg f cond body { σ with loops := {} :: σ.loops }).bind fun (sig, σ) =>
      (popLoop σ).bind fun σ => .ok (sig, σ)
    | .forEach item _ list body _ _ _ listTok =>
      (expr cfg f list σ).bind fun (v, σ) =>
      (match v with
       | .list a => .ok (a, σ)
       | .str s => .ok ((allocCell σ (.list ((StrOps.charsToStrs s).map Value.str))).1,
           (allocCell σ (.list ((StrOps.charsToStrs s).map Value.str))).2)
       | _ => rtErr "Invalid Iterator" listTok.span σ : Res (Nat × St)).bind fun (a, σ) =>
      (removeVar σ item).bind fun (cached, σ) =>
      (match getList σ a with
       | some vs => .ok vs.length
       | none => .panic "dangling list" σ.out : Res Nat).bind fun len =>
      (forLoop cfg f item a 0 len body { σ with loops := {} :: σ.loops }).bind fun (sig, σ) =>
      (popLoop σ).bind fun σ =>
      -- an outer variable of the same name is left as it was
      (match cached with
       | some v => define σ item v
       | none => .ok σ).bind fun σ => .ok (sig, σ)
    | .procDecl name params body exported _ _ =>
      let p := Proc.user (params.map (·.1)) body
      let σ' : St := { σ with procs := σ.procs.insert name p,
                              exports := if exported then σ.exports.insert name p else σ.exports }
      .ok (.normal, σ')
    | .ret _ value =>
      (match value with
       | none => .ok (.ret .null, σ)
       | some e => (expr cfg f e σ).bind fun (v, σ) => .ok (.ret v, σ))
    | .cont _ => (match σ.loops with | [] => .panic "loop_stack.last_mut" σ.out | _ :: _ => .ok (.cont, σ))
    | .brk _ => (match σ.loops with | [] => .panic "loop_stack.last_mut" σ.out | _ :: _ => .ok (.brk, σ))
    | .block _ stmts _ =>
      (createNested σ).bind fun σ => (block cfg f stmts σ).bind fun (sig, σ) =>
      (flattenNested σ).bind fun σ => .ok (sig, σ)
    | .import_ _ _ _ only modName =>
      (importStmt cfg (fun prog σm => program cfg f prog σm) only modName σ).bind fun σ => .ok (.normal, σ)

/-- statements in program order; the first signal other than `normal` ends the block -/
def block (cfg : Cfg) : Nat → List Stmt → St → Res (Sig × St)
  | _, [], σ => .ok (.normal, σ)
  | 0, _ :: _, _ => .fuel
  | f+1, s :: ss, σ =>
    (stmt cfg f s σ).bind fun (sig, σ) =>
    match sig with
    | .normal => block cfg f ss σ
    | sig => .ok (sig, σ)

/-- REPEAT n TIMES: BREAK ends the loop, CONTINUE starts the next iteration, RETURN leaves with its value -/
def repeatLoop (cfg : Cfg) : Nat → Nat → Stmt → St → Res (Sig × St)
  | _, 0, _, σ => .ok (.normal, σ)
  | 0, _+1, _, _ => .fuel
  | f+1, k+1, body, σ =>
    (stmt cfg f body σ).bind fun (sig, σ) =>
    match sig with
    | .brk => .ok (.normal, σ)
    | .ret v => .ok (.ret v, σ)
    | _ => repeatLoop cfg f k body σ

/-- REPEAT UNTIL: the condition is tested before every iteration -/
def untilLoop (cfg : Cfg) : Nat → Expr → Stmt → St → Res (Sig × St)
  | 0, _, _, _ => .fuel
  | f+1, cond, body, σ =>
    (expr cfg f cond σ).bind fun (c, σ) =>
    if truthy c then .ok (.normal, σ) else
    (stmt cfg f body σ).bind fun (sig, σ) =>
    match sig with
    | .brk => .ok (.normal, σ)
    | .ret v => .ok (.ret v, σ)
    | _ => untilLoop cfg f cond body σ

/-- FOR EACH: the loop variable is bound to every element present at its turn, in order; after a normal
iteration its value is written back into the list -/
def forLoop (cfg : Cfg) : Nat → Str → Nat → Nat → Nat → Stmt → St → Res (Sig × St)
  | 0, _, _, _, _, _, _ => .fuel
  | f+1, item, a, i, len, body, σ =>
    if i ≥ len then .ok (.normal, σ) else
    match (getList σ a).bind (fun vs => vs[i]?) with
    | none => .ok (.normal, σ)
    | some v =>
      (define σ item v).bind fun σ =>
      (stmt cfg f body σ).bind fun (sig, σ) =>
      match sig with
      | .ret v => .ok (.ret v, σ)
      | .brk => .ok (.normal, σ)
      | .cont => forLoop cfg f item a (i + 1) len body σ
      | .normal =>
        (removeVar σ item).bind fun (cur, σ) =>
        forLoop cfg f item a (i + 1) len body (writeBack σ a i cur)

/-- the top-level statements of a program, in order -/
def program (cfg : Cfg) : Nat → List Stmt → St → Res St
  | _, [], σ => .ok σ
  | 0, _ :: _, _ => .fuel
  | f+1, s :: ss, σ => (stmt cfg f s σ).bind fun (_, σ) => program cfg f ss σ

end

end Spec
end Aplang
