import Aplang.Model.Robot
/-!
# Grid-world specification (property C17)

The vocabulary of the property: a `width × height` grid of cells, a position inside it, a heading in
ℤ₄ (a turn table), the adjacent cell in a relative direction (`neighbour`, `none` when outside the
grid), `canMove`, and one `step` of MOVE_FORWARD with the checkpoint / goal rules.  Nothing here
mentions machine integers, casts or indexing that can fail.
-/
namespace Aplang.Robot

/-! ## command sequences -/

inductive Cmd | left | right | move | canMove (d : Rel)
deriving DecidableEq, Repr

/-- how a command sequence ended: all commands done, or the program was terminated by a blocked
    MOVE_FORWARD (robot not moved), or a panic inside the robot code (proved impossible) -/
inductive Stop | finished | wall | panic (site : String)
deriving DecidableEq, Repr

/-- what a command printed / returned -/
inductive Obs | null | bool (b : Bool)
deriving DecidableEq, Repr

/-- result of running a command list: every state visited (the initial one first), the values
    returned by the commands, and how the run ended -/
structure Run where
  states : List Robot
  obs : List Obs
  stop : Stop
deriving DecidableEq, Repr

def Run.cons (r : Robot) (o : Obs) (t : Run) : Run := { t with states := r :: t.states, obs := o :: t.obs }

namespace Spec

/-! ## headings: ℤ₄ -/

def turnRight : Dir → Dir | .north => .east | .east => .south | .south => .west | .west => .north
def turnLeft : Dir → Dir | .north => .west | .west => .south | .south => .east | .east => .north

/-- the absolute heading that is `rel` of heading `d` -/
def turn (d : Dir) : Rel → Dir
  | .forward => d
  | .right => turnRight d
  | .left => turnLeft d
  | .backward => turnRight (turnRight d)

/-- heading as a number of quarter turns clockwise from north -/
def quarter : Dir → Nat | .north => 0 | .east => 1 | .south => 2 | .west => 3

/-! ## positions and cells -/

/-- `p = (x, y)` is a cell of the grid -/
def inside (r : Robot) (p : Nat × Nat) : Prop := p.1 < r.width ∧ p.2 < r.height

instance (r : Robot) (p : Nat × Nat) : Decidable (inside r p) := by unfold inside; infer_instance

/-- the cell at `p = (x, y)`; `none` outside the grid -/
def cellAt (r : Robot) (p : Nat × Nat) : Option Cell :=
  if p.1 < r.width ∧ p.2 < r.height then (r.area[p.2]?).bind (·[p.1]?) else none

/-- the adjacent cell in absolute direction `d` (north is up: `y - 1`); `none` when it is outside -/
def ahead (r : Robot) : Dir → Option (Nat × Nat)
  | .north => if 0 < r.y then some (r.x, r.y - 1) else none
  | .east  => if r.x + 1 < r.width then some (r.x + 1, r.y) else none
  | .south => if r.y + 1 < r.height then some (r.x, r.y + 1) else none
  | .west  => if 0 < r.x then some (r.x - 1, r.y) else none

/-- the adjacent cell in relative direction `rel` -/
def neighbour (r : Robot) (rel : Rel) : Option (Nat × Nat) := ahead r (turn r.dir rel)

/-- CAN_MOVE: the adjacent cell exists and is not a wall -/
def canMove (r : Robot) (rel : Rel) : Bool :=
  match neighbour r rel with
  | none => false
  | some p =>
    match cellAt r p with
    | none => false
    | some c => c != .wall

/-! ## checkpoints -/

def checkpointNumber : Cell → Option Nat | .checkpoint n => some n | _ => none

/-- the numbers of the checkpoints still on the grid (row-major order) -/
def remaining (area : List (List Cell)) : List Nat := area.flatten.filterMap checkpointNumber

/-- replace the cell at `p = (x, y)` -/
def setCell (area : List (List Cell)) (p : Nat × Nat) (c : Cell) : List (List Cell) :=
  match area[p.2]? with
  | none => area
  | some row => area.set p.2 (row.set p.1 c)

/-! ## MOVE_FORWARD -/

inductive Outcome | moved (r : Robot) (result : Bool) | blocked
deriving DecidableEq, Repr

/-- One MOVE_FORWARD.  Blocked when the cell ahead is outside or a wall.  Otherwise the robot
    advances exactly one cell, keeps its heading, and
    * on the goal: if no checkpoint remains the goal is taken (becomes a space) and the result is TRUE;
    * on a checkpoint numbered `k ≤ power`: it is captured (becomes a space) and `power` grows by one
      when no checkpoint numbered `≤ power` remains;
    * anything else: nothing changes. -/
def step (r : Robot) : Outcome :=
  match neighbour r .forward with
  | none => .blocked
  | some p =>
    let there : Robot := { r with x := p.1, y := p.2 }
    match cellAt r p with
    | none => .blocked
    | some .wall => .blocked
    | some .space => .moved there false
    | some .goal =>
      if remaining r.area = [] then .moved { there with area := setCell r.area p .space } true
      else .moved there false
    | some (.checkpoint k) =>
      if k ≤ r.power then
        let area' := setCell r.area p .space
        if (remaining area').any (· ≤ r.power) then .moved { there with area := area' } false
        else .moved { there with area := area', power := r.power + 1 } false
      else .moved there false

def Outcome.toMoveRes : Outcome → MoveRes
  | .moved r b => .moved r b
  | .blocked => .blocked

/-! ## rendering (FORMAT_ROBOT_ASCII) as a function of the world -/

/-- what is drawn in cell `(x, y)`: the robot's heading on its own cell, the cell's glyph elsewhere -/
def drawCell (g : Glyphs) (r : Robot) (y x : Nat) (c : Cell) : Str :=
  (if (x, y) = (r.x, r.y) then g.dir r.dir else g.cell c) ++ [' ']

def drawRow (g : Glyphs) (r : Robot) (y : Nat) (row : List Cell) : Str :=
  [g.vbar, ' '] ++ (row.mapIdx (drawCell g r y)).flatten ++ [g.vbar, '\n']

def border (g : Glyphs) (l rt : Char) (w : Nat) : Str := [l] ++ List.replicate (w * 3) g.hbar ++ [g.hbar, rt, '\n']

def render (g : Glyphs) (r : Robot) : Str :=
  border g g.tl g.tr r.width ++ (r.area.mapIdx (drawRow g r)).flatten ++ border g g.bl g.br r.width

/-! ## command sequences in the grid world -/

/-- run a command list in the grid world (turn table, `Spec.canMove`, `Spec.step`), stopping at the
    first blocked move -/
def run : Robot → List Cmd → Run
  | r, [] => ⟨[r], [], .finished⟩
  | r, .left :: cs => (run { r with dir := turnLeft r.dir } cs).cons r .null
  | r, .right :: cs => (run { r with dir := turnRight r.dir } cs).cons r .null
  | r, .canMove d :: cs => (run r cs).cons r (.bool (canMove r d))
  | r, .move :: cs =>
    match step r with
    | .moved r' b => (run r' cs).cons r (.bool b)
    | .blocked => ⟨[r], [], .wall⟩

/-! ## the map text -/

/-- the robot markers of the map text -/
def robotMarkers : List Char := ['n', 'N', 's', 'S', 'e', 'E', 'w', 'W']

/-- every character a map may contain (besides the line ends) -/
def mapAlphabet : List Char :=
  ['#', '@', '.', ',', ' ', 'x', 'X', 'n', 'N', 's', 'S', 'e', 'E', 'w', 'W',
   '1', '2', '3', '4', '5', '6', '7', '8', '9']

/-- number of robot markers in a text -/
def robotCount (s : Str) : Nat := (s.filter (fun c => decide (c ∈ robotMarkers))).length

end Spec

/-! ## invariants -/

/-- Well-formed robot state: the grid is rectangular of the recorded size, the robot is inside it and
    is not on a wall. -/
structure WF (r : Robot) : Prop where
  rows : r.area.length = r.height
  cols : ∀ row ∈ r.area, row.length = r.width
  x_in : r.x < r.width
  y_in : r.y < r.height
  not_wall : Spec.cellAt r (r.x, r.y) ≠ some .wall

/-- Machine representability (what the Rust types guarantee, plus the inductive bound that keeps the
    `u8` counter from overflowing): a `Vec` has fewer than `2^63` elements; checkpoint numbers are the
    digits `1 ..= 9`; `checkpoint_power ≤ 9`, or `= 10` once no checkpoint is left. -/
structure Mach (r : Robot) : Prop where
  width_lt : r.width < 2^63
  height_lt : r.height < 2^63
  cp_le : ∀ k ∈ Spec.remaining r.area, k ≤ 9
  power_le : r.power ≤ 9 ∨ (r.power ≤ 10 ∧ Spec.remaining r.area = [])

/-- Ordering invariant of the checkpoint counter: every checkpoint still on the grid has a number
    `≥ power` (true after parsing, where `power = 1`; preserved by every command). -/
def Ordered (r : Robot) : Prop := ∀ k ∈ Spec.remaining r.area, r.power ≤ k

/-- A grid that can never be finished: checkpoints remain, all with numbers above `power`
    (e.g. checkpoints `1, 3` after the `1` was captured: `power = 2` and nothing numbered 2 exists). -/
def Stuck (r : Robot) : Prop := Spec.remaining r.area ≠ [] ∧ ∀ k ∈ Spec.remaining r.area, r.power < k

/-! ## running command sequences on the model -/

/-- run a command list on the MODEL, stopping at the first blocked move -/
def run : Robot → List Cmd → Run
  | r, [] => ⟨[r], [], .finished⟩
  | r, .left :: cs => (run (rotateLeft r) cs).cons r .null
  | r, .right :: cs => (run (rotateRight r) cs).cons r .null
  | r, .canMove d :: cs => (run r cs).cons r (.bool (canMove r d))
  | r, .move :: cs =>
    match moveForward r with
    | .moved r' b => (run r' cs).cons r (.bool b)
    | .blocked => ⟨[r], [], .wall⟩
    | .panic s => ⟨[r], [], .panic s⟩

/-- the checkpoint number captured by the move `r ⟶ r'` (the cell moved onto was a checkpoint and
    is a space afterwards), as a list of length ≤ 1 -/
def capturedBy (r r' : Robot) : List Nat :=
  match Spec.cellAt r (r'.x, r'.y), Spec.cellAt r' (r'.x, r'.y) with
  | some (.checkpoint k), some .space => [k]
  | _, _ => []

/-- the checkpoint numbers captured during a run, in order of capture -/
def captures : Robot → List Cmd → List Nat
  | _, [] => []
  | r, .left :: cs => captures (rotateLeft r) cs
  | r, .right :: cs => captures (rotateRight r) cs
  | r, .canMove _ :: cs => captures r cs
  | r, .move :: cs =>
    match moveForward r with
    | .moved r' _ => capturedBy r r' ++ captures r' cs
    | _ => []

/-- the state in which a run ends (the last element of `(run r cmds).states`) -/
def finalState : Robot → List Cmd → Robot
  | r, [] => r
  | r, .left :: cs => finalState (rotateLeft r) cs
  | r, .right :: cs => finalState (rotateRight r) cs
  | r, .canMove _ :: cs => finalState r cs
  | r, .move :: cs =>
    match moveForward r with
    | .moved r' _ => finalState r' cs
    | _ => r

/-- the values returned by the executed MOVE_FORWARD commands of a run -/
def moveResults : Robot → List Cmd → List Bool
  | _, [] => []
  | r, .left :: cs => moveResults (rotateLeft r) cs
  | r, .right :: cs => moveResults (rotateRight r) cs
  | r, .canMove _ :: cs => moveResults r cs
  | r, .move :: cs =>
    match moveForward r with
    | .moved r' b => b :: moveResults r' cs
    | _ => []

end Aplang.Robot
