import Aplang.Model.MapCell
/-!
# The ideal finite map, and operation histories on any number of maps

`FinMap` is the mathematical object the property C16 talks about: a partial function from keys to values,
"keyed by" an equality `eq` on keys.  `update eq f k v` stores `v` under **every key `eq`-equal to `k`**
(the `eq`-class of `k`) and leaves all other keys alone.

`eq` is only required to be a *partial* equivalence relation: a key `k` with `eq k k = false` (a NaN number,
under both the language's `==` and Rust's `Eq`) is in no class at all, so `update eq f k v = f` pointwise —
storing under such a key is unobservable through `get`/`contains`, and the returned "previous value" is
`NULL` every time.  This is deliberate: it is what makes the refinement theorems hold for *every* key,
NaN included, without a reflexivity hypothesis.

Histories: map identifiers are natural numbers; every identifier denotes a distinct map object, empty until
first inserted into (`MAP()` returns a fresh empty `HashMap` behind a fresh `Rc`).
-/
namespace Aplang.Spec
open Aplang.MapCell

/-- ideal finite map -/
abbrev FinMap := Value → Option Value

def FinMap.empty : FinMap := fun _ => none

/-- store `v` under the `eq`-class of `k` -/
def FinMap.update (eq : Value → Value → Bool) (f : FinMap) (k v : Value) : FinMap :=
  fun k' => if eq k k' then some v else f k'

/-- one call of the MAP library on map number `m` -/
inductive Op
  | insert (m : Nat) (k v : Value)    -- MAP_INSERT(m, k, v)
  | get (m : Nat) (k : Value)         -- MAP_GET(m, k)
  | contains (m : Nat) (k : Value)    -- MAP_CONTAINS_KEY(m, k)

def Op.map : Op → Nat
  | .insert m _ _ => m | .get m _ => m | .contains m _ => m

def Op.key : Op → Value
  | .insert _ k _ => k | .get _ k => k | .contains _ k => k

/-- the keys mentioned by a history -/
def keysOf (ops : List Op) : List Value := ops.map Op.key

/-- pointwise update of a family of maps -/
def setAt {α : Type} (σ : Nat → α) (i : Nat) (a : α) : Nat → α := fun j => if j = i then a else σ j

/-! ## ideal semantics -/

abbrev SpecStore := Nat → FinMap

def SpecStore.empty : SpecStore := fun _ => FinMap.empty

/-- result of one call on ideal maps keyed by `eq` -/
def specStep (eq : Value → Value → Bool) (τ : SpecStore) : Op → SpecStore × Value
  | .insert m k v => (setAt τ m (FinMap.update eq (τ m) k v), (τ m k).getD .null)
  | .get m k => (τ, (τ m k).getD .null)
  | .contains m k => (τ, .bool (τ m k).isSome)

def runSpecFrom (eq : Value → Value → Bool) (τ : SpecStore) : List Op → SpecStore × List Value
  | [] => (τ, [])
  | op :: ops =>
    let r := specStep eq τ op
    let rs := runSpecFrom eq r.1 ops
    (rs.1, r.2 :: rs.2)

/-- the results of a history on ideal maps keyed by `eq`, all maps initially empty -/
def runSpec (eq : Value → Value → Bool) (ops : List Op) : List Value :=
  (runSpecFrom eq SpecStore.empty ops).2

/-! ## model semantics (association-list cells) -/

abbrev Store := Nat → AMap

def Store.empty : Store := fun _ => []

/-- result of one call on the model's map cells (map.rs bodies) -/
def modelStep (σ : Store) : Op → Store × Value
  | .insert m k v => (setAt σ m (MapCell.insert (σ m) k v).1, (MapCell.insert (σ m) k v).2)
  | .get m k => (σ, MapCell.get (σ m) k)
  | .contains m k => (σ, .bool (MapCell.containsKey (σ m) k))

def runModelFrom (σ : Store) : List Op → Store × List Value
  | [] => (σ, [])
  | op :: ops =>
    let r := modelStep σ op
    let rs := runModelFrom r.1 ops
    (rs.1, r.2 :: rs.2)

/-- the results of a history on the model, all maps initially empty -/
def runModel (ops : List Op) : List Value := (runModelFrom Store.empty ops).2

end Aplang.Spec
