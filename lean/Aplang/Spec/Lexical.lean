import Aplang.Model.Lexer
/-!
# The lexical grammar as a reference segmentation  (properties C07, C06)

`Seg cfg src us` says: the source string `src` is the concatenation of the texts of the lexical units `us`,
and every unit is what the lexical grammar says it is **given the text that follows it** (maximal munch is a
condition on the following text, not a scanning order).  Nothing here mentions the scanner (`scanOne`,
`scanLoop`, `classify`, `scanString`); the only things shared with the model are the types (`TT`, `Lit`,
`LexErrKind`, `LexCfg`), `isAsciiDigit` and `numberValue` (= `Float.ofScientific` of the digits).

Vocabulary of the property (C07): blank, newline, comment, continuation, single-character token, two-character
operator, number, identifier/keyword, string literal, and the error units: lone `!`, lone `=`, `\` not followed
by a newline, a character in no class, a string with an unknown escape, an unterminated string.
-/
namespace Aplang.Spec.Lexical

/-- does the text start with a character satisfying `p`? (`false` at the end of the input) -/
def startsWith (p : Char → Bool) : Str → Bool
  | [] => false
  | d :: _ => p d

@[simp] theorem startsWith_nil (p) : startsWith p [] = false := rfl
@[simp] theorem startsWith_cons (p d r) : startsWith p (d :: r) = p d := rfl

/-- the single-character tokens -/
def punct : List (Char × TT) :=
  [('(', .leftParen), (')', .rightParen), ('[', .leftBracket), (']', .rightBracket), ('{', .leftBrace),
   ('}', .rightBrace), (',', .comma), ('.', .dot), ('-', .minus), ('+', .plus), ('*', .star), (';', .softSemi)]

/-- the two-character operators -/
def op2 : List (Char × Char × TT) :=
  [('<', '-', .arrow), ('<', '=', .lessEqual), ('>', '=', .greaterEqual), ('=', '=', .equalEqual),
   ('!', '=', .bangEqual)]

/-- space, tab, carriage return -/
def isBlank (c : Char) : Bool := c == ' ' || c == '\t' || c == '\r'

/-- the characters with a fixed lexical role: punctuation, operator characters, backslash, blanks, newline,
the quote -/
def special : List Char :=
  ['(', ')', '[', ']', '{', '}', ',', '.', '-', '+', '*', ';', '!', '=', '<', '>', '/', '\\', ' ', '\r', '\t',
   '\n', '"']

def isSpecial (c : Char) : Bool := special.contains c

/-- may start an identifier or keyword: alphanumeric, not an ASCII digit (and not one of the special
characters — vacuous for Unicode's `is_alphanumeric`, see `wordStart_of_sane`) -/
def wordStart (cfg : LexCfg) (c : Char) : Bool := cfg.isAlnum c && !isAsciiDigit c && !isSpecial c

/-- may continue an identifier or keyword -/
def wordChar (cfg : LexCfg) (c : Char) : Bool := cfg.isAlnum c || c == '_'

/-- a character in no lexical class (e.g. `_`, `#`, `@`, `'`, `%`, `é` is *not* one of them) -/
def noClass (cfg : LexCfg) (c : Char) : Bool := !isSpecial c && !isAsciiDigit c && !cfg.isAlnum c

/-- a non-empty string of ASCII digits -/
def IsDigits (ds : Str) : Prop := ds ≠ [] ∧ ∀ d ∈ ds, isAsciiDigit d = true

/-- the five escapes: what may follow a backslash inside a string, and what it stands for -/
def escapes : List (Char × Char) := [('n', '\n'), ('r', '\r'), ('t', '\t'), ('\\', '\\'), ('"', '"')]

def unescape (e : Char) : Option Char := escapes.lookup e

/-- the value of a string body (the text between the quotes): `none` when the text is not a body, i.e. contains
an unescaped quote, an unknown escape or ends in a backslash -/
def decode : Str → Option Str
  | [] => some []
  | c :: r =>
    if c = '"' then none
    else if c = '\\' then
      match r with
      | [] => none
      | e :: r' =>
        match unescape e with
        | none => none
        | some d => (decode r').map (d :: ·)
    else (decode r).map (c :: ·)

/-- kinds of lexical units -/
inductive UKind
  | blank | newline | comment | continuation
  | token (tt : TT) (lit : Lit)
  | error (k : LexErrKind)

/-- `IsUnit cfg k text rest`: `text` followed by `rest` is one lexical unit of kind `k` -/
inductive IsUnit (cfg : LexCfg) : UKind → Str → Str → Prop
  | blank (c rest) : isBlank c = true → IsUnit cfg .blank [c] rest
  | newline (rest) : IsUnit cfg .newline ['\n'] rest
  /-- `//` up to, excluding, the next newline or the end of the input -/
  | comment (body rest) : (∀ d ∈ body, d ≠ '\n') → startsWith (· != '\n') rest = false →
      IsUnit cfg .comment ('/' :: '/' :: body) rest
  | continuation (rest) : IsUnit cfg .continuation ['\\', '\n'] rest
  | punct (c tt rest) : (c, tt) ∈ punct → IsUnit cfg (.token tt .none) [c] rest
  | op2 (a b tt rest) : (a, b, tt) ∈ op2 → IsUnit cfg (.token tt .none) [a, b] rest
  /-- maximal munch: `<` followed by `=` or `-` is never a lone `<` -/
  | less (rest) : startsWith (fun d => d == '=' || d == '-') rest = false →
      IsUnit cfg (.token .less .none) ['<'] rest
  | greater (rest) : startsWith (· == '=') rest = false → IsUnit cfg (.token .greater .none) ['>'] rest
  | slash (rest) : startsWith (· == '/') rest = false → IsUnit cfg (.token .slash .none) ['/'] rest
  /-- digits, maximal; a following `.` is not part of the number unless a digit follows it -/
  | numberInt (ds rest) : IsDigits ds → startsWith isAsciiDigit rest = false →
      (∀ r, rest = '.' :: r → startsWith isAsciiDigit r = false) →
      IsUnit cfg (.token .number (.num (numberValue ds []))) ds rest
  | numberFrac (ds fs rest) : IsDigits ds → IsDigits fs → startsWith isAsciiDigit rest = false →
      IsUnit cfg (.token .number (.num (numberValue ds fs))) (ds ++ '.' :: fs) rest
  | keyword (c cs k rest) : wordStart cfg c = true → (∀ d ∈ cs, wordChar cfg d = true) →
      startsWith (wordChar cfg) rest = false → cfg.kw (c :: cs) = some k →
      IsUnit cfg (.token k .none) (c :: cs) rest
  | identifier (c cs rest) : wordStart cfg c = true → (∀ d ∈ cs, wordChar cfg d = true) →
      startsWith (wordChar cfg) rest = false → cfg.kw (c :: cs) = none →
      IsUnit cfg (.token .identifier .none) (c :: cs) rest
  | string (body v rest) : decode body = some v →
      IsUnit cfg (.token .stringLiteral (.str v)) ('"' :: body ++ ['"']) rest
  | loneBang (rest) : startsWith (· == '=') rest = false → IsUnit cfg (.error .loneBang) ['!'] rest
  | loneEq (rest) : startsWith (· == '=') rest = false → IsUnit cfg (.error .loneEq) ['='] rest
  | badBackslash (rest) : startsWith (· == '\n') rest = false → IsUnit cfg (.error .badBackslash) ['\\'] rest
  | unknownSymbol (c rest) : noClass cfg c = true → IsUnit cfg (.error .unknownSymbol) [c] rest
  /-- the unit ends right after the backslash (tokenisation resumes there) -/
  | badEscape (pre rest) : decode pre ≠ none → startsWith (fun e => (unescape e).isSome) rest = false →
      IsUnit cfg (.error .badEscape) ('"' :: pre ++ ['\\']) rest
  /-- the rest of the input -/
  | unterminated (body) : decode body ≠ none → IsUnit cfg (.error .unterminated) ('"' :: body) []

/-- a lexical unit: its kind and its text -/
structure LUnit where
  kind : UKind
  text : Str

/-- the reference segmentation of a source string -/
inductive Seg (cfg : LexCfg) : Str → List LUnit → Prop
  | nil : Seg cfg [] []
  | cons (k text rest us) : IsUnit cfg k text rest → Seg cfg rest us → Seg cfg (text ++ rest) (⟨k, text⟩ :: us)

/-- the error units, in order -/
def unitErrs : List LUnit → List LexErrKind
  | [] => []
  | ⟨.error k, _⟩ :: us => k :: unitErrs us
  | _ :: us => unitErrs us

/-- the tokens (kind, lexeme, literal) of a segmentation. `prev` = kind of the last token before the units.
**Statement-terminator rule**: a newline unit yields a `softSemi` token iff a previous token exists and its
kind is a statement ender; every other non-token unit yields nothing. -/
def unitToks (cfg : LexCfg) : Option TT → List LUnit → List (TT × Str × Lit)
  | _, [] => []
  | _, ⟨.token tt lit, text⟩ :: us => (tt, text, lit) :: unitToks cfg (some tt) us
  | prev, ⟨.newline, text⟩ :: us =>
    if prev.any cfg.ender then (.softSemi, text, .none) :: unitToks cfg (some .softSemi) us
    else unitToks cfg prev us
  | prev, _ :: us => unitToks cfg prev us

/-- kind of the last token of a segmentation (`prev` if it has none) -/
def lastTT (cfg : LexCfg) : Option TT → List LUnit → Option TT
  | prev, [] => prev
  | _, ⟨.token tt _, _⟩ :: us => lastTT cfg (some tt) us
  | prev, ⟨.newline, _⟩ :: us =>
    if prev.any cfg.ender then lastTT cfg (some .softSemi) us else lastTT cfg prev us
  | prev, _ :: us => lastTT cfg prev us

/-- the keyword kinds -/
def isKeywordKind : TT → Bool
  | .mod_ | .if_ | .else_ | .repeat_ | .times | .until_ | .for_ | .each | .continue_ | .break_ | .in_
  | .procedure | .return_ | .not_ | .and_ | .or_ | .true_ | .false_ | .null | .import_ | .export_ | .from_ => true
  | _ => false

/-- the keyword table only yields keyword kinds (checked on the live table in `Thm/C07b.lean`) -/
def KwProper (cfg : LexCfg) : Prop := ∀ s k, cfg.kw s = some k → isKeywordKind k = true

/-- the alphanumeric class says `false` on every special character (true of Unicode's `is_alphanumeric`) -/
def SaneAlnum (cfg : LexCfg) : Prop := ∀ c, isSpecial c = true → cfg.isAlnum c = false

theorem wordStart_of_sane {cfg : LexCfg} (h : SaneAlnum cfg) (c : Char) :
    wordStart cfg c = (cfg.isAlnum c && !isAsciiDigit c) := by
  unfold wordStart
  cases hs : isSpecial c
  · simp
  · simp [h c hs]

/-!
# Layouts of a token stream  (property C06)

A token stream is a list of abstract tokens `ATok` (kind + canonical text).  A *layout* puts a separator (any
sequence of blanks, newlines, `//` comments and `\`-newline continuations) before every token and after the
last one, chooses for every statement terminator whether it is written `;` or as a newline, and (because the
abstract `word` token carries its spelling) the case of every keyword.  `render` prints a layout,
`Admissible` says when the layout is allowed:

* no separator is omitted where the following text would extend the token (`NoExtend`): an identifier or
  keyword directly followed by an alphanumeric or `_`; a number by a digit (or, for a number without fraction,
  by `.` and a digit); `<` by `=` or `-`; `>` by `=`; `/` by `/` (that is also: `/` directly followed by a
  comment);
* a separator containing a newline (or a comment, which ends in one) only where the previous token is not a
  statement ender (or there is no previous token);
* a terminator is written as a newline only directly after a statement ender (blanks and continuations may
  stand in between).
-/

/-- abstract tokens -/
inductive ATok
  | punct (c : Char) (tt : TT)        -- one of the single-character tokens
  | op (a b : Char) (tt : TT)         -- one of the two-character operators
  | less | greater | slash
  | word (c : Char) (cs : Str)        -- identifier or keyword, with its spelling
  | number (ds fs : Str)              -- `ds` or `ds.fs` (`fs = []`: no fraction)
  | string (body : Str)               -- the raw text between the quotes
  | term (asNewline : Bool)           -- the statement terminator, written `;` or as a newline

def ATok.text : ATok → Str
  | .punct c _ => [c]
  | .op a b _ => [a, b]
  | .less => ['<'] | .greater => ['>'] | .slash => ['/']
  | .word c cs => c :: cs
  | .number ds [] => ds
  | .number ds (f :: fs) => ds ++ '.' :: f :: fs
  | .string body => '"' :: body ++ ['"']
  | .term false => [';']
  | .term true => ['\n']

def ATok.kind (cfg : LexCfg) : ATok → TT
  | .punct _ tt => tt
  | .op _ _ tt => tt
  | .less => .less | .greater => .greater | .slash => .slash
  | .word c cs => (cfg.kw (c :: cs)).getD .identifier
  | .number .. => .number
  | .string _ => .stringLiteral
  | .term _ => .softSemi

def ATok.lit : ATok → Lit
  | .number ds fs => .num (numberValue ds fs)
  | .string body => .str ((decode body).getD [])
  | _ => .none

/-- what `lex` must produce for the token: kind, lexeme, literal -/
def ATok.out (cfg : LexCfg) (t : ATok) : TT × Str × Lit := (t.kind cfg, t.text, t.lit)

def ATok.WF (cfg : LexCfg) : ATok → Prop
  | .punct c tt => (c, tt) ∈ Lexical.punct
  | .op a b tt => (a, b, tt) ∈ Lexical.op2
  | .word c cs => wordStart cfg c = true ∧ ∀ d ∈ cs, wordChar cfg d = true
  | .number ds fs => IsDigits ds ∧ (fs = [] ∨ IsDigits fs)
  | .string body => decode body ≠ none
  | _ => True

/-- what may stand between two tokens -/
inductive SepItem
  | blank (c : Char)          -- space, tab or carriage return
  | newline
  | comment (body : Str)      -- `//body` and the newline that ends it
  | continuation              -- backslash newline

def SepItem.text : SepItem → Str
  | .blank c => [c]
  | .newline => ['\n']
  | .comment body => '/' :: '/' :: body ++ ['\n']
  | .continuation => ['\\', '\n']

def SepItem.WF : SepItem → Prop
  | .blank c => isBlank c = true
  | .comment body => ∀ d ∈ body, d ≠ '\n'
  | _ => True

/-- does the item contain a newline unit? -/
def SepItem.hasNewline : SepItem → Bool
  | .newline | .comment _ => true
  | _ => false

abbrev Sep := List SepItem

def sepText : Sep → Str
  | [] => []
  | i :: s => i.text ++ sepText s

/-- a separator and the token after it -/
structure Piece where
  sep : Sep
  tok : ATok

/-- a `//` comment may end the input without a newline -/
def endText : Option Str → Str
  | none => []
  | some body => '/' :: '/' :: body

/-- print a layout: the pieces, the trailing separator, an optional final comment without newline -/
def render : List Piece → Sep → Option Str → Str
  | [], trail, ec => sepText trail ++ endText ec
  | p :: ps, trail, ec => sepText p.sep ++ (p.tok.text ++ render ps trail ec)

/-- the text `f` written directly after the token does not change the token -/
def NoExtend (cfg : LexCfg) : ATok → Str → Prop
  | .less, f => startsWith (fun d => d == '=' || d == '-') f = false
  | .greater, f => startsWith (· == '=') f = false
  | .slash, f => startsWith (· == '/') f = false
  | .word .., f => startsWith (wordChar cfg) f = false
  | .number _ [], f => startsWith isAsciiDigit f = false ∧ ∀ r, f = '.' :: r → startsWith isAsciiDigit r = false
  | .number _ (_ :: _), f => startsWith isAsciiDigit f = false
  | _, _ => True

/-- a separator with a newline in it is allowed only where the previous token is not a statement ender -/
def SepOk (cfg : LexCfg) (prev : Option TT) (s : Sep) : Prop :=
  s.any SepItem.hasNewline = true → prev.any cfg.ender = false

/-- a terminator may be written as a newline only after a statement ender -/
def TermOk (cfg : LexCfg) (prev : Option TT) : ATok → Prop
  | .term true => prev.any cfg.ender = true
  | _ => True

/-- `prev` = kind of the token before the pieces -/
def Admissible (cfg : LexCfg) : Option TT → List Piece → Sep → Option Str → Prop
  | prev, [], trail, _ => SepOk cfg prev trail
  | prev, p :: ps, trail, ec =>
    SepOk cfg prev p.sep ∧ TermOk cfg prev p.tok ∧ NoExtend cfg p.tok (render ps trail ec) ∧
      Admissible cfg (some (p.tok.kind cfg)) ps trail ec

def LayoutWF (cfg : LexCfg) (ps : List Piece) (trail : Sep) (ec : Option Str) : Prop :=
  (∀ p ∈ ps, (∀ i ∈ p.sep, i.WF) ∧ p.tok.WF cfg) ∧ (∀ i ∈ trail, i.WF) ∧ (∀ b, ec = some b → ∀ d ∈ b, d ≠ '\n')

/-! ### a sufficient, first-character form of `NoExtend` (the `merges` relation) -/

/-- would the character `d`, written directly after the token, extend it (or, for a number without
fraction followed by `.`, possibly extend it)? -/
def ATok.extendedBy (cfg : LexCfg) : ATok → Char → Bool
  | .less, d => d == '=' || d == '-'
  | .greater, d => d == '='
  | .slash, d => d == '/'
  | .word .., d => wordChar cfg d
  | .number _ [], d => isAsciiDigit d || d == '.'
  | .number _ (_ :: _), d => isAsciiDigit d
  | _, _ => false

/-- `merges a b`: the text of `b` written directly after `a` would (or might) change `a` -/
def merges (cfg : LexCfg) (a b : ATok) : Bool := startsWith (a.extendedBy cfg) b.text

/-- the keyword table is closed under ASCII upper- and lower-casing of a spelling -/
def CaseClosed (kw : Str → Option TT) : Prop :=
  ∀ s k, kw s = some k → kw (s.map Char.toUpper) = some k ∧ kw (s.map Char.toLower) = some k

/-- `b` is `a`, or the same keyword in upper or lower case, or the same terminator written the other way -/
inductive Variant (cfg : LexCfg) : ATok → ATok → Prop
  | same (a) : Variant cfg a a
  | upper (c cs c' cs' k) : cfg.kw (c :: cs) = some k → c' :: cs' = (c :: cs).map Char.toUpper →
      Variant cfg (.word c cs) (.word c' cs')
  | lower (c cs c' cs' k) : cfg.kw (c :: cs) = some k → c' :: cs' = (c :: cs).map Char.toLower →
      Variant cfg (.word c cs) (.word c' cs')
  | term (a b) : Variant cfg (.term a) (.term b)

/-- two layouts of the same stream: token by token variants of each other, separators unrelated -/
inductive Variants (cfg : LexCfg) : List Piece → List Piece → Prop
  | nil : Variants cfg [] []
  | cons {p q ps qs} : Variant cfg p.tok q.tok → Variants cfg ps qs → Variants cfg (p :: ps) (q :: qs)

end Aplang.Spec.Lexical
