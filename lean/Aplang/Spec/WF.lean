import Aplang.Model.Ast
/-!
# Static well-formedness of statements: where RETURN, BREAK and CONTINUE may stand

Mirrors the parser's admission flags (`in_loop_scope`, `in_function_scope`): BREAK / CONTINUE only
inside a loop of the same procedure body, RETURN only inside a procedure.
-/
namespace Aplang

mutual
/-- `WFStmt inLoop inFn s`: every BREAK / CONTINUE in `s` is inside a loop (of `s`, or the enclosing one when
`inLoop`), every RETURN inside a procedure (of `s`, or the enclosing one when `inFn`); a procedure body
starts outside of any loop -/
def WFStmt (inLoop inFn : Bool) : Stmt → Prop
  | .expr _ => True
  | .ifs _ t e _ _ => WFStmt inLoop inFn t ∧ WFOpt inLoop inFn e
  | .repeatTimes _ b _ _ _ => WFStmt true inFn b
  | .repeatUntil _ b _ _ => WFStmt true inFn b
  | .forEach _ _ _ b _ _ _ _ => WFStmt true inFn b
  | .procDecl _ _ b _ _ _ => WFStmt false true b
  | .block _ ss _ => WFList inLoop inFn ss
  | .ret _ _ => inFn = true
  | .cont _ => inLoop = true
  | .brk _ => inLoop = true
  | .import_ _ _ _ _ _ => True
def WFOpt (inLoop inFn : Bool) : Option Stmt → Prop
  | none => True
  | some s => WFStmt inLoop inFn s
def WFList (inLoop inFn : Bool) : List Stmt → Prop
  | [] => True
  | s :: ss => WFStmt inLoop inFn s ∧ WFList inLoop inFn ss
end

theorem WFList_iff (inLoop inFn : Bool) (ss : List Stmt) :
    WFList inLoop inFn ss ↔ ∀ s ∈ ss, WFStmt inLoop inFn s := by
  induction ss with
  | nil => simp [WFList]
  | cons s ss ih => simp [WFList, ih]

end Aplang
