import Aplang.Proofs.NativesFrame
import Aplang.Proofs.ListLemmas
/-!
# C04c — library calls: no action at a distance, and built lists are new

For every library procedure of the registry (all nine modules), every argument list, every state:

1. `library_call_frame` — a call that returns changes no cell that existed before it, except possibly the list, map
   or robot its *first* argument names, and removes no cell. (A memo, a shared "empty" list, a cache keyed by
   anything but the object itself would make some other existing cell change or be handed out again.)
2. `library_call_pure` — apart from the eight procedures that are meant to change their first argument (INSERT,
   APPEND, REMOVE, MAP_INSERT, ROTATE_LEFT, ROTATE_RIGHT, MOVE_FORWARD and its alias), no library procedure changes
   any existing cell at all.
3. `library_built_list_is_new` — the list SPLIT, TO_CHAR_ARRAY, MAP_KEYS, MAP_VALUES or DIRECTORY_READ returns is the
   cell allocated by that very call: nothing could refer to it before (`built_list_was_unreachable`), and two calls
   build two different lists (`two_builds_differ`), whatever the arguments.
-/
namespace Aplang

/-- **a library call changes at most the object its first argument names** -/
theorem library_call_frame (env : CharEnv) (n : Native) (args : List Value) (spans : List Span) (σ σ' : St) (v : Value)
    (h : callNative env n args spans σ = .ok (v, σ')) :
    σ.heap.length ≤ σ'.heap.length ∧
    ∀ b, b < σ.heap.length → args.head? ≠ some (.list b) → args.head? ≠ some (.obj b) → σ'.heap[b]? = σ.heap[b]? := by
  have hf := callNative_frame env n args spans σ v σ' h
  refine ⟨hf.1, fun b hb h1 h2 => hf.2 b hb ?_⟩
  intro ht
  cases args with
  | nil => simp [firstTarget] at ht
  | cons x rest =>
    cases x <;> simp [firstTarget] at ht
    · subst ht; exact h1 rfl
    · subst ht; exact h2 rfl

/-- a cell that holds something is inside the heap -/
theorem lt_of_getList {σ : St} {b : Nat} {vs : List Value} (hb : getList σ b = some vs) : b < σ.heap.length := by
  unfold getList at hb
  cases hc : σ.heap[b]? with
  | none => rw [hc] at hb; cases hb
  | some c => exact (List.getElem?_eq_some_iff.mp hc).1

/-- every list the first argument does not name reads the same after the call -/
theorem library_call_keeps_other_lists (env : CharEnv) (n : Native) (args : List Value) (spans : List Span) (σ σ' : St)
    (v : Value) (h : callNative env n args spans σ = .ok (v, σ')) (b : Nat) (vs : List Value)
    (hb : getList σ b = some vs) (h1 : args.head? ≠ some (.list b)) (h2 : args.head? ≠ some (.obj b)) :
    getList σ' b = some vs := by
  unfold getList
  rw [(library_call_frame env n args spans σ σ' v h).2 b (lt_of_getList hb) h1 h2]
  exact hb

/-- the eight procedures that change their first argument -/
theorem mutates_iff (n : Native) : n.mutates = true ↔
    n ∈ [Native.insert, .append, .remove, .mapInsert, .rotateLeft, .rotateRight, .moveForward, .moveFoward] := by
  cases n <;> simp [Native.mutates]

/-- **every other library procedure leaves every existing cell as it was** -/
theorem library_call_pure (env : CharEnv) (n : Native) (args : List Value) (spans : List Span) (σ σ' : St) (v : Value)
    (hn : n.mutates = false) (h : callNative env n args spans σ = .ok (v, σ')) :
    ∀ b, b < σ.heap.length → σ'.heap[b]? = σ.heap[b]? :=
  fun b hb => (callNative_pure env n args spans σ hn v σ' h).2 b hb (by simp)

/-- ... so every list reads the same after it, the first argument included -/
theorem library_call_pure_lists (env : CharEnv) (n : Native) (args : List Value) (spans : List Span) (σ σ' : St)
    (v : Value) (hn : n.mutates = false) (h : callNative env n args spans σ = .ok (v, σ')) (b : Nat) (vs : List Value)
    (hb : getList σ b = some vs) : getList σ' b = some vs := by
  unfold getList
  rw [library_call_pure env n args spans σ σ' v hn h b (lt_of_getList hb)]
  exact hb

/-- **the list a list-building library procedure returns is the cell this call allocated** -/
theorem library_built_list_is_new (env : CharEnv) (n : Native) (args : List Value) (spans : List Span) (σ σ' : St)
    (a : Nat) (hn : n.buildsList = true) (h : callNative env n args spans σ = .ok (.list a, σ')) :
    a = σ.heap.length ∧ σ'.heap.length = σ.heap.length + 1 :=
  callNative_builds_new env n args spans σ hn (.list a) σ' h a rfl

/-- nothing was stored there before: no variable, list element or map entry could refer to the new list -/
theorem built_list_was_unreachable (env : CharEnv) (n : Native) (args : List Value) (spans : List Span) (σ σ' : St)
    (a : Nat) (hn : n.buildsList = true) (h : callNative env n args spans σ = .ok (.list a, σ')) :
    getList σ a = none ∧ σ.heap[a]? = none := by
  have ha := (library_built_list_is_new env n args spans σ σ' a hn h).1
  subst ha
  exact ⟨getList_fresh σ, by simp⟩

/-- **two calls build two different lists** - the same procedure or another one, the same arguments or others, with
anything happening in between that does not shrink the heap (no statement does) -/
theorem two_builds_differ (env : CharEnv) (n₁ n₂ : Native) (args₁ args₂ : List Value) (spans₁ spans₂ : List Span)
    (σ σ₁ σ₂ σ₃ : St) (a₁ a₂ : Nat) (h1n : n₁.buildsList = true) (h2n : n₂.buildsList = true)
    (h1 : callNative env n₁ args₁ spans₁ σ = .ok (.list a₁, σ₁)) (hmid : σ₁.heap.length ≤ σ₂.heap.length)
    (h2 : callNative env n₂ args₂ spans₂ σ₂ = .ok (.list a₂, σ₃)) : a₁ ≠ a₂ := by
  have e1 := library_built_list_is_new env n₁ args₁ spans₁ σ σ₁ a₁ h1n h1
  have e2 := library_built_list_is_new env n₂ args₂ spans₂ σ₂ σ₃ a₂ h2n h2
  omega

/-! ## the premises are met: concrete calls -/

def envC : CharEnv := CharEnv.ascii
def spC : Span := default

/-- cell 0 = `[1, 2]`, cell 1 = a map with one entry, cell 2 = `[7]` -/
def σC : St :=
  { heap := [.list [.num 1, .num 2], .map [(.str ['k'], .str ['v'])], .list [.num 7]], scopes := [[]] }

example : callNative envC .split [.str ['a', ',', 'b'], .str [',']] [spC, spC] σC =
    .ok (.list 3, { σC with heap := σC.heap ++ [.list [.str ['a'], .str ['b']]] }) := by rfl
example : callNative envC .mapKeys [.obj 1, .num 0] [spC, spC] σC =
    .ok (.list 3, { σC with heap := σC.heap ++ [.list [.str ['k']]] }) := by rfl
example : callNative envC .append [.list 0, .num 3] [spC, spC] σC =
    .ok (.null, { σC with heap := [.list [.num 1, .num 2, .num 3], .map [(.str ['k'], .str ['v'])], .list [.num 7]] }) := by
  rfl
example : Native.buildsList .split = true ∧ Native.buildsList .mapKeys = true ∧ Native.mutates .append = true ∧
    Native.mutates .split = false := by decide

end Aplang
