import Aplang.Thm.C02
/-!
# C01 — expressions evaluate to the value the reference semantics defines

(1) `expr_refines_spec`: the model's expression evaluator *equals* the reference one on every expression,
state and fuel (part of the mutual refinement theorem). (2) The reference semantics says what the
property says: operands once and left to right, AND / OR short-circuit and yield the deciding operand,
truthiness, string + anything, division / MOD by zero and undefined combinations are runtime errors
raised after all earlier output.
-/
namespace Aplang

/-- the model evaluates every expression exactly as the reference semantics does -/
theorem expr_refines_spec (cfg : Cfg) (hc : CfgOK cfg) (f : Nat) (il : Bool) (e : Expr) (σ : St) (i : SInv il σ) :
    expr cfg f e σ = Spec.expr cfg f e σ :=
  ((refines hc parseWF f).expr il e σ i).1

section spec
variable (cfg : Cfg) (f : Nat)

/-- a binary operator evaluates its left operand, then its right operand, each exactly once, then applies -/
theorem binary_left_then_right_once (l r : Expr) (op : BinOp) (tok : Token) (σ : St) :
    Spec.expr cfg (f+1) (.binary l op r tok) σ =
      (Spec.expr cfg f l σ).bind fun (a, σ1) => (Spec.expr cfg f r σ1).bind fun (b, σ2) => binop op tok a b σ2 := by
  simp only [Spec.expr]
  try rfl

/-- OR: a truthy left operand is the result and the right operand is not evaluated; otherwise the right
operand is the result -/
theorem or_short_circuits (l r : Expr) (tok : Token) (σ : St) :
    Spec.expr cfg (f+1) (.logical l .or r tok) σ =
      (Spec.expr cfg f l σ).bind fun (a, σ1) => if truthy a then .ok (a, σ1) else Spec.expr cfg f r σ1 := by
  simp only [Spec.expr]
  try rfl

/-- AND: a falsy left operand is the result and the right operand is not evaluated -/
theorem and_short_circuits (l r : Expr) (tok : Token) (σ : St) :
    Spec.expr cfg (f+1) (.logical l .and r tok) σ =
      (Spec.expr cfg f l σ).bind fun (a, σ1) => if !truthy a then .ok (a, σ1) else Spec.expr cfg f r σ1 := by
  simp only [Spec.expr]
  try rfl

/-- parentheses are transparent -/
theorem grouping_transparent (e : Expr) (lp rp : Token) (σ : St) :
    Spec.expr cfg (f+1) (.grouping e lp rp) σ = Spec.expr cfg f e σ := by
  simp only [Spec.expr]

/-- arguments and list items are evaluated left to right, each once -/
theorem operands_left_to_right (e : Expr) (es : List Expr) (σ : St) :
    Spec.exprs cfg (f+1) (e :: es) σ =
      (Spec.expr cfg f e σ).bind fun (v, σ1) => (Spec.exprs cfg f es σ1).bind fun (vs, σ2) => .ok (v :: vs, σ2) := by
  simp only [Spec.exprs]
  try rfl

/-- `l[i] <- e` evaluates the list, then the index, then the value, each exactly once, then stores — also when the
value is itself an assignment (seeded change C05-e2 evaluated an inner assignment first) -/
theorem indexed_assignment_order (l idx value : Expr) (listTok lb rb arrow : Token) (σ : St) :
    Spec.expr cfg (f+1) (.set l listTok idx lb rb value arrow) σ =
      (Spec.expr cfg f l σ).bind fun (lv, σ1) => (Spec.expr cfg f idx σ1).bind fun (kv, σ2) =>
      (Spec.expr cfg f value σ2).bind fun (v, σ3) => indexWrite lv kv v listTok lb rb σ3 := by
  simp only [Spec.expr]
  try rfl

/-- an element read evaluates the list, then the index -/
theorem element_read_order (l k : Expr) (listTok lb rb : Token) (σ : St) :
    Spec.expr cfg (f+1) (.access l listTok k lb rb) σ =
      (Spec.expr cfg f l σ).bind fun (lv, σ1) => (Spec.expr cfg f k σ1).bind fun (kv, σ2) => indexRead lv kv listTok lb rb σ2 := by
  simp only [Spec.expr]
  try rfl

/-- `x <- e` evaluates the value once, then binds -/
theorem assignment_order (name : Str) (t1 t2 : Token) (value : Expr) (σ : St) :
    Spec.expr cfg (f+1) (.assign name t1 value t2) σ = (Spec.expr cfg f value σ).bind fun (v, σ1) => assignVar name v σ1 := by
  simp only [Spec.expr]
  try rfl

end spec

/-! ## the operators -/

/-- the truthiness rule: FALSE, 0 (and -0) and NULL are false, everything else — NaN, the empty string,
the empty list — is true -/
theorem truthiness_rule :
    truthy (.bool false) = false ∧ truthy (.bool true) = true ∧ truthy .null = false ∧
    truthy (.num 0) = false ∧ truthy (.num (-0.0)) = false ∧ truthy (.num 1) = true ∧ truthy (.num (-1)) = true ∧
    truthy (.num (0.0 / 0.0)) = true ∧ (∀ s, truthy (.str s) = true) ∧ (∀ a, truthy (.list a) = true) ∧
    (∀ a, truthy (.obj a) = true) := by
  refine ⟨rfl, rfl, rfl, by decide, by decide, by decide, by decide, by decide, fun _ => rfl, fun _ => rfl, fun _ => rfl⟩

/-- NOT uses the truthiness rule on every value -/
theorem not_uses_truthiness (tok : Token) (v : Value) (σ : St) : unop .not tok v σ = .ok (.bool (!truthy v), σ) := by
  cases v <;> rfl

/-- IEEE arithmetic and comparisons on numbers -/
theorem number_arithmetic (tok : Token) (x y : Float) (σ : St) :
    binop .add tok (.num x) (.num y) σ = .ok (.num (x + y), σ) ∧
    binop .sub tok (.num x) (.num y) σ = .ok (.num (x - y), σ) ∧
    binop .mul tok (.num x) (.num y) σ = .ok (.num (x * y), σ) ∧
    binop .lt tok (.num x) (.num y) σ = .ok (.bool (x < y), σ) ∧
    binop .le tok (.num x) (.num y) σ = .ok (.bool (x <= y), σ) ∧
    binop .gt tok (.num x) (.num y) σ = .ok (.bool (x > y), σ) ∧
    binop .ge tok (.num x) (.num y) σ = .ok (.bool (x >= y), σ) :=
  ⟨rfl, rfl, rfl, rfl, rfl, rfl, rfl⟩

/-- division and MOD: by zero (or -0) a runtime error at the operator, otherwise the IEEE quotient / remainder -/
theorem division_and_mod (tok : Token) (x y : Float) (σ : St) :
    binop .div tok (.num x) (.num y) σ =
      (if y != 0.0 then .ok (.num (x / y), σ) else .err ⟨"Division by Zero", tok.span⟩ σ) ∧
    binop .mod tok (.num x) (.num y) σ =
      (if y != 0.0 then .ok (.num (F64.fmod x y), σ) else .err ⟨"Modulo by Zero", tok.span⟩ σ) :=
  ⟨rfl, rfl⟩

/-- == and != are defined on every pair of values and never fail -/
theorem equality_total (tok : Token) (a b : Value) (σ : St) :
    binop .eqeq tok a b σ = .ok (.bool (langEq a b), σ) ∧ binop .ne tok a b σ = .ok (.bool (!langEq a b), σ) := by
  constructor <;> (cases a <;> cases b <;> rfl)

/-- string + anything concatenates the displayed form -/
theorem string_plus_is_display (tok : Token) (s : Str) (b : Value) (σ : St) :
    binop .add tok (.str s) b σ = (display σ b).bind fun t => .ok (.str (s ++ t), σ) := by
  cases b <;> rfl

/-- an operator / operand-kind combination the semantics leaves undefined is a runtime error at the operator:
here for the arithmetic and ordering operators on anything but two numbers (+ also accepts a string on the
left and two lists) -/
theorem undefined_combination_is_error (op : BinOp) (tok : Token) (a b : Value) (σ : St)
    (hop : op ≠ .eqeq ∧ op ≠ .ne)
    (hnum : ¬ ∃ x y, a = .num x ∧ b = .num y)
    (hstr : ¬ (op = .add ∧ ∃ s, a = .str s))
    (hlist : ¬ (op = .add ∧ ∃ x y, a = .list x ∧ b = .list y)) :
    binop op tok a b σ = .err ⟨"Incomparable Values", tok.span⟩ σ := by
  obtain ⟨h1, h2⟩ := hop
  cases op <;> first | exact absurd rfl h1 | exact absurd rfl h2 | skip
  all_goals (cases a <;> cases b <;> first | rfl | (exfalso; first
    | exact hnum ⟨_, _, rfl, rfl⟩ | exact hstr ⟨rfl, _, rfl⟩ | exact hlist ⟨rfl, _, _, rfl, rfl⟩))

/-- unary minus is defined on numbers only -/
theorem negation (tok : Token) (v : Value) (σ : St) :
    unop .neg tok v σ = match v with | .num x => .ok (.num (-x), σ) | _ => .err ⟨"Invalid Unary Op", tok.span⟩ σ := by
  cases v <;> rfl

/-- an operator application never skips silently: on scalars it is a value or a runtime error carrying the
state (hence the output) of the moment (string + x is `string_plus_is_display`, list + list allocates) -/
theorem binop_value_or_error (op : BinOp) (tok : Token) (a b : Value) (σ : St)
    (ha : ∀ x, a ≠ .list x) (hs : ∀ x, a ≠ .str x) :
    (∃ v, binop op tok a b σ = .ok (v, σ)) ∨ (∃ e, binop op tok a b σ = .err e σ) := by
  cases op <;> cases a <;> cases b <;>
    first
    | exact absurd rfl (ha _) | exact absurd rfl (hs _)
    | exact Or.inl ⟨_, rfl⟩ | exact Or.inr ⟨_, rfl⟩
    | (simp only [binop]; split <;> first | exact Or.inl ⟨_, rfl⟩ | exact Or.inr ⟨_, rfl⟩)

/-- lists and native objects are never `==`, not even to themselves (the reference semantics has no identity
comparison): seeded change C01-e2 made `a == a` TRUE for the same list object -/
theorem list_never_equal (a : Nat) (v : Value) : langEq (.list a) v = false ∧ langEq v (.list a) = false := by
  cases v <;> exact ⟨rfl, rfl⟩

theorem obj_never_equal (a : Nat) (v : Value) : langEq (.obj a) v = false ∧ langEq v (.obj a) = false := by
  cases v <;> exact ⟨rfl, rfl⟩

/-- values of different sorts are never `==` -/
theorem langEq_cross_sort (a b : Value) (h : langEq a b = true) :
    (∃ x y, a = .num x ∧ b = .num y) ∨ (∃ s, a = .str s ∧ b = .str s) ∨ (∃ p, a = .bool p ∧ b = .bool p) ∨ (a = .null ∧ b = .null) := by
  cases a <;> cases b <;> simp_all [langEq]

/-- on text, truth values and NULL, `==` is reflexive and symmetric (on numbers it is the epsilon comparison, which fails
for NaN and the infinities: `Thm/C16`) -/
theorem langEq_refl_nonnum (v : Value) (h : (∀ x, v ≠ .num x) ∧ (∀ a, v ≠ .list a) ∧ (∀ a, v ≠ .obj a)) : langEq v v = true := by
  cases v <;> simp_all [langEq]

theorem equal_lists_compare_false (tok : Token) (a : Nat) (σ : St) :
    binop .eqeq tok (.list a) (.list a) σ = .ok (.bool false, σ) ∧ binop .ne tok (.list a) (.list a) σ = .ok (.bool true, σ) :=
  ⟨rfl, rfl⟩

end Aplang
