import Aplang.Model.Robot
import Aplang.Spec.Grid
import Aplang.Proofs.RobotLemmas
/-!
# C17 — ROBOT grid world

Model: `Aplang/Model/Robot.lean` (mirror of `src/standard_library/robot.rs`).
Spec : `Aplang/Spec/Grid.lean`   (grid world in the property's vocabulary).

Hypotheses used below
* `WF r`   — the safety invariant of the property (rectangular grid, robot inside, not on a wall).
* `Mach r` — machine representability: `width, height < 2^63` (a Rust `Vec` never has more
  elements; needed because `can_move` probes column `-1` as `usize::MAX`), checkpoint numbers are
  digits, `checkpoint_power ≤ 10`.  It holds for every parsed map (`parse_mach`; the only input
  assumption is `ulen s < 2^63`, which every Rust `&str` satisfies) and is preserved by every
  command, so it is an invariant too, not an extra assumption on the runs considered by C17.
* `Ordered r` — every remaining checkpoint number is `≥ power` (holds after parsing, preserved).

No theorem in this file is `_partial`.
-/
namespace Aplang.Robot
open Spec

/-! ## a concrete non-trivial grid used for the non-vacuity examples -/

/-- ```
    #.1
    .n.
    x..
    ``` -/
def demoText : Str := "#.1\n.n.\nx..".toList

def demo : Robot :=
  { area := [[.wall, .space, .checkpoint 1], [.space, .space, .space], [.goal, .space, .space]],
    width := 3, height := 3, x := 1, y := 1, dir := .north, power := 1 }

theorem demo_parse : parse demoText = some demo := by decide

/-! ## parsing -/

/-- Parsing yields a rectangular grid with the robot inside it, standing on a space cell, `power = 1`. -/
theorem parse_wf {s : Str} {r : Robot} (h : parse s = some r) : WF r :=
  (parse_wf_lemma h).1

theorem parse_on_space {s : Str} {r : Robot} (h : parse s = some r) :
    Spec.cellAt r (r.x, r.y) = some .space ∧ r.power = 1 := by
  obtain ⟨_, _, _, _, hp, _⟩ := parse_rows_facts h
  exact ⟨(parse_wf_lemma h).2, hp⟩

/-- every Rust string is shorter than `2^63` bytes; then the parsed robot is machine-representable -/
theorem parse_mach {s : Str} {r : Robot} (hs : ulen s < 2^63) (h : parse s = some r) : Mach r :=
  parse_mach_lemma hs h

theorem parse_ordered {s : Str} {r : Robot} (h : parse s = some r) : Ordered r :=
  parse_ordered_lemma h

/-- the map determines width and height: the longest line (in bytes) and the number of lines -/
theorem parse_size {s : Str} {r : Robot} (h : parse s = some r) :
    r.width = maxWidth (lines s) ∧ r.height = (lines s).length := by
  obtain ⟨_, _, hw, hh, _⟩ := parse_rows_facts h
  exact ⟨hw, hh⟩

theorem demo_wf : WF demo := parse_wf demo_parse
theorem demo_mach : Mach demo := parse_mach (by decide) demo_parse
theorem demo_ordered : Ordered demo := parse_ordered demo_parse

/-! ## CAN_MOVE -/

/-- the Rust `can_move` (isize casts, lexicographic tuple test, `usize` probes) IS the grid-world test -/
theorem can_move_eq_spec {r : Robot} (h : WF r) (hm : Mach r) (d : Rel) :
    canMove r d = Spec.canMove r d := canMove_eq_spec r h hm d

/-- CAN_MOVE(direction) is true exactly when the adjacent cell in that relative direction is inside
    the grid and not a wall — including row 0 and column 0. -/
theorem can_move_iff {r : Robot} (h : WF r) (hm : Mach r) (d : Rel) :
    canMove r d = true ↔
      ∃ p, Spec.neighbour r d = some p ∧ Spec.inside r p ∧ Spec.cellAt r p ≠ some .wall := by
  rw [canMove_eq_spec r h hm]
  unfold Spec.canMove
  cases hn : Spec.neighbour r d with
  | none => simp
  | some p =>
    have hin : Spec.inside r p := ahead_inside h hn
    obtain ⟨c, hc⟩ := h.cell_exists hin
    simp only [hc]
    constructor
    · intro hb
      refine ⟨p, rfl, hin, ?_⟩
      rw [hc]; intro e; cases e; simp at hb
    · rintro ⟨q, hq, _, hw⟩
      cases hq
      rw [hc] at hw
      cases c <;> simp at hw ⊢

/-- outside the grid there is no neighbour: CAN_MOVE is false at the border -/
theorem can_move_border {r : Robot} (h : WF r) (hm : Mach r) (d : Rel)
    (hb : Spec.neighbour r d = none) : canMove r d = false := by
  rw [canMove_eq_spec r h hm]; simp [Spec.canMove, hb]

/-- the direction words of CAN_MOVE (ASCII-case-insensitive); anything else is not a direction -/
theorem parseRel_words :
    parseRel "forward".toList = some .forward ∧ parseRel "LEFT".toList = some .left ∧
    parseRel "Right".toList = some .right ∧ parseRel "backWARD".toList = some .backward ∧
    parseRel "up".toList = none ∧ parseRel [] = none := by decide

example : WF demo ∧ Mach demo ∧ canMove demo .left = true ∧ canMove demo .forward = true :=
  ⟨demo_wf, demo_mach, by decide, by decide⟩
-- row 0 / column 0: robot in the corner (0,0) heading north
example : ∃ r, parse "n.\n..".toList = some r ∧ canMove r .forward = false ∧ canMove r .left = false ∧
    canMove r .right = true ∧ canMove r .backward = true := by decide
-- column 0 in a row > 0 (the `usize::MAX` probe)
example : ∃ r, parse "..\nn.".toList = some r ∧ canMove r .left = false ∧ canMove r .forward = true := by decide

/-! ## rotations -/

/-- ROTATE_LEFT / ROTATE_RIGHT keep position, grid and counter, and turn the heading by a quarter -/
theorem rotate_no_move (r : Robot) :
    ((rotateLeft r).x = r.x ∧ (rotateLeft r).y = r.y ∧ (rotateLeft r).area = r.area ∧
      (rotateLeft r).width = r.width ∧ (rotateLeft r).height = r.height ∧
      (rotateLeft r).power = r.power ∧ (rotateLeft r).dir = Spec.turnLeft r.dir) ∧
    ((rotateRight r).x = r.x ∧ (rotateRight r).y = r.y ∧ (rotateRight r).area = r.area ∧
      (rotateRight r).width = r.width ∧ (rotateRight r).height = r.height ∧
      (rotateRight r).power = r.power ∧ (rotateRight r).dir = Spec.turnRight r.dir) :=
  ⟨⟨rfl, rfl, rfl, rfl, rfl, rfl, rotateLeft_dir r⟩, ⟨rfl, rfl, rfl, rfl, rfl, rfl, rotateRight_dir r⟩⟩

/-- the turn is 90°: one quarter clockwise / counter-clockwise in ℤ₄ -/
theorem rotate_quarter (r : Robot) :
    Spec.quarter (rotateRight r).dir = (Spec.quarter r.dir + 1) % 4 ∧
    Spec.quarter (rotateLeft r).dir = (Spec.quarter r.dir + 3) % 4 := by
  rw [rotateRight_dir, rotateLeft_dir]
  cases r.dir <;> exact ⟨rfl, rfl⟩

theorem rotate_left_right (r : Robot) : rotateLeft (rotateRight r) = r ∧ rotateRight (rotateLeft r) = r := by
  cases r with | mk a w h x y d p => cases d <;> exact ⟨rfl, rfl⟩

theorem rotate_four (r : Robot) :
    rotateLeft (rotateLeft (rotateLeft (rotateLeft r))) = r ∧
    rotateRight (rotateRight (rotateRight (rotateRight r))) = r := by
  cases r with | mk a w h x y d p => cases d <;> exact ⟨rfl, rfl⟩

theorem rotate_wf {r : Robot} (h : WF r) : WF (rotateLeft r) ∧ WF (rotateRight r) :=
  ⟨⟨h.rows, h.cols, h.x_in, h.y_in, h.not_wall⟩, ⟨h.rows, h.cols, h.x_in, h.y_in, h.not_wall⟩⟩

theorem rotate_mach {r : Robot} (h : Mach r) : Mach (rotateLeft r) ∧ Mach (rotateRight r) :=
  ⟨⟨h.width_lt, h.height_lt, h.cp_le, h.power_le⟩, ⟨h.width_lt, h.height_lt, h.cp_le, h.power_le⟩⟩

theorem rotate_ordered {r : Robot} (h : Ordered r) : Ordered (rotateLeft r) ∧ Ordered (rotateRight r) :=
  ⟨h, h⟩

example : rotateLeft demo = { demo with dir := .west } ∧ rotateRight demo = { demo with dir := .east } := by
  decide

/-! ## MOVE_FORWARD -/

/-- on well-formed states the Rust `move_forward` is the grid-world `step` -/
theorem move_refines_step {r : Robot} (h : WF r) (hm : Mach r) :
    moveForward r = (Spec.step r).toMoveRes := moveForward_eq_step r h hm

theorem moved_iff_step {r r' : Robot} {b : Bool} (h : WF r) (hm : Mach r) :
    moveForward r = .moved r' b ↔ Spec.step r = .moved r' b := by
  rw [moveForward_eq_step r h hm]
  cases Spec.step r <;> simp [Spec.Outcome.toMoveRes]

/-- MOVE_FORWARD advances exactly one cell in the heading: the new position is the forward
    neighbour; heading and grid size are unchanged; the invariants are preserved. -/
theorem move_one_cell {r r' : Robot} {b : Bool} (h : WF r) (hm : Mach r)
    (hmv : moveForward r = .moved r' b) :
    Spec.neighbour r .forward = some (r'.x, r'.y) ∧ r'.dir = r.dir ∧
    r'.width = r.width ∧ r'.height = r.height ∧ WF r' ∧ Mach r' := by
  have hs := (moved_iff_step h hm).mp hmv
  obtain ⟨p, c, f⟩ := step_moved hs
  refine ⟨?_, f.dir_eq, f.width_eq, f.height_eq, step_wf h hs, step_mach hm hs⟩
  rw [f.nb, f.x_eq, f.y_eq]

/-- the forward neighbour differs from the old position by exactly one cell in the heading -/
theorem forward_neighbour_delta {r : Robot} {p : Nat × Nat} (hn : Spec.neighbour r .forward = some p) :
    match r.dir with
    | .north => p.1 = r.x ∧ p.2 + 1 = r.y
    | .east  => p.1 = r.x + 1 ∧ p.2 = r.y
    | .south => p.1 = r.x ∧ p.2 = r.y + 1
    | .west  => p.1 + 1 = r.x ∧ p.2 = r.y := by
  unfold Spec.neighbour Spec.turn at hn
  cases hd : r.dir <;> rw [hd] at hn <;> simp only [Spec.ahead] at hn <;> split at hn <;> cases hn <;>
    simp <;> omega

/-- MOVE_FORWARD is refused (→ the program is terminated) exactly when CAN_MOVE("forward") is false -/
theorem blocked_iff {r : Robot} (h : WF r) (hm : Mach r) :
    moveForward r = .blocked ↔ canMove r .forward = false := by
  rw [moveForward_eq_step r h hm, canMove_eq_spec r h hm, ← step_blocked_iff]
  cases Spec.step r <;> simp [Spec.Outcome.toMoveRes]

/-- no `usize` underflow/overflow, no out-of-range index, never into a wall, no `u8` overflow -/
theorem move_no_panic {r : Robot} (h : WF r) (hm : Mach r) : ∀ s, moveForward r ≠ .panic s := by
  intro s
  rw [moveForward_eq_step r h hm]
  cases Spec.step r <;> simp [Spec.Outcome.toMoveRes]

/-- a move never ends on a wall (the `AreaCell::Wall => panic!` arm is dead) -/
theorem move_not_into_wall {r r' : Robot} {b : Bool} (h : WF r) (hm : Mach r)
    (hmv : moveForward r = .moved r' b) :
    Spec.cellAt r (r'.x, r'.y) ≠ some .wall ∧ Spec.cellAt r' (r'.x, r'.y) ≠ some .wall := by
  have hs := (moved_iff_step h hm).mp hmv
  obtain ⟨p, c, f⟩ := step_moved hs
  have hp : (r'.x, r'.y) = p := by rw [f.x_eq, f.y_eq]
  refine ⟨?_, (step_wf h hs).not_wall⟩
  rw [hp, f.cell]; intro e; cases e; exact f.not_wall rfl

example : moveForward demo = .moved { demo with y := 0 } false := by decide
example : moveForward (rotateLeft (rotateLeft demo)) ≠ .blocked := by decide
-- blocked at the border and at a wall
example : ∃ r, parse "n#".toList = some r ∧ moveForward r = .blocked ∧
    moveForward (rotateRight r) = .blocked := by decide

/-! ## command sequences: the invariant -/

theorem run_states_ne_nil (r : Robot) (cmds : List Cmd) : (run r cmds).states ≠ [] := by
  cases cmds with
  | nil => simp [run]
  | cons c cs =>
    cases c <;> simp only [run, Run.cons] <;> try simp
    cases moveForward r <;> simp

/-- **the robot is never outside the grid or on a wall**, and the robot code never panics, for
    every command sequence (induction over the sequence) -/
theorem robot_inv {r₀ : Robot} (h : WF r₀) (hm : Mach r₀) (cmds : List Cmd) :
    (∀ r ∈ (run r₀ cmds).states, WF r ∧ Mach r) ∧ ∀ s, (run r₀ cmds).stop ≠ .panic s := by
  induction cmds generalizing r₀ with
  | nil => simp [run, h, hm]
  | cons c cs ih =>
    cases c with
    | left =>
      have := ih (rotate_wf h).1 (rotate_mach hm).1
      simp only [run, Run.cons, List.mem_cons, forall_eq_or_imp]
      exact ⟨⟨⟨h, hm⟩, this.1⟩, this.2⟩
    | right =>
      have := ih (rotate_wf h).2 (rotate_mach hm).2
      simp only [run, Run.cons, List.mem_cons, forall_eq_or_imp]
      exact ⟨⟨⟨h, hm⟩, this.1⟩, this.2⟩
    | canMove d =>
      have := ih h hm
      simp only [run, Run.cons, List.mem_cons, forall_eq_or_imp]
      exact ⟨⟨⟨h, hm⟩, this.1⟩, this.2⟩
    | move =>
      simp only [run]
      cases hmv : moveForward r₀ with
      | moved r' b =>
        obtain ⟨_, _, _, _, hw', hm'⟩ := move_one_cell h hm hmv
        have := ih hw' hm'
        simp only [Run.cons, List.mem_cons, forall_eq_or_imp]
        exact ⟨⟨⟨h, hm⟩, this.1⟩, this.2⟩
      | blocked => simp [h, hm]
      | panic s => exact absurd hmv (move_no_panic h hm s)

/-- from any parsed map, whatever the commands: inside the grid, on a non-wall cell, no panic -/
theorem parsed_robot_safe {s : Str} {r₀ : Robot} (hs : ulen s < 2^63) (hp : parse s = some r₀)
    (cmds : List Cmd) :
    (∀ r ∈ (run r₀ cmds).states, r.x < r.width ∧ r.y < r.height ∧
        ∃ c, Spec.cellAt r (r.x, r.y) = some c ∧ c ≠ .wall) ∧
    ∀ site, (run r₀ cmds).stop ≠ .panic site := by
  have inv := robot_inv (parse_wf hp) (parse_mach hs hp) cmds
  refine ⟨?_, inv.2⟩
  intro r hr
  have hw := (inv.1 r hr).1
  obtain ⟨c, hc⟩ := hw.cell_exists (p := (r.x, r.y)) ⟨hw.x_in, hw.y_in⟩
  exact ⟨hw.x_in, hw.y_in, c, hc, fun e => hw.not_wall (by rw [hc, e])⟩

/-- **the whole command semantics follows the grid-world model**: states visited, values returned
    and the way the run ends are those of `Spec.run` (turn table, `Spec.canMove`, `Spec.step`) -/
theorem run_refines {r₀ : Robot} (h : WF r₀) (hm : Mach r₀) (cmds : List Cmd) :
    run r₀ cmds = Spec.run r₀ cmds := by
  induction cmds generalizing r₀ with
  | nil => rfl
  | cons c cs ih =>
    cases c with
    | left =>
      have e : rotateLeft r₀ = { r₀ with dir := Spec.turnLeft r₀.dir } := by
        rw [← rotateLeft_dir]; rfl
      simp only [run, Spec.run]
      rw [ih (rotate_wf h).1 (rotate_mach hm).1, e]
    | right =>
      have e : rotateRight r₀ = { r₀ with dir := Spec.turnRight r₀.dir } := by
        rw [← rotateRight_dir]; rfl
      simp only [run, Spec.run]
      rw [ih (rotate_wf h).2 (rotate_mach hm).2, e]
    | canMove d =>
      simp only [run, Spec.run]
      rw [ih h hm, canMove_eq_spec r₀ h hm]
    | move =>
      simp only [run, Spec.run]
      rw [moveForward_eq_step r₀ h hm]
      cases hs : Spec.step r₀ with
      | blocked => rfl
      | moved r' b =>
        simp only [Spec.Outcome.toMoveRes]
        rw [ih (step_wf h hs) (step_mach hm hs)]

/-- a blocked MOVE_FORWARD terminates the program without moving the robot: the run stops in the
    very state in which CAN_MOVE("forward") is false, and that state is the last one -/
theorem blocked_move_terminates_unmoved {r₀ : Robot} (h : WF r₀) (hm : Mach r₀) (cmds : List Cmd)
    (hstop : (run r₀ cmds).stop = .wall) :
    ∃ r, (run r₀ cmds).states.getLast? = some r ∧ canMove r .forward = false := by
  induction cmds generalizing r₀ with
  | nil => simp [run] at hstop
  | cons c cs ih =>
    have step : ∀ (r1 : Robot) (o : Obs), WF r1 → Mach r1 → ((run r1 cs).cons r₀ o).stop = .wall →
        ∃ r, ((run r1 cs).cons r₀ o).states.getLast? = some r ∧ canMove r .forward = false := by
      intro r1 o h1 m1 hst
      obtain ⟨r, hr, hc⟩ := ih h1 m1 hst
      refine ⟨r, ?_, hc⟩
      simp only [Run.cons]
      rw [List.getLast?_cons, hr]; rfl
    cases c with
    | left => exact step _ _ (rotate_wf h).1 (rotate_mach hm).1 hstop
    | right => exact step _ _ (rotate_wf h).2 (rotate_mach hm).2 hstop
    | canMove d => exact step _ _ h hm hstop
    | move =>
      simp only [run] at hstop ⊢
      cases hmv : moveForward r₀ with
      | moved r' b =>
        rw [hmv] at hstop
        obtain ⟨_, _, _, _, hw', hm'⟩ := move_one_cell h hm hmv
        exact step _ _ hw' hm' hstop
      | blocked => exact ⟨r₀, by simp, (blocked_iff h hm).mp hmv⟩
      | panic s => rw [hmv] at hstop; cases hstop

/-- the ASCII picture shown by FORMAT_ROBOT_ASCII is the drawing of the world (robot heading on its
    cell, remaining checkpoints as digits, …); the formatter never indexes out of range -/
theorem fmtAscii_eq_render {r : Robot} (h : WF r) : fmtAscii r = Spec.render asciiGlyphs r :=
  fmtGrid_eq_render _ r h

theorem fmtUnicode_eq_render {r : Robot} (h : WF r) : fmtUnicode r = Spec.render unicodeGlyphs r :=
  fmtGrid_eq_render _ r h

/-- **C17 for parsed maps, in one statement**: for every map text and every command sequence, the
    states visited, the values returned (CAN_MOVE, MOVE_FORWARD) and the way the run ends are those of
    the grid-world model, every visited state is rendered by FORMAT_ROBOT_ASCII as the drawing of
    that world, and the robot code never panics. -/
theorem parsed_run_follows_spec {s : Str} {r₀ : Robot} (hs : ulen s < 2^63) (hp : parse s = some r₀)
    (cmds : List Cmd) :
    run r₀ cmds = Spec.run r₀ cmds ∧
    (∀ r ∈ (run r₀ cmds).states, WF r ∧ fmtAscii r = Spec.render asciiGlyphs r) ∧
    ∀ site, (run r₀ cmds).stop ≠ .panic site := by
  have hw := parse_wf hp
  have hm := parse_mach hs hp
  have inv := robot_inv hw hm cmds
  exact ⟨run_refines hw hm cmds, fun r hr => ⟨(inv.1 r hr).1, fmtAscii_eq_render (inv.1 r hr).1⟩, inv.2⟩

example : (run demo [.canMove .left, .left, .move, .move]).stop = .wall ∧
    (run demo [.canMove .left, .left, .move, .move]).obs = [.bool true, .null, .bool false] ∧
    ((run demo [.canMove .left, .left, .move, .move]).states.map fun r => (r.x, r.y, r.dir)) =
      [(1, 1, .north), (1, 1, .north), (1, 1, .west), (0, 1, .west)] := by decide
example : String.ofList (fmtAscii demo) = "+----------+\n| ## .. 11 |\n| .. nn .. |\n| XX .. .. |\n+----------+\n" := by
  decide

/-! ## checkpoints and the goal -/

/-- MOVE_FORWARD returns TRUE only on reaching the goal when no checkpoint is left on the grid
    (before and after the move); the goal cell is then taken. -/
theorem true_only_at_goal_with_none_left {r r' : Robot} (h : WF r) (hm : Mach r)
    (hmv : moveForward r = .moved r' true) :
    Spec.cellAt r (r'.x, r'.y) = some .goal ∧ Spec.remaining r.area = [] ∧
    Spec.remaining r'.area = [] ∧ r'.area = Spec.setCell r.area (r'.x, r'.y) .space := by
  have hs := (moved_iff_step h hm).mp hmv
  obtain ⟨p, c, f⟩ := step_moved hs
  have hp : (r'.x, r'.y) = p := by rw [f.x_eq, f.y_eq]
  rcases f.cases with h1 | h1 | ⟨k, h1⟩
  · exact absurd h1.2.2.1 (by simp)
  · obtain ⟨hc, hrem, ha, _, _⟩ := h1
    rw [hp]
    refine ⟨hc ▸ f.cell, hrem, ?_, ha⟩
    rw [ha]; exact remaining_nil_of_setCell hrem
  · exact absurd h1.2.2.2.1 (by simp)

/-- and conversely: reaching the goal with no checkpoint left returns TRUE -/
theorem goal_with_none_left_true {r r' : Robot} {b : Bool} (h : WF r) (hm : Mach r)
    (hmv : moveForward r = .moved r' b) (hg : Spec.cellAt r (r'.x, r'.y) = some .goal)
    (hrem : Spec.remaining r.area = []) : b = true := by
  have hs := (moved_iff_step h hm).mp hmv
  obtain ⟨p, c, f⟩ := step_moved hs
  have hp : (r'.x, r'.y) = p := by rw [f.x_eq, f.y_eq]
  rw [hp, f.cell] at hg
  cases hg
  rcases f.cases with h1 | h1 | ⟨k, h1⟩
  · exact absurd hrem (h1.2.2.2.1 rfl)
  · exact h1.2.2.2.2
  · cases h1.1

/-- The grid changes only by a capture: either nothing changes, or the cell moved onto becomes a
    space and it was the goal with no checkpoint left (result TRUE), or it was a checkpoint whose
    number `k` satisfies `k ≤ power`. The counter never decreases and grows by at most one. -/
theorem move_area_change {r r' : Robot} {b : Bool} (h : WF r) (hm : Mach r)
    (hmv : moveForward r = .moved r' b) :
    (r'.area = r.area ∧ r'.power = r.power ∧ b = false) ∨
    (r'.area = Spec.setCell r.area (r'.x, r'.y) .space ∧
      ((Spec.cellAt r (r'.x, r'.y) = some .goal ∧ Spec.remaining r.area = [] ∧ b = true ∧
          r'.power = r.power) ∨
       (∃ k, Spec.cellAt r (r'.x, r'.y) = some (.checkpoint k) ∧ k ≤ r.power ∧ b = false ∧
          (r'.power = r.power ∨ r'.power = r.power + 1)))) := by
  have hs := (moved_iff_step h hm).mp hmv
  obtain ⟨p, c, f⟩ := step_moved hs
  have hp : (r'.x, r'.y) = p := by rw [f.x_eq, f.y_eq]
  rw [hp]
  rcases f.cases with h1 | h1 | ⟨k, hc, hk, ha, hb, h1⟩
  · exact Or.inl ⟨h1.1, h1.2.1, h1.2.2.1⟩
  · exact Or.inr ⟨h1.2.2.1, Or.inl ⟨h1.1 ▸ f.cell, h1.2.1, h1.2.2.2.2, h1.2.2.2.1⟩⟩
  · refine Or.inr ⟨ha, Or.inr ⟨k, hc ▸ f.cell, hk, hb, ?_⟩⟩
    rcases h1 with ⟨e, _⟩ | ⟨e, _⟩
    · exact Or.inl e
    · exact Or.inr e

/-- The capture rule, for any well-formed state: stepping on checkpoint `k` captures it iff
    `k ≤ power`; otherwise nothing changes. -/
theorem capture_iff {r r' : Robot} {b : Bool} {k : Nat} (h : WF r) (hm : Mach r)
    (hmv : moveForward r = .moved r' b) (hc : Spec.cellAt r (r'.x, r'.y) = some (.checkpoint k)) :
    b = false ∧
    (k ≤ r.power → r'.area = Spec.setCell r.area (r'.x, r'.y) .space ∧
        Spec.cellAt r' (r'.x, r'.y) = some .space) ∧
    (r.power < k → r'.area = r.area ∧ r'.power = r.power) := by
  have hs := (moved_iff_step h hm).mp hmv
  obtain ⟨p, c, f⟩ := step_moved hs
  have hp : (r'.x, r'.y) = p := by rw [f.x_eq, f.y_eq]
  rw [hp] at hc ⊢
  rw [f.cell] at hc
  cases hc
  rcases f.cases with h1 | h1 | ⟨k', hc', hk, ha, hb, h1⟩
  · refine ⟨h1.2.2.1, ?_, fun _ => ⟨h1.1, h1.2.1⟩⟩
    intro hk; have := h1.2.2.2.2 k rfl; omega
  · cases h1.1
  · cases hc'
    refine ⟨hb, fun _ => ⟨ha, cellAt_setCell_self f.cell f.width_eq f.height_eq ha⟩, ?_⟩
    intro hlt; omega

/-- **collected in order.**  With the ordering invariant (true from every parsed map on), a
    checkpoint is captured only when its number equals `power`, and then it is a MINIMUM of the
    numbers still on the grid: no checkpoint with a smaller number is left. The invariant is
    preserved, so this holds along every run. -/
theorem checkpoints_in_order {r r' : Robot} {b : Bool} (h : WF r) (hm : Mach r)
    (ho : Ordered r) (hmv : moveForward r = .moved r' b) :
    Ordered r' ∧ r.power ≤ r'.power ∧
    (∀ k, Spec.cellAt r (r'.x, r'.y) = some (.checkpoint k) → r'.area ≠ r.area →
        k = r.power ∧ ∀ k' ∈ Spec.remaining r.area, k ≤ k') := by
  have hs := (moved_iff_step h hm).mp hmv
  refine ⟨step_ordered ho hs, ?_, ?_⟩
  · rcases move_area_change h hm hmv with h1 | ⟨_, h1 | ⟨_, _, _, _, h1⟩⟩
    · omega
    · omega
    · omega
  · intro k hc hne
    obtain ⟨_, hcap, hno⟩ := capture_iff h hm hmv hc
    have hle : k ≤ r.power := by
      by_cases hlt : r.power < k
      · exact absurd (hno hlt).1 hne
      · omega
    have hge : r.power ≤ k := ho k (cellAt_checkpoint_mem_remaining hc)
    have hk : k = r.power := by omega
    exact ⟨hk, fun k' hk' => hk ▸ ho k' hk'⟩

/-- along a run the captured numbers form a non-decreasing sequence, all `≥` the initial `power` -/
theorem captures_sorted {r₀ : Robot} (h : WF r₀) (hm : Mach r₀) (ho : Ordered r₀) (cmds : List Cmd) :
    (∀ k ∈ captures r₀ cmds, r₀.power ≤ k) ∧ (captures r₀ cmds).Pairwise (· ≤ ·) := by
  induction cmds generalizing r₀ with
  | nil => simp [captures]
  | cons c cs ih =>
    cases c with
    | left => simp only [captures]; exact ih (rotate_wf h).1 (rotate_mach hm).1 (rotate_ordered ho).1
    | right => simp only [captures]; exact ih (rotate_wf h).2 (rotate_mach hm).2 (rotate_ordered ho).2
    | canMove d => simp only [captures]; exact ih h hm ho
    | move =>
      simp only [captures]
      cases hmv : moveForward r₀ with
      | blocked => simp
      | panic s => simp
      | moved r' b =>
        obtain ⟨_, _, _, _, hw', hm'⟩ := move_one_cell h hm hmv
        have hs := (moved_iff_step h hm).mp hmv
        obtain ⟨ho', hpow, _⟩ := checkpoints_in_order h hm ho hmv
        have ih' := ih hw' hm' ho'
        have tail_ok : ∀ k ∈ captures r' cs, r₀.power ≤ k := fun k hk => Nat.le_trans hpow (ih'.1 k hk)
        simp only
        rcases (step_captured_perm hs).2 with e | ⟨k, e, hc, hk⟩
        · rw [e]; exact ⟨by simpa using tail_ok, by simpa using ih'.2⟩
        · rw [e]
          have hge := ho k (cellAt_checkpoint_mem_remaining hc)
          simp only [List.cons_append, List.nil_append, List.mem_cons, forall_eq_or_imp]
          refine ⟨⟨hge, tail_ok⟩, List.pairwise_cons.mpr ⟨?_, ih'.2⟩⟩
          intro k' hk'
          have := ih'.1 k' hk'
          omega

theorem finalState_last (r : Robot) (cmds : List Cmd) :
    (run r cmds).states.getLast? = some (finalState r cmds) := by
  induction cmds generalizing r with
  | nil => rfl
  | cons c cs ih =>
    cases c with
    | left => simp only [run, finalState, Run.cons]; rw [List.getLast?_cons, ih]; rfl
    | right => simp only [run, finalState, Run.cons]; rw [List.getLast?_cons, ih]; rfl
    | canMove d => simp only [run, finalState, Run.cons]; rw [List.getLast?_cons, ih]; rfl
    | move =>
      simp only [run, finalState]
      cases moveForward r with
      | moved r' b => simp only [Run.cons]; rw [List.getLast?_cons, ih]; rfl
      | blocked => rfl
      | panic s => rfl

/-- bookkeeping along a run: the numbers captured so far together with the numbers still on the
    grid are exactly (as a multiset) the numbers on the initial grid — checkpoints disappear only
    by being captured, and none appears -/
theorem captures_perm {r₀ : Robot} (h : WF r₀) (hm : Mach r₀) (cmds : List Cmd) :
    List.Perm (captures r₀ cmds ++ Spec.remaining (finalState r₀ cmds).area) (Spec.remaining r₀.area) ∧
    WF (finalState r₀ cmds) ∧ Mach (finalState r₀ cmds) := by
  induction cmds generalizing r₀ with
  | nil => exact ⟨by simp [captures, finalState], h, hm⟩
  | cons c cs ih =>
    cases c with
    | left => simp only [captures, finalState]; exact ih (rotate_wf h).1 (rotate_mach hm).1
    | right => simp only [captures, finalState]; exact ih (rotate_wf h).2 (rotate_mach hm).2
    | canMove d => simp only [captures, finalState]; exact ih h hm
    | move =>
      simp only [captures, finalState]
      cases hmv : moveForward r₀ with
      | blocked => exact ⟨by simp, h, hm⟩
      | panic s => exact ⟨by simp, h, hm⟩
      | moved r' b =>
        obtain ⟨_, _, _, _, hw', hm'⟩ := move_one_cell h hm hmv
        have hs := (moved_iff_step h hm).mp hmv
        have ih' := ih hw' hm'
        refine ⟨?_, ih'.2⟩
        simp only [List.append_assoc]
        exact (List.Perm.append_left _ ih'.1).trans (step_captured_perm hs).1

/-- **TRUE means: every checkpoint was collected, in order.**  If after any command sequence from
    an ordered state (e.g. a parsed map) MOVE_FORWARD returns TRUE, then the sequence of captured
    numbers is a non-decreasing arrangement of ALL checkpoint numbers of the initial grid. -/
theorem true_means_all_collected_in_order {r₀ r' : Robot} (h : WF r₀) (hm : Mach r₀) (ho : Ordered r₀)
    (cmds : List Cmd) (hmv : moveForward (finalState r₀ cmds) = .moved r' true) :
    List.Perm (captures r₀ cmds) (Spec.remaining r₀.area) ∧ (captures r₀ cmds).Pairwise (· ≤ ·) := by
  obtain ⟨hperm, hwf, hmf⟩ := captures_perm h hm cmds
  have hnone := (true_only_at_goal_with_none_left hwf hmf hmv).2.1
  rw [hnone, List.append_nil] at hperm
  exact ⟨hperm, (captures_sorted h hm ho cmds).2⟩

/-- the corridor `e12.x`: after three moves both checkpoints were captured in order, the fourth
    move reaches the goal and returns TRUE -/
example : ∃ r, parse "e12.x".toList = some r ∧ captures r [.move, .move, .move] = [1, 2] ∧
    moveResults r [.move, .move, .move, .move] = [false, false, false, true] := by decide

/-- **a skipped number makes the grid unwinnable** (what the code really does): when checkpoints
    remain and all their numbers exceed `power`, no command sequence ever changes the grid or the
    counter again, and MOVE_FORWARD never returns TRUE. -/
theorem stuck_forever {r₀ : Robot} (h : WF r₀) (hm : Mach r₀) (hs : Stuck r₀) (cmds : List Cmd) :
    (∀ r ∈ (run r₀ cmds).states, r.area = r₀.area ∧ r.power = r₀.power) ∧
    true ∉ moveResults r₀ cmds := by
  induction cmds generalizing r₀ with
  | nil => simp [run, moveResults]
  | cons c cs ih =>
    have step : ∀ (r1 : Robot) (o : Obs), (∀ r ∈ (run r1 cs).states, r.area = r₀.area ∧ r.power = r₀.power) →
        ∀ r ∈ ((run r1 cs).cons r₀ o).states, r.area = r₀.area ∧ r.power = r₀.power := by
      intro r1 o h1 r hr
      simp only [Run.cons, List.mem_cons] at hr
      rcases hr with rfl | hr
      · exact ⟨rfl, rfl⟩
      · exact h1 r hr
    cases c with
    | left =>
      have := ih (rotate_wf h).1 (rotate_mach hm).1 hs
      simp only [run, moveResults]
      exact ⟨step _ _ this.1, this.2⟩
    | right =>
      have := ih (rotate_wf h).2 (rotate_mach hm).2 hs
      simp only [run, moveResults]
      exact ⟨step _ _ this.1, this.2⟩
    | canMove d =>
      have := ih h hm hs
      simp only [run, moveResults]
      exact ⟨step _ _ this.1, this.2⟩
    | move =>
      simp only [run, moveResults]
      cases hmv : moveForward r₀ with
      | blocked => simp
      | panic s => simp
      | moved r' b =>
        obtain ⟨_, _, _, _, hw', hm'⟩ := move_one_cell h hm hmv
        obtain ⟨hb, ha, hp⟩ := step_stuck hs ((moved_iff_step h hm).mp hmv)
        have hs' : Stuck r' := by unfold Stuck; rw [ha, hp]; exact hs
        have := ih hw' hm' hs'
        refine ⟨step _ _ (fun r hr => ?_), ?_⟩
        · have := this.1 r hr; rw [ha, hp] at this; exact this
        · subst hb
          simp only [List.mem_cons, not_or]
          exact ⟨by simp, this.2⟩

/-- `e13x` after the first move: checkpoint 3 remains, `power = 2` -/
def stuckDemo : Robot :=
  { area := [[.space, .space, .checkpoint 3, .goal]], width := 4, height := 1, x := 1, y := 0,
    dir := .east, power := 2 }

example : ∃ r, parse "e13x".toList = some r ∧ moveForward r = .moved stuckDemo false := by decide
example : WF stuckDemo ∧ Stuck stuckDemo :=
  ⟨⟨rfl, by decide, by decide, by decide, by decide⟩, by unfold Stuck; decide⟩

/-! ### what is NOT true (counterexamples, checked by evaluation) -/

/-- the corridor `e11x`: two checkpoints with the same number are both captured (so "captured
    numbers strictly increase" is false), then the goal gives TRUE -/
example : ∃ r, parse "e11x".toList = some r ∧ captures r [.move, .move, .move] = [1, 1] ∧
    (run r [.move, .move, .move]).obs = [.bool false, .bool false, .bool true] := by decide

/-- the corridor `e13x`: after the `1` the counter is 2, the `3` is walked over but never captured,
    the goal answers FALSE — "every checkpoint can be collected" / "power = least remaining number"
    are false; by `stuck_forever` this grid can never be finished -/
example : ∃ r, parse "e13x".toList = some r ∧ captures r [.move, .move, .move] = [1] ∧
    (run r [.move, .move, .move]).obs = [.bool false, .bool false, .bool false] ∧
    ((run r [.move, .move, .move]).states.map fun q => (q.power, Spec.remaining q.area)) =
      [(1, [1, 3]), (2, [3]), (2, [3]), (2, [3])] := by decide

/-- a higher number before a lower one is simply not captured: `e21x` captures 1 only -/
example : ∃ r, parse "e21x".toList = some r ∧ captures r [.move, .move, .move] = [1] ∧
    (run r [.move, .move, .move]).obs = [.bool false, .bool false, .bool false] := by decide

/-- the ordering invariant is needed: a state that is not reachable from a parsed map (power 3 with
    checkpoints 3 and 1 left) captures the 3 before the 1 -/
def unorderedState : Robot :=
  { area := [[.space, .checkpoint 3, .checkpoint 1]], width := 3, height := 1,
    x := 0, y := 0, dir := .east, power := 3 }
example : captures unorderedState [.move, .move] = [3, 1] := by decide

/-- the comment in `from_str` says "exactly one goal" but the code accepts none or several -/
example : (parse "n".toList).isSome ∧ (parse "xnx".toList).isSome := by decide

example : WF demo ∧ Mach demo ∧ Ordered demo ∧
    captures demo [.move, .right, .move] = [1] := ⟨demo_wf, demo_mach, demo_ordered, by decide⟩

/-! ## malformed maps give NULL -/

/-- a successfully parsed map contains exactly one robot marker … -/
theorem parse_one_robot {s : Str} {r : Robot} (h : parse s = some r) : Spec.robotCount s = 1 := by
  rw [← robotCountC_eq]; exact parse_robotCountC h

/-- … and only characters of the map alphabet, `'\n'` and `'\r'` -/
theorem parse_alphabet {s : Str} {r : Robot} (h : parse s = some r) :
    ∀ c ∈ s, c ∈ Spec.mapAlphabet ∨ c = '\n' ∨ c = '\r' := by
  intro c hc
  by_cases hn : c = '\n'
  · exact Or.inr (Or.inl hn)
  by_cases hr : c = '\r'
  · exact Or.inr (Or.inr hr)
  by_cases ha : c ∈ Spec.mapAlphabet
  · exact Or.inl ha
  · have := parse_good h c hc hn hr
    rcases classify_bad_of_not_alphabet ha with e | e
    · exact absurd e this.1
    · exact absurd e this.2

/-- **malformed grid ⇒ NULL**: an unknown symbol anywhere (in particular the digit `0`, a tab, any
    non-ASCII character), no robot, or several robots -/
theorem malformed_grid_null (s : Str) :
    ((∃ c ∈ s, c ∉ Spec.mapAlphabet ∧ c ≠ '\n' ∧ c ≠ '\r') → parse s = none) ∧
    (Spec.robotCount s = 0 → parse s = none) ∧
    (2 ≤ Spec.robotCount s → parse s = none) := by
  refine ⟨?_, ?_, ?_⟩
  · rintro ⟨c, hc, ha, hn, hr⟩
    cases hp : parse s with
    | none => rfl
    | some r =>
      rcases parse_alphabet hp c hc with e | e | e
      · exact absurd e ha
      · exact absurd e hn
      · exact absurd e hr
  · intro h0
    cases hp : parse s with
    | none => rfl
    | some r => have := parse_one_robot hp; omega
  · intro h2
    cases hp : parse s with
    | none => rfl
    | some r => have := parse_one_robot hp; omega

/-- the `0` digit, spelled out -/
theorem zero_digit_null (s : Str) (h : '0' ∈ s) : parse s = none :=
  (malformed_grid_null s).1 ⟨'0', h, by decide, by decide, by decide⟩

/-- a carriage return that is not part of a `"\r\n"` line end is an unknown symbol too
    (`str::lines` keeps it) -/
example : parse "n\r".toList = none ∧ parse "n\r.".toList = none ∧ (parse "n\r\n".toList).isSome := by decide

example : parse "#.1\n.?.\nxn.".toList = none ∧ parse "#.1\n...\nx..".toList = none ∧
    parse "#.1\n.n.\nxs.".toList = none ∧ parse "n0".toList = none ∧ parse [] = none ∧
    parse "né".toList = none := by decide

/-! ## axioms -/

#print axioms demo_parse
#print axioms parse_wf
#print axioms parse_on_space
#print axioms parse_mach
#print axioms parse_ordered
#print axioms parse_size
#print axioms can_move_eq_spec
#print axioms can_move_iff
#print axioms can_move_border
#print axioms parseRel_words
#print axioms rotate_no_move
#print axioms rotate_quarter
#print axioms rotate_left_right
#print axioms rotate_four
#print axioms rotate_wf
#print axioms rotate_mach
#print axioms rotate_ordered
#print axioms move_refines_step
#print axioms moved_iff_step
#print axioms move_one_cell
#print axioms forward_neighbour_delta
#print axioms blocked_iff
#print axioms move_no_panic
#print axioms move_not_into_wall
#print axioms robot_inv
#print axioms parsed_robot_safe
#print axioms run_refines
#print axioms blocked_move_terminates_unmoved
#print axioms fmtAscii_eq_render
#print axioms fmtUnicode_eq_render
#print axioms parsed_run_follows_spec
#print axioms true_only_at_goal_with_none_left
#print axioms goal_with_none_left_true
#print axioms move_area_change
#print axioms capture_iff
#print axioms checkpoints_in_order
#print axioms captures_sorted
#print axioms finalState_last
#print axioms captures_perm
#print axioms true_means_all_collected_in_order
#print axioms stuck_forever
#print axioms parse_one_robot
#print axioms parse_alphabet
#print axioms malformed_grid_null
#print axioms zero_digit_null

end Aplang.Robot
