import Aplang.Model.Run
import Aplang.Gen.Sites
/-!
# C18 — one output channel

(i) Static: the census of output sites in `/repo/src` (regenerated on every run into `Gen/Sites.lean`)
is closed by the kernel: every site either goes through the channel macros (`display!`,
`display_error!`) or lies in the front ends that bind the channel. (ii) Model: everything the
evaluator shows is appended by `emit`; lexing and parsing have no way to output.
-/
namespace Aplang

/-- where a direct use of the process's streams is the binding of the channel, not a bypass -/
def siteAllowed (file what : String) : Bool :=
  what == "display!" || what == "display_error!" ||            -- through the channel
  file == "output.rs" ||                                        -- the native binding of the channel itself
  file == "main.rs" || file == "splash.rs" ||                   -- the command-line front end (diagnostics, splash)
  file == "wasm.rs" ||                                          -- the browser front end
  file == "verif.rs" ||                                         -- the verification hook (feature `verif`)
  (file == "lib.rs" && what == "println!") ||                   -- the crate's unit test
  (file == "standard_library/io.rs" && what == "io::stdout")    -- `stdout().flush()` in `input`, no bytes written

/-- every output site of the lexer, parser, evaluator and standard library goes through the channel -/
theorem every_output_site_goes_through_the_channel :
    Gen.outputSites.all (fun s => siteAllowed s.1 s.2) = true := by decide

def inDir (dir file : String) : Bool := dir.toList.isPrefixOf file.toList

/-- the lexer, the parser, the evaluator and every library module except `io.rs`'s flush contain no direct site at all -/
theorem core_files_have_only_channel_sites :
    (Gen.outputSites.filter (fun s =>
      (inDir "lexer/" s.1 || inDir "parser/" s.1 || inDir "interpreter/" s.1 ||
       inDir "standard_library/" s.1) && !(s.2 == "display!"))) =
      [("standard_library/io.rs", "io::stdout")] := by decide

theorem runTokens_front_end_silent (cfg fuel ts world path) :
    (∀ n, (runTokens cfg fuel ts world path).status = .parseErr n → (runTokens cfg fuel ts world path).output = []) ∧
    (∀ n, (runTokens cfg fuel ts world path).status ≠ .lexErr n) := by
  unfold runTokens
  cases parse (parseFuel ts.length) ts with
  | errs es => simp
  | panic p => simp
  | fuel => simp
  | ok prog =>
    simp only
    cases program cfg fuel prog (initState cfg world path) <;> simp

/-- lexing and parsing are silent: a run that fails in the front end has displayed nothing -/
theorem front_end_silent (cfg fuel src world path) :
    (∀ n, (run cfg fuel src world path).status = .lexErr n → (run cfg fuel src world path).output = []) ∧
    (∀ n, (run cfg fuel src world path).status = .parseErr n → (run cfg fuel src world path).output = []) := by
  unfold run
  by_cases h : (lex cfg.lex src).errors = []
  · simp only [h, List.isEmpty_nil, Bool.not_true, Bool.false_eq_true, ↓reduceIte]
    have := runTokens_front_end_silent cfg fuel (lex cfg.lex src).tokens world path
    exact ⟨fun n hn => absurd hn (this.2 n), this.1⟩
  · simp [h]

/-- the displayed bytes are exactly the events appended by `emit`, in order -/
theorem output_is_emit_events (σ : St) (text : Str) : (emit σ text).output = σ.output ++ text := by
  simp [emit, St.output]

end Aplang
