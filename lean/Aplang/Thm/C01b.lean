import Aplang.Proofs.OutputMono
import Aplang.Model.Config
/-!
# C01b (with C12) — runtime errors come *after all earlier output*; nothing displayed is ever retracted

Property text (C01): "Division or MOD by zero and undefined operator/operand combinations end the run with a
runtime error after all earlier output has been produced"; (C12): "standard output carries exactly the bytes
the program displayed before it ended".

Output is the event list `σ.out : List Str` (most recent first; `emit σ t = { σ with out := t :: σ.out }`); the
bytes on the output channel are `σ.output = σ.out.reverse.flatten`.

**Level.** The theorems are proved directly for the evaluator *model* (`expr`, `stmt`, `program`, … of
`Model/Interp.lean`, which `runTokens` / `run` of `Model/Run.lean` are made of), by induction on fuel over all
eight mutually recursive functions (`Proofs/OutputMono.lean`, `outAll`), for every helper, for all 80 native
procedures (`callNative_out`) and for IMPORT (`importStmt_out`: a user module's output is appended to the
importer's). They hold for *every* program, state, configuration and fuel: no well-formedness hypothesis, so
no transport through the refinement theorem is needed. The same statements are proved, by the same induction,
for the reference semantics `Spec.*` (`Spec.outAll`; section "reference semantics" below).
-/
namespace Aplang

/-! ## reading `OutR` outcome by outcome -/

/-- the four outcomes of a run from `σ` whose successful payload is a pair `(_, σ')` -/
theorem OutR.spellP {α : Type} {σ : St} {r : Res (α × St)} (h : OutR σ r) :
    (∀ a σ', r = .ok (a, σ') → ∃ new, σ'.out = new ++ σ.out) ∧
    (∀ e σ', r = .err e σ' → ∃ new, σ'.out = new ++ σ.out) ∧
    (∀ w σ', r = .terminate w σ' → ∃ new, σ'.out = new ++ σ.out) ∧
    (∀ p o, r = .panic p o → ∃ new, o = new ++ σ.out) :=
  ⟨fun _ _ hr => h.ok_ext hr, fun _ _ hr => h.err_ext hr, fun _ _ hr => h.terminate_ext hr,
   fun _ _ hr => h.panic_ext hr⟩

/-- … whose successful payload is the state -/
theorem OutR.spellS {σ : St} {r : Res St} (h : OutR σ r) :
    (∀ σ', r = .ok σ' → ∃ new, σ'.out = new ++ σ.out) ∧
    (∀ e σ', r = .err e σ' → ∃ new, σ'.out = new ++ σ.out) ∧
    (∀ w σ', r = .terminate w σ' → ∃ new, σ'.out = new ++ σ.out) ∧
    (∀ p o, r = .panic p o → ∃ new, o = new ++ σ.out) :=
  ⟨fun _ hr => h.okS_ext hr, fun _ _ hr => h.err_ext hr, fun _ _ hr => h.terminate_ext hr,
   fun _ _ hr => h.panic_ext hr⟩

/-! ## the evaluator model -/

/-- **expressions**: whatever the outcome — a value, a runtime error, a specified termination, a panic — the
event list at the end has the starting one as a suffix: nothing displayed is retracted or reordered, and an
error state carries all output produced before the error -/
theorem expr_output_monotone (cfg : Cfg) (f : Nat) (e : Expr) (σ : St) :
    (∀ v σ', expr cfg f e σ = .ok (v, σ') → ∃ new, σ'.out = new ++ σ.out) ∧
    (∀ er σ', expr cfg f e σ = .err er σ' → ∃ new, σ'.out = new ++ σ.out) ∧
    (∀ w σ', expr cfg f e σ = .terminate w σ' → ∃ new, σ'.out = new ++ σ.out) ∧
    (∀ p o, expr cfg f e σ = .panic p o → ∃ new, o = new ++ σ.out) :=
  ((outAll cfg f).expr e σ).spellP

/-- argument and item lists -/
theorem exprs_output_monotone (cfg : Cfg) (f : Nat) (es : List Expr) (σ : St) :
    (∀ vs σ', exprs cfg f es σ = .ok (vs, σ') → ∃ new, σ'.out = new ++ σ.out) ∧
    (∀ er σ', exprs cfg f es σ = .err er σ' → ∃ new, σ'.out = new ++ σ.out) ∧
    (∀ w σ', exprs cfg f es σ = .terminate w σ' → ∃ new, σ'.out = new ++ σ.out) ∧
    (∀ p o, exprs cfg f es σ = .panic p o → ∃ new, o = new ++ σ.out) :=
  ((outAll cfg f).exprs es σ).spellP

/-- **statements** (including blocks, the three loops, procedure declarations, RETURN / BREAK / CONTINUE and
IMPORT of library and user modules) -/
theorem stmt_output_monotone (cfg : Cfg) (f : Nat) (s : Stmt) (σ : St) :
    (∀ σ', stmt cfg f s σ = .ok σ' → ∃ new, σ'.out = new ++ σ.out) ∧
    (∀ er σ', stmt cfg f s σ = .err er σ' → ∃ new, σ'.out = new ++ σ.out) ∧
    (∀ w σ', stmt cfg f s σ = .terminate w σ' → ∃ new, σ'.out = new ++ σ.out) ∧
    (∀ p o, stmt cfg f s σ = .panic p o → ∃ new, o = new ++ σ.out) :=
  ((outAll cfg f).stmt s σ).spellS

/-- **programs** -/
theorem program_output_monotone (cfg : Cfg) (f : Nat) (ss : List Stmt) (σ : St) :
    (∀ σ', program cfg f ss σ = .ok σ' → ∃ new, σ'.out = new ++ σ.out) ∧
    (∀ er σ', program cfg f ss σ = .err er σ' → ∃ new, σ'.out = new ++ σ.out) ∧
    (∀ w σ', program cfg f ss σ = .terminate w σ' → ∃ new, σ'.out = new ++ σ.out) ∧
    (∀ p o, program cfg f ss σ = .panic p o → ∃ new, o = new ++ σ.out) :=
  ((outAll cfg f).program ss σ).spellS

/-- every native procedure (`DISPLAY`, `DISPLAY_NOLN`, `DISPLAYF`, `STYLE`, `CLEAR_STYLE`, `INPUT`,
`INPUT_PROMPT` add an event, the others none) -/
theorem native_output_monotone (env : CharEnv) (n : Native) (args : List Value) (spans : List Span) (σ : St) :
    (∀ v σ', callNative env n args spans σ = .ok (v, σ') → ∃ new, σ'.out = new ++ σ.out) ∧
    (∀ er σ', callNative env n args spans σ = .err er σ' → ∃ new, σ'.out = new ++ σ.out) ∧
    (∀ w σ', callNative env n args spans σ = .terminate w σ' → ∃ new, σ'.out = new ++ σ.out) ∧
    (∀ p o, callNative env n args spans σ = .panic p o → ∃ new, o = new ++ σ.out) :=
  (callNative_out env n args spans σ).spellP

/-- IMPORT, for any way `runModule` of running the module's statements that itself keeps the output -/
theorem import_output_monotone (cfg : Cfg) (runModule : List Stmt → St → Res St)
    (hrun : ∀ prog σm, OutR σm (runModule prog σm)) (only : Option (List Token)) (modName : Token) (σ : St) :
    (∀ σ', importStmt cfg runModule only modName σ = .ok σ' → ∃ new, σ'.out = new ++ σ.out) ∧
    (∀ er σ', importStmt cfg runModule only modName σ = .err er σ' → ∃ new, σ'.out = new ++ σ.out) ∧
    (∀ w σ', importStmt cfg runModule only modName σ = .terminate w σ' → ∃ new, σ'.out = new ++ σ.out) ∧
    (∀ p o, importStmt cfg runModule only modName σ = .panic p o → ∃ new, o = new ++ σ.out) :=
  (importStmt_out cfg runModule hrun only modName σ).spellS

/-! ## in bytes: the output so far is a prefix of the output at the end -/

theorem output_prefix_of_ext {σ : St} {o : List Str} (h : ∃ new, o = new ++ σ.out) :
    σ.output <+: o.reverse.flatten := by
  obtain ⟨n, h⟩ := h
  refine ⟨n.reverse.flatten, ?_⟩
  simp only [St.output, h, List.reverse_append, List.flatten_append]

/-- how a run of the pipeline's evaluator can end, with the bytes on the output channel at that moment
(`none`: out of fuel or of statement budget, outside the resource envelope) -/
def Res.endOutput : Res St → Option Str
  | .ok σ => some σ.output
  | .err _ σ => some σ.output
  | .terminate _ σ => some σ.output
  | .panic _ o => some o.reverse.flatten
  | .fuel => none

theorem OutR.endOutput_prefix {σ : St} {r : Res St} (h : OutR σ r) :
    ∀ bytes, r.endOutput = some bytes → σ.output <+: bytes := by
  intro bytes hb
  cases r with
  | ok s => cases hb; exact OutExt.output_prefix h
  | err e s => cases hb; exact OutExt.output_prefix h
  | terminate w s => cases hb; exact OutExt.output_prefix h
  | panic p o => cases hb; exact output_prefix_of_ext h
  | fuel => cases hb

/-- the statements of a program run in order, each from the state its predecessor left -/
theorem program_append (cfg : Cfg) : ∀ (pre post : List Stmt) (f : Nat) (σ : St),
    program cfg f (pre ++ post) σ =
      (program cfg f pre σ).bind fun σ1 => program cfg (f - pre.length) post σ1
  | [], post, f, σ => by simp only [List.nil_append, program, Res.bind_ok, List.length_nil, Nat.sub_zero]
  | s :: pre, post, 0, σ => by simp only [List.cons_append, program, Res.bind_fuel]
  | s :: pre, post, f+1, σ => by
    simp only [List.cons_append, program, List.length_cons, Nat.add_sub_add_right]
    cases stmt cfg f s σ with
    | ok σ1 => simp only [Res.bind_ok]; exact program_append cfg pre post f σ1
    | err e s => rfl
    | terminate w s => rfl
    | panic p o => rfl
    | fuel => rfl

/-- **earlier statements' output is a prefix of the final output**: when the statements `pre` have run to a
state `σ1`, then however the rest of the program ends (normally, with a runtime error, a specified
termination or a panic), the bytes on the output channel at the end begin with the bytes written up to `σ1` -/
theorem earlier_output_is_prefix_of_final (cfg : Cfg) (f : Nat) (pre post : List Stmt) (σ σ1 : St)
    (hpre : program cfg f pre σ = .ok σ1) :
    ∀ bytes, (program cfg f (pre ++ post) σ).endOutput = some bytes → σ1.output <+: bytes := by
  rw [program_append, hpre, Res.bind_ok]
  exact ((outAll cfg _).program post σ1).endOutput_prefix

/-- the corollary for the first statement -/
theorem first_statement_output_is_prefix_of_final (cfg : Cfg) (f : Nat) (s : Stmt) (ss : List Stmt) (σ σ1 : St)
    (hs : stmt cfg f s σ = .ok σ1) :
    σ.output <+: σ1.output ∧
    ∀ bytes, (program cfg (f+1) (s :: ss) σ).endOutput = some bytes → σ1.output <+: bytes := by
  refine ⟨OutExt.output_prefix (((outAll cfg f).stmt s σ).okS_ext hs), ?_⟩
  simp only [program, hs, Res.bind_ok]
  exact ((outAll cfg f).program ss σ1).endOutput_prefix

/-- the same, outcome by outcome: `St.output σ1 <+: St.output σfinal` -/
theorem program_output_extends_first_statement (cfg : Cfg) (f : Nat) (s : Stmt) (ss : List Stmt) (σ σ1 : St)
    (hs : stmt cfg f s σ = .ok σ1) :
    (∀ σf, program cfg (f+1) (s :: ss) σ = .ok σf → σ1.output <+: σf.output) ∧
    (∀ e σf, program cfg (f+1) (s :: ss) σ = .err e σf → σ1.output <+: σf.output) ∧
    (∀ w σf, program cfg (f+1) (s :: ss) σ = .terminate w σf → σ1.output <+: σf.output) ∧
    (∀ p o, program cfg (f+1) (s :: ss) σ = .panic p o → σ1.output <+: o.reverse.flatten) := by
  have h := (first_statement_output_is_prefix_of_final cfg f s ss σ σ1 hs).2
  exact ⟨fun σf hr => h _ (by rw [hr]; rfl), fun e σf hr => h _ (by rw [hr]; rfl),
    fun w σf hr => h _ (by rw [hr]; rfl), fun p o hr => h _ (by rw [hr]; rfl)⟩

/-- a runtime error state carries all output produced before the error -/
theorem runtime_error_after_all_earlier_output (cfg : Cfg) (f : Nat) (ss : List Stmt) (σ σ' : St) (e : RtErr)
    (h : program cfg f ss σ = .err e σ') : σ.output <+: σ'.output :=
  OutExt.output_prefix (((outAll cfg f).program ss σ).err_ext h)

/-! ## division and MOD by zero, undefined operator / operand combinations -/

/-- an operator application that fails leaves the state (hence the output) exactly as the operands left it -/
theorem binop_err_state {op : BinOp} {tok : Token} {a b : Value} {σ σ' : St} {e : RtErr}
    (h : binop op tok a b σ = .err e σ') : σ' = σ := by
  unfold binop rtErr at h
  repeat' split at h
  all_goals first
    | (cases h; rfl)
    | cases h
    | (unfold display at h; split at h <;> cases h)

theorem unop_err_state {op : UnOp} {tok : Token} {v : Value} {σ σ' : St} {e : RtErr}
    (h : unop op tok v σ = .err e σ') : σ' = σ := by
  unfold unop rtErr at h
  repeat' split at h
  all_goals first | (cases h; rfl) | cases h

/-- **a failing binary operator** (division or MOD by zero, an undefined operator / operand combination): the
error is raised after both operands were evaluated, its state is the state the right operand left, and that
state holds every output event of the run so far — those before the expression and those the operands
produced -/
theorem failed_operator_keeps_all_earlier_output (cfg : Cfg) (f : Nat) (l r : Expr) (op : BinOp) (tok : Token)
    (σ σ1 σ2 σ' : St) (a b : Value) (e : RtErr)
    (hl : expr cfg f l σ = .ok (a, σ1)) (hr : expr cfg f r σ1 = .ok (b, σ2))
    (h : expr cfg (f+1) (.binary l op r tok) σ = .err e σ') :
    σ' = σ2 ∧ (∃ new, σ1.out = new ++ σ.out) ∧ (∃ new, σ'.out = new ++ σ1.out) ∧ σ.output <+: σ'.output := by
  simp only [expr, hl, hr, Res.bind_ok] at h
  have h2 := binop_err_state h
  subst h2
  have e1 := ((outAll cfg f).expr l σ).ok_ext hl
  have e2 := ((outAll cfg f).expr r σ1).ok_ext hr
  exact ⟨rfl, e1, e2, OutExt.output_prefix (OutExt.trans e1 e2)⟩

/-- division by zero -/
theorem division_by_zero_after_all_earlier_output (cfg : Cfg) (f : Nat) (l r : Expr) (tok : Token)
    (σ σ1 σ2 : St) (x y : Float)
    (hl : expr cfg f l σ = .ok (.num x, σ1)) (hr : expr cfg f r σ1 = .ok (.num y, σ2)) (hy : (y != 0.0) = false) :
    expr cfg (f+1) (.binary l .div r tok) σ = .err ⟨"Division by Zero", tok.span⟩ σ2 ∧
    σ.output <+: σ2.output := by
  have h : expr cfg (f+1) (.binary l .div r tok) σ = .err ⟨"Division by Zero", tok.span⟩ σ2 := by
    simp only [expr, hl, hr, Res.bind_ok, binop, hy, rtErr]
    rfl
  exact ⟨h, (failed_operator_keeps_all_earlier_output cfg f l r .div tok σ σ1 σ2 σ2 _ _ _ hl hr h).2.2.2⟩

/-- MOD by zero -/
theorem mod_by_zero_after_all_earlier_output (cfg : Cfg) (f : Nat) (l r : Expr) (tok : Token)
    (σ σ1 σ2 : St) (x y : Float)
    (hl : expr cfg f l σ = .ok (.num x, σ1)) (hr : expr cfg f r σ1 = .ok (.num y, σ2)) (hy : (y != 0.0) = false) :
    expr cfg (f+1) (.binary l .mod r tok) σ = .err ⟨"Modulo by Zero", tok.span⟩ σ2 ∧
    σ.output <+: σ2.output := by
  have h : expr cfg (f+1) (.binary l .mod r tok) σ = .err ⟨"Modulo by Zero", tok.span⟩ σ2 := by
    simp only [expr, hl, hr, Res.bind_ok, binop, hy, rtErr]
    rfl
  exact ⟨h, (failed_operator_keeps_all_earlier_output cfg f l r .mod tok σ σ1 σ2 σ2 _ _ _ hl hr h).2.2.2⟩

/-! ## the pipeline: `runTokens`, `run` -/

/-- the bytes a run reports are the bytes of its final state, `(final.out.reverse).flatten` -/
theorem runTokens_output_is_final_output (cfg : Cfg) (fuel : Nat) (ts : List Token) (world : World) (path : Str)
    (σ : St) (h : (runTokens cfg fuel ts world path).final = some σ) :
    (runTokens cfg fuel ts world path).output = σ.out.reverse.flatten := by
  unfold runTokens at h ⊢
  split at h
  · cases h
  · cases h
  · cases h
  · split at h <;> first | (cases h; rfl) | cases h

/-- what `runTokens` reports, in terms of the evaluator: status and bytes are those of `program` on the parsed
statements (nothing is reported when fuel or statement budget ran out) -/
theorem runTokens_output_eq (cfg : Cfg) (fuel : Nat) (ts : List Token) (world : World) (path : Str)
    (prog : List Stmt) (hp : parse (parseFuel ts.length) ts = .ok prog) :
    (runTokens cfg fuel ts world path).output =
      ((program cfg fuel prog (initState cfg world path)).endOutput).getD [] := by
  unfold runTokens
  rw [hp]
  dsimp only
  cases program cfg fuel prog (initState cfg world path) <;> rfl

/-- **pipeline corollary**: once a prefix `pre` of the program's statements has run to `σ1`, the bytes the run
reports begin with the bytes written up to `σ1` — whether the run then ends normally, with a runtime error
(division by zero, …), a specified termination or a panic — unless it runs out of fuel / statement budget -/
theorem runTokens_earlier_output_is_prefix (cfg : Cfg) (fuel : Nat) (ts : List Token) (world : World) (path : Str)
    (pre post : List Stmt) (σ1 : St)
    (hp : parse (parseFuel ts.length) ts = .ok (pre ++ post))
    (hpre : program cfg fuel pre (initState cfg world path) = .ok σ1)
    (hfuel : program cfg fuel (pre ++ post) (initState cfg world path) ≠ .fuel) :
    σ1.output <+: (runTokens cfg fuel ts world path).output := by
  rw [runTokens_output_eq cfg fuel ts world path _ hp]
  have h := earlier_output_is_prefix_of_final cfg fuel pre post _ σ1 hpre
  cases hr : program cfg fuel (pre ++ post) (initState cfg world path) with
  | fuel => exact absurd hr hfuel
  | ok s => rw [hr] at h; exact h _ rfl
  | err e s => rw [hr] at h; exact h _ rfl
  | terminate w s => rw [hr] at h; exact h _ rfl
  | panic p o => rw [hr] at h; exact h _ rfl

/-- the same for `run` (source text → tokens → statements → evaluation) -/
theorem run_earlier_output_is_prefix (cfg : Cfg) (fuel : Nat) (src : Str) (world : World) (path : Str)
    (pre post : List Stmt) (σ1 : St)
    (hl : (lex cfg.lex src).errors.isEmpty = true)
    (hp : parse (parseFuel (lex cfg.lex src).tokens.length) (lex cfg.lex src).tokens = .ok (pre ++ post))
    (hpre : program cfg fuel pre (initState cfg world path) = .ok σ1)
    (hfuel : program cfg fuel (pre ++ post) (initState cfg world path) ≠ .fuel) :
    σ1.output <+: (run cfg fuel src world path).output := by
  unfold run
  simp only [hl, Bool.not_true, Bool.false_eq_true, ↓reduceIte]
  exact runTokens_earlier_output_is_prefix cfg fuel _ world path pre post σ1 hp hpre hfuel

/-- a run that ends with a runtime error reports everything displayed before the error -/
theorem runTokens_rtErr_output (cfg : Cfg) (fuel : Nat) (ts : List Token) (world : World) (path : Str)
    (prog : List Stmt) (e : RtErr) (σ' : St)
    (hp : parse (parseFuel ts.length) ts = .ok prog)
    (h : program cfg fuel prog (initState cfg world path) = .err e σ') :
    (runTokens cfg fuel ts world path).output = σ'.output ∧
    ∃ new, σ'.out = new ++ (initState cfg world path).out := by
  refine ⟨?_, ((outAll cfg fuel).program prog _).err_ext h⟩
  rw [runTokens_output_eq cfg fuel ts world path _ hp, h]
  rfl

/-! ## the reference semantics -/

theorem spec_expr_output_monotone (cfg : Cfg) (f : Nat) (e : Expr) (σ : St) :
    (∀ v σ', Spec.expr cfg f e σ = .ok (v, σ') → ∃ new, σ'.out = new ++ σ.out) ∧
    (∀ er σ', Spec.expr cfg f e σ = .err er σ' → ∃ new, σ'.out = new ++ σ.out) ∧
    (∀ w σ', Spec.expr cfg f e σ = .terminate w σ' → ∃ new, σ'.out = new ++ σ.out) ∧
    (∀ p o, Spec.expr cfg f e σ = .panic p o → ∃ new, o = new ++ σ.out) :=
  ((Spec.outAll cfg f).expr e σ).spellP

theorem spec_stmt_output_monotone (cfg : Cfg) (f : Nat) (s : Stmt) (σ : St) :
    (∀ sig σ', Spec.stmt cfg f s σ = .ok (sig, σ') → ∃ new, σ'.out = new ++ σ.out) ∧
    (∀ er σ', Spec.stmt cfg f s σ = .err er σ' → ∃ new, σ'.out = new ++ σ.out) ∧
    (∀ w σ', Spec.stmt cfg f s σ = .terminate w σ' → ∃ new, σ'.out = new ++ σ.out) ∧
    (∀ p o, Spec.stmt cfg f s σ = .panic p o → ∃ new, o = new ++ σ.out) :=
  ((Spec.outAll cfg f).stmt s σ).spellP

theorem spec_program_output_monotone (cfg : Cfg) (f : Nat) (ss : List Stmt) (σ : St) :
    (∀ σ', Spec.program cfg f ss σ = .ok σ' → ∃ new, σ'.out = new ++ σ.out) ∧
    (∀ er σ', Spec.program cfg f ss σ = .err er σ' → ∃ new, σ'.out = new ++ σ.out) ∧
    (∀ w σ', Spec.program cfg f ss σ = .terminate w σ' → ∃ new, σ'.out = new ++ σ.out) ∧
    (∀ p o, Spec.program cfg f ss σ = .panic p o → ∃ new, o = new ++ σ.out) :=
  ((Spec.outAll cfg f).program ss σ).spellS

/-! ## non-vacuity: concrete runs, checked by kernel evaluation of the model -/

namespace C01bDemo

def cfg0 : Cfg := genCfg CharEnv.ascii
def tk : Token := default

/-- the operands are evaluated, then the division fails in the state they left -/
example (σ : St) :
    expr cfg0 2 (.binary (.lit (.num 1) tk) .div (.lit (.num 0) tk) tk) σ =
      .err ⟨"Division by Zero", tk.span⟩ σ :=
  (division_by_zero_after_all_earlier_output cfg0 1 _ _ tk σ σ σ 1 0 rfl rfl (by decide)).1

example (σ : St) :
    expr cfg0 2 (.binary (.lit (.num 7) tk) .mod (.lit (.num 0) tk) tk) σ =
      .err ⟨"Modulo by Zero", tk.span⟩ σ :=
  (mod_by_zero_after_all_earlier_output cfg0 1 _ _ tk σ σ σ 7 0 rfl rfl (by decide)).1

/-- an undefined combination (`TRUE - 1`): `failed_operator_keeps_all_earlier_output` applies -/
example (σ : St) : ∃ e σ', expr cfg0 2 (.binary (.lit .true tk) .sub (.lit (.num 1) tk) tk) σ = .err e σ' ∧ σ' = σ := by
  have h : expr cfg0 2 (.binary (.lit .true tk) .sub (.lit (.num 1) tk) tk) σ =
      .err ⟨"Incomparable Values", tk.span⟩ σ := rfl
  exact ⟨_, _, h, (failed_operator_keeps_all_earlier_output cfg0 1 _ _ .sub tk σ σ σ σ _ _ _ rfl rfl h).1⟩

/-- a program that displays, divides by zero, and would display again -/
def src1 : Str := "IMPORT MOD \"IO\"\nDISPLAYF(\"before\", [])\nx <- 1 / 0\nDISPLAYF(\"after\", [])\n".toList

def isErr (o : RunOut) (kind : String) : Bool :=
  match o.status with | .rtErr e => e.kind.toList == kind.toList | _ => false

/-- the run ends with the runtime error, and standard output carries exactly what was displayed before it -/
example : isErr (Aplang.run cfg0 50 src1 {} []) "Division by Zero" = true ∧
    (Aplang.run cfg0 50 src1 {} []).output = "before\n".toList := by decide +kernel

/-- MOD by zero after a STYLE escape was written -/
example : isErr (Aplang.run cfg0 50 "IMPORT MOD \"STYLE\"\nSTYLE(\"bold\")\nx <- 7 MOD 0\nCLEAR_STYLE()\n".toList {} [])
      "Modulo by Zero" = true ∧
    (Aplang.run cfg0 50 "IMPORT MOD \"STYLE\"\nSTYLE(\"bold\")\nx <- 7 MOD 0\nCLEAR_STYLE()\n".toList {} []).output =
      "\x1b[1m".toList := by decide +kernel

/-! the hypotheses of `run_earlier_output_is_prefix` are satisfiable: `src1` lexes and parses to four
statements; the first two run to a state whose output is `before\n`; the whole program does not run out of fuel -/

def parsedOr (r : P.ParseOut) : List Stmt := match r with | .ok p => p | _ => []
def stateOr (r : Res St) : St := match r with | .ok σ => σ | _ => default
def toks1 : List Token := (lex cfg0.lex src1).tokens
def prog1 : List Stmt := parsedOr (parse (parseFuel toks1.length) toks1)
def pre1 : List Stmt := prog1.take 2
def post1 : List Stmt := prog1.drop 2
def init1 : St := initState cfg0 {} []
def σ1 : St := stateOr (program cfg0 50 pre1 init1)

theorem parse_eq_of_ok (r : P.ParseOut) (h : (match r with | .ok _ => true | _ => false) = true) :
    r = .ok (parsedOr r) := by
  cases r <;> first | rfl | cases h

theorem res_eq_of_ok (r : Res St) (h : (match r with | .ok _ => true | _ => false) = true) :
    r = .ok (stateOr r) := by
  cases r <;> first | rfl | cases h

theorem res_ne_fuel (r : Res St) (h : (match r with | .fuel => true | _ => false) = false) : r ≠ .fuel := by
  intro hr; subst hr; cases h

example : "before\n".toList <+: (Aplang.run cfg0 50 src1 {} []).output := by
  have hσ1 : σ1.output = "before\n".toList := by decide +kernel
  rw [← hσ1]
  refine run_earlier_output_is_prefix cfg0 50 src1 {} [] pre1 post1 σ1 (by decide +kernel) ?_ ?_ ?_
  · show parse (parseFuel toks1.length) toks1 = .ok (pre1 ++ post1)
    rw [show pre1 ++ post1 = prog1 from List.take_append_drop 2 prog1]
    exact parse_eq_of_ok (parse (parseFuel toks1.length) toks1) (by decide +kernel)
  · exact res_eq_of_ok (program cfg0 50 pre1 init1) (by decide +kernel)
  · exact res_ne_fuel (program cfg0 50 (pre1 ++ post1) init1) (by decide +kernel)

end C01bDemo

end Aplang
