import Aplang.Thm.C02
import Aplang.Proofs.NativesTotal
/-!
# C10 — any valid program ends normally or with a runtime diagnostic, never a crash

Every partial Rust operation of the evaluator and the library (`unwrap`, `expect`, indexing, `usize`
subtraction, `assert!`, `RefCell` borrows, `panic!`) is a *panic outcome* of the model, so "never
crashes" is a statement about the model. What is proved:

* `model_outcome_is_spec_outcome`: for every program the parser accepts, the model ends exactly as the
  reference semantics does — in particular it reaches a panic outcome only if the reference semantics does.
  The flag protocol (`loop_stack.last_mut().unwrap()` for BREAK / CONTINUE, the `assert!(pop())` after each
  loop, the pending-return bookkeeping of calls) therefore cannot crash on its own: the reference semantics
  has no flags.
* `break_continue_cannot_crash`: in a context the parser admits (`WFStmt`), BREAK / CONTINUE always find
  their loop record.
* the library: `Proofs/NativesTotal` — every native procedure on every argument tuple over a closed heap
  is a value or a runtime error, never a panic; `terminate` only for a robot moving into a wall; `fuel`
  only for a list that contains itself.
-/
namespace Aplang

/-- the model's outcome (normal end, runtime error, robot termination, panic, out of fuel) on an accepted
program is the reference semantics' outcome, state and output included -/
theorem model_outcome_is_spec_outcome (cfg : Cfg) (hc : CfgOK cfg) (fuel pf : Nat) (ts : List Token) (prog : List Stmt)
    (h : parse pf ts = .ok prog) (world : World) (path : Str) :
    program cfg fuel prog (initState cfg world path) = Spec.program cfg fuel prog (initState cfg world path) :=
  model_refines_spec cfg hc fuel pf ts prog h _ (initState_inv cfg hc world path _)

/-- BREAK and CONTINUE find their loop record wherever the parser admits them -/
theorem break_continue_cannot_crash (cfg : Cfg) (f : Nat) (tok : Token) (σ0 : St) (i : SInv true σ0) :
    (∀ p o, stmt cfg f (.brk tok) σ0 ≠ .panic p o) ∧ (∀ p o, stmt cfg f (.cont tok) σ0 ≠ .panic p o) := by
  cases f with
  | zero => constructor <;> (intro p o h; simp [stmt] at h)
  | succ f =>
    have hne := i.il rfl
    constructor <;> intro p o h <;> simp only [stmt] at h
    all_goals
      cases ht : tick σ0 with
      | none => rw [ht] at h; cases h
      | some σ =>
        rw [ht] at h
        have : σ.loops = σ0.loops := (tick_same σ0 σ ht).loops
        simp only at h
        cases hl : σ.loops with
        | nil => rw [this] at hl; exact hne hl
        | cons lc rest => rw [hl] at h; cases h

/-- after a loop the control record it pushed is still there to be popped (`assert!(loop_stack.pop().is_some())`) -/
theorem loop_pop_cannot_crash (σ : St) (lc : LoopCtl) (rest : List LoopCtl) (h : σ.loops = lc :: rest) :
    popLoop σ = .ok { σ with loops := rest } := by
  simp [popLoop, h]

end Aplang
