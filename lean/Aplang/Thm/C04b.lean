import Aplang.Proofs.ListLemmas
import Aplang.Proofs.FloatIndex
/-!
# C04b — lists and strings as mathematical sequences; reference identity; assignment frame

The sequence-level and aliasing-level reading of C04, for all lists, values, indices and states.

1. **Index validity** (`validIndex`): the position an index denotes in a sequence of `n` elements, and
   `indexRead` / `indexWrite` as *exactly* "that element / that position, or a runtime error with the state
   unchanged" — never another element (`index_read_never_other`).
2. **Natives as sequence operations**: APPEND, INSERT, REMOVE, LENGTH and list `+` as equations on the heap
   cell, with every error case.
3. **Reference identity**: what is seen through a variable (`seenThrough`), mutation through one alias is
   seen through every alias, parameters / list elements hold the same address, and the assignment frame
   (`assign_trichotomy`, `assign_no_action_at_a_distance`, `assign_deep_frame`, `assign_first_binding_shares`,
   `assign_existing_list_copies`).
4. **Index validity in arithmetic terms** (`validIndex_eq_specIndex`): for every `Float` and every length up to
   `2^52`, the interpreter's index computation (`x ≥ 1.0`, `(x - 1.0) as usize`, bounds check) is the property's
   sentence "the integer part `k` of `x` satisfies `1 ≤ k ≤ LENGTH`; position `k`"; INSERT / REMOVE use the same
   positions. Proved from Lean's logical model of `Float` in `Proofs/FloatIndex.lean`.
5. Non-vacuity: the boundary indices and every headline theorem instantiated on a concrete heap, and whole
   programs through lexer, parser and evaluator.

Sections 1–3 are stated through the model's own index computation (`natIndex`, i.e. the cast primitive
`F64.toUSize` = `Float.toUInt64`, Rust's saturating `as usize`) and hold without any bound; section 4 gives its
arithmetic meaning.
-/
namespace Aplang

/-! ## 1. Index validity and indexed read / write -/

/-- the 0-based position that the index `x` denotes in a sequence of `n` elements: `x` is a number that is at
least 1 and its integer part `k` (the cast `(x - 1.0) as usize` gives `k - 1`) is at most `n`; `none`
otherwise (NaN, anything below 1, anything from `n + 1` on) -/
def validIndex (n : Nat) (x : Float) : Option Nat :=
  match natIndex x with
  | some i => if i < n then some i else none
  | none => none

theorem validIndex_eq_some_iff (n : Nat) (x : Float) (i : Nat) :
    validIndex n x = some i ↔ x >= 1.0 ∧ F64.toUSize (x - 1.0) = i ∧ i < n := by
  unfold validIndex natIndex
  by_cases hx : x >= 1.0
  · simp only [hx, if_true, true_and]
    by_cases hi : F64.toUSize (x - 1.0) < n
    · simp only [hi, if_true, Option.some.injEq]
      constructor
      · intro h; subst h; exact ⟨rfl, hi⟩
      · intro h; exact h.1
    · simp only [hi, if_false]
      constructor
      · intro h; cases h
      · rintro ⟨rfl, h⟩; exact absurd h hi
  · simp only [hx, if_false, false_and]
    constructor
    · intro h; cases h
    · intro h; cases h

theorem validIndex_eq_none_iff (n : Nat) (x : Float) :
    validIndex n x = none ↔ ¬ x >= 1.0 ∨ n ≤ F64.toUSize (x - 1.0) := by
  unfold validIndex natIndex
  by_cases hx : x >= 1.0
  · by_cases hi : F64.toUSize (x - 1.0) < n
    · simp [hx, hi]
    · simp only [hx, if_true, hi, if_false, not_true_eq_false, false_or, true_iff]; omega
  · simp [hx]

theorem validIndex_lt {n : Nat} {x : Float} {i : Nat} (h : validIndex n x = some i) : i < n :=
  ((validIndex_eq_some_iff n x i).mp h).2.2

theorem validIndex_natIndex {n : Nat} {x : Float} {i : Nat} (h : validIndex n x = some i) : natIndex x = some i := by
  obtain ⟨h1, h2, _⟩ := (validIndex_eq_some_iff n x i).mp h
  simp [natIndex, h1, h2]

theorem validIndex_ge_one {n : Nat} {x : Float} {i : Nat} (h : validIndex n x = some i) : x >= 1.0 :=
  ((validIndex_eq_some_iff n x i).mp h).1

/-- nothing below 1 (and no NaN) is a valid index of any sequence -/
theorem validIndex_below_one (n : Nat) (x : Float) (h : ¬ x >= 1.0) : validIndex n x = none :=
  (validIndex_eq_none_iff n x).mpr (Or.inl h)

/-- the empty sequence has no valid index -/
theorem validIndex_zero (x : Float) : validIndex 0 x = none := by
  unfold validIndex; cases natIndex x <;> simp

/-- a longer sequence keeps the positions of a shorter one -/
theorem validIndex_mono {n m : Nat} {x : Float} {i : Nat} (h : validIndex n x = some i) (hnm : n ≤ m) :
    validIndex m x = some i := by
  obtain ⟨h1, h2, h3⟩ := (validIndex_eq_some_iff n x i).mp h
  exact (validIndex_eq_some_iff m x i).mpr ⟨h1, h2, by omega⟩

/-- the model's lookup `(natIndex x).bind (vs[·]?)` is the lookup at the valid position -/
theorem natIndex_bind_eq {α} (vs : List α) (x : Float) :
    (natIndex x).bind (fun i => vs[i]?) = (validIndex vs.length x).bind (fun i => vs[i]?) := by
  unfold validIndex
  cases natIndex x with
  | none => rfl
  | some i =>
    by_cases hi : i < vs.length
    · simp [hi]
    · simp [hi]

theorem option_cases {α} (o : Option α) : o = none ∨ ∃ a, o = some a := by
  cases o with
  | none => exact Or.inl rfl
  | some a => exact Or.inr ⟨a, rfl⟩

section
variable (lt lb rb : Token) (σ : St)

/-- **reading a list at a valid index gives the element at that position**, state unchanged -/
theorem index_read_valid {a : Nat} {vs : List Value} (hl : getList σ a = some vs) {x : Float} {i : Nat}
    (hv : validIndex vs.length x = some i) :
    indexRead (.list a) (.num x) lt lb rb σ = .ok (vs[i]'(validIndex_lt hv), σ) := by
  have hlt := validIndex_lt hv
  rw [index_read_list a vs x lt lb rb σ hl, validIndex_natIndex hv]
  simp only [Option.bind_some, List.getElem?_eq_getElem hlt]

/-- **reading at an invalid index is a runtime error** at the bracket interior, state unchanged -/
theorem index_read_invalid {a : Nat} {vs : List Value} (hl : getList σ a = some vs) {x : Float}
    (hv : validIndex vs.length x = none) :
    indexRead (.list a) (.num x) lt lb rb σ = .err ⟨"Invalid List Index", interior lb rb⟩ σ := by
  rw [index_read_list a vs x lt lb rb σ hl, natIndex_bind_eq, hv]; rfl

/-- **never a different element**: whenever an indexed read of a list yields a value, the index is valid, the
value is the element at exactly that position, and the state is unchanged -/
theorem index_read_never_other {a : Nat} {vs : List Value} (hl : getList σ a = some vs) {x : Float} {v : Value}
    {σ' : St} (h : indexRead (.list a) (.num x) lt lb rb σ = .ok (v, σ')) :
    σ' = σ ∧ ∃ i, ∃ hv : validIndex vs.length x = some i, v = vs[i]'(validIndex_lt hv) := by
  obtain hv | ⟨i, hv⟩ := option_cases (validIndex vs.length x)
  · rw [index_read_invalid lt lb rb σ hl hv] at h; cases h
  · rw [index_read_valid lt lb rb σ hl hv] at h
    injection h with h; injection h with h1 h2
    exact ⟨h2.symm, i, hv, h1.symm⟩

/-- strings: the character at the valid position, as a one-character string -/
theorem index_read_string_valid (s : Str) {x : Float} {i : Nat} (hv : validIndex s.length x = some i) :
    indexRead (.str s) (.num x) lt lb rb σ = .ok (.str [s[i]'(validIndex_lt hv)], σ) := by
  have hlt := validIndex_lt hv
  rw [index_read_string, validIndex_natIndex hv]
  simp only [Option.bind_some, List.getElem?_eq_getElem hlt]

theorem index_read_string_invalid (s : Str) {x : Float} (hv : validIndex s.length x = none) :
    indexRead (.str s) (.num x) lt lb rb σ = .err ⟨"Invalid List Index", interior lb rb⟩ σ := by
  rw [index_read_string, natIndex_bind_eq, hv]; rfl

theorem index_read_string_never_other (s : Str) {x : Float} {v : Value} {σ' : St}
    (h : indexRead (.str s) (.num x) lt lb rb σ = .ok (v, σ')) :
    σ' = σ ∧ ∃ i, ∃ hv : validIndex s.length x = some i, v = .str [s[i]'(validIndex_lt hv)] := by
  obtain hv | ⟨i, hv⟩ := option_cases (validIndex s.length x)
  · rw [index_read_string_invalid lt lb rb σ s hv] at h; cases h
  · rw [index_read_string_valid lt lb rb σ s hv] at h
    injection h with h; injection h with h1 h2
    exact ⟨h2.symm, i, hv, h1.symm⟩

/-- an index that is not a number is an error, whatever is indexed -/
theorem index_read_key_not_number (l k : Value) (hk : ∀ x, k ≠ .num x) :
    indexRead l k lt lb rb σ = .err ⟨"Invalid Index", interior lb rb⟩ σ := by
  cases k with
  | num x => exact absurd rfl (hk x)
  | null | bool _ | str _ | list _ | obj _ => rfl

/-- only lists and strings can be indexed -/
theorem index_read_not_indexable (l : Value) (x : Float) (h1 : ∀ a, l ≠ .list a) (h2 : ∀ s, l ≠ .str s) :
    indexRead l (.num x) lt lb rb σ = .err ⟨"Invalid Type", lt.span⟩ σ := by
  cases l with
  | list a => exact absurd rfl (h1 a)
  | str s => exact absurd rfl (h2 s)
  | null | bool _ | num _ | obj _ => rfl

/-- **writing at a valid index replaces exactly that position** (`vs.set i v`) in the cell; the value of the
assignment expression is the assigned value -/
theorem index_write_valid {a : Nat} {vs : List Value} (hl : getList σ a = some vs) {x : Float} {i : Nat} (v : Value)
    (hv : validIndex vs.length x = some i) :
    indexWrite (.list a) (.num x) v lt lb rb σ = .ok (v, setCell σ a (.list (vs.set i v))) := by
  rw [index_write_list a vs x v lt lb rb σ hl, validIndex_natIndex hv]
  simp [validIndex_lt hv]

/-- **writing at an invalid index is a runtime error**, state unchanged -/
theorem index_write_invalid {a : Nat} {vs : List Value} (hl : getList σ a = some vs) {x : Float} (v : Value)
    (hv : validIndex vs.length x = none) :
    indexWrite (.list a) (.num x) v lt lb rb σ = .err ⟨"Invalid List Index", interior lb rb⟩ σ := by
  rw [index_write_list a vs x v lt lb rb σ hl]
  rcases (validIndex_eq_none_iff vs.length x).mp hv with h | h
  · rw [natIndex_none_of_lt_one x h]
  · have : ¬ F64.toUSize (x - 1.0) < vs.length := by omega
    by_cases hx : x >= 1.0
    · simp [natIndex, hx, this]
    · simp [natIndex, hx]

/-- whenever an indexed write succeeds: the index is valid, the new state is the old one with position `i` of
that cell replaced, the value is the assigned one -/
theorem index_write_never_other {a : Nat} {vs : List Value} (hl : getList σ a = some vs) {x : Float} {v r : Value}
    {σ' : St} (h : indexWrite (.list a) (.num x) v lt lb rb σ = .ok (r, σ')) :
    r = v ∧ ∃ i, validIndex vs.length x = some i ∧ σ' = setCell σ a (.list (vs.set i v)) := by
  cases hv : validIndex vs.length x with
  | none => rw [index_write_invalid lt lb rb σ hl v hv] at h; cases h
  | some i =>
    rw [index_write_valid lt lb rb σ hl v hv] at h
    injection h with h; injection h with h1 h2
    exact ⟨h1.symm, i, rfl, h2.symm⟩

/-- strings (and everything that is not a list) cannot be written by index: strings are immutable -/
theorem index_write_not_list (l k v : Value) (h : ∀ a, l ≠ .list a) :
    indexWrite l k v lt lb rb σ = .err ⟨"Invalid Type", lt.span⟩ σ := by
  cases l with
  | list a => exact absurd rfl (h a)
  | null | bool _ | num _ | obj _ | str _ => rfl

theorem index_write_key_not_number (a : Nat) (k v : Value) (hk : ∀ x, k ≠ .num x) :
    indexWrite (.list a) k v lt lb rb σ = .err ⟨"Invalid Index", interior lb rb⟩ σ := by
  cases k with
  | num x => exact absurd rfl (hk x)
  | null | bool _ | str _ | list _ | obj _ => rfl

end

/-- the state after a valid indexed write: that cell holds `vs.set i v`, nothing else changed -/
theorem index_write_state {σ : St} {a : Nat} {vs : List Value} (hl : getList σ a = some vs) (i : Nat) (v : Value) :
    ListUpdated σ (setCell σ a (.list (vs.set i v))) a (vs.set i v) := listUpdated_setCell hl _

/-- `vs.set i v` as a sequence: position `i` is `v`, every other position and the length are as before -/
theorem set_sequence (vs : List Value) (i : Nat) (v : Value) (hi : i < vs.length) :
    (vs.set i v)[i]? = some v ∧ (∀ j, j ≠ i → (vs.set i v)[j]? = vs[j]?) ∧ (vs.set i v).length = vs.length :=
  ⟨List.getElem?_set_self hi, fun _ hj => List.getElem?_set_ne (Ne.symm hj), List.length_set⟩

section
variable (lt lb rb : Token) (σ : St) {a : Nat} {vs : List Value} (hl : getList σ a = some vs)
  {i : Nat} (v : Value)
include hl

/-- write at index `x`, then read at an index denoting the same position: the written value -/
theorem index_write_read_same {y : Float} (hy : validIndex vs.length y = some i) :
    indexRead (.list a) (.num y) lt lb rb (setCell σ a (.list (vs.set i v))) =
      .ok (v, setCell σ a (.list (vs.set i v))) := by
  have hl' := (index_write_state hl i v).cell
  have hy' : validIndex (vs.set i v).length y = some i := by rw [List.length_set]; exact hy
  rw [index_read_valid lt lb rb _ hl' hy']
  simp

/-- … at an index denoting another position: the element that was there before -/
theorem index_write_read_other {y : Float} {j : Nat} (hy : validIndex vs.length y = some j) (hj : j ≠ i) :
    indexRead (.list a) (.num y) lt lb rb (setCell σ a (.list (vs.set i v))) =
      .ok (vs[j]'(validIndex_lt hy), setCell σ a (.list (vs.set i v))) := by
  have hl' := (index_write_state hl i v).cell
  have hy' : validIndex (vs.set i v).length y = some j := by rw [List.length_set]; exact hy
  rw [index_read_valid lt lb rb _ hl' hy']
  simp [List.getElem_set_ne (Ne.symm hj)]

/-- … at an invalid index: still an error (the length did not change) -/
theorem index_write_read_invalid {y : Float} (hy : validIndex vs.length y = none) :
    indexRead (.list a) (.num y) lt lb rb (setCell σ a (.list (vs.set i v))) =
      .err ⟨"Invalid List Index", interior lb rb⟩ (setCell σ a (.list (vs.set i v))) := by
  have hl' := (index_write_state hl i v).cell
  have hy' : validIndex (vs.set i v).length y = none := by rw [List.length_set]; exact hy
  exact index_read_invalid lt lb rb _ hl' hy'

end

/-! ## 2. The natives as sequence operations -/

/-- the position INSERT and REMOVE compute from their index argument: `(x as usize) - 1`, from 1 on -/
def argIndex (x : Float) : Option Nat := if x >= 1.0 then some (F64.toUSize x - 1) else none

/-- INSERT position in a sequence of `n` elements: `1 ≤ x` and the integer part of `x` at most `n + 1` -/
def insertPos (n : Nat) (x : Float) : Option Nat :=
  match argIndex x with
  | some p => if p ≤ n then some p else none
  | none => none

/-- REMOVE position in a sequence of `n` elements: `1 ≤ x` and the integer part of `x` at most `n` -/
def removePos (n : Nat) (x : Float) : Option Nat :=
  match argIndex x with
  | some p => if p < n then some p else none
  | none => none

theorem insertPos_le {n : Nat} {x : Float} {p : Nat} (h : insertPos n x = some p) : p ≤ n := by
  unfold insertPos at h; split at h
  · split at h
    · cases h; assumption
    · cases h
  · cases h

theorem removePos_lt {n : Nat} {x : Float} {p : Nat} (h : removePos n x = some p) : p < n := by
  unfold removePos at h; split at h
  · split at h
    · cases h; assumption
    · cases h
  · cases h

/-- a REMOVE position is an INSERT position; INSERT additionally allows the position after the last element -/
theorem insertPos_eq_removePos_succ (n : Nat) (x : Float) : insertPos n x = removePos (n + 1) x := by
  unfold insertPos removePos
  cases argIndex x with
  | none => rfl
  | some p => simp only [Nat.lt_succ_iff]

theorem castErr_is_err {α} (what : String) (sp : Span) (σ : St) :
    (castErr what sp σ : Res α) = .err ⟨"Invalid Argument Cast: " ++ what, sp⟩ σ := rfl

section
variable (env : CharEnv) (σ : St)

/-! ### APPEND -/

/-- **APPEND(l, v)**: the cell becomes `vs ++ [v]`, the result is NULL -/
theorem append_spec {a : Nat} {vs : List Value} (hl : getList σ a = some vs) (v : Value) (s1 s2 : Span) :
    callNative env .append [.list a, v] [s1, s2] σ = .ok (.null, setCell σ a (.list (vs ++ [v]))) := by
  rw [callNative_append]; simp only [castList, hl, Res.bind_ok]

theorem append_state {a : Nat} {vs : List Value} (hl : getList σ a = some vs) (v : Value) :
    ListUpdated σ (setCell σ a (.list (vs ++ [v]))) a (vs ++ [v]) := listUpdated_setCell hl _

/-- `vs ++ [v]` as a sequence: the old elements in place, `v` after the last, one element more -/
theorem append_sequence (vs : List Value) (v : Value) :
    (∀ j, j < vs.length → (vs ++ [v])[j]? = vs[j]?) ∧ (vs ++ [v])[vs.length]? = some v ∧
    (vs ++ [v]).length = vs.length + 1 :=
  ⟨fun _ hj => List.getElem?_append_left hj, by simp, by simp⟩

/-- APPEND to anything that is not a list (a string in particular) is a runtime error at the first argument -/
theorem append_not_list (l v : Value) (s1 s2 : Span) (h : ∀ a, l ≠ .list a) :
    callNative env .append [l, v] [s1, s2] σ = .err ⟨"Invalid Argument Cast: LIST", s1⟩ σ := by
  rw [callNative_append]
  cases l with
  | list a => exact absurd rfl (h a)
  | null | bool _ | num _ | obj _ | str _ => rfl

/-! ### INSERT -/

/-- **INSERT(l, x, v)** at a valid position `p` (= integer part of `x`, minus 1; `p ≤ LENGTH`): the cell becomes
`vs.insertIdx p v`, the result is NULL -/
theorem insert_valid {a : Nat} {vs : List Value} (hl : getList σ a = some vs) {x : Float} {p : Nat} (v : Value)
    (s1 s2 s3 : Span) (hp : insertPos vs.length x = some p) :
    callNative env .insert [.list a, .num x, v] [s1, s2, s3] σ =
      .ok (.null, setCell σ a (.list (vs.insertIdx p v))) := by
  rw [callNative_insert]; simp only [castList, castNum, hl, Res.bind_ok]
  unfold insertPos argIndex at hp
  by_cases hx : x >= 1.0
  · simp only [hx, if_true] at hp
    split at hp
    · rename_i hle; cases hp
      have : F64.toUSize x ≤ vs.length + 1 := by omega
      simp [hx, this]
    · cases hp
  · simp [hx] at hp

/-- INSERT outside `1 .. LENGTH + 1` is a runtime error at the index argument, state unchanged -/
theorem insert_invalid {a : Nat} {vs : List Value} (hl : getList σ a = some vs) {x : Float} (v : Value)
    (s1 s2 s3 : Span) (hp : insertPos vs.length x = none) :
    callNative env .insert [.list a, .num x, v] [s1, s2, s3] σ = .err ⟨"Invalid List Index", s2⟩ σ := by
  rw [callNative_insert]; simp only [castList, castNum, hl, Res.bind_ok]
  unfold insertPos argIndex at hp
  by_cases hx : x >= 1.0
  · simp only [hx, if_true] at hp
    split at hp
    · cases hp
    · rename_i hle
      have : ¬ F64.toUSize x ≤ vs.length + 1 := by omega
      simp [hx, this]
  · simp [hx]

theorem insert_state {a : Nat} {vs : List Value} (hl : getList σ a = some vs) (p : Nat) (v : Value) :
    ListUpdated σ (setCell σ a (.list (vs.insertIdx p v))) a (vs.insertIdx p v) := listUpdated_setCell hl _

/-- `vs.insertIdx p v` as a sequence (for `p ≤ LENGTH`): it is `take p ++ [v] ++ drop p`; the elements before `p`
stay, `v` is at `p`, the element at `j ≥ p` moves to `j + 1`, one element more -/
theorem insert_sequence (vs : List Value) (p : Nat) (v : Value) (hp : p ≤ vs.length) :
    vs.insertIdx p v = vs.take p ++ [v] ++ vs.drop p ∧
    (∀ j, j < p → (vs.insertIdx p v)[j]? = vs[j]?) ∧ (vs.insertIdx p v)[p]? = some v ∧
    (∀ j, p ≤ j → (vs.insertIdx p v)[j + 1]? = vs[j]?) ∧ (vs.insertIdx p v).length = vs.length + 1 :=
  ⟨insertIdx_eq_take_drop vs p v hp, fun j hj => insertIdx_before vs p v j hj, insertIdx_at vs p v hp,
   fun j hj => insertIdx_after vs p v j hj, insertIdx_length vs p v hp⟩

/-- INSERT at `LENGTH + 1` is APPEND -/
theorem insert_at_end_is_append (vs : List Value) (v : Value) : vs.insertIdx vs.length v = vs ++ [v] :=
  List.insertIdx_length_self

theorem insert_not_list (l i v : Value) (s1 s2 s3 : Span) (h : ∀ a, l ≠ .list a) :
    callNative env .insert [l, i, v] [s1, s2, s3] σ = .err ⟨"Invalid Argument Cast: LIST", s1⟩ σ := by
  rw [callNative_insert]
  cases l with
  | list a => exact absurd rfl (h a)
  | null | bool _ | num _ | obj _ | str _ => rfl

theorem insert_index_not_number {a : Nat} {vs : List Value} (hl : getList σ a = some vs) (i v : Value)
    (s1 s2 s3 : Span) (h : ∀ x, i ≠ .num x) :
    callNative env .insert [.list a, i, v] [s1, s2, s3] σ = .err ⟨"Invalid Argument Cast: NUMBER", s2⟩ σ := by
  rw [callNative_insert]; simp only [castList, hl, Res.bind_ok]
  cases i with
  | num x => exact absurd rfl (h x)
  | null | bool _ | list _ | obj _ | str _ => rfl

/-! ### REMOVE -/

/-- **REMOVE(l, x)** at a valid position `p` (`p < LENGTH`): the result is the element it deletes, the cell
becomes `vs.eraseIdx p` -/
theorem remove_valid {a : Nat} {vs : List Value} (hl : getList σ a = some vs) {x : Float} {p : Nat}
    (s1 s2 : Span) (hp : removePos vs.length x = some p) :
    callNative env .remove [.list a, .num x] [s1, s2] σ =
      .ok (vs[p]'(removePos_lt hp), setCell σ a (.list (vs.eraseIdx p))) := by
  have hlt := removePos_lt hp
  rw [callNative_remove]; simp only [castList, castNum, hl, Res.bind_ok]
  unfold removePos argIndex at hp
  by_cases hx : x >= 1.0
  · simp only [hx, if_true] at hp
    split at hp
    · cases hp
      simp [hx, hlt]
    · cases hp
  · simp [hx] at hp

/-- REMOVE outside `1 .. LENGTH` is a runtime error at the index argument, state unchanged -/
theorem remove_invalid {a : Nat} {vs : List Value} (hl : getList σ a = some vs) {x : Float}
    (s1 s2 : Span) (hp : removePos vs.length x = none) :
    callNative env .remove [.list a, .num x] [s1, s2] σ = .err ⟨"Invalid List Index", s2⟩ σ := by
  rw [callNative_remove]; simp only [castList, castNum, hl, Res.bind_ok]
  unfold removePos argIndex at hp
  by_cases hx : x >= 1.0
  · simp only [hx, if_true] at hp
    split at hp
    · cases hp
    · rename_i hle
      have : vs[F64.toUSize x - 1]? = none := by simp; omega
      simp [hx, this]
  · simp [hx]

theorem remove_state {a : Nat} {vs : List Value} (hl : getList σ a = some vs) (p : Nat) :
    ListUpdated σ (setCell σ a (.list (vs.eraseIdx p))) a (vs.eraseIdx p) := listUpdated_setCell hl _

/-- `vs.eraseIdx p` as a sequence (for `p < LENGTH`): it is `take p ++ drop (p + 1)`; the elements before `p` stay,
the element at `j + 1 > p` moves to `j`, one element fewer -/
theorem remove_sequence (vs : List Value) (p : Nat) (hp : p < vs.length) :
    vs.eraseIdx p = vs.take p ++ vs.drop (p + 1) ∧
    (∀ j, j < p → (vs.eraseIdx p)[j]? = vs[j]?) ∧ (∀ j, p ≤ j → (vs.eraseIdx p)[j]? = vs[j + 1]?) ∧
    (vs.eraseIdx p).length + 1 = vs.length :=
  ⟨List.eraseIdx_eq_take_drop_succ vs p, fun j hj => eraseIdx_before vs p j hj,
   fun j hj => eraseIdx_after vs p j hj, eraseIdx_length vs p hp⟩

theorem remove_not_list (l i : Value) (s1 s2 : Span) (h : ∀ a, l ≠ .list a) :
    callNative env .remove [l, i] [s1, s2] σ = .err ⟨"Invalid Argument Cast: LIST", s1⟩ σ := by
  rw [callNative_remove]
  cases l with
  | list a => exact absurd rfl (h a)
  | null | bool _ | num _ | obj _ | str _ => rfl

theorem remove_index_not_number {a : Nat} {vs : List Value} (hl : getList σ a = some vs) (i : Value)
    (s1 s2 : Span) (h : ∀ x, i ≠ .num x) :
    callNative env .remove [.list a, i] [s1, s2] σ = .err ⟨"Invalid Argument Cast: NUMBER", s2⟩ σ := by
  rw [callNative_remove]; simp only [castList, hl, Res.bind_ok]
  cases i with
  | num x => exact absurd rfl (h x)
  | null | bool _ | list _ | obj _ | str _ => rfl

/-- INSERT then REMOVE at the same index gives back the inserted value and the original sequence -/
theorem insert_then_remove {a : Nat} {vs : List Value} (hl : getList σ a = some vs) {x : Float} {p : Nat} (v : Value)
    (s1 s2 : Span) (hp : insertPos vs.length x = some p) :
    ∃ τ, callNative env .remove [.list a, .num x] [s1, s2] (setCell σ a (.list (vs.insertIdx p v))) = .ok (v, τ) ∧
      getList τ a = some vs := by
  have hle := insertPos_le hp
  have hl' := (insert_state σ hl p v).cell
  have hp' : removePos (vs.insertIdx p v).length x = some p := by
    rw [insertIdx_length vs p v hle, ← insertPos_eq_removePos_succ]; exact hp
  refine ⟨setCell (setCell σ a (.list (vs.insertIdx p v))) a (.list ((vs.insertIdx p v).eraseIdx p)), ?_, ?_⟩
  · rw [remove_valid env _ hl' s1 s2 hp']
    congr 2
    exact List.getElem_insertIdx_self _
  · rw [(remove_state _ hl' p).cell, eraseIdx_insertIdx]

/-! ### LENGTH -/

/-- **LENGTH(l)** is the number of elements, state unchanged -/
theorem length_list {a : Nat} {vs : List Value} (hl : getList σ a = some vs) (sp : List Span) :
    callNative env .length [.list a] sp σ = .ok (.num vs.length.toFloat, σ) := by
  rw [callNative_length]; simp only [hl]

/-- **LENGTH(s)** is the number of characters -/
theorem length_string (s : Str) (sp : List Span) :
    callNative env .length [.str s] sp σ = .ok (.num s.length.toFloat, σ) := by
  rw [callNative_length]

/-- LENGTH of anything else is NULL -/
theorem length_other (v : Value) (sp : List Span) (h1 : ∀ a, v ≠ .list a) (h2 : ∀ s, v ≠ .str s) :
    callNative env .length [v] sp σ = .ok (.null, σ) := by
  rw [callNative_length]
  cases v with
  | list a => exact absurd rfl (h1 a)
  | str s => exact absurd rfl (h2 s)
  | null | bool _ | num _ | obj _ => rfl

/-! ### `+` -/

/-- **`+` on two lists**: the result is a new cell (the next free address) holding `xs ++ ys` -/
theorem concat_spec (tok : Token) {x y : Nat} {xs ys : List Value} (hx : getList σ x = some xs)
    (hy : getList σ y = some ys) :
    binop .add tok (.list x) (.list y) σ = .ok (.list σ.heap.length, (mkList σ (xs ++ ys)).2) := by
  simp only [binop, hx, hy]; rfl

/-- the state after `+`: the result address is fresh and different from both operands, the new cell is
`xs ++ ys`, every cell that existed (both operands in particular) and every variable binding is unchanged -/
theorem concat_state {x y : Nat} {xs ys : List Value} (hx : getList σ x = some xs) (hy : getList σ y = some ys) :
    getList σ σ.heap.length = none ∧ σ.heap.length ≠ x ∧ σ.heap.length ≠ y ∧
    getList (mkList σ (xs ++ ys)).2 σ.heap.length = some (xs ++ ys) ∧
    (∀ b, b < σ.heap.length → (mkList σ (xs ++ ys)).2.heap[b]? = σ.heap[b]?) ∧
    getList (mkList σ (xs ++ ys)).2 x = some xs ∧ getList (mkList σ (xs ++ ys)).2 y = some ys ∧
    (mkList σ (xs ++ ys)).2.scopes = σ.scopes := by
  have hxl := getList_lt hx
  have hyl := getList_lt hy
  refine ⟨getList_fresh σ, by omega, by omega, getList_mkList_new σ _, fun b hb => heap_mkList_old σ _ b hb, ?_, ?_, rfl⟩
  · rw [getList_mkList_old σ _ x hxl]; exact hx
  · rw [getList_mkList_old σ _ y hyl]; exact hy

/-- `xs ++ ys` as a sequence -/
theorem concat_sequence (xs ys : List Value) :
    (∀ j, j < xs.length → (xs ++ ys)[j]? = xs[j]?) ∧ (∀ j, (xs ++ ys)[xs.length + j]? = ys[j]?) ∧
    (xs ++ ys).length = xs.length + ys.length :=
  ⟨fun _ hj => List.getElem?_append_left hj, fun j => by simp [List.getElem?_append_right], List.length_append⟩

/-- a list and a non-list cannot be added (`"text" + list` is the string concatenation, see C15) -/
theorem concat_list_nonlist (tok : Token) (x : Nat) (b : Value) (h : ∀ y, b ≠ .list y) :
    binop .add tok (.list x) b σ = .err ⟨"Incomparable Values", tok.span⟩ σ := by
  cases b with
  | list y => exact absurd rfl (h y)
  | null | bool _ | num _ | obj _ | str _ => rfl

end

/-! ## 3. Reference identity and aliasing -/

/-- what is seen through the variable `x` of the current frame: the address of the list it is bound to and the
sequence stored there (`none` when `x` is unbound or not a list) -/
def seenThrough (σ : St) (x : Str) : Option (Nat × List Value) :=
  match lookupVar σ x with
  | some (.list a) => (getList σ a).map fun vs => (a, vs)
  | _ => none

/-- `x` and `y` are aliases: bound to the same list address -/
def Alias (σ : St) (x y : Str) : Prop := ∃ a, lookupVar σ x = some (.list a) ∧ lookupVar σ y = some (.list a)

theorem seenThrough_of_lookup {σ : St} {x : Str} {a : Nat} (h : lookupVar σ x = some (.list a)) :
    seenThrough σ x = (getList σ a).map fun vs => (a, vs) := by
  simp only [seenThrough, h]

theorem seenThrough_eq_some_iff (σ : St) (x : Str) (a : Nat) (vs : List Value) :
    seenThrough σ x = some (a, vs) ↔ lookupVar σ x = some (.list a) ∧ getList σ a = some vs := by
  constructor
  · intro h
    unfold seenThrough at h
    split at h
    · rename_i b hb
      cases hg : getList σ b with
      | none => rw [hg] at h; cases h
      | some ws =>
        rw [hg] at h
        simp only [Option.map_some, Option.some.injEq, Prod.mk.injEq] at h
        obtain ⟨rfl, rfl⟩ := h
        exact ⟨hb, hg⟩
    · cases h
  · rintro ⟨h1, h2⟩
    rw [seenThrough_of_lookup h1, h2]; rfl

/-- aliases see the same thing -/
theorem alias_sees_same {σ : St} {x y : Str} (h : Alias σ x y) : seenThrough σ x = seenThrough σ y := by
  obtain ⟨a, hx, hy⟩ := h
  rw [seenThrough_of_lookup hx, seenThrough_of_lookup hy]

/-- a variable evaluates to the value it is bound to — for a list, the address itself, not a copy -/
theorem expr_var (cfg : Cfg) (f : Nat) (x : Str) (tok : Token) (σ : St) (v : Value) (h : lookupVar σ x = some v) :
    expr cfg (f+1) (.var x tok) σ = .ok (v, σ) := by
  rw [expr]; simp only [h]

/-! ### (a) a mutation through one alias is seen through every alias -/

/-- after the sequence at address `a` has been replaced by `ws`, every variable bound to `a` sees `ws` … -/
theorem update_seen_through_alias {σ τ : St} {a : Nat} {ws : List Value} (h : ListUpdated σ τ a ws) (z : Str)
    (hz : lookupVar σ z = some (.list a)) : seenThrough τ z = some (a, ws) := by
  rw [seenThrough_of_lookup ((h.lookupVar z).trans hz), h.cell]; rfl

/-- … and every other variable sees what it saw -/
theorem update_not_seen_elsewhere {σ τ : St} {a : Nat} {ws : List Value} (h : ListUpdated σ τ a ws) (z : Str)
    (hz : lookupVar σ z ≠ some (.list a)) : seenThrough τ z = seenThrough σ z := by
  unfold seenThrough
  rw [h.lookupVar z]
  cases hx : lookupVar σ z with
  | none => rfl
  | some v =>
    cases v with
    | list b =>
      have hb : b ≠ a := by rintro rfl; exact hz hx
      simp only [h.getList_ne b hb]
    | null | num _ | bool _ | str _ | obj _ => rfl

section
variable (env : CharEnv) (lt lb rb : Token) {σ : St} {x y : Str} {a : Nat} {vs : List Value}
  (hx : lookupVar σ x = some (.list a)) (hy : lookupVar σ y = some (.list a)) (hl : getList σ a = some vs)
include hx hy hl

/-- indexed assignment through the list both `x` and `y` are bound to: both see the new sequence, whichever
variable the list value came from (`expr_var`: both evaluate to `.list a`) -/
theorem index_write_through_alias {idx : Float} {i : Nat} (v : Value) (hv : validIndex vs.length idx = some i) :
    ∃ τ, indexWrite (.list a) (.num idx) v lt lb rb σ = .ok (v, τ) ∧
      seenThrough τ x = some (a, vs.set i v) ∧ seenThrough τ y = some (a, vs.set i v) :=
  ⟨_, index_write_valid lt lb rb σ hl v hv, update_seen_through_alias (index_write_state hl i v) x hx,
    update_seen_through_alias (index_write_state hl i v) y hy⟩

theorem append_through_alias (v : Value) (s1 s2 : Span) :
    ∃ τ, callNative env .append [.list a, v] [s1, s2] σ = .ok (.null, τ) ∧
      seenThrough τ x = some (a, vs ++ [v]) ∧ seenThrough τ y = some (a, vs ++ [v]) :=
  ⟨_, append_spec env σ hl v s1 s2, update_seen_through_alias (append_state σ hl v) x hx,
    update_seen_through_alias (append_state σ hl v) y hy⟩

theorem insert_through_alias {idx : Float} {p : Nat} (v : Value) (s1 s2 s3 : Span)
    (hp : insertPos vs.length idx = some p) :
    ∃ τ, callNative env .insert [.list a, .num idx, v] [s1, s2, s3] σ = .ok (.null, τ) ∧
      seenThrough τ x = some (a, vs.insertIdx p v) ∧ seenThrough τ y = some (a, vs.insertIdx p v) :=
  ⟨_, insert_valid env σ hl v s1 s2 s3 hp, update_seen_through_alias (insert_state σ hl p v) x hx,
    update_seen_through_alias (insert_state σ hl p v) y hy⟩

theorem remove_through_alias {idx : Float} {p : Nat} (s1 s2 : Span) (hp : removePos vs.length idx = some p) :
    ∃ τ, callNative env .remove [.list a, .num idx] [s1, s2] σ = .ok (vs[p]'(removePos_lt hp), τ) ∧
      seenThrough τ x = some (a, vs.eraseIdx p) ∧ seenThrough τ y = some (a, vs.eraseIdx p) :=
  ⟨_, remove_valid env σ hl s1 s2 hp, update_seen_through_alias (remove_state σ hl p) x hx,
    update_seen_through_alias (remove_state σ hl p) y hy⟩

end

/-! ### (b) passing a list, storing a list: the same address -/

/-- the state the body of a user procedure starts in (src: `Procedure::call`) -/
def callState (σ : St) (params : List Str) (args : List Value) : St :=
  { σ with scopes := bindParams params args [] :: σ.scopes, ret := none }

/-- a call of a user procedure with the right number of arguments runs the body in `callState` -/
theorem expr_call_user (cfg : Cfg) (f : Nat) (name : Str) (args : List Expr) (spans : List Span) (tok lp rp : Token)
    (σ σ1 : St) (vs : List Value) (params : List Str) (body : Stmt)
    (hx : exprs cfg f args σ = .ok (vs, σ1)) (hf : σ1.procs.find? name = some (.user params body))
    (hn : params.length = vs.length) :
    expr cfg (f+1) (.call name args spans tok lp rp) σ =
      (stmt cfg f body (callState σ1 params vs)).bind fun τ =>
        match τ.scopes with
        | [] => .panic "env.scrape" τ.out
        | _ :: rest => .ok (τ.ret.getD .null, { τ with ret := σ1.ret, scopes := rest }) := by
  rw [expr]
  simp only [hx, Res.bind_ok, hf, hn, bne_self_eq_false, Bool.false_eq_true, if_false]
  rfl

/-- **a list passed to a procedure is shared**: the parameter is bound to the argument's address, on the
caller's heap — what the callee sees through the parameter is what the caller sees through a variable bound to
that list, and (by (a)) every mutation the callee makes through it is a mutation of the caller's list -/
theorem param_shares_argument (σ : St) (params : List Str) (args : List Value) (hnd : params.Nodup) (i : Nat)
    (hi : i < params.length) (ha : i < args.length) :
    lookupVar (callState σ params args) params[i] = some args[i] ∧ (callState σ params args).heap = σ.heap :=
  ⟨bindParams_get params args [] hnd i hi ha, rfl⟩

theorem param_sees_callers_list (σ : St) (params : List Str) (args : List Value) (hnd : params.Nodup) (i : Nat)
    (hi : i < params.length) (ha : i < args.length) (y : Str) (a : Nat) (harg : args[i] = .list a)
    (hy : lookupVar σ y = some (.list a)) :
    seenThrough (callState σ params args) params[i] = seenThrough σ y := by
  have h := (param_shares_argument σ params args hnd i hi ha).1
  rw [harg] at h
  rw [seenThrough_of_lookup h, seenThrough_of_lookup hy]
  rfl

/-- a list literal allocates one new cell that holds the item *values* as they are -/
theorem expr_list_literal (cfg : Cfg) (f : Nat) (items : List Expr) (lb rb : Token) (σ σ1 : St) (vs : List Value)
    (hx : exprs cfg f items σ = .ok (vs, σ1)) :
    expr cfg (f+1) (.list items lb rb) σ = .ok (.list σ1.heap.length, (mkList σ1 vs).2) := by
  rw [expr]; simp only [hx, Res.bind_ok]; rfl

/-- **a list stored inside another list is shared**: reading the element back gives the same address, and the
inner list's cell is the one that was there (no copy was made) -/
theorem stored_list_is_shared (lt lb rb : Token) (σ : St) (vs : List Value) {x : Float} {i : Nat} (a : Nat)
    (hv : validIndex vs.length x = some i) (he : vs[i]'(validIndex_lt hv) = .list a) (ha : a < σ.heap.length) :
    getList (mkList σ vs).2 σ.heap.length = some vs ∧
    indexRead (.list σ.heap.length) (.num x) lt lb rb (mkList σ vs).2 = .ok (.list a, (mkList σ vs).2) ∧
    getList (mkList σ vs).2 a = getList σ a := by
  refine ⟨getList_mkList_new σ vs, ?_, getList_mkList_old σ vs a ha⟩
  rw [index_read_valid lt lb rb _ (getList_mkList_new σ vs) hv, he]

/-- reading an element that is a list gives that list's address (any cell, however it was built) -/
theorem element_read_shares (lt lb rb : Token) (σ : St) {b : Nat} {vs : List Value} (hl : getList σ b = some vs)
    {x : Float} {i : Nat} (a : Nat) (hv : validIndex vs.length x = some i)
    (he : vs[i]'(validIndex_lt hv) = .list a) :
    indexRead (.list b) (.num x) lt lb rb σ = .ok (.list a, σ) := by
  rw [index_read_valid lt lb rb σ hl hv, he]

/-- a mutation of the inner list through any reference is seen through the outer list's element: the outer
cell still holds the same address, and that address now holds the new sequence -/
theorem inner_update_seen_through_outer {σ τ : St} {a b : Nat} {ws vs : List Value} (h : ListUpdated σ τ a ws)
    (hb : b ≠ a) (hl : getList σ b = some vs) : getList τ b = some vs ∧ getList τ a = some ws :=
  ⟨(h.getList_ne b hb).trans hl, h.cell⟩

/-! ### (c) assignment -/

/-- **what `x <- v` does**, exhaustively. Whenever the assignment succeeds its value is `v`, and
* (*rebind*) `v` is not a list, or `x` is unbound or not bound to a list: `x` is bound to `v` in the current
  frame and no cell changes; or
* (*copy*) `v` is the list at `src`, `x` is bound to a list at another address `tgt`: the cell `tgt` receives
  the elements of `src`; no binding changes; or
* (*same*) `v` is the list `x` is already bound to: nothing changes. -/
theorem assign_trichotomy (x : Str) (v r : Value) (σ σ' : St) (h : assignVar x v σ = .ok (r, σ')) :
    r = v ∧
    ((define σ x v = .ok σ' ∧ σ'.heap = σ.heap ∧ ((∀ s, v ≠ .list s) ∨ ∀ t, lookupVar σ x ≠ some (.list t))) ∨
     (∃ src tgt vs, v = .list src ∧ lookupVar σ x = some (.list tgt) ∧ tgt ≠ src ∧ getList σ src = some vs ∧
        σ' = setCell σ tgt (.list vs)) ∨
     (∃ src, v = .list src ∧ lookupVar σ x = some (.list src) ∧ σ' = σ)) := by
  have hdef : ∀ (w : Value), (define σ x w).bind (fun s => Res.ok (w, s)) = .ok (r, σ') →
      r = w ∧ define σ x w = .ok σ' ∧ σ'.heap = σ.heap := by
    intro w hw
    cases hd : define σ x w with
    | ok s =>
      rw [hd] at hw; simp only [Res.bind_ok] at hw
      injection hw with hw; injection hw with h1 h2
      subst h2
      exact ⟨h1.symm, rfl, define_heap hd⟩
    | err e s => rw [hd] at hw; cases hw
    | terminate w s => rw [hd] at hw; cases hw
    | panic p s => rw [hd] at hw; cases hw
    | fuel => rw [hd] at hw; cases hw
  cases v with
  | list src =>
    unfold assignVar at h
    cases hl : lookupVar σ x with
    | none =>
      simp only [hl] at h
      obtain ⟨h1, h2, h3⟩ := hdef _ h
      exact ⟨h1, Or.inl ⟨h2, h3, Or.inr (by intro t ht; cases ht)⟩⟩
    | some w =>
      cases w with
      | list tgt =>
        simp only [hl] at h
        by_cases heq : tgt = src
        · subst heq
          simp only [beq_self_eq_true, if_true] at h
          injection h with h; injection h with h1 h2
          exact ⟨h1.symm, Or.inr (Or.inr ⟨tgt, rfl, rfl, h2.symm⟩)⟩
        · have hb : (tgt == src) = false := by simpa using heq
          simp only [hb, Bool.false_eq_true, if_false] at h
          cases hg : getList σ src with
          | none => rw [hg] at h; cases h
          | some vs =>
            rw [hg] at h
            injection h with h; injection h with h1 h2
            exact ⟨h1.symm, Or.inr (Or.inl ⟨src, tgt, vs, rfl, rfl, heq, hg, h2.symm⟩)⟩
      | null | num _ | bool _ | str _ | obj _ =>
        simp only [hl] at h
        obtain ⟨h1, h2, h3⟩ := hdef _ h
        exact ⟨h1, Or.inl ⟨h2, h3, Or.inr (by intro t ht; cases ht)⟩⟩
  | null | num _ | bool _ | str _ | obj _ =>
    obtain ⟨h1, h2, h3⟩ := hdef _ h
    exact ⟨h1, Or.inl ⟨h2, h3, Or.inl (by intro s hs; cases hs)⟩⟩

/-- **no action at a distance** — the frame property of assignment in the property's words: after `x <- v`,
every variable `y ≠ x` of the current frame that is not an alias of `x` is bound to what it was bound to, and
the list it refers to (if any) holds the sequence it held; so what is seen through `y` is unchanged -/
theorem assign_no_action_at_a_distance (x : Str) (v r : Value) (σ σ' : St) (h : assignVar x v σ = .ok (r, σ'))
    (y : Str) (hy : y ≠ x) (hna : ¬ Alias σ x y) :
    lookupVar σ' y = lookupVar σ y ∧ (∀ b, lookupVar σ y = some (.list b) → getList σ' b = getList σ b) ∧
    seenThrough σ' y = seenThrough σ y := by
  have key : lookupVar σ' y = lookupVar σ y ∧ (∀ b, lookupVar σ y = some (.list b) → getList σ' b = getList σ b) := by
    obtain ⟨_, hc | hc | hc⟩ := assign_trichotomy x v r σ σ' h
    · obtain ⟨hd, hh, _⟩ := hc
      exact ⟨define_lookup_ne hd y hy, fun b _ => getList_congr b (by rw [hh])⟩
    · obtain ⟨src, tgt, vs, _, hx, _, _, rfl⟩ := hc
      refine ⟨rfl, fun b hb => getList_setCell_ne σ tgt b _ ?_⟩
      rintro rfl; exact hna ⟨b, hx, hb⟩
    · obtain ⟨_, _, _, rfl⟩ := hc
      exact ⟨rfl, fun _ _ => rfl⟩
  refine ⟨key.1, key.2, ?_⟩
  unfold seenThrough
  rw [key.1]
  cases hly : lookupVar σ y with
  | none => rfl
  | some w =>
    cases w with
    | list b => simp only [key.2 b hly]
    | null | num _ | bool _ | str _ | obj _ => rfl

/-- **the frame property for nested contents**: the full rendering of any value `w` (every nested list followed
to the end) is unchanged by `x <- v` unless the cell `x` is bound to is reachable from `w` — i.e. unless some
element path of `w` ends in an alias of `x`. (For such a `w` the change is the specified one: that element
*is* `x`'s list, see `assign_existing_list_copies`.) -/
theorem assign_deep_frame (x : Str) (v r : Value) (σ σ' : St) (h : assignVar x v σ = .ok (r, σ')) (w : Value)
    (hw : ∀ tgt, lookupVar σ x = some (.list tgt) → ¬ Reach σ.heap w tgt) (d : Nat) :
    displayV σ'.heap d w = displayV σ.heap d w ∧ display σ' w = display σ w := by
  have key : σ'.heap.length = σ.heap.length ∧ ∀ b, Reach σ.heap w b → σ'.heap[b]? = σ.heap[b]? := by
    obtain ⟨_, hc | hc | hc⟩ := assign_trichotomy x v r σ σ' h
    · exact ⟨by rw [hc.2.1], fun b _ => by rw [hc.2.1]⟩
    · obtain ⟨src, tgt, vs, _, hx, _, _, rfl⟩ := hc
      refine ⟨heap_length_setCell σ tgt _, fun b hb => setCell_frame σ tgt b _ ?_⟩
      rintro rfl; exact hw b hx hb
    · obtain ⟨_, _, _, rfl⟩ := hc
      exact ⟨rfl, fun _ _ => rfl⟩
  refine ⟨(displayV_frame σ.heap σ'.heap d).1 w key.2, ?_⟩
  simp only [display, key.1, (displayV_frame σ.heap σ'.heap (σ.heap.length + 1)).1 w key.2]

/-- **`x <- y` never changes what is seen through `y`**: the cell of the assigned list value (the list `y`
evaluates to) is never written by the assignment, whether `x` is rebound, receives a copy, or is `y` itself … -/
theorem assign_source_cell_unchanged (x : Str) (src : Nat) (r : Value) (σ σ' : St)
    (h : assignVar x (.list src) σ = .ok (r, σ')) : getList σ' src = getList σ src := by
  obtain ⟨_, hc | hc | hc⟩ := assign_trichotomy x _ r σ σ' h
  · exact getList_congr src (by rw [hc.2.1])
  · obtain ⟨s, tgt, vs, hs, _, hne, _, rfl⟩ := hc
    cases hs
    exact getList_setCell_ne σ tgt src _ (Ne.symm hne)
  · obtain ⟨_, _, _, rfl⟩ := hc; rfl

/-- … so every variable `y ≠ x` bound to that list — the source variable — sees exactly what it saw, even when
it is an alias of `x` -/
theorem assign_source_unchanged (x y : Str) (src : Nat) (r : Value) (σ σ' : St)
    (h : assignVar x (.list src) σ = .ok (r, σ')) (hy : y ≠ x) (hsrc : lookupVar σ y = some (.list src)) :
    seenThrough σ' y = seenThrough σ y := by
  have hl : lookupVar σ' y = some (.list src) := by
    obtain ⟨_, hc | hc | hc⟩ := assign_trichotomy x _ r σ σ' h
    · rw [define_lookup_ne hc.1 y hy, hsrc]
    · obtain ⟨_, _, _, _, _, _, _, rfl⟩ := hc; exact hsrc
    · obtain ⟨_, _, _, rfl⟩ := hc; exact hsrc
  rw [seenThrough_of_lookup hl, seenThrough_of_lookup hsrc, assign_source_cell_unchanged x src r σ σ' h]

/-- **bound by a first assignment is shared**: when `x` is unbound, or bound to something that is not a list,
`x <- (the list at src)` binds `x` to the address `src` itself; no cell changes; every other variable keeps
its binding — so `x` and the source variable are aliases and see the same sequence -/
theorem assign_first_binding_shares (x : Str) (src : Nat) (σ : St) (fr : Frame) (rest : List Frame)
    (hs : σ.scopes = fr :: rest) (hx : ∀ t, lookupVar σ x ≠ some (.list t)) :
    assignVar x (.list src) σ = .ok (.list src, { σ with scopes := fr.set x (.list src) :: rest }) ∧
    lookupVar { σ with scopes := fr.set x (.list src) :: rest } x = some (.list src) ∧
    (∀ y, y ≠ x → lookupVar { σ with scopes := fr.set x (.list src) :: rest } y = lookupVar σ y) ∧
    (∀ y, y ≠ x → lookupVar σ y = some (.list src) → Alias { σ with scopes := fr.set x (.list src) :: rest } x y) := by
  have hd : define σ x (.list src) = .ok { σ with scopes := fr.set x (.list src) :: rest } := by
    simp only [define, hs]
  have h1 := define_lookup_self hd
  have h2 := fun y hy => define_lookup_ne hd y hy
  refine ⟨?_, h1, h2, fun y hy hsrc => ⟨src, h1, (h2 y hy).trans hsrc⟩⟩
  unfold assignVar
  cases hl : lookupVar σ x with
  | none => simp only [hd, Res.bind_ok]
  | some w =>
    cases w with
    | list t => exact absurd hl (hx t)
    | null | num _ | bool _ | str _ | obj _ => simp only [hd, Res.bind_ok]

/-- **assignment to a variable that already holds another list copies**: `x` keeps its own address `tgt`, the
cell `tgt` receives the elements `vs` of the source, so `x` *and every alias of `x`* see `vs`; the source cell
is unchanged, no binding changes, and `x` is still not an alias of the source -/
theorem assign_existing_list_copies (x : Str) (src tgt : Nat) (vs old : List Value) (σ : St)
    (hx : lookupVar σ x = some (.list tgt)) (hne : tgt ≠ src) (ht : getList σ tgt = some old)
    (hsrc : getList σ src = some vs) :
    assignVar x (.list src) σ = .ok (.list src, setCell σ tgt (.list vs)) ∧
    ListUpdated σ (setCell σ tgt (.list vs)) tgt vs ∧
    lookupVar (setCell σ tgt (.list vs)) x = some (.list tgt) ∧
    (∀ z, lookupVar σ z = some (.list tgt) → seenThrough (setCell σ tgt (.list vs)) z = some (tgt, vs)) ∧
    (∀ y, lookupVar σ y = some (.list src) → seenThrough (setCell σ tgt (.list vs)) y = some (src, vs) ∧
        ¬ Alias (setCell σ tgt (.list vs)) x y) := by
  have hu := listUpdated_setCell ht vs
  refine ⟨?_, hu, hx, fun z hz => update_seen_through_alias hu z hz, fun y hy => ⟨?_, ?_⟩⟩
  · have hb : (tgt == src) = false := by simpa using hne
    simp only [assignVar, hx, hb, Bool.false_eq_true, if_false, hsrc]
  · rw [update_not_seen_elsewhere hu y (by rw [hy]; intro e; cases e; exact hne rfl), seenThrough_of_lookup hy, hsrc]
    rfl
  · rintro ⟨c, h1, h2⟩
    rw [lookupVar_setCell] at h1 h2
    rw [hx] at h1; rw [hy] at h2
    cases h1; cases h2; exact hne rfl

/-- `x <- x`, or `x <- y` for an alias `y` of `x`: nothing changes -/
theorem assign_same_list_noop (x : Str) (src : Nat) (σ : St) (hx : lookupVar σ x = some (.list src)) :
    assignVar x (.list src) σ = .ok (.list src, σ) := by
  simp only [assignVar, hx, beq_self_eq_true, if_true]

/-- a value that is not a list always (re)binds: afterwards `x` no longer refers to the list it referred to,
which stays as it was for its other aliases -/
theorem assign_nonlist_rebinds (x : Str) (v : Value) (σ : St) (fr : Frame) (rest : List Frame)
    (hs : σ.scopes = fr :: rest) (hv : ∀ s, v ≠ .list s) :
    assignVar x v σ = .ok (v, { σ with scopes := fr.set x v :: rest }) := by
  have hd : define σ x v = .ok { σ with scopes := fr.set x v :: rest } := by
    simp only [define, hs]
  cases v with
  | list s => exact absurd rfl (hv s)
  | null | num _ | bool _ | str _ | obj _ => simp only [assignVar, hd, Res.bind_ok]

/-- in a state with at least one scope and no dangling list, assignment always succeeds -/
theorem assign_total (x : Str) (v : Value) (σ : St) (hs : σ.scopes ≠ []) (hv : v.ClosedIn σ.heap) :
    ∃ σ', assignVar x v σ = .ok (v, σ') := by
  obtain ⟨fr, rest, hs⟩ : ∃ fr rest, σ.scopes = fr :: rest := by
    cases h : σ.scopes with
    | nil => exact absurd h hs
    | cons fr rest => exact ⟨fr, rest, rfl⟩
  by_cases hl : ∃ s, v = .list s
  · obtain ⟨src, rfl⟩ := hl
    obtain ⟨vs, hsrc⟩ := getList_of_closed hv
    by_cases hx : ∃ t, lookupVar σ x = some (.list t)
    · obtain ⟨tgt, hx⟩ := hx
      by_cases hne : tgt = src
      · subst hne; exact ⟨_, assign_same_list_noop x tgt σ hx⟩
      · have hb : (tgt == src) = false := by simpa using hne
        exact ⟨setCell σ tgt (.list vs), by simp only [assignVar, hx, hb, Bool.false_eq_true, if_false, hsrc]⟩
    · exact ⟨_, (assign_first_binding_shares x src σ fr rest hs (fun t ht => hx ⟨t, ht⟩)).1⟩
  · exact ⟨_, assign_nonlist_rebinds x v σ fr rest hs (fun s e => hl ⟨s, e⟩)⟩

/-- the statement `x <- y` for a variable `y` is `assignVar` on the value `y` is bound to (for a list: its
address) -/
theorem expr_assign_var (cfg : Cfg) (f : Nat) (x y : Str) (t1 t2 t3 : Token) (σ : St) (v : Value)
    (hy : lookupVar σ y = some v) :
    expr cfg (f+2) (.assign x t1 (.var y t2) t3) σ = assignVar x v σ := by
  rw [expr, expr_var cfg f y t2 σ v hy]; simp only [Res.bind_ok]

theorem seenThrough_nonlist {σ : St} {y : Str} {v : Value} (hy : lookupVar σ y = some v) (hv : ∀ s, v ≠ .list s) :
    seenThrough σ y = none := by
  unfold seenThrough; rw [hy]
  cases v with
  | list s => exact absurd rfl (hv s)
  | null | num _ | bool _ | str _ | obj _ => rfl

/-- **the property's sentence, for the evaluator**: whenever the expression `x <- y` (with `y` a variable)
evaluates, what is seen through `y` is what was seen through `y` before, and the same holds for every variable
`z` that is not `x` and not an alias of `x` -/
theorem assign_from_variable_frame (cfg : Cfg) (f : Nat) (x y : Str) (t1 t2 t3 : Token) (σ σ' : St) (r : Value)
    (h : expr cfg (f+2) (.assign x t1 (.var y t2) t3) σ = .ok (r, σ')) :
    seenThrough σ' y = seenThrough σ y ∧
    ∀ z, z ≠ x → ¬ Alias σ x z → lookupVar σ' z = lookupVar σ z ∧ seenThrough σ' z = seenThrough σ z := by
  cases hy : lookupVar σ y with
  | none =>
    rw [expr, expr] at h; simp only [hy] at h; cases h
  | some v =>
    rw [expr_assign_var cfg f x y t1 t2 t3 σ v hy] at h
    refine ⟨?_, fun z hz hna => ⟨(assign_no_action_at_a_distance x v r σ σ' h z hz hna).1,
      (assign_no_action_at_a_distance x v r σ σ' h z hz hna).2.2⟩⟩
    by_cases hl : ∃ s, v = .list s
    · obtain ⟨src, rfl⟩ := hl
      by_cases hyx : y = x
      · subst hyx
        rw [assign_same_list_noop y src σ hy] at h
        injection h with h; injection h with _ h2; rw [← h2]
      · exact assign_source_unchanged x y src r σ σ' h hyx hy
    · have hv : ∀ s, v ≠ .list s := fun s e => hl ⟨s, e⟩
      have hl' : lookupVar σ' y = some v := by
        obtain ⟨_, hc | hc | hc⟩ := assign_trichotomy x v r σ σ' h
        · by_cases hyx : y = x
          · subst hyx; exact define_lookup_self hc.1
          · rw [define_lookup_ne hc.1 y hyx, hy]
        · obtain ⟨s, _, _, e, _⟩ := hc; exact absurd e (hv s)
        · obtain ⟨s, e, _⟩ := hc; exact absurd e (hv s)
      rw [seenThrough_nonlist hl' hv, seenThrough_nonlist hy hv]

/-! ## 4. Index validity in arithmetic terms, for every float

`Proofs/FloatIndex.lean` derives from Lean's logical model of `Float` what the comparison `x ≥ 1.0`, the
subtraction `x - 1.0` and the cast `as usize` compute. `F64.intPart x = some k` says: `x` is finite, not negative,
and the integer part of its exact value is `k`. With it the validity of an index is the property's sentence:
*`x` is a number whose integer part `k` satisfies `1 ≤ k ≤ LENGTH`; it denotes position `k`* (`k - 1` from 0).
The only proviso is `LENGTH ≤ 2^52` (4.5 · 10^15 elements, more than a 64-bit address space can hold): from
`2^53` on the float subtraction `x - 1.0` rounds. -/

/-- index validity in the property's words -/
def specIndex (n : Nat) (x : Float) : Option Nat :=
  match F64.intPart x with
  | some k => if 1 ≤ k ∧ k ≤ n then some (k - 1) else none
  | none => none

theorem specIndex_eq_some_iff (n : Nat) (x : Float) (i : Nat) :
    specIndex n x = some i ↔ ∃ k, F64.intPart x = some k ∧ 1 ≤ k ∧ k ≤ n ∧ i = k - 1 := by
  unfold specIndex
  cases h : F64.intPart x with
  | none => simp
  | some k =>
    by_cases hk : 1 ≤ k ∧ k ≤ n
    · simp only [hk, and_self, if_true, Option.some.injEq]
      constructor
      · intro e; exact ⟨k, rfl, hk.1, hk.2, e.symm⟩
      · rintro ⟨k', e, _, _, rfl⟩; cases e; rfl
    · simp only [hk, if_false, Option.some.injEq]
      constructor
      · intro e; cases e
      · rintro ⟨k', e, h1, h2, _⟩; cases e; exact absurd ⟨h1, h2⟩ hk

theorem intPart_of_inf (x : Float) (h : F64.isPosInf x) : F64.intPart x = none := by
  unfold F64.intPart; rw [h]; rfl

/-- **the bracket index is the arithmetic one**: for every float and every length up to `2^52`, the position
computed by the interpreter (`x ≥ 1.0`, `(x - 1.0) as usize`, bounds check) is the position the property
describes -/
theorem validIndex_eq_specIndex (n : Nat) (hn : n ≤ 2 ^ 52) (x : Float) : validIndex n x = specIndex n x := by
  by_cases hge : x >= 1.0
  · rcases (F64.ge_one_iff x).mp hge with hinf | ⟨k, hk, h1⟩
    · have h2 : ¬ (2 ^ 64 - 1 < n) := by
        have : (2 : Nat) ^ 52 < 2 ^ 64 - 1 := by decide
        omega
      simp only [validIndex, natIndex_inf x hinf, specIndex, intPart_of_inf x hinf, h2, if_false]
    · by_cases hs : k < 2 ^ 53
      · simp only [validIndex, natIndex_eq_small x k hk h1 hs, specIndex, hk, h1, true_and]
        by_cases hkn : k ≤ n
        · have : k - 1 < n := by omega
          simp only [hkn, this, if_true]
        · have : ¬ (k - 1 < n) := by omega
          simp only [hkn, this, if_false]
      · obtain ⟨i, hi, hib⟩ := natIndex_big x k hk (by omega)
        have h1' : ¬ (i < n) := by omega
        have h2' : ¬ (k ≤ n) := by
          have : (2 : Nat) ^ 52 < 2 ^ 53 := by decide
          omega
        simp only [validIndex, hi, h1', if_false, specIndex, hk, h2', and_false]
  · rw [validIndex_below_one n x hge]
    unfold specIndex
    cases hk : F64.intPart x with
    | none => rfl
    | some k =>
      have : ¬ (1 ≤ k) := fun h1 => hge ((F64.ge_one_iff x).mpr (Or.inr ⟨k, hk, h1⟩))
      simp only [this, false_and, if_false]

/-- **REMOVE uses the same positions** (its own computation `(x as usize) - 1` agrees with the bracket's) -/
theorem removePos_eq_specIndex (n : Nat) (hn : n ≤ 2 ^ 52) (x : Float) : removePos n x = specIndex n x := by
  have hbig : (2 : Nat) ^ 52 < 2 ^ 64 - 2 := by decide
  by_cases hge : x >= 1.0
  · rcases (F64.ge_one_iff x).mp hge with hinf | ⟨k, hk, h1⟩
    · have h2 : ¬ (2 ^ 64 - 1 - 1 < n) := by omega
      simp only [removePos, argIndex, hge, if_true, F64.toUSize_inf x hinf, h2, if_false, specIndex,
        intPart_of_inf x hinf]
    · simp only [removePos, argIndex, hge, if_true, F64.toUSize_eq x k hk, specIndex, hk, h1, true_and]
      by_cases hkn : k ≤ n
      · have e : min k (2 ^ 64 - 1) = k := by omega
        have : k - 1 < n := by omega
        simp only [e, hkn, this, if_true]
      · have : ¬ (min k (2 ^ 64 - 1) - 1 < n) := by omega
        simp only [hkn, this, if_false]
  · have h0 : removePos n x = none := by simp only [removePos, argIndex, hge, if_false]
    rw [h0, ← validIndex_eq_specIndex n hn x, validIndex_below_one n x hge]

/-- the bracket and REMOVE agree on every index of every list up to `2^52` elements … -/
theorem removePos_eq_validIndex (n : Nat) (hn : n ≤ 2 ^ 52) (x : Float) : removePos n x = validIndex n x := by
  rw [removePos_eq_specIndex n hn, validIndex_eq_specIndex n hn]

/-- … and INSERT accepts exactly one position more: `1 ≤ ⌊x⌋ ≤ LENGTH + 1` -/
theorem insertPos_eq_specIndex (n : Nat) (hn : n < 2 ^ 52) (x : Float) : insertPos n x = specIndex (n + 1) x := by
  rw [insertPos_eq_removePos_succ, removePos_eq_specIndex (n + 1) (by omega)]

/-- far beyond that bound the two computations do differ (kernel evaluation at `x = 2^53 + 2`, where `x - 1.0`
is a tie and rounds to even): the bracket would take position `2^53`, REMOVE position `2^53 + 1` -/
theorem index_computations_differ_beyond_2_53 :
    natIndex 9007199254740994 = some 9007199254740992 ∧ argIndex 9007199254740994 = some 9007199254740993 := by
  decide +kernel

section
variable (lt lb rb : Token) (σ : St) {a : Nat} {vs : List Value} (hl : getList σ a = some vs)
  (hn : vs.length ≤ 2 ^ 52) {x : Float}
include hl hn

/-- **indexed read, in the property's words**: if the integer part `k` of the index satisfies
`1 ≤ k ≤ LENGTH`, the result is the `k`-th element … -/
theorem index_read_arith_valid {k : Nat} (hk : F64.intPart x = some k) (h1 : 1 ≤ k) (h2 : k ≤ vs.length) :
    indexRead (.list a) (.num x) lt lb rb σ = .ok (vs[k - 1]'(by omega), σ) := by
  have hv : validIndex vs.length x = some (k - 1) := by
    rw [validIndex_eq_specIndex _ hn]; exact (specIndex_eq_some_iff _ _ _).mpr ⟨k, hk, h1, h2, rfl⟩
  exact index_read_valid lt lb rb σ hl hv

/-- … and in every other case (NaN, an infinity, a negative number, integer part 0 or above LENGTH) a runtime
error with the state unchanged -/
theorem index_read_arith_invalid (h : ∀ k, F64.intPart x = some k → k = 0 ∨ vs.length < k) :
    indexRead (.list a) (.num x) lt lb rb σ = .err ⟨"Invalid List Index", interior lb rb⟩ σ := by
  apply index_read_invalid lt lb rb σ hl
  rw [validIndex_eq_specIndex _ hn]
  rcases option_cases (specIndex vs.length x) with h0 | ⟨i, hi⟩
  · exact h0
  · obtain ⟨k, hk, h1, h2, _⟩ := (specIndex_eq_some_iff _ _ _).mp hi
    rcases h k hk with h3 | h3 <;> omega

theorem index_write_arith_valid (v : Value) {k : Nat} (hk : F64.intPart x = some k) (h1 : 1 ≤ k)
    (h2 : k ≤ vs.length) :
    indexWrite (.list a) (.num x) v lt lb rb σ = .ok (v, setCell σ a (.list (vs.set (k - 1) v))) := by
  have hv : validIndex vs.length x = some (k - 1) := by
    rw [validIndex_eq_specIndex _ hn]; exact (specIndex_eq_some_iff _ _ _).mpr ⟨k, hk, h1, h2, rfl⟩
  exact index_write_valid lt lb rb σ hl v hv

theorem index_write_arith_invalid (v : Value) (h : ∀ k, F64.intPart x = some k → k = 0 ∨ vs.length < k) :
    indexWrite (.list a) (.num x) v lt lb rb σ = .err ⟨"Invalid List Index", interior lb rb⟩ σ := by
  apply index_write_invalid lt lb rb σ hl
  rw [validIndex_eq_specIndex _ hn]
  rcases option_cases (specIndex vs.length x) with h0 | ⟨i, hi⟩
  · exact h0
  · obtain ⟨k, hk, h1, h2, _⟩ := (specIndex_eq_some_iff _ _ _).mp hi
    rcases h k hk with h3 | h3 <;> omega

end

section
variable (env : CharEnv) (σ : St) {a : Nat} {vs : List Value} (hl : getList σ a = some vs)
  (hn : vs.length < 2 ^ 52) {x : Float}
include hl hn

/-- **INSERT(l, x, v) with `1 ≤ ⌊x⌋ ≤ LENGTH + 1`** puts `v` at position `⌊x⌋` -/
theorem insert_arith_valid (v : Value) (s1 s2 s3 : Span) {k : Nat} (hk : F64.intPart x = some k) (h1 : 1 ≤ k)
    (h2 : k ≤ vs.length + 1) :
    callNative env .insert [.list a, .num x, v] [s1, s2, s3] σ =
      .ok (.null, setCell σ a (.list (vs.insertIdx (k - 1) v))) := by
  apply insert_valid env σ hl v s1 s2 s3
  rw [insertPos_eq_specIndex _ hn]; exact (specIndex_eq_some_iff _ _ _).mpr ⟨k, hk, h1, h2, rfl⟩

/-- **REMOVE(l, x) with `1 ≤ ⌊x⌋ ≤ LENGTH`** returns and deletes the `⌊x⌋`-th element -/
theorem remove_arith_valid (s1 s2 : Span) {k : Nat} (hk : F64.intPart x = some k) (h1 : 1 ≤ k)
    (h2 : k ≤ vs.length) :
    callNative env .remove [.list a, .num x] [s1, s2] σ =
      .ok (vs[k - 1]'(by omega), setCell σ a (.list (vs.eraseIdx (k - 1)))) := by
  have hp : removePos vs.length x = some (k - 1) := by
    rw [removePos_eq_specIndex _ (by omega)]; exact (specIndex_eq_some_iff _ _ _).mpr ⟨k, hk, h1, h2, rfl⟩
  exact remove_valid env σ hl s1 s2 hp

end

/-! ### LENGTH as an index -/

/-- **LENGTH(l) is the number of elements, exactly**: the float it returns has integer part `vs.length` (every
list below `2^53` elements; `Nat.toFloat` is exact there) -/
theorem length_list_exact (env : CharEnv) (σ : St) {a : Nat} {vs : List Value} (hl : getList σ a = some vs)
    (hn : vs.length < 2 ^ 53) (sp : List Span) :
    ∃ y, callNative env .length [.list a] sp σ = .ok (.num y, σ) ∧ F64.intPart y = some vs.length :=
  ⟨_, length_list env σ hl sp, F64.intPart_toFloat _ hn⟩

theorem length_string_exact (env : CharEnv) (σ : St) (s : Str) (hn : s.length < 2 ^ 53) (sp : List Span) :
    ∃ y, callNative env .length [.str s] sp σ = .ok (.num y, σ) ∧ F64.intPart y = some s.length :=
  ⟨_, length_string env σ s sp, F64.intPart_toFloat _ hn⟩

/-- the number `LENGTH` is the last valid index of a non-empty sequence -/
theorem validIndex_length (n : Nat) (h1 : 1 ≤ n) (hn : n ≤ 2 ^ 52) : validIndex n n.toFloat = some (n - 1) := by
  rw [validIndex_eq_specIndex n hn]
  have : (2 : Nat) ^ 52 < 2 ^ 53 := by decide
  exact (specIndex_eq_some_iff _ _ _).mpr ⟨n, F64.intPart_toFloat n (by omega), h1, Nat.le_refl n, rfl⟩

/-- **`l[LENGTH(l)]` is the last element** -/
theorem index_read_at_length (lt lb rb : Token) (σ : St) {a : Nat} {vs : List Value} (hl : getList σ a = some vs)
    (h1 : 1 ≤ vs.length) (hn : vs.length ≤ 2 ^ 52) :
    indexRead (.list a) (.num vs.length.toFloat) lt lb rb σ = .ok (vs[vs.length - 1]'(by omega), σ) :=
  index_read_valid lt lb rb σ hl (validIndex_length vs.length h1 hn)

/-! ## 5. Non-vacuity: the boundary indices and every headline theorem on a concrete heap -/

namespace C04bDemo

/-- **the boundary indices of a 3-element sequence** (kernel evaluation of the float comparison, subtraction and
cast): 0, -1, 0.5, 0.999…, NaN are invalid; 1 is the first position; 3 (= LENGTH) and 3.5, 3.999 (integer part
LENGTH) are the last; 4 (= LENGTH + 1), 4.5, 1e30 and +∞ are invalid -/
theorem validIndex_boundary :
    validIndex 3 0 = none ∧ validIndex 3 (-0.0) = none ∧ validIndex 3 (-1) = none ∧ validIndex 3 0.5 = none ∧
    validIndex 3 0.9999999999999999 = none ∧ validIndex 3 (0.0 / 0.0) = none ∧
    validIndex 3 1 = some 0 ∧ validIndex 3 1.5 = some 0 ∧ validIndex 3 2 = some 1 ∧
    validIndex 3 3 = some 2 ∧ validIndex 3 3.5 = some 2 ∧ validIndex 3 3.999 = some 2 ∧
    validIndex 3 4 = none ∧ validIndex 3 4.5 = none ∧ validIndex 3 1e30 = none ∧ validIndex 3 (1.0 / 0.0) = none ∧
    validIndex 0 1 = none := by decide +kernel

/-- the same for the positions INSERT (1 .. LENGTH + 1) and REMOVE (1 .. LENGTH) accept -/
theorem insert_remove_boundary :
    insertPos 3 0 = none ∧ insertPos 3 0.5 = none ∧ insertPos 3 (-1) = none ∧ insertPos 3 (0.0 / 0.0) = none ∧
    insertPos 3 1 = some 0 ∧ insertPos 3 3 = some 2 ∧ insertPos 3 4 = some 3 ∧ insertPos 3 4.5 = some 3 ∧
    insertPos 3 5 = none ∧ insertPos 0 1 = some 0 ∧
    removePos 3 0 = none ∧ removePos 3 0.5 = none ∧ removePos 3 (-1) = none ∧ removePos 3 (0.0 / 0.0) = none ∧
    removePos 3 1 = some 0 ∧ removePos 3 3 = some 2 ∧ removePos 3 3.5 = some 2 ∧ removePos 3 4 = none ∧
    removePos 0 1 = none := by decide +kernel

def tk : Token := default
def env0 : CharEnv := CharEnv.ascii

/-- cell 0 = `[10, 20, 30]`, cell 1 = `[7]`, cell 2 = `[⟨cell 1⟩, 5]` (a list stored in a list);
`x`, `y` ↦ cell 0 (aliases), `z` ↦ cell 1, `w` ↦ cell 2, `n` ↦ 4 -/
def σ0 : St :=
  { heap := [.list [.num 10, .num 20, .num 30], .list [.num 7], .list [.list 1, .num 5]],
    scopes := [[(['x'], .list 0), (['y'], .list 0), (['z'], .list 1), (['w'], .list 2), (['n'], .num 4)]] }

def vs0 : List Value := [.num 10, .num 20, .num 30]
theorem hl0 : getList σ0 0 = some vs0 := rfl
theorem hl1 : getList σ0 1 = some [.num 7] := rfl
theorem hl2 : getList σ0 2 = some [.list 1, .num 5] := rfl
theorem hx0 : lookupVar σ0 ['x'] = some (.list 0) := by rfl
theorem hy0 : lookupVar σ0 ['y'] = some (.list 0) := by rfl
theorem hz0 : lookupVar σ0 ['z'] = some (.list 1) := by rfl

/-! ### reads -/

example : indexRead (.list 0) (.num 1) tk tk tk σ0 = .ok (.num 10, σ0) :=
  index_read_valid tk tk tk σ0 hl0 (x := 1) (i := 0) (by decide)
example : indexRead (.list 0) (.num 3) tk tk tk σ0 = .ok (.num 30, σ0) :=
  index_read_valid tk tk tk σ0 hl0 (x := 3) (i := 2) (by decide)
example : indexRead (.list 0) (.num 3.5) tk tk tk σ0 = .ok (.num 30, σ0) :=
  index_read_valid tk tk tk σ0 hl0 (x := 3.5) (i := 2) (by decide)
example : indexRead (.list 0) (.num 0) tk tk tk σ0 = .err ⟨"Invalid List Index", interior tk tk⟩ σ0 :=
  index_read_invalid tk tk tk σ0 hl0 (x := 0) (by decide)
example : indexRead (.list 0) (.num (-1)) tk tk tk σ0 = .err ⟨"Invalid List Index", interior tk tk⟩ σ0 :=
  index_read_invalid tk tk tk σ0 hl0 (x := -1) (by decide)
example : indexRead (.list 0) (.num 0.5) tk tk tk σ0 = .err ⟨"Invalid List Index", interior tk tk⟩ σ0 :=
  index_read_invalid tk tk tk σ0 hl0 (x := 0.5) (by decide)
example : indexRead (.list 0) (.num 4) tk tk tk σ0 = .err ⟨"Invalid List Index", interior tk tk⟩ σ0 :=
  index_read_invalid tk tk tk σ0 hl0 (x := 4) (by decide)
/-- the hypothesis of `index_read_never_other` is satisfiable, and its conclusion pins the element -/
example : ∃ i, ∃ hv : validIndex vs0.length 2 = some i, (Value.num 20) = vs0[i]'(validIndex_lt hv) :=
  (index_read_never_other tk tk tk σ0 hl0 (x := 2) (v := .num 20) (σ' := σ0)
    (index_read_valid tk tk tk σ0 hl0 (x := 2) (i := 1) (by decide))).2

/-- strings: `"abc"[1] = "a"`, `"abc"[3] = "c"`, `"abc"[0]`, `"abc"[4]` are errors; multi-byte characters count
as one (`"aé€"[3] = "€"`: indexing is by character, not by byte) -/
example : indexRead (.str ['a', 'b', 'c']) (.num 1) tk tk tk σ0 = .ok (.str ['a'], σ0) :=
  index_read_string_valid tk tk tk σ0 _ (x := 1) (i := 0) (by decide)
example : indexRead (.str ['a', 'b', 'c']) (.num 3) tk tk tk σ0 = .ok (.str ['c'], σ0) :=
  index_read_string_valid tk tk tk σ0 _ (x := 3) (i := 2) (by decide)
example : indexRead (.str ['a', 'é', '€']) (.num 3) tk tk tk σ0 = .ok (.str ['€'], σ0) :=
  index_read_string_valid tk tk tk σ0 _ (x := 3) (i := 2) (by decide)
example : indexRead (.str ['a', 'b', 'c']) (.num 0) tk tk tk σ0 = .err ⟨"Invalid List Index", interior tk tk⟩ σ0 :=
  index_read_string_invalid tk tk tk σ0 _ (x := 0) (by decide)
example : indexRead (.str ['a', 'b', 'c']) (.num 4) tk tk tk σ0 = .err ⟨"Invalid List Index", interior tk tk⟩ σ0 :=
  index_read_string_invalid tk tk tk σ0 _ (x := 4) (by decide)
example : indexRead (.str []) (.num 1) tk tk tk σ0 = .err ⟨"Invalid List Index", interior tk tk⟩ σ0 :=
  index_read_string_invalid tk tk tk σ0 _ (x := 1) (by decide)

/-! ### writes -/

example : indexWrite (.list 0) (.num 2) (.num 99) tk tk tk σ0 =
    .ok (.num 99, setCell σ0 0 (.list [.num 10, .num 99, .num 30])) :=
  index_write_valid tk tk tk σ0 hl0 (x := 2) (i := 1) (.num 99) (by decide)
example : indexWrite (.list 0) (.num 4) (.num 99) tk tk tk σ0 = .err ⟨"Invalid List Index", interior tk tk⟩ σ0 :=
  index_write_invalid tk tk tk σ0 hl0 (x := 4) (.num 99) (by decide)
example : indexWrite (.list 0) (.num 0) (.num 99) tk tk tk σ0 = .err ⟨"Invalid List Index", interior tk tk⟩ σ0 :=
  index_write_invalid tk tk tk σ0 hl0 (x := 0) (.num 99) (by decide)
example : indexWrite (.str ['a']) (.num 1) (.str ['b']) tk tk tk σ0 = .err ⟨"Invalid Type", tk.span⟩ σ0 :=
  index_write_not_list tk tk tk σ0 _ _ _ (by intro a h; cases h)
/-- write at 2, read at 2.5 (same position) gives the new value; read at 3 gives the old element -/
example : indexRead (.list 0) (.num 2.5) tk tk tk (setCell σ0 0 (.list (vs0.set 1 (.num 99)))) =
    .ok (.num 99, setCell σ0 0 (.list (vs0.set 1 (.num 99)))) :=
  index_write_read_same tk tk tk σ0 hl0 (i := 1) (.num 99) (y := 2.5) (by decide)
example : indexRead (.list 0) (.num 3) tk tk tk (setCell σ0 0 (.list (vs0.set 1 (.num 99)))) =
    .ok (.num 30, setCell σ0 0 (.list (vs0.set 1 (.num 99)))) :=
  index_write_read_other tk tk tk σ0 hl0 (i := 1) (.num 99) (y := 3) (j := 2) (by decide) (by decide)

/-! ### natives -/

example : callNative env0 .append [.list 0, .num 40] [(0,0), (0,0)] σ0 =
    .ok (.null, setCell σ0 0 (.list [.num 10, .num 20, .num 30, .num 40])) :=
  append_spec env0 σ0 hl0 (.num 40) (0,0) (0,0)
example : callNative env0 .append [.str ['a'], .num 40] [(3,1), (0,0)] σ0 =
    .err ⟨"Invalid Argument Cast: LIST", (3,1)⟩ σ0 :=
  append_not_list env0 σ0 _ _ _ _ (by intro a h; cases h)
/-- INSERT at 2 shifts 20, 30 right; at LENGTH + 1 = 4 it appends; at 5 and at 0 it is an error -/
example : callNative env0 .insert [.list 0, .num 2, .num 15] [(0,0), (0,0), (0,0)] σ0 =
    .ok (.null, setCell σ0 0 (.list [.num 10, .num 15, .num 20, .num 30])) :=
  insert_valid env0 σ0 hl0 (x := 2) (p := 1) (.num 15) (0,0) (0,0) (0,0) (by decide)
example : callNative env0 .insert [.list 0, .num 4, .num 15] [(0,0), (0,0), (0,0)] σ0 =
    .ok (.null, setCell σ0 0 (.list [.num 10, .num 20, .num 30, .num 15])) :=
  insert_valid env0 σ0 hl0 (x := 4) (p := 3) (.num 15) (0,0) (0,0) (0,0) (by decide)
example : callNative env0 .insert [.list 0, .num 5, .num 15] [(0,0), (7,1), (0,0)] σ0 =
    .err ⟨"Invalid List Index", (7,1)⟩ σ0 :=
  insert_invalid env0 σ0 hl0 (x := 5) (.num 15) (0,0) (7,1) (0,0) (by decide)
example : callNative env0 .insert [.list 0, .num 0, .num 15] [(0,0), (7,1), (0,0)] σ0 =
    .err ⟨"Invalid List Index", (7,1)⟩ σ0 :=
  insert_invalid env0 σ0 hl0 (x := 0) (.num 15) (0,0) (7,1) (0,0) (by decide)
example : callNative env0 .insert [.str ['a'], .num 1, .num 15] [(3,1), (0,0), (0,0)] σ0 =
    .err ⟨"Invalid Argument Cast: LIST", (3,1)⟩ σ0 :=
  insert_not_list env0 σ0 _ _ _ _ _ _ (by intro a h; cases h)
/-- REMOVE at 2 returns 20 and closes the gap; at LENGTH = 3 returns the last; at 4, 0 it is an error -/
example : callNative env0 .remove [.list 0, .num 2] [(0,0), (0,0)] σ0 =
    .ok (.num 20, setCell σ0 0 (.list [.num 10, .num 30])) :=
  remove_valid env0 σ0 hl0 (x := 2) (p := 1) (0,0) (0,0) (by decide)
example : callNative env0 .remove [.list 0, .num 3] [(0,0), (0,0)] σ0 =
    .ok (.num 30, setCell σ0 0 (.list [.num 10, .num 20])) :=
  remove_valid env0 σ0 hl0 (x := 3) (p := 2) (0,0) (0,0) (by decide)
example : callNative env0 .remove [.list 0, .num 4] [(0,0), (7,1)] σ0 = .err ⟨"Invalid List Index", (7,1)⟩ σ0 :=
  remove_invalid env0 σ0 hl0 (x := 4) (0,0) (7,1) (by decide)
example : callNative env0 .remove [.list 0, .num 0] [(0,0), (7,1)] σ0 = .err ⟨"Invalid List Index", (7,1)⟩ σ0 :=
  remove_invalid env0 σ0 hl0 (x := 0) (0,0) (7,1) (by decide)
example : callNative env0 .remove [.str ['a'], .num 1] [(3,1), (0,0)] σ0 =
    .err ⟨"Invalid Argument Cast: LIST", (3,1)⟩ σ0 :=
  remove_not_list env0 σ0 _ _ _ _ (by intro a h; cases h)
example : ∃ τ, callNative env0 .remove [.list 0, .num 2] [(0,0), (0,0)]
      (setCell σ0 0 (.list (vs0.insertIdx 1 (.num 15)))) = .ok (.num 15, τ) ∧ getList τ 0 = some vs0 :=
  insert_then_remove env0 σ0 hl0 (x := 2) (p := 1) (.num 15) (0,0) (0,0) (by decide)
example : callNative env0 .length [.list 0] [(0,0)] σ0 = .ok (.num (3 : Nat).toFloat, σ0) :=
  length_list env0 σ0 hl0 _
example : callNative env0 .length [.str ['a', 'é', '€']] [(0,0)] σ0 = .ok (.num (3 : Nat).toFloat, σ0) :=
  length_string env0 σ0 _ _
/-- LENGTH as a number is the last valid index, LENGTH + 1 the first invalid one -/
example : (3 : Nat).toFloat = 3 ∧ validIndex 3 (3 : Nat).toFloat = some 2 ∧
    validIndex 3 ((3 : Nat).toFloat + 1) = none := by decide
example : binop .add tk (.list 0) (.list 1) σ0 =
    .ok (.list 3, (mkList σ0 [.num 10, .num 20, .num 30, .num 7]).2) :=
  concat_spec σ0 tk hl0 hl1
example : getList (mkList σ0 (vs0 ++ [.num 7])).2 0 = some vs0 ∧ getList (mkList σ0 (vs0 ++ [.num 7])).2 1 = some [.num 7] :=
  ⟨(concat_state σ0 hl0 hl1).2.2.2.2.2.1, (concat_state σ0 hl0 hl1).2.2.2.2.2.2.1⟩
/-- `l + l` works too (both operands are the same cell) -/
example : binop .add tk (.list 1) (.list 1) σ0 = .ok (.list 3, (mkList σ0 [.num 7, .num 7]).2) :=
  concat_spec σ0 tk hl1 hl1

/-! ### aliasing -/

example : Alias σ0 ['x'] ['y'] := ⟨0, hx0, hy0⟩
example : ¬ Alias σ0 ['x'] ['z'] := by
  rintro ⟨a, h1, h2⟩; rw [hx0] at h1; rw [hz0] at h2; cases h1; cases h2
/-- a write through `x`'s list is seen through `y` -/
example : ∃ τ, indexWrite (.list 0) (.num 1) (.num 11) tk tk tk σ0 = .ok (.num 11, τ) ∧
    seenThrough τ ['x'] = some (0, vs0.set 0 (.num 11)) ∧ seenThrough τ ['y'] = some (0, vs0.set 0 (.num 11)) :=
  index_write_through_alias tk tk tk hx0 hy0 hl0 (idx := 1) (i := 0) (.num 11) (by decide)
example : ∃ τ, callNative env0 .append [.list 0, .num 40] [(0,0), (0,0)] σ0 = .ok (.null, τ) ∧
    seenThrough τ ['x'] = some (0, vs0 ++ [.num 40]) ∧ seenThrough τ ['y'] = some (0, vs0 ++ [.num 40]) :=
  append_through_alias env0 hx0 hy0 hl0 (.num 40) (0,0) (0,0)
example : ∃ τ, callNative env0 .insert [.list 0, .num 1, .num 5] [(0,0), (0,0), (0,0)] σ0 = .ok (.null, τ) ∧
    seenThrough τ ['x'] = some (0, vs0.insertIdx 0 (.num 5)) ∧ seenThrough τ ['y'] = some (0, vs0.insertIdx 0 (.num 5)) :=
  insert_through_alias env0 hx0 hy0 hl0 (idx := 1) (p := 0) (.num 5) (0,0) (0,0) (0,0) (by decide)
example : ∃ τ, callNative env0 .remove [.list 0, .num 1] [(0,0), (0,0)] σ0 = .ok (.num 10, τ) ∧
    seenThrough τ ['x'] = some (0, vs0.eraseIdx 0) ∧ seenThrough τ ['y'] = some (0, vs0.eraseIdx 0) :=
  remove_through_alias env0 hx0 hy0 hl0 (idx := 1) (p := 0) (0,0) (0,0) (by decide)
/-- … and not through `z` -/
example : seenThrough (setCell σ0 0 (.list (vs0 ++ [.num 40]))) ['z'] = seenThrough σ0 ['z'] :=
  update_not_seen_elsewhere (append_state σ0 hl0 (.num 40)) ['z'] (by rw [hz0]; intro h; cases h)
/-- the element `w[1]` *is* the list `z` is bound to -/
example : indexRead (.list 2) (.num 1) tk tk tk σ0 = .ok (.list 1, σ0) :=
  element_read_shares tk tk tk σ0 hl2 (x := 1) (i := 0) 1 (by decide) rfl
/-- a parameter is bound to the argument's address -/
example : lookupVar (callState σ0 [['p'], ['q']] [.list 0, .num 1]) ['p'] = some (.list 0) :=
  (param_shares_argument σ0 [['p'], ['q']] [.list 0, .num 1] (by decide) 0 (by decide) (by decide)).1
example : seenThrough (callState σ0 [['p'], ['q']] [.list 0, .num 1]) ['p'] = seenThrough σ0 ['x'] :=
  param_sees_callers_list σ0 [['p'], ['q']] [.list 0, .num 1] (by decide) 0 (by decide) (by decide) ['x'] 0 rfl hx0

/-! ### assignment -/

/-- first binding: `v <- x` binds `v` to cell 0 — an alias of `x` -/
example : ∃ τ, assignVar ['v'] (.list 0) σ0 = .ok (.list 0, τ) ∧ Alias τ ['v'] ['x'] := by
  obtain ⟨h1, _, _, h4⟩ := assign_first_binding_shares ['v'] 0 σ0 _ _ rfl
    (by have h : lookupVar σ0 ['v'] = none := by rfl
        intro t ht; rw [h] at ht; cases ht)
  exact ⟨_, h1, h4 ['x'] (by decide) hx0⟩
/-- existing list: `z <- x` copies `[10, 20, 30]` into cell 1; `z` keeps cell 1, `x` and `y` still see cell 0 -/
example : assignVar ['z'] (.list 0) σ0 = .ok (.list 0, setCell σ0 1 (.list vs0)) ∧
    seenThrough (setCell σ0 1 (.list vs0)) ['z'] = some (1, vs0) ∧
    seenThrough (setCell σ0 1 (.list vs0)) ['x'] = some (0, vs0) ∧
    ¬ Alias (setCell σ0 1 (.list vs0)) ['z'] ['x'] := by
  obtain ⟨h1, _, _, h4, h5⟩ := assign_existing_list_copies ['z'] 0 1 vs0 [.num 7] σ0 hz0 (by decide) hl1 hl0
  exact ⟨h1, h4 ['z'] hz0, (h5 ['x'] hx0).1, (h5 ['x'] hx0).2⟩
/-- the copy is seen through the outer list `w`, whose first element is `z`'s cell: `w[1]` is an alias of `z` -/
example : getList (setCell σ0 1 (.list vs0)) 2 = some [.list 1, .num 5] ∧ getList (setCell σ0 1 (.list vs0)) 1 = some vs0 :=
  inner_update_seen_through_outer (listUpdated_setCell hl1 vs0) (by decide) hl2
/-- `x <- y` for aliases: nothing changes -/
example : assignVar ['x'] (.list 0) σ0 = .ok (.list 0, σ0) := assign_same_list_noop ['x'] 0 σ0 hx0
/-- frame: `z <- x` leaves `n`, `w`, `x`, `y` (none an alias of `z`) exactly as they were -/
example : seenThrough (setCell σ0 1 (.list vs0)) ['y'] = seenThrough σ0 ['y'] :=
  (assign_no_action_at_a_distance ['z'] (.list 0) (.list 0) σ0 _
    (assign_existing_list_copies ['z'] 0 1 vs0 [.num 7] σ0 hz0 (by decide) hl1 hl0).1 ['y'] (by decide)
    (by rintro ⟨a, h1, h2⟩; rw [hz0] at h1; rw [hy0] at h2; cases h1; cases h2)).2.2
example : ∃ τ, assignVar ['x'] (.num 1) σ0 = .ok (.num 1, τ) :=
  ⟨_, assign_nonlist_rebinds ['x'] (.num 1) σ0 _ _ rfl (by intro s h; cases h)⟩

/-! ### whole programs, through lexer, parser and evaluator (kernel evaluation of `run`) -/

def cfg0 : Cfg := genCfg CharEnv.ascii
def finalOr (o : RunOut) : St := o.final.getD default
def endedOk (o : RunOut) : Bool := match o.status with | .ok => true | _ => false
def errKind (o : RunOut) : Option String := match o.status with | .rtErr e => some e.kind | _ => none
def refIs (o : Option Value) (a : Nat) : Bool := match o with | some (.list b) => a == b | _ => false
def numOr (v : Value) : Float := match v with | .num x => x | _ => 0.0 / 0.0
/-- the numbers in cell `a` (NaN for an element that is not a number) -/
def numsAt (σ : St) (a : Nat) : Option (List Float) := (getList σ a).map (·.map numOr)

/-- the expression `z <- x` evaluates (so `assign_from_variable_frame` is not vacuous), and `x` sees what it saw -/
example : expr cfg0 2 (.assign ['z'] tk (.var ['x'] tk) tk) σ0 = .ok (.list 0, setCell σ0 1 (.list vs0)) := by
  rw [expr_assign_var cfg0 0 ['z'] ['x'] tk tk tk σ0 _ hx0]
  exact (assign_existing_list_copies ['z'] 0 1 vs0 [.num 7] σ0 hz0 (by decide) hl1 hl0).1
example : seenThrough (setCell σ0 1 (.list vs0)) ['x'] = seenThrough σ0 ['x'] :=
  (assign_from_variable_frame cfg0 0 ['z'] ['x'] tk tk tk σ0 _ (.list 0) (by
    rw [expr_assign_var cfg0 0 ['z'] ['x'] tk tk tk σ0 _ hx0]
    exact (assign_existing_list_copies ['z'] 0 1 vs0 [.num 7] σ0 hz0 (by decide) hl1 hl0).1)).1

/-- first assignment shares (`b` is `a`'s cell 0: the write through `b` and the APPEND through `a` land in the
same cell); assignment to `c`, which already holds a list, copies into `c`'s own cell 1, and a later write
through `c` does not reach `a` -/
def srcAlias : Str := "a <- [1, 2, 3]\nb <- a\nb[1] <- 9\nAPPEND(a, 4)\nc <- [0]\nc <- a\nc[2] <- 7\n".toList

example : endedOk (Aplang.run cfg0 80 srcAlias {} []) = true ∧
    refIs (lookupVar (finalOr (Aplang.run cfg0 80 srcAlias {} [])) ['a']) 0 = true ∧
    refIs (lookupVar (finalOr (Aplang.run cfg0 80 srcAlias {} [])) ['b']) 0 = true ∧
    refIs (lookupVar (finalOr (Aplang.run cfg0 80 srcAlias {} [])) ['c']) 1 = true ∧
    numsAt (finalOr (Aplang.run cfg0 80 srcAlias {} [])) 0 = some [9, 2, 3, 4] ∧
    numsAt (finalOr (Aplang.run cfg0 80 srcAlias {} [])) 1 = some [9, 7, 3, 4] := by decide +kernel

/-- a list passed to a procedure and a list stored inside another list are shared: `g` appends to its
parameter (the caller's `m`), takes `m[1]` (the caller's `l`) and appends to that -/
def srcShare : Str :=
  "l <- [1]\nm <- [l, 5]\nPROCEDURE g(p) { APPEND(p, 2)\n q <- p[1]\n APPEND(q, 3) }\ng(m)\nr <- REMOVE(l, 1)\nn <- LENGTH(m)\n".toList

example : endedOk (Aplang.run cfg0 80 srcShare {} []) = true ∧
    refIs (lookupVar (finalOr (Aplang.run cfg0 80 srcShare {} [])) ['l']) 0 = true ∧
    refIs (lookupVar (finalOr (Aplang.run cfg0 80 srcShare {} [])) ['m']) 1 = true ∧
    numsAt (finalOr (Aplang.run cfg0 80 srcShare {} [])) 0 = some [3] ∧
    ((getList (finalOr (Aplang.run cfg0 80 srcShare {} [])) 1).map fun vs => (refIs vs[0]? 0, vs.length)) = some (true, 3) ∧
    (lookupVar (finalOr (Aplang.run cfg0 80 srcShare {} [])) ['r']).map numOr = some 1 ∧
    (lookupVar (finalOr (Aplang.run cfg0 80 srcShare {} [])) ['n']).map numOr = some 3 := by decide +kernel

/-- `+` builds a new list (cell 2) and leaves both operands as they were, also after the result is mutated -/
def srcPlus : Str := "a <- [1, 2]\nb <- [3]\nc <- a + b\nAPPEND(c, 4)\nINSERT(c, 1, 0)\n".toList

example : endedOk (Aplang.run cfg0 80 srcPlus {} []) = true ∧
    refIs (lookupVar (finalOr (Aplang.run cfg0 80 srcPlus {} [])) ['c']) 2 = true ∧
    numsAt (finalOr (Aplang.run cfg0 80 srcPlus {} [])) 0 = some [1, 2] ∧
    numsAt (finalOr (Aplang.run cfg0 80 srcPlus {} [])) 1 = some [3] ∧
    numsAt (finalOr (Aplang.run cfg0 80 srcPlus {} [])) 2 = some [0, 1, 2, 3, 4] := by decide +kernel

/-- every out-of-range access ends the program with the runtime error, for lists and strings -/
example :
    errKind (Aplang.run cfg0 80 "a <- [1, 2, 3]\nx <- a[4]\n".toList {} []) = some "Invalid List Index" ∧
    errKind (Aplang.run cfg0 80 "a <- [1, 2, 3]\nx <- a[0]\n".toList {} []) = some "Invalid List Index" ∧
    errKind (Aplang.run cfg0 80 "a <- [1, 2, 3]\nx <- a[0 - 1]\n".toList {} []) = some "Invalid List Index" ∧
    errKind (Aplang.run cfg0 80 "a <- [1, 2, 3]\nx <- a[0.5]\n".toList {} []) = some "Invalid List Index" ∧
    errKind (Aplang.run cfg0 80 "a <- [1, 2, 3]\na[4] <- 0\n".toList {} []) = some "Invalid List Index" ∧
    errKind (Aplang.run cfg0 80 "a <- [1, 2, 3]\na[0] <- 0\n".toList {} []) = some "Invalid List Index" ∧
    errKind (Aplang.run cfg0 80 "a <- [1, 2, 3]\nREMOVE(a, 4)\n".toList {} []) = some "Invalid List Index" ∧
    errKind (Aplang.run cfg0 80 "a <- [1, 2, 3]\nREMOVE(a, 0)\n".toList {} []) = some "Invalid List Index" ∧
    errKind (Aplang.run cfg0 80 "a <- [1, 2, 3]\nINSERT(a, 5, 0)\n".toList {} []) = some "Invalid List Index" ∧
    errKind (Aplang.run cfg0 80 "a <- [1, 2, 3]\nINSERT(a, 0, 0)\n".toList {} []) = some "Invalid List Index" ∧
    errKind (Aplang.run cfg0 80 "s <- \"abc\"\nx <- s[4]\n".toList {} []) = some "Invalid List Index" ∧
    errKind (Aplang.run cfg0 80 "s <- \"abc\"\nx <- s[0]\n".toList {} []) = some "Invalid List Index" ∧
    errKind (Aplang.run cfg0 80 "s <- \"abc\"\nAPPEND(s, 1)\n".toList {} []) = some "Invalid Argument Cast: LIST" ∧
    errKind (Aplang.run cfg0 80 "a <- []\nx <- a[1]\n".toList {} []) = some "Invalid List Index" := by decide +kernel

/-- … and the boundary ones succeed: `a[1]`, `a[LENGTH(a)]`, `a[3.5]`, `s[3]` -/
example :
    (lookupVar (finalOr (Aplang.run cfg0 80 "a <- [5, 6, 7]\nx <- a[1]\n".toList {} [])) ['x']).map numOr = some 5 ∧
    (lookupVar (finalOr (Aplang.run cfg0 80 "a <- [5, 6, 7]\nx <- a[LENGTH(a)]\n".toList {} [])) ['x']).map numOr = some 7 ∧
    (lookupVar (finalOr (Aplang.run cfg0 80 "a <- [5, 6, 7]\nx <- a[3.5]\n".toList {} [])) ['x']).map numOr = some 7 ∧
    endedOk (Aplang.run cfg0 80 "s <- \"abc\"\nx <- s[3]\n".toList {} []) = true := by decide +kernel

/-! ### index validity in arithmetic terms -/

/-- integer parts (kernel evaluation of the decoding): 3.5 ↦ 3, 0.5 ↦ 0, -0.0 ↦ 0, 1e30 ↦ the exact integer
the nearest double is; none for -1, NaN, ±∞ -/
example : F64.intPart 3.5 = some 3 ∧ F64.intPart 1 = some 1 ∧ F64.intPart 0.5 = some 0 ∧ F64.intPart (-0.0) = some 0 ∧
    F64.intPart 0.9999999999999999 = some 0 ∧ F64.intPart 1e30 = some 1000000000000000019884624838656 ∧
    F64.intPart (-1) = none ∧ F64.intPart (0.0 / 0.0) = none ∧ F64.intPart (1.0 / 0.0) = none ∧
    F64.intPart (-1.0 / 0.0) = none := by decide +kernel
example : F64.isPosInf (1.0 / 0.0) := by unfold F64.isPosInf; rfl
example : specIndex 3 3.5 = some 2 ∧ specIndex 3 4 = none ∧ specIndex 3 0.5 = none ∧ specIndex 3 1 = some 0 := by
  decide +kernel
example : validIndex 3 3.5 = specIndex 3 3.5 := validIndex_eq_specIndex 3 (by decide) 3.5
example : indexRead (.list 0) (.num 3.5) tk tk tk σ0 = .ok (.num 30, σ0) :=
  index_read_arith_valid tk tk tk σ0 hl0 (by decide) (x := 3.5) (k := 3) (by decide +kernel) (by decide) (by decide)
example : indexRead (.list 0) (.num 4) tk tk tk σ0 = .err ⟨"Invalid List Index", interior tk tk⟩ σ0 :=
  index_read_arith_invalid tk tk tk σ0 hl0 (by decide) (x := 4) (by
    intro k hk
    have : F64.intPart 4 = some 4 := by decide +kernel
    rw [this] at hk; cases hk; exact Or.inr (by decide))
example : callNative env0 .remove [.list 0, .num 2.5] [(0,0), (0,0)] σ0 =
    .ok (.num 20, setCell σ0 0 (.list [.num 10, .num 30])) :=
  remove_arith_valid env0 σ0 hl0 (by decide) (x := 2.5) (k := 2) (0,0) (0,0) (by decide +kernel) (by decide) (by decide)
example : callNative env0 .insert [.list 0, .num 4, .num 15] [(0,0), (0,0), (0,0)] σ0 =
    .ok (.null, setCell σ0 0 (.list [.num 10, .num 20, .num 30, .num 15])) :=
  insert_arith_valid env0 σ0 hl0 (by decide) (x := 4) (k := 4) (.num 15) (0,0) (0,0) (0,0) (by decide +kernel)
    (by decide) (by decide)

/-- `l[LENGTH(l)]` on the concrete list -/
example : indexRead (.list 0) (.num (3 : Nat).toFloat) tk tk tk σ0 = .ok (.num 30, σ0) :=
  index_read_at_length tk tk tk σ0 hl0 (by decide) (by decide)

/-! ### deep frame -/

/-- `z <- x` (copy into cell 1): the full rendering of `x`'s list (cell 0, from which cell 1 is not reachable) is
unchanged at every depth -/
example (d : Nat) : displayV (setCell σ0 1 (.list vs0)).heap d (.list 0) = displayV σ0.heap d (.list 0) :=
  (assign_deep_frame ['z'] (.list 0) (.list 0) σ0 _
    (assign_existing_list_copies ['z'] 0 1 vs0 [.num 7] σ0 hz0 (by decide) hl1 hl0).1 (.list 0)
    (by
      intro tgt ht hr
      rw [hz0] at ht; cases ht
      -- cell 1 is not reachable from cell 0 = [10, 20, 30]
      cases hr with
      | step a vs v b hc hv hb =>
        have : vs = vs0 := by
          have h0 : σ0.heap[0]? = some (.list vs0) := rfl
          rw [h0] at hc; cases hc; rfl
        subst this
        simp only [vs0, List.mem_cons, List.not_mem_nil, or_false] at hv
        rcases hv with rfl | rfl | rfl <;> cases hb) d).1

end C04bDemo

/-! ## axioms -/

#print axioms validIndex_eq_some_iff
#print axioms index_read_valid
#print axioms index_read_invalid
#print axioms index_read_never_other
#print axioms index_read_string_valid
#print axioms index_read_string_never_other
#print axioms index_write_valid
#print axioms index_write_invalid
#print axioms index_write_never_other
#print axioms index_write_read_same
#print axioms index_write_read_other
#print axioms append_spec
#print axioms append_not_list
#print axioms insert_valid
#print axioms insert_invalid
#print axioms insert_sequence
#print axioms remove_valid
#print axioms remove_invalid
#print axioms remove_sequence
#print axioms insert_then_remove
#print axioms length_list
#print axioms length_string
#print axioms concat_spec
#print axioms concat_state
#print axioms update_seen_through_alias
#print axioms update_not_seen_elsewhere
#print axioms index_write_through_alias
#print axioms append_through_alias
#print axioms insert_through_alias
#print axioms remove_through_alias
#print axioms expr_call_user
#print axioms param_shares_argument
#print axioms param_sees_callers_list
#print axioms expr_list_literal
#print axioms stored_list_is_shared
#print axioms element_read_shares
#print axioms assign_trichotomy
#print axioms assign_no_action_at_a_distance
#print axioms assign_deep_frame
#print axioms assign_source_cell_unchanged
#print axioms assign_source_unchanged
#print axioms assign_first_binding_shares
#print axioms assign_existing_list_copies
#print axioms assign_same_list_noop
#print axioms assign_total
#print axioms assign_from_variable_frame
#print axioms F64.ge_one_iff
#print axioms F64.toUSize_eq
#print axioms natIndex_eq_small
#print axioms natIndex_big
#print axioms natIndex_inf
#print axioms validIndex_eq_specIndex
#print axioms removePos_eq_specIndex
#print axioms insertPos_eq_specIndex
#print axioms F64.intPart_toFloat
#print axioms length_list_exact
#print axioms validIndex_length
#print axioms index_read_at_length
#print axioms index_read_arith_valid
#print axioms index_read_arith_invalid
#print axioms index_write_arith_valid
#print axioms insert_arith_valid
#print axioms remove_arith_valid
#print axioms C04bDemo.validIndex_boundary
#print axioms C04bDemo.insert_remove_boundary
#print axioms index_computations_differ_beyond_2_53

end Aplang
