import Aplang.Proofs.ParserSafe
import Aplang.Thm.C07
/-!
# C08 — the front end never crashes; parsing yields a tree or a non-empty list of diagnostics;
error recovery always consumes input

The parser model contains the Rust's partial operations as panic primitives (`peek()` past the end,
`previous()` at position 0, a literal token without its literal). The theorems show that none is
reachable from any token list the lexer can produce — for every fuel.
-/
namespace Aplang
open P

/-- what the lexer guarantees about its output -/
def TokensOK (ts : List Token) : Prop :=
  (∃ init e, ts = init ++ [e] ∧ e.tt = .eof) ∧ ∀ t ∈ ts, LitOK t

theorem syncLoop_safe : ∀ f s, Good s → Safe s (syncLoop f s) AnyQ
  | 0, _, _ => Safe.fuel
  | f+1, s, g => by
    simp only [syncLoop]
    apply (isAtEnd_safe g).bind
    intro e s1 g1 _ h1
    obtain ⟨rfl, t0, r0, h0, he⟩ := h1
    apply Safe.ite' (fun _ => Safe.ok _ g1 trivial)
    intro hne
    apply (peek_safe g1).bind
    intro t s2 g2 _ h2
    obtain ⟨rfl, _⟩ := h2
    apply Safe.ite (Safe.ok _ g2 trivial)
    have : (t0.tt == .eof) = false := by cases e <;> simp_all
    exact (advance_safe g2 (Or.inr ⟨t0, r0, h0, this⟩)).bind (fun _ s3 g3 _ _ => syncLoop_safe f s3 g3)

/-- `synchronize` is safe wherever the statement loop calls it: something was consumed before, or the
cursor is not at the end -/
theorem synchronize_safe (f s) (g : Good s)
    (h : NB s ∨ ∃ t r, s.after = t :: r ∧ (t.tt == .eof) = false) : Safe s (synchronize f s) AnyQ := by
  unfold synchronize
  exact (advance_safe g h).bind (fun _ s1 g1 _ _ => syncLoop_safe f s1 g1)

theorem declaration_safe (f s) (g : Good s) : Safe s (declaration f s) AnyQ := (stmtSafe f).declaration s g

theorem parseLoop_no_panic : ∀ f stmts errs s, Good s → ∀ p, parseLoop f stmts errs s ≠ .panic p
  | 0, _, _, _, _, _ => by simp [parseLoop]
  | f+1, stmts, errs, s, g, p => by
    simp only [parseLoop]
    have hi := isAtEnd_safe g
    cases he : isAtEnd s with
    | panic m => rw [he] at hi; exact hi.elim
    | fuel => simp
    | err e s' => exact absurd he (isAtEnd_noErr s e s')
    | ok b s1 =>
      rw [he] at hi
      obtain ⟨g1, _, rfl, t0, r0, h0, hb⟩ := hi
      cases b with
      | true => simp only; split <;> simp
      | false =>
        simp only
        have hm := matchToken_safe g1 .softSemi
        cases hms : matchToken .softSemi s1 with
        | panic m => rw [hms] at hm; exact hm.elim
        | fuel => simp
        | err e s' => exact absurd hms (matchToken_noErr _ s1 e s')
        | ok m s2 =>
          rw [hms] at hm
          obtain ⟨g2, _, hm1, hm2, _⟩ := hm
          cases m with
          | some _ => exact parseLoop_no_panic f stmts errs s2 g2 p
          | none =>
            simp only
            have e2 := hm2 rfl; subst e2
            have hd := declaration_safe f s2 g2
            cases hds : declaration f s2 with
            | panic m => rw [hds] at hd; exact hd.elim
            | fuel => simp
            | ok st s3 => rw [hds] at hd; exact parseLoop_no_panic f _ errs s3 hd.1 p
            | err e s3 =>
              rw [hds] at hd
              obtain ⟨g3, pr3⟩ := hd
              have hsync : NB s3 ∨ ∃ t r, s3.after = t :: r ∧ (t.tt == .eof) = false := by
                rcases pr3 with ⟨_, h⟩ | ⟨ha, _⟩
                · exact Or.inl h
                · exact Or.inr ⟨t0, r0, by rw [ha, h0], hb.symm⟩
              have hs := synchronize_safe f s3 g3 hsync
              simp only
              cases hss : synchronize f s3 with
              | panic m => rw [hss] at hs; exact hs.elim
              | fuel => simp
              | ok u s4 => rw [hss] at hs; exact parseLoop_no_panic f stmts _ s4 hs.1 p
              | err e s4 => exact absurd hss (synchronize_noErr f s3 e s4)

/-- **the parser never panics** on a token list that ends with an end-of-input token and whose literal
tokens carry their literals — for every fuel -/
theorem parse_no_panic (fuel : Nat) (ts : List Token) (h : TokensOK ts) : ∀ p, parse fuel ts ≠ .panic p := by
  intro p
  unfold parse
  exact parseLoop_no_panic fuel [] [] ⟨[], ts, false, false⟩ h p

/-- a failed parse always comes with at least one diagnostic -/
theorem parseLoop_errs_nonempty : ∀ f stmts errs s es, parseLoop f stmts errs s = .errs es → es ≠ []
  | 0, _, _, _, _ => by simp [parseLoop]
  | f+1, stmts, errs, s, es => by
    simp only [parseLoop]
    intro h
    split at h
    · cases h
    · cases h
    · cases h
    · split at h
      · cases h
      · cases h; rename_i hne; intro he; subst he; simp at hne
    · split at h
      · cases h
      · cases h
      · cases h
      · exact parseLoop_errs_nonempty f _ _ _ _ h
      · split at h
        · exact parseLoop_errs_nonempty f _ _ _ _ h
        · cases h
        · cases h
        · split at h
          · exact parseLoop_errs_nonempty f _ _ _ _ h
          · cases h
          · cases h
          · cases h

theorem parse_errs_nonempty (fuel ts es) : parse fuel ts = .errs es → es ≠ [] :=
  parseLoop_errs_nonempty fuel [] [] _ es

/-- parsing yields a syntax tree or a non-empty list of diagnostics (or runs out of the model's fuel) -/
theorem parse_dichotomy (fuel : Nat) (ts : List Token) (h : TokensOK ts) :
    (∃ prog, parse fuel ts = .ok prog) ∨ (∃ e es, parse fuel ts = .errs (e :: es)) ∨ parse fuel ts = .fuel := by
  cases hp : parse fuel ts with
  | ok prog => exact Or.inl ⟨prog, rfl⟩
  | errs es =>
    have := parse_errs_nonempty fuel ts es hp
    cases es with
    | nil => exact absurd rfl this
    | cons e es => exact Or.inr (Or.inl ⟨e, es, rfl⟩)
  | panic p => exact absurd hp (parse_no_panic fuel ts h p)
  | fuel => exact Or.inr (Or.inr rfl)

/-! ## error recovery consumes input -/

theorem advance_consumes (s t s') (h : advance s = .ok t s') (t0 r0) (h0 : s.after = t0 :: r0)
    (hne : (t0.tt == .eof) = false) : s'.after = r0 := by
  unfold advance isAtEnd peek at h
  simp only [h0, PRes.bind_ok, hne, Bool.false_eq_true, ite_false] at h
  unfold previous at h
  simp at h
  rw [← h.2]

theorem syncLoop_mono : ∀ f s u s', syncLoop f s = .ok u s' → s'.after.length ≤ s.after.length
  | 0, _, _, _ => by simp [syncLoop]
  | f+1, s, u, s' => by
    simp only [syncLoop]
    intro h
    unfold isAtEnd peek at h
    cases ha : s.after with
    | nil => simp [ha] at h
    | cons t0 r0 =>
      simp only [ha, PRes.bind_ok] at h
      split at h
      · cases h; simp [ha]
      · rename_i hne
        split at h
        · cases h; simp [ha]
        · cases hadv : advance s with
          | ok t s1 =>
            rw [hadv] at h; simp only [PRes.bind_ok] at h
            have h1 := advance_consumes s t s1 hadv t0 r0 ha (by simpa using hne)
            have := syncLoop_mono f s1 u s' h
            rw [h1] at this; simp; omega
          | err e s1 => rw [hadv] at h; cases h
          | panic m => rw [hadv] at h; cases h
          | fuel => rw [hadv] at h; cases h

/-- **error recovery always consumes input**: when the statement loop calls `synchronize` (cursor not
at the end), at least one token is consumed -/
theorem synchronize_consumes (f s u s') (h : synchronize f s = .ok u s') (t0 r0) (h0 : s.after = t0 :: r0)
    (hne : (t0.tt == .eof) = false) : s'.after.length < s.after.length := by
  unfold synchronize at h
  cases hadv : advance s with
  | ok t s1 =>
    rw [hadv] at h; simp only [PRes.bind_ok] at h
    have h1 := advance_consumes s t s1 hadv t0 r0 h0 hne
    have := syncLoop_mono f s1 u s' h
    rw [h1] at this; rw [h0]; simp; omega
  | err e s1 => rw [hadv] at h; cases h
  | panic m => rw [hadv] at h; cases h
  | fuel => rw [hadv] at h; cases h

/-- a failed declaration followed by recovery leaves strictly fewer tokens: the statement loop cannot
spin on a malformed program -/
theorem recovery_progress (f s e s1 u s2) (g : Good s) (t0 r0) (h0 : s.after = t0 :: r0)
    (hne : (t0.tt == .eof) = false)
    (hd : declaration f s = .err e s1) (hs : synchronize f s1 = .ok u s2) :
    s2.after.length < s.after.length := by
  have hsafe := declaration_safe f s g
  rw [hd] at hsafe
  obtain ⟨g1, pr⟩ := hsafe
  have hmono : s2.after.length ≤ s1.after.length := by
    unfold synchronize at hs
    cases hadv : advance s1 with
    | ok t s3 =>
      rw [hadv] at hs; simp only [PRes.bind_ok] at hs
      have h3 := syncLoop_mono f s3 u s2 hs
      have h4 := (advance_safe g1 (by
        rcases pr with ⟨_, nb⟩ | ⟨ha, _⟩
        · exact Or.inl nb
        · exact Or.inr ⟨t0, r0, by rw [ha, h0], hne⟩))
      rw [hadv] at h4
      have := h4.2.1.len_le
      omega
    | err e s3 => rw [hadv] at hs; cases hs
    | panic m => rw [hadv] at hs; cases hs
    | fuel => rw [hadv] at hs; cases hs
  rcases pr with ⟨hlt, _⟩ | ⟨ha, _⟩
  · omega
  · have := synchronize_consumes f s1 u s2 hs t0 r0 (by rw [ha, h0]) hne
    rw [ha] at this; exact this

/-! ## the lexer's output satisfies the parser's precondition -/

/-- keywords are never spelled as literal or end-of-input kinds -/
def KwPlain (cfg : LexCfg) : Prop :=
  ∀ s k, cfg.kw s = some k → k ≠ .eof ∧ k ≠ .stringLiteral ∧ k ≠ .number

theorem singleTT_plain (c : Char) (tt : TT) (h : singleTT c = some tt) : tt ≠ .stringLiteral ∧ tt ≠ .number := by
  have := singleTT_mem c tt h
  constructor <;> (intro he; subst he; simp [singleTable] at this)

theorem scanOne_litOK (cfg : LexCfg) (hk : KwPlain cfg) (prev pos c cs t r) :
    scanOne cfg prev pos c cs = .tok t r → LitOK t := by
  unfold scanOne
  cases hc : classify cfg c
  case single tt =>
    intro h; cases h
    have := singleTT_plain c tt (classify_single cfg c tt hc)
    exact ⟨fun h => absurd h this.1, fun h => absurd h this.2⟩
  case digit =>
    intro h; unfold scanNumber at h; simp only at h
    split at h
    · split at h <;> (cases h; exact ⟨by simp [mkTok], fun _ => ⟨_, rfl⟩⟩)
    · cases h; exact ⟨by simp [mkTok], fun _ => ⟨_, rfl⟩⟩
  case alnum =>
    intro h; unfold scanIdent at h; simp only at h
    split at h
    · rename_i k hk'
      cases h
      have := hk _ k hk'
      exact ⟨fun h => absurd h this.2.1, fun h => absurd h this.2.2⟩
    · cases h; exact ⟨by simp [mkTok], by simp [mkTok]⟩
  case quote =>
    simp only []; intro h; split at h <;> cases h
    exact ⟨fun _ => ⟨_, rfl⟩, by simp [mkTok]⟩
  case bang => simp only []; intro h; split at h <;> cases h; exact ⟨by simp [mkTok], by simp [mkTok]⟩
  case eq => simp only []; intro h; split at h <;> cases h; exact ⟨by simp [mkTok], by simp [mkTok]⟩
  case lt => simp only []; intro h; split at h <;> cases h <;> exact ⟨by simp [mkTok], by simp [mkTok]⟩
  case gt => simp only []; intro h; split at h <;> cases h <;> exact ⟨by simp [mkTok], by simp [mkTok]⟩
  case slash => simp only []; intro h; split at h <;> cases h; exact ⟨by simp [mkTok], by simp [mkTok]⟩
  case backslash => simp only []; intro h; split at h <;> cases h
  case blank => simp only []; intro h; cases h
  case newline =>
    simp only []; intro h; split at h
    · split at h <;> cases h; exact ⟨by simp [mkTok], by simp [mkTok]⟩
    · cases h
  case other => simp only []; intro h; cases h

theorem scanLoop_litOK (cfg : LexCfg) (hk : KwPlain cfg) :
    ∀ (src : Str) (pos : Nat) (prev : Option TT) (ls : Nat),
      ∀ t ∈ (scanLoop cfg src pos prev ls).1, LitOK t := by
  intro src pos prev ls
  fun_induction scanLoop cfg src pos prev ls with
  | case1 => intro t ht; simp at ht
  | case2 pos prev ls c cs _ ih =>
    intro t ht
    rcases push_tokens_mem _ _ t ht with ⟨r0, hst⟩ | ht
    · exact scanOne_litOK cfg hk prev pos c cs t r0 hst
    · exact ih t ht

theorem lex_tokens_ok (cfg : LexCfg) (hk : KwPlain cfg) (src : Str) : TokensOK (lex cfg src).tokens := by
  unfold lex
  simp only
  generalize hsl : scanLoop cfg src 0 none 0 = res
  obtain ⟨ts, es, ls⟩ := res
  refine ⟨⟨ts, eofToken ls, rfl, rfl⟩, ?_⟩
  intro t ht
  simp at ht
  rcases ht with ht | rfl
  · have := scanLoop_litOK cfg hk src 0 none 0 t (by rw [hsl]; exact ht)
    exact this
  · exact ⟨by simp [eofToken], by simp [eofToken]⟩

/-- **lexing then parsing never panics, for every source string and every fuel** -/
theorem front_end_no_panic (cfg : LexCfg) (hk : KwPlain cfg) (fuel : Nat) (src : Str) :
    ∀ p, parse fuel (lex cfg src).tokens ≠ .panic p :=
  parse_no_panic fuel _ (lex_tokens_ok cfg hk src)

theorem genKw_plain (isAlnum) : KwPlain (genLexCfg isAlnum) := by
  intro s k h
  have hall : Gen.keywords.all (fun e => e.2 != .eof && e.2 != .stringLiteral && e.2 != .number) = true := by decide
  simp only [genLexCfg, genKw, Option.map_eq_some_iff] at h
  obtain ⟨e, he, h2⟩ := h
  have hm := List.mem_of_find?_eq_some he
  have := List.all_eq_true.mp hall e hm
  simp [h2] at this
  exact ⟨this.1.1, this.1.2, this.2⟩

/-- with the live keyword table: the front end never panics on any source text -/
theorem front_end_no_panic_live (isAlnum) (fuel : Nat) (src : Str) :
    ∀ p, parse fuel (lex (genLexCfg isAlnum) src).tokens ≠ .panic p :=
  front_end_no_panic _ (genKw_plain isAlnum) fuel src

/-! ## non-vacuity (kernel-evaluated): a malformed program is reported, not a crash -/

def demoTok (tt : TT) (off : Nat) : Token := ⟨tt, [], .none, off, 1⟩

example : TokensOK [demoTok .rightParen 0, demoTok .eof 1] :=
  ⟨⟨[demoTok .rightParen 0], demoTok .eof 1, rfl, rfl⟩, by intro t ht; simp [demoTok] at ht; rcases ht with rfl | rfl <;> simp [LitOK]⟩

example : (match parse 50 [demoTok .rightParen 0, demoTok .eof 1] with | .errs es => es.length | _ => 0) = 1 := by decide
example : (match parse 50 [demoTok .leftBrace 0, demoTok .leftBrace 1, demoTok .rightBrace 2, demoTok .rightBrace 3, demoTok .eof 4] with
    | .ok prog => prog.length | _ => 0) = 1 := by decide

end Aplang
