import Aplang.Thm.C07b
import Aplang.Proofs.LexRender
import Aplang.Model.Run
/-!
# C06 — layout, comments and keyword case never change the tokens

* table theorems on the **live** tables (`Gen.keywords`, `Gen.enders`), by `decide`;
* `lex_render`: every admissible layout of a token stream (`Spec.Lexical.render`, `Admissible`) lexes back
  to that stream — same kinds, lexemes and literals, no errors;  `layout_invariance`: two admissible
  layouts of the same stream, with any keyword casing and any way of writing the terminators, give the same
  kinds and literals;
* `newline_after_ender_terminates`: the converse clause;
* `behaviour_depends_on_tokens_only`.
-/
namespace Aplang
open Spec.Lexical

/-! ## the extracted tables -/

/-- for every entry `(s, k)` of the live keyword table, the all-upper-case and the all-lower-case spelling of
`s` are entries with the same kind -/
theorem keyword_table_case_closed :
    Gen.keywords.all (fun e =>
      genKw (e.1.toList.map Char.toUpper) == some e.2 && genKw (e.1.toList.map Char.toLower) == some e.2) = true := by
  decide

/-- either casing of a keyword is looked up to the same kind -/
theorem keyword_case_closed : CaseClosed genKw := by
  intro s k h
  simp only [genKw, Option.map_eq_some_iff] at h
  obtain ⟨e, he, rfl⟩ := h
  have hs : e.1.toList = s := by simpa using List.find?_some he
  have := List.all_eq_true.mp keyword_table_case_closed e (List.mem_of_find?_eq_some he)
  simp only [Bool.and_eq_true, beq_iff_eq, hs] at this
  exact this

/-- no spelling occurs twice in the table -/
theorem keywords_nodup : (Gen.keywords.map (·.1)).Nodup := by decide

/-- the statement enders the property names: identifier, literal, closing bracket, BREAK, CONTINUE, RETURN -/
def documentedEnders : List TT :=
  [.identifier, .number, .stringLiteral, .true_, .false_, .null, .rightParen, .rightBracket, .rightBrace,
   .break_, .continue_, .return_]

theorem TT.mem_all (t : TT) : t ∈ TT.all := by cases t <;> decide

/-- the live ender set, as a set, is the documented one -/
theorem ender_set_documented : ∀ t : TT, Gen.enders.contains t = documentedEnders.contains t := by
  have h : TT.all.all (fun t => Gen.enders.contains t == documentedEnders.contains t) = true := by decide
  intro t
  simpa using List.all_eq_true.mp h t (TT.mem_all t)

theorem genLexCfg_ender (isAlnum) (t : TT) : (genLexCfg isAlnum).ender t = documentedEnders.contains t :=
  ender_set_documented t

/-! ## layout invariance: print–lex round trip -/

/-- **every admissible layout of a token stream lexes back to the stream**: same kinds, lexemes, literals (the
positions are the layout's), and no error.  Any `cfg`; separators before the first and after the last token,
comments, continuations, both ways of writing a terminator included. -/
theorem lex_render (cfg : LexCfg) (ps : List Piece) (trail : Sep) (ec : Option Str)
    (hwf : LayoutWF cfg ps trail ec) (hadm : Admissible cfg none ps trail ec) :
    (lex cfg (render ps trail ec)).tokens.map strip = ps.map (fun p => p.tok.out cfg) ++ [eofStrip] ∧
    (lex cfg (render ps trail ec)).errors = [] := by
  have hseg := seg_render cfg ps trail ec hwf none hadm
  have hl := lex_seg cfg _ _ hseg
  have hu := unitToks_render cfg ps trail ec none hadm
  rw [hu.1] at hl
  rw [hu.2] at hl
  exact ⟨hl.1, List.map_eq_nil_iff.mp hl.2⟩

theorem variant_kind_lit {cfg : LexCfg} (hc : CaseClosed cfg.kw) {a b : ATok} (h : Variant cfg a b) :
    b.kind cfg = a.kind cfg ∧ b.lit = a.lit := by
  cases h with
  | same => exact ⟨rfl, rfl⟩
  | upper c cs c' cs' k hk he =>
    have := (hc _ _ hk).1
    rw [← he] at this
    simp [ATok.kind, ATok.lit, hk, this]
  | lower c cs c' cs' k hk he =>
    have := (hc _ _ hk).2
    rw [← he] at this
    simp [ATok.kind, ATok.lit, hk, this]
  | term a b => exact ⟨rfl, rfl⟩

theorem variants_kind_lit {cfg : LexCfg} (hc : CaseClosed cfg.kw) {ps qs : List Piece} (hv : Variants cfg ps qs) :
    ps.map (fun p => (p.tok.kind cfg, p.tok.lit)) = qs.map (fun p => (p.tok.kind cfg, p.tok.lit)) := by
  induction hv with
  | nil => rfl
  | cons hpq _ ih =>
    obtain ⟨hk, hl⟩ := variant_kind_lit hc hpq
    simp only [List.map_cons, hk, hl, ih]

/-- **the tokens do not depend on the layout, the keyword case, or how terminators are written**: two
admissible layouts of the same stream (token by token the same, or the same keyword in upper/lower case, or
the terminator written the other way) produce the same token kinds and literals, and no errors -/
theorem layout_invariance (cfg : LexCfg) (hc : CaseClosed cfg.kw)
    (ps qs : List Piece) (trail trail' : Sep) (ec ec' : Option Str)
    (hv : Variants cfg ps qs)
    (hwf : LayoutWF cfg ps trail ec) (hadm : Admissible cfg none ps trail ec)
    (hwf' : LayoutWF cfg qs trail' ec') (hadm' : Admissible cfg none qs trail' ec') :
    (lex cfg (render ps trail ec)).tokens.map (fun t => (t.tt, t.lit)) =
      (lex cfg (render qs trail' ec')).tokens.map (fun t => (t.tt, t.lit)) ∧
    (lex cfg (render ps trail ec)).errors = [] ∧ (lex cfg (render qs trail' ec')).errors = [] := by
  obtain ⟨h1, e1⟩ := lex_render cfg ps trail ec hwf hadm
  obtain ⟨h2, e2⟩ := lex_render cfg qs trail' ec' hwf' hadm'
  refine ⟨?_, e1, e2⟩
  have g1 := congrArg (List.map (fun x : TT × Str × Lit => (x.1, x.2.2))) h1
  have g2 := congrArg (List.map (fun x : TT × Str × Lit => (x.1, x.2.2))) h2
  simp only [List.map_map, List.map_append] at g1 g2
  have key := variants_kind_lit hc hv
  have : List.map ((fun x : TT × Str × Lit => (x.1, x.2.2)) ∘ fun p : Piece => p.tok.out cfg) ps =
      List.map ((fun x : TT × Str × Lit => (x.1, x.2.2)) ∘ fun p : Piece => p.tok.out cfg) qs := key
  rw [this] at g1
  exact g1.trans g2.symm

/-! ### the `merges` form of admissibility

`Admissible` constrains the text that follows each token.  The same, read off the *next separator or token*
(`FollowOk`): with an empty separator the two tokens must not `merges`; a non-empty separator is always fine,
except that `/` may not be directly followed by a comment.  This needs the alphanumeric class to be `false`
on the separator characters (`SaneAlnum`, true of Unicode's class; proved for the ASCII class below). -/

/-- a `/` may not be directly followed by a comment -/
def sepHeadOk : ATok → SepItem → Bool
  | .slash, .comment _ => false
  | _, _ => true

def FollowOk (cfg : LexCfg) (t : ATok) : List Piece → Sep → Option Str → Prop
  | q :: _, _, _ =>
    match q.sep with
    | [] => merges cfg t q.tok = false
    | i :: _ => sepHeadOk t i = true
  | [], i :: _, _ => sepHeadOk t i = true
  | [], [], some b => sepHeadOk t (.comment b) = true
  | [], [], none => True

def AdmissibleM (cfg : LexCfg) : Option TT → List Piece → Sep → Option Str → Prop
  | prev, [], trail, _ => SepOk cfg prev trail
  | prev, p :: ps, trail, ec =>
    SepOk cfg prev p.sep ∧ TermOk cfg prev p.tok ∧ FollowOk cfg p.tok ps trail ec ∧
      AdmissibleM cfg (some (p.tok.kind cfg)) ps trail ec

theorem noExtend_of_head (cfg : LexCfg) (t : ATok) (f : Str) (h : startsWith (t.extendedBy cfg) f = false) :
    NoExtend cfg t f := by
  cases t with
  | number ds fs =>
    cases fs with
    | nil =>
      cases f with
      | nil => exact ⟨rfl, by intro r e; cases e⟩
      | cons d r =>
        simp only [startsWith_cons, ATok.extendedBy, Bool.or_eq_false_iff, beq_eq_false_iff_ne] at h
        refine ⟨h.1, ?_⟩
        intro r' e; cases e; exact absurd rfl h.2
    | cons x xs => exact h
  | less => exact h
  | greater => exact h
  | slash => exact h
  | word c cs => exact h
  | punct | op | string | term => trivial

theorem startsWith_append (p : Char → Bool) (a b : Str) (h : a ≠ []) : startsWith p (a ++ b) = startsWith p a := by
  cases a with
  | nil => exact absurd rfl h
  | cons d r => rfl

theorem atok_text_ne_nil {cfg : LexCfg} {t : ATok} (hwf : t.WF cfg) : t.text ≠ [] := by
  cases t with
  | number ds fs =>
    cases fs with
    | nil => exact hwf.1.1
    | cons x xs => simp [ATok.text]
  | term nl => cases nl <;> simp [ATok.text]
  | _ => simp [ATok.text]

theorem extendedBy_sepChar {cfg : LexCfg} (hs : SaneAlnum cfg) (t : ATok) (d : Char)
    (hd : d = ' ' ∨ d = '\t' ∨ d = '\r' ∨ d = '\n' ∨ d = '\\') : t.extendedBy cfg d = false := by
  have hsp : isSpecial d = true := by rcases hd with rfl | rfl | rfl | rfl | rfl <;> decide
  have hal := hs d hsp
  cases t with
  | number ds fs =>
    cases fs <;> (rcases hd with rfl | rfl | rfl | rfl | rfl <;> (simp only [ATok.extendedBy]; decide))
  | less => rcases hd with rfl | rfl | rfl | rfl | rfl <;> (simp only [ATok.extendedBy]; decide)
  | greater => rcases hd with rfl | rfl | rfl | rfl | rfl <;> (simp only [ATok.extendedBy]; decide)
  | slash => rcases hd with rfl | rfl | rfl | rfl | rfl <;> (simp only [ATok.extendedBy]; decide)
  | word c cs =>
    simp only [ATok.extendedBy, wordChar, hal, Bool.false_or]
    rcases hd with rfl | rfl | rfl | rfl | rfl <;> decide
  | punct | op | string | term => rfl

theorem extendedBy_slashChar {cfg : LexCfg} (hs : SaneAlnum cfg) (t : ATok) (b : Str)
    (h : sepHeadOk t (.comment b) = true) : t.extendedBy cfg '/' = false := by
  have hal := hs '/' (by decide)
  cases t with
  | number ds fs => cases fs <;> (simp only [ATok.extendedBy]; decide)
  | less => simp only [ATok.extendedBy]; decide
  | greater => simp only [ATok.extendedBy]; decide
  | slash => simp [sepHeadOk] at h
  | word c cs => simp only [ATok.extendedBy, wordChar, hal, Bool.false_or]; decide
  | punct | op | string | term => rfl

theorem sepItem_head {cfg : LexCfg} (hs : SaneAlnum cfg) (t : ATok) (i : SepItem) (X : Str) (hi : i.WF)
    (h : sepHeadOk t i = true) : startsWith (t.extendedBy cfg) (i.text ++ X) = false := by
  cases i with
  | blank c =>
    have hc : isBlank c = true := hi
    simp only [isBlank, Bool.or_eq_true, beq_iff_eq] at hc
    refine extendedBy_sepChar hs t c ?_
    rcases hc with (h | h) | h
    · exact Or.inl h
    · exact Or.inr (Or.inl h)
    · exact Or.inr (Or.inr (Or.inl h))
  | newline => exact extendedBy_sepChar hs t '\n' (by simp)
  | continuation => exact extendedBy_sepChar hs t '\\' (by simp)
  | comment b => exact extendedBy_slashChar hs t b h

theorem followOk_noExtend {cfg : LexCfg} (hs : SaneAlnum cfg) (t : ATok) (ps : List Piece) (trail : Sep)
    (ec : Option Str) (hwf : LayoutWF cfg ps trail ec) (h : FollowOk cfg t ps trail ec) :
    NoExtend cfg t (render ps trail ec) := by
  apply noExtend_of_head
  cases ps with
  | cons q qs =>
    have hq := hwf.1 q (by simp)
    simp only [FollowOk] at h
    simp only [render]
    cases hsep : q.sep with
    | nil =>
      rw [hsep] at h
      simp only [sepText, List.nil_append]
      rw [startsWith_append _ _ _ (atok_text_ne_nil hq.2)]
      exact h
    | cons i s =>
      rw [hsep] at h
      simp only [sepText, List.append_assoc]
      exact sepItem_head hs t i _ (hq.1 i (by simp [hsep])) h
  | nil =>
    simp only [render]
    cases trail with
    | cons i s =>
      simp only [sepText, List.append_assoc]
      exact sepItem_head hs t i _ (hwf.2.1 i (by simp)) h
    | nil =>
      cases ec with
      | none => rfl
      | some b => exact extendedBy_slashChar hs t b h

/-- the `merges` form implies admissibility -/
theorem admissible_of_merges {cfg : LexCfg} (hs : SaneAlnum cfg) (ps : List Piece) (trail : Sep) (ec : Option Str)
    (hwf : LayoutWF cfg ps trail ec) : ∀ prev, AdmissibleM cfg prev ps trail ec → Admissible cfg prev ps trail ec := by
  induction ps with
  | nil => intro prev h; exact h
  | cons p ps ih =>
    intro prev h
    obtain ⟨h1, h2, h3, h4⟩ := h
    have hwf' : LayoutWF cfg ps trail ec := ⟨fun q hq => hwf.1 q (by simp [hq]), hwf.2⟩
    exact ⟨h1, h2, followOk_noExtend hs p.tok ps trail ec hwf' h3, ih hwf' _ h4⟩

/-- `lex_render` with the `merges` form of admissibility -/
theorem lex_render_merges (cfg : LexCfg) (hs : SaneAlnum cfg) (ps : List Piece) (trail : Sep) (ec : Option Str)
    (hwf : LayoutWF cfg ps trail ec) (hadm : AdmissibleM cfg none ps trail ec) :
    (lex cfg (render ps trail ec)).tokens.map strip = ps.map (fun p => p.tok.out cfg) ++ [eofStrip] ∧
    (lex cfg (render ps trail ec)).errors = [] :=
  lex_render cfg ps trail ec hwf (admissible_of_merges hs ps trail ec hwf none hadm)

/-- the ASCII class (`Char.isAlphanum`) is sane; so is any class that agrees with it on ASCII -/
theorem saneAlnum_ascii (cfg : LexCfg) (h : cfg.isAlnum = Char.isAlphanum) : SaneAlnum cfg := by
  intro c hc
  rw [h]
  have := (isSpecial_iff c).mp hc
  simp only [special, List.mem_cons, List.not_mem_nil, or_false] at this
  rcases this with rfl|rfl|rfl|rfl|rfl|rfl|rfl|rfl|rfl|rfl|rfl|rfl|rfl|rfl|rfl|rfl|rfl|rfl|rfl|rfl|rfl|rfl|rfl <;>
    decide

/-! ## the converse clause: a newline after a statement ender always ends the statement -/

/-- one scan step on a newline: a terminator token if the previous token is a statement ender, nothing
otherwise (no previous token, or one that cannot end a statement) -/
theorem newline_after_ender_terminates (cfg : LexCfg) (prev : Option TT) (pos : Nat) (cs : Str) :
    (∀ p, prev = some p → cfg.ender p = true →
        scanOne cfg prev pos '\n' cs = .tok (mkTok .softSemi ['\n'] .none pos) cs) ∧
    ((prev = none ∨ ∃ p, prev = some p ∧ cfg.ender p = false) → scanOne cfg prev pos '\n' cs = .skip 1 cs) := by
  have := scanOne_newline_iff cfg prev pos cs
  constructor
  · intro p hp he; subst hp; exact this.1 (by simpa using he)
  · rintro (rfl | ⟨p, rfl, he⟩)
    · exact this.2 rfl
    · exact this.2 (by simpa using he)

/-- lifted to `lex`: at a newline unit of the source, the token list has a `softSemi` if the last token before
it is a statement ender, and nothing if it is not (or there is none) -/
theorem newline_after_ender_terminates_lex (cfg : LexCfg) (src : Str) (us vs : List LUnit) (text : Str)
    (h : Seg cfg src (us ++ ⟨.newline, text⟩ :: vs)) :
    ((lastTT cfg none us).any cfg.ender = true →
      (lex cfg src).tokens.map strip =
        unitToks cfg none us ++ (.softSemi, text, .none) :: unitToks cfg (some .softSemi) vs ++ [eofStrip]) ∧
    ((lastTT cfg none us).any cfg.ender = false →
      (lex cfg src).tokens.map strip = unitToks cfg none us ++ unitToks cfg (lastTT cfg none us) vs ++ [eofStrip]) := by
  have := lex_newline_rule cfg src us vs text h
  constructor
  · intro he; rw [this, if_pos he]
  · intro he; rw [this, if_neg (by simp [he])]

/-- with the live ender set: exactly after identifier, literal, closing bracket, BREAK, CONTINUE, RETURN -/
theorem newline_after_ender_live (isAlnum) (p : TT) (pos : Nat) (cs : Str) :
    (p ∈ documentedEnders →
      scanOne (genLexCfg isAlnum) (some p) pos '\n' cs = .tok (mkTok .softSemi ['\n'] .none pos) cs) ∧
    (p ∉ documentedEnders → scanOne (genLexCfg isAlnum) (some p) pos '\n' cs = .skip 1 cs) := by
  have h := newline_after_ender_terminates (genLexCfg isAlnum) (some p) pos cs
  have he := genLexCfg_ender isAlnum p
  constructor
  · intro hm; exact h.1 p rfl (by rw [he]; simpa using hm)
  · intro hm; exact h.2 (Or.inr ⟨p, rfl, by rw [he]; simpa using hm⟩)

/-! ## behaviour depends on the token sequence only -/

/-- `run` looks at the source only through `lex`: same tokens and same number of lexical diagnostics, same
outcome (status, output, final state) -/
theorem behaviour_depends_on_tokens_only (cfg : Cfg) (fuel : Nat) (s₁ s₂ : Str) (world : World) (path : Str)
    (ht : (lex cfg.lex s₁).tokens = (lex cfg.lex s₂).tokens)
    (he : (lex cfg.lex s₁).errors.length = (lex cfg.lex s₂).errors.length) :
    run cfg fuel s₁ world path = run cfg fuel s₂ world path := by
  have hemp : (lex cfg.lex s₁).errors.isEmpty = (lex cfg.lex s₂).errors.isEmpty := by
    cases h1 : (lex cfg.lex s₁).errors <;> cases h2 : (lex cfg.lex s₂).errors <;> simp [h1, h2] at he ⊢
  simp only [run, ht, he, hemp]

/-- a source without lexical errors runs as its token list -/
theorem run_eq_runTokens (cfg : Cfg) (fuel : Nat) (src : Str) (world : World) (path : Str)
    (h : (lex cfg.lex src).errors = []) :
    run cfg fuel src world path = runTokens cfg fuel (lex cfg.lex src).tokens world path := by
  simp [run, h]

/-! ## the live configuration -/

theorem keyword_case_closed_cfg (isAlnum) : CaseClosed (genLexCfg isAlnum).kw := keyword_case_closed

/-- layout invariance for the configuration the code has now (keyword table and ender set extracted from it;
any alphanumeric class) -/
theorem layout_invariance_live (isAlnum : Char → Bool)
    (ps qs : List Piece) (trail trail' : Sep) (ec ec' : Option Str)
    (hv : Variants (genLexCfg isAlnum) ps qs)
    (hwf : LayoutWF (genLexCfg isAlnum) ps trail ec) (hadm : Admissible (genLexCfg isAlnum) none ps trail ec)
    (hwf' : LayoutWF (genLexCfg isAlnum) qs trail' ec') (hadm' : Admissible (genLexCfg isAlnum) none qs trail' ec') :
    (lex (genLexCfg isAlnum) (render ps trail ec)).tokens.map (fun t => (t.tt, t.lit)) =
      (lex (genLexCfg isAlnum) (render qs trail' ec')).tokens.map (fun t => (t.tt, t.lit)) ∧
    (lex (genLexCfg isAlnum) (render ps trail ec)).errors = [] ∧
    (lex (genLexCfg isAlnum) (render qs trail' ec')).errors = [] :=
  layout_invariance _ (keyword_case_closed_cfg isAlnum) ps qs trail trail' ec ec' hv hwf hadm hwf' hadm'

/-! ## non-vacuity -/

/-- configuration of the examples: `IF`/`if` is a keyword; identifiers and numbers end statements -/
def exCfg2 : LexCfg where
  kw s := if s = ['I', 'F'] ∨ s = ['i', 'f'] then some .if_ else none
  ender t := t == .identifier || t == .number
  isAlnum := Char.isAlphanum

theorem exCfg2_caseClosed : CaseClosed exCfg2.kw := by
  intro s k h
  simp only [exCfg2] at h ⊢
  split at h
  · rename_i hs
    cases h
    rcases hs with rfl | rfl <;> decide
  · cases h

/-- the stream `IF x <- 1 ;` -/
def exStreamA : List Piece :=
  [⟨[], .word 'I' ['F']⟩, ⟨[.blank ' '], .word 'x' []⟩, ⟨[], .op '<' '-' .arrow⟩, ⟨[], .number ['1'] []⟩,
   ⟨[], .term false⟩]

/-- the same stream, lower-case keyword, comments, a continuation, the terminator as a newline -/
def exStreamB : List Piece :=
  [⟨[.comment [' ', 'h'], .blank '\t'], .word 'i' ['f']⟩, ⟨[.blank ' '], .word 'x' []⟩,
   ⟨[.blank ' ', .continuation, .blank ' '], .op '<' '-' .arrow⟩,
   ⟨[.blank ' ', .comment [' ', 'c'], .blank '\r'], .number ['1'] []⟩, ⟨[.blank ' '], .term true⟩]

example : render exStreamA [] none = "IF x<-1;".toList := by decide
example : render exStreamB [.blank ' ', .newline] (some [' ', 'e']) =
    "// h\n\tif x \\\n <- // c\n\r1 \n \n// e".toList := by decide

instance : DecidablePred SepItem.WF := fun i =>
  match i with
  | .blank c => inferInstanceAs (Decidable (isBlank c = true))
  | .comment b => inferInstanceAs (Decidable (∀ d ∈ b, d ≠ '\n'))
  | .newline => inferInstanceAs (Decidable True)
  | .continuation => inferInstanceAs (Decidable True)

instance (cfg : LexCfg) : DecidablePred (ATok.WF cfg) := fun t =>
  match t with
  | .punct c tt => inferInstanceAs (Decidable ((c, tt) ∈ Spec.Lexical.punct))
  | .op a b tt => inferInstanceAs (Decidable ((a, b, tt) ∈ Spec.Lexical.op2))
  | .word c cs => inferInstanceAs (Decidable (wordStart cfg c = true ∧ ∀ d ∈ cs, wordChar cfg d = true))
  | .number ds fs => inferInstanceAs (Decidable ((ds ≠ [] ∧ ∀ d ∈ ds, isAsciiDigit d = true) ∧
      (fs = [] ∨ (fs ≠ [] ∧ ∀ d ∈ fs, isAsciiDigit d = true))))
  | .string body => inferInstanceAs (Decidable (decode body ≠ none))
  | .less => inferInstanceAs (Decidable True)
  | .greater => inferInstanceAs (Decidable True)
  | .slash => inferInstanceAs (Decidable True)
  | .term _ => inferInstanceAs (Decidable True)

theorem exA_wf : LayoutWF exCfg2 exStreamA [] none :=
  ⟨by decide, by decide, by intro b h; cases h⟩

theorem exB_wf : LayoutWF exCfg2 exStreamB [.blank ' ', .newline] (some [' ', 'e']) :=
  ⟨by decide, by decide, by intro b h; cases h; decide⟩

theorem exA_adm : Admissible exCfg2 none exStreamA [] none := by
  simp [Admissible, SepOk, TermOk, NoExtend, render, sepText, SepItem.text, ATok.text, ATok.kind, exCfg2,
    SepItem.hasNewline, endText, exStreamA]
  decide

theorem exB_adm : Admissible exCfg2 none exStreamB [.blank ' ', .newline] (some [' ', 'e']) := by
  simp [Admissible, SepOk, TermOk, NoExtend, render, sepText, SepItem.text, ATok.text, ATok.kind, exCfg2,
    SepItem.hasNewline, endText, exStreamB]
  decide

theorem exAB_variants : Variants exCfg2 exStreamA exStreamB :=
  .cons (.lower 'I' ['F'] 'i' ['f'] .if_ (by decide) (by decide)) <| .cons (.same _) <| .cons (.same _) <|
    .cons (.same _) <| .cons (.term _ _) .nil

/-- the two renderings `IF x<-1;` and `// h⏎⇥if x \⏎ <- // c⏎␍1 ⏎ ⏎// e` give the same kinds and literals -/
example :
    (lex exCfg2 (render exStreamA [] none)).tokens.map (fun t => (t.tt, t.lit)) =
      (lex exCfg2 (render exStreamB [.blank ' ', .newline] (some [' ', 'e']))).tokens.map (fun t => (t.tt, t.lit)) :=
  (layout_invariance exCfg2 exCfg2_caseClosed _ _ _ _ _ _ exAB_variants exA_wf exA_adm exB_wf exB_adm).1

/-- … namely `IF`, identifier, `<-`, number 1, terminator, end of input -/
example : (lex exCfg2 (render exStreamB [.blank ' ', .newline] (some [' ', 'e']))).tokens.map (fun t => t.tt) =
    [.if_, .identifier, .arrow, .number, .softSemi, .eof] := by
  have h := (lex_render exCfg2 _ _ _ exB_wf exB_adm).1
  have h2 := congrArg (List.map (fun x : TT × Str × Lit => x.1)) h
  simp only [List.map_map] at h2
  exact h2.trans (by decide)

/-- an inadmissible layout: `x` newline `+` … the newline after the identifier is not a mere separator -/
example : ¬ Admissible exCfg2 none [⟨[], .word 'x' []⟩, ⟨[.newline], .punct '+' .plus⟩] [] none := by
  simp [Admissible, SepOk, SepItem.hasNewline, ATok.kind, exCfg2]

/-- … and `x` directly followed by `y`, `1` by `2`, `<` by `-`, `/` by a comment are not admissible -/
example : merges exCfg2 (.word 'x' []) (.word 'y' []) = true ∧ merges exCfg2 (.number ['1'] []) (.number ['2'] []) = true ∧
    merges exCfg2 .less (.punct '-' .minus) = true ∧ merges exCfg2 (.number ['1'] []) (.punct '.' .dot) = true ∧
    merges exCfg2 (.number ['1'] []) (.word 'x' []) = false ∧ sepHeadOk .slash (.comment []) = false := by decide

end Aplang
