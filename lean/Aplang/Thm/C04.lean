import Aplang.Thm.C02
/-!
# C04 — lists and strings: 1-based, bounds-checked, sequence operations, no action at a distance

Statements about the shared semantic functions (`natIndex`, `indexRead`, `indexWrite`, `assignVar`, `binop`,
the CORE natives) that both the model and the reference semantics use; the correspondence run ties them
to `interpreter.rs` / `standard_library/mod.rs`.
-/
namespace Aplang

/-- an index is valid from 1; the position is `⌊i⌋ - 1` (kernel-evaluated instances of the cast) -/
theorem natIndex_instances :
    natIndex 1 = some 0 ∧ natIndex 2 = some 1 ∧ natIndex 1.9 = some 0 ∧ natIndex 3.5 = some 2 ∧
    natIndex 0 = none ∧ natIndex (-0.0) = none ∧ natIndex 0.5 = none ∧ natIndex 0.999 = none ∧
    natIndex (-1) = none ∧ natIndex (-3) = none ∧ natIndex (0.0 / 0.0) = none := by decide

theorem natIndex_some_ge_one (idx : Float) (i : Nat) (h : natIndex idx = some i) : idx >= 1.0 := by
  unfold natIndex at h; split at h
  · assumption
  · cases h

theorem natIndex_none_of_lt_one (idx : Float) (h : ¬ idx >= 1.0) : natIndex idx = none := by
  simp [natIndex, h]

/-- reading an index: inside the bounds that element, outside (or below 1, or NaN) a runtime error at the
bracket interior — never a different element -/
theorem index_read_list (a : Nat) (vs : List Value) (idx : Float) (lt lb rb : Token) (σ : St)
    (hl : getList σ a = some vs) :
    indexRead (.list a) (.num idx) lt lb rb σ =
      match (natIndex idx).bind (fun i => vs[i]?) with
      | some v => .ok (v, σ)
      | none => .err ⟨"Invalid List Index", interior lb rb⟩ σ := by
  simp only [indexRead, hl]
  cases (natIndex idx).bind (fun i => vs[i]?) <;> rfl

theorem index_read_string (s : Str) (idx : Float) (lt lb rb : Token) (σ : St) :
    indexRead (.str s) (.num idx) lt lb rb σ =
      match (natIndex idx).bind (fun i => s[i]?) with
      | some c => .ok (.str [c], σ)
      | none => .err ⟨"Invalid List Index", interior lb rb⟩ σ := by
  simp only [indexRead]
  cases (natIndex idx).bind (fun i => s[i]?) <;> rfl

/-- an index below 1 is always an error, for lists and strings, whatever the contents -/
theorem index_below_one_is_error (l : Value) (idx : Float) (lt lb rb : Token) (σ : St) (vs : List Value)
    (h : ¬ idx >= 1.0) (hl : ∀ a, l = .list a → getList σ a = some vs) :
    (∃ a, l = .list a) ∨ (∃ s, l = .str s) →
    indexRead l (.num idx) lt lb rb σ = .err ⟨"Invalid List Index", interior lb rb⟩ σ := by
  rintro (⟨a, rfl⟩ | ⟨s, rfl⟩)
  · rw [index_read_list a vs idx lt lb rb σ (hl a rfl), natIndex_none_of_lt_one idx h]; rfl
  · rw [index_read_string, natIndex_none_of_lt_one idx h]; rfl

/-- writing an index: inside the bounds exactly that position changes, outside a runtime error -/
theorem index_write_list (a : Nat) (vs : List Value) (idx : Float) (v : Value) (lt lb rb : Token) (σ : St)
    (hl : getList σ a = some vs) :
    indexWrite (.list a) (.num idx) v lt lb rb σ =
      match natIndex idx with
      | some i => if i < vs.length then .ok (v, setCell σ a (.list (vs.set i v)))
                  else .err ⟨"Invalid List Index", interior lb rb⟩ σ
      | none => .err ⟨"Invalid List Index", interior lb rb⟩ σ := by
  simp only [indexWrite, hl]
  cases natIndex idx <;> rfl

/-- a cell write changes that cell only -/
theorem setCell_frame (σ : St) (a b : Nat) (c : Cell) (h : b ≠ a) : (setCell σ a c).heap[b]? = σ.heap[b]? := by
  simp only [setCell]
  exact List.getElem?_set_ne (Ne.symm h)

theorem setCell_scopes (σ : St) (a : Nat) (c : Cell) : (setCell σ a c).scopes = σ.scopes := rfl

/-- + on two lists builds a new list and leaves both operands unchanged -/
theorem concat_fresh_and_pure (tok : Token) (x y : Nat) (xs ys : List Value) (σ : St)
    (hx : getList σ x = some xs) (hy : getList σ y = some ys) :
    ∃ σ', binop .add tok (.list x) (.list y) σ = .ok (.list σ.heap.length, σ') ∧
      getList σ' σ.heap.length = some (xs ++ ys) ∧ getList σ' x = some xs ∧ getList σ' y = some ys ∧
      σ'.scopes = σ.scopes := by
  have hxl : x < σ.heap.length := by
    unfold getList at hx; split at hx
    · rename_i h; exact (List.getElem?_eq_some_iff.mp h).1
    · cases hx
  have hyl : y < σ.heap.length := by
    unfold getList at hy; split at hy
    · rename_i h; exact (List.getElem?_eq_some_iff.mp h).1
    · cases hy
  refine ⟨(mkList σ (xs ++ ys)).2, ?_, ?_, ?_, ?_, rfl⟩
  · simp only [binop, hx, hy]; rfl
  · simp [getList, mkList, allocCell]
  · simp only [getList, mkList, allocCell] at hx ⊢
    rw [List.getElem?_append_left hxl]; exact hx
  · simp only [getList, mkList, allocCell] at hy ⊢
    rw [List.getElem?_append_left hyl]; exact hy

/-- **no action at a distance**: `x <- y` where `y` evaluates to the list at `src`. Either x is (re)bound to
that list (first assignment, or x did not hold a list) and no cell changes; or x already holds a list at
`tgt ≠ src`, whose cell receives a copy of the elements — every other cell, in particular the one seen
through `y`, and every variable binding stay as they were; `x <- x` changes nothing -/
theorem assign_frame (name : Str) (src : Nat) (σ σ' : St) (v : Value)
    (h : assignVar name (.list src) σ = .ok (v, σ')) :
    v = .list src ∧
    ((∃ tgt, lookupVar σ name = some (.list tgt) ∧ σ'.scopes = σ.scopes ∧
        (∀ b, b ≠ tgt → σ'.heap[b]? = σ.heap[b]?) ∧
        (tgt ≠ src → tgt < σ.heap.length → getList σ' tgt = getList σ src) ∧ (tgt = src → σ' = σ)) ∨
     ((∀ tgt, lookupVar σ name ≠ some (.list tgt)) ∧ σ'.heap = σ.heap ∧ define σ name (.list src) = .ok σ')) := by
  unfold assignVar at h
  cases hl : lookupVar σ name with
  | none =>
    simp only [hl] at h
    cases hd : define σ name (.list src) with
    | ok s =>
      rw [hd] at h; simp only [Res.bind_ok] at h; cases h
      refine ⟨rfl, Or.inr ⟨(by intro t ht; cases ht), ?_, rfl⟩⟩
      unfold define at hd; split at hd
      · cases hd
      · cases hd; rfl
    | err e s => rw [hd] at h; cases h
    | terminate w s => rw [hd] at h; cases h
    | panic p s => rw [hd] at h; cases h
    | fuel => rw [hd] at h; cases h
  | some w =>
    cases w with
    | list tgt =>
      simp only [hl] at h
      split at h
      · rename_i heq
        cases h
        have : tgt = src := by simpa using heq
        exact ⟨rfl, Or.inl ⟨tgt, rfl, rfl, fun _ _ => rfl, fun hne _ => absurd this hne, fun _ => rfl⟩⟩
      · rename_i hne
        cases hg : getList σ src with
        | none => rw [hg] at h; cases h
        | some vs =>
          rw [hg] at h; cases h
          refine ⟨rfl, Or.inl ⟨tgt, rfl, rfl, fun b hb => setCell_frame σ tgt b _ hb, ?_, ?_⟩⟩
          · intro _ htl
            simp [getList, setCell, List.getElem?_set_self htl, hg]
          · intro he; exact absurd (by simpa using he) hne
    | null | num _ | bool _ | str _ | obj _ =>
      simp only [hl] at h
      cases hd : define σ name (.list src) with
      | ok s =>
        rw [hd] at h; simp only [Res.bind_ok] at h; cases h
        refine ⟨rfl, Or.inr ⟨(by intro t ht; cases ht), ?_, rfl⟩⟩
        unfold define at hd; split at hd
        · cases hd
        · cases hd; rfl
      | err e s => rw [hd] at h; cases h
      | terminate w s => rw [hd] at h; cases h
      | panic p s => rw [hd] at h; cases h
      | fuel => rw [hd] at h; cases h

end Aplang
