import Aplang.Proofs.ScopeFrame
import Aplang.Model.Config
import Aplang.Model.Run
/-!
# C03b — the scope frame: a call runs in a fresh scope and cannot touch the caller's variables

Property text (C03): "A call … runs the body in a fresh variable scope: the body can neither read nor change the
caller's (or any global) variables, its own variables vanish on return".

`σ.scopes : List Frame` is the stack of variable scopes. `lookupVar` reads, and `define` / `removeVar` write,
the head frame only (`lookup_sees_top_scope_only`, `define_changes_top_scope_only` in `Thm/C03.lean`). Here:

* `*_keeps_lower_frames`: every successful expression / statement / program execution leaves all frames below
  the top one untouched and keeps the height of the stack (blocks duplicate the head frame on entry and remove
  the second frame on exit; a call pushes the parameters' frame and pops it);
* `call_leaves_caller_frames`: after a call the scopes are *exactly* the scopes after argument evaluation;
* `callee_starts_with_params_only`: the body starts on a top frame that is exactly `bindParams params vs []`.

**Level.** Proved directly for the evaluator *model* (`Model/Interp.lean`) by induction on fuel over all eight
mutually recursive functions (`Proofs/ScopeFrame.lean`, `keepAll`), with a sweep over all 80 natives
(`callNative_sameSc`) and IMPORT (`importStmt_sameSc`); no hypothesis on program, state or configuration, so
nothing has to be transported through the refinement theorem. The same theorems for the reference semantics
`Spec.*` (`Spec.keepAll`) are in the last section.

**By value / by reference.** Frames hold `Value`s. Numbers, strings, booleans and NULL are immediate; a list is
`.list a`, a *reference* to the cell `a` of `σ.heap` (likewise `.obj a` for maps and robots). "The caller's
variables are unchanged" therefore means: every variable of the caller holds the same immediate value, or the
same reference, as before (`caller_variables_same_after_call`). The heap cell a reference points to may have
been mutated through a parameter that holds the same reference — that is the specified by-reference behaviour
of lists (see the last example), and nothing else of the caller can change.
-/
namespace Aplang

/-! ## every execution keeps the frames below the top one, and the height -/

theorem expr_keeps_lower_frames (cfg : Cfg) (f : Nat) (e : Expr) (σ σ' : St) (v : Value)
    (h : expr cfg f e σ = .ok (v, σ')) :
    σ'.scopes.tail = σ.scopes.tail ∧ σ'.scopes.length = σ.scopes.length :=
  ((keepAll cfg f).expr e σ).getP h

theorem exprs_keeps_lower_frames (cfg : Cfg) (f : Nat) (es : List Expr) (σ σ' : St) (vs : List Value)
    (h : exprs cfg f es σ = .ok (vs, σ')) :
    σ'.scopes.tail = σ.scopes.tail ∧ σ'.scopes.length = σ.scopes.length :=
  ((keepAll cfg f).exprs es σ).getP h

theorem stmt_keeps_lower_frames (cfg : Cfg) (f : Nat) (s : Stmt) (σ σ' : St)
    (h : stmt cfg f s σ = .ok σ') :
    σ'.scopes.tail = σ.scopes.tail ∧ σ'.scopes.length = σ.scopes.length :=
  ((keepAll cfg f).stmt s σ).getS h

theorem block_keeps_lower_frames (cfg : Cfg) (f : Nat) (ss : List Stmt) (σ σ' : St)
    (h : block cfg f ss σ = .ok σ') :
    σ'.scopes.tail = σ.scopes.tail ∧ σ'.scopes.length = σ.scopes.length :=
  ((keepAll cfg f).block ss σ).getS h

theorem program_keeps_lower_frames (cfg : Cfg) (f : Nat) (ss : List Stmt) (σ σ' : St)
    (h : program cfg f ss σ = .ok σ') :
    σ'.scopes.tail = σ.scopes.tail ∧ σ'.scopes.length = σ.scopes.length :=
  ((keepAll cfg f).program ss σ).getS h

/-- the `drop 1` reading -/
theorem stmt_keeps_lower_frames_drop (cfg : Cfg) (f : Nat) (s : Stmt) (σ σ' : St)
    (h : stmt cfg f s σ = .ok σ') : σ'.scopes.drop 1 = σ.scopes.drop 1 :=
  (((keepAll cfg f).stmt s σ).getS h).drop_one

/-- frame by frame: run on `top :: below`, a statement ends on `top' :: below` — the same `below` -/
theorem stmt_changes_top_frame_only (cfg : Cfg) (f : Nat) (s : Stmt) (σ σ' : St) (top : Frame) (below : List Frame)
    (hs : σ.scopes = top :: below) (h : stmt cfg f s σ = .ok σ') : ∃ top', σ'.scopes = top' :: below :=
  (((keepAll cfg f).stmt s σ).getS h).cons hs

theorem expr_changes_top_frame_only (cfg : Cfg) (f : Nat) (e : Expr) (σ σ' : St) (v : Value) (top : Frame)
    (below : List Frame) (hs : σ.scopes = top :: below) (h : expr cfg f e σ = .ok (v, σ')) :
    ∃ top', σ'.scopes = top' :: below :=
  (((keepAll cfg f).expr e σ).getP h).cons hs

/-- no native procedure touches the scopes -/
theorem native_leaves_scopes (env : CharEnv) (n : Native) (args : List Value) (spans : List Span) (σ σ' : St)
    (v : Value) (h : callNative env n args spans σ = .ok (v, σ')) : σ'.scopes = σ.scopes :=
  (callNative_sameSc env n args spans σ).getP h

/-- IMPORT leaves the importer's scopes as they are, whatever the module does on its own stack -/
theorem import_leaves_scopes (cfg : Cfg) (runModule : List Stmt → St → Res St) (only : Option (List Token))
    (modName : Token) (σ σ' : St) (h : importStmt cfg runModule only modName σ = .ok σ') :
    σ'.scopes = σ.scopes :=
  (importStmt_sameSc cfg runModule only modName σ).getS h

/-! ## calls -/

/-- **a call leaves the caller's frames as they were**: when a call expression — to a user procedure or to a
native one — yields a value, the scopes afterwards are *exactly* the scopes after the arguments were
evaluated: the callee's frame has vanished, and every frame of the caller, its current one included, is what
it was. (Argument evaluation itself keeps the frames below the caller's current one.) -/
theorem call_leaves_caller_frames (cfg : Cfg) (f : Nat) (name : Str) (args : List Expr) (spans : List Span)
    (tok lp rp : Token) (σ σ' : St) (v : Value)
    (h : expr cfg (f+1) (.call name args spans tok lp rp) σ = .ok (v, σ')) :
    ∃ vs σ1, exprs cfg f args σ = .ok (vs, σ1) ∧ σ'.scopes = σ1.scopes ∧
      σ1.scopes.tail = σ.scopes.tail ∧ σ1.scopes.length = σ.scopes.length := by
  simp only [expr] at h
  cases hx : exprs cfg f args σ with
  | ok p =>
    obtain ⟨vs, σ1⟩ := p
    rw [hx] at h
    simp only [Res.bind_ok] at h
    exact ⟨vs, σ1, rfl, (call_tail_sameSc (keepAll cfg f) name vs spans tok lp rp σ1).getP h,
      ((keepAll cfg f).exprs args σ).getP hx⟩
  | err e s => rw [hx] at h; cases h
  | terminate w s => rw [hx] at h; cases h
  | panic p o => rw [hx] at h; cases h
  | fuel => rw [hx] at h; cases h

/-- the caller's variables after the call: the same immediate values and the same references as after argument
evaluation (by value for numbers, strings, booleans, NULL; by reference for lists, maps and robots: the
reference is unchanged, the cell it points to may have been mutated through it) -/
theorem caller_variables_same_after_call (cfg : Cfg) (f : Nat) (name : Str) (args : List Expr) (spans : List Span)
    (tok lp rp : Token) (σ σ' : St) (v : Value)
    (h : expr cfg (f+1) (.call name args spans tok lp rp) σ = .ok (v, σ')) :
    ∃ vs σ1, exprs cfg f args σ = .ok (vs, σ1) ∧ ∀ x, lookupVar σ' x = lookupVar σ1 x := by
  obtain ⟨vs, σ1, hx, hs, _⟩ := call_leaves_caller_frames cfg f name args spans tok lp rp σ σ' v h
  exact ⟨vs, σ1, hx, fun x => by unfold lookupVar; rw [hs]⟩

/-- **the callee starts with its parameters only**: a call of a user procedure with the right number of
arguments *is* the run of the body in the state whose top frame is exactly `bindParams params vs []` — pushed on
top of the caller's frames, with no pending return value — followed by the pop of that frame -/
theorem callee_starts_with_params_only (cfg : Cfg) (f : Nat) (name : Str) (args : List Expr) (spans : List Span)
    (tok lp rp : Token) (σ σ1 : St) (vs : List Value) (params : List Str) (body : Stmt)
    (hx : exprs cfg f args σ = .ok (vs, σ1)) (hf : σ1.procs.find? name = some (.user params body))
    (hn : params.length = vs.length) :
    expr cfg (f+1) (.call name args spans tok lp rp) σ =
      (stmt cfg f body { σ1 with scopes := bindParams params vs [] :: σ1.scopes, ret := none }).bind fun τ =>
        match τ.scopes with
        | [] => .panic "env.scrape" τ.out
        | _ :: rest => .ok (τ.ret.getD .null, { τ with ret := σ1.ret, scopes := rest }) := by
  simp only [expr, hx, Res.bind_ok, hf, hn, bne_self_eq_false, Bool.false_eq_true, ↓reduceIte]
  try rfl

theorem Frame.get?_set_ne (fr : Frame) (x y : Str) (v : Value) (h : y ≠ x) :
    (Frame.set fr x v).get? y = fr.get? y := by
  have hxy : (x == y) = false := by simp [Ne.symm h]
  unfold Frame.set Frame.get?
  simp only [List.find?_cons, hxy]
  congr 1
  induction fr with
  | nil => rfl
  | cons e es ih =>
    simp only [List.filter_cons, List.find?_cons]
    by_cases he : e.1 = x
    · have h1 : (e.1 != x) = false := by simp [he]
      have h2 : (e.1 == y) = false := by simp [he, Ne.symm h]
      simp only [h1, h2, Bool.false_eq_true, ↓reduceIte, ih]
    · have h1 : (e.1 != x) = true := by simp [he]
      simp only [h1, ↓reduceIte, List.find?_cons, ih]

/-- binding parameters touches the parameters' names only -/
theorem bindParams_get?_of_not_mem : ∀ (ps : List Str) (vs : List Value) (fr : Frame) (x : Str),
    x ∉ ps → (bindParams ps vs fr).get? x = fr.get? x
  | [], _, _, _, _ => by simp only [bindParams]
  | _ :: _, [], _, _, _ => by simp only [bindParams]
  | p :: ps, a :: as, fr, x, h => by
    simp only [bindParams]
    rw [bindParams_get?_of_not_mem ps as _ x (fun hm => h (List.mem_cons_of_mem _ hm))]
    exact Frame.get?_set_ne fr p x a (fun hxp => h (hxp ▸ List.mem_cons_self))

/-- the body **cannot read the caller's variables**: in the state the body starts in, variables are looked up
in the parameters' frame, and every name that is not a parameter is unbound — whatever the caller's (or the
global) frames below hold -/
theorem callee_sees_parameters_only (σ1 : St) (params : List Str) (vs : List Value) :
    let σc : St := { σ1 with scopes := bindParams params vs [] :: σ1.scopes, ret := none }
    σc.scopes = bindParams params vs [] :: σ1.scopes ∧
    (∀ x, lookupVar σc x = (bindParams params vs []).get? x) ∧
    (∀ x, x ∉ params → lookupVar σc x = none) := by
  refine ⟨rfl, fun x => rfl, fun x hx => ?_⟩
  show (bindParams params vs []).get? x = none
  rw [bindParams_get?_of_not_mem params vs [] x hx]
  rfl

/-- the body **cannot change the caller's variables, and its own vanish on return**: for a call of a user
procedure that yields a value, the body ran from the parameters' frame pushed on the caller's scopes `σ1.scopes`
to a state `τ` whose scopes are `fr :: σ1.scopes` — below the callee's final frame `fr` the caller's frames are
untouched — and the call's result state has the scopes `σ1.scopes`: `fr`, with everything the body defined, is
gone. The value is the pending return value of the body, NULL if there is none. -/
theorem user_call_frames (cfg : Cfg) (f : Nat) (name : Str) (args : List Expr) (spans : List Span)
    (tok lp rp : Token) (σ σ1 σ' : St) (vs : List Value) (params : List Str) (body : Stmt) (v : Value)
    (hx : exprs cfg f args σ = .ok (vs, σ1)) (hf : σ1.procs.find? name = some (.user params body))
    (h : expr cfg (f+1) (.call name args spans tok lp rp) σ = .ok (v, σ')) :
    params.length = vs.length ∧
    ∃ τ fr, stmt cfg f body { σ1 with scopes := bindParams params vs [] :: σ1.scopes, ret := none } = .ok τ ∧
      τ.scopes = fr :: σ1.scopes ∧ σ'.scopes = σ1.scopes ∧ v = τ.ret.getD .null := by
  simp only [expr, hx, Res.bind_ok, hf] at h
  split at h
  · cases h
  · rename_i hn
    have hn' : params.length = vs.length := by simpa using hn
    refine ⟨hn', ?_⟩
    cases hb : stmt cfg f body { σ1 with scopes := bindParams params vs [] :: σ1.scopes, ret := none } with
    | ok τ =>
      rw [hb] at h
      simp only [Res.bind_ok] at h
      obtain ⟨fr, hfr⟩ := call_pop (σ1 := { σ1 with scopes := bindParams params vs [] :: σ1.scopes, ret := none })
        rfl (((keepAll cfg f).stmt body _).getS hb)
      rw [hfr] at h
      simp only [Res.ok.injEq, Prod.mk.injEq] at h
      obtain ⟨hv, hσ⟩ := h
      exact ⟨τ, fr, rfl, hfr, by rw [← hσ], hv.symm⟩
    | err e s => rw [hb] at h; cases h
    | terminate w s => rw [hb] at h; cases h
    | panic p o => rw [hb] at h; cases h
    | fuel => rw [hb] at h; cases h

/-! ## the reference semantics -/

theorem spec_expr_keeps_lower_frames (cfg : Cfg) (f : Nat) (e : Expr) (σ σ' : St) (v : Value)
    (h : Spec.expr cfg f e σ = .ok (v, σ')) :
    σ'.scopes.tail = σ.scopes.tail ∧ σ'.scopes.length = σ.scopes.length :=
  ((Spec.keepAll cfg f).expr e σ).getP h

theorem spec_stmt_keeps_lower_frames (cfg : Cfg) (f : Nat) (s : Stmt) (σ σ' : St) (sig : Sig)
    (h : Spec.stmt cfg f s σ = .ok (sig, σ')) :
    σ'.scopes.tail = σ.scopes.tail ∧ σ'.scopes.length = σ.scopes.length :=
  ((Spec.keepAll cfg f).stmt s σ).getP h

theorem spec_program_keeps_lower_frames (cfg : Cfg) (f : Nat) (ss : List Stmt) (σ σ' : St)
    (h : Spec.program cfg f ss σ = .ok σ') :
    σ'.scopes.tail = σ.scopes.tail ∧ σ'.scopes.length = σ.scopes.length :=
  ((Spec.keepAll cfg f).program ss σ).getS h

/-- `call_leaves_caller_frames` for the reference call -/
theorem spec_call_leaves_caller_frames (cfg : Cfg) (f : Nat) (name : Str) (args : List Expr) (spans : List Span)
    (tok lp rp : Token) (σ σ' : St) (v : Value)
    (h : Spec.expr cfg (f+1) (.call name args spans tok lp rp) σ = .ok (v, σ')) :
    ∃ vs σ1, Spec.exprs cfg f args σ = .ok (vs, σ1) ∧ σ'.scopes = σ1.scopes ∧
      σ1.scopes.tail = σ.scopes.tail ∧ σ1.scopes.length = σ.scopes.length := by
  simp only [Spec.expr] at h
  cases hx : Spec.exprs cfg f args σ with
  | ok p =>
    obtain ⟨vs, σ1⟩ := p
    rw [hx] at h
    simp only [Res.bind_ok] at h
    exact ⟨vs, σ1, rfl, (Spec.call_tail_sameSc (Spec.keepAll cfg f) name vs spans tok lp rp σ1).getP h,
      ((Spec.keepAll cfg f).exprs args σ).getP hx⟩
  | err e s => rw [hx] at h; cases h
  | terminate w s => rw [hx] at h; cases h
  | panic p o => rw [hx] at h; cases h
  | fuel => rw [hx] at h; cases h

/-- `callee_starts_with_params_only` for the reference call (the unfolding of `Spec.expr` on `.call`, as
`call_semantics` in `Thm/C03.lean`, specialised to a user procedure of the right arity) -/
theorem spec_callee_starts_with_params_only (cfg : Cfg) (f : Nat) (name : Str) (args : List Expr)
    (spans : List Span) (tok lp rp : Token) (σ σ1 : St) (vs : List Value) (params : List Str) (body : Stmt)
    (hx : Spec.exprs cfg f args σ = .ok (vs, σ1)) (hf : σ1.procs.find? name = some (.user params body))
    (hn : params.length = vs.length) :
    Spec.expr cfg (f+1) (.call name args spans tok lp rp) σ =
      (Spec.stmt cfg f body { σ1 with scopes := bindParams params vs [] :: σ1.scopes }).bind fun (sig, τ) =>
        match τ.scopes with
        | [] => .panic "env.scrape" τ.out
        | _ :: rest => .ok ((match sig with | .ret v => v | _ => .null), { τ with scopes := rest }) := by
  simp only [Spec.expr, hx, Res.bind_ok, hf, hn, bne_self_eq_false, Bool.false_eq_true, ↓reduceIte]
  try rfl

/-! ## non-vacuity: concrete states and programs, checked by kernel evaluation of the model -/

namespace C03bDemo

def cfg0 : Cfg := genCfg CharEnv.ascii
def tk : Token := default

def numIs (o : Option Value) (n : Float) : Bool := match o with | some (.num x) => x == n | _ => false
def isNone (o : Option Value) : Bool := match o with | none => true | _ => false
def pairOr (r : Res (Value × St)) : Value × St := match r with | .ok p => p | _ => (.null, default)
def stateOr (r : Res St) : St := match r with | .ok σ => σ | _ => default

theorem pair_eq_of_ok (r : Res (Value × St)) (h : (match r with | .ok _ => true | _ => false) = true) :
    r = .ok ((pairOr r).1, (pairOr r).2) := by
  cases r <;> first | rfl | cases h
theorem state_eq_of_ok (r : Res St) (h : (match r with | .ok _ => true | _ => false) = true) :
    r = .ok (stateOr r) := by
  cases r <;> first | rfl | cases h

/-- `{ y <- x ; a <- 99 ; RETURN y }` -/
def bodyF : Stmt :=
  .block tk [.expr (.assign ['y'] tk (.var ['x'] tk) tk),
             .expr (.assign ['a'] tk (.lit (.num 99) tk) tk),
             .ret tk (some (.var ['y'] tk))] tk
/-- `f(a)` -/
def callF : Expr := .call ['f'] [.var ['a'] tk] [(0, 0)] tk tk tk
/-- the caller: current frame `a = 5` on top of an outer frame `g = 1`; `f(x)` is declared -/
def σA : St := { scopes := [[(['a'], .num 5)], [(['g'], .num 1)]], procs := [(['f'], .user [['x']] bodyF)] }

/-- the call yields a value: the hypothesis of `call_leaves_caller_frames` is satisfiable … -/
theorem callF_ok : expr cfg0 12 callF σA = .ok ((pairOr (expr cfg0 12 callF σA)).1, (pairOr (expr cfg0 12 callF σA)).2) :=
  pair_eq_of_ok _ (by decide +kernel)

/-- … and its conclusion, here: both frames of the caller are back, exactly -/
example : ∃ v σ', expr cfg0 12 callF σA = .ok (v, σ') ∧ σ'.scopes = σA.scopes := by
  obtain ⟨vs, σ1, hx, hs, _⟩ := call_leaves_caller_frames cfg0 11 _ _ _ _ _ _ σA _ _ callF_ok
  have hx' : exprs cfg0 11 [.var ['a'] tk] σA = .ok ([.num 5], σA) := rfl
  rw [hx'] at hx
  injection hx with hx
  injection hx with _ hσ
  exact ⟨_, _, callF_ok, by rw [hs, ← hσ]⟩

/-- what the kernel computes for this call: the value is 5; `a` is still 5 although the body assigned `a <- 99`
(that went to the callee's frame); the callee's `y` and `x` are gone; the outer frame is untouched -/
example : numIs (some (pairOr (expr cfg0 12 callF σA)).1) 5 = true ∧
    numIs (lookupVar (pairOr (expr cfg0 12 callF σA)).2 ['a']) 5 = true ∧
    isNone (lookupVar (pairOr (expr cfg0 12 callF σA)).2 ['y']) = true ∧
    isNone (lookupVar (pairOr (expr cfg0 12 callF σA)).2 ['x']) = true ∧
    (pairOr (expr cfg0 12 callF σA)).2.scopes.length = 2 := by decide +kernel

/-- the hypotheses of `callee_starts_with_params_only` and `user_call_frames` hold for this call -/
example : exprs cfg0 11 [.var ['a'] tk] σA = .ok ([.num 5], σA) ∧
    σA.procs.find? ['f'] = some (.user [['x']] bodyF) ∧ [['x']].length = [Value.num 5].length :=
  ⟨rfl, rfl, rfl⟩

example : ∃ τ fr, stmt cfg0 11 bodyF { σA with scopes := bindParams [['x']] [.num 5] [] :: σA.scopes, ret := none } = .ok τ ∧
    τ.scopes = fr :: σA.scopes := by
  obtain ⟨_, τ, fr, hb, hfr, _, _⟩ := user_call_frames cfg0 11 ['f'] [.var ['a'] tk] [(0, 0)] tk tk tk σA σA _
    [.num 5] [['x']] bodyF _ rfl rfl callF_ok
  exact ⟨τ, fr, hb, hfr⟩

/-- the body starts on the parameters' frame: `x` is bound to the argument, the caller's `a` and the outer `g`
are not visible -/
example :
    let σc : St := { σA with scopes := bindParams [['x']] [.num 5] [] :: σA.scopes, ret := none }
    numIs (lookupVar σc ['x']) 5 = true ∧ lookupVar σc ['a'] = none ∧ lookupVar σc ['g'] = none := by
  refine ⟨by decide +kernel, ?_, ?_⟩
  · exact (callee_sees_parameters_only σA [['x']] [.num 5]).2.2 ['a'] (by decide)
  · exact (callee_sees_parameters_only σA [['x']] [.num 5]).2.2 ['g'] (by decide)

/-- a statement run on two frames keeps the lower one (`stmt_changes_top_frame_only`): the block
`{ b <- 2 }` run on `[a = 5] :: [g = 1]` -/
def blockB : Stmt := .block tk [.expr (.assign ['b'] tk (.lit (.num 2) tk) tk)] tk

example : ∃ σ' top', stmt cfg0 8 blockB σA = .ok σ' ∧ σ'.scopes = top' :: [[(['g'], .num 1)]] := by
  have h := state_eq_of_ok (stmt cfg0 8 blockB σA) (by decide +kernel)
  obtain ⟨top', ht⟩ := stmt_changes_top_frame_only cfg0 8 blockB σA _ _ _ rfl h
  exact ⟨_, top', h, ht⟩

/-! through the whole pipeline (`run`: lexer, parser, evaluator) -/

def finalOr (o : RunOut) : St := o.final.getD default
def endedOk (o : RunOut) : Bool := match o.status with | .ok => true | _ => false

/-- by value: the callee assigns to its parameter's namesake `a` and defines `y`; after the call the caller's
`a` is still 5, `r` is the returned 6, `y` does not exist, and one scope is left -/
def srcA : Str := "a <- 5\nPROCEDURE f(x) { y <- x + 1\n a <- 99\n RETURN y }\nr <- f(a)\n".toList

example : endedOk (Aplang.run cfg0 60 srcA {} []) = true ∧
    numIs (lookupVar (finalOr (Aplang.run cfg0 60 srcA {} [])) ['a']) 5 = true ∧
    numIs (lookupVar (finalOr (Aplang.run cfg0 60 srcA {} [])) ['r']) 6 = true ∧
    isNone (lookupVar (finalOr (Aplang.run cfg0 60 srcA {} [])) ['y']) = true ∧
    (finalOr (Aplang.run cfg0 60 srcA {} [])).scopes.length = 1 := by decide +kernel

/-- by reference: the callee appends to the list its parameter refers to and then rebinds the parameter; after
the call the caller's `l` holds the *same reference* (cell 0) — the frames are unchanged — while the cell it
points to now has two elements: mutation through a shared reference is the specified behaviour of lists -/
def srcB : Str := "l <- [1]\nPROCEDURE g(p) { APPEND(p, 2)\n p <- 7 }\ng(l)\n".toList

def refIs (o : Option Value) (a : Nat) : Bool := match o with | some (.list b) => a == b | _ => false

example : endedOk (Aplang.run cfg0 60 srcB {} []) = true ∧
    refIs (lookupVar (finalOr (Aplang.run cfg0 60 srcB {} [])) ['l']) 0 = true ∧
    (getList (finalOr (Aplang.run cfg0 60 srcB {} [])) 0).map List.length = some 2 ∧
    isNone (lookupVar (finalOr (Aplang.run cfg0 60 srcB {} [])) ['p']) = true := by decide +kernel

end C03bDemo

end Aplang
