import Aplang.Proofs.ScopeFrame
import Aplang.Model.Config
import Aplang.Model.Run
/-!
# C03b — the scope frame: a call runs in a fresh scope and cannot touch the caller's variables

Property text (C03): "A call … runs the body in a fresh variable scope: the body can neither read nor change the
caller's (or any global) variables, its own variables vanish on return".

`σ.scopes : List Frame` is the stack of variable scopes. `lookupVar` reads, and `define` / `removeVar` write,
the head frame only (`lookup_sees_top_scope_only`, `define_changes_top_scope_only` in `Thm/C03.lean`). Here:

* `*_keeps_lower_frames`: every successful expression / statement / program execution leaves all frames below
  the top one untouched and keeps the height of the stack (blocks duplicate the head frame on entry and remove
  the second frame on exit; a call pushes the parameters' frame and pops it);
* `call_leaves_caller_frames`: after a call the scopes are *exactly* the scopes after argument evaluation;
* `callee_starts_with_params_only`: the body starts on a top frame that is exactly `bindParams params vs []`.

**Level.** Proved directly for the evaluator *model* (`Model/Interp.lean`) by induction on fuel over all eight
mutually recursive functions (`Proofs/ScopeFrame.lean`, `keepAll`), with a sweep over all 80 natives
(`callNative_sameSc`) and IMPORT (`importStmt_sameSc`); no hypothesis on program, state or configuration, so
nothing has to be transported through the refinement theorem. The same theorems for the reference semantics
`Spec.*` (`Spec.keepAll`) are in the last section.

**By value / by reference.** Frames hold `Value`s. Numbers, strings, booleans and NULL are immediate; a list is
`.list a`, a *reference* to the cell `a` of `σ.heap` (likewise `.obj a` for maps and robots). "The caller's
variables are unchanged" therefore means: every variable of the caller holds the same immediate value, or the
same reference, as before (`caller_variables_same_after_call`). The heap cell a reference points to may have
been mutated through a parameter that holds the same reference — that is the specified by-reference behaviour
of lists (see the last example), and nothing else of the caller can change.
-/
namespace Aplang

/-! ## every execution keeps the frames below the top one, and the height -/

theorem expr_keeps_lower_frames (cfg : Cfg) (f : Nat) (e : Expr) (σ σ' : St) (v : Value)
    (h : expr cfg f e σ = .ok (v, σ')) :
    σ'.scopes.tail = σ.scopes.tail ∧ σ'.scopes.length = σ.scopes.length :=
  ((keepAll cfg f).expr e σ).getP h

theorem exprs_keeps_lower_frames (cfg : Cfg) (f : Nat) (es : List Expr) (σ σ' : St) (vs : List Value)
    (h : exprs cfg f es σ = .ok (vs, σ')) :
    σ'.scopes.tail = σ.scopes.tail ∧ σ'.scopes.length = σ.scopes.length :=
  ((keepAll cfg f).exprs es σ).getP h

theorem stmt_keeps_lower_frames (cfg : Cfg) (f : Nat) (s : Stmt) (σ σ' : St)
    (h : stmt cfg f s σ = .ok σ') :
    σ'.scopes.tail = σ.scopes.tail ∧ σ'.scopes.length = σ.scopes.length :=
  ((keepAll cfg f).stmt s σ).getS h

theorem block_keeps_lower_frames (cfg : Cfg) (f : Nat) (ss : List Stmt) (σ σ' : St)
    (h : block cfg f ss σ = .ok σ') :
    σ'.scopes.tail = σ.scopes.tail ∧ σ'.scopes.length = σ.scopes.length :=
  ((keepAll cfg f).block ss σ).getS h

theorem program_keeps_lower_frames (cfg : Cfg) (f : Nat) (ss : List Stmt) (σ σ' : St)
    (h : program cfg f ss σ = .ok σ') :
    σ'.scopes.tail = σ.scopes.tail ∧ σ'.scopes.length = σ.scopes.length :=
  ((keepAll cfg f).program ss σ).getS h

/-- the `drop 1` reading -/
theorem stmt_keeps_lower_frames_drop (cfg : Cfg) (f : Nat) (s : Stmt) (σ σ' : St)
    (h : stmt cfg f s σ = .ok σ') : σ'.scopes.drop 1 = σ.scopes.drop 1 :=
  (((keepAll cfg f).stmt s σ).getS h).drop_one

/-- frame by frame: run on `top :: below`, a statement ends on `top' :: below` — the same `below` -/
theorem stmt_changes_top_frame_only (cfg : Cfg) (f : Nat) (s : Stmt) (σ σ' : St) (top : Frame) (below : List Frame)
    (hs : σ.scopes = top :: below) (h : stmt cfg f s σ = .ok σ') : ∃ top', σ'.scopes = top' :: below :=
  (((keepAll cfg f).stmt s σ).getS h).cons hs

theorem expr_changes_top_frame_only (cfg : Cfg) (f : Nat) (e : Expr) (σ σ' : St) (v : Value) (top : Frame)
    (below : List Frame) (hs : σ.scopes = top :: below) (h : expr cfg f e σ = .ok (v, σ')) :
    ∃ top', σ'.scopes = top' :: below :=
  (((keepAll cfg f).expr e σ).getP h).cons hs

/-- no native procedure touches the scopes -/
theorem native_leaves_scopes (env : CharEnv) (n : Native) (args : List Value) (spans : List Span) (σ σ' : St)
    (v : Value) (h : callNative env n args spans σ = .ok (v, σ')) : σ'.scopes = σ.scopes :=
  (callNative_sameSc env n args spans σ).getP h

/-- IMPORT leaves the importer's scopes as they are, whatever the module does on its own stack -/
theorem import_leaves_scopes (cfg : Cfg) (runModule : List Stmt → St → Res St) (only : Option (List Token))
    (modName : Token) (σ σ' : St) (h : importStmt cfg runModule only modName σ = .ok σ') :
    σ'.scopes = σ.scopes :=
  (importStmt_sameSc cfg runModule only modName σ).getS h

/-! ## calls -/

/-- **a call leaves the caller's frames as they were**: when a call expression — to a user procedure or to a
native one — yields a value, the scopes afterwards are *exactly* the scopes after the arguments were
evaluated: the callee's frame has vanished, and every frame of the caller, its current one included, is what
it was. (Argument evaluation itself keeps the frames below the caller's current one.) -/
theorem call_leaves_caller_frames (cfg : Cfg) (f : Nat) (name : Str) (args : List Expr) (spans : List Span)
    (tok lp rp : Token) (σ σ' : St) (v : Value)
    (h : expr cfg (f+1) (.call name args spans tok lp rp) σ = .ok (v, σ')) :
    ∃ vs σ1, exprs cfg f args σ = .ok (vs, σ1) ∧ σ'.scopes = σ1.scopes ∧
      σ1.scopes.tail = σ.scopes.tail ∧ σ1.scopes.length = σ.scopes.length := by
  simp only [expr] at h
  cases hx : exprs cfg f args σ with
  | ok p =>
    obtain ⟨vs, σ1⟩ := p
    rw [hx] at h
    simp only [Res.bind_ok] at h
    exact ⟨vs, σ1, rfl, (call_tail_sameSc (keepAll cfg f) name vs spans tok lp rp σ1).getP h,
      ((keepAll cfg f).exprs args σ).getP hx⟩
  | err e s => rw [hx] at h; cases h
  | terminate w s => rw [hx] at h; cases h
  | panic p o => rw [hx] at h; cases h
  | fuel => rw [hx] at h; cases h

/-- the caller's variables after the call: the same immediate values and the same references as after argument
evaluation (by value for numbers, strings, booleans, NULL; by reference for lists, maps and robots: the
reference is unchanged, the cell it points to may have been mutated through it) -/
theorem caller_variables_same_after_call (cfg : Cfg) (f : Nat) (name : Str) (args : List Expr) (spans : List Span)
    (tok lp rp : Token) (σ σ' : St) (v : Value)
    (h : expr cfg (f+1) (.call name args spans tok lp rp) σ = .ok (v, σ')) :
    ∃ vs σ1, exprs cfg f args σ = .ok (vs, σ1) ∧ ∀ x, lookupVar σ' x = lookupVar σ1 x := by
  obtain ⟨vs, σ1, hx, hs, _⟩ := call_leaves_caller_frames cfg f name args spans tok lp rp σ σ' v h
  exact ⟨vs, σ1, hx, fun x => by unfold lookupVar; rw [hs]⟩

/-- **the callee starts with its parameters only**: a call of a user procedure with the right number of
arguments *is* the run of the body in the state whose top frame is exactly `bindParams params vs []` — pushed on
top of the caller's frames, with no pending return value — followed by the pop of that frame -/
theorem callee_starts_with_params_only (cfg : Cfg) (f : Nat) (name : Str) (args : List Expr) (spans : List Span)
    (tok lp rp : Token) (σ σ1 : St) (vs : List Value) (params : List Str) (body : Stmt)
    (hx : exprs cfg f args σ = .ok (vs, σ1)) (hf : σ1.procs.find? name = some (.user params body))
    (hn : params.length = vs.length) :
    expr cfg (f+1) (.call name args spans tok lp rp) σ =
      (stmt cfg f body { σ1 with scopes := bindParams params vs [] :: σ1.scopes, ret := none }).bind fun τ =>
        match τ.scopes with
        | [] => .panic "env.scrape" τ.out
        | _ :: rest => .ok (τ.ret.getD .null, { τ with ret := σ1.ret, scopes := rest }) := by
  simp only [expr, hx, Res.bind_ok, hf, hn, bne_self_eq_false, Bool.false_eq_true, ↓reduceIte]

theorem Frame.get?_set_ne (fr : Frame) (x y : Str) (v : Value) (h : y ≠ x) :
    (Frame.set fr x v).get? y = fr.get? y := by
  have hxy : (x == y) = false := by simp [Ne.symm h]
  unfold Frame.set Frame.get?
  simp only [List.find?_cons, hxy]
  congr 1
  induction fr with
  | nil => rfl
  | cons e es ih =>
    simp only [List.filter_cons, List.find?_cons]
    by_cases he : e.1 = x
    · have h1 : (e.1 != x) = false := by simp [he]
      have h2 : (e.1 == y) = false := by simp [he, Ne.symm h]
      simp only [h1, h2, Bool.false_eq_true, ↓reduceIte, ih]
    · have h1 : (e.1 != x) = true := by simp [he]
      simp only [h1, ↓reduceIte, List.find?_cons, ih]

/-- binding parameters touches the parameters' names only -/
theorem bindParams_get?_of_not_mem : ∀ (ps : List Str) (vs : List Value) (fr : Frame) (x : Str),
    x ∉ ps → (bindParams ps vs fr).get? x = fr.get? x
  | [], _, _, _, _ => by simp only [bindParams]
  | _ :: _, [], _, _, _ => by simp only [bindParams]
  | p :: ps, a :: as, fr, x, h => by
    simp only [bindParams]
    rw [bindParams_get?_of_not_mem ps as _ x (fun hm => h (List.mem_cons_of_mem _ hm))]
    exact Frame.get?_set_ne fr p x a (fun hxp => h (hxp ▸ List.mem_cons_self))

/-- the body **cannot read the caller's variables**: in the state the body starts in, variables are looked up
in the parameters' frame, and every name that is not a parameter is unbound — whatever the caller's (or the
global) frames below hold -/
theorem callee_sees_parameters_only (σ1 : St) (params : List Str) (vs : List Value) :
    let σc : St := { σ1 with scopes := bindParams params vs [] :: σ1.scopes, ret := none }
    σc.scopes = bindParams params vs [] :: σ1.scopes ∧
    (∀ x, lookupVar σc x = (bindParams params vs []).get? x) ∧
    (∀ x, x ∉ params → lookupVar σc x = none) := by
  refine ⟨rfl, fun x => rfl, fun x hx => ?_⟩
  show (bindParams params vs []).get? x = none
  rw [bindParams_get?_of_not_mem params vs [] x hx]
  rfl

/-- the body **cannot change the caller's variables, and its own vanish on return**: for a call of a user
procedure that yields a value, the body ran from the parameters' frame pushed on the caller's scopes `σ1.scopes`
to a state `τ` whose scopes are `fr :: σ1.scopes` — below the callee's final frame `fr` the caller's frames are
untouched — and the call's result state has the scopes `σ1.scopes`: `fr`, with everything the body defined, is
gone. The value is the pending return value of the body, NULL if there is none. -/
theorem user_call_frames (cfg : Cfg) (f : Nat) (name : Str) (args : List Expr) (spans : List Span)
    (tok lp rp : Token) (σ σ1 σ' : St) (vs : List Value) (params : List Str) (body : Stmt) (v : Value)
    (hx : exprs cfg f args σ = .ok (vs, σ1)) (hf : σ1.procs.find? name = some (.user params body))
    (h : expr cfg (f+1) (.call name args spans tok lp rp) σ = .ok (v, σ')) :
    params.length = vs.length ∧
    ∃ τ fr, stmt cfg f body { σ1 with scopes := bindParams params vs [] :: σ1.scopes, ret := none } = .ok τ ∧
      τ.scopes = fr :: σ1.scopes ∧ σ'.scopes = σ1.scopes ∧ v = τ.ret.getD .null := by
  simp only [expr, hx, Res.bind_ok, hf] at h
  split at h
  · cases h
  · rename_i hn
    have hn' : params.length = vs.length := by simpa using hn
    refine ⟨hn', ?_⟩
    cases hb : stmt cfg f body { σ1 with scopes := bindParams params vs [] :: σ1.scopes, ret := none } with
    | ok τ =>
      rw [hb] at h
      simp only [Res.bind_ok] at h
      obtain ⟨fr, hfr⟩ := call_pop (σ1 := { σ1 with scopes := bindParams params vs [] :: σ1.scopes, ret := none })
        rfl (((keepAll cfg f).stmt body _).getS hb)
      rw [hfr] at h
      simp only [Res.ok.injEq, Prod.mk.injEq] at h
      obtain ⟨hv, hσ⟩ := h
      exact ⟨τ, fr, rfl, hfr, by rw [← hσ], hv.symm⟩
    | err e s => rw [hb] at h; cases h
    | terminate w s => rw [hb] at h; cases h
    | panic p o => rw [hb] at h; cases h
    | fuel => rw [hb] at h; cases h

/-! ## the reference semantics -/

theorem spec_expr_keeps_lower_frames (cfg : Cfg) (f : Nat) (e : Expr) (σ σ' : St) (v : Value)
    (h : Spec.expr cfg f e σ = .ok (v, σ')) :
    σ'.scopes.tail = σ.scopes.tail ∧ σ'.scopes.length = σ.scopes.length :=
  ((Spec.keepAll cfg f).expr e σ).getP h

theorem spec_stmt_keeps_lower_frames (cfg : Cfg) (f : Nat) (s : Stmt) (σ σ' : St) (sig : Sig)
    (h : Spec.stmt cfg f s σ = .ok (sig, σ')) :
    σ'.scopes.tail = σ.scopes.tail ∧ σ'.scopes.length = σ.scopes.length :=
  ((Spec.keepAll cfg f).stmt s σ).getP h

theorem spec_program_keeps_lower_frames (cfg : Cfg) (f : Nat) (ss : List Stmt) (σ σ' : St)
    (h : Spec.program cfg f ss σ = .ok σ') :
    σ'.scopes.tail = σ.scopes.tail ∧ σ'.scopes.length = σ.scopes.length :=
  ((Spec.keepAll cfg f).program ss σ).getS h

/-- `call_leaves_caller_frames` for the reference call -/
theorem spec_call_leaves_caller_frames (cfg : Cfg) (f : Nat) (name : Str) (args : List Expr) (spans : List Span)
    (tok lp rp : Token) (σ σ' : St) (v : Value)
    (h : Spec.expr cfg (f+1) (.call name args spans tok lp rp) σ = .ok (v, σ')) :
    ∃ vs σ1, Spec.exprs cfg f args σ = .ok (vs, σ1) ∧ σ'.scopes = σ1.scopes ∧
      σ1.scopes.tail = σ.scopes.tail ∧ σ1.scopes.length = σ.scopes.length := by
  simp only [Spec.expr] at h
  cases hx : Spec.exprs cfg f args σ with
  | ok p =>
    obtain ⟨vs, σ1⟩ := p
    rw [hx] at h
    simp only [Res.bind_ok] at h
    exact ⟨vs, σ1, rfl, (Spec.call_tail_sameSc (Spec.keepAll cfg f) name vs spans tok lp rp σ1).getP h,
      ((Spec.keepAll cfg f).exprs args σ).getP hx⟩
  | err e s => rw [hx] at h; cases h
  | terminate w s => rw [hx] at h; cases h
  | panic p o => rw [hx] at h; cases h
  | fuel => rw [hx] at h; cases h

/-- `callee_starts_with_params_only` for the reference call (the unfolding of `Spec.expr` on `.call`, as
`call_semantics` in `Thm/C03.lean`, specialised to a user procedure of the right arity) -/
theorem spec_callee_starts_with_params_only (cfg : Cfg) (f : Nat) (name : Str) (args : List Expr)
    (spans : List Span) (tok lp rp : Token) (σ σ1 : St) (vs : List Value) (params : List Str) (body : Stmt)
    (hx : Spec.exprs cfg f args σ = .ok (vs, σ1)) (hf : σ1.procs.find? name = some (.user params body))
    (hn : params.length = vs.length) :
    Spec.expr cfg (f+1) (.call name args spans tok lp rp) σ =
      (Spec.stmt cfg f body { σ1 with scopes := bindParams params vs [] :: σ1.scopes }).bind fun (sig, τ) =>
        match τ.scopes with
        | [] => .panic "env.scrape" τ.out
        | _ :: rest => .ok ((match sig with | .ret v => v | _ => .null), { τ with scopes := rest }) := by
  simp only [Spec.expr, hx, Res.bind_ok, hf, hn, bne_self_eq_false, Bool.false_eq_true, ↓reduceIte]
  try rfl

end Aplang
