import Aplang.Proofs.LexerLemmas
import Aplang.Model.Config
/-!
# C07 — tokenisation: spans are exact, ordered, on character boundaries; one end-of-input marker

Statements are about `Aplang.lex` (Model/Lexer.lean), for every configuration (keyword table,
statement-ender set, alphanumeric class) and every source string.
-/
namespace Aplang

theorem push_tokens_mem (st : Step) (r) (t : Token) (h : t ∈ (st.push r).1) :
    (∃ rest, st = .tok t rest) ∨ t ∈ r.1 := by
  cases st <;> simp [Step.push] at h ⊢
  · rcases h with rfl | h
    · exact Or.inl rfl
    · exact Or.inr h
  · exact h
  · exact h

/-- invariant of the scan loop: the consumed prefix and the remaining input spell the source, the
cursor is the byte length of the prefix -/
theorem scanLoop_spans (cfg : LexCfg) (whole : Str) :
    ∀ (src : Str) (pos : Nat) (prev : Option TT) (ls : Nat) (pre : Str),
      whole = pre ++ src → ulen pre = pos →
      ∀ t ∈ (scanLoop cfg src pos prev ls).1, SliceIs whole t.off t.len t.lexeme ∧ pos ≤ t.off := by
  intro src pos prev ls
  fun_induction scanLoop cfg src pos prev ls with
  | case1 pos prev ls => intro pre _ _ t ht; simp at ht
  | case2 pos prev ls c cs _ ih =>
    intro pre hw hp
    obtain ⟨used, hu, hne, hby, htok⟩ := scanOne_consumes cfg prev pos c cs
    have hpos : pos + (scanOne cfg prev pos c cs).bytes = ulen (pre ++ used) := by
      rw [hby, ulen_append]; omega
    have ih' := ih (pre ++ used) (by rw [hw, hu]; simp) hpos.symm
    intro t ht
    rcases push_tokens_mem _ _ t ht with ⟨r0, hst⟩ | ht
    · obtain ⟨h1, h2, h3⟩ := htok t r0 hst
      refine ⟨⟨pre, r0, ?_, by omega, by rw [h3, h1]⟩, by omega⟩
      rw [hw, hu, h1, hst]; simp [Step.rest]
    · have := ih' t ht
      refine ⟨this.1, ?_⟩
      have h2 := this.2
      rw [hpos, ulen_append] at h2; omega

/-- every token's byte range reproduces its text, inside the source, on character boundaries -/
theorem lex_spans_exact (cfg : LexCfg) (src : Str) :
    ∀ t ∈ (lex cfg src).tokens, t.tt ≠ .eof → SliceIs src t.off t.len t.lexeme := by
  intro t ht hne
  unfold lex at ht
  simp only at ht
  generalize hsl : scanLoop cfg src 0 none 0 = res at ht
  obtain ⟨ts, es, ls⟩ := res
  simp at ht
  rcases ht with ht | rfl
  · have := scanLoop_spans cfg src src 0 none 0 [] (by simp) (by simp) t (by rw [hsl]; exact ht)
    exact this.1
  · exact absurd rfl hne

theorem scanLoop_off_ge (cfg : LexCfg) :
    ∀ (src : Str) (pos : Nat) (prev : Option TT) (ls : Nat),
      ∀ t ∈ (scanLoop cfg src pos prev ls).1, pos ≤ t.off := by
  intro src pos prev ls
  fun_induction scanLoop cfg src pos prev ls with
  | case1 => intro t ht; simp at ht
  | case2 pos prev ls c cs _ ih =>
    intro t ht
    obtain ⟨used, hu, hne, hby, htok⟩ := scanOne_consumes cfg prev pos c cs
    rcases push_tokens_mem _ _ t ht with ⟨r0, hst⟩ | ht
    · have := (htok t r0 hst).2.1; omega
    · have := ih t ht; omega

/-- ranges increase and do not overlap -/
theorem scanLoop_ordered (cfg : LexCfg) :
    ∀ (src : Str) (pos : Nat) (prev : Option TT) (ls : Nat),
      (scanLoop cfg src pos prev ls).1.Pairwise (fun a b => a.off + a.len ≤ b.off) := by
  intro src pos prev ls
  fun_induction scanLoop cfg src pos prev ls with
  | case1 => simp
  | case2 pos prev ls c cs _ ih =>
    obtain ⟨used, hu, hne, hby, htok⟩ := scanOne_consumes cfg prev pos c cs
    have hge := scanLoop_off_ge cfg (scanOne cfg prev pos c cs).rest
      (pos + (scanOne cfg prev pos c cs).bytes)
      ((scanOne cfg prev pos c cs).prev prev) pos
    generalize hst : scanOne cfg prev pos c cs = st at ih hu hby htok hge ⊢
    cases st with
    | skip r => simpa [Step.push] using ih
    | err e r => simpa [Step.push] using ih
    | tok t0 r0 =>
      simp only [Step.push, List.pairwise_cons]
      refine ⟨?_, ih⟩
      intro b hb
      obtain ⟨h1, h2, h3⟩ := htok t0 r0 rfl
      simp only [Step.rest, Step.bytes] at hu hge hby
      have := hge b hb
      omega

theorem lex_ordered (cfg : LexCfg) (src : Str) :
    ((lex cfg src).tokens.dropLast).Pairwise (fun a b => a.off + a.len ≤ b.off) := by
  unfold lex
  simp only
  generalize hsl : scanLoop cfg src 0 none 0 = res
  obtain ⟨ts, es, ls⟩ := res
  have := scanLoop_ordered cfg src 0 none 0
  rw [hsl] at this
  simpa using this

/-- no keyword is spelled like the end-of-input marker -/
def KwNoEof (cfg : LexCfg) : Prop := ∀ s, cfg.kw s ≠ some .eof

theorem singleTT_mem (c : Char) (tt : TT) (h : singleTT c = some tt) : tt ∈ singleTable.map (·.2) := by
  simp only [singleTT, Option.map_eq_some_iff] at h
  obtain ⟨e, he, rfl⟩ := h
  exact List.mem_map_of_mem (List.mem_of_find?_eq_some he)

theorem singleTT_ne_eof (c : Char) : singleTT c ≠ some .eof := by
  intro h
  have := singleTT_mem c _ h
  simp [singleTable] at this

theorem classify_single (cfg : LexCfg) (c : Char) (tt : TT) :
    classify cfg c = .single tt → singleTT c = some tt := by
  unfold classify
  split
  · intro h; cases h; assumption
  · intro h
    repeat' split at h
    all_goals cases h

theorem scanOne_not_eof (cfg : LexCfg) (hk : KwNoEof cfg) (prev pos c cs t r) :
    scanOne cfg prev pos c cs = .tok t r → t.tt ≠ .eof := by
  unfold scanOne
  cases hc : classify cfg c
  case single tt =>
    intro h; cases h
    have := classify_single cfg c tt hc
    simp only [mkTok_tt]; intro he; subst he; exact singleTT_ne_eof c this
  case digit =>
    intro h; unfold scanNumber at h; simp only at h
    split at h
    · split at h <;> (cases h; simp [mkTok_tt])
    · cases h; simp [mkTok_tt]
  case alnum =>
    intro h; unfold scanIdent at h; simp only at h
    split at h
    · rename_i k hk'
      cases h; simp only [mkTok_tt]; intro he; subst he; exact hk _ hk'
    · cases h; simp [mkTok_tt]
  case bang => simp only []; intro h; split at h <;> cases h; simp [mkTok_tt]
  case eq => simp only []; intro h; split at h <;> cases h; simp [mkTok_tt]
  case lt => simp only []; intro h; split at h <;> cases h <;> simp [mkTok_tt]
  case gt => simp only []; intro h; split at h <;> cases h <;> simp [mkTok_tt]
  case slash => simp only []; intro h; split at h <;> cases h; simp [mkTok_tt]
  case backslash => simp only []; intro h; split at h <;> cases h
  case blank => simp only []; intro h; cases h
  case newline =>
    simp only []; intro h; split at h
    · split at h <;> cases h; simp [mkTok_tt]
    · cases h
  case quote => simp only []; intro h; split at h <;> cases h; simp [mkTok_tt]
  case other => simp only []; intro h; cases h

theorem scanLoop_no_eof (cfg : LexCfg) (hk : KwNoEof cfg) :
    ∀ (src : Str) (pos : Nat) (prev : Option TT) (ls : Nat),
      ∀ t ∈ (scanLoop cfg src pos prev ls).1, t.tt ≠ .eof := by
  intro src pos prev ls
  fun_induction scanLoop cfg src pos prev ls with
  | case1 => intro t ht; simp at ht
  | case2 pos prev ls c cs _ ih =>
    intro t ht
    rcases push_tokens_mem _ _ t ht with ⟨r0, hst⟩ | ht
    · exact scanOne_not_eof cfg hk prev pos c cs t r0 hst
    · exact ih t ht

/-- a token sequence ends with exactly one end-of-input marker -/
theorem lex_eof_once (cfg : LexCfg) (hk : KwNoEof cfg) (src : Str) :
    ∃ ts e, (lex cfg src).tokens = ts ++ [e] ∧ e.tt = .eof ∧ e.len = 0 ∧ ∀ t ∈ ts, t.tt ≠ .eof := by
  unfold lex
  simp only
  generalize hsl : scanLoop cfg src 0 none 0 = res
  obtain ⟨ts, es, ls⟩ := res
  refine ⟨ts, eofToken ls, rfl, rfl, rfl, ?_⟩
  have := scanLoop_no_eof cfg hk src 0 none 0
  rw [hsl] at this
  exact this

/-- the end-of-input marker's offset is inside the source -/
theorem scanLoop_lastStart (cfg : LexCfg) :
    ∀ (src : Str) (pos : Nat) (prev : Option TT) (ls : Nat),
      ls ≤ pos → (scanLoop cfg src pos prev ls).2.2 ≤ pos + ulen src := by
  intro src pos prev ls
  fun_induction scanLoop cfg src pos prev ls with
  | case1 => intro h; simpa using h
  | case2 pos prev ls c cs _ ih =>
    intro _
    obtain ⟨used, hu, hne, hby, _⟩ := scanOne_consumes cfg prev pos c cs
    have h1 : ulen (c :: cs) = ulen used + ulen (scanOne cfg prev pos c cs).rest := by
      rw [hu, ulen_append]
    have := ih (by omega)
    have hp : ∀ st r, (Step.push st r).2.2 = r.2.2 := by intro st r; cases st <;> rfl
    rw [hp]
    omega

/-- the end-of-input marker lies inside the source -/
theorem lex_eof_in_source (cfg : LexCfg) (src : Str) :
    ∀ t ∈ (lex cfg src).tokens, t.tt = .eof → t.off + t.len ≤ ulen src ∨ t ∈ (lex cfg src).tokens.dropLast := by
  intro t ht _
  unfold lex at ht ⊢
  simp only at ht ⊢
  generalize hsl : scanLoop cfg src 0 none 0 = res at ht ⊢
  obtain ⟨ts, es, ls⟩ := res
  simp at ht ⊢
  rcases ht with ht | rfl
  · exact Or.inr ht
  · left
    have := scanLoop_lastStart cfg src 0 none 0 (by omega)
    rw [hsl] at this
    simpa [eofToken] using this

/-! ## the extracted tables (re-checked against what the code says now) -/

theorem genKw_no_eof (isAlnum) : KwNoEof (genLexCfg isAlnum) := by
  intro s h
  have hall : Gen.keywords.all (fun e => e.2 != .eof) = true := by decide
  simp only [genLexCfg, genKw, Option.map_eq_some_iff] at h
  obtain ⟨e, he, h2⟩ := h
  have hm := List.mem_of_find?_eq_some he
  have := List.all_eq_true.mp hall e hm
  simp [h2] at this

/-- with the live keyword table every successful token sequence ends with exactly one end-of-input marker -/
theorem lex_eof_once_live (isAlnum) (src : Str) :
    ∃ ts e, (lex (genLexCfg isAlnum) src).tokens = ts ++ [e] ∧ e.tt = .eof ∧ e.len = 0 ∧ ∀ t ∈ ts, t.tt ≠ .eof :=
  lex_eof_once _ (genKw_no_eof isAlnum) src

/-! ## non-vacuity: one scan step on a multi-byte character and on a number (kernel-evaluated) -/

example : (match scanOne (genLexCfg (fun c => c.isAlphanum || c == 'é')) none 7 'é' "x+1".toList with
    | .tok t r => (t.tt, t.off, t.len, r) | _ => (.eof, 0, 0, [])) = (.identifier, 7, 3, "+1".toList) := by decide

example : (match scanOne (genLexCfg Char.isAlphanum) none 0 '1' "2.50)".toList with
    | .tok t r => (t.tt, t.off, t.len, r) | _ => (.eof, 0, 0, [])) = (.number, 0, 5, ")".toList) := by decide

end Aplang
