import Aplang.Thm.C06
import Aplang.Proofs.PosEraseParser
import Aplang.Proofs.PosEraseEval
/-!
# C06 (second half) — behaviour depends only on the token sequence, *not on where the tokens stand*

`Thm/C06.lean` proves that every admissible layout of a token stream lexes back to the same kinds, spellings
and literals; the positions (`off`, `len`) of the tokens of course differ between two layouts.  This file
closes the gap: two token lists that agree in everything except positions — and even in less: kinds, literals
and the spellings of *identifiers* (`SameKinds`; the spelling of a keyword or of a statement terminator is
immaterial) — are parsed to the same tree up to positions, report the same number of syntax errors, and run
to the same output and the same status (a runtime error has the same message; only its labelled byte range may
differ).

* `parse_position_independent`, `runTokens_position_independent` (and the `_kinds` forms they follow from);
* `run_position_independent`: two sources whose token lists agree up to positions behave the same;
* `layout_run_invariance` (+ `_live`): two admissible layouts of the same token stream — any separators,
  comments, continuations, keyword case, either way of writing a terminator — give the same output and status.
-/
namespace Aplang
open Spec.Lexical

/-- the two token lists agree in everything except positions -/
def SameToks (ts₁ ts₂ : List Token) : Prop := ts₁.map Token.noPos = ts₂.map Token.noPos

/-- the two token lists agree in kinds, literals and the spellings of identifiers -/
def SameKinds (ts₁ ts₂ : List Token) : Prop := ts₁.map Token.norm = ts₂.map Token.norm

theorem SameToks.sameKinds {ts₁ ts₂ : List Token} (h : SameToks ts₁ ts₂) : SameKinds ts₁ ts₂ := by
  have := congrArg (List.map Token.norm) h
  simpa only [SameKinds, List.map_map, Function.comp_def, Token.norm_noPos] using this

theorem SameKinds.length {ts₁ ts₂ : List Token} (h : SameKinds ts₁ ts₂) : ts₁.length = ts₂.length := by
  simpa using congrArg List.length h

/-- the two runs end the same way; a runtime error has the same message (its labelled range may differ) -/
def SameStatus : RunEnd → RunEnd → Prop
  | .ok, .ok => True
  | .lexErr n, .lexErr m => n = m
  | .parseErr n, .parseErr m => n = m
  | .rtErr e₁, .rtErr e₂ => e₁.kind = e₂.kind
  | .terminate w₁, .terminate w₂ => w₁ = w₂
  | .panic s₁, .panic s₂ => s₁ = s₂
  | .fuel, .fuel => True
  | _, _ => False

/-- final states: both absent, or similar (equal except for positions inside stored procedure bodies) -/
def SameFinal : Option St → Option St → Prop
  | none, none => True
  | some a, some b => StSim a b
  | _, _ => False

/-- the two parser outcomes agree up to positions: the same trees up to `Stmt.norm`; or the same syntax
errors (same codes, same number of labels each — in particular the same number of diagnostics); or a panic
at the same site; or both out of fuel -/
def ParseSim : P.ParseOut → P.ParseOut → Prop
  | .ok p₁, .ok p₂ => p₁.map Stmt.norm = p₂.map Stmt.norm
  | .errs e₁, .errs e₂ => e₁.map PErr.norm = e₂.map PErr.norm
  | .panic a, .panic b => a = b
  | .fuel, .fuel => True
  | _, _ => False

/-- **the parser does not look at positions** (nor at the spelling of anything but identifiers) -/
theorem parse_kinds_independent (f : Nat) (ts₁ ts₂ : List Token) (h : SameKinds ts₁ ts₂) :
    ParseSim (parse f ts₁) (parse f ts₂) := by
  have h1 := parse_norm f ts₁
  have h2 := parse_norm f ts₂
  rw [show ts₁.map Token.norm = ts₂.map Token.norm from h, h2] at h1
  cases r₁ : parse f ts₁ <;> cases r₂ : parse f ts₂ <;> rw [r₁, r₂] at h1 <;>
    simp only [P.ParseOut.norm, P.ParseOut.ok.injEq, P.ParseOut.errs.injEq, P.ParseOut.panic.injEq,
      reduceCtorEq] at h1 <;>
    first | exact h1.symm | trivial

theorem parse_position_independent (f : Nat) (ts₁ ts₂ : List Token) (h : SameToks ts₁ ts₂) :
    ParseSim (parse f ts₁) (parse f ts₂) :=
  parse_kinds_independent f ts₁ ts₂ h.sameKinds

/-- the number of syntax diagnostics does not depend on positions -/
theorem parse_errs_count (f : Nat) (ts₁ ts₂ : List Token) (h : SameKinds ts₁ ts₂) (es₁ es₂ : List PErr)
    (h₁ : parse f ts₁ = .errs es₁) (h₂ : parse f ts₂ = .errs es₂) : es₁.length = es₂.length := by
  have := parse_kinds_independent f ts₁ ts₂ h
  rw [h₁, h₂] at this
  simpa using congrArg List.length this

/-- **two token lists with the same kinds, literals and identifier spellings behave the same**: same output,
same status (same number of syntax errors; runtime errors with the same message), similar final states -/
theorem runTokens_kinds_independent (cfg : Cfg) (fuel : Nat) (ts₁ ts₂ : List Token) (h : SameKinds ts₁ ts₂)
    (world : World) (path : Str) :
    (runTokens cfg fuel ts₁ world path).output = (runTokens cfg fuel ts₂ world path).output ∧
    SameStatus (runTokens cfg fuel ts₁ world path).status (runTokens cfg fuel ts₂ world path).status ∧
    SameFinal (runTokens cfg fuel ts₁ world path).final (runTokens cfg fuel ts₂ world path).final := by
  have hp := parse_kinds_independent (parseFuel ts₁.length) ts₁ ts₂ h
  unfold runTokens
  rw [← h.length]
  cases r₁ : parse (parseFuel ts₁.length) ts₁ <;> cases r₂ : parse (parseFuel ts₁.length) ts₂ <;>
    rw [r₁, r₂] at hp <;> (try exact hp.elim) <;> dsimp only
  · -- both parsed: run the two programs from the same initial state
    rename_i p₁ p₂
    have hs := program_sim cfg fuel hp (StSim.refl (initState cfg world path))
    cases e₁ : program cfg fuel p₁ (initState cfg world path) <;>
      cases e₂ : program cfg fuel p₂ (initState cfg world path) <;> rw [e₁, e₂] at hs <;>
      (try exact hs.elim) <;> dsimp only
    · have hs' : StSim _ _ := hs
      exact ⟨by simp only [St.output, hs'.out], trivial, hs'⟩
    · exact ⟨by simp only [St.output, hs.2.out], hs.1, hs.2⟩
    · exact ⟨by simp only [St.output, hs.2.out], hs.1, hs.2⟩
    · exact ⟨by simp only [hs.2], hs.1, trivial⟩
    · exact ⟨rfl, trivial, trivial⟩
  · have hl := congrArg List.length hp
    simp only [List.length_map] at hl
    exact ⟨rfl, hl, trivial⟩
  · exact ⟨rfl, hp, trivial⟩
  · exact ⟨rfl, trivial, trivial⟩

/-- **C06, positions**: two token lists that agree in everything except the positions of the tokens give the
same output and the same status -/
theorem runTokens_position_independent (cfg : Cfg) (fuel : Nat) (ts₁ ts₂ : List Token) (h : SameToks ts₁ ts₂)
    (world : World) (path : Str) :
    let r₁ := runTokens cfg fuel ts₁ world path
    let r₂ := runTokens cfg fuel ts₂ world path
    r₁.output = r₂.output ∧ SameStatus r₁.status r₂.status :=
  let k := runTokens_kinds_independent cfg fuel ts₁ ts₂ h.sameKinds world path
  ⟨k.1, k.2.1⟩

/-- … and the final states are similar -/
theorem runTokens_position_independent_final (cfg : Cfg) (fuel : Nat) (ts₁ ts₂ : List Token)
    (h : SameToks ts₁ ts₂) (world : World) (path : Str) :
    SameFinal (runTokens cfg fuel ts₁ world path).final (runTokens cfg fuel ts₂ world path).final :=
  (runTokens_kinds_independent cfg fuel ts₁ ts₂ h.sameKinds world path).2.2

/-! ## from sources -/

/-- two sources with the same number of lexical diagnostics whose token lists have the same kinds, literals
and identifier spellings behave the same -/
theorem run_kinds_independent (cfg : Cfg) (fuel : Nat) (s₁ s₂ : Str) (world : World) (path : Str)
    (he : (lex cfg.lex s₁).errors.length = (lex cfg.lex s₂).errors.length)
    (h : SameKinds (lex cfg.lex s₁).tokens (lex cfg.lex s₂).tokens) :
    (run cfg fuel s₁ world path).output = (run cfg fuel s₂ world path).output ∧
    SameStatus (run cfg fuel s₁ world path).status (run cfg fuel s₂ world path).status := by
  cases h1 : (lex cfg.lex s₁).errors with
  | nil =>
    cases h2 : (lex cfg.lex s₂).errors with
    | nil =>
      rw [run_eq_runTokens cfg fuel s₁ world path h1, run_eq_runTokens cfg fuel s₂ world path h2]
      have k := runTokens_kinds_independent cfg fuel _ _ h world path
      exact ⟨k.1, k.2.1⟩
    | cons e es => rw [h1, h2] at he; simp at he
  | cons e es =>
    cases h2 : (lex cfg.lex s₂).errors with
    | nil => rw [h1, h2] at he; simp at he
    | cons e' es' =>
      rw [h1, h2] at he
      have r1 : run cfg fuel s₁ world path = ⟨.lexErr (e :: es).length, [], none⟩ := by simp [run, h1]
      have r2 : run cfg fuel s₂ world path = ⟨.lexErr (e' :: es').length, [], none⟩ := by simp [run, h2]
      rw [r1, r2]
      exact ⟨rfl, he⟩

/-- **C06, end to end**: if two sources lex without errors to token lists that agree up to positions, then
`run` gives the same output and the same status -/
theorem run_position_independent (cfg : Cfg) (fuel : Nat) (s₁ s₂ : Str) (world : World) (path : Str)
    (he₁ : (lex cfg.lex s₁).errors = []) (he₂ : (lex cfg.lex s₂).errors = [])
    (h : SameToks (lex cfg.lex s₁).tokens (lex cfg.lex s₂).tokens) :
    (run cfg fuel s₁ world path).output = (run cfg fuel s₂ world path).output ∧
    SameStatus (run cfg fuel s₁ world path).status (run cfg fuel s₂ world path).status :=
  run_kinds_independent cfg fuel s₁ s₂ world path (by rw [he₁, he₂]) h.sameKinds

/-! ## from layouts: combining with `lex_render` -/

/-- what `Token.norm` keeps of (kind, spelling, literal) -/
def normStrip (x : TT × Str × Lit) : TT × Str × Lit := (x.1, if x.1 = .identifier then x.2.1 else [], x.2.2)

def ofStrip (x : TT × Str × Lit) : Token := ⟨x.1, x.2.1, x.2.2, 0, 0⟩

theorem norm_eq_ofStrip (t : Token) : t.norm = ofStrip (normStrip (strip t)) := rfl

/-- token lists with the same kinds, identifier spellings and literals -/
theorem sameKinds_of_strip {ts₁ ts₂ : List Token}
    (h : (ts₁.map strip).map normStrip = (ts₂.map strip).map normStrip) : SameKinds ts₁ ts₂ := by
  have := congrArg (List.map ofStrip) h
  simpa only [SameKinds, List.map_map, Function.comp_def, ← norm_eq_ofStrip] using this

theorem keywordKind_ne_identifier {k : TT} (h : isKeywordKind k = true) : k ≠ .identifier := by
  intro e; subst e; simp [isKeywordKind] at h

/-- variants of a token (other keyword case, terminator written the other way) differ only in an immaterial
spelling -/
theorem variant_normStrip {cfg : LexCfg} (hc : CaseClosed cfg.kw) (hk : KwProper cfg) {a b : ATok}
    (h : Variant cfg a b) : normStrip (b.out cfg) = normStrip (a.out cfg) := by
  cases h with
  | same => rfl
  | upper c cs c' cs' k hkw he =>
    have h2 := (hc _ _ hkw).1
    rw [← he] at h2
    have hne := keywordKind_ne_identifier (hk _ _ hkw)
    simp [normStrip, ATok.out, ATok.kind, ATok.lit, hkw, h2, hne]
  | lower c cs c' cs' k hkw he =>
    have h2 := (hc _ _ hkw).2
    rw [← he] at h2
    have hne := keywordKind_ne_identifier (hk _ _ hkw)
    simp [normStrip, ATok.out, ATok.kind, ATok.lit, hkw, h2, hne]
  | term a b => simp [normStrip, ATok.out, ATok.kind, ATok.lit]

theorem variants_normStrip {cfg : LexCfg} (hc : CaseClosed cfg.kw) (hk : KwProper cfg) {ps qs : List Piece}
    (hv : Variants cfg ps qs) :
    (ps.map (fun p => p.tok.out cfg)).map normStrip = (qs.map (fun p => p.tok.out cfg)).map normStrip := by
  induction hv with
  | nil => rfl
  | cons hpq _ ih => simp only [List.map_cons, variant_normStrip hc hk hpq, ih]

/-- **C06, layouts**: two admissible layouts of the same token stream — separators, comments and
continuations chosen freely, every keyword in either case, every terminator written either way — produce the
same output and end with the same status.  (`CaseClosed`, `KwProper`: the keyword table is closed under
casing and yields keyword kinds only; both hold for the live table.) -/
theorem layout_run_invariance (cfg : Cfg) (hc : CaseClosed cfg.lex.kw) (hk : KwProper cfg.lex)
    (ps qs : List Piece) (trail trail' : Sep) (ec ec' : Option Str)
    (hv : Variants cfg.lex ps qs)
    (hwf : LayoutWF cfg.lex ps trail ec) (hadm : Admissible cfg.lex none ps trail ec)
    (hwf' : LayoutWF cfg.lex qs trail' ec') (hadm' : Admissible cfg.lex none qs trail' ec')
    (fuel : Nat) (world : World) (path : Str) :
    (run cfg fuel (render ps trail ec) world path).output =
      (run cfg fuel (render qs trail' ec') world path).output ∧
    SameStatus (run cfg fuel (render ps trail ec) world path).status
      (run cfg fuel (render qs trail' ec') world path).status := by
  obtain ⟨h1, e1⟩ := lex_render cfg.lex ps trail ec hwf hadm
  obtain ⟨h2, e2⟩ := lex_render cfg.lex qs trail' ec' hwf' hadm'
  refine run_kinds_independent cfg fuel _ _ world path (by rw [e1, e2]) (sameKinds_of_strip ?_)
  rw [h1, h2, List.map_append, List.map_append, variants_normStrip hc hk hv]

/-- … for the configuration the code has now (keyword table and ender set extracted from it) -/
theorem layout_run_invariance_live (chars : CharEnv)
    (ps qs : List Piece) (trail trail' : Sep) (ec ec' : Option Str)
    (hv : Variants (genCfg chars).lex ps qs)
    (hwf : LayoutWF (genCfg chars).lex ps trail ec) (hadm : Admissible (genCfg chars).lex none ps trail ec)
    (hwf' : LayoutWF (genCfg chars).lex qs trail' ec') (hadm' : Admissible (genCfg chars).lex none qs trail' ec')
    (fuel : Nat) (world : World) (path : Str) :
    (run (genCfg chars) fuel (render ps trail ec) world path).output =
      (run (genCfg chars) fuel (render qs trail' ec') world path).output ∧
    SameStatus (run (genCfg chars) fuel (render ps trail ec) world path).status
      (run (genCfg chars) fuel (render qs trail' ec') world path).status :=
  layout_run_invariance (genCfg chars) (keyword_case_closed_cfg chars.isAlnum) (genKw_proper chars.isAlnum)
    ps qs trail trail' ec ec' hv hwf hadm hwf' hadm' fuel world path

/-! ## non-vacuity -/

/-- the tokens of `x <- 1⏎DISPLAY(x)` as the lexer places them … -/
def exToksA : List Token :=
  [⟨.identifier, "x".toList, .none, 0, 1⟩, ⟨.arrow, "<-".toList, .none, 2, 2⟩, ⟨.number, "1".toList, .num 1.0, 5, 1⟩,
   ⟨.softSemi, "\n".toList, .none, 6, 1⟩, ⟨.identifier, "DISPLAY".toList, .none, 7, 7⟩,
   ⟨.leftParen, "(".toList, .none, 14, 1⟩, ⟨.identifier, "x".toList, .none, 15, 1⟩,
   ⟨.rightParen, ")".toList, .none, 16, 1⟩, ⟨.eof, "<EOF>".toList, .none, 17, 0⟩]

/-- … and of `x  <-  1 // c⏎⏎ DISPLAY ( x )`: the same tokens at other offsets -/
def exToksB : List Token :=
  [⟨.identifier, "x".toList, .none, 0, 1⟩, ⟨.arrow, "<-".toList, .none, 3, 2⟩, ⟨.number, "1".toList, .num 1.0, 7, 1⟩,
   ⟨.softSemi, "\n".toList, .none, 13, 1⟩, ⟨.identifier, "DISPLAY".toList, .none, 16, 7⟩,
   ⟨.leftParen, "(".toList, .none, 24, 1⟩, ⟨.identifier, "x".toList, .none, 26, 1⟩,
   ⟨.rightParen, ")".toList, .none, 28, 1⟩, ⟨.eof, "<EOF>".toList, .none, 29, 0⟩]

/-- … and with the terminator written `;`: not the same tokens up to positions, but the same kinds -/
def exToksC : List Token :=
  [⟨.identifier, "x".toList, .none, 0, 1⟩, ⟨.arrow, "<-".toList, .none, 1, 2⟩, ⟨.number, "1".toList, .num 1.0, 3, 1⟩,
   ⟨.softSemi, ";".toList, .none, 4, 1⟩, ⟨.identifier, "DISPLAY".toList, .none, 5, 7⟩,
   ⟨.leftParen, "(".toList, .none, 12, 1⟩, ⟨.identifier, "x".toList, .none, 13, 1⟩,
   ⟨.rightParen, ")".toList, .none, 14, 1⟩, ⟨.eof, "<EOF>".toList, .none, 15, 0⟩]

example : SameToks exToksA exToksB := rfl
example : SameKinds exToksA exToksC := rfl
example : exToksA.map (·.off) ≠ exToksB.map (·.off) := by decide
example : exToksA.map (·.lexeme) ≠ exToksC.map (·.lexeme) := by decide

/-- the hypothesis of the headline theorem is satisfiable by different token lists: these two behave alike -/
example (cfg : Cfg) (fuel : Nat) (world : World) (path : Str) :
    (runTokens cfg fuel exToksA world path).output = (runTokens cfg fuel exToksB world path).output ∧
    SameStatus (runTokens cfg fuel exToksA world path).status (runTokens cfg fuel exToksB world path).status :=
  runTokens_position_independent cfg fuel exToksA exToksB rfl world path

/-- the two layouts of `Thm/C06.lean` (`IF x<-1;` and `// h⏎⇥if x \⏎ <- // c⏎␍1 ⏎ ⏎// e`), run with any
library and character tables on top of the example lexical configuration: same output, same status (here:
the same number of syntax errors — the stream is not a program) -/
example (chars : CharEnv) (modules : Str → Option FunTable) (fuel : Nat) (world : World) (path : Str) :
    let cfg : Cfg := ⟨exCfg2, chars, modules⟩
    (run cfg fuel (render exStreamA [] none) world path).output =
      (run cfg fuel (render exStreamB [.blank ' ', .newline] (some [' ', 'e'])) world path).output ∧
    SameStatus (run cfg fuel (render exStreamA [] none) world path).status
      (run cfg fuel (render exStreamB [.blank ' ', .newline] (some [' ', 'e'])) world path).status := by
  intro cfg
  refine layout_run_invariance cfg exCfg2_caseClosed ?_ _ _ _ _ _ _ exAB_variants exA_wf exA_adm exB_wf exB_adm
    fuel world path
  intro s k h
  simp only [cfg, exCfg2] at h
  split at h
  · cases h; rfl
  · cases h

/-- `SameStatus` is not trivially true -/
example : ¬ SameStatus .ok .fuel := id
example : ¬ SameStatus (.rtErr ⟨"Division by Zero", (0, 1)⟩) (.rtErr ⟨"Modulo by Zero", (0, 1)⟩) := by
  simp [SameStatus]
example : SameStatus (.rtErr ⟨"Division by Zero", (4, 1)⟩) (.rtErr ⟨"Division by Zero", (9, 1)⟩) := rfl

end Aplang
