import Aplang.Proofs.ParserSound
import Aplang.Proofs.ParserEval
import Aplang.Proofs.ParserComplete
import Aplang.Proofs.ParserMin
/-!
# C05 — operator precedence and associativity are structural properties of every tree the parser returns

* `parse_sound`: whenever `expression` succeeds, the tree it returns is a rendering (`Shape`) of exactly
  the tokens the cursor moved over — nothing is dropped, duplicated or reordered, every token field of the
  tree is the token at that place of the input.
* `parse_respects_ladder`: the tree respects the documented ladder (`RespectsPrec`): assignment < OR < AND
  < `== !=` < `< <= > >=` < `+ -` < `* / MOD` < unary < postfix/primary; binary operators nest to the left,
  assignment to the right. (AND chains nest to the RIGHT in the Rust — `and` calls itself for its right
  operand — which is what the model does and what is stated.)
* `explicit_parens_override`: a parenthesised expression becomes a `.grouping` node, of the tightest level,
  whatever is inside.

* `parse_renderFull_partial`: completeness for fully parenthesised renderings — for every spec-level
  expression `e` (literals, variables, binary / logical / unary operators, assignment to a variable; calls,
  list literals and indexing are not covered, hence `_partial`), the token list `renderFull e`, in which every
  operand that is not a single token is written in parentheses, parses to `groupAll e` (a `.grouping` node
  at every parenthesised operand), with all sufficiently large fuels, whenever the following token cannot
  continue an expression.

* `parse_renderMin_partial`: completeness for *minimally* parenthesised renderings — `renderMin 1 e` writes
  parentheses only where the ladder requires them (an operand that binds looser than its position allows:
  binary operators and OR nest to the left, assignment, unary operators and AND to the right) and parses to
  `treeMin 1 e`, which has `.grouping` nodes exactly at those parentheses.
* `min_and_full_same_tree`: both trees are the tree `skeleton e` of the expression up to `.grouping` nodes
  (`Ungroups`) — the parser half of "behaves identically with minimal and with full parentheses"; the
  evaluator maps `.grouping e` to `e`.

The soundness theorems need no hypothesis on the token list and hold for every fuel.
-/
namespace Aplang
open P

/-- **soundness of the expression parser** -/
theorem parse_sound (f : Nat) (s : PState) (e : Expr) (s' : PState) (h : expression f s = .ok e s') :
    ∃ consumed, consumed ≠ [] ∧ s'.before = consumed.reverse ++ s.before ∧ s.after = consumed ++ s'.after ∧
      Shape e consumed ∧ s'.inFn = s.inFn ∧ s'.inLoop = s.inLoop := by
  obtain ⟨c, hc, hs, _, _⟩ := (expression_sound f s).elim h
  exact ⟨c, hs.ne_nil, hc.before, hc.after, hs, hc.inFn, hc.inLoop⟩

/-- **every tree the parser returns respects the precedence ladder** -/
theorem parse_respects_ladder (f : Nat) (s : PState) (e : Expr) (s' : PState)
    (h : expression f s = .ok e s') : RespectsPrec e := by
  obtain ⟨_, _, _, hr, _⟩ := (expression_sound f s).elim h
  exact hr

/-- the same for every rung of the ladder, with the level of the returned tree -/
theorem ladder_levels (f : Nat) (s : PState) (e : Expr) (s' : PState) :
    (orE f s = .ok e s' → 2 ≤ level e) ∧ (andE f s = .ok e s' → 3 ≤ level e) ∧
    (∀ lvl, binLevel f lvl s = .ok e s' → lvl.n ≤ level e) ∧ (unary f s = .ok e s' → 8 ≤ level e) ∧
    (access f s = .ok e s' → level e = 9) ∧ (primary f s = .ok e s' → level e = 9) := by
  have ih := exprSound f
  refine ⟨fun h => ?_, fun h => ?_, fun lvl h => ?_, fun h => ?_, fun h => ?_, fun h => ?_⟩
  · obtain ⟨_, _, _, _, hl⟩ := (ih.orE s).elim h; exact hl
  · obtain ⟨⟨_, _, _, _, hl⟩, _⟩ := (ih.andE s).elim h; exact hl
  · obtain ⟨_, _, _, _, hl⟩ := (ih.binLevel lvl s).elim h; exact hl
  · obtain ⟨_, _, _, _, hl⟩ := (ih.unary s).elim h; exact hl
  · obtain ⟨_, _, _, _, hl⟩ := (ih.access s).elim h; exact Nat.le_antisymm (level_le e) hl
  · obtain ⟨⟨_, _, _, _, hl⟩, _⟩ := (ih.primary s).elim h; exact Nat.le_antisymm (level_le e) hl

/-- the levels are 1 … 9, so "`9 ≤ level`" in `RespectsPrec.access` means "is a postfix/primary tree" -/
theorem level_range (e : Expr) : 1 ≤ level e ∧ level e ≤ 9 := ⟨level_pos e, level_le e⟩

/-! ## explicit parentheses -/

/-- **explicit parentheses always override**: if the tokens after a `(` parse as an expression `inner`
— of any level — and a `)` follows, then `primary` returns `.grouping inner`, a tree of the tightest
level 9 (so it is accepted as an operand of every operator, and as the base of an indexing). -/
theorem explicit_parens_override (f : Nat) (s : PState) (lp rp : Token) (r rest : List Token)
    (inner : Expr) (s2 : PState)
    (h : s.after = lp :: r) (hlp : lp.tt = .leftParen)
    (hin : expression f (adv s lp r) = .ok inner s2)
    (h2 : s2.after = rp :: rest) (hrp : rp.tt = .rightParen) :
    primary (f+1) s = .ok (.grouping inner lp rp) (adv s2 rp rest) ∧
    level (.grouping inner lp rp) = 9 ∧ RespectsPrec (.grouping inner lp rp) := by
  refine ⟨?_, rfl, .grouping (parse_respects_ladder _ _ _ _ hin)⟩
  rw [primary_lparen f h hlp, hin]
  simp only [PRes.bind_ok]
  rw [consume_hit _ h2 hrp (by decide)]
  rfl

/-- conversely a `.grouping` node only ever renders as `( … )` around a rendering of its content -/
theorem grouping_only_from_parens {e : Expr} {lp rp : Token} {c : List Token}
    (h : Shape (.grouping e lp rp) c) :
    lp.tt = .leftParen ∧ rp.tt = .rightParen ∧ ∃ ci, c = lp :: (ci ++ [rp]) ∧ Shape e ci := by
  cases h with
  | grouping h1 h2 h3 => exact ⟨h1, h3, _, rfl, h2⟩

/-! ## the ladder excludes the wrong trees -/

/-- a right-nested `/` is not a tree the parser can return -/
example (a b c : Expr) (t t' : Token) : ¬ RespectsPrec (.binary a .div (.binary b .div c t) t') := by
  intro h; cases h; simp [level, opLevel] at *

/-- a unary minus applied to a product is not a tree the parser can return (without parentheses) -/
example (a b : Expr) (t t' : Token) : ¬ RespectsPrec (.unary .neg (.binary a .mul b t) t') := by
  intro h; cases h; simp [level, opLevel] at *

/-- a sum as the operand of a product is not … -/
example (a b c : Expr) (t t' : Token) : ¬ RespectsPrec (.binary (.binary a .add b t) .mul c t') := by
  intro h; cases h; simp [level, opLevel] at *

/-- … unless it is parenthesised -/
example (a b c : Expr) (t t' lp rp : Token) (ha : RespectsPrec a) (hb : RespectsPrec b) (hc : RespectsPrec c)
    (hla : 6 ≤ level a) (hlb : 7 ≤ level b) (hlc : 8 ≤ level c) :
    RespectsPrec (.binary (.grouping (.binary a .add b t) lp rp) .mul c t') :=
  .binary (.grouping (.binary ha hb hla hlb)) hc (by simp [level, opLevel]) (by simp [opLevel]; omega)

/-- a left-nested AND chain is not a tree the parser returns (the model nests AND to the right) -/
example (a b c : Expr) (t t' : Token) : ¬ RespectsPrec (.logical (.logical a .and b t) .and c t') := by
  intro h; cases h; simp [level, logLevel] at *

/-! ## non-vacuity (kernel-evaluated) -/

def numTok (n : Float) (off : Nat) : Token := ⟨.number, [], .num n, off, 1⟩
def kwTok (tt : TT) (off : Nat) : Token := ⟨tt, [], .none, off, 1⟩
def idTok (name : Str) (off : Nat) : Token := ⟨.identifier, name, .none, off, 1⟩
def startOn (ts : List Token) : PState := ⟨[], ts, false, false⟩

/-- `1 - 2 - 3` is `(1 - 2) - 3` -/
example : (match expression 40 (startOn [numTok 1 0, kwTok .minus 1, numTok 2 2, kwTok .minus 3, numTok 3 4, kwTok .eof 5]) with
    | .ok (.binary (.binary (.lit _ a) .sub (.lit _ b) _) .sub (.lit _ c) _) s' =>
      a.off == 0 && b.off == 2 && c.off == 4 && s'.after.length == 1
    | _ => false) = true := by decide

/-- `1 + 2 * 3` is `1 + (2 * 3)` -/
example : (match expression 40 (startOn [numTok 1 0, kwTok .plus 1, numTok 2 2, kwTok .star 3, numTok 3 4, kwTok .eof 5]) with
    | .ok (.binary (.lit _ a) .add (.binary (.lit _ b) .mul (.lit _ c) _) _) s' =>
      a.off == 0 && b.off == 2 && c.off == 4 && s'.after.length == 1
    | _ => false) = true := by decide

/-- `- 1 * 2` is `(- 1) * 2` -/
example : (match expression 40 (startOn [kwTok .minus 0, numTok 1 1, kwTok .star 2, numTok 2 3, kwTok .eof 4]) with
    | .ok (.binary (.unary .neg (.lit _ a) _) .mul (.lit _ b) _) s' => a.off == 1 && b.off == 3 && s'.after.length == 1
    | _ => false) = true := by decide

/-- `a AND b AND c` is `a AND (b AND c)` -/
example : (match expression 40 (startOn [idTok ['a'] 0, kwTok .and_ 1, idTok ['b'] 2, kwTok .and_ 3, idTok ['c'] 4, kwTok .eof 5]) with
    | .ok (.logical (.var _ a) .and (.logical (.var _ b) .and (.var _ c) _) _) s' =>
      a.off == 0 && b.off == 2 && c.off == 4 && s'.after.length == 1
    | _ => false) = true := by decide

/-- `a OR b OR c` is `(a OR b) OR c` -/
example : (match expression 40 (startOn [idTok ['a'] 0, kwTok .or_ 1, idTok ['b'] 2, kwTok .or_ 3, idTok ['c'] 4, kwTok .eof 5]) with
    | .ok (.logical (.logical (.var _ a) .or (.var _ b) _) .or (.var _ c) _) s' =>
      a.off == 0 && b.off == 2 && c.off == 4 && s'.after.length == 1
    | _ => false) = true := by decide

/-- `( 1 + 2 ) * 3`: the parentheses win -/
example : (match expression 40 (startOn [kwTok .leftParen 0, numTok 1 1, kwTok .plus 2, numTok 2 3, kwTok .rightParen 4, kwTok .star 5, numTok 3 6, kwTok .eof 7]) with
    | .ok (.binary (.grouping (.binary (.lit _ a) .add (.lit _ b) _) _ _) .mul (.lit _ c) _) s' =>
      a.off == 1 && b.off == 3 && c.off == 6 && s'.after.length == 1
    | _ => false) = true := by decide

/-- `x <- y <- 1` is `x <- (y <- 1)` -/
example : (match expression 40 (startOn [idTok ['x'] 0, kwTok .arrow 1, idTok ['y'] 2, kwTok .arrow 3, numTok 1 4, kwTok .eof 5]) with
    | .ok (.assign _ a (.assign _ b (.lit _ c) _) _) s' => a.off == 0 && b.off == 2 && c.off == 4 && s'.after.length == 1
    | _ => false) = true := by decide


/-! ## completeness for fully parenthesised expressions -/

/-- **the fully parenthesised rendering of an expression parses to the fully grouped tree.**
`_partial`: the spec-level expressions `SExpr` cover literals, variables, binary, logical and unary
operators and assignment to a variable — not calls, list literals, indexing or assignment to an index
expression. `lp` / `rp` are the parenthesis tokens the renderer inserts. The follow condition
`stopsExpr nxt.tt`: the next token is none of `<-` `OR` `AND` `==` `!=` `<` `<=` `>` `>=` `+` `-` `*` `/` `MOD`
`[` `(` — e.g. a separator, a closing bracket, a keyword or the end of input. -/
theorem parse_renderFull_partial (lp rp : Token) (hlp : lp.tt = .leftParen) (hrp : rp.tt = .rightParen)
    (e : SExpr) (he : e.WF) (s : PState) (nxt : Token) (r : List Token)
    (h : s.after = renderFull lp rp e ++ nxt :: r) (hstop : stopsExpr nxt.tt) :
    ∃ fuel, ∀ g, fuel ≤ g → expression g s = .ok (groupAll lp rp e)
      { s with before := (renderFull lp rp e).reverse ++ s.before, after := nxt :: r } := by
  obtain ⟨f, hf⟩ := mainQ lp rp hlp hrp e he s nxt r h hstop
  exact ⟨f, fun g hg => (exprMono hg).expression s _ _ hf⟩

/-- the fully grouped tree is a rendering of `renderFull e` and respects the ladder: with every operand
in parentheses, precedence and associativity play no role -/
theorem groupAll_shape (lp rp : Token) (hlp : lp.tt = .leftParen) (hrp : rp.tt = .rightParen)
    (e : SExpr) (he : e.WF) : Shape (groupAll lp rp e) (renderFull lp rp e) ∧ RespectsPrec (groupAll lp rp e) := by
  let eof : Token := ⟨.eof, [], .none, 0, 0⟩
  obtain ⟨f, hf⟩ := parse_renderFull_partial lp rp hlp hrp e he
    ⟨[], renderFull lp rp e ++ [eof], false, false⟩ eof [] rfl (by decide)
  have hf' := hf f (Nat.le_refl f)
  refine ⟨?_, parse_respects_ladder _ _ _ _ hf'⟩
  obtain ⟨c, _, _, ha, hs, _⟩ := parse_sound _ _ _ _ hf'
  have : c = renderFull lp rp e := by
    have ha' : renderFull lp rp e ++ [eof] = c ++ [eof] := ha
    exact (List.append_cancel_right ha').symm
  rw [← this]; exact hs

/-- non-vacuity: `( 1 - 2 ) - 3` as a spec-level expression is well-formed, and its rendering has the 7
expected tokens -/
example : (SExpr.binary (.binary (.lit (.num 1) (numTok 1 0)) .sub (kwTok .minus 1) (.lit (.num 2) (numTok 2 2)))
    .sub (kwTok .minus 3) (.lit (.num 3) (numTok 3 4))).WF := ⟨⟨rfl, rfl, rfl⟩, rfl, rfl⟩
example : (renderFull (kwTok .leftParen 100) (kwTok .rightParen 101)
    (.binary (.binary (.lit (.num 1) (numTok 1 0)) .sub (kwTok .minus 1) (.lit (.num 2) (numTok 2 2)))
      .sub (kwTok .minus 3) (.lit (.num 3) (numTok 3 4)))).map (·.off) = [100, 0, 1, 2, 101, 3, 4] := by decide
example : stopsExpr .eof ∧ stopsExpr .rightParen ∧ stopsExpr .softSemi ∧ stopsExpr .rightBrace ∧
    stopsExpr .comma ∧ stopsExpr .times ∧ ¬ stopsExpr .plus ∧ ¬ stopsExpr .leftBracket := by decide


/-! ## completeness for minimally parenthesised expressions -/

/-- **the minimally parenthesised rendering parses to the tree with groups exactly at the written
parentheses.** `_partial`: same fragment as `parse_renderFull_partial` (no calls, list literals,
indexing). The ladder is the model's: AND chains nest to the right, so `a AND b AND c` is the minimal
rendering of `a AND (b AND c)`, and `(a AND b) AND c` keeps its parentheses. -/
theorem parse_renderMin_partial (lp rp : Token) (hlp : lp.tt = .leftParen) (hrp : rp.tt = .rightParen)
    (e : SExpr) (he : e.WF) (s : PState) (nxt : Token) (r : List Token)
    (h : s.after = renderMin lp rp 1 e ++ nxt :: r) (hstop : stopsExpr nxt.tt) :
    ∃ fuel, ∀ g, fuel ≤ g → expression g s = .ok (treeMin lp rp 1 e)
      { s with before := (renderMin lp rp 1 e).reverse ++ s.before, after := nxt :: r } := by
  obtain ⟨f, hf⟩ := (minQ lp rp hlp hrp e he).all .assign s nxt r h (by rw [hstop.1]; decide) hstop.2
  refine ⟨f + 1, fun g hg => (exprMono hg).expression s _ _ ?_⟩
  simp only [P.expression]
  exact hf

/-- at the top level nothing is parenthesised -/
theorem renderMin_top (lp rp : Token) (e : SExpr) :
    renderMin lp rp 1 e = rawMin lp rp e ∧ treeMin lp rp 1 e = rawTree lp rp e :=
  renderMin_raw lp rp (SExpr.level_pos e)

/-- **minimal and full parenthesisation give the same tree up to `.grouping` nodes**: both parse, and
both results are `skeleton e` with groups added -/
theorem min_and_full_same_tree (lp rp : Token) (hlp : lp.tt = .leftParen) (hrp : rp.tt = .rightParen)
    (e : SExpr) (he : e.WF) (s₁ s₂ : PState) (nxt : Token) (r : List Token)
    (h₁ : s₁.after = renderMin lp rp 1 e ++ nxt :: r) (h₂ : s₂.after = renderFull lp rp e ++ nxt :: r)
    (hstop : stopsExpr nxt.tt) :
    ∃ fuel t₁ t₂ s₁' s₂', expression fuel s₁ = .ok t₁ s₁' ∧ expression fuel s₂ = .ok t₂ s₂' ∧
      Ungroups t₁ (skeleton e) ∧ Ungroups t₂ (skeleton e) ∧ s₁'.after = nxt :: r ∧ s₂'.after = nxt :: r := by
  obtain ⟨f1, hf1⟩ := parse_renderMin_partial lp rp hlp hrp e he s₁ nxt r h₁ hstop
  obtain ⟨f2, hf2⟩ := parse_renderFull_partial lp rp hlp hrp e he s₂ nxt r h₂ hstop
  exact ⟨max f1 f2, _, _, _, _, hf1 _ (Nat.le_max_left _ _), hf2 _ (Nat.le_max_right _ _),
    treeMin_ungroups lp rp 1 e, groupAll_ungroups lp rp e, rfl, rfl⟩

/-- non-vacuity: the minimal rendering of `(1 - 2) - 3` has no parentheses, that of `1 - (2 - 3)` has;
`- (1 * 2)` keeps its parentheses, `(- 1) * 2` does not -/
example : (renderMin (kwTok .leftParen 100) (kwTok .rightParen 101) 1
    (.binary (.binary (.lit (.num 1) (numTok 1 0)) .sub (kwTok .minus 1) (.lit (.num 2) (numTok 2 2)))
      .sub (kwTok .minus 3) (.lit (.num 3) (numTok 3 4)))).map (·.off) = [0, 1, 2, 3, 4] := by decide
example : (renderMin (kwTok .leftParen 100) (kwTok .rightParen 101) 1
    (.binary (.lit (.num 1) (numTok 1 0)) .sub (kwTok .minus 1)
      (.binary (.lit (.num 2) (numTok 2 2)) .sub (kwTok .minus 3) (.lit (.num 3) (numTok 3 4))))).map (·.off)
    = [0, 1, 100, 2, 3, 4, 101] := by decide
example : (renderMin (kwTok .leftParen 100) (kwTok .rightParen 101) 1
    (.unary .neg (kwTok .minus 0) (.binary (.lit (.num 1) (numTok 1 1)) .mul (kwTok .star 2)
      (.lit (.num 2) (numTok 2 3))))).map (·.off) = [0, 100, 1, 2, 3, 101] := by decide
example : (renderMin (kwTok .leftParen 100) (kwTok .rightParen 101) 1
    (.binary (.unary .neg (kwTok .minus 0) (.lit (.num 1) (numTok 1 1))) .mul (kwTok .star 2)
      (.lit (.num 2) (numTok 2 3)))).map (·.off) = [0, 1, 2, 3] := by decide

end Aplang
