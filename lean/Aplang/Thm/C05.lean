import Aplang.Proofs.ParserSound
import Aplang.Proofs.ParserEval
/-!
# C05 — operator precedence and associativity are structural properties of every tree the parser returns

* `parse_sound`: whenever `expression` succeeds, the tree it returns is a rendering (`Shape`) of exactly
  the tokens the cursor moved over — nothing is dropped, duplicated or reordered, every token field of the
  tree is the token at that place of the input.
* `parse_respects_ladder`: the tree respects the documented ladder (`RespectsPrec`): assignment < OR < AND
  < `== !=` < `< <= > >=` < `+ -` < `* / MOD` < unary < postfix/primary; binary operators nest to the left,
  assignment to the right. (AND chains nest to the RIGHT in the Rust — `and` calls itself for its right
  operand — which is what the model does and what is stated.)
* `explicit_parens_override`: a parenthesised expression becomes a `.grouping` node, of the tightest level,
  whatever is inside.

No hypothesis on the token list; for every fuel.
-/
namespace Aplang
open P

/-- **soundness of the expression parser** -/
theorem parse_sound (f : Nat) (s : PState) (e : Expr) (s' : PState) (h : expression f s = .ok e s') :
    ∃ consumed, consumed ≠ [] ∧ s'.before = consumed.reverse ++ s.before ∧ s.after = consumed ++ s'.after ∧
      Shape e consumed ∧ s'.inFn = s.inFn ∧ s'.inLoop = s.inLoop := by
  obtain ⟨c, hc, hs, _, _⟩ := (expression_sound f s).elim h
  exact ⟨c, hs.ne_nil, hc.before, hc.after, hs, hc.inFn, hc.inLoop⟩

/-- **every tree the parser returns respects the precedence ladder** -/
theorem parse_respects_ladder (f : Nat) (s : PState) (e : Expr) (s' : PState)
    (h : expression f s = .ok e s') : RespectsPrec e := by
  obtain ⟨_, _, _, hr, _⟩ := (expression_sound f s).elim h
  exact hr

/-- the same for every rung of the ladder, with the level of the returned tree -/
theorem ladder_levels (f : Nat) (s : PState) (e : Expr) (s' : PState) :
    (orE f s = .ok e s' → 2 ≤ level e) ∧ (andE f s = .ok e s' → 3 ≤ level e) ∧
    (∀ lvl, binLevel f lvl s = .ok e s' → lvl.n ≤ level e) ∧ (unary f s = .ok e s' → 8 ≤ level e) ∧
    (access f s = .ok e s' → level e = 9) ∧ (primary f s = .ok e s' → level e = 9) := by
  have ih := exprSound f
  refine ⟨fun h => ?_, fun h => ?_, fun lvl h => ?_, fun h => ?_, fun h => ?_, fun h => ?_⟩
  · obtain ⟨_, _, _, _, hl⟩ := (ih.orE s).elim h; exact hl
  · obtain ⟨⟨_, _, _, _, hl⟩, _⟩ := (ih.andE s).elim h; exact hl
  · obtain ⟨_, _, _, _, hl⟩ := (ih.binLevel lvl s).elim h; exact hl
  · obtain ⟨_, _, _, _, hl⟩ := (ih.unary s).elim h; exact hl
  · obtain ⟨_, _, _, _, hl⟩ := (ih.access s).elim h; exact Nat.le_antisymm (level_le e) hl
  · obtain ⟨⟨_, _, _, _, hl⟩, _⟩ := (ih.primary s).elim h; exact Nat.le_antisymm (level_le e) hl

/-- the levels are 1 … 9, so "`9 ≤ level`" in `RespectsPrec.access` means "is a postfix/primary tree" -/
theorem level_range (e : Expr) : 1 ≤ level e ∧ level e ≤ 9 := ⟨level_pos e, level_le e⟩

/-! ## explicit parentheses -/

/-- **explicit parentheses always override**: if the tokens after a `(` parse as an expression `inner`
— of any level — and a `)` follows, then `primary` returns `.grouping inner`, a tree of the tightest
level 9 (so it is admitted as an operand of every operator, and as the base of an indexing). -/
theorem explicit_parens_override (f : Nat) (s : PState) (lp rp : Token) (r rest : List Token)
    (inner : Expr) (s2 : PState)
    (h : s.after = lp :: r) (hlp : lp.tt = .leftParen)
    (hin : expression f (adv s lp r) = .ok inner s2)
    (h2 : s2.after = rp :: rest) (hrp : rp.tt = .rightParen) :
    primary (f+1) s = .ok (.grouping inner lp rp) (adv s2 rp rest) ∧
    level (.grouping inner lp rp) = 9 ∧ RespectsPrec (.grouping inner lp rp) := by
  refine ⟨?_, rfl, .grouping (parse_respects_ladder _ _ _ _ hin)⟩
  rw [primary_lparen f h hlp, hin]
  simp only [PRes.bind_ok]
  rw [consume_hit _ h2 hrp (by decide)]
  rfl

/-- conversely a `.grouping` node only ever renders as `( … )` around a rendering of its content -/
theorem grouping_only_from_parens {e : Expr} {lp rp : Token} {c : List Token}
    (h : Shape (.grouping e lp rp) c) :
    lp.tt = .leftParen ∧ rp.tt = .rightParen ∧ ∃ ci, c = lp :: (ci ++ [rp]) ∧ Shape e ci := by
  cases h with
  | grouping h1 h2 h3 => exact ⟨h1, h3, _, rfl, h2⟩

/-! ## the ladder excludes the wrong trees -/

/-- a right-nested `/` is not a tree the parser can return -/
example (a b c : Expr) (t t' : Token) : ¬ RespectsPrec (.binary a .div (.binary b .div c t) t') := by
  intro h; cases h; simp [level, opLevel] at *

/-- a unary minus applied to a product is not a tree the parser can return (without parentheses) -/
example (a b : Expr) (t t' : Token) : ¬ RespectsPrec (.unary .neg (.binary a .mul b t) t') := by
  intro h; cases h; simp [level, opLevel] at *

/-- a sum as the operand of a product is not … -/
example (a b c : Expr) (t t' : Token) : ¬ RespectsPrec (.binary (.binary a .add b t) .mul c t') := by
  intro h; cases h; simp [level, opLevel] at *

/-- … unless it is parenthesised -/
example (a b c : Expr) (t t' lp rp : Token) (ha : RespectsPrec a) (hb : RespectsPrec b) (hc : RespectsPrec c)
    (hla : 6 ≤ level a) (hlb : 7 ≤ level b) (hlc : 8 ≤ level c) :
    RespectsPrec (.binary (.grouping (.binary a .add b t) lp rp) .mul c t') :=
  .binary (.grouping (.binary ha hb hla hlb)) hc (by simp [level, opLevel]) (by simp [opLevel]; omega)

/-- a left-nested AND chain is not a tree the parser returns (the model nests AND to the right) -/
example (a b c : Expr) (t t' : Token) : ¬ RespectsPrec (.logical (.logical a .and b t) .and c t') := by
  intro h; cases h; simp [level, logLevel] at *

/-! ## non-vacuity (kernel-evaluated) -/

def numTok (n : Float) (off : Nat) : Token := ⟨.number, [], .num n, off, 1⟩
def kwTok (tt : TT) (off : Nat) : Token := ⟨tt, [], .none, off, 1⟩
def idTok (name : Str) (off : Nat) : Token := ⟨.identifier, name, .none, off, 1⟩
def startOn (ts : List Token) : PState := ⟨[], ts, false, false⟩

/-- `1 - 2 - 3` is `(1 - 2) - 3` -/
example : (match expression 40 (startOn [numTok 1 0, kwTok .minus 1, numTok 2 2, kwTok .minus 3, numTok 3 4, kwTok .eof 5]) with
    | .ok (.binary (.binary (.lit _ a) .sub (.lit _ b) _) .sub (.lit _ c) _) s' =>
      a.off == 0 && b.off == 2 && c.off == 4 && s'.after.length == 1
    | _ => false) = true := by decide

/-- `1 + 2 * 3` is `1 + (2 * 3)` -/
example : (match expression 40 (startOn [numTok 1 0, kwTok .plus 1, numTok 2 2, kwTok .star 3, numTok 3 4, kwTok .eof 5]) with
    | .ok (.binary (.lit _ a) .add (.binary (.lit _ b) .mul (.lit _ c) _) _) s' =>
      a.off == 0 && b.off == 2 && c.off == 4 && s'.after.length == 1
    | _ => false) = true := by decide

/-- `- 1 * 2` is `(- 1) * 2` -/
example : (match expression 40 (startOn [kwTok .minus 0, numTok 1 1, kwTok .star 2, numTok 2 3, kwTok .eof 4]) with
    | .ok (.binary (.unary .neg (.lit _ a) _) .mul (.lit _ b) _) s' => a.off == 1 && b.off == 3 && s'.after.length == 1
    | _ => false) = true := by decide

/-- `a AND b AND c` is `a AND (b AND c)` -/
example : (match expression 40 (startOn [idTok ['a'] 0, kwTok .and_ 1, idTok ['b'] 2, kwTok .and_ 3, idTok ['c'] 4, kwTok .eof 5]) with
    | .ok (.logical (.var _ a) .and (.logical (.var _ b) .and (.var _ c) _) _) s' =>
      a.off == 0 && b.off == 2 && c.off == 4 && s'.after.length == 1
    | _ => false) = true := by decide

/-- `a OR b OR c` is `(a OR b) OR c` -/
example : (match expression 40 (startOn [idTok ['a'] 0, kwTok .or_ 1, idTok ['b'] 2, kwTok .or_ 3, idTok ['c'] 4, kwTok .eof 5]) with
    | .ok (.logical (.logical (.var _ a) .or (.var _ b) _) .or (.var _ c) _) s' =>
      a.off == 0 && b.off == 2 && c.off == 4 && s'.after.length == 1
    | _ => false) = true := by decide

/-- `( 1 + 2 ) * 3`: the parentheses win -/
example : (match expression 40 (startOn [kwTok .leftParen 0, numTok 1 1, kwTok .plus 2, numTok 2 3, kwTok .rightParen 4, kwTok .star 5, numTok 3 6, kwTok .eof 7]) with
    | .ok (.binary (.grouping (.binary (.lit _ a) .add (.lit _ b) _) _ _) .mul (.lit _ c) _) s' =>
      a.off == 1 && b.off == 3 && c.off == 6 && s'.after.length == 1
    | _ => false) = true := by decide

/-- `x <- y <- 1` is `x <- (y <- 1)` -/
example : (match expression 40 (startOn [idTok ['x'] 0, kwTok .arrow 1, idTok ['y'] 2, kwTok .arrow 3, numTok 1 4, kwTok .eof 5]) with
    | .ok (.assign _ a (.assign _ b (.lit _ c) _) _) s' => a.off == 0 && b.off == 2 && c.off == 4 && s'.after.length == 1
    | _ => false) = true := by decide

end Aplang
