import Aplang.Spec.FinMap
import Aplang.Proofs.FloatEq
/-!
# C16 — MAP behaves like an ideal finite map

Model: `Model/MapCell.lean` (association list, first match by `keyEq`, old key kept on overwrite).
Spec: `Spec/FinMap.lean` (`FinMap`, `update eq`, histories `Op`, `runSpec eq`, `runModel`).

Main results
* `map_refines_keyEq : runModel ops = runSpec keyEq ops` — unconditional, for Rust's `Eq for Value`.
* `map_refines_partial : EpsSeparated (keysOf ops) → runModel ops = runSpec langEq ops` — for the language's
  own `==` (the wording of C16).  `_partial`: the hypothesis is necessary, see the counterexample histories
  `hist_eps`, `hist_inf` below.
* `insert_noDup`, `run_noDup`, `keys_values_exact` — MAP_KEYS / MAP_VALUES are exactly the stored pairs.
* `not_a_map_is_error` — a non-map first argument is a runtime error.
* `findH?_eq_find?` / `hashFixed_consistent` / `hashOrig_inconsistent` — the hash-consistency assumption: it holds for
  the fixed `Hash` (`-0.0` hashed as `0.0`) and fails for the shipped one.
-/
namespace Aplang.C16
open Aplang Aplang.MapCell Aplang.Spec

/-! ## Unfolding lemmas -/

theorem find?_nil (k : Value) : find? [] k = none := rfl
theorem find?_cons_pos {e : Value × Value} {k : Value} (m : AMap) (h : keyEq e.1 k = true) :
    find? (e :: m) k = some e := by simp [find?, h]
theorem find?_cons_neg {e : Value × Value} {k : Value} (m : AMap) (h : keyEq e.1 k = false) :
    find? (e :: m) k = find? m k := by simp [find?, h]
theorem insert_nil (k v : Value) : MapCell.insert [] k v = ([(k, v)], .null) := rfl
theorem insert_cons_pos {e : Value × Value} {k : Value} (m : AMap) (v : Value) (h : keyEq e.1 k = true) :
    MapCell.insert (e :: m) k v = ((e.1, v) :: m, e.2) := by simp [MapCell.insert, h]
theorem insert_cons_neg {e : Value × Value} {k : Value} (m : AMap) (v : Value) (h : keyEq e.1 k = false) :
    MapCell.insert (e :: m) k v = (e :: (MapCell.insert m k v).1, (MapCell.insert m k v).2) := by
  simp [MapCell.insert, h]

/-! ## Representation invariant -/

/-- no two entries with `keyEq`-equal keys (what `HashMap` maintains, given `Hash` consistent with `Eq`).
Two NaN keys are *not* `keyEq`-equal, so several NaN entries may coexist — as in the Rust `HashMap`. -/
def NoDup (m : AMap) : Prop := (keys m).Pairwise (fun a b => keyEq a b = false)

theorem noDup_nil : NoDup [] := List.Pairwise.nil

theorem find?_none_iff (m : AMap) (k : Value) : find? m k = none ↔ ∀ k' ∈ keys m, keyEq k' k = false := by
  induction m with
  | nil => simp [find?, keys]
  | cons e m ih =>
    cases h : keyEq e.1 k
    · rw [find?_cons_neg m h, ih]; simp [keys, h]
    · rw [find?_cons_pos m h]; simp [keys, h]

theorem keys_insert (m : AMap) (k v : Value) :
    keys (MapCell.insert m k v).1 = if (find? m k).isSome then keys m else keys m ++ [k] := by
  induction m with
  | nil => simp [MapCell.insert, find?, keys]
  | cons e m ih =>
    cases h : keyEq e.1 k
    · rw [find?_cons_neg m h, insert_cons_neg m v h]
      simp only [keys, List.map_cons] at ih ⊢
      rw [ih]; split <;> simp
    · rw [find?_cons_pos m h, insert_cons_pos m v h]; simp [keys]

theorem insert_noDup (m : AMap) (k v : Value) (h : NoDup m) : NoDup (MapCell.insert m k v).1 := by
  unfold NoDup at *
  rw [keys_insert]
  split
  · exact h
  · rename_i hn
    have hn' : find? m k = none := by simpa using hn
    rw [List.pairwise_append]
    refine ⟨h, List.pairwise_singleton _ _, ?_⟩
    intro a ha b hb
    have hb : b = k := by simpa using hb
    rw [hb]
    exact (find?_none_iff m k).1 hn' a ha

/-! ## Abstraction function and per-operation refinement — every key, NaN included -/

/-- the ideal map a cell stands for -/
def abs (m : AMap) : FinMap := fun k => (find? m k).map (·.2)

theorem abs_nil : abs [] = FinMap.empty := rfl
theorem abs_cons_pos {e : Value × Value} {k : Value} (m : AMap) (h : keyEq e.1 k = true) :
    abs (e :: m) k = some e.2 := by simp only [abs, find?_cons_pos m h, Option.map_some]
theorem abs_cons_neg {e : Value × Value} {k : Value} (m : AMap) (h : keyEq e.1 k = false) :
    abs (e :: m) k = abs m k := by simp only [abs, find?_cons_neg m h]
theorem abs_eq_none_iff (m : AMap) (k : Value) : abs m k = none ↔ find? m k = none := by
  simp [abs]

theorem get_refines (m : AMap) (k : Value) : MapCell.get m k = (abs m k).getD .null := by
  unfold MapCell.get abs; cases find? m k <;> rfl

theorem contains_refines (m : AMap) (k : Value) : containsKey m k = (abs m k).isSome := by
  unfold containsKey abs; cases find? m k <;> rfl

/-- MAP_INSERT returns the value previously stored under an equal key, or NULL -/
theorem insert_result_refines (m : AMap) (k v : Value) : (MapCell.insert m k v).2 = (abs m k).getD .null := by
  induction m with
  | nil => rfl
  | cons e m ih =>
    unfold abs at ih ⊢
    cases h : keyEq e.1 k
    · rw [find?_cons_neg m h, insert_cons_neg m v h]; exact ih
    · rw [find?_cons_pos m h, insert_cons_pos m v h]; rfl

/-- … and afterwards the cell stands for the updated ideal map, at every key `k'`.
No reflexivity of `keyEq` is used, only symmetry and transitivity: for a NaN key `k` both sides are `abs m k'`
(`update` touches the `keyEq`-class of `k`, which is empty; `MapCell.insert` appends an entry nothing finds).
The invariant `NoDup` is not needed either: lookup is first-match and equal keys have the same first match. -/
theorem insert_abs_refines (m : AMap) (k v : Value) (k' : Value) :
    abs (MapCell.insert m k v).1 k' = FinMap.update keyEq (abs m) k v k' := by
  induction m with
  | nil =>
    simp only [insert_nil, abs, FinMap.update]
    cases h : keyEq k k'
    · rw [find?_cons_neg _ h]; simp [find?]
    · rw [find?_cons_pos _ h]; simp
  | cons e m ih =>
    simp only [abs, FinMap.update] at ih ⊢
    cases h : keyEq e.1 k
    · rw [insert_cons_neg m v h]
      cases h1 : keyEq e.1 k'
      · rw [find?_cons_neg _ h1, find?_cons_neg _ h1]; exact ih
      · have : keyEq k k' = false := by
          cases h2 : keyEq k k'
          · rfl
          · rw [keyEq_trans h1 (keyEq_symm h2)] at h; cases h
        rw [find?_cons_pos _ h1, find?_cons_pos _ h1]; simp [this]
    · rw [insert_cons_pos m v h, ← keyEq_congr_left h k']
      cases h1 : keyEq e.1 k'
      · rw [find?_cons_neg _ (e := (e.1, v)) h1, find?_cons_neg _ h1]; simp
      · rw [find?_cons_pos _ (e := (e.1, v)) h1]; simp

theorem insert_refines (m : AMap) (k v : Value) :
    (MapCell.insert m k v).2 = (abs m k).getD .null ∧
    ∀ k', abs (MapCell.insert m k v).1 k' = FinMap.update keyEq (abs m) k v k' :=
  ⟨insert_result_refines m k v, insert_abs_refines m k v⟩

theorem keyEq_nan_left {k : Value} (h : isNaNKey k = true) (k' : Value) : keyEq k k' = false := by
  cases h' : keyEq k k'
  · rfl
  · have := (keyEq_refl_iff k).1 (keyEq_refl_of_left h'); rw [h] at this; cases this

theorem keyEq_nan_right {k : Value} (h : isNaNKey k = true) (k' : Value) : keyEq k' k = false := by
  cases h' : keyEq k' k
  · rfl
  · have := keyEq_nan_left h k'; rw [keyEq_symm h'] at this; cases this

theorem abs_nan (m : AMap) {k : Value} (h : isNaNKey k = true) : abs m k = none := by
  induction m with
  | nil => rfl
  | cons e m ih =>
    simp only [abs] at ih ⊢
    rw [find?_cons_neg _ (keyEq_nan_right h e.1)]; exact ih

/-- a NaN key is never found again, in the model and in the ideal map alike -/
theorem nan_key_unobservable (m : AMap) (k v : Value) (h : isNaNKey k = true) :
    (MapCell.insert m k v).2 = .null ∧ (∀ k', abs (MapCell.insert m k v).1 k' = abs m k') ∧
    MapCell.get (MapCell.insert m k v).1 k = .null ∧ containsKey (MapCell.insert m k v).1 k = false := by
  refine ⟨?_, ?_, ?_, ?_⟩
  · rw [insert_result_refines, abs_nan m h]; rfl
  · intro k'; rw [insert_abs_refines]; simp [FinMap.update, keyEq_nan_left h]
  · rw [get_refines, abs_nan _ h]; rfl
  · rw [contains_refines, abs_nan _ h]; rfl

/-! ## Histories on any number of maps -/

/-- frame: a call on map `op.map` leaves every other map `j` as it was (maps do not affect one another) -/
theorem modelStep_frame (σ : Store) (op : Op) (j : Nat) (h : j ≠ op.map) : (modelStep σ op).1 j = σ j := by
  cases op <;> simp_all [modelStep, setAt, Op.map]

theorem specStep_frame (eq) (τ : SpecStore) (op : Op) (j : Nat) (h : j ≠ op.map) : (specStep eq τ op).1 j = τ j := by
  cases op <;> simp_all [specStep, setAt, Op.map]

/-- simulation relation between the model store and the ideal store -/
def Rel (σ : Store) (τ : SpecStore) : Prop := ∀ i k, abs (σ i) k = τ i k

theorem rel_empty : Rel Store.empty SpecStore.empty := fun _ _ => rfl

theorem step_refines (σ : Store) (τ : SpecStore) (h : Rel σ τ) (op : Op) :
    (modelStep σ op).2 = (specStep keyEq τ op).2 ∧ Rel (modelStep σ op).1 (specStep keyEq τ op).1 := by
  cases op with
  | insert m k v =>
    refine ⟨?_, ?_⟩
    · simp only [modelStep, specStep]; rw [insert_result_refines, h]
    · intro i k'
      simp only [modelStep, specStep, setAt]
      split
      · rw [insert_abs_refines]; simp only [FinMap.update]; rw [h]
      · exact h i k'
  | get m k => exact ⟨by simp only [modelStep, specStep]; rw [get_refines, h], h⟩
  | contains m k => exact ⟨by simp only [modelStep, specStep]; rw [contains_refines, h], h⟩

theorem run_refines (ops : List Op) : ∀ (σ : Store) (τ : SpecStore), Rel σ τ →
    (runModelFrom σ ops).2 = (runSpecFrom keyEq τ ops).2 ∧
    Rel (runModelFrom σ ops).1 (runSpecFrom keyEq τ ops).1 := by
  induction ops with
  | nil => intro σ τ h; exact ⟨rfl, h⟩
  | cons op ops ih =>
    intro σ τ h
    obtain ⟨h1, h2⟩ := step_refines σ τ h op
    obtain ⟨h3, h4⟩ := ih _ _ h2
    simp only [runModelFrom, runSpecFrom]
    exact ⟨by rw [h1, h3], h4⟩

/-- **C16 for Rust's key equality.** Every result of every history of MAP_INSERT / MAP_GET / MAP_CONTAINS_KEY
on any number of maps equals the result on ideal finite maps keyed by `keyEq`. No hypothesis. -/
theorem map_refines_keyEq (ops : List Op) : runModel ops = runSpec keyEq ops :=
  (run_refines ops _ _ rel_empty).1

/-- the invariant holds in every map after every history -/
theorem run_noDup (ops : List Op) : ∀ (σ : Store), (∀ i, NoDup (σ i)) → ∀ i, NoDup ((runModelFrom σ ops).1 i) := by
  induction ops with
  | nil => intro σ h; exact h
  | cons op ops ih =>
    intro σ h
    simp only [runModelFrom]
    apply ih
    intro i
    cases op with
    | insert m k v =>
      simp only [modelStep, setAt]; split
      · exact insert_noDup _ _ _ (h m)
      · exact h i
    | get m k => exact h i
    | contains m k => exact h i

/-! ## MAP_KEYS / MAP_VALUES -/

/-- `keys` and `values` are exactly the stored pairs, position by position -/
theorem zip_keys_values (m : AMap) : (keys m).zip (values m) = m := by
  induction m with
  | nil => rfl
  | cons e m ih => simp only [keys, values, List.map_cons, List.zip_cons_cons] at ih ⊢; rw [ih]

theorem keys_values_length (m : AMap) : (keys m).length = m.length ∧ (values m).length = m.length := by
  simp [keys, values]

/-- the stored keys cover exactly the support of the ideal map -/
theorem keys_support (m : AMap) (k : Value) : (∃ k' ∈ keys m, keyEq k' k = true) ↔ (abs m k).isSome = true := by
  have := find?_none_iff m k
  unfold abs
  cases h : find? m k
  · simp only [h, true_iff] at this
    simp; intro k' hk'; simpa using this k' hk'
  · simp only [h, reduceCtorEq, false_iff] at this
    simp only [Option.map_some, Option.isSome_some, iff_true]
    apply Classical.byContradiction; intro hn; apply this
    intro k' hk'; cases h' : keyEq k' k
    · rfl
    · exact absurd ⟨k', hk', h'⟩ hn

/-- each key class of the ideal map's support occurs exactly once among the stored keys, others not at all -/
theorem keys_count (m : AMap) (h : NoDup m) (k : Value) :
    (keys m).countP (fun k' => keyEq k' k) = if (abs m k).isSome then 1 else 0 := by
  induction m with
  | nil => rfl
  | cons e m ih =>
    unfold NoDup at h ih
    simp only [keys, List.map_cons, List.pairwise_cons] at h ih ⊢
    have ih := ih h.2
    rw [List.countP_cons]
    cases h1 : keyEq e.1 k
    · rw [abs_cons_neg _ h1]; simpa using ih
    · have : abs m k = none := by
        rw [abs_eq_none_iff, find?_none_iff]; intro k' hk'
        rw [← keyEq_congr_right h1 k']
        cases h2 : keyEq k' e.1
        · rfl
        · have := h.1 k' hk'; rw [keyEq_symm h2] at this; cases this
      rw [abs_cons_pos _ h1]
      rw [this] at ih
      simpa using ih

/-- the stored values are exactly the ideal map's values: an entry `(k', v)` anywhere in the cell is what the
ideal map holds at every key equal to `k'`, and every value of the ideal map is stored -/
theorem values_exact (m : AMap) (h : NoDup m) (k v : Value) :
    (∃ k', (k', v) ∈ m ∧ keyEq k' k = true) ↔ abs m k = some v := by
  induction m with
  | nil => simp [abs, find?]
  | cons e m ih =>
    unfold NoDup at h ih
    simp only [keys, List.map_cons, List.pairwise_cons] at h ih
    have ih := ih h.2
    simp only [abs] at ih ⊢
    cases h1 : keyEq e.1 k
    · rw [find?_cons_neg _ h1, ← ih]
      constructor
      · rintro ⟨k', hm, hk⟩
        rcases List.mem_cons.1 hm with heq | hm
        · cases heq; rw [h1] at hk; cases hk
        · exact ⟨k', hm, hk⟩
      · rintro ⟨k', hm, hk⟩; exact ⟨k', List.mem_cons_of_mem _ hm, hk⟩
    · rw [find?_cons_pos _ h1]
      simp only [Option.map_some, Option.some.injEq]
      constructor
      · rintro ⟨k', hm, hk⟩
        rcases List.mem_cons.1 hm with heq | hm
        · rw [← heq]
        · have hk'mem : k' ∈ List.map (·.1) m := List.mem_map.2 ⟨(k', v), hm, rfl⟩
          have := h.1 k' hk'mem
          rw [keyEq_trans h1 (keyEq_symm hk)] at this; cases this
      · intro hv; exact ⟨e.1, by rw [← hv]; exact List.mem_cons_self, h1⟩


/-- **MAP_KEYS / MAP_VALUES after any history**, for map number `i`: the cell satisfies the invariant; keys and
values are the stored pairs position by position; each key class in the support of the ideal map occurs exactly
once in `keys` and no other key that equals itself occurs; the stored values are exactly the ideal map's. -/
theorem keys_values_exact (ops : List Op) (i : Nat) :
    let m := (runModelFrom Store.empty ops).1 i
    let f := (runSpecFrom keyEq SpecStore.empty ops).1 i
    NoDup m ∧ (keys m).zip (values m) = m ∧
    (∀ k, (keys m).countP (fun k' => keyEq k' k) = if (f k).isSome then 1 else 0) ∧
    (∀ k, (∃ k' ∈ keys m, keyEq k' k = true) ↔ (f k).isSome = true) ∧
    (∀ k v, (∃ k', (k', v) ∈ m ∧ keyEq k' k = true) ↔ f k = some v) := by
  intro m f
  have hnd : NoDup m := run_noDup ops _ (fun _ => noDup_nil) i
  have hrel : ∀ k, abs m k = f k := (run_refines ops _ _ rel_empty).2 i
  refine ⟨hnd, zip_keys_values m, ?_, ?_, ?_⟩
  · intro k; rw [← hrel]; exact keys_count m hnd k
  · intro k; rw [← hrel]; exact keys_support m k
  · intro k v; rw [← hrel]; exact values_exact m hnd k v

/-! ## Bridge to "keyed by the language's own equality"

`langEq` on numbers is `|a - b| < ε` (not transitive); `keyEq` is IEEE `==`.  They agree on a pair of values
exactly when `separated` holds. -/

/-- the pairs of keys on which the language's `==` and Rust's `Eq` agree:
* two numbers: one of them NaN (both equalities false), or IEEE-equal and finite (`inf == inf` is FALSE for the
  language because `inf - inf = NaN`), or IEEE-different and not within ε (`(a - b).abs < ε` false — this
  includes `±inf` against anything else);
* two list / native-object references: different objects (the language's `==` is `false` on every pair of lists
  or objects, even a list and itself; C16 only speaks about number, string, boolean and NULL keys);
* anything else (strings, booleans, NULL, mixed kinds): always. -/
def separated : Value → Value → Bool
  | .num a, .num b =>
      a.isNaN || b.isNaN
      || ((a == b) && a.isFinite)
      || (!(a == b) && !decide ((a - b).abs < f64Epsilon))
  | .list a, .list b => a != b
  | .obj a, .obj b => a != b
  | _, _ => true

theorem langEq_eq_keyEq_iff_separated (a b : Value) : langEq a b = keyEq a b ↔ separated a b = true := by
  cases a <;> cases b <;> simp [separated, langEq, keyEq]
  rename_i a b
  cases hna : a.isNaN
  · cases hnb : b.isNaN
    · cases hab : (a == b)
      · simp
      · cases hf : a.isFinite
        · simp [float_not_langEq_of_beq_inf a b hab hf]
        · have := float_langEq_of_beq_finite a b hab hf
          simp at this; simp [this]
    · have h1 := float_beq_nan_right a b hnb
      have h2 := float_langEq_nan_right a b hnb
      simp at h2; simp [h1, h2]
  · have h1 := float_beq_nan_left a b hna
    have h2 := float_langEq_nan_left a b hna
    simp at h2; simp [h1, h2]

theorem langEq_eq_keyEq_of_separated {a b : Value} (h : separated a b = true) : langEq a b = keyEq a b :=
  (langEq_eq_keyEq_iff_separated a b).2 h

/-- every pair of keys (a key with itself included) is `separated` -/
def EpsSeparated (ks : List Value) : Prop := ∀ a ∈ ks, ∀ b ∈ ks, separated a b = true

instance (ks : List Value) : Decidable (EpsSeparated ks) := by unfold EpsSeparated; infer_instance

/-- the ideal semantics only consults `eq` on the keys of the history -/
theorem runSpecFrom_congr (eq1 eq2 : Value → Value → Bool) (K : List Value)
    (hK : ∀ a ∈ K, ∀ b ∈ K, eq1 a b = eq2 a b) (ops : List Op) (hops : ∀ op ∈ ops, op.key ∈ K) :
    ∀ τ1 τ2 : SpecStore, (∀ i, ∀ k ∈ K, τ1 i k = τ2 i k) →
      (runSpecFrom eq1 τ1 ops).2 = (runSpecFrom eq2 τ2 ops).2 := by
  induction ops with
  | nil => intros; rfl
  | cons op ops ih =>
    intro τ1 τ2 h
    have hop : op.key ∈ K := hops op List.mem_cons_self
    have ih := ih (fun o ho => hops o (List.mem_cons_of_mem _ ho))
    simp only [runSpecFrom]
    cases op with
    | insert m k v =>
      simp only [Op.key] at hop
      simp only [specStep]
      rw [h m k hop]
      congr 1
      apply ih
      intro i k' hk'
      simp only [setAt]; split
      · simp only [FinMap.update]; rw [hK k hop k' hk', h m k' hk']
      · exact h i k' hk'
    | get m k =>
      simp only [Op.key] at hop
      simp only [specStep]; rw [h m k hop]; congr 1; exact ih _ _ h
    | contains m k =>
      simp only [Op.key] at hop
      simp only [specStep]; rw [h m k hop]; congr 1; exact ih _ _ h

theorem runSpec_congr (eq1 eq2 : Value → Value → Bool) (ops : List Op)
    (h : ∀ a ∈ keysOf ops, ∀ b ∈ keysOf ops, eq1 a b = eq2 a b) : runSpec eq1 ops = runSpec eq2 ops :=
  runSpecFrom_congr eq1 eq2 (keysOf ops) h ops (fun op ho => List.mem_map.2 ⟨op, ho, rfl⟩) _ _ (fun _ _ _ => rfl)


/-- **C16 as worded ("keyed by the language's own equality").**
`_partial`: needs `EpsSeparated (keysOf ops)` — the keys of the history are pairwise either NaN, IEEE-equal and
finite, or not within ε; and no list/object keys.  Without it the statement is false (`hist_eps`, `hist_inf`). -/
theorem map_refines_partial (ops : List Op) (h : EpsSeparated (keysOf ops)) :
    runModel ops = runSpec langEq ops := by
  rw [map_refines_keyEq]
  exact runSpec_congr keyEq langEq ops (fun a ha b hb => (langEq_eq_keyEq_of_separated (h a ha b hb)).symm)

/-! ## Not a map ⇒ runtime error -/

/-- C16, last clause: every MAP_* function rejects a first argument that is not a map object -/
theorem not_a_map_is_error (isMap : Nat → Bool) (v : Value) :
    (∃ e, mapArg isMap v = .error e) ↔ ¬ ∃ a, v = .obj a ∧ isMap a = true := by
  cases v <;> simp [mapArg]
  rename_i a; cases h : isMap a <;> simp

theorem mapArg_ok (isMap : Nat → Bool) (v : Value) (a : Nat) :
    mapArg isMap v = .ok a ↔ v = .obj a ∧ isMap a = true := by
  cases v <;> simp [mapArg]
  rename_i b; cases h : isMap b <;> simp
  · intro hb; rw [hb] at h; simp [h]
  · intro hb; rw [← hb]; exact h

/-! ## The hash-consistency assumption -/

/-- what `impl Hash for Value` feeds the hasher -/
inductive HashIn
  | u8 (n : Nat) | u64 (n : UInt64) | str (s : Str) | tagged (tag addr : Nat)
deriving DecidableEq

/-- src: value.rs `impl Hash for Value` as shipped: numbers write `n.to_bits()` -/
def hashOrig : Value → HashIn
  | .null => .u8 0
  | .num n => .u64 n.toBits
  | .bool b => .u8 (if b then 1 else 0)
  | .str s => .str s
  | .list a => .tagged 4 a
  | .obj a => .tagged 5 a

/-- the repository fix: `-0.0` hashes as `0.0` -/
def hashFixed : Value → HashIn
  | .num n => .u64 (if n == 0.0 then 0 else n.toBits)
  | v => hashOrig v

/-- `HashMap` lookup: an entry is found iff hash **and** `Eq` agree -/
def findH? (h : Value → HashIn) : AMap → Value → Option (Value × Value)
  | [], _ => none
  | e :: m, k => if h e.1 = h k ∧ keyEq e.1 k = true then some e else findH? h m k

/-- under a hash consistent with `Eq`, hashed lookup is the model's `find?` -/
theorem findH?_eq_find? (h : Value → HashIn) (hc : ∀ a b, keyEq a b = true → h a = h b)
    (m : AMap) (k : Value) : findH? h m k = find? m k := by
  induction m with
  | nil => rfl
  | cons e m ih =>
    cases hk : keyEq e.1 k
    · rw [find?_cons_neg m hk]; simp [findH?, hk, ih]
    · rw [find?_cons_pos m hk]; simp [findH?, hk, hc _ _ hk]

/-- the fixed `Hash` IS consistent with `Eq`: IEEE-equal numbers have the same bits unless both are zeros
(Lean's `Float.toBits` canonicalises NaN payloads, Rust's `to_bits` does not — irrelevant here, a NaN is `Eq` to nothing) -/
theorem hashFixed_consistent (a b : Value) (h : keyEq a b = true) : hashFixed a = hashFixed b := by
  cases a <;> cases b <;> simp_all [keyEq, hashFixed, hashOrig]
  rename_i a b
  rcases float_toBits_eq_of_beq a b h with hb | ⟨ha, hb⟩
  · have : (a == 0.0) = (b == 0.0) := by
      cases h1 : (a == 0.0) <;> cases h2 : (b == 0.0) <;> try rfl
      · rw [float_beq_trans _ _ _ h h2] at h1; cases h1
      · rw [float_beq_trans _ _ _ (float_beq_symm _ _ h) h1] at h2; cases h2
    rw [this, hb]
  · simp [ha, hb]

/-- so with the fix, `HashMap` lookup is exactly the model's `find?` -/
theorem findH?_hashFixed (m : AMap) (k : Value) : findH? hashFixed m k = find? m k :=
  findH?_eq_find? hashFixed hashFixed_consistent m k

/-- the shipped `Hash` is NOT consistent with `Eq`: `0.0 == -0.0` but the bit patterns differ … -/
theorem hashOrig_inconsistent :
    keyEq (.num 0.0) (.num (-0.0)) = true ∧ hashOrig (.num 0.0) ≠ hashOrig (.num (-0.0)) := by decide

/-- … so `MAP_INSERT(m, 0, "a")` then `MAP_GET(m, -0)` finds nothing in the shipped code, although the ideal
map (and the model, and the fixed hash) finds `"a"` -/
example : findH? hashOrig [(.num 0.0, .str ['a'])] (.num (-0.0)) = none
    ∧ findH? hashFixed [(.num 0.0, .str ['a'])] (.num (-0.0)) = some (.num 0.0, .str ['a'])
    ∧ find? [(.num 0.0, .str ['a'])] (.num (-0.0)) = some (.num 0.0, .str ['a']) := by
  refine ⟨by decide, by rfl, by rfl⟩

/-! ## Necessity of the hypothesis of `map_refines_partial` (kernel-checked) -/

def nan : Float := 0.0 / 0.0
def inf : Float := 1.0 / 0.0

/-- `0.1 + 0.2` and `0.3` are equal for the language but different map keys -/
example : langEq (.num (0.1 + 0.2)) (.num 0.3) = true ∧ keyEq (.num (0.1 + 0.2)) (.num 0.3) = false := by decide

/-- `inf` is a perfectly good map key but not equal to itself for the language (`inf - inf = NaN`) -/
example : langEq (.num inf) (.num inf) = false ∧ keyEq (.num inf) (.num inf) = true := by decide

example : separated (.num (0.1 + 0.2)) (.num 0.3) = false ∧ separated (.num inf) (.num inf) = false := by decide

def sv (x : String) : Value := .str x.toList

/-- `m ← MAP(); MAP_INSERT(m, 0.1 + 0.2, "a"); MAP_GET(m, 0.3)` -/
def hist_eps : List Op := [.insert 0 (.num (0.1 + 0.2)) (sv "a"), .get 0 (.num 0.3)]

/-- the implementation answers NULL, a map keyed by the language's `==` answers "a" -/
example : runModel hist_eps = [.null, .null] ∧ runSpec langEq hist_eps = [.null, sv "a"] := ⟨by rfl, by rfl⟩
example : runModel hist_eps ≠ runSpec langEq hist_eps := by
  rw [show runModel hist_eps = [.null, .null] from rfl, show runSpec langEq hist_eps = [.null, sv "a"] from rfl]
  simp [sv]

/-- `MAP_INSERT(m, inf, "a"); MAP_GET(m, inf)` -/
def hist_inf : List Op := [.insert 0 (.num inf) (sv "a"), .get 0 (.num inf)]

/-- the implementation answers "a", a map keyed by the language's `==` never finds `inf` again -/
example : runModel hist_inf = [.null, sv "a"] ∧ runSpec langEq hist_inf = [.null, .null] := ⟨by rfl, by rfl⟩
example : runModel hist_inf ≠ runSpec langEq hist_inf := by
  rw [show runModel hist_inf = [.null, sv "a"] from rfl, show runSpec langEq hist_inf = [.null, .null] from rfl]
  simp [sv]

/-! ## Non-vacuity: a history on two maps with keys `1`, `1.0`, `0`, `-0.0`, `"1"`, `TRUE`, `NULL`, NaN -/

def hist1 : List Op :=
  [ .insert 0 (.num 1) (sv "a"), .insert 0 (.num 1.0) (sv "b"), .get 0 (.num 1),
    .insert 0 (.num 0) (sv "z"), .get 0 (.num (-0.0)), .contains 0 (.num (-0.0)),
    .insert 1 (sv "1") (sv "s"), .get 1 (.num 1), .get 0 (sv "1"),
    .insert 0 (.bool true) (sv "t"), .insert 0 .null (sv "n"), .get 0 (.bool true), .get 0 .null,
    .insert 0 (.num nan) (sv "x"), .get 0 (.num nan), .contains 0 (.num nan), .insert 0 (.num nan) (sv "y"),
    .contains 1 (sv "1"), .contains 1 .null, .get 0 (.num 1.0) ]

/-- the hypothesis of `map_refines_partial` holds for it … -/
example : EpsSeparated (keysOf hist1) := by decide

/-- … and the results are the expected ones: `1` and `1.0` are one key, `0` and `-0.0` are one key, `"1"` / `TRUE` /
`NULL` are keys of their own, map 1 is independent of map 0, a NaN key is never found -/
example : runModel hist1 =
  [ .null, sv "a", sv "b",
    .null, sv "z", .bool true,
    .null, .null, .null,
    .null, .null, sv "t", sv "n",
    .null, .null, .bool false, .null,
    .bool true, .bool false, sv "b" ] := by rfl

example : runSpec langEq hist1 = runModel hist1 := (map_refines_partial hist1 (by decide)).symm

/-- MAP_KEYS / MAP_VALUES of map 0 afterwards: the overwritten key keeps its first spelling, and **each**
insertion under NaN left an entry (`HashMap` does the same: a NaN key is never `Eq` to a stored one) -/
example : (keys ((runModelFrom Store.empty hist1).1 0)).length = 6
    ∧ values ((runModelFrom Store.empty hist1).1 0) = [sv "b", sv "z", sv "t", sv "n", sv "x", sv "y"] := ⟨by rfl, by rfl⟩

/-! ## Axiom audit -/

#print axioms insert_noDup
#print axioms noDup_nil
#print axioms get_refines
#print axioms contains_refines
#print axioms insert_refines
#print axioms nan_key_unobservable
#print axioms modelStep_frame
#print axioms specStep_frame
#print axioms step_refines
#print axioms run_refines
#print axioms map_refines_keyEq
#print axioms run_noDup
#print axioms zip_keys_values
#print axioms keys_support
#print axioms keys_count
#print axioms values_exact
#print axioms keys_values_exact
#print axioms langEq_eq_keyEq_iff_separated
#print axioms langEq_eq_keyEq_of_separated
#print axioms runSpec_congr
#print axioms map_refines_partial
#print axioms not_a_map_is_error
#print axioms mapArg_ok
#print axioms findH?_eq_find?
#print axioms hashFixed_consistent
#print axioms findH?_hashFixed
#print axioms hashOrig_inconsistent
#print axioms keyEq_symm
#print axioms keyEq_trans
#print axioms keyEq_refl_of
#print axioms float_beq_symm
#print axioms float_beq_trans
#print axioms float_langEq_of_beq_finite
#print axioms float_not_langEq_of_beq_inf
#print axioms float_toBits_eq_of_beq

end Aplang.C16
