import Aplang.Thm.C15
import Aplang.Proofs.FloatTextMain
import Aplang.Proofs.FloatTextShortest
/-!
# C15b — DISPLAY prints a decimal that reads back as the same double: `display_reads_back`, proved

C15 left one statement open, validated on instances and by a 3-million-pattern differential run only:

    display_reads_back : ∀ x : Float, F64.parse (F64.fmt x) = some x

It is proved here **for every `Float`**, from the definitions of `Prim/F64.lean` and of the toolchain's logical
`Float` model (`Init/Data/Float/Model`, `Init/Data/OfScientific.lean`) — no hypothesis, no axiom beyond the three
standard ones. Equality is equality of `Float`s, i.e. of bit patterns: the sign of zero is preserved (`-0` prints
`-0` and reads back as `-0.0`), the infinities read back, and so does NaN (the model's NaN is canonical, `fmt`
prints `NaN`, `parse` returns the canonical NaN).

The proof is in `Proofs/FloatText*.lean`; the pieces, each re-exported below:

1. **Text level** (`FloatTextParse`): `parse_positional` — the parser reads the positional text of `d · 10^s` (any
   `d > 0`, sign optional) as exactly `F64.readBack d s`, i.e. hands `d · 10^s` to `Float.ofScientific`;
   the special texts; the shape of `positional` (no exponent, leading digit, no point when `s ≥ 0`); `stripZeros`.
2. **Interval soundness** (`FloatTextPick`): `scale` computes `lo` / `hi` as the least / greatest integers of the
   rounding interval `[(4m-2|4m-1)·2^(e-2), (4m+2)·2^(e-2)]` of `m·2^e` in units `10^s0` (closed iff `m` even;
   cross-multiplied natural-number inequalities, `FloatText.Inside`); whatever `pick` returns lies in `[lo, hi]`.
3. **Correct rounding** (`FloatTextRound`, `FloatTextRead`): `readBack_correct` — a decimal inside the rounding
   interval of the canonical double `m·2^e` reads back as that double. `Float.ofScientific` is *proved* correctly
   rounded from its definition (all four paths: fast multiplication / division by a table power of ten for
   `m < 2^53, e ≤ 22`, and the exact product / quotient of `UnpackedFloat.ofScientific`), through one general lemma
   about the rounding step of the model: `rwa_round` (round-to-nearest-even of `(M + num/den)·2^E`).
4. **Success** (`FloatTextPick`): `pick` with fuel 19 from `10^18` always stops with non-zero digits (the scaled value is
   at least `10^16` — the estimate `⌊(log2 m + e)·0.30103⌋` never exceeds `log10 x`, a kernel-checked table over all
   2098 binades — so the scaled interval is more than one unit wide); integers `< 2^53` (`smallInt?`) are printed
   as themselves.
5. **Assembly** (`FloatTextMain`, `FloatTextBits`): bit fields vs. `unpack`, special values, `fmt_parse`; and the
   native level below: `TO_NUMBER("" + x) = x`, `TO_NUMBER` of what `DISPLAY` prints is `x`.
6. **Minimality** ("shortest", `FloatTextMin`, `FloatTextConv`, `FloatTextShortest`): no decimal with fewer
   significant digits lies in the rounding interval (`shortest_in_interval`); with the converse of correct rounding
   (`reads_back_iff_inside`: a decimal reads back as `x` IFF it lies in the rounding interval of `x`) this is the
   property's wording: `fmt_shortest` — every decimal that reads back as `|x|` has at least as many digits as the
   printed one. And `integer_no_point`: every integer-valued double prints without a decimal point.
-/
namespace Aplang.C15b
open Aplang Aplang.FloatText

/-! ## the headline -/

/-- **DISPLAY's text reads back as the same double** — for every `Float`, bit for bit -/
theorem display_reads_back (x : Float) : F64.parse (F64.fmt x) = some x := fmt_parse x

/-- the statement in the form C15 announced it -/
theorem display_reads_back_of_not_nan (x : Float) (_ : ¬ x.isNaN) : F64.parse (F64.fmt x) = some x := fmt_parse x

/-- consequence: `fmt` is injective — different doubles print differently -/
theorem fmt_injective (x y : Float) (h : F64.fmt x = F64.fmt y) : x = y := by
  have hx := fmt_parse x
  rw [h, fmt_parse y] at hx
  exact (Option.some.inj hx).symm

/-! ## native level: TO_NUMBER ∘ (text of a number) = identity -/

variable (env : CharEnv) (σ : St)

/-- `"" + x` (string concatenation with a number) is the text `F64.fmt x` -/
theorem concat_number (tok : Token) (s : Str) (x : Float) :
    binop .add tok (.str s) (.num x) σ = .ok (.str (s ++ F64.fmt x), σ) := by
  simp [binop, C15.display_of_number, Res.bind]

/-- **`TO_NUMBER` of the text of a number is the number** -/
theorem to_number_fmt (x : Float) (s1 : Span) :
    callNative env .toNumber [.str (F64.fmt x)] [s1] σ = .ok (.num x, σ) := by
  rw [callNative_toNumber]; simp [castStr, fmt_parse x, Res.bind]

/-- **`TO_NUMBER("" + x) = x`** for every number `x` of the model (NaN included: the result is the same NaN value;
it is not `==` to itself, as no NaN is) -/
theorem to_number_concat (tok : Token) (x : Float) (s1 : Span) :
    ∃ t, binop .add tok (.str []) (.num x) σ = .ok (t, σ) ∧ callNative env .toNumber [t] [s1] σ = .ok (.num x, σ) :=
  ⟨.str (F64.fmt x), by simpa using concat_number σ tok [] x, to_number_fmt env σ x s1⟩

/-- **`TO_NUMBER` of what DISPLAY prints for `x` is `x`** (C15's `to_number_of_display`, hypothesis discharged) -/
theorem to_number_of_display (x : Float) (s1 : Span) :
    ∃ t, display σ (.num x) = .ok t ∧ callNative env .toNumber [.str t] [s1] σ = .ok (.num x, σ) :=
  C15.to_number_of_display env σ x s1 (fmt_parse x)

/-! ## the pieces -/

/-- (1) **the parser reads the printed text as exactly the decimal `d · 10^s`** handed to `Float.ofScientific` -/
theorem parse_positional (neg : Bool) (d : Nat) (s : Int) (hd : 0 < d) (hs : -((d.log2 : Int) + 401) ≤ s) :
    F64.parse ((if neg then ['-'] else []) ++ F64.positional (Nat.toDigits 10 d) s) =
      some (if neg then Float.neg (F64.readBack d s) else F64.readBack d s) :=
  FloatText.parse_positional neg d s hd hs

/-- (1) the special texts -/
theorem parse_specials :
    F64.parse "inf".toList = some F64.posInf ∧ F64.parse "-inf".toList = some (Float.neg F64.posInf) ∧
    F64.parse "NaN".toList = some F64.nan ∧ F64.parse ['0'] = some (Float.ofBits 0) ∧
    F64.parse ['-', '0'] = some (Float.neg (Float.ofBits 0)) :=
  ⟨parse_inf, parse_neg_inf, parse_NaN, parse_zero, parse_neg_zero⟩

/-- (1) **integers are printed without a decimal point**: with a non-negative exponent the text has no `.` -/
theorem positional_no_point (d : Nat) (s : Int) (hs : 0 ≤ s) : '.' ∉ F64.positional (Nat.toDigits 10 d) s := by
  apply FloatText.positional_no_point _ _ hs
  intro h
  have := toDigits_all_digit d _ h
  exact absurd this (by decide)

/-- (1) `positional` never produces an exponent or a leading `.`: first character a digit, then digits and `.` only -/
theorem positional_shape (d : Nat) (s : Int) :
    (∃ c r, F64.positional (Nat.toDigits 10 d) s = c :: r ∧ isAsciiDigit c = true) ∧
    (∀ c ∈ F64.positional (Nat.toDigits 10 d) s, isAsciiDigit c = true ∨ c = '.') ∧
    'e' ∉ F64.positional (Nat.toDigits 10 d) s ∧ 'E' ∉ F64.positional (Nat.toDigits 10 d) s :=
  FloatText.positional_shape _ s (toDigits_ne_nil d) (toDigits_all_digit d)

/-- (2) **`lo` / `hi` of `scale` are the least / greatest integers of the rounding interval** in units `10^s0`:
an integer `D` is in `[lo, hi]` iff the decimal `D · 10^s0` is inside the rounding interval of `m · 2^e` -/
theorem scale_interval (m : Nat) (e : Int) (asym : Bool) (hm : 0 < m) (D : Nat) :
    ((F64.scale m e asym).lo ≤ D ∧ D ≤ (F64.scale m e asym).hi) ↔ Inside m e asym D ((F64.scale m e asym).s0) :=
  scale_inside_iff m e asym hm D

/-- (2) **whatever `pick` returns lies in `[lo, hi]`** at the unit `t / 10^i` where it stopped -/
theorem pick_in_interval (sc : F64.Scaled) (fuel t : Nat) (s : Int) (c : Nat) (s' : Int)
    (h : F64.pick sc fuel t s = (c, s')) (hc : c ≠ 0) :
    ∃ i, i < fuel ∧ s' = s - i ∧ sc.lo ≤ c * (t / 10 ^ i) ∧ c * (t / 10 ^ i) ≤ sc.hi :=
  pick_sound sc fuel t s c s' h hc

/-- (3) **`Float.ofScientific` is correctly rounded**: a decimal `d · 10^s` inside the rounding interval of the
canonical double `m · 2^e` reads back as that double (proved from the toolchain's definitions) -/
theorem ofScientific_correctly_rounded (m : Nat) (e : Int) (hc : Canon m e) (d : Nat) (s : Int) (hd : 0 < d)
    (hs : -2048 ≤ s) (hin : Inside m e (asymOf m e) d s) :
    ∃ h, F64.readBack d s = Float.ofModel (Float.Model.pack (.finite .positive m e h)) :=
  readBack_correct m e hc d s hd hs hin

/-- (3) the rounding step of the model (behind `*`, `/`, `ofScientific`) is round-to-nearest-even of the exact value -/
theorem model_rounding_step (M : Nat) (E : Int) (num den : Nat) (hnd : num < den) (hE : E ≤ tgt M E) :
    Float.Model.UnpackedFloat.roundWithAccuracy .binary64 .positive M E
        (Float.Model.UnpackedFloat.accuracyOfFraction num den) =
      FloatIndex.finish (rne (M * den + num) (2 ^ (tgt M E - E).toNat * den)) (tgt M E) :=
  rwa_spec M E num den hnd hE

/-- (4) **`pick` succeeds** on every finite non-zero double, and its result is inside the rounding interval -/
theorem pick_total (m : Nat) (e : Int) (hc : Canon m e) (c : Nat) (s : Int)
    (h : F64.pick (F64.scale m e (asymOf m e)) 19 1000000000000000000 ((F64.scale m e (asymOf m e)).s0 + 18) = (c, s)) :
    0 < c ∧ Inside m e (asymOf m e) c s ∧ -340 ≤ s ∧ s ≤ 309 :=
  shortestGen_inside m e hc c s h

/-- (4) the scaled value has at least 17 digits: `est` is a lower estimate of `log10 x` -/
theorem scaled_value_ge (m : Nat) (e : Int) (hc : Canon m e) (asym : Bool) : 10 ^ 16 ≤ (F64.scale m e asym).v :=
  scale_v_ge m e hc asym

/-- (4)/(5) the digits that are printed, for the magnitude bits `ab` of a finite non-zero double -/
theorem printed_digits_inside (ab : UInt64) (hz : ab ≠ 0) (he : F64.expField ab ≠ 0x7FF)
    (hc : Canon (F64.decompose ab).1 (F64.decompose ab).2) :
    0 < (F64.stripZeros 20 (F64.shortest ab).1 (F64.shortest ab).2).1 ∧
    Inside (F64.decompose ab).1 (F64.decompose ab).2 (asymOf (F64.decompose ab).1 (F64.decompose ab).2)
      (F64.stripZeros 20 (F64.shortest ab).1 (F64.shortest ab).2).1
      (F64.stripZeros 20 (F64.shortest ab).1 (F64.shortest ab).2).2 ∧
    -340 ≤ (F64.stripZeros 20 (F64.shortest ab).1 (F64.shortest ab).2).2 ∧
    (F64.stripZeros 20 (F64.shortest ab).1 (F64.shortest ab).2).2 ≤ 329 :=
  printed_inside ab hz he hc


/-! ## (6) shortest -/

/-- (6) **no decimal with fewer significant digits lies in the rounding interval** of `x` (finite, non-zero) -/
theorem shortest_in_interval (x : Float) (he : F64.expField x.toBits ≠ 0x7FF)
    (hz : x.toBits &&& F64.absMask ≠ 0) (D : Nat) (S : Int) (hD : 0 < D)
    (hin : Inside (F64.decompose (x.toBits &&& F64.absMask)).1 (F64.decompose (x.toBits &&& F64.absMask)).2
      (asymOf (F64.decompose (x.toBits &&& F64.absMask)).1 (F64.decompose (x.toBits &&& F64.absMask)).2) D S) :
    (Nat.toDigits 10 (printedDigits x)).length ≤ (Nat.toDigits 10 D).length :=
  shortest_minimal_float x he hz D S hD hin

/-- (3, both directions) **a decimal reads back as the double `m · 2^e` iff it lies in its rounding interval** -/
theorem reads_back_iff_inside (m : Nat) (e : Int) (hc : Canon m e) (d : Nat) (s : Int) (hd : 0 < d) (hs : -2048 ≤ s) :
    F64.readBack d s = Float.ofModel (Float.Model.pack (.finite .positive m e hc.pos)) ↔
      Inside m e (asymOf m e) d s :=
  readBack_iff m e hc d s hd hs

/-- the text of a finite non-zero `x` is its sign and the positional rendering of `printedDigits x · 10^printedExp x`,
and that decimal reads back as `|x|` -/
theorem fmt_is_printed (x : Float) (he : F64.expField x.toBits ≠ 0x7FF) (hz : x.toBits &&& F64.absMask ≠ 0) :
    F64.fmt x = (if F64.signBit x.toBits then ['-'] else []) ++
      F64.positional (Nat.toDigits 10 (printedDigits x)) (printedExp x) ∧
    F64.readBack (printedDigits x) (printedExp x) = Float.abs x :=
  ⟨fmt_eq_printed x he hz, printed_reads_back x he hz⟩

/-- (6) **DISPLAY prints the shortest decimal that reads back as the same double**: every decimal `D · 10^S` that
`Float.ofScientific` reads as `|x|` has at least as many significant digits as the text of `x` -/
theorem fmt_shortest (x : Float) (he : F64.expField x.toBits ≠ 0x7FF) (hz : x.toBits &&& F64.absMask ≠ 0)
    (D : Nat) (S : Int) (hD : 0 < D) (hS : -2048 ≤ S) (hrb : F64.readBack D S = Float.abs x) :
    (Nat.toDigits 10 (printedDigits x)).length ≤ (Nat.toDigits 10 D).length :=
  FloatText.fmt_shortest x he hz D S hD hS hrb

/-- the digits found by the general search never end in `0` -/
theorem search_no_trailing_zero (m : Nat) (e : Int) (hc : Canon m e) (c : Nat) (s : Int)
    (h : F64.pick (F64.scale m e (asymOf m e)) 19 1000000000000000000 ((F64.scale m e (asymOf m e)).s0 + 18) = (c, s)) :
    c % 10 ≠ 0 :=
  pick_no_trailing_zero m e hc c s h

/-- **integers without a decimal point, in general**: a finite non-zero double `|x| = m · 2^e` whose value is an integer
(`e ≥ 0`, or `m = n · 2^(-e)`) prints without `.` -/
theorem integer_no_point (x : Float) (he : F64.expField x.toBits ≠ 0x7FF) (hz : x.toBits &&& F64.absMask ≠ 0)
    (hint : 0 ≤ (F64.decompose (x.toBits &&& F64.absMask)).2 ∨
      ∃ n, (F64.decompose (x.toBits &&& F64.absMask)).1 =
        n * 2 ^ (-(F64.decompose (x.toBits &&& F64.absMask)).2).toNat) :
    '.' ∉ F64.fmt x :=
  FloatText.integer_no_point x he hz hint

/-! ## non-vacuity: kernel-evaluated instances -/

private def S (x : String) : Str := x.toList

/-- the hypotheses of (3) are satisfiable: `0.1 = 0x1999999999999A · 2^-56`, and the decimal `1 · 10^-1` is inside -/
example : Canon 0x1999999999999A (-56) ∧ Inside 0x1999999999999A (-56) (asymOf 0x1999999999999A (-56)) 1 (-1) := by
  refine ⟨⟨by decide, by decide, by decide, by decide, fun _ => by decide⟩, ?_⟩
  unfold Inside Le2 Lt2 l4 h4 asymOf
  decide

/-- shapes (kernel evaluation) and read-back (the theorem) on the instances of the task -/
example : F64.fmt 0.1 = S "0.1" ∧ F64.parse (S "0.1") = some 0.1 :=
  ⟨by decide, by rw [← (by decide : F64.fmt 0.1 = S "0.1")]; exact display_reads_back _⟩
example : F64.fmt 0.3 = S "0.3" ∧ F64.parse (S "0.3") = some 0.3 :=
  ⟨by decide, by rw [← (by decide : F64.fmt 0.3 = S "0.3")]; exact display_reads_back _⟩
example : F64.fmt (1.0 / 3.0) = S "0.3333333333333333" ∧ F64.parse (S "0.3333333333333333") = some (1.0 / 3.0) :=
  ⟨by decide, by rw [← (by decide : F64.fmt (1.0 / 3.0) = S "0.3333333333333333")]; exact display_reads_back _⟩
example : F64.fmt 1e21 = S "1000000000000000000000" ∧ F64.parse (S "1000000000000000000000") = some 1e21 :=
  ⟨by decide, by rw [← (by decide : F64.fmt 1e21 = S "1000000000000000000000")]; exact display_reads_back _⟩
example : F64.fmt 9007199254740994 = S "9007199254740994" ∧ F64.parse (S "9007199254740994") = some 9007199254740994 :=
  ⟨by decide, by rw [← (by decide : F64.fmt 9007199254740994 = S "9007199254740994")]; exact display_reads_back _⟩
example : F64.fmt (-0.0) = S "-0" ∧ F64.parse (S "-0") = some (-0.0) :=
  ⟨by decide, by rw [← (by decide : F64.fmt (-0.0) = S "-0")]; exact display_reads_back _⟩
set_option maxRecDepth 100000 in
set_option exponentiation.threshold 2000 in
/-- `5e-324` (least subnormal) and `f64::MAX`: the text, and — by the theorem — its read-back -/
example : F64.fmt (Float.ofBits 1) = '0' :: '.' :: (List.replicate 323 '0' ++ ['5']) ∧
    F64.parse ('0' :: '.' :: (List.replicate 323 '0' ++ ['5'])) = some (Float.ofBits 1) ∧
    F64.fmt (Float.ofBits 0x7FEFFFFFFFFFFFFF) = S "17976931348623157" ++ List.replicate 292 '0' ∧
    F64.parse (S "17976931348623157" ++ List.replicate 292 '0') = some (Float.ofBits 0x7FEFFFFFFFFFFFFF) := by
  have h1 : F64.fmt (Float.ofBits 1) = '0' :: '.' :: (List.replicate 323 '0' ++ ['5']) := by decide
  have h2 : F64.fmt (Float.ofBits 0x7FEFFFFFFFFFFFFF) = S "17976931348623157" ++ List.replicate 292 '0' := by decide
  refine ⟨h1, ?_, h2, ?_⟩
  · rw [← h1]; exact display_reads_back _
  · rw [← h2]; exact display_reads_back _
/-- NaN too -/
example : F64.fmt (0.0 / 0.0) = S "NaN" ∧ F64.parse (S "NaN") = some (0.0 / 0.0) :=
  ⟨by decide, by rw [← (by decide : F64.fmt (0.0 / 0.0) = S "NaN")]; exact display_reads_back _⟩
/-- the native level -/
example (s1 : Span) : callNative env .toNumber [.str (S "0.1")] [s1] σ = .ok (.num 0.1, σ) := by
  rw [← (by decide : F64.fmt 0.1 = S "0.1")]; exact to_number_fmt env σ 0.1 s1

/-- shortest, on `0.1 + 0.2`: every decimal that reads back as it has at least 17 digits (so `0.3` does not) -/
example (D : Nat) (S : Int) (hD : 0 < D) (hS : -2048 ≤ S) (h : F64.readBack D S = Float.abs (0.1 + 0.2)) :
    17 ≤ (Nat.toDigits 10 D).length := by
  have := fmt_shortest (0.1 + 0.2) (by decide) (by decide) D S hD hS h
  rwa [(by decide : printedDigits (0.1 + 0.2) = 30000000000000004)] at this
example : F64.readBack 3 (-1) ≠ Float.abs (0.1 + 0.2) ∧ F64.readBack 30000000000000004 (-17) = Float.abs (0.1 + 0.2) := by
  decide
/-- `2^53 + 2` and `1e21` are integer-valued in the sense of `integer_no_point` -/
example : 0 ≤ (F64.decompose ((9007199254740994 : Float).toBits &&& F64.absMask)).2 ∧
    0 ≤ (F64.decompose ((1e21 : Float).toBits &&& F64.absMask)).2 := by decide

end Aplang.C15b
