import Aplang.Model.Config
import Aplang.Model.Natives
/-! see `Thm/TablesKeywords.lean` for what the table theorems are for -/
namespace Aplang.Tables

/-- **the live library registry is the model's table** `Native.info` (the documented registry): same modules,
same procedure names, same arities, nothing missing and nothing extra -/
theorem registry_is_model_table :
    Gen.registry.all (fun e => (Native.all.map Native.info).any
        (fun i => i.1.toList == e.1.toList && i.2.1.toList == e.2.1.toList && i.2.2 == e.2.2)) = true ∧
    (Native.all.map Native.info).all (fun i => Gen.registry.any
        (fun e => i.1.toList == e.1.toList && i.2.1.toList == e.2.1.toList && i.2.2 == e.2.2)) = true ∧
    Gen.registry.length = Native.all.length := by
  refine ⟨by decide, by decide, by decide⟩

end Aplang.Tables
