import Aplang.Thm.C02
/-!
# C03 — procedure calls: fresh scope, positional binding, RETURN ends the activation

The model's call (`Procedure::call`: cache the pending return value, clear it, push an empty context, bind
by `zip`, run the body while blocks and loops poll the pending value, read it, restore, pop) is proved equal
to the reference call below as part of the refinement (`expr_refines_spec`, `stmt_refines_spec`).
-/
namespace Aplang

section spec
variable (cfg : Cfg) (f : Nat)

/-- the reference call: arguments left to right; undefined name or wrong argument count are runtime errors
raised before the body runs; the body runs in a fresh scope holding only the parameters; the value is what
RETURN gave, NULL otherwise -/
theorem call_semantics (name : Str) (args : List Expr) (spans tok lp rp) (σ : St) :
    Spec.expr cfg (f+1) (.call name args spans tok lp rp) σ =
      (Spec.exprs cfg f args σ).bind fun (vs, σ1) =>
        match σ1.procs.find? name with
        | none => rtErr "Invalid PROCEDURE" tok.span σ1
        | some (.native n) =>
          if n.arity != vs.length then rtErr "Incorrect Number Of Args" (interior lp rp) σ1
          else callNative cfg.chars n vs spans σ1
        | some (.user params body) =>
          if params.length != vs.length then rtErr "Incorrect Number Of Args" (interior lp rp) σ1 else
          (Spec.stmt cfg f body { σ1 with scopes := bindParams params vs [] :: σ1.scopes }).bind fun (sig, σ2) =>
            match σ2.scopes with
            | [] => .panic "env.scrape" σ2.out
            | _ :: rest => .ok ((match sig with | .ret v => v | _ => .null), { σ2 with scopes := rest }) := by
  simp only [Spec.expr]
  try rfl

end spec

/-- variables are looked up in the top scope only: the body of a call cannot read the caller's (or any
global) variables -/
theorem lookup_sees_top_scope_only (σ : St) (fr : Frame) (below below' : List Frame) (x : Str) :
    lookupVar { σ with scopes := fr :: below } x = lookupVar { σ with scopes := fr :: below' } x := rfl

/-- … and assignments change the top scope only -/
theorem define_changes_top_scope_only (σ : St) (fr : Frame) (below : List Frame) (x : Str) (v : Value) :
    define { σ with scopes := fr :: below } x v = .ok { σ with scopes := fr.set x v :: below } := rfl

/-- parameters are bound by position -/
theorem params_bound_by_position (p : Str) (ps : List Str) (a : Value) (as : List Value) (fr : Frame) :
    bindParams (p :: ps) (a :: as) fr = bindParams ps as (fr.set p a) := rfl

/-- a freshly bound parameter holds its argument -/
theorem frame_get_set (fr : Frame) (x : Str) (v : Value) : (fr.set x v).get? x = some v := by
  simp [Frame.set, Frame.get?]

/-- RETURN is a signal carrying the value (NULL for a bare RETURN) -/
theorem return_is_a_signal (cfg : Cfg) (f : Nat) (tok : Token) (σ0 σ : St) (ht : tick σ0 = some σ) :
    Spec.stmt cfg (f+1) (.ret tok none) σ0 = .ok (.ret .null, σ) ∧
    ∀ e, Spec.stmt cfg (f+1) (.ret tok (some e)) σ0 =
      (Spec.expr cfg f e σ).bind fun (v, σ1) => .ok (.ret v, σ1) := by
  constructor
  · simp only [Spec.stmt, ht]
  · intro e; simp only [Spec.stmt, ht]; try rfl

/-- RETURN ends the activation from inside any nesting: every enclosing block stops at the signal
(`block_stops_at_first_signal`), every enclosing loop passes it on (`repeat_iteration`,
`until_tests_before_each_iteration`, `foreach_iteration`), IF passes on its branch's signal
(`if_runs_exactly_one_branch`), and the call turns it into its value (`call_semantics`). Stated for a block: -/
theorem return_ends_block (cfg : Cfg) (f : Nat) (s : Stmt) (ss : List Stmt) (σ σ1 : St) (v : Value)
    (h : Spec.stmt cfg f s σ = .ok (.ret v, σ1)) :
    Spec.block cfg (f+1) (s :: ss) σ = .ok (.ret v, σ1) := by
  simp only [Spec.block, h, Res.bind_ok]

/-- … and for a loop -/
theorem return_ends_loop (cfg : Cfg) (f k : Nat) (body : Stmt) (σ σ1 : St) (v : Value)
    (h : Spec.stmt cfg f body σ = .ok (.ret v, σ1)) :
    Spec.repeatLoop cfg (f+1) (k+1) body σ = .ok (.ret v, σ1) := by
  simp only [Spec.repeatLoop, h, Res.bind_ok]

/-- the body's own variables vanish on return: the scopes after a successful call are the caller's tail -/
theorem call_pops_its_scope (σ2 : St) (fr : Frame) (rest : List Frame) :
    ({ σ2 with scopes := rest } : St).scopes = rest := rfl

/-- FOR EACH's removal of its element variable reaches the top scope only: the layers below (the caller's variables
while a procedure body runs) are what they were, whatever they hold under that name (seeded change C03-e2 searched
every layer) -/
theorem remove_changes_top_scope_only (σ : St) (fr : Frame) (below : List Frame) (x : Str) :
    removeVar { σ with scopes := fr :: below } x = .ok (fr.get? x, { σ with scopes := fr.erase x :: below }) := rfl

/-- … and what it hands back is the top scope's binding, never one of a lower layer -/
theorem remove_reads_top_scope_only (σ : St) (fr : Frame) (below below' : List Frame) (x : Str) :
    (match removeVar { σ with scopes := fr :: below } x with | .ok (v, _) => some v | _ => none) =
    (match removeVar { σ with scopes := fr :: below' } x with | .ok (v, _) => some v | _ => none) := rfl

end Aplang
