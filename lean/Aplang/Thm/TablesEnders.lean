import Aplang.Model.Config
/-! see `Thm/TablesKeywords.lean` for what the table theorems are for -/
namespace Aplang.Tables

/-- the token kinds after which a newline ends the statement -/
def documentedEnders : List TT :=
  [.identifier, .number, .stringLiteral, .true_, .false_, .null, .rightParen, .rightBracket, .rightBrace,
   .break_, .continue_, .return_]

/-- **the live ender set is the documented one** -/
theorem enders_documented :
    TT.all.all (fun t => Gen.enders.contains t == documentedEnders.contains t) = true := by decide

end Aplang.Tables
