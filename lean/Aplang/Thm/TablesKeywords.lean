import Aplang.Model.Config
/-!
# The tables regenerated from the live code are the documented ones

`Gen/Keywords.lean`, `Gen/Enders.lean` and `Gen/Registry.lean` are rewritten from `/repo` on every run and the
executable model *uses* the first two, so a change of those tables moves the model along with the code and the
correspondence cannot see it. These theorems pin the live tables to the documented ones; they are proof
obligations of every property whose statement depends on the table:

* keywords (22 words, each in upper and in lower case): C06, C07, C09;
* statement enders (identifier, literal, closing bracket, BREAK, CONTINUE, RETURN): C02, C03, C06, C09;
* library registry (module, procedure name, arity) = the model's `Native.info` table, which is what the
  theorems about the library are about: C10, C13 – C17, C19.

All three are closed by `decide` over the whole table.
-/
namespace Aplang.Tables

/-- the keywords of the language (README / token.rs), upper-case spelling -/
def documentedKeywordsUpper : List (String × TT) :=
  [("AND", .and_), ("BREAK", .break_), ("CONTINUE", .continue_), ("EACH", .each), ("ELSE", .else_),
   ("EXPORT", .export_), ("FALSE", .false_), ("FOR", .for_), ("FROM", .from_), ("IF", .if_), ("IMPORT", .import_),
   ("IN", .in_), ("MOD", .mod_), ("NOT", .not_), ("NULL", .null), ("OR", .or_), ("PROCEDURE", .procedure),
   ("REPEAT", .repeat_), ("RETURN", .return_), ("TIMES", .times), ("TRUE", .true_), ("UNTIL", .until_)]

/-- every keyword may be written in upper or in lower case -/
def documentedKeywords : List (List Char × TT) :=
  documentedKeywordsUpper.map (fun e => (e.1.toList, e.2)) ++
  documentedKeywordsUpper.map (fun e => (e.1.toList.map Char.toLower, e.2))

def liveKeywords : List (List Char × TT) := Gen.keywords.map (fun e => (e.1.toList, e.2))

/-- **the live keyword table is the documented one** (as a set of (spelling, kind) pairs) -/
theorem keywords_documented :
    liveKeywords.all (fun e => documentedKeywords.contains e) = true ∧
    documentedKeywords.all (fun e => liveKeywords.contains e) = true := by
  constructor <;> decide

/-- hence the lookup the lexer model uses answers exactly the documented table -/
theorem genKw_documented (s : List Char) (k : TT) :
    genKw s = some k → (s, k) ∈ documentedKeywords := by
  intro h
  simp only [genKw, Option.map_eq_some_iff] at h
  obtain ⟨e, he, rfl⟩ := h
  have hs : e.1.toList = s := by simpa using List.find?_some he
  have hm : (e.1.toList, e.2) ∈ liveKeywords := List.mem_map.mpr ⟨e, List.mem_of_find?_eq_some he, rfl⟩
  have := List.all_eq_true.mp keywords_documented.1 _ hm
  rw [hs] at this
  simpa using this

end Aplang.Tables
