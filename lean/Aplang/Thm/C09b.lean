import Aplang.Proofs.StmtGrammar
import Aplang.Proofs.ParserStable
import Aplang.Proofs.PosEraseParser
import Aplang.Thm.C05
import Aplang.Thm.C08b
/-!
# C09b — every program derivable from the documented statement grammar is accepted

`P.SStmt` / `P.SSeq` (in `Proofs/StmtGrammar`) are the derivations of the documented grammar: expression
statements, IF / ELSE IF / ELSE, REPEAT TIMES, REPEAT UNTIL, FOR EACH, PROCEDURE and EXPORT PROCEDURE, RETURN
with or without a value, BREAK, CONTINUE, the three IMPORT forms, nested blocks; bodies in braces. Every node
carries its tokens; `renderSeq` is the canonical printer, `treeSeq` the syntax tree.

Layout: a simple statement (expression statement, RETURN, IMPORT) carries its optional terminator token;
*without* one it has to be the last statement of its block or of the program — i.e. be directly followed by
the closing brace or by the end of the input, the case named in the property. Any number of further
terminator tokens may stand between statements (`SSeq.semi`).

Expressions are a parameter (`P.PExpr.OK`): any printed expression that the expression parser accepts in
front of a token that cannot continue an expression. The minimally and the fully parenthesised renderings of
C05 are instances (`ofMin_ok`, `ofFull_ok`); they cover literals, variables, binary / logical / unary
operators and assignment to a variable (not calls, list literals, indexing — the fragment of
`parse_renderMin_partial`).

`accepts_documented_grammar`: for every such derivation that satisfies the static rule `WFList false false`
(`Spec/WF`: RETURN only in procedures, BREAK / CONTINUE only in loops) the parser returns exactly the tree —
for all sufficiently large fuel, for the fuel `runTokens` uses (`_run`, via C08b), and for every fuel that is
not exhausted (`_any_fuel`, via `Proofs/ParserStable`); modulo token positions: `_norm`.
-/
namespace Aplang
open P

/-- **statement-level completeness.** A program derivable from the documented grammar (`q.Syn`) that
satisfies the static scope rule is accepted, and the tree is the one of the derivation. -/
theorem accepts_documented_grammar (q : SSeq) (hq : q.Syn) (hw : WFList false false (treeSeq q))
    (eof : Token) (he : eof.tt = .eof) :
    ∃ fuel, ∀ g, fuel ≤ g → parse g (renderSeq q ++ [eof]) = .ok (treeSeq q) := by
  obtain ⟨f, hf⟩ := progQ q hq ⟨[], renderSeq q ++ [eof], false, false⟩ eof [] [] rfl he hw
  refine ⟨f, fun g hg => ?_⟩
  unfold parse
  rw [hf g hg]
  simp

/-- … with any fuel: the parser either runs out of fuel or returns the tree — never a diagnostic -/
theorem accepts_documented_grammar_any_fuel (q : SSeq) (hq : q.Syn) (hw : WFList false false (treeSeq q))
    (eof : Token) (he : eof.tt = .eof) (g : Nat) (hg : parse g (renderSeq q ++ [eof]) ≠ .fuel) :
    parse g (renderSeq q ++ [eof]) = .ok (treeSeq q) := by
  obtain ⟨f, hf⟩ := accepts_documented_grammar q hq hw eof he
  have h1 := parse_stable (Nat.le_max_left g f) _ hg
  rw [← h1]
  exact hf _ (Nat.le_max_right g f)

/-- … with the fuel `runTokens` gives the parser (no fuel hypothesis left). `LitOK`: literal tokens carry
their literals, as the lexer guarantees (`lex_tokens_ok`). -/
theorem accepts_documented_grammar_run (q : SSeq) (hq : q.Syn) (hw : WFList false false (treeSeq q))
    (eof : Token) (he : eof.tt = .eof) (hlit : ∀ t ∈ renderSeq q ++ [eof], LitOK t) :
    parse (parseFuel (renderSeq q ++ [eof]).length) (renderSeq q ++ [eof]) = .ok (treeSeq q) :=
  accepts_documented_grammar_any_fuel q hq hw eof he _
    (parse_fuel_adequate _ ⟨⟨renderSeq q, eof, rfl, he⟩, hlit⟩)

/-- … and modulo positions: the same tokens at any other positions (`Token.norm` erases offset and length,
keyword spelling and terminator text) give the same tree up to positions -/
theorem accepts_documented_grammar_norm (q : SSeq) (hq : q.Syn) (hw : WFList false false (treeSeq q))
    (eof : Token) (he : eof.tt = .eof) :
    ∃ fuel, ∀ g, fuel ≤ g →
      parse g ((renderSeq q ++ [eof]).map Token.norm) = .ok ((treeSeq q).map Stmt.norm) := by
  obtain ⟨f, hf⟩ := accepts_documented_grammar q hq hw eof he
  refine ⟨f, fun g hg => ?_⟩
  rw [parse_norm, hf g hg]
  rfl

/-! ## the statement forms one by one (each in front of any admissible continuation) -/

/-- every form except a procedure declaration is accepted by `statement`, every form by `declaration` (what
the two statement loops call), in any scope in which the tree satisfies the static rule -/
theorem statement_form_accepted (st : SStmt) (hs : st.Syn) (hp : st.isProc = false) (s : PState)
    (rest : List Token) (h : s.after = renderStmt st ++ rest) (hf : Follow st rest)
    (hw : WFStmt s.inLoop s.inFn (treeStmt st)) :
    ∃ fuel, ∀ g, fuel ≤ g → statement g s = .ok (treeStmt st) (advs s (renderStmt st) rest) :=
  (stQ st hs).1 hp s rest h hf hw

theorem declaration_form_accepted (st : SStmt) (hs : st.Syn) (s : PState)
    (rest : List Token) (h : s.after = renderStmt st ++ rest) (hf : Follow st rest)
    (hw : WFStmt s.inLoop s.inFn (treeStmt st)) :
    ∃ fuel, ∀ g, fuel ≤ g → declaration g s = .ok (treeStmt st) (advs s (renderStmt st) rest) :=
  (stQ st hs).2 s rest h hf hw

/-- the contents of a block, in front of the closing brace -/
theorem block_contents_accepted (q : SSeq) (hq : q.Syn) (s : PState) (rb : Token) (rest : List Token)
    (h : s.after = renderSeq q ++ rb :: rest) (hrb : rb.tt = .rightBrace)
    (hw : WFList s.inLoop s.inFn (treeSeq q)) :
    ∃ fuel, ∀ g, fuel ≤ g → blockLoop g [] s = .ok (treeSeq q) (advs s (renderSeq q) (rb :: rest)) := by
  obtain ⟨f, hf⟩ := seqQ q hq s rb rest [] h (Or.inl hrb) hw
  exact ⟨f, fun g hg => by have := hf g hg; simpa using this⟩

/-! ## a statement directly followed by the end of the input or by the closing brace -/

/-- an expression statement directly followed by the end of the input -/
theorem expression_statement_at_eof (e : PExpr) (he : e.OK) (eof : Token) (heof : eof.tt = .eof) :
    ∃ fuel, ∀ g, fuel ≤ g → parse g (e.toks ++ [eof]) = .ok [.expr e.tree] := by
  have := accepts_documented_grammar (.cons (.expr e none) .nil)
    (by simp only [SSeq.Syn, SStmt.Syn]; exact ⟨⟨he, (fun _ h => by cases h)⟩, fun _ => rfl, trivial⟩)
    (by simp [treeSeq, treeStmt, WFList, WFStmt]) eof heof
  simpa [renderSeq, renderStmt, treeSeq, treeStmt] using this

/-- an expression statement directly followed by the closing brace of its block -/
theorem expression_statement_at_close (e : PExpr) (he : e.OK) (lb rb eof : Token) (hlb : lb.tt = .leftBrace)
    (hrb : rb.tt = .rightBrace) (heof : eof.tt = .eof) :
    ∃ fuel, ∀ g, fuel ≤ g → parse g (lb :: (e.toks ++ [rb, eof])) = .ok [.block lb [.expr e.tree] rb] := by
  have := accepts_documented_grammar (.cons (.block lb (.cons (.expr e none) .nil) rb) .nil)
    (by simp only [SSeq.Syn, SStmt.Syn]
        exact ⟨⟨hlb, ⟨⟨he, (fun _ h => by cases h)⟩, fun _ => rfl, trivial⟩, hrb⟩, (fun h => by cases h), trivial⟩)
    (by simp [treeSeq, treeStmt, WFList, WFStmt]) eof heof
  simpa [renderSeq, renderStmt, treeSeq, treeStmt] using this

/-! ## expressions: the renderings of C05 are instances -/

/-- the minimally parenthesised rendering of a spec-level expression, with its tree -/
def PExpr.ofMin (lp rp : Token) (e : SExpr) : PExpr := ⟨renderMin lp rp 1 e, treeMin lp rp 1 e⟩
/-- the fully parenthesised rendering -/
def PExpr.ofFull (lp rp : Token) (e : SExpr) : PExpr := ⟨renderFull lp rp e, groupAll lp rp e⟩

theorem ofMin_ok (lp rp : Token) (hlp : lp.tt = .leftParen) (hrp : rp.tt = .rightParen) (e : SExpr) (he : e.WF) :
    (PExpr.ofMin lp rp e).OK :=
  fun s nxt r h hstop => parse_renderMin_partial lp rp hlp hrp e he s nxt r h hstop

theorem ofFull_ok (lp rp : Token) (hlp : lp.tt = .leftParen) (hrp : rp.tt = .rightParen) (e : SExpr) (he : e.WF) :
    (PExpr.ofFull lp rp e).OK :=
  fun s nxt r h hstop => parse_renderFull_partial lp rp hlp hrp e he s nxt r h hstop

/-! ## non-vacuity: a concrete derivation using every kind of node

```
EXPORT PROCEDURE f ( a , b ) { IF ( a ) { RETURN b } ELSE IF ( b ) { x <- 1 ; ; } ELSE { RETURN } }
REPEAT 2 TIMES { BREAK }
REPEAT UNTIL ( a ) { CONTINUE ; }
FOR EACH a IN b { a }
IMPORT MOD "m" ;
IMPORT [ "g" , "h" ] FROM MOD "m" ;
IMPORT "g" FROM MOD "m"
```
-/

namespace Demo09

def lp : Token := kwTok .leftParen 0
def rp : Token := kwTok .rightParen 0
def strTok (c : Char) : Token := ⟨.stringLiteral, [], .str [c], 0, 3⟩
def semi : Token := kwTok .softSemi 0
def lbr : Token := kwTok .leftBrace 0
def rbr : Token := kwTok .rightBrace 0
def va : PExpr := PExpr.ofMin lp rp (.var (idTok ['a'] 0))
def vb : PExpr := PExpr.ofMin lp rp (.var (idTok ['b'] 0))
def two : PExpr := PExpr.ofMin lp rp (.lit (.num 2) (numTok 2 0))
def asg : PExpr := PExpr.ofMin lp rp (.assign (idTok ['x'] 0) (kwTok .arrow 0) (.lit (.num 1) (numTok 1 0)))

theorem va_ok : va.OK := ofMin_ok lp rp rfl rfl _ rfl
theorem vb_ok : vb.OK := ofMin_ok lp rp rfl rfl _ rfl
theorem two_ok : two.OK := ofMin_ok lp rp rfl rfl _ rfl
theorem asg_ok : asg.OK := ofMin_ok lp rp rfl rfl _ ⟨rfl, rfl, rfl⟩

def procBody : SStmt :=
  .block lbr (.cons
    (.ifElse (kwTok .if_ 0) lp va rp (.block lbr (.cons (.ret (kwTok .return_ 0) (some vb) none) .nil) rbr)
      (kwTok .else_ 0)
      (.ifElse (kwTok .if_ 0) lp vb rp (.block lbr (.cons (.expr asg (some semi)) (.semi semi .nil)) rbr)
        (kwTok .else_ 0) (.block lbr (.cons (.ret (kwTok .return_ 0) none none) .nil) rbr))) .nil) rbr

def prog : SSeq :=
  .cons (.procDecl (some (kwTok .export_ 0)) (kwTok .procedure 0) (idTok ['f'] 0) lp
      (some ⟨idTok ['a'] 0, [(kwTok .comma 0, idTok ['b'] 0)]⟩) rp procBody) <|
  .cons (.repeatTimes (kwTok .repeat_ 0) two (kwTok .times 0) (.block lbr (.cons (.brk (kwTok .break_ 0)) .nil) rbr)) <|
  .cons (.repeatUntil (kwTok .repeat_ 0) (kwTok .until_ 0) lp va rp
      (.block lbr (.cons (.cont (kwTok .continue_ 0)) (.semi semi .nil)) rbr)) <|
  .cons (.forEach (kwTok .for_ 0) (kwTok .each 0) (idTok ['a'] 0) (kwTok .in_ 0) vb
      (.block lbr (.cons (.expr va none) .nil) rbr)) <|
  .cons (.importAll (kwTok .import_ 0) (kwTok .mod_ 0) (strTok 'm') (some semi)) <|
  .cons (.importList (kwTok .import_ 0) (kwTok .leftBracket 0) ⟨strTok 'g', [(kwTok .comma 0, strTok 'h')]⟩
      (kwTok .rightBracket 0) (kwTok .from_ 0) (kwTok .mod_ 0) (strTok 'm') (some semi)) <|
  .cons (.importOne (kwTok .import_ 0) (strTok 'g') (kwTok .from_ 0) (kwTok .mod_ 0) (strTok 'm') none) .nil

theorem termOK_none : TermOK none := fun _ h => by cases h
theorem termOK_semi : TermOK (some semi) := fun t h => by cases h; rfl

theorem prog_syn : prog.Syn := by
  simp only [prog, procBody, SSeq.Syn, SStmt.Syn]
  repeat' refine And.intro ?_ ?_
  all_goals first
    | rfl
    | trivial
    | exact va_ok | exact vb_ok | exact two_ok | exact asg_ok | exact termOK_none | exact termOK_semi
    | exact Or.inl rfl | exact Or.inr rfl
    | decide
    | (intro _; rfl)
    | (intro h; cases h; done)
    | (intro e h; cases h; done)
    | (intro e h; cases h; exact vb_ok)
    | (intro t h; cases h; rfl)
    | (intro l h; cases h; refine And.intro ?_ (by decide); unfold SepList.OK; refine And.intro rfl ?_
       intro p hp; simp at hp; subst hp; exact And.intro rfl rfl)
    | (unfold SepList.OK; refine And.intro rfl ?_; intro p hp; simp at hp; subst hp; exact And.intro rfl rfl)
    | (intro p hp; simp at hp; subst hp; exact And.intro rfl rfl)

theorem prog_wf : WFList false false (treeSeq prog) := by
  simp [prog, procBody, treeSeq, treeStmt, WFList, WFStmt, WFOpt]

/-- a decidable form of `LitOK` -/
def litOKb (t : Token) : Bool :=
  match t.tt, t.lit with
  | .stringLiteral, .str _ => true
  | .stringLiteral, _ => false
  | .number, .num _ => true
  | .number, _ => false
  | _, _ => true

theorem litOKb_sound {t : Token} (h : litOKb t = true) : LitOK t := by
  obtain ⟨tt, lx, lit, o, l⟩ := t
  cases tt <;> cases lit <;> simp [litOKb, LitOK] at h ⊢

theorem prog_lit : ∀ t ∈ renderSeq prog ++ [kwTok .eof 0], LitOK t := fun t ht =>
  litOKb_sound (List.all_eq_true.mp (by decide +kernel : (renderSeq prog ++ [kwTok .eof 0]).all litOKb = true) t ht)

/-- the theorem applied: with the fuel of `runTokens` the 77 tokens are parsed to the 7 statements -/
theorem prog_accepted :
    parse (parseFuel (renderSeq prog ++ [kwTok .eof 0]).length) (renderSeq prog ++ [kwTok .eof 0]) =
      .ok (treeSeq prog) :=
  accepts_documented_grammar_run prog prog_syn prog_wf (kwTok .eof 0) rfl prog_lit

/-- and the kernel agrees (evaluating the parser on the printed tokens) -/
example : (match parse 400 (renderSeq prog ++ [kwTok .eof 0]) with | .ok p => p.length | _ => 0) = 7 := by decide +kernel
example : (renderSeq prog).length = 76 := by decide

end Demo09

end Aplang
