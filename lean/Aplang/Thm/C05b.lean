import Aplang.Proofs.ParserMin2Expr
import Aplang.Proofs.StripEval
import Aplang.Proofs.ParserStable
import Aplang.Proofs.ParserFuel
import Aplang.Thm.C05
/-!
# C05b — precedence completeness for the FULL expression language

C05 names the ladder: assignment (right-nested) < OR < AND < `== !=` < `< <= > >=` < `+ -` < `* / MOD` < unary
< **indexing and calls** (tightest). `Thm/C05` proves completeness (`parse_renderMin_partial`) for a
fragment without calls, list literals, indexing and indexed assignment. This file closes the gap.

`P.XExpr` (`Proofs/ParserMin2Expr`) are the expressions of the documented grammar with all forms of
`Model/Ast.lean` `Expr`: literals, variables, binary / logical / unary operators, `name <- v`, calls `f()` /
`f(a, …)`, list literals `[]` / `[a, …]`, indexing `e[i]` (postfix: chains `e[i][j]`, `f(x)[i]`, `[a, b][i]`),
indexed assignment `e[i] <- v`, and parentheses the author wrote (`.paren`). Arguments, items and indices are
full expressions.

* `parse_renderMin2` — **the minimally parenthesised rendering parses to the tree with groups exactly at the
  written parentheses**, in front of every token that cannot continue an expression; for all sufficiently
  large fuel, for every fuel that is not exhausted (`_any_fuel`, via `Proofs/ParserStable`), and for every fuel
  `≥ 12 · (remaining tokens) + 11` (`_fuel_bound`, via `Proofs/ParserFuel`).
  `renderMin2` writes parentheses only where a part binds looser than its position admits: operands as in
  C05; the base of an indexing must be postfix or primary (level ≥ 9); arguments, items, indices, assigned
  values and the contents of parentheses admit everything.
* `parse_renderFull2` — the same for the fully parenthesised rendering (`renderFull2`: every part that is not a
  single token is in parentheses).
* `minimal_equals_full` — both parse, and the two trees have the same `stripGrouping` normal form, the
  group-free tree `e.skel` of the expression.
* `minimal_and_full_evaluate_alike`, `minimal_and_full_behave_identically` — the evaluation level. `.grouping`
  is transparent to evaluation (`grouping_transparent`, C01) but costs one unit of evaluator fuel, and the
  diagnostic anchor of an index expression depends on the parentheses, so the statement is: with any fuels that
  are not exhausted, from the same (or a similar) state, the two trees give *similar* results (`VSim`,
  `Proofs/PosEraseState`: the same value and the same state up to positions in stored procedure bodies; a
  runtime error of the same kind — the labelled byte range may differ — in similar states; the same termination;
  the same panic with the same output). Proof: `Proofs/StripEval` (`eval_same_up_to_grouping`), on top of fuel
  stability of the evaluator (`Proofs/EvalStable`) and the position-erasure simulation.
* `treeMin2_shape` — the minimal tree is a rendering (`Shape`) of exactly the printed tokens and respects the
  ladder (`RespectsPrec`).
* non-vacuity: `f(a[1], [b, g()])[2] <- x OR y` and others, checked by kernel evaluation at the token level.
-/
namespace Aplang
open P

/-- **completeness for minimally parenthesised expressions of the full expression language.** -/
theorem parse_renderMin2 (lp rp : Token) (hlp : lp.tt = .leftParen) (hrp : rp.tt = .rightParen)
    (e : XExpr) (he : e.WF) (s : PState) (nxt : Token) (r : List Token)
    (h : s.after = renderMin2 lp rp 1 e ++ nxt :: r) (hstop : stopsExpr nxt.tt) :
    ∃ fuel, ∀ g, fuel ≤ g → expression g s = .ok (treeMin2 lp rp 1 e)
      { s with before := (renderMin2 lp rp 1 e).reverse ++ s.before, after := nxt :: r } := by
  obtain ⟨f, hf⟩ := (e.minM lp rp hlp hrp he).all.expr lp rp s nxt r h (by rw [hstop.1]; decide) hstop.2
  exact ⟨f, fun g hg => (exprMono hg).expression s _ _ hf⟩

/-- … with any fuel: the expression parser either runs out of fuel or returns the tree -/
theorem parse_renderMin2_any_fuel (lp rp : Token) (hlp : lp.tt = .leftParen) (hrp : rp.tt = .rightParen)
    (e : XExpr) (he : e.WF) (s : PState) (nxt : Token) (r : List Token)
    (h : s.after = renderMin2 lp rp 1 e ++ nxt :: r) (hstop : stopsExpr nxt.tt)
    (g : Nat) (hg : expression g s ≠ .fuel) :
    expression g s = .ok (treeMin2 lp rp 1 e)
      { s with before := (renderMin2 lp rp 1 e).reverse ++ s.before, after := nxt :: r } := by
  obtain ⟨f, hf⟩ := parse_renderMin2 lp rp hlp hrp e he s nxt r h hstop
  have h1 := (exprStab (Nat.le_max_left g f)).expression s hg
  rw [← h1]
  exact hf _ (Nat.le_max_right g f)

/-- … with the proved budget: 12 units per remaining token plus 11 suffice (`Good`: the remaining tokens end
with the end-of-input token and literal tokens carry their literals, as the lexer guarantees) -/
theorem parse_renderMin2_fuel_bound (lp rp : Token) (hlp : lp.tt = .leftParen) (hrp : rp.tt = .rightParen)
    (e : XExpr) (he : e.WF) (s : PState) (nxt : Token) (r : List Token)
    (h : s.after = renderMin2 lp rp 1 e ++ nxt :: r) (hstop : stopsExpr nxt.tt)
    (hgood : Good s) (g : Nat) (hb : 12 * s.after.length + 11 ≤ g) :
    expression g s = .ok (treeMin2 lp rp 1 e)
      { s with before := (renderMin2 lp rp 1 e).reverse ++ s.before, after := nxt :: r } :=
  parse_renderMin2_any_fuel lp rp hlp hrp e he s nxt r h hstop g (expression_nf g s hgood hb)

/-- **completeness for fully parenthesised expressions of the full expression language** -/
theorem parse_renderFull2 (lp rp : Token) (hlp : lp.tt = .leftParen) (hrp : rp.tt = .rightParen)
    (e : XExpr) (he : e.WF) (s : PState) (nxt : Token) (r : List Token)
    (h : s.after = renderFull2 lp rp e ++ nxt :: r) (hstop : stopsExpr nxt.tt) :
    ∃ fuel, ∀ g, fuel ≤ g → expression g s = .ok (groupAll2 lp rp e)
      { s with before := (renderFull2 lp rp e).reverse ++ s.before, after := nxt :: r } := by
  obtain ⟨e1, e2⟩ := renderFull2_eq lp rp e
  rw [e1] at h ⊢; rw [e2]
  exact parse_renderMin2 lp rp hlp hrp (e.full lp rp) (XExpr.full_wf lp rp hlp hrp e he) s nxt r h hstop

theorem parse_renderFull2_any_fuel (lp rp : Token) (hlp : lp.tt = .leftParen) (hrp : rp.tt = .rightParen)
    (e : XExpr) (he : e.WF) (s : PState) (nxt : Token) (r : List Token)
    (h : s.after = renderFull2 lp rp e ++ nxt :: r) (hstop : stopsExpr nxt.tt)
    (g : Nat) (hg : expression g s ≠ .fuel) :
    expression g s = .ok (groupAll2 lp rp e)
      { s with before := (renderFull2 lp rp e).reverse ++ s.before, after := nxt :: r } := by
  obtain ⟨f, hf⟩ := parse_renderFull2 lp rp hlp hrp e he s nxt r h hstop
  have h1 := (exprStab (Nat.le_max_left g f)).expression s hg
  rw [← h1]
  exact hf _ (Nat.le_max_right g f)

/-- **minimal and full parenthesisation give the same tree up to `.grouping` nodes**: both renderings parse,
in front of the same continuation, and both trees have the `stripGrouping` normal form `e.skel` -/
theorem minimal_equals_full (lp rp : Token) (hlp : lp.tt = .leftParen) (hrp : rp.tt = .rightParen)
    (e : XExpr) (he : e.WF) (s₁ s₂ : PState) (nxt : Token) (r : List Token)
    (h₁ : s₁.after = renderMin2 lp rp 1 e ++ nxt :: r) (h₂ : s₂.after = renderFull2 lp rp e ++ nxt :: r)
    (hstop : stopsExpr nxt.tt) :
    ∃ fuel t₁ t₂ s₁' s₂', (∀ g, fuel ≤ g → expression g s₁ = .ok t₁ s₁' ∧ expression g s₂ = .ok t₂ s₂') ∧
      t₁.stripGrouping = t₂.stripGrouping ∧ t₁.stripGrouping = e.skel ∧
      s₁'.after = nxt :: r ∧ s₂'.after = nxt :: r := by
  obtain ⟨f1, hf1⟩ := parse_renderMin2 lp rp hlp hrp e he s₁ nxt r h₁ hstop
  obtain ⟨f2, hf2⟩ := parse_renderFull2 lp rp hlp hrp e he s₂ nxt r h₂ hstop
  refine ⟨max f1 f2, _, _, _, _, fun g hg => ⟨hf1 g (by omega), hf2 g (by omega)⟩, ?_, ?_, rfl, rfl⟩
  · rw [treeMin2_strip, groupAll2_strip]
  · rw [treeMin2_strip]

/-- with any fuels that are not exhausted -/
theorem minimal_equals_full_any_fuel (lp rp : Token) (hlp : lp.tt = .leftParen) (hrp : rp.tt = .rightParen)
    (e : XExpr) (he : e.WF) (s₁ s₂ : PState) (nxt : Token) (r : List Token)
    (h₁ : s₁.after = renderMin2 lp rp 1 e ++ nxt :: r) (h₂ : s₂.after = renderFull2 lp rp e ++ nxt :: r)
    (hstop : stopsExpr nxt.tt) (g₁ g₂ : Nat) (hg₁ : expression g₁ s₁ ≠ .fuel) (hg₂ : expression g₂ s₂ ≠ .fuel) :
    ∃ t₁ t₂ s₁' s₂', expression g₁ s₁ = .ok t₁ s₁' ∧ expression g₂ s₂ = .ok t₂ s₂' ∧
      t₁.stripGrouping = t₂.stripGrouping :=
  ⟨_, _, _, _, parse_renderMin2_any_fuel lp rp hlp hrp e he s₁ nxt r h₁ hstop g₁ hg₁,
    parse_renderFull2_any_fuel lp rp hlp hrp e he s₂ nxt r h₂ hstop g₂ hg₂,
    by rw [treeMin2_strip, groupAll2_strip]⟩

/-- the minimal tree is a rendering of exactly the printed tokens, and respects the ladder -/
theorem treeMin2_shape (lp rp : Token) (hlp : lp.tt = .leftParen) (hrp : rp.tt = .rightParen)
    (e : XExpr) (he : e.WF) :
    Shape (treeMin2 lp rp 1 e) (renderMin2 lp rp 1 e) ∧ RespectsPrec (treeMin2 lp rp 1 e) := by
  let eof : Token := ⟨.eof, [], .none, 0, 0⟩
  obtain ⟨f, hf⟩ := parse_renderMin2 lp rp hlp hrp e he
    ⟨[], renderMin2 lp rp 1 e ++ [eof], false, false⟩ eof [] rfl (by decide)
  have hf' := hf f (Nat.le_refl f)
  refine ⟨?_, parse_respects_ladder _ _ _ _ hf'⟩
  obtain ⟨c, _, _, ha, hs, _⟩ := parse_sound _ _ _ _ hf'
  have : c = renderMin2 lp rp 1 e := by
    have ha' : renderMin2 lp rp 1 e ++ [eof] = c ++ [eof] := ha
    exact (List.append_cancel_right ha').symm
  rw [← this]; exact hs

/-! ## the evaluation level -/

/-- **the two trees evaluate alike**: with any fuels that are not exhausted, from similar states (e.g. the same
state), the results are similar -/
theorem minimal_and_full_evaluate_alike (cfg : Cfg) (lp rp : Token) (e : XExpr) (f₁ f₂ : Nat) {σ₁ σ₂ : St}
    (h : StSim σ₁ σ₂) (h1 : expr cfg f₁ (treeMin2 lp rp 1 e) σ₁ ≠ .fuel)
    (h2 : expr cfg f₂ (groupAll2 lp rp e) σ₂ ≠ .fuel) :
    VSim (expr cfg f₁ (treeMin2 lp rp 1 e) σ₁) (expr cfg f₂ (groupAll2 lp rp e) σ₂) :=
  eval_same_up_to_grouping cfg f₁ f₂ (by rw [treeMin2_strip, groupAll2_strip]) h h1 h2

/-- both are similar to the evaluation of the group-free tree of the expression -/
theorem minimal_evaluates_as_skeleton (cfg : Cfg) (lp rp : Token) (e : XExpr) {f g : Nat} (hfg : f ≤ g)
    {σ₁ σ₂ : St} (h : StSim σ₁ σ₂) (h1 : expr cfg f (treeMin2 lp rp 1 e) σ₁ ≠ .fuel) :
    VSim (expr cfg f (treeMin2 lp rp 1 e) σ₁) (expr cfg g e.skel σ₂) := by
  have := eval_stripGrouping cfg hfg (treeMin2 lp rp 1 e) h h1
  rwa [treeMin2_strip] at this

/-- **minimal and full parenthesisation behave identically** (parser and evaluator together): both token lists
parse, and the two trees, evaluated with any fuels that are not exhausted from any state, give similar results -/
theorem minimal_and_full_behave_identically (cfg : Cfg) (lp rp : Token) (hlp : lp.tt = .leftParen)
    (hrp : rp.tt = .rightParen) (e : XExpr) (he : e.WF) (s₁ s₂ : PState) (nxt : Token) (r : List Token)
    (h₁ : s₁.after = renderMin2 lp rp 1 e ++ nxt :: r) (h₂ : s₂.after = renderFull2 lp rp e ++ nxt :: r)
    (hstop : stopsExpr nxt.tt) :
    ∃ fuel t₁ t₂ s₁' s₂', (∀ g, fuel ≤ g → expression g s₁ = .ok t₁ s₁' ∧ expression g s₂ = .ok t₂ s₂') ∧
      s₁'.after = nxt :: r ∧ s₂'.after = nxt :: r ∧
      ∀ (f₁ f₂ : Nat) (σ : St), expr cfg f₁ t₁ σ ≠ .fuel → expr cfg f₂ t₂ σ ≠ .fuel →
        VSim (expr cfg f₁ t₁ σ) (expr cfg f₂ t₂ σ) := by
  obtain ⟨f, t₁, t₂, s₁', s₂', hp, hs, _, ha, hb⟩ :=
    minimal_equals_full lp rp hlp hrp e he s₁ s₂ nxt r h₁ h₂ hstop
  exact ⟨f, t₁, t₂, s₁', s₂', hp, ha, hb, fun f₁ f₂ σ n1 n2 =>
    eval_same_up_to_grouping cfg f₁ f₂ hs (StSim.refl σ) n1 n2⟩

/-- `VSim` is not trivially true: it separates different values and different kinds of outcome -/
example (σ : St) : ¬ VSim (.ok (Value.num 1, σ)) (.ok (Value.null, σ)) := by
  intro h; have := h.1; simp at this
example (σ : St) : ¬ VSim (.ok (Value.num 1, σ)) (.fuel) := id
example (σ : St) : ¬ VSim (rtErr "Invalid Type" (0, 1) σ : Res (Value × St)) (rtErr "Invalid List Index" (0, 1) σ) := by
  intro h; have := h.1; simp at this

/-- the old fragment is a sub-language: the embedding -/
def XExpr.ofS : SExpr → XExpr
  | .lit v tok => .lit v tok
  | .var tok => .var tok
  | .binary l op tok r => .binary (XExpr.ofS l) op tok (XExpr.ofS r)
  | .logical l op tok r => .logical (XExpr.ofS l) op tok (XExpr.ofS r)
  | .unary op tok r => .unary op tok (XExpr.ofS r)
  | .assign name arrow v => .assign name arrow (XExpr.ofS v)

/-- on the old fragment the new printer is the old one -/
theorem renderMin2_ofS (lp rp : Token) : ∀ (e : SExpr),
    ((XExpr.ofS e).me lp rp).lvl = e.level ∧ ((XExpr.ofS e).me lp rp).toks = rawMin lp rp e ∧
    ((XExpr.ofS e).me lp rp).tree = rawTree lp rp e
  | .lit v tok => ⟨rfl, rfl, rfl⟩
  | .var tok => ⟨rfl, rfl, rfl⟩
  | .binary l op tok r => by
    obtain ⟨a1, a2, a3⟩ := renderMin2_ofS lp rp l
    obtain ⟨b1, b2, b3⟩ := renderMin2_ofS lp rp r
    refine ⟨rfl, ?_, ?_⟩ <;>
    simp only [XExpr.ofS, XExpr.me, ME.binary, ME.render, ME.treeAt, a1, a2, a3, b1, b2, b3, rawMin, rawTree]
  | .logical l op tok r => by
    obtain ⟨a1, a2, a3⟩ := renderMin2_ofS lp rp l
    obtain ⟨b1, b2, b3⟩ := renderMin2_ofS lp rp r
    refine ⟨rfl, ?_, ?_⟩ <;>
    simp only [XExpr.ofS, XExpr.me, ME.logical, ME.render, ME.treeAt, a1, a2, a3, b1, b2, b3, rawMin, rawTree]
  | .unary op tok r => by
    obtain ⟨b1, b2, b3⟩ := renderMin2_ofS lp rp r
    refine ⟨rfl, ?_, ?_⟩ <;>
    simp only [XExpr.ofS, XExpr.me, ME.unary, ME.render, ME.treeAt, b1, b2, b3, rawMin, rawTree]
  | .assign name arrow v => by
    obtain ⟨b1, b2, b3⟩ := renderMin2_ofS lp rp v
    refine ⟨rfl, ?_, ?_⟩ <;>
    simp only [XExpr.ofS, XExpr.me, ME.assign, ME.render, ME.treeAt, b1, b2, b3, rawMin, rawTree]

/-! ## non-vacuity (token level, kernel-evaluated)

`f ( a [ 1 ] , [ b , g ( ) ] ) [ 2 ] <- x OR y` — an indexed assignment whose target is an index into the
result of a call whose arguments are an index expression and a list literal containing a call. Token `n`
stands at offset `n`; the inserted parentheses are at offsets 100 / 101. -/

namespace Demo05b

def lpT : Token := kwTok .leftParen 100
def rpT : Token := kwTok .rightParen 101
def comma (o : Nat) : Token := kwTok .comma o

/-- `f(a[1], [b, g()])[2] <- x OR y` -/
def ex1 : XExpr :=
  .set
    (.call (idTok ['f'] 0) (kwTok .leftParen 1)
      (.cons (.index (.var (idTok ['a'] 2)) (kwTok .leftBracket 3) (.lit (.num 1) (numTok 1 4)) (kwTok .rightBracket 5))
        (comma 6)
        (.one (.list (kwTok .leftBracket 7)
          (.cons (.var (idTok ['b'] 8)) (comma 9) (.one (.call0 (idTok ['g'] 10) (kwTok .leftParen 11) (kwTok .rightParen 12))))
          (kwTok .rightBracket 13))))
      (kwTok .rightParen 14))
    (kwTok .leftBracket 15) (.lit (.num 2) (numTok 2 16)) (kwTok .rightBracket 17)
    (kwTok .arrow 18)
    (.logical (.var (idTok ['x'] 19)) .or (kwTok .or_ 20) (.var (idTok ['y'] 21)))

theorem ex1_wf : ex1.WF := by
  simp only [ex1, XExpr.WF, XArgs.WF, XArgs.length]
  repeat' apply And.intro
  all_goals first | rfl | decide

/-- the minimal rendering needs no parentheses: the 22 tokens in order -/
example : (renderMin2 lpT rpT 1 ex1).map (·.off) = List.range 22 := by decide

/-- the kernel parses the printed tokens to an indexed assignment on a call with two arguments, the value an OR;
the diagnostic anchor of the index expression is the call's `)` (offset 14) -/
example : (match expression 60 (startOn (renderMin2 lpT rpT 1 ex1 ++ [kwTok .eof 22])) with
    | .ok (.set (.call name [.access (.var _ a) _ (.lit _ _) _ _, .list [.var _ b, .call _ [] _ _ _ _] _ _] spans _ _ _)
        lt (.lit _ two) _ _ (.logical (.var _ x) .or (.var _ y) _) _) s' =>
      name == ['f'] && a.off == 2 && b.off == 8 && two.off == 16 && x.off == 19 && y.off == 21 && lt.off == 14 &&
        spans.length == 2 && s'.after.length == 1
    | _ => false) = true := by decide +kernel

/-- the fully parenthesised rendering: `(f((a[1]), ([b, (g())])))[2] <- (x OR y)` -/
example : (renderFull2 lpT rpT ex1).map (·.off) =
    [100, 0, 1, 100, 2, 3, 4, 5, 101, 6, 100, 7, 8, 9, 100, 10, 11, 12, 101, 13, 101, 14, 101, 15, 16, 17, 18,
      100, 19, 20, 21, 101] := by decide

/-- … and the kernel parses it, to a tree whose index expression is anchored at the inserted `)` -/
example : (match expression 80 (startOn (renderFull2 lpT rpT ex1 ++ [kwTok .eof 22])) with
    | .ok (.set (.grouping (.call _ [.grouping _ _ _, .grouping _ _ _] _ _ _ _) _ _) lt _ _ _ (.grouping _ _ _) _) s' =>
      lt.off == 101 && s'.after.length == 1
    | _ => false) = true := by decide +kernel

/-- the theorem applied to the example -/
theorem ex1_parses : ∃ fuel, ∀ g, fuel ≤ g →
    expression g (startOn (renderMin2 lpT rpT 1 ex1 ++ [kwTok .eof 22])) =
      .ok (treeMin2 lpT rpT 1 ex1) ⟨(renderMin2 lpT rpT 1 ex1).reverse, [kwTok .eof 22], false, false⟩ := by
  obtain ⟨f, hf⟩ := parse_renderMin2 lpT rpT rfl rfl ex1 ex1_wf (startOn (renderMin2 lpT rpT 1 ex1 ++ [kwTok .eof 22]))
    (kwTok .eof 22) [] rfl (by decide)
  exact ⟨f, fun g hg => by rw [hf g hg]; simp [startOn]⟩

/-- assignment groups to the right, also through indexed targets: `a[0] <- x <- b[1] <- 2` needs no parentheses
and is `a[0] <- (x <- (b[1] <- 2))` -/
def ex2 : XExpr :=
  .set (.var (idTok ['a'] 0)) (kwTok .leftBracket 1) (.lit (.num 0) (numTok 0 2)) (kwTok .rightBracket 3) (kwTok .arrow 4)
    (.assign (idTok ['x'] 5) (kwTok .arrow 6)
      (.set (.var (idTok ['b'] 7)) (kwTok .leftBracket 8) (.lit (.num 1) (numTok 1 9)) (kwTok .rightBracket 10)
        (kwTok .arrow 11) (.lit (.num 2) (numTok 2 12))))

example : (renderMin2 lpT rpT 1 ex2).map (·.off) = List.range 13 := by decide
example : (match expression 60 (startOn (renderMin2 lpT rpT 1 ex2 ++ [kwTok .eof 13])) with
    | .ok (.set (.var _ a) _ _ _ _ (.assign _ x (.set (.var _ b) _ _ _ _ (.lit _ two) _) _) _) s' =>
      a.off == 0 && x.off == 5 && b.off == 7 && two.off == 12 && s'.after.length == 1
    | _ => false) = true := by decide +kernel
/-- an assignment as an operand or as an indexed base is parenthesised; as an argument, item or index it is not -/
example : (renderMin2 lpT rpT 1
    (.binary (.assign (idTok ['x'] 0) (kwTok .arrow 1) (.lit (.num 1) (numTok 1 2))) .add (kwTok .plus 3)
      (.lit (.num 2) (numTok 2 4)))).map (·.off) = [100, 0, 1, 2, 101, 3, 4] := by decide
example : (renderMin2 lpT rpT 1
    (.call (idTok ['f'] 0) (kwTok .leftParen 1)
      (.one (.assign (idTok ['x'] 2) (kwTok .arrow 3) (.lit (.num 1) (numTok 1 4)))) (kwTok .rightParen 5))).map (·.off)
    = List.range 6 := by decide

/-- where the ladder requires parentheses they are written: `(a + b)[i]`, `(- a)[i]`, `(x <- 1)[0]`,
`- a[i]` (none), `a[i][j]` (none), `(a[i])[j]` written by the author stays -/
example : (renderMin2 lpT rpT 1
    (.index (.binary (.var (idTok ['a'] 0)) .add (kwTok .plus 1) (.var (idTok ['b'] 2))) (kwTok .leftBracket 3)
      (.var (idTok ['i'] 4)) (kwTok .rightBracket 5))).map (·.off) = [100, 0, 1, 2, 101, 3, 4, 5] := by decide
example : (renderMin2 lpT rpT 1
    (.index (.unary .neg (kwTok .minus 0) (.var (idTok ['a'] 1))) (kwTok .leftBracket 2)
      (.var (idTok ['i'] 3)) (kwTok .rightBracket 4))).map (·.off) = [100, 0, 1, 101, 2, 3, 4] := by decide
example : (renderMin2 lpT rpT 1
    (.unary .neg (kwTok .minus 0) (.index (.var (idTok ['a'] 1)) (kwTok .leftBracket 2)
      (.var (idTok ['i'] 3)) (kwTok .rightBracket 4)))).map (·.off) = [0, 1, 2, 3, 4] := by decide
example : (renderMin2 lpT rpT 1
    (.index (.index (.var (idTok ['a'] 0)) (kwTok .leftBracket 1) (.var (idTok ['i'] 2)) (kwTok .rightBracket 3))
      (kwTok .leftBracket 4) (.var (idTok ['j'] 5)) (kwTok .rightBracket 6))).map (·.off) = [0, 1, 2, 3, 4, 5, 6] := by
  decide
example : (renderMin2 lpT rpT 1
    (.index (.paren (kwTok .leftParen 0) (.index (.var (idTok ['a'] 1)) (kwTok .leftBracket 2) (.var (idTok ['i'] 3))
        (kwTok .rightBracket 4)) (kwTok .rightParen 5))
      (kwTok .leftBracket 6) (.var (idTok ['j'] 7)) (kwTok .rightBracket 8))).map (·.off) = List.range 9 := by decide

/-- `a[i][j]`: both index nodes are anchored at `a` (the primary the chain started from) -/
example : (match expression 40 (startOn [idTok ['a'] 0, kwTok .leftBracket 1, idTok ['i'] 2, kwTok .rightBracket 3,
      kwTok .leftBracket 4, idTok ['j'] 5, kwTok .rightBracket 6, kwTok .eof 7]) with
    | .ok (.access (.access (.var _ _) lt1 _ _ _) lt2 _ _ _) s' => lt1.off == 0 && lt2.off == 0 && s'.after.length == 1
    | _ => false) = true := by decide

/-! the evaluation level: `[10, 20, 30][1 + 1]` evaluates to `20` with either tree; with 6 units of fuel the
minimal tree is evaluated while the fully parenthesised one (two more nodes on its deepest path) runs out —
the reason why `minimal_and_full_evaluate_alike` is stated for fuels that are not exhausted -/

def σe : St := { world := {}, filePath := [], budget := 100 }
/-- `[10, 20, 30][1 + 1]` -/
def exE : XExpr :=
  .index (.list (kwTok .leftBracket 0)
      (.cons (.lit (.num 10) (numTok 10 1)) (comma 2)
        (.cons (.lit (.num 20) (numTok 20 3)) (comma 4) (.one (.lit (.num 30) (numTok 30 5)))))
      (kwTok .rightBracket 6))
    (kwTok .leftBracket 7)
    (.binary (.lit (.num 1) (numTok 1 8)) .add (kwTok .plus 9) (.lit (.num 1) (numTok 1 10))) (kwTok .rightBracket 11)

example : (renderFull2 lpT rpT exE).map (·.off) = [100, 0, 1, 2, 3, 4, 5, 6, 101, 7, 100, 8, 9, 10, 101, 11] := by
  decide
example (cfg : Cfg) : (match expr cfg 10 (treeMin2 lpT rpT 1 exE) σe with
    | .ok (.num x, _) => x == 20 | _ => false) = true := rfl
example (cfg : Cfg) : (match expr cfg 10 (groupAll2 lpT rpT exE) σe with
    | .ok (.num x, _) => x == 20 | _ => false) = true := rfl
example (cfg : Cfg) : (match expr cfg 6 (treeMin2 lpT rpT 1 exE) σe with
    | .ok (.num x, _) => x == 20 | _ => false) = true := rfl
example (cfg : Cfg) : (match expr cfg 6 (groupAll2 lpT rpT exE) σe with | .fuel => true | _ => false) = true := rfl

/-- `stripGrouping` is not the identity and not constant -/
example : (Expr.grouping (.var ['a'] (idTok ['a'] 0)) lpT rpT).stripGrouping = .var ['a'] (idTok ['a'] 0) := rfl

end Demo05b

end Aplang
