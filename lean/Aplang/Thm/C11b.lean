import Aplang.Thm.C11
import Aplang.Proofs.SpanInLexer
import Aplang.Proofs.SpanInParser
import Aplang.Proofs.SpanInEval
import Aplang.Proofs.FsLemmas
/-!
# C11 (first sentence, global form) — every diagnostic labels byte ranges inside the source, on character boundaries

`Thm/C11` is the catalogue: which token / bracket interior / argument span each error site labels. This file is
the global statement, for the whole pipeline `lex → parse → run`:

`InSrc src sp` — `sp.1 + sp.2 ≤ ulen src`, and `sp.1` and `sp.1 + sp.2` are byte offsets of character boundaries
of `src` (`Bd`) — so the labelled text can be sliced out of the source (`InSrc.slice`) and rendered with its line.

* `lex_tokens_in_source`: every token of the lexer's output, **the end-of-input marker included** (the parser labels
  it when input ends early);
* `lex_error_labels_in_source`: every label of every lexical diagnostic;
* `parse_labels_in_source`: every label of every syntax diagnostic, for every fuel (`parse_tree_in_source`: every
  token and argument span stored in an accepted tree);
* `run_rtErr_span_in_source`: **a run that ends with a runtime error labels a range inside the source**, for every
  program whose IMPORT statements all name library modules (`NoFileImport`: the error is then raised by code of the
  main text or by a native procedure called from it). Hypothesis on a general configuration: the registry holds native
  procedures only (`CfgNative`; true of the live configuration, `_live`).
* `run_rtErr_span_in_sources`: the module-aware statement. A procedure imported from a user module carries the
  *module's* positions (the model's tokens, unlike the Rust's, do not carry a pointer to their text), so the range
  is inside the main text **or inside the text of a module file** — here for runs that cannot change the files
  (`NoFsWrite`: no IMPORT of a module holding one of the eight mutating FS procedures, in the main text and in
  every file): then the module file is one of the files of the initial world. The example at the end shows that the
  disjunction is needed: the range of an error raised inside an imported procedure lies *outside* the main text.

* `run_rtErr_span_general`: the form both follow from — any family of origins, IMPORT condition, set of reachable
  natives and world invariant tied to the configuration by `EvalHyp` (`Proofs/SpanInEval`);
  `run_rtErr_span_in_texts`: its instance for runs that may write files, relative to a set `T` of texts closed under
  the native calls (no hypothesis on the program).

None of the derived ranges (`spanBetween`, `interior`, the argument windows) needs an ordering hypothesis: their
length is a truncated subtraction, so two tokens standing the other way round give the empty range at the end of
the first one (`spanBetween_in`).
-/
namespace Aplang

/-! ## lexical -/

/-- **every token of the lexer's output is in the source**, the end-of-input marker included -/
theorem lex_tokens_in_source (cfg : LexCfg) (src : Str) :
    ∀ t ∈ (lex cfg src).tokens, InSrc src t.span :=
  fun t ht => (lex_tokens_in cfg src t ht).span.inSrc

/-- **every label of every lexical diagnostic is in the source** -/
theorem lex_error_labels_in_source (cfg : LexCfg) (src : Str) :
    ∀ e ∈ (lex cfg src).errors, ∀ l ∈ e.labels, InSrc src l :=
  fun e he l hl => (lex_errors_in cfg src e he l hl).inSrc

/-! ## syntactic -/

/-- **every label of every syntax diagnostic is in the source**, for every fuel -/
theorem parse_labels_in_source (cfg : LexCfg) (fuel : Nat) (src : Str) (es : List PErr)
    (h : parse fuel (lex cfg src).tokens = .errs es) : ∀ e ∈ es, ∀ l ∈ e.labels, InSrc src l := by
  have := parse_in (pos := Bd src) fuel _ (lex_tokens_in cfg src)
  rw [h] at this
  exact fun e he l hl => (this e he l hl).inSrc

/-- the same from any token list whose tokens are in (e.g. a hand-written one) -/
theorem parse_labels_in (pos : Nat → Prop) (fuel : Nat) (ts : List Token) (hts : ∀ t ∈ ts, TokIn pos t)
    (es : List PErr) (h : parse fuel ts = .errs es) : ∀ e ∈ es, ∀ l ∈ e.labels, SpIn pos l := by
  have := parse_in fuel ts hts
  rw [h] at this
  exact this

/-- every token and every argument span of an accepted tree is in the source -/
theorem parse_tree_in_source (cfg : LexCfg) (fuel : Nat) (src : Str) (prog : List Stmt)
    (h : parse fuel (lex cfg src).tokens = .ok prog) : StmtsIn (Bd src) (fun _ => True) prog := by
  have := parse_in (pos := Bd src) fuel _ (lex_tokens_in cfg src)
  rw [h] at this
  exact (StmtsIn_iff prog).mpr this

/-! ## runtime: programs that import library modules only -/

/-- the registry holds native procedures only -/
def CfgNative (cfg : Cfg) : Prop := ∀ name table, cfg.modules name = some table → ∀ e ∈ table, ∃ n, e.2 = .native n

/-- the module-name token names a library module -/
def LibImport (cfg : Cfg) (tok : Token) : Prop := ∀ name, tok.lit = .str name → cfg.modules name ≠ none

/-- every IMPORT statement of the program, at any depth, names a library module -/
def NoFileImport (cfg : Cfg) (prog : List Stmt) : Prop := StmtsIn (fun _ => True) (LibImport cfg) prog

theorem CfgNative.table {cfg : Cfg} (hc : CfgNative cfg) {F : (Nat → Prop) → Prop} {M : Token → Prop}
    {N : Native → Prop} (hN : ∀ n, N n) {name table} (h : cfg.modules name = some table) : TableIn F M N table := by
  intro e he
  obtain ⟨n, hn⟩ := hc name table h e he
  rw [hn]; exact hN n

theorem CfgNative.core {cfg : Cfg} (hc : CfgNative cfg) {F : (Nat → Prop) → Prop} {M : Token → Prop}
    {N : Native → Prop} (hN : ∀ n, N n) : TableIn F M N ((cfg.modules "CORE".toList).getD []) := by
  cases h : cfg.modules "CORE".toList with
  | none => exact TableIn.nil
  | some t => exact hc.table hN h

/-- the hypotheses of the evaluator induction for one origin and library imports only -/
theorem evalHyp_lib (cfg : Cfg) (hc : CfgNative cfg) (pos : Nat → Prop) :
    EvalHyp cfg (· = pos) (LibImport cfg) (fun _ => True) (fun _ => True) where
  core := hc.core (fun _ => trivial)
  mods := fun _ _ _ _ _ h => hc.table (fun _ => trivial) h
  nat := fun _ _ _ _ _ _ _ _ _ => trivial
  imp := fun _ name _ _ _ _ hM hl hn _ _ _ _ => absurd hn (hM name hl)

theorem initState_in (cfg : Cfg) {F : (Nat → Prop) → Prop} {M : Token → Prop} {N : Native → Prop} {W : World → Prop}
    (hcore : TableIn F M N ((cfg.modules "CORE".toList).getD [])) (world : World) (hw : W world) (path : Str)
    (budget : Nat) : StIn F M N W (initState cfg world path budget) :=
  ⟨TableIn.nil.extend hcore, TableIn.nil, hw⟩

/-- the evaluator on a tree whose tokens are in and whose IMPORTs name library modules, from the initial state -/
theorem program_rtErr_span_in (cfg : Cfg) (hc : CfgNative cfg) (pos : Nat → Prop) (fuel : Nat) (prog : List Stmt)
    (hp : StmtsIn pos (LibImport cfg) prog) (world : World) (path : Str) (budget : Nat) (e : RtErr) (σ : St)
    (h : program cfg fuel prog (initState cfg world path budget) = .err e σ) : SpIn pos e.span := by
  have := (inAll (evalHyp_lib cfg hc pos) fuel).program pos rfl prog _ hp
    (initState_in cfg (hc.core (fun _ => trivial)) world trivial path budget)
  rw [h] at this
  obtain ⟨pos', rfl, hsp⟩ := this
  exact hsp

/-- from a token list whose tokens are in -/
theorem runTokens_rtErr_span_in (cfg : Cfg) (hc : CfgNative cfg) (pos : Nat → Prop) (fuel : Nat) (ts : List Token)
    (hts : ∀ t ∈ ts, TokIn pos t)
    (hni : ∀ prog, parse (parseFuel ts.length) ts = .ok prog → NoFileImport cfg prog)
    (world : World) (path : Str) (e : RtErr) (h : (runTokens cfg fuel ts world path).status = .rtErr e) :
    SpIn pos e.span := by
  unfold runTokens at h
  have hpin := parse_in (pos := pos) (parseFuel ts.length) ts hts
  cases hp : parse (parseFuel ts.length) ts with
  | errs es => rw [hp] at h; cases h
  | panic p => rw [hp] at h; cases h
  | fuel => rw [hp] at h; cases h
  | ok prog =>
    rw [hp] at h hpin
    have hprog : StmtsIn pos (LibImport cfg) prog :=
      StmtsIn.both prog ((StmtsIn_iff prog).mpr hpin) (hni prog hp)
    dsimp only at h
    cases hr : program cfg fuel prog (initState cfg world path) with
    | ok σ => rw [hr] at h; cases h
    | terminate w σ => rw [hr] at h; cases h
    | panic p o => rw [hr] at h; cases h
    | fuel => rw [hr] at h; cases h
    | err e' σ =>
      rw [hr] at h
      cases h
      exact program_rtErr_span_in cfg hc pos fuel prog hprog world path _ e σ hr

/-- **C11, runtime diagnostics**: if a run of the whole pipeline on `src` ends with a runtime error and the program
imports library modules only, the error's range lies inside `src`, on character boundaries — whatever the world
(standard input, random choices, clock, files) and the fuel -/
theorem run_rtErr_span_in_source (cfg : Cfg) (hc : CfgNative cfg) (fuel : Nat) (src : Str) (world : World) (path : Str)
    (hni : ∀ prog, parse (parseFuel (lex cfg.lex src).tokens.length) (lex cfg.lex src).tokens = .ok prog →
      NoFileImport cfg prog)
    (e : RtErr) (h : (run cfg fuel src world path).status = .rtErr e) : InSrc src e.span := by
  unfold run at h
  dsimp only at h
  split at h
  · cases h
  · exact (runTokens_rtErr_span_in cfg hc (Bd src) fuel _ (lex_tokens_in cfg.lex src) hni world path e h).inSrc

/-! ## runtime: the general form (any family of origins) -/

/-- **the general statement**: for any family of origins `F`, IMPORT condition `M`, set of natives `N` and world
invariant `W` tied to the configuration by `EvalHyp` (see `Proofs/SpanInEval`): if the main text is an origin, the
initial world satisfies the invariant and the accepted program's IMPORTs satisfy `M`, then a run that ends with a
runtime error labels a range that is in for one of the origins. The two theorems about `InSrc` are instances. -/
theorem run_rtErr_span_general (cfg : Cfg) {F : (Nat → Prop) → Prop} {M : Token → Prop} {N : Native → Prop}
    {W : World → Prop} (hyp : EvalHyp cfg F M N W) (fuel : Nat) (src : Str) (world : World) (path : Str)
    (hsrc : F (Bd src)) (hw : W world)
    (hmain : ∀ prog, parse (parseFuel (lex cfg.lex src).tokens.length) (lex cfg.lex src).tokens = .ok prog →
      StmtsIn (fun _ => True) M prog)
    (e : RtErr) (h : (run cfg fuel src world path).status = .rtErr e) : GoodSp F e.span := by
  unfold run at h
  dsimp only at h
  split at h
  · cases h
  · unfold runTokens at h
    cases hp : parse (parseFuel (lex cfg.lex src).tokens.length) (lex cfg.lex src).tokens with
    | errs es => rw [hp] at h; cases h
    | panic p => rw [hp] at h; cases h
    | fuel => rw [hp] at h; cases h
    | ok prog =>
      rw [hp] at h
      have hprog : StmtsIn (Bd src) M prog :=
        StmtsIn.both prog (parse_tree_in_source cfg.lex _ src prog hp) (hmain prog hp)
      dsimp only at h
      have hres := (inAll hyp fuel).program (Bd src) hsrc prog _ hprog
        (initState_in (W := W) cfg hyp.core world hw path 40000)
      cases hr : program cfg fuel prog (initState cfg world path) with
      | ok σ => rw [hr] at h; cases h
      | terminate w σ => rw [hr] at h; cases h
      | panic p o => rw [hr] at h; cases h
      | fuel => rw [hr] at h; cases h
      | err e' σ =>
        rw [hr] at h hres
        cases h
        exact hres

/-! ## runtime: with user modules, when the run cannot change the files -/

/-- no procedure of the library module `name` changes the files -/
def ModReadOnly (cfg : Cfg) (name : Str) : Prop :=
  ∀ table, cfg.modules name = some table → ∀ e ∈ table, ∀ n, e.2 = .native n → n.fsWrites = false

/-- the IMPORT names a user module or a library module that cannot change the files -/
def ReadOnlyImport (cfg : Cfg) (tok : Token) : Prop := ∀ name, tok.lit = .str name → ModReadOnly cfg name

/-- no IMPORT statement of the program, at any depth, names a library module that can change the files -/
def NoFsWrite (cfg : Cfg) (prog : List Stmt) : Prop := StmtsIn (fun _ => True) (ReadOnlyImport cfg) prog

/-- the origins: the main text and the texts of the files of the world -/
def Origins (src : Str) (world : World) (pos : Nat → Prop) : Prop :=
  pos = Bd src ∨ ∃ p text, Fs.fileRead world.fs p = some text ∧ pos = Bd text

/-- every file of the world that is a syntactically valid module imports no module that can change the files -/
def FilesNoFsWrite (cfg : Cfg) (world : World) : Prop :=
  ∀ p text prog, Fs.fileRead world.fs p = some text → (lex cfg.lex text).errors.isEmpty = true →
    parse (parseFuel (lex cfg.lex text).tokens.length) (lex cfg.lex text).tokens = .ok prog → NoFsWrite cfg prog

theorem evalHyp_readonly (cfg : Cfg) (hc : CfgNative cfg) (hcore : ModReadOnly cfg "CORE".toList) (src : Str)
    (world : World) (hfiles : FilesNoFsWrite cfg world) :
    EvalHyp cfg (Origins src world) (ReadOnlyImport cfg) (fun n => n.fsWrites = false) (fun w => w.fs = world.fs) where
  core := by
    cases h : cfg.modules "CORE".toList with
    | none => exact TableIn.nil
    | some t =>
      intro e he
      obtain ⟨n, hn⟩ := hc _ t h e he
      rw [hn]; exact hcore t h e he n hn
  mods := by
    intro tok name table hM hl h e he
    obtain ⟨n, hn⟩ := hc _ table h e he
    rw [hn]; exact hM name hl table h e he n hn
  nat := by
    intro n vs spans σ v σ' hn hw hr
    exact (callNative_fs_same cfg.chars n vs spans σ hn v σ' hr).trans hw
  imp := by
    intro tok name w path text prog _ _ _ hw hread hlex hparse
    rw [hw] at hread
    refine ⟨Bd text, Or.inr ⟨path, text, hread, rfl⟩, ?_⟩
    exact StmtsIn.both prog (parse_tree_in_source cfg.lex _ text prog hparse) (hfiles path text prog hread hlex hparse)

/-- **C11, runtime diagnostics, with user modules**: if neither the main text nor any file of the world imports a
library module that can change the files, a run that ends with a runtime error labels a range inside the main text
or inside the text of one of the files of the world (the module whose procedure raised it) -/
theorem run_rtErr_span_in_sources (cfg : Cfg) (hc : CfgNative cfg) (hcore : ModReadOnly cfg "CORE".toList)
    (fuel : Nat) (src : Str) (world : World) (path : Str)
    (hmain : ∀ prog, parse (parseFuel (lex cfg.lex src).tokens.length) (lex cfg.lex src).tokens = .ok prog →
      NoFsWrite cfg prog)
    (hfiles : FilesNoFsWrite cfg world)
    (e : RtErr) (h : (run cfg fuel src world path).status = .rtErr e) :
    InSrc src e.span ∨ ∃ p text, Fs.fileRead world.fs p = some text ∧ InSrc text e.span := by
  obtain ⟨pos, hF, hsp⟩ := run_rtErr_span_general cfg (evalHyp_readonly cfg hc hcore src world hfiles) fuel src world
    path (Or.inl rfl) rfl hmain e h
  rcases hF with rfl | ⟨p, text, hread, rfl⟩
  · exact Or.inl hsp.inSrc
  · exact Or.inr ⟨p, text, hread, hsp.inSrc⟩

theorem OptExprIn.triv (e : Option Expr) : OptExprIn (fun _ => True) e := by
  cases e with
  | none => trivial
  | some e => exact ExprIn.triv e

mutual
/-- no condition at all -/
theorem StmtIn.triv : ∀ (s : Stmt), StmtIn (fun _ => True) (fun _ => True) s
  | .expr e => by simp only [StmtIn]; exact ExprIn.triv e
  | .ifs c t e _ et => by
    simp only [StmtIn]
    exact ⟨ExprIn.triv c, StmtIn.triv t, OptStmtIn.triv e, ⟨trivial, trivial⟩, OptTokIn.triv et⟩
  | .repeatTimes c b _ _ _ => by
    simp only [StmtIn]
    exact ⟨ExprIn.triv c, StmtIn.triv b, ⟨trivial, trivial⟩, ⟨trivial, trivial⟩, trivial, trivial⟩
  | .repeatUntil c b _ _ => by
    simp only [StmtIn]
    exact ⟨ExprIn.triv c, StmtIn.triv b, ⟨trivial, trivial⟩, trivial, trivial⟩
  | .forEach _ _ l b _ _ _ _ => by
    simp only [StmtIn]
    exact ⟨ExprIn.triv l, StmtIn.triv b, ⟨trivial, trivial⟩, ⟨trivial, trivial⟩, ⟨trivial, trivial⟩,
      ⟨trivial, trivial⟩, trivial, trivial⟩
  | .procDecl _ _ b _ _ _ => by
    simp only [StmtIn]
    exact ⟨StmtIn.triv b, fun _ _ => ⟨trivial, trivial⟩, ⟨trivial, trivial⟩, trivial, trivial⟩
  | .block _ ss _ => by
    simp only [StmtIn]
    exact ⟨StmtsIn.triv ss, ⟨trivial, trivial⟩, trivial, trivial⟩
  | .ret _ v => by simp only [StmtIn]; exact ⟨OptExprIn.triv v, trivial, trivial⟩
  | .cont _ => by simp only [StmtIn]; exact ⟨trivial, trivial⟩
  | .brk _ => by simp only [StmtIn]; exact ⟨trivial, trivial⟩
  | .import_ _ _ ft _ _ => by
    simp only [StmtIn]
    exact ⟨⟨trivial, trivial⟩, ⟨trivial, trivial⟩, OptTokIn.triv ft, fun _ _ _ _ => ⟨trivial, trivial⟩,
      ⟨trivial, trivial⟩, trivial⟩
theorem OptStmtIn.triv : ∀ (s : Option Stmt), OptStmtIn (fun _ => True) (fun _ => True) s
  | none => trivial
  | some s => by simp only [OptStmtIn]; exact StmtIn.triv s
theorem StmtsIn.triv : ∀ (ss : List Stmt), StmtsIn (fun _ => True) (fun _ => True) ss
  | [] => trivial
  | s :: ss => by simp only [StmtsIn]; exact ⟨StmtIn.triv s, StmtsIn.triv ss⟩
end

/-- every file of the world holds a text of the set `T` -/
def FilesIn (T : Str → Prop) (w : World) : Prop := ∀ p text, Fs.fileRead w.fs p = some text → T text

/-- **with user modules, for runs that may write files**: let `T` be any set of texts that contains the files of the
initial world and is kept by every native call (an over-approximation of what a file may hold while the program
runs). Then a runtime error labels a range inside the main text or inside a text of `T` — the text the module file held
when it was imported. No hypothesis on the program. (The model's tokens do not carry a pointer to their text, as the
Rust's do; a statement naming *the* imported file's text would need that pointer, or an evaluator instrumented with
the list of texts it imported.) -/
theorem run_rtErr_span_in_texts (cfg : Cfg) (hc : CfgNative cfg) (T : Str → Prop) (fuel : Nat) (src : Str)
    (world : World) (path : Str) (hinit : FilesIn T world)
    (hclosed : ∀ n vs spans σ v σ', FilesIn T σ.world → callNative cfg.chars n vs spans σ = .ok (v, σ') →
      FilesIn T σ'.world)
    (e : RtErr) (h : (run cfg fuel src world path).status = .rtErr e) :
    InSrc src e.span ∨ ∃ text, T text ∧ InSrc text e.span := by
  have hyp : EvalHyp cfg (fun pos => pos = Bd src ∨ ∃ text, T text ∧ pos = Bd text) (fun _ => True) (fun _ => True)
      (FilesIn T) :=
    { core := hc.core (fun _ => trivial)
      mods := fun _ _ _ _ _ hm => hc.table (fun _ => trivial) hm
      nat := fun n vs spans σ v σ' _ hw hr => hclosed n vs spans σ v σ' hw hr
      imp := fun _ _ w p text prog _ _ _ hw hread _ hparse =>
        ⟨Bd text, Or.inr ⟨text, hw p text hread, rfl⟩, parse_tree_in_source cfg.lex _ text prog hparse⟩ }
  obtain ⟨pos, hF, hsp⟩ := run_rtErr_span_general cfg hyp fuel src world path (Or.inl rfl) hinit
    (fun prog _ => StmtsIn.triv prog) e h
  rcases hF with rfl | ⟨text, ht, rfl⟩
  · exact Or.inl hsp.inSrc
  · exact Or.inr ⟨text, ht, hsp.inSrc⟩

/-! ## the live configuration -/

theorem stdModule_native (name : Str) (table : FunTable) (h : stdModule name = some table) :
    ∀ e ∈ table, ∃ n, e.2 = .native n ∧ n.module.toList = name := by
  unfold stdModule at h
  dsimp only at h
  split at h
  · cases h
  · cases h
    intro e he
    simp only [List.mem_map, List.mem_filter] at he
    obtain ⟨n, ⟨_, hn⟩, rfl⟩ := he
    exact ⟨n, rfl, by simpa using hn⟩

theorem genCfg_native (chars : CharEnv) : CfgNative (genCfg chars) := fun name table h e he => by
  obtain ⟨n, hn, _⟩ := stdModule_native name table h e he
  exact ⟨n, hn⟩

theorem fsWrites_module (n : Native) (h : n.fsWrites = true) : n.module = "FS" := by
  cases n <;> first | rfl | exact absurd h (by decide)

/-- in the live registry only the FS module can change the files -/
theorem genCfg_modReadOnly (chars : CharEnv) (name : Str) (hne : name ≠ "FS".toList) :
    ModReadOnly (genCfg chars) name := by
  intro table h e he n hn
  obtain ⟨n', hn', hmod⟩ := stdModule_native name table h e he
  rw [hn] at hn'
  cases hn'
  cases hw : n.fsWrites with
  | false => rfl
  | true => exact absurd (by rw [← hmod, fsWrites_module n hw]) hne

/-- an IMPORT that does not name `"FS"` is read-only in the live configuration -/
theorem readOnlyImport_live (chars : CharEnv) (tok : Token) (h : tok.lit ≠ .str "FS".toList) :
    ReadOnlyImport (genCfg chars) tok := by
  intro name hl
  exact genCfg_modReadOnly chars name (by rintro rfl; exact h hl)

theorem run_rtErr_span_in_source_live (chars : CharEnv) (fuel : Nat) (src : Str) (world : World) (path : Str)
    (hni : ∀ prog, parse (parseFuel (lex (genCfg chars).lex src).tokens.length) (lex (genCfg chars).lex src).tokens =
      .ok prog → NoFileImport (genCfg chars) prog)
    (e : RtErr) (h : (run (genCfg chars) fuel src world path).status = .rtErr e) : InSrc src e.span :=
  run_rtErr_span_in_source _ (genCfg_native chars) fuel src world path hni e h

theorem run_rtErr_span_in_sources_live (chars : CharEnv) (fuel : Nat) (src : Str) (world : World) (path : Str)
    (hmain : ∀ prog, parse (parseFuel (lex (genCfg chars).lex src).tokens.length)
      (lex (genCfg chars).lex src).tokens = .ok prog → NoFsWrite (genCfg chars) prog)
    (hfiles : FilesNoFsWrite (genCfg chars) world)
    (e : RtErr) (h : (run (genCfg chars) fuel src world path).status = .rtErr e) :
    InSrc src e.span ∨ ∃ p text, Fs.fileRead world.fs p = some text ∧ InSrc text e.span :=
  run_rtErr_span_in_sources _ (genCfg_native chars) (genCfg_modReadOnly chars _ (by decide)) fuel src world path
    hmain hfiles e h

/-! ## a decidable sufficient condition for the hypotheses on IMPORT statements -/

mutual
/-- every IMPORT statement's module-name token passes the test `ok` -/
def Stmt.importsOK (ok : Token → Bool) : Stmt → Bool
  | .expr _ => true
  | .ifs _ t e _ _ => Stmt.importsOK ok t && optImportsOK ok e
  | .repeatTimes _ b _ _ _ => Stmt.importsOK ok b
  | .repeatUntil _ b _ _ => Stmt.importsOK ok b
  | .forEach _ _ _ b _ _ _ _ => Stmt.importsOK ok b
  | .procDecl _ _ b _ _ _ => Stmt.importsOK ok b
  | .block _ ss _ => stmtsImportsOK ok ss
  | .ret _ _ => true
  | .cont _ => true
  | .brk _ => true
  | .import_ _ _ _ _ modName => ok modName
def optImportsOK (ok : Token → Bool) : Option Stmt → Bool
  | none => true
  | some s => Stmt.importsOK ok s
def stmtsImportsOK (ok : Token → Bool) : List Stmt → Bool
  | [] => true
  | s :: ss => Stmt.importsOK ok s && stmtsImportsOK ok ss
end

mutual
theorem Stmt.importsOK_sound {ok : Token → Bool} {M : Token → Prop} (hok : ∀ t, ok t = true → M t) :
    ∀ (s : Stmt), Stmt.importsOK ok s = true → StmtIn (fun _ => True) M s
  | .expr e, _ => by simp only [StmtIn]; exact ExprIn.triv e
  | .ifs c t e _ et, h => by
    simp only [Stmt.importsOK, Bool.and_eq_true] at h
    simp only [StmtIn]
    exact ⟨ExprIn.triv c, Stmt.importsOK_sound hok t h.1, optImportsOK_sound hok e h.2, ⟨trivial, trivial⟩,
      OptTokIn.triv et⟩
  | .repeatTimes c b _ _ _, h => by
    simp only [Stmt.importsOK] at h
    simp only [StmtIn]
    exact ⟨ExprIn.triv c, Stmt.importsOK_sound hok b h, ⟨trivial, trivial⟩, ⟨trivial, trivial⟩, trivial, trivial⟩
  | .repeatUntil c b _ _, h => by
    simp only [Stmt.importsOK] at h
    simp only [StmtIn]
    exact ⟨ExprIn.triv c, Stmt.importsOK_sound hok b h, ⟨trivial, trivial⟩, trivial, trivial⟩
  | .forEach _ _ l b _ _ _ _, h => by
    simp only [Stmt.importsOK] at h
    simp only [StmtIn]
    exact ⟨ExprIn.triv l, Stmt.importsOK_sound hok b h, ⟨trivial, trivial⟩, ⟨trivial, trivial⟩, ⟨trivial, trivial⟩,
      ⟨trivial, trivial⟩, trivial, trivial⟩
  | .procDecl _ _ b _ _ _, h => by
    simp only [Stmt.importsOK] at h
    simp only [StmtIn]
    exact ⟨Stmt.importsOK_sound hok b h, fun _ _ => ⟨trivial, trivial⟩, ⟨trivial, trivial⟩, trivial, trivial⟩
  | .block _ ss _, h => by
    simp only [Stmt.importsOK] at h
    simp only [StmtIn]
    exact ⟨stmtsImportsOK_sound hok ss h, ⟨trivial, trivial⟩, trivial, trivial⟩
  | .ret _ v, _ => by simp only [StmtIn]; exact ⟨OptExprIn.triv v, trivial, trivial⟩
  | .cont _, _ => by simp only [StmtIn]; exact ⟨trivial, trivial⟩
  | .brk _, _ => by simp only [StmtIn]; exact ⟨trivial, trivial⟩
  | .import_ _ _ ft _ modName, h => by
    simp only [Stmt.importsOK] at h
    simp only [StmtIn]
    exact ⟨⟨trivial, trivial⟩, ⟨trivial, trivial⟩, OptTokIn.triv ft, fun _ _ _ _ => ⟨trivial, trivial⟩,
      ⟨trivial, trivial⟩, hok modName h⟩
theorem optImportsOK_sound {ok : Token → Bool} {M : Token → Prop} (hok : ∀ t, ok t = true → M t) :
    ∀ (s : Option Stmt), optImportsOK ok s = true → OptStmtIn (fun _ => True) M s
  | none, _ => trivial
  | some s, h => by
    simp only [optImportsOK] at h
    simp only [OptStmtIn]
    exact Stmt.importsOK_sound hok s h
theorem stmtsImportsOK_sound {ok : Token → Bool} {M : Token → Prop} (hok : ∀ t, ok t = true → M t) :
    ∀ (ss : List Stmt), stmtsImportsOK ok ss = true → StmtsIn (fun _ => True) M ss
  | [], _ => trivial
  | s :: ss, h => by
    simp only [stmtsImportsOK, Bool.and_eq_true] at h
    simp only [StmtsIn]
    exact ⟨Stmt.importsOK_sound hok s h.1, stmtsImportsOK_sound hok ss h.2⟩
end

/-- the test on the parse of a text: accepted programs pass `ok` at every IMPORT -/
def parsedImportsOK (ok : Token → Bool) (cfg : LexCfg) (src : Str) : Bool :=
  match parse (parseFuel (lex cfg src).tokens.length) (lex cfg src).tokens with
  | .ok prog => stmtsImportsOK ok prog
  | _ => true

theorem parsedImportsOK_sound {ok : Token → Bool} {M : Token → Prop} (hok : ∀ t, ok t = true → M t)
    {cfg : LexCfg} {src : Str} (h : parsedImportsOK ok cfg src = true) :
    ∀ prog, parse (parseFuel (lex cfg src).tokens.length) (lex cfg src).tokens = .ok prog →
      StmtsIn (fun _ => True) M prog := by
  intro prog hp
  unfold parsedImportsOK at h
  rw [hp] at h
  exact stmtsImportsOK_sound hok prog h

/-- the module-name token is a string naming a module of the live registry -/
def isLibTok (tok : Token) : Bool :=
  match tok.lit with
  | .str name => (stdModule name).isSome
  | _ => true

theorem isLibTok_sound (chars : CharEnv) (tok : Token) (h : isLibTok tok = true) : LibImport (genCfg chars) tok := by
  intro name hl hn
  have : stdModule name = none := hn
  simp [isLibTok, hl, this] at h

/-- the module-name token does not name `"FS"` -/
def isNotFsTok (tok : Token) : Bool :=
  match tok.lit with
  | .str name => name != "FS".toList
  | _ => true

theorem isNotFsTok_sound (chars : CharEnv) (tok : Token) (h : isNotFsTok tok = true) :
    ReadOnlyImport (genCfg chars) tok := by
  apply readOnlyImport_live
  intro hl
  unfold isNotFsTok at h
  rw [hl] at h
  simp at h

/-! ## non-vacuity -/

namespace C11bDemo

def cfg0 : Cfg := genCfg CharEnv.ascii

/-- the range a run's runtime error labels, if it ends with one -/
def errSpan (o : RunOut) : Option Span :=
  match o.status with
  | .rtErr e => some e.span
  | _ => none

theorem errSpan_some {o : RunOut} {sp : Span} (h : errSpan o = some sp) : ∃ e, o.status = .rtErr e ∧ e.span = sp := by
  unfold errSpan at h
  split at h
  · rename_i e he; cases h; exact ⟨e, he, rfl⟩
  · cases h

/-- lexical: an unknown two-byte character and an unterminated string; the second label of the latter ends at the end
of the text (9 bytes) -/
def lexSrc : Str := "é <- \"ab".toList

example : (lex cfg0.lex lexSrc).errors.map (·.labels) = [[(0, 2)], [(6, 0), (6, 3)]] ∧ ulen lexSrc = 9 := by
  decide +kernel

example : ∀ e ∈ (lex cfg0.lex lexSrc).errors, ∀ l ∈ e.labels, InSrc lexSrc l :=
  lex_error_labels_in_source cfg0.lex lexSrc

/-- syntactic: the `)` of `x <- )` is labelled -/
def synSrc : Str := "x <- )\n".toList

def errLabels : P.ParseOut → List (List Span)
  | .errs es => es.map (·.labels)
  | _ => []

example : errLabels (parse 100 (lex cfg0.lex synSrc).tokens) = [[(5, 1)]] := by decide +kernel

example : InSrc synSrc (5, 1) := by
  have h : errLabels (parse 100 (lex cfg0.lex synSrc).tokens) = [[(5, 1)]] := by decide +kernel
  cases hp : parse 100 (lex cfg0.lex synSrc).tokens with
  | errs es =>
    rw [hp] at h
    simp only [errLabels] at h
    cases es with
    | nil => cases h
    | cons e0 es =>
      simp only [List.map_cons, List.cons.injEq] at h
      exact parse_labels_in_source cfg0.lex 100 synSrc (e0 :: es) hp e0 List.mem_cons_self (5, 1)
        (by rw [h.1]; exact List.mem_cons_self)
  | ok prog => rw [hp] at h; cases h
  | panic p => rw [hp] at h; cases h
  | fuel => rw [hp] at h; cases h

/-- runtime, main text only: the index `5` of `x[5]` is out of range; the text contains a two-byte character before
the labelled range -/
def rtSrc : Str := "x <- \"é\"\nDISPLAY(x[5])\n".toList

example : errSpan (run cfg0 200 rtSrc {} []) = some (20, 1) ∧ ulen rtSrc = 24 := by decide +kernel

example : ∃ e, (run cfg0 200 rtSrc {} []).status = .rtErr e ∧ e.span = (20, 1) ∧ InSrc rtSrc e.span := by
  obtain ⟨e, he, hs⟩ := errSpan_some (o := run cfg0 200 rtSrc {} []) (sp := (20, 1)) (by decide +kernel)
  refine ⟨e, he, hs, ?_⟩
  have hni : parsedImportsOK isLibTok cfg0.lex rtSrc = true := by decide +kernel
  exact run_rtErr_span_in_source_live CharEnv.ascii 200 rtSrc {} []
    (parsedImportsOK_sound (isLibTok_sound CharEnv.ascii) hni) e he

/-- runtime, with a user module: the division by zero is raised inside the procedure `f` imported from `m.ap`; the
labelled range (35, 1) is the `/` of the **module's** text and lies outside the main text (28 bytes) -/
def modText : Str := "EXPORT PROCEDURE f(x) {\n  RETURN 1 / x\n}\n".toList
def world1 : World := { fs := [(["m.ap".toList], .file modText)] }
def mainSrc : Str := "IMPORT MOD \"m.ap\"\ny <- f(0)\n".toList

example : errSpan (run cfg0 200 mainSrc world1 []) = some (35, 1) ∧ ulen mainSrc = 28 ∧ ulen modText = 41 := by
  decide +kernel

/-- the unqualified statement fails with user modules: this error's range is not inside the main text -/
example : ∃ e, (run cfg0 200 mainSrc world1 []).status = .rtErr e ∧ ¬ InSrc mainSrc e.span := by
  obtain ⟨e, he, hs⟩ := errSpan_some (o := run cfg0 200 mainSrc world1 []) (sp := (35, 1)) (by decide +kernel)
  refine ⟨e, he, ?_⟩
  rw [hs]
  intro h
  have h1 := h.1
  have h2 : ulen mainSrc = 28 := by decide +kernel
  rw [h2] at h1
  exact absurd h1 (by decide)

/-- … and the module-aware theorem places it inside the module's text -/
example : ∃ e, (run cfg0 200 mainSrc world1 []).status = .rtErr e ∧ InSrc modText e.span := by
  obtain ⟨e, he, hs⟩ := errSpan_some (o := run cfg0 200 mainSrc world1 []) (sp := (35, 1)) (by decide +kernel)
  refine ⟨e, he, ?_⟩
  have hmain : parsedImportsOK isNotFsTok cfg0.lex mainSrc = true := by decide +kernel
  have hmod : parsedImportsOK isNotFsTok cfg0.lex modText = true := by decide +kernel
  have hfiles : FilesNoFsWrite cfg0 world1 := by
    intro p text prog hread _ hparse
    have htext : text = modText := by
      obtain ⟨q, hm⟩ := Fs.fileRead_mem _ _ _ hread
      simp only [world1, List.mem_singleton, Prod.mk.injEq, FsNode.file.injEq] at hm
      exact hm.2
    subst htext
    exact parsedImportsOK_sound (isNotFsTok_sound CharEnv.ascii) hmod prog hparse
  rcases run_rtErr_span_in_sources_live CharEnv.ascii 200 mainSrc world1 []
    (parsedImportsOK_sound (isNotFsTok_sound CharEnv.ascii) hmain) hfiles e he with h | ⟨p, text, hread, h⟩
  · exfalso
    rw [hs] at h
    have h1 := h.1
    have h2 : ulen mainSrc = 28 := by decide +kernel
    rw [h2] at h1
    exact absurd h1 (by decide)
  · have htext : text = modText := by
      obtain ⟨q, hm⟩ := Fs.fileRead_mem _ _ _ hread
      simp only [world1, List.mem_singleton, Prod.mk.injEq, FsNode.file.injEq] at hm
      exact hm.2
    subst htext
    exact h

/-- the hypotheses of the write-tolerant form are satisfiable for every run (here with the trivial set of texts) -/
example (e : RtErr) (h : (run cfg0 200 mainSrc world1 []).status = .rtErr e) :
    InSrc mainSrc e.span ∨ ∃ text, True ∧ InSrc text e.span :=
  run_rtErr_span_in_texts cfg0 (genCfg_native _) (fun _ => True) 200 mainSrc world1 [] (fun _ _ _ => trivial)
    (fun _ _ _ _ _ _ _ _ _ _ _ => trivial) e h

/-- token level (no lexer): a hand-written token list `y` `<EOF>`; the undefined variable is labelled at its token -/
def toks : List Token :=
  [⟨.identifier, ['y'], .none, 4, 1⟩, ⟨.eof, "<EOF>".toList, .none, 6, 0⟩]

example : errSpan (runTokens cfg0 50 toks {} []) = some (4, 1) := by decide +kernel

example : ∃ e, (runTokens cfg0 50 toks {} []).status = .rtErr e ∧ SpIn (· ≤ 6) e.span := by
  obtain ⟨e, he, hs⟩ := errSpan_some (o := runTokens cfg0 50 toks {} []) (sp := (4, 1)) (by decide +kernel)
  refine ⟨e, he, ?_⟩
  refine runTokens_rtErr_span_in cfg0 (genCfg_native _) (· ≤ 6) 50 toks ?_ ?_ {} [] e he
  · intro t ht
    simp only [toks, List.mem_cons, List.not_mem_nil, or_false] at ht
    rcases ht with rfl | rfl <;> exact ⟨by decide, by decide⟩
  · intro prog hp
    have : (match parse (parseFuel toks.length) toks with
        | .ok prog => stmtsImportsOK isLibTok prog | _ => true) = true := by decide +kernel
    rw [hp] at this
    exact stmtsImportsOK_sound (isLibTok_sound CharEnv.ascii) prog this

end C11bDemo

end Aplang
