import Aplang.Model.Cli
/-!
# C12 — command-line contract (decision logic of `main.rs::run`)

The theorems are about `cliRun`; `clap`, the exit-code plumbing and the OS are outside the model (the
correspondence run spawns the real binary).
-/
namespace Aplang

section
variable (cfg : Cfg) (fuel : Nat) (c : CliConfig) (src : Str) (world : World) (path : Str)

theorem cliRun_lexerr (h : (lex cfg.lex src).errors ≠ []) :
    cliRun cfg fuel c src world path = ⟨false, [], true⟩ := by
  simp [cliRun, h]

theorem cliRun_parse_fail (h : (lex cfg.lex src).errors = [])
    (hp : ∀ prog, parse (parseFuel (lex cfg.lex src).tokens.length) (lex cfg.lex src).tokens ≠ .ok prog) :
    cliRun cfg fuel c src world path = ⟨false, [], true⟩ := by
  simp only [cliRun, h, List.isEmpty_nil, Bool.not_true, Bool.false_eq_true, ↓reduceIte]
  split <;> first | rfl | (rename_i prog hq; exact absurd hq (hp prog))

theorem cliRun_check (h : (lex cfg.lex src).errors = []) (prog)
    (hp : parse (parseFuel (lex cfg.lex src).tokens.length) (lex cfg.lex src).tokens = .ok prog)
    (hc : c.check = true) : cliRun cfg fuel c src world path = ⟨true, [], false⟩ := by
  simp [cliRun, h, hp, hc]

theorem cliRun_exec (h : (lex cfg.lex src).errors = []) (prog)
    (hp : parse (parseFuel (lex cfg.lex src).tokens.length) (lex cfg.lex src).tokens = .ok prog)
    (hc : c.check = false) :
    cliRun cfg fuel c src world path =
      execOutcome (c.debug != .none) (program cfg fuel prog (initState cfg world path)) := by
  simp [cliRun, h, hp, hc]

theorem ok_or_not (r : P.ParseOut) : (∃ prog, r = .ok prog) ∨ ∀ prog, r ≠ .ok prog := by
  cases r <;> simp

theorem bool_cases (b : Bool) : b = true ∨ b = false := by cases b <;> simp

/-- the cases of a command-line run -/
theorem cliRun_cases :
    cliRun cfg fuel c src world path = ⟨false, [], true⟩ ∨
    (c.check = true ∧ cliRun cfg fuel c src world path = ⟨true, [], false⟩) ∨
    (c.check = false ∧ (lex cfg.lex src).errors = [] ∧
      ∃ prog, parse (parseFuel (lex cfg.lex src).tokens.length) (lex cfg.lex src).tokens = .ok prog ∧
        cliRun cfg fuel c src world path =
          execOutcome (c.debug != .none) (program cfg fuel prog (initState cfg world path))) := by
  by_cases h : (lex cfg.lex src).errors = []
  · rcases ok_or_not (parse (parseFuel (lex cfg.lex src).tokens.length) (lex cfg.lex src).tokens) with ⟨prog, hp⟩ | hn
    · rcases bool_cases c.check with hc | hc
      · exact Or.inr (Or.inl ⟨hc, cliRun_check cfg fuel c src world path h prog hp hc⟩)
      · exact Or.inr (Or.inr ⟨hc, h, prog, hp, cliRun_exec cfg fuel c src world path h prog hp hc⟩)
    · exact Or.inl (cliRun_parse_fail cfg fuel c src world path h hn)
  · exact Or.inl (cliRun_lexerr cfg fuel c src world path h)

/-- did lexing, parsing and the run all succeed? -/
def AllPhasesOk : Prop :=
  (lex cfg.lex src).errors = [] ∧
  ∃ prog, parse (parseFuel (lex cfg.lex src).tokens.length) (lex cfg.lex src).tokens = .ok prog ∧
    ∃ σ, program cfg fuel prog (initState cfg world path) = .ok σ

/-- exit status 0 exactly when the program lexed, parsed and ran to completion (without `--check`) -/
theorem exit_zero_iff_all_phases_ok (hc : c.check = false) :
    (cliRun cfg fuel c src world path).exitZero = true ↔ AllPhasesOk cfg fuel src world path := by
  unfold AllPhasesOk
  rcases cliRun_cases cfg fuel c src world path with h | ⟨h, _⟩ | ⟨_, hl, prog, hp, h⟩
  · rw [h]
    simp only [Bool.false_eq_true, false_iff]
    rintro ⟨hl, prog, hp, σ, hr⟩
    rw [cliRun_exec cfg fuel c src world path hl prog hp hc, hr] at h
    simp [execOutcome] at h
  · rw [hc] at h; cases h
  · rw [h]
    constructor
    · intro he
      refine ⟨hl, prog, hp, ?_⟩
      cases hr : program cfg fuel prog (initState cfg world path) <;> simp [hr, execOutcome] at he ⊢
    · rintro ⟨_, prog', hp', σ, hr⟩
      rw [hp] at hp'; cases hp'
      simp [hr, execOutcome]

/-- `--check` executes nothing and prints nothing to standard output -/
theorem check_is_pure (hc : c.check = true) : (cliRun cfg fuel c src world path).stdout = [] := by
  rcases cliRun_cases cfg fuel c src world path with h | ⟨_, h⟩ | ⟨h, _⟩
  · rw [h]
  · rw [h]
  · rw [hc] at h; cases h

/-- `--check` exits 0 exactly when the program lexes and parses -/
theorem check_exit_zero_iff (hc : c.check = true) :
    (cliRun cfg fuel c src world path).exitZero = true ↔
      ((lex cfg.lex src).errors = [] ∧
        ∃ prog, parse (parseFuel (lex cfg.lex src).tokens.length) (lex cfg.lex src).tokens = .ok prog) := by
  by_cases h : (lex cfg.lex src).errors = []
  · rcases ok_or_not (parse (parseFuel (lex cfg.lex src).tokens.length) (lex cfg.lex src).tokens) with ⟨prog, hp⟩ | hn
    · rw [cliRun_check cfg fuel c src world path h prog hp hc]; simp [h, hp]
    · rw [cliRun_parse_fail cfg fuel c src world path h hn]
      simp only [Bool.false_eq_true, false_iff, not_and, not_exists]
      intro _ prog; exact hn prog
  · rw [cliRun_lexerr cfg fuel c src world path h]; simp [h]

/-- a non-zero exit always comes with diagnostics on standard error -/
theorem nonzero_exit_has_diagnostics :
    (cliRun cfg fuel c src world path).exitZero = false → (cliRun cfg fuel c src world path).stderrNonEmpty = true := by
  rcases cliRun_cases cfg fuel c src world path with h | ⟨_, h⟩ | ⟨_, _, prog, _, h⟩
  · rw [h]; simp
  · rw [h]; simp
  · rw [h]; cases program cfg fuel prog (initState cfg world path) <;> simp [execOutcome]

/-- standard output and exit status do not depend on the debug mode -/
theorem stdout_independent_of_debug (d : DebugMode) :
    (cliRun cfg fuel { c with debug := d } src world path).stdout = (cliRun cfg fuel c src world path).stdout ∧
    (cliRun cfg fuel { c with debug := d } src world path).exitZero = (cliRun cfg fuel c src world path).exitZero := by
  by_cases h : (lex cfg.lex src).errors = []
  · rcases ok_or_not (parse (parseFuel (lex cfg.lex src).tokens.length) (lex cfg.lex src).tokens) with ⟨prog, hp⟩ | hn
    · rcases bool_cases c.check with hc | hc
      · rw [cliRun_check cfg fuel c src world path h prog hp hc,
          cliRun_check cfg fuel { c with debug := d } src world path h prog hp hc]
        simp
      · rw [cliRun_exec cfg fuel c src world path h prog hp hc,
          cliRun_exec cfg fuel { c with debug := d } src world path h prog hp hc]
        cases program cfg fuel prog (initState cfg world path) <;> simp [execOutcome]
    · rw [cliRun_parse_fail cfg fuel c src world path h hn, cliRun_parse_fail cfg fuel _ src world path h hn]; simp
  · rw [cliRun_lexerr cfg fuel c src world path h, cliRun_lexerr cfg fuel _ src world path h]; simp

/-- the same source gives the same result whether supplied as a file, with -e or on standard input -/
theorem mode_independent (m : SourceMode) :
    cliRun cfg fuel { c with mode := m } src world path = cliRun cfg fuel c src world path := rfl

/-- standard output is exactly what the program displayed before it ended -/
theorem stdout_is_program_output (hc : c.check = false) (prog)
    (hl : (lex cfg.lex src).errors = [])
    (hp : parse (parseFuel (lex cfg.lex src).tokens.length) (lex cfg.lex src).tokens = .ok prog) :
    (cliRun cfg fuel c src world path).stdout =
      displayedBy (program cfg fuel prog (initState cfg world path)) := by
  rw [cliRun_exec cfg fuel c src world path hl prog hp hc]
  cases program cfg fuel prog (initState cfg world path) <;> rfl

/-- lexical and syntax errors: nothing on standard output -/
theorem front_end_errors_print_nothing
    (h : (lex cfg.lex src).errors ≠ [] ∨
      ∀ prog, parse (parseFuel (lex cfg.lex src).tokens.length) (lex cfg.lex src).tokens ≠ .ok prog) :
    (cliRun cfg fuel c src world path).stdout = [] ∧ (cliRun cfg fuel c src world path).exitZero = false := by
  by_cases hl : (lex cfg.lex src).errors = []
  · rcases h with h | h
    · exact absurd hl h
    · rw [cliRun_parse_fail cfg fuel c src world path hl h]; simp
  · rw [cliRun_lexerr cfg fuel c src world path hl]; simp

end

end Aplang
