import Aplang.Thm.C10
import Aplang.Proofs.SpecSafe
import Aplang.Proofs.ParserOK
/-!
# C10 (headline) — no accepted program can make the evaluator reach a panic outcome

`Thm/C10` shows that the model ends exactly as the reference semantics does, and `Proofs/NativesTotal` that the
library is total over closed heaps. This file closes the gap between the two: by `Proofs/SpecSafe`
(`safeAll`, an induction on fuel over the reference semantics under the safety invariant `SafeSt`), the
reference semantics of an accepted program, started in the initial state, never reaches a panic outcome —
none of `env.activate` / `env.scrape` (no scope), `loop_stack.pop` / `last_mut` (no loop record),
`dangling list` / `dangling object` (a reference to a cell that does not exist), `native: arity`,
`import: unreachable`, nor a panic of the parser on a module loaded at run time. Transported through the
refinement theorem:

* `run_no_panic`: the status of a run of the whole pipeline (lexer, parser, evaluator model) is never `.panic`;
* `run_outcome`: it is one of ok / lexical errors (at least one) / syntax errors (at least one) / a runtime
  error diagnostic / the specified termination / out of the model's fuel;
* `run_terminate_only_blocked_move`: the termination arises only from `MOVE_FORWARD` / `MOVE_FOWARD` of a
  robot whose move is blocked, in the final state that is reported.

Hypotheses on a general configuration `cfg`: `CfgOK cfg` (the registry holds well-formed procedures, as in
C02), `KwPlain cfg.lex` (no keyword is spelled as a literal or end-of-input kind, as in C08) and
`CfgSOK cfg` (the registry's procedures keep the parser's conventions of `Proofs/SafeSyntax`). All three hold for
the live configuration `genCfg chars` (`*_live`).
-/
namespace Aplang

/-- the registry's procedures keep the parser's conventions (trivially so for native procedures) -/
def CfgSOK (cfg : Cfg) : Prop := ∀ name table, cfg.modules name = some table → ProcsSOK table

theorem stdModule_sok (name : Str) (table : FunTable) (h : stdModule name = some table) : ProcsSOK table := by
  unfold stdModule at h
  dsimp only at h
  split at h
  · cases h
  · cases h
    intro e he
    simp only [List.mem_map] at he
    obtain ⟨n, _, rfl⟩ := he
    exact True.intro

theorem genCfg_sok (chars : CharEnv) : CfgSOK (genCfg chars) := fun name table h => stdModule_sok name table h

/-- the front-end theorems (C06 – C09) give what the evaluator needs to load modules at run time -/
theorem frontOK (cfg : Cfg) (hk : KwPlain cfg.lex) (hm : CfgSOK cfg) : FrontOK cfg where
  modules := hm
  parsed := fun src fuel prog h => parse_sok fuel _ prog (lex_tokens_ok cfg.lex hk src).2 h
  noPanic := fun src fuel p => front_end_no_panic cfg.lex hk fuel src p

theorem initState_safe (cfg : Cfg) (hm : CfgSOK cfg) (world path budget) :
    SafeSt (initState cfg world path budget) := by
  refine ⟨fun c hc => (by cases hc), List.cons_ne_nil _ _, ?_, ?_, procsSOK_nil⟩
  · intro fr hfr
    have : fr = [] := by simpa [initState] using hfr
    subst this
    exact FrameClosed.nil _
  · show ProcsSOK (FunTable.extend [] ((cfg.modules "CORE".toList).getD []))
    apply procsSOK_extend procsSOK_nil
    cases hcm : cfg.modules "CORE".toList with
    | none => exact procsSOK_nil
    | some t => exact hm _ t hcm

/-! ## the reference semantics -/

/-- **the reference semantics of a well-formed program never panics**: from a safe state it ends in a safe
state, with a runtime error, with the specified termination, or out of fuel -/
theorem spec_program_safe (cfg : Cfg) (hc : CfgOK cfg) (hk : KwPlain cfg.lex) (hm : CfgSOK cfg) (fuel : Nat)
    (prog : List Stmt) (hw : WFList false false prog) (hs : SsOK prog) (σ : St) (i : SInv false σ)
    (h : SafeSt σ) : PostS σ (Spec.program cfg fuel prog σ) :=
  (safeAll hc parseWF (frontOK cfg hk hm) fuel).program prog σ hw hs i h

/-- the same for one statement in any admissible context -/
theorem spec_stmt_safe (cfg : Cfg) (hc : CfgOK cfg) (hk : KwPlain cfg.lex) (hm : CfgSOK cfg) (fuel : Nat)
    (il fn : Bool) (s : Stmt) (hw : WFStmt il fn s) (hs : SOK s) (σ : St) (i : SInv il σ) (h : SafeSt σ) :
    Post σ SigC (Spec.stmt cfg fuel s σ) :=
  (safeAll hc parseWF (frontOK cfg hk hm) fuel).stmt il fn s σ hw hs i h

/-- **the evaluator model on an accepted program**, from the initial state -/
theorem model_program_safe (cfg : Cfg) (hc : CfgOK cfg) (hk : KwPlain cfg.lex) (hm : CfgSOK cfg) (fuel pf : Nat)
    (ts : List Token) (hl : ∀ t ∈ ts, P.LitOK t) (prog : List Stmt) (hp : parse pf ts = .ok prog)
    (world : World) (path : Str) :
    PostS (initState cfg world path) (program cfg fuel prog (initState cfg world path)) := by
  rw [model_outcome_is_spec_outcome cfg hc fuel pf ts prog hp world path]
  exact spec_program_safe cfg hc hk hm fuel prog (accepted_wf pf ts prog hp) (parse_sok pf ts prog hl hp) _
    (initState_inv cfg hc world path _) (initState_safe cfg hm world path _)

/-! ## the whole pipeline -/

/-- the classification of a run's end -/
def RunOut.Classified (r : RunOut) : Prop :=
  match r.status with
  | .ok => ∃ σ, r.final = some σ ∧ SafeSt σ
  | .lexErr n => 0 < n
  | .parseErr n => 0 < n
  | .rtErr _ => True
  | .terminate _ => ∃ σ, r.final = some σ ∧ Term σ
  | .panic _ => False
  | .fuel => True

theorem runTokens_classified (cfg : Cfg) (hc : CfgOK cfg) (hk : KwPlain cfg.lex) (hm : CfgSOK cfg) (fuel : Nat)
    (ts : List Token) (ht : TokensOK ts) (world : World) (path : Str) :
    (runTokens cfg fuel ts world path).Classified := by
  unfold runTokens
  cases hp : parse (parseFuel ts.length) ts with
  | errs es =>
    have := parse_errs_nonempty _ ts es hp
    show 0 < es.length
    exact List.length_pos_iff.mpr this
  | panic p => exact absurd hp (parse_no_panic _ ts ht p)
  | fuel => exact True.intro
  | ok prog =>
    have h := model_program_safe cfg hc hk hm fuel _ ts ht.2 prog hp world path
    dsimp only
    cases hr : program cfg fuel prog (initState cfg world path) with
    | ok σ => rw [hr] at h; exact ⟨σ, rfl, h.safe⟩
    | err e σ => exact True.intro
    | terminate w σ => rw [hr] at h; exact ⟨σ, rfl, h⟩
    | panic p o => rw [hr] at h; exact h
    | fuel => exact True.intro

theorem run_classified (cfg : Cfg) (hc : CfgOK cfg) (hk : KwPlain cfg.lex) (hm : CfgSOK cfg) (fuel : Nat)
    (src : Str) (world : World) (path : Str) : (run cfg fuel src world path).Classified := by
  unfold run
  dsimp only
  split
  · rename_i hne
    show 0 < (lex cfg.lex src).errors.length
    cases he : (lex cfg.lex src).errors with
    | nil => rw [he] at hne; simp at hne
    | cons e es => simp
  · exact runTokens_classified cfg hc hk hm fuel _ (lex_tokens_ok cfg.lex hk src) world path

/-- **C10: a run of the model never ends in a panic outcome** — whatever the source text, the world (standard
input, random choices, clock, files — including the files of user modules it imports) and the fuel -/
theorem run_no_panic (cfg : Cfg) (hc : CfgOK cfg) (hk : KwPlain cfg.lex) (hm : CfgSOK cfg) (fuel : Nat)
    (src : Str) (world : World) (path : Str) : ∀ site, (run cfg fuel src world path).status ≠ .panic site := by
  intro site h
  have := run_classified cfg hc hk hm fuel src world path
  unfold RunOut.Classified at this
  rw [h] at this
  exact this

/-- the same from a token list that ends with an end-of-input token and whose literal tokens carry their literals -/
theorem runTokens_no_panic (cfg : Cfg) (hc : CfgOK cfg) (hk : KwPlain cfg.lex) (hm : CfgSOK cfg) (fuel : Nat)
    (ts : List Token) (ht : TokensOK ts) (world : World) (path : Str) :
    ∀ site, (runTokens cfg fuel ts world path).status ≠ .panic site := by
  intro site h
  have := runTokens_classified cfg hc hk hm fuel ts ht world path
  unfold RunOut.Classified at this
  rw [h] at this
  exact this

/-- **C10: how a run can end** — normally, with at least one lexical diagnostic, with at least one syntax
diagnostic, with a runtime-error diagnostic, with the specified termination (a robot moved into a wall),
or out of the model's fuel / statement budget -/
theorem run_outcome (cfg : Cfg) (hc : CfgOK cfg) (hk : KwPlain cfg.lex) (hm : CfgSOK cfg) (fuel : Nat)
    (src : Str) (world : World) (path : Str) :
    (run cfg fuel src world path).status = .ok ∨
    (∃ n, 0 < n ∧ (run cfg fuel src world path).status = .lexErr n) ∨
    (∃ n, 0 < n ∧ (run cfg fuel src world path).status = .parseErr n) ∨
    (∃ e, (run cfg fuel src world path).status = .rtErr e) ∨
    (∃ w σ n args, (run cfg fuel src world path).status = .terminate w ∧
      (run cfg fuel src world path).final = some σ ∧ BlockedMove n args σ) ∨
    (run cfg fuel src world path).status = .fuel := by
  have h := run_classified cfg hc hk hm fuel src world path
  unfold RunOut.Classified at h
  generalize run cfg fuel src world path = r at h
  cases hs : r.status with
  | ok => exact Or.inl rfl
  | lexErr n => rw [hs] at h; exact Or.inr (Or.inl ⟨n, h, rfl⟩)
  | parseErr n => rw [hs] at h; exact Or.inr (Or.inr (Or.inl ⟨n, h, rfl⟩))
  | rtErr e => exact Or.inr (Or.inr (Or.inr (Or.inl ⟨e, rfl⟩)))
  | terminate w =>
    rw [hs] at h
    obtain ⟨σ, hf, n, args, hb⟩ := h
    exact Or.inr (Or.inr (Or.inr (Or.inr (Or.inl ⟨w, σ, n, args, rfl, hf, hb⟩))))
  | panic p => rw [hs] at h; exact h.elim
  | fuel => exact Or.inr (Or.inr (Or.inr (Or.inr (Or.inr rfl))))

/-- **termination only for a blocked robot move**: `MOVE_FORWARD` / `MOVE_FOWARD` on a robot cell of the
reported final state whose move is blocked -/
theorem run_terminate_only_blocked_move (cfg : Cfg) (hc : CfgOK cfg) (hk : KwPlain cfg.lex) (hm : CfgSOK cfg)
    (fuel : Nat) (src : Str) (world : World) (path : Str) (w : String)
    (h : (run cfg fuel src world path).status = .terminate w) :
    ∃ σ n args, (run cfg fuel src world path).final = some σ ∧ BlockedMove n args σ := by
  have hcl := run_classified cfg hc hk hm fuel src world path
  unfold RunOut.Classified at hcl
  rw [h] at hcl
  obtain ⟨σ, hf, n, args, hb⟩ := hcl
  exact ⟨σ, n, args, hf, hb⟩

/-- a normal end leaves a safe state: closed heap, closed variables — the invariant is not lost at the end -/
theorem run_ok_final_safe (cfg : Cfg) (hc : CfgOK cfg) (hk : KwPlain cfg.lex) (hm : CfgSOK cfg)
    (fuel : Nat) (src : Str) (world : World) (path : Str) (h : (run cfg fuel src world path).status = .ok) :
    ∃ σ, (run cfg fuel src world path).final = some σ ∧ SafeSt σ := by
  have hcl := run_classified cfg hc hk hm fuel src world path
  unfold RunOut.Classified at hcl
  rw [h] at hcl
  exact hcl

/-! ## the live configuration -/

theorem run_no_panic_live (chars : CharEnv) (fuel : Nat) (src : Str) (world : World) (path : Str) :
    ∀ site, (run (genCfg chars) fuel src world path).status ≠ .panic site :=
  run_no_panic _ (genCfg_ok chars) (genKw_plain chars.isAlnum) (genCfg_sok chars) fuel src world path

theorem runTokens_no_panic_live (chars : CharEnv) (fuel : Nat) (ts : List Token) (ht : TokensOK ts)
    (world : World) (path : Str) : ∀ site, (runTokens (genCfg chars) fuel ts world path).status ≠ .panic site :=
  runTokens_no_panic _ (genCfg_ok chars) (genKw_plain chars.isAlnum) (genCfg_sok chars) fuel ts ht world path

theorem run_outcome_live (chars : CharEnv) (fuel : Nat) (src : Str) (world : World) (path : Str) :
    (run (genCfg chars) fuel src world path).status = .ok ∨
    (∃ n, 0 < n ∧ (run (genCfg chars) fuel src world path).status = .lexErr n) ∨
    (∃ n, 0 < n ∧ (run (genCfg chars) fuel src world path).status = .parseErr n) ∨
    (∃ e, (run (genCfg chars) fuel src world path).status = .rtErr e) ∨
    (∃ w σ n args, (run (genCfg chars) fuel src world path).status = .terminate w ∧
      (run (genCfg chars) fuel src world path).final = some σ ∧ BlockedMove n args σ) ∨
    (run (genCfg chars) fuel src world path).status = .fuel :=
  run_outcome _ (genCfg_ok chars) (genKw_plain chars.isAlnum) (genCfg_sok chars) fuel src world path

theorem run_terminate_only_blocked_move_live (chars : CharEnv) (fuel : Nat) (src : Str) (world : World)
    (path : Str) (w : String) (h : (run (genCfg chars) fuel src world path).status = .terminate w) :
    ∃ σ n args, (run (genCfg chars) fuel src world path).final = some σ ∧ BlockedMove n args σ :=
  run_terminate_only_blocked_move _ (genCfg_ok chars) (genKw_plain chars.isAlnum) (genCfg_sok chars) fuel src
    world path w h

/-! ## non-vacuity -/

namespace C10Demo

def cfg0 : Cfg := genCfg CharEnv.ascii

/-- the invariants hold in the initial state -/
example : SInv false (initState cfg0 {} []) ∧ SafeSt (initState cfg0 {} []) :=
  ⟨initState_inv _ (genCfg_ok _) _ _ _, initState_safe _ (genCfg_sok _) _ _ _⟩

def endKind (o : RunOut) : Nat :=
  match o.status with
  | .ok => 0 | .lexErr _ => 1 | .parseErr _ => 2 | .rtErr _ => 3 | .terminate _ => 4 | .panic _ => 5 | .fuel => 6

/-- a program with a procedure, a loop with BREAK, list aliasing, a block and a native call ends normally -/
def src1 : Str :=
  "IMPORT MOD \"IO\"\nPROCEDURE f(l) { APPEND(l, 1)\n RETURN l }\nx <- [1, 2]\ny <- f(x)\nFOR EACH e IN y { IF (e == 2) { BREAK } }\nn <- LENGTH(y)\nDISPLAYF(\"done\", [])\n".toList

example : endKind (Aplang.run cfg0 200 src1 {} []) = 0 ∧ (Aplang.run cfg0 200 src1 {} []).output = "done\n".toList := by
  decide +kernel

/-- an index out of range is a runtime-error diagnostic; a robot walking into a wall is the specified termination;
a lexical and a syntax error are reported as such -/
example : endKind (Aplang.run cfg0 200 "x <- [1]\nDISPLAY(x[2])\n".toList {} []) = 3 ∧
    endKind (Aplang.run cfg0 200 "IMPORT MOD \"ROBOT\"\nr <- ROBOT_MAP(\"n#\")\nROTATE_RIGHT(r)\nMOVE_FORWARD(r)\n".toList {} []) = 4 ∧
    endKind (Aplang.run cfg0 200 "x <- \"abc\n".toList {} []) = 1 ∧
    endKind (Aplang.run cfg0 200 "x <- )\n".toList {} []) = 2 := by
  decide +kernel

/-- what the hypotheses exclude: in a state without a scope the model's `define` is a panic primitive -/
example : ∃ out, define { scopes := [] } ['x'] .null = .panic "env.activate" out := ⟨_, rfl⟩

end C10Demo

end Aplang
