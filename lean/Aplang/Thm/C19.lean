import Aplang.Proofs.FsLemmas
/-!
# C19 — the FS module against a simple file-system model

The model of the file system (`Aplang.Fs`) is an association list from component paths to nodes. The
theorems below say that each operation reads and changes exactly the named entry (frame theorems),
when it succeeds, what it leaves behind, that a failing operation leaves the tree as it was (with the
one exception of `DIRECTORY_REMOVE_ALL(".")`, which the Rust `remove_dir_all` empties before it fails),
and that every FS native reports failure through its return value.

The tie between `Aplang.Fs` and the real `std::fs` is checked by differential runs, not here.
-/
namespace Aplang.Fs

/-! ## frame theorems: only the named path changes -/

theorem fileCreate_frame (t : Tree) (s : Str) (q : Path) (hq : q ≠ components s) :
    find? (fileCreate t s).1 q = find? t q := by
  unfold fileCreate
  simp only []
  split
  · rfl
  · simp only [find?_put, hq, ↓reduceIte]
    split
    · next h => rw [h, find?_nil]
    · rfl

theorem fileRemove_frame (t : Tree) (s : Str) (q : Path) (hq : q ≠ components s) :
    find? (fileRemove t s).1 q = find? t q := by
  unfold fileRemove
  simp only []
  split
  · simp only [find?_erase, hq, ↓reduceIte]
    split
    · next h => rw [h, find?_nil]
    · rfl
  · rfl

theorem fileAppend_frame (t : Tree) (s text : Str) (q : Path) (hq : q ≠ components s) :
    find? (fileAppend t s text).1 q = find? t q := by
  unfold fileAppend
  simp only []
  split
  · rfl
  · split
    · simp only [find?_put, hq, ↓reduceIte]
      split
      · next h => rw [h, find?_nil]
      · rfl
    · rfl

theorem fileOverwrite_frame (t : Tree) (s text : Str) (q : Path) (hq : q ≠ components s) :
    find? (fileOverwrite t s text).1 q = find? t q := by
  unfold fileOverwrite
  simp only []
  split
  · rfl
  · split
    · simp only [find?_put, hq, ↓reduceIte]
      split
      · next h => rw [h, find?_nil]
      · rfl
    · rfl

theorem dirCreate_frame (t : Tree) (s : Str) (q : Path) (hq : q ≠ components s) :
    find? (dirCreate t s).1 q = find? t q := by
  unfold dirCreate
  simp only []
  split
  · rfl
  · simp only [find?_put, hq, ↓reduceIte]
    split
    · next h => rw [h, find?_nil]
    · rfl

theorem dirRemove_frame (t : Tree) (s : Str) (q : Path) (hq : q ≠ components s) :
    find? (dirRemove t s).1 q = find? t q := by
  unfold dirRemove
  simp only []
  split
  · simp only [find?_erase, hq, ↓reduceIte]
    split
    · next h => rw [h, find?_nil]
    · rfl
  · rfl

theorem dirCreateAll_eq (t : Tree) (s : Str) :
    dirCreateAll t s =
      if (prefixes (components s)).any (fun q => isFile t q) then (t, false)
      else ((prefixes (components s)).foldl mkdirStep t, true) := rfl

/-- `DIRECTORY_CREATE_ALL`: exactly the prefixes of the named path that did not exist change, and they
become directories; every other path (and every existing entry) is as before -/
theorem dirCreateAll_frame (t : Tree) (s : Str) (q : Path) :
    find? (dirCreateAll t s).1 q =
      if q ∈ prefixes (components s) ∧ find? t q = none ∧ (dirCreateAll t s).2 = true then some .dir
      else find? t q := by
  rw [dirCreateAll_eq]
  split
  · simp
  · simp only [and_true]
    exact find?_foldl_mkdir _ (fun a ha => ne_nil_of_mem_prefixes ha) t q

/-- `DIRECTORY_REMOVE_ALL` on a path other than the root: on success exactly the paths that have the
named one as a prefix (the directory itself and everything below it) disappear -/
theorem dirRemoveAll_frame (t : Tree) (s : Str) (q : Path) (hroot : components s ≠ []) :
    find? (dirRemoveAll t s).1 q =
      if (dirRemoveAll t s).2 = true ∧ (components s).isPrefixOf q = true then none else find? t q := by
  unfold dirRemoveAll
  simp only []
  split
  · simp only [find?_eraseUnder, true_and]
    split
    · next h =>
      subst h
      have : (components s).isPrefixOf [] = false := by
        cases hc : components s with
        | nil => exact absurd hc hroot
        | cons a as => rfl
      simp [this, find?_nil]
    · rfl
  · split
    · next h => simp [hroot] at h
    · simp

/-- a path that does not lie under the named directory is untouched by `DIRECTORY_REMOVE_ALL` -/
theorem dirRemoveAll_frame_outside (t : Tree) (s : Str) (q : Path) (hroot : components s ≠ [])
    (hq : (components s).isPrefixOf q = false) : find? (dirRemoveAll t s).1 q = find? t q := by
  rw [dirRemoveAll_frame t s q hroot]; simp [hq]

/-- the exception: `DIRECTORY_REMOVE_ALL` on the sandbox root (`"."`, `"/"`, `"./"` …) empties the tree and
then reports failure (src: `remove_dir_all(".")` removes the contents, then fails on the root itself) -/
theorem dirRemoveAll_root (t : Tree) (s : Str) (hs : s ≠ []) (hroot : components s = []) :
    dirRemoveAll t s = ([], false) := by
  unfold dirRemoveAll
  simp [hs, hroot]

/-! ## when an operation succeeds, and what it leaves -/

theorem find?_none_iff_not_exists (t : Tree) (p : Path) : pathExists t p = false ↔ find? t p = none := by
  unfold pathExists; cases find? t p <;> simp

theorem fileCreate_success_iff (t : Tree) (s : Str) :
    (fileCreate t s).2 = true ↔
      s ≠ [] ∧ trailingSlash s = false ∧ components s ≠ [] ∧ find? t (components s) = none ∧
        isDir t (parent (components s)) = true := by
  unfold fileCreate
  simp only []
  split
  · next h =>
    simp only [Bool.false_eq_true, false_iff]
    rintro ⟨h1, h2, h3, h4, h5⟩
    simp [h1, h2, h3, h5, pathExists, h4] at h
  · next h =>
    simp only [Bool.or_eq_true, beq_iff_eq, Bool.not_eq_eq_eq_not, Bool.not_true, not_or,
      Bool.not_eq_true, Bool.not_eq_false] at h
    obtain ⟨⟨⟨⟨h1, h2⟩, h3⟩, h4⟩, h5⟩ := h
    simp only [true_iff]
    exact ⟨h1, h2, h3, (find?_none_iff_not_exists t _).1 h4, h5⟩

/-- FILE_CREATE creates an empty file, and only where nothing exists -/
theorem create_only_if_absent (t : Tree) (s : Str) (h : (fileCreate t s).2 = true) :
    find? t (components s) = none ∧ find? (fileCreate t s).1 (components s) = some (.file []) := by
  have h' := (fileCreate_success_iff t s).1 h
  refine ⟨h'.2.2.2.1, ?_⟩
  have hcond : (s == [] || trailingSlash s || components s == [] || pathExists t (components s) ||
      !isDir t (parent (components s))) = false := by
    simp [h'.1, h'.2.1, h'.2.2.1, h'.2.2.2.2, pathExists, h'.2.2.2.1]
  unfold fileCreate
  simp only [hcond, Bool.false_eq_true, ↓reduceIte]
  simp [find?_put, h'.2.2.1]

theorem dirCreate_success_iff (t : Tree) (s : Str) :
    (dirCreate t s).2 = true ↔
      s ≠ [] ∧ components s ≠ [] ∧ find? t (components s) = none ∧ isDir t (parent (components s)) = true := by
  unfold dirCreate
  simp only []
  split
  · next h =>
    simp only [Bool.false_eq_true, false_iff]
    rintro ⟨h1, h3, h4, h5⟩
    simp [h1, h3, h5, pathExists, h4] at h
  · next h =>
    simp only [Bool.or_eq_true, beq_iff_eq, Bool.not_eq_eq_eq_not, Bool.not_true, not_or,
      Bool.not_eq_true, Bool.not_eq_false] at h
    obtain ⟨⟨⟨h1, h3⟩, h4⟩, h5⟩ := h
    simp only [true_iff]
    exact ⟨h1, h3, (find?_none_iff_not_exists t _).1 h4, h5⟩

theorem dirCreate_only_if_absent (t : Tree) (s : Str) (h : (dirCreate t s).2 = true) :
    find? t (components s) = none ∧ find? (dirCreate t s).1 (components s) = some .dir := by
  have h' := (dirCreate_success_iff t s).1 h
  refine ⟨h'.2.2.1, ?_⟩
  have hcond : (s == [] || components s == [] || pathExists t (components s) ||
      !isDir t (parent (components s))) = false := by
    simp [h'.1, h'.2.1, h'.2.2.2, pathExists, h'.2.2.1]
  unfold dirCreate
  simp only [hcond, Bool.false_eq_true, ↓reduceIte]
  simp [find?_put, h'.2.1]

/-- FILE_APPEND succeeds exactly on an existing file (named without a trailing slash) -/
theorem fileAppend_success_iff (t : Tree) (s text : Str) :
    (fileAppend t s text).2 = true ↔
      s ≠ [] ∧ trailingSlash s = false ∧ ∃ c, find? t (components s) = some (.file c) := by
  unfold fileAppend
  simp only []
  split
  · next h =>
    simp only [Bool.false_eq_true, false_iff]
    rintro ⟨h1, h2, _⟩
    simp [h1, h2] at h
  · next h =>
    simp only [Bool.or_eq_true, beq_iff_eq, not_or, Bool.not_eq_true] at h
    split
    · next c hc => simp [h.1, h.2, hc]
    · next hn =>
      simp only [Bool.false_eq_true, false_iff]
      rintro ⟨_, _, c, hc⟩
      exact hn c hc

theorem fileOverwrite_success_iff (t : Tree) (s text : Str) :
    (fileOverwrite t s text).2 = true ↔
      s ≠ [] ∧ trailingSlash s = false ∧ ∃ c, find? t (components s) = some (.file c) := by
  unfold fileOverwrite
  simp only []
  split
  · next h =>
    simp only [Bool.false_eq_true, false_iff]
    rintro ⟨h1, h2, _⟩
    simp [h1, h2] at h
  · next h =>
    simp only [Bool.or_eq_true, beq_iff_eq, not_or, Bool.not_eq_true] at h
    split
    · next c hc => simp [h.1, h.2, hc]
    · next hn =>
      simp only [Bool.false_eq_true, false_iff]
      rintro ⟨_, _, c, hc⟩
      exact hn c hc

theorem find?_file_ne_nil {t : Tree} {p : Path} {c : Str} (h : find? t p = some (.file c)) : p ≠ [] := by
  intro hp; rw [hp, find?_nil] at h; cases h

/-- FILE_APPEND / FILE_OVERWRITE need an existing file; on success the content is `old ++ text` / `text` -/
theorem append_overwrite_need_existing_file (t : Tree) (s text : Str) :
    ((fileAppend t s text).2 = true ↔ isFileS t s = true) ∧
    ((fileOverwrite t s text).2 = true ↔ isFileS t s = true) ∧
    (∀ old, s ≠ [] → trailingSlash s = false → find? t (components s) = some (.file old) →
      find? (fileAppend t s text).1 (components s) = some (.file (old ++ text)) ∧
      find? (fileOverwrite t s text).1 (components s) = some (.file text)) := by
  have hfile : isFileS t s = true ↔
      s ≠ [] ∧ trailingSlash s = false ∧ ∃ c, find? t (components s) = some (.file c) := by
    unfold isFileS isFile
    cases hf : find? t (components s) with
    | none => simp
    | some n => cases n <;> simp
  refine ⟨by rw [fileAppend_success_iff, hfile], by rw [fileOverwrite_success_iff, hfile], ?_⟩
  intro old h1 h2 h3
  have hp := find?_file_ne_nil h3
  unfold fileAppend fileOverwrite
  simp [h1, h2, h3, find?_put, hp]

/-! ## failure leaves the tree as it was -/

theorem fileCreate_failure_unchanged (t : Tree) (s : Str) (h : (fileCreate t s).2 = false) :
    (fileCreate t s).1 = t := by
  unfold fileCreate at *; simp only [] at *; split <;> simp_all

theorem fileRemove_failure_unchanged (t : Tree) (s : Str) (h : (fileRemove t s).2 = false) :
    (fileRemove t s).1 = t := by
  unfold fileRemove at *; simp only [] at *; split <;> simp_all

theorem fileAppend_failure_unchanged (t : Tree) (s text : Str) (h : (fileAppend t s text).2 = false) :
    (fileAppend t s text).1 = t := by
  unfold fileAppend at *; simp only [] at *
  split
  · rfl
  · split
    · next hc => simp [hc] at h; split at h <;> simp_all
    · rfl

theorem fileOverwrite_failure_unchanged (t : Tree) (s text : Str) (h : (fileOverwrite t s text).2 = false) :
    (fileOverwrite t s text).1 = t := by
  unfold fileOverwrite at *; simp only [] at *
  split
  · rfl
  · split
    · next hc => simp [hc] at h; split at h <;> simp_all
    · rfl

theorem dirCreate_failure_unchanged (t : Tree) (s : Str) (h : (dirCreate t s).2 = false) :
    (dirCreate t s).1 = t := by
  unfold dirCreate at *; simp only [] at *; split <;> simp_all

theorem dirCreateAll_failure_unchanged (t : Tree) (s : Str) (h : (dirCreateAll t s).2 = false) :
    (dirCreateAll t s).1 = t := by
  rw [dirCreateAll_eq] at *; split <;> simp_all

theorem dirRemove_failure_unchanged (t : Tree) (s : Str) (h : (dirRemove t s).2 = false) :
    (dirRemove t s).1 = t := by
  unfold dirRemove at *; simp only [] at *; split <;> simp_all

/-- for `DIRECTORY_REMOVE_ALL` the rule holds on every path but the root (see `dirRemoveAll_root`) -/
theorem dirRemoveAll_failure_unchanged (t : Tree) (s : Str) (hroot : s = [] ∨ components s ≠ [])
    (h : (dirRemoveAll t s).2 = false) : (dirRemoveAll t s).1 = t := by
  unfold dirRemoveAll at *; simp only [] at *
  split
  · next hc => simp [hc] at h
  · split
    · next hc =>
      rcases hroot with h0 | h0 <;> simp [h0] at hc
    · rfl

/-! ## reading -/

theorem fileRead_eq (t : Tree) (s : Str) (c : Str) :
    fileRead t s = some c ↔ s ≠ [] ∧ trailingSlash s = false ∧ find? t (components s) = some (.file c) := by
  unfold fileRead
  split
  · next h =>
    simp only [reduceCtorEq, false_iff]
    rintro ⟨h1, h2, _⟩; simp [h1, h2] at h
  · next h =>
    simp only [Bool.or_eq_true, beq_iff_eq, not_or, Bool.not_eq_true] at h
    split
    · next c' hc => simp [h.1, h.2, hc]
    · next hn =>
      simp only [reduceCtorEq, false_iff]
      rintro ⟨_, _, hc⟩; exact hn c hc

/-- FILE_READ returns exactly what was last written -/
theorem read_returns_exact_contents (t : Tree) (s text : Str) :
    ((fileOverwrite t s text).2 = true → fileRead (fileOverwrite t s text).1 s = some text) ∧
    (∀ old, fileRead t s = some old → fileRead (fileAppend t s text).1 s = some (old ++ text)) ∧
    ((fileCreate t s).2 = true → fileRead (fileCreate t s).1 s = some []) := by
  refine ⟨?_, ?_, ?_⟩
  · intro h
    obtain ⟨h1, h2, c, hc⟩ := (fileOverwrite_success_iff t s text).1 h
    rw [fileRead_eq]
    exact ⟨h1, h2, ((append_overwrite_need_existing_file t s text).2.2 c h1 h2 hc).2⟩
  · intro old h
    obtain ⟨h1, h2, hc⟩ := (fileRead_eq t s old).1 h
    rw [fileRead_eq]
    exact ⟨h1, h2, ((append_overwrite_need_existing_file t s text).2.2 old h1 h2 hc).1⟩
  · intro h
    obtain ⟨h1, h2, _⟩ := (fileCreate_success_iff t s).1 h
    rw [fileRead_eq]
    exact ⟨h1, h2, (create_only_if_absent t s h).2⟩

/-- a successful append implies the file was readable, and reads back as `old ++ text` -/
theorem read_after_append (t : Tree) (s text : Str) (h : (fileAppend t s text).2 = true) :
    ∃ old, fileRead t s = some old ∧ fileRead (fileAppend t s text).1 s = some (old ++ text) := by
  obtain ⟨h1, h2, c, hc⟩ := (fileAppend_success_iff t s text).1 h
  have hr : fileRead t s = some c := (fileRead_eq t s c).2 ⟨h1, h2, hc⟩
  exact ⟨c, hr, (read_returns_exact_contents t s text).2.1 c hr⟩

/-- reading depends on the tree only through `find?` at the named path -/
theorem fileRead_congr (t t' : Tree) (s : Str) (h : find? t' (components s) = find? t (components s)) :
    fileRead t' s = fileRead t s := by
  unfold fileRead; rw [h]

/-- reading a file is unaffected by operations on other paths -/
theorem read_unaffected_by_other_paths (t : Tree) (s s' text : Str) (h : components s' ≠ components s) :
    fileRead (fileCreate t s).1 s' = fileRead t s' ∧
    fileRead (fileRemove t s).1 s' = fileRead t s' ∧
    fileRead (fileAppend t s text).1 s' = fileRead t s' ∧
    fileRead (fileOverwrite t s text).1 s' = fileRead t s' ∧
    fileRead (dirCreate t s).1 s' = fileRead t s' ∧
    fileRead (dirRemove t s).1 s' = fileRead t s' :=
  ⟨fileRead_congr _ _ _ (fileCreate_frame t s _ h), fileRead_congr _ _ _ (fileRemove_frame t s _ h),
   fileRead_congr _ _ _ (fileAppend_frame t s text _ h), fileRead_congr _ _ _ (fileOverwrite_frame t s text _ h),
   fileRead_congr _ _ _ (dirCreate_frame t s _ h), fileRead_congr _ _ _ (dirRemove_frame t s _ h)⟩

/-- DIRECTORY_CREATE_ALL changes the contents of no file (it only adds directories where nothing was) -/
theorem read_unaffected_by_dirCreateAll (t : Tree) (s s' : Str) :
    fileRead (dirCreateAll t s).1 s' = fileRead t s' := by
  unfold fileRead
  rw [dirCreateAll_frame]
  by_cases hc : components s' ∈ prefixes (components s) ∧ find? t (components s') = none ∧
      (dirCreateAll t s).2 = true
  · rw [if_pos hc, hc.2.1]
  · rw [if_neg hc]

/-- DIRECTORY_REMOVE_ALL leaves every file outside the named directory readable as before -/
theorem read_unaffected_by_dirRemoveAll_outside (t : Tree) (s s' : Str) (hroot : components s ≠ [])
    (h : (components s).isPrefixOf (components s') = false) :
    fileRead (dirRemoveAll t s).1 s' = fileRead t s' :=
  fileRead_congr _ _ _ (dirRemoveAll_frame_outside t s _ hroot h)

/-! ## removal -/

theorem dirRemoveAll_nonroot_of_success (t : Tree) (s : Str) (h : (dirRemoveAll t s).2 = true) :
    components s ≠ [] := by
  unfold dirRemoveAll at h; simp only [] at h
  split at h
  · next hc => simp only [Bool.and_eq_true, bne_iff_ne] at hc; exact hc.1.2
  · split at h <;> cases h

theorem fileRemove_success_iff (t : Tree) (s : Str) :
    (fileRemove t s).2 = true ↔ isFileS t s = true := by
  unfold fileRemove isFileS; simp only []; split <;> simp_all

/-- after a successful FILE_REMOVE / DIRECTORY_REMOVE / DIRECTORY_REMOVE_ALL the path names nothing -/
theorem remove_then_absent (t : Tree) (s : Str) :
    ((fileRemove t s).2 = true →
      find? (fileRemove t s).1 (components s) = none ∧ existsS (fileRemove t s).1 s = false) ∧
    ((dirRemove t s).2 = true →
      find? (dirRemove t s).1 (components s) = none ∧ existsS (dirRemove t s).1 s = false) ∧
    ((dirRemoveAll t s).2 = true →
      find? (dirRemoveAll t s).1 (components s) = none ∧ existsS (dirRemoveAll t s).1 s = false) := by
  have hex : ∀ t' : Tree, find? t' (components s) = none → existsS t' s = false := by
    intro t' h; unfold existsS isDir pathExists; simp [h]
  refine ⟨?_, ?_, ?_⟩
  · intro h
    have hp : components s ≠ [] := by
      unfold fileRemove at h; simp only [] at h
      split at h
      · next hc =>
        simp only [Bool.and_eq_true] at hc
        intro h0; rw [h0] at hc; simp [isFile, find?_nil] at hc
      · cases h
    have : find? (fileRemove t s).1 (components s) = none := by
      unfold fileRemove at h ⊢; simp only [] at h ⊢
      split
      · simp [find?_erase, hp]
      · next hc => simp [hc] at h
    exact ⟨this, hex _ this⟩
  · intro h
    have : find? (dirRemove t s).1 (components s) = none := by
      unfold dirRemove at h ⊢; simp only [] at h ⊢
      split
      · next hc =>
        have hp : components s ≠ [] := by simp only [Bool.and_eq_true, bne_iff_ne] at hc; exact hc.1.1.2
        simp [find?_erase, hp]
      · next hc => simp [hc] at h
    exact ⟨this, hex _ this⟩
  · intro h
    have : find? (dirRemoveAll t s).1 (components s) = none := by
      rw [dirRemoveAll_frame t s _ (dirRemoveAll_nonroot_of_success t s h), h]
      simp
    exact ⟨this, hex _ this⟩

theorem dirRemove_success_iff (t : Tree) (s : Str) :
    (dirRemove t s).2 = true ↔
      s ≠ [] ∧ components s ≠ [] ∧ find? t (components s) = some .dir ∧ children t (components s) = [] := by
  have hd : isDir t (components s) = true ↔ find? t (components s) = some .dir := by
    unfold isDir
    cases find? t (components s) with
    | none => simp
    | some n => cases n <;> simp
  unfold dirRemove; simp only []
  split
  · next h =>
    simp only [Bool.and_eq_true, bne_iff_ne, ne_eq, List.isEmpty_iff] at h
    simp only [true_iff]
    exact ⟨h.1.1.1, h.1.1.2, hd.1 h.1.2, h.2⟩
  · next h =>
    simp only [Bool.false_eq_true, false_iff]
    rintro ⟨h1, h2, h3, h4⟩
    simp [h1, h2, hd.2 h3, h4] at h

/-- DIRECTORY_REMOVE removes only an empty directory -/
theorem dirRemove_only_if_empty (t : Tree) (s : Str) (h : (dirRemove t s).2 = true) :
    children t (components s) = [] := ((dirRemove_success_iff t s).1 h).2.2.2

theorem dirRemoveAll_success_iff (t : Tree) (s : Str) :
    (dirRemoveAll t s).2 = true ↔ s ≠ [] ∧ components s ≠ [] ∧ find? t (components s) = some .dir := by
  have hd : isDir t (components s) = true ↔ find? t (components s) = some .dir := by
    unfold isDir
    cases find? t (components s) with
    | none => simp
    | some n => cases n <;> simp
  unfold dirRemoveAll; simp only []
  split
  · next h =>
    simp only [Bool.and_eq_true, bne_iff_ne, ne_eq] at h
    simp only [true_iff]
    exact ⟨h.1.1, h.1.2, hd.1 h.2⟩
  · next h =>
    have : ∀ b : Bool, (if s ≠ [] ∧ components s = [] then (([] : Tree), false) else (t, false)).2 = b ↔ b = false := by
      intro b; split <;> simp [eq_comm]
    split
    · simp only [Bool.false_eq_true, false_iff]
      rintro ⟨h1, h2, h3⟩; simp [h1, h2, hd.2 h3] at h
    · simp only [Bool.false_eq_true, false_iff]
      rintro ⟨h1, h2, h3⟩; simp [h1, h2, hd.2 h3] at h

/-- DIRECTORY_CREATE_ALL fails exactly when some prefix of the path is a file -/
theorem dirCreateAll_success_iff (t : Tree) (s : Str) :
    (dirCreateAll t s).2 = true ↔ ∀ q ∈ prefixes (components s), isFile t q = false := by
  rw [dirCreateAll_eq]
  split
  · next h =>
    simp only [Bool.false_eq_true, false_iff]
    simp only [List.any_eq_true] at h
    obtain ⟨q, hq, hf⟩ := h
    intro hall
    have := hall q hq
    simp [hf] at this
  · next h =>
    simp only [List.any_eq_true, not_exists, not_and, Bool.not_eq_true] at h
    simpa using h

/-- after a successful DIRECTORY_CREATE_ALL every prefix of the path is a directory -/
theorem dirCreateAll_makes_dirs (t : Tree) (s : Str) (h : (dirCreateAll t s).2 = true) :
    ∀ q ∈ prefixes (components s), find? (dirCreateAll t s).1 q = some .dir := by
  intro q hq
  have hf := (dirCreateAll_success_iff t s).1 h q hq
  rw [dirCreateAll_frame, h]
  unfold isFile at hf
  cases hc : find? t q with
  | none => simp [hq]
  | some n => cases n <;> simp_all

/-! ## the PATH_* predicates agree with `find?` -/

theorem path_predicates_agree_with_find (t : Tree) (s : Str) :
    (existsS t s = true ↔
      s ≠ [] ∧ (if trailingSlash s = true then find? t (components s) = some .dir
                else (find? t (components s)).isSome = true)) ∧
    (isFileS t s = true ↔ s ≠ [] ∧ trailingSlash s = false ∧ ∃ c, find? t (components s) = some (.file c)) ∧
    (isDirS t s = true ↔ s ≠ [] ∧ find? t (components s) = some .dir) := by
  unfold existsS isFileS isDirS isDir isFile pathExists
  cases hf : find? t (components s) with
  | none => simp
  | some n => cases n <;> simp

/-- PATH_IS_FILE says TRUE exactly for the paths FILE_READ can read -/
theorem isFileS_iff_readable (t : Tree) (s : Str) : isFileS t s = true ↔ ∃ c, fileRead t s = some c := by
  rw [(path_predicates_agree_with_find t s).2.1]
  constructor
  · rintro ⟨h1, h2, c, hc⟩; exact ⟨c, (fileRead_eq t s c).2 ⟨h1, h2, hc⟩⟩
  · rintro ⟨c, hc⟩
    obtain ⟨h1, h2, h3⟩ := (fileRead_eq t s c).1 hc
    exact ⟨h1, h2, c, h3⟩

/-- the predicates only read: they are determined by `find?` at the named path, so (by the frame
theorems) an operation on another path does not change their answer -/
theorem path_predicates_congr (t t' : Tree) (s : Str) (h : find? t' (components s) = find? t (components s)) :
    existsS t' s = existsS t s ∧ isFileS t' s = isFileS t s ∧ isDirS t' s = isDirS t s := by
  unfold existsS isFileS isDirS isDir isFile pathExists
  rw [h]; simp

/-- DIRECTORY_READ lists exactly the direct children of the named directory, each as `path/name` -/
theorem dirRead_lists_children (t : Tree) (s : Str) (names : List Str) (h : dirRead t s = some names) :
    s ≠ [] ∧ find? t (components s) = some .dir ∧ names.length = (children t (components s)).length := by
  unfold dirRead at h
  simp only [] at h
  split at h
  · cases h
  · next hc =>
    simp only [Bool.or_eq_true, beq_iff_eq, Bool.not_eq_eq_eq_not, Bool.not_true, not_or,
      Bool.not_eq_false] at hc
    injection h with h
    refine ⟨hc.1, ?_, by rw [← h]; simp⟩
    have := hc.2
    unfold isDir at this
    cases hf : find? t (components s) with
    | none => simp [hf] at this
    | some n => cases n <;> simp_all

/-! ## well-formedness: no path occurs twice -/

theorem noDup_preserved (t : Tree) (s text : Str) (h : NoDupPaths t) :
    NoDupPaths (fileCreate t s).1 ∧ NoDupPaths (fileRemove t s).1 ∧ NoDupPaths (fileAppend t s text).1 ∧
    NoDupPaths (fileOverwrite t s text).1 ∧ NoDupPaths (dirCreate t s).1 ∧ NoDupPaths (dirCreateAll t s).1 ∧
    NoDupPaths (dirRemove t s).1 ∧ NoDupPaths (dirRemoveAll t s).1 := by
  refine ⟨?_, ?_, ?_, ?_, ?_, ?_, ?_, ?_⟩
  · unfold fileCreate; simp only []; split
    · exact h
    · exact noDup_put _ _ _ h
  · unfold fileRemove; simp only []; split
    · exact noDup_erase _ _ h
    · exact h
  · unfold fileAppend; simp only []; split
    · exact h
    · split
      · exact noDup_put _ _ _ h
      · exact h
  · unfold fileOverwrite; simp only []; split
    · exact h
    · split
      · exact noDup_put _ _ _ h
      · exact h
  · unfold dirCreate; simp only []; split
    · exact h
    · exact noDup_put _ _ _ h
  · rw [dirCreateAll_eq]; split
    · exact h
    · exact noDup_foldl_mkdir _ _ h
  · unfold dirRemove; simp only []; split
    · exact noDup_erase _ _ h
    · exact h
  · unfold dirRemoveAll; simp only []; split
    · exact noDup_eraseUnder _ _ h
    · split
      · simp [NoDupPaths]
      · exact h

end Aplang.Fs

namespace Aplang

/-! ## the FS natives: results and state changes -/

/-- the 13 procedures of the FS module -/
def fsNatives : List Native :=
  [.pathExists, .pathIsFile, .pathIsDirectory, .fileRemove, .fileCreate, .fileRead, .fileAppend,
   .fileOverwrite, .directoryRead, .directoryCreate, .directoryCreateAll, .directoryRemove, .directoryRemoveAll]

theorem fsNatives_are_the_FS_module : fsNatives = Native.all.filter (fun n => n.module == "FS") := by decide

/-- the state with another file tree -/
def St.withFs (σ : St) (t : Fs.Tree) : St := { σ with world := { σ.world with fs := t } }

theorem fsFlag_eq (op : Fs.Tree → Str → Fs.Tree × Bool) (p : Str) (σ : St) :
    fsFlag op p σ = .ok (.bool (op σ.world.fs p).2, σ.withFs (op σ.world.fs p).1) := by
  unfold fsFlag St.withFs
  cases op σ.world.fs p
  rfl

section
variable (env : CharEnv) (p : Str) (s1 s2 : Span) (σ : St)

theorem native_pathExists :
    callNative env .pathExists [.str p] [s1] σ = .ok (.bool (Fs.existsS σ.world.fs p), σ) := rfl
theorem native_pathIsFile :
    callNative env .pathIsFile [.str p] [s1] σ = .ok (.bool (Fs.isFileS σ.world.fs p), σ) := rfl
theorem native_pathIsDirectory :
    callNative env .pathIsDirectory [.str p] [s1] σ = .ok (.bool (Fs.isDirS σ.world.fs p), σ) := rfl
theorem native_fileRemove :
    callNative env .fileRemove [.str p] [s1] σ =
      .ok (.bool (Fs.fileRemove σ.world.fs p).2, σ.withFs (Fs.fileRemove σ.world.fs p).1) := by
  have h : callNative env .fileRemove [.str p] [s1] σ = fsFlag Fs.fileRemove p σ := rfl
  rw [h, fsFlag_eq]
theorem native_fileCreate :
    callNative env .fileCreate [.str p] [s1] σ =
      .ok (.bool (Fs.fileCreate σ.world.fs p).2, σ.withFs (Fs.fileCreate σ.world.fs p).1) := by
  have h : callNative env .fileCreate [.str p] [s1] σ = fsFlag Fs.fileCreate p σ := rfl
  rw [h, fsFlag_eq]
theorem native_fileRead :
    callNative env .fileRead [.str p] [s1] σ =
      .ok ((match Fs.fileRead σ.world.fs p with | some c => .str c | none => .null), σ) := rfl
theorem native_fileAppend (v : Value) (text : Str) (hd : display σ v = .ok text) :
    callNative env .fileAppend [.str p, v] [s1, s2] σ =
      .ok (.bool (Fs.fileAppend σ.world.fs p text).2, σ.withFs (Fs.fileAppend σ.world.fs p text).1) := by
  have h : callNative env .fileAppend [.str p, v] [s1, s2] σ =
      (display σ v).bind fun text => fsFlag (fun t s => Fs.fileAppend t s text) p σ := rfl
  rw [h, hd, Res.bind_ok, fsFlag_eq]
theorem native_fileOverwrite (v : Value) (text : Str) (hd : display σ v = .ok text) :
    callNative env .fileOverwrite [.str p, v] [s1, s2] σ =
      .ok (.bool (Fs.fileOverwrite σ.world.fs p text).2, σ.withFs (Fs.fileOverwrite σ.world.fs p text).1) := by
  have h : callNative env .fileOverwrite [.str p, v] [s1, s2] σ =
      (display σ v).bind fun text => fsFlag (fun t s => Fs.fileOverwrite t s text) p σ := rfl
  rw [h, hd, Res.bind_ok, fsFlag_eq]
theorem native_directoryRead :
    callNative env .directoryRead [.str p] [s1] σ =
      (match Fs.dirRead σ.world.fs p with
       | some names => .ok (.list σ.heap.length, { σ with heap := σ.heap ++ [.list (names.map Value.str)] })
       | none => .ok (.null, σ)) := by
  have h : callNative env .directoryRead [.str p] [s1] σ =
      (match Fs.dirRead σ.world.fs p with
       | some names => .ok (mkList σ (names.map Value.str))
       | none => .ok (.null, σ)) := rfl
  rw [h]
  cases Fs.dirRead σ.world.fs p <;> rfl
theorem native_directoryCreate :
    callNative env .directoryCreate [.str p] [s1] σ =
      .ok (.bool (Fs.dirCreate σ.world.fs p).2, σ.withFs (Fs.dirCreate σ.world.fs p).1) := by
  have h : callNative env .directoryCreate [.str p] [s1] σ = fsFlag Fs.dirCreate p σ := rfl
  rw [h, fsFlag_eq]
theorem native_directoryCreateAll :
    callNative env .directoryCreateAll [.str p] [s1] σ =
      .ok (.bool (Fs.dirCreateAll σ.world.fs p).2, σ.withFs (Fs.dirCreateAll σ.world.fs p).1) := by
  have h : callNative env .directoryCreateAll [.str p] [s1] σ = fsFlag Fs.dirCreateAll p σ := rfl
  rw [h, fsFlag_eq]
theorem native_directoryRemove :
    callNative env .directoryRemove [.str p] [s1] σ =
      .ok (.bool (Fs.dirRemove σ.world.fs p).2, σ.withFs (Fs.dirRemove σ.world.fs p).1) := by
  have h : callNative env .directoryRemove [.str p] [s1] σ = fsFlag Fs.dirRemove p σ := rfl
  rw [h, fsFlag_eq]
theorem native_directoryRemoveAll :
    callNative env .directoryRemoveAll [.str p] [s1] σ =
      .ok (.bool (Fs.dirRemoveAll σ.world.fs p).2, σ.withFs (Fs.dirRemoveAll σ.world.fs p).1) := by
  have h : callNative env .directoryRemoveAll [.str p] [s1] σ = fsFlag Fs.dirRemoveAll p σ := rfl
  rw [h, fsFlag_eq]

end

/-- what an FS native may return: a flag, NULL, the contents of a file, or a list of names -/
def FsResultValue : Value → Prop
  | .bool _ | .null | .str _ | .list _ => True
  | _ => False

/-- `σ'` is `σ` except for the file tree and, for DIRECTORY_READ only, one freshly allocated heap cell -/
def FsOnlyChange (n : Native) (σ σ' : St) : Prop :=
  ∃ fs' heap', σ' = { σ with world := { σ.world with fs := fs' }, heap := heap' } ∧
    (heap' = σ.heap ∨ (n = .directoryRead ∧ ∃ c, heap' = σ.heap ++ [c]))

theorem FsOnlyChange.refl (n : Native) (σ : St) : FsOnlyChange n σ σ := ⟨σ.world.fs, σ.heap, rfl, Or.inl rfl⟩
theorem FsOnlyChange.withFs (n : Native) (σ : St) (t : Fs.Tree) : FsOnlyChange n σ (σ.withFs t) :=
  ⟨t, σ.heap, rfl, Or.inl rfl⟩

theorem list_len1 {α} {a : α} {rest : List α} (h : (a :: rest).length = 1) : rest = [] := by
  cases rest <;> simp at h ⊢
theorem list_len2 {α} {a : α} {rest : List α} (h : (a :: rest).length = 2) : ∃ b, rest = [b] := by
  match rest, h with
  | [b], _ => exact ⟨b, rfl⟩

theorem list_len2' {α} {l : List α} (h : l.length = 2) : ∃ a b, l = [a, b] := by
  match l, h with
  | [a, b], _ => exact ⟨a, b, rfl⟩

/-- an operation that cannot be performed is reported through the return value: with a string as the
path argument (and a displayable second argument for FILE_APPEND / FILE_OVERWRITE) every FS native
returns normally — a flag, NULL, a string or a list — and changes nothing but the file tree (and one
fresh heap cell for the list DIRECTORY_READ returns) -/
theorem failure_by_value (env : CharEnv) (n : Native) (hn : n ∈ fsNatives) (p : Str) (rest : List Value)
    (spans : List Span) (σ : St)
    (hlen : (Value.str p :: rest).length = n.arity) (hsp : spans.length = n.arity)
    (hdisp : (n = .fileAppend ∨ n = .fileOverwrite) → ∀ v, rest = [v] → ∃ text, display σ v = .ok text) :
    ∃ v' σ', callNative env n (.str p :: rest) spans σ = .ok (v', σ') ∧ FsResultValue v' ∧
      FsOnlyChange n σ σ' := by
  simp only [fsNatives, List.mem_cons, List.not_mem_nil, or_false] at hn
  rcases hn with rfl | rfl | rfl | rfl | rfl | rfl | rfl | rfl | rfl | rfl | rfl | rfl | rfl
  case' inr.inr.inr.inr.inr.inr.inl | inr.inr.inr.inr.inr.inr.inr.inl =>
    obtain ⟨v, rfl⟩ := list_len2 hlen
    obtain ⟨s1, s2, rfl⟩ := list_len2' hsp
    obtain ⟨text, hd⟩ := hdisp (by simp) v rfl
  case inr.inr.inr.inr.inr.inr.inl =>
    exact ⟨_, _, native_fileAppend env p s1 s2 σ v text hd, trivial, FsOnlyChange.withFs _ _ _⟩
  case inr.inr.inr.inr.inr.inr.inr.inl =>
    exact ⟨_, _, native_fileOverwrite env p s1 s2 σ v text hd, trivial, FsOnlyChange.withFs _ _ _⟩
  all_goals
    have hr := list_len1 hlen
    subst hr
    obtain ⟨s1, rfl⟩ := List.length_eq_one_iff.1 hsp
  · exact ⟨_, _, native_pathExists env p s1 σ, trivial, FsOnlyChange.refl _ _⟩
  · exact ⟨_, _, native_pathIsFile env p s1 σ, trivial, FsOnlyChange.refl _ _⟩
  · exact ⟨_, _, native_pathIsDirectory env p s1 σ, trivial, FsOnlyChange.refl _ _⟩
  · exact ⟨_, _, native_fileRemove env p s1 σ, trivial, FsOnlyChange.withFs _ _ _⟩
  · exact ⟨_, _, native_fileCreate env p s1 σ, trivial, FsOnlyChange.withFs _ _ _⟩
  · refine ⟨_, _, native_fileRead env p s1 σ, ?_, FsOnlyChange.refl _ _⟩
    cases Fs.fileRead σ.world.fs p <;> trivial
  · rw [native_directoryRead]
    cases Fs.dirRead σ.world.fs p with
    | none => exact ⟨_, _, rfl, trivial, FsOnlyChange.refl _ _⟩
    | some names => exact ⟨_, _, rfl, trivial, σ.world.fs, _, rfl, Or.inr ⟨rfl, _, rfl⟩⟩
  · exact ⟨_, _, native_directoryCreate env p s1 σ, trivial, FsOnlyChange.withFs _ _ _⟩
  · exact ⟨_, _, native_directoryCreateAll env p s1 σ, trivial, FsOnlyChange.withFs _ _ _⟩
  · exact ⟨_, _, native_directoryRemove env p s1 σ, trivial, FsOnlyChange.withFs _ _ _⟩
  · exact ⟨_, _, native_directoryRemoveAll env p s1 σ, trivial, FsOnlyChange.withFs _ _ _⟩

/-- a path argument that is not a string is a runtime error at that argument (never a panic), and the
state is the one before the call -/
theorem nonstring_path_is_runtime_error (env : CharEnv) (n : Native) (hn : n ∈ fsNatives) (a : Value)
    (rest : List Value) (spans : List Span) (σ : St) (ha : ∀ p, a ≠ .str p)
    (hlen : (a :: rest).length = n.arity) (hsp : spans.length = n.arity) :
    ∃ s1 tl, spans = s1 :: tl ∧
      callNative env n (a :: rest) spans σ = .err ⟨"Invalid Argument Cast: STRING", s1⟩ σ := by
  simp only [fsNatives, List.mem_cons, List.not_mem_nil, or_false] at hn
  rcases hn with rfl | rfl | rfl | rfl | rfl | rfl | rfl | rfl | rfl | rfl | rfl | rfl | rfl
  case' inr.inr.inr.inr.inr.inr.inl | inr.inr.inr.inr.inr.inr.inr.inl =>
    obtain ⟨v, rfl⟩ := list_len2 hlen
    obtain ⟨s1, s2, rfl⟩ := list_len2' hsp
    refine ⟨s1, [s2], rfl, ?_⟩
    cases a <;> first | exact absurd rfl (ha _) | rfl
  all_goals
    have hr := list_len1 hlen
    subst hr
    obtain ⟨s1, rfl⟩ := List.length_eq_one_iff.1 hsp
    refine ⟨s1, [], rfl, ?_⟩
    cases a <;> first | exact absurd rfl (ha _) | rfl

/-! ## sequences of FS calls -/

/-- one call of an FS procedure: the procedure, the path string, the remaining arguments, the spans -/
structure FsCall where
  n : Native
  path : Str
  rest : List Value
  spans : List Span

/-- right number of arguments, and the value to write is not a list (so it can always be displayed) -/
def FsCall.WellFormed (c : FsCall) : Prop :=
  c.n ∈ fsNatives ∧ (Value.str c.path :: c.rest).length = c.n.arity ∧ c.spans.length = c.n.arity ∧
    ∀ v ∈ c.rest, ∀ a, v ≠ .list a

def runCalls (env : CharEnv) : List FsCall → St → Res (List Value × St)
  | [], σ => .ok ([], σ)
  | c :: cs, σ =>
    (callNative env c.n (.str c.path :: c.rest) c.spans σ).bind fun (v, σ) =>
    (runCalls env cs σ).bind fun (vs, σ) => .ok (v :: vs, σ)

theorem display_nonlist (σ : St) (v : Value) (h : ∀ a, v ≠ .list a) : ∃ text, display σ v = .ok text := by
  unfold display
  cases v with
  | list a => exact absurd rfl (h a)
  | bool b => cases b <;> simp [displayV]
  | _ => simp [displayV]

/-- every sequence of FS calls runs to its end: each call returns a value, none terminates the program,
and of the state only the file tree and the heap (by fresh cells for the lists returned) change -/
theorem fs_sequence_never_terminates (env : CharEnv) (cs : List FsCall) (σ : St)
    (h : ∀ c ∈ cs, c.WellFormed) :
    ∃ vs σ', runCalls env cs σ = .ok (vs, σ') ∧ vs.length = cs.length ∧ (∀ v ∈ vs, FsResultValue v) ∧
      ∃ fs' heap', σ' = { σ with world := { σ.world with fs := fs' }, heap := σ.heap ++ heap' } := by
  induction cs generalizing σ with
  | nil => exact ⟨[], σ, rfl, rfl, by simp, σ.world.fs, [], by simp⟩
  | cons c cs ih =>
    obtain ⟨hn, hlen, hsp, hv⟩ := h c (by simp)
    obtain ⟨v', σ1, h1, hv', fs1, heap1, hσ1, hheap⟩ :=
      failure_by_value env c.n hn c.path c.rest c.spans σ hlen hsp
        (fun _ v hr => display_nonlist σ v (hv v (by simp [hr])))
    obtain ⟨vs, σ2, h2, hlen2, hvs, fs2, heap2, hσ2⟩ := ih σ1 (fun c' hc' => h c' (by simp [hc']))
    refine ⟨v' :: vs, σ2, ?_, by simp [hlen2], ?_, fs2, ?_⟩
    · simp only [runCalls, h1, Res.bind_ok, h2]
    · intro v hmem
      rcases List.mem_cons.1 hmem with rfl | hmem
      · exact hv'
      · exact hvs v hmem
    · rcases hheap with rfl | ⟨_, cell, rfl⟩
      · exact ⟨heap2, by rw [hσ2, hσ1]⟩
      · exact ⟨cell :: heap2, by rw [hσ2, hσ1]; simp⟩

/-! ## the hypotheses are satisfiable: a small tree -/

namespace Fs
/-- `d/` (a directory) and `d/f` (a file containing `hi`) -/
def demoTree : Tree := [([['d']], .dir), ([['d'], ['f']], .file ['h', 'i'])]

example : (fileCreate demoTree ['d', '/', 'g']).2 = true := by decide
example : (fileCreate demoTree ['d', '/', 'f']).2 = false := by decide
example : (fileCreate demoTree ['x', '/', 'g']).2 = false := by decide
example : fileRead demoTree ['d', '/', 'f'] = some ['h', 'i'] := by decide
example : fileRead (fileAppend demoTree ['d', '/', 'f'] ['!']).1 ['d', '/', 'f'] = some ['h', 'i', '!'] := by decide
example : (fileAppend demoTree ['d'] ['!']).2 = false := by decide
example : (dirRemove demoTree ['d']).2 = false := by decide
example : (dirRemoveAll demoTree ['d']).2 = true ∧ fileRead (dirRemoveAll demoTree ['d']).1 ['d', '/', 'f'] = none := by
  decide
example : (dirCreateAll demoTree ['d', '/', 'f', '/', 'x']).2 = false := by decide
example : (dirCreateAll demoTree ['d', '/', 'a', '/', 'b']).2 = true ∧
    isDirS (dirCreateAll demoTree ['d', '/', 'a', '/', 'b']).1 ['d', '/', 'a', '/', 'b'] = true := by decide
example : NoDupPaths demoTree := by simp [NoDupPaths, demoTree]
example : dirRemoveAll demoTree ['.'] = ([], false) := by rfl
end Fs

example : (⟨.fileAppend, ['d', '/', 'f'], [.num 1.0], [(0, 1), (2, 1)]⟩ : FsCall).WellFormed := by
  refine ⟨by decide, by decide, by decide, ?_⟩
  intro v hv a; simp at hv; subst hv; simp

end Aplang
