import Aplang.Proofs.FsLemmas
/-!
# C19 — the FS module against a simple file-system model

The model of the file system (`Aplang.Fs`) is an association list from component paths to nodes. A
path string names a component path through `Fs.resolve`, which walks the components as the Linux
kernel does: `..` goes to the parent and needs everything before it to be an existing directory. A
path string with a trailing `/` or a last component `.` or `..` can only name a directory (`Fs.dirOnly`).

The theorems below say that each operation reads and changes exactly the entry the path string
resolves to (frame theorems), when it succeeds, what it leaves behind, that a failing operation leaves
the tree as it was (with two exceptions: `DIRECTORY_REMOVE_ALL(".")`, which the Rust `remove_dir_all`
empties before it fails — `DIRECTORY_REMOVE_ALL("d/.")` likewise empties `d` and then fails —, and
`DIRECTORY_CREATE_ALL` on a path with `..` or a final `.`, which keeps what it made before it failed), and
that every FS native reports failure through its return value.

`DIRECTORY_CREATE_ALL` and `DIRECTORY_REMOVE_ALL` are the two operations that are more than one system
call, so that the path string is looked at in a tree that changes under it: the first makes the
directories a later `..` is taken from; the second resolves the string again after it has removed what
is below the directory (`dirRemoveAll_at_resolved`).

Layout: every operation is `match resolve t s with | none => failure | some p => opAt t s p`. The
theorems are proved for `opAt` at an arbitrary path `p` (section "at a resolved path"), and then stated
for the operations on path strings twice: in general (about the path `resolve` gives; names ending in
`_resolve` or statements without any hypothesis on the string), and — under `noDotDot s`, or `plain s`
(no `..` and no final `.`) where the spelling of the end of the string matters — in the form they had
before `..` and the final `.` were in the model, about `components s` and `trailingSlash s`.
Section "`..`" has the theorems special to `..`.

The tie between `Aplang.Fs` and the real `std::fs` is checked by differential runs, not here.
-/
namespace Aplang.Fs

/-! ## at a resolved path: frame theorems -/

theorem fileCreateAt_frame (t : Tree) (s : Str) (p q : Path) (hq : q ≠ p) :
    find? (fileCreateAt t s p).1 q = find? t q := by
  unfold fileCreateAt
  split
  · rfl
  · simp only [find?_put, hq, ↓reduceIte]
    split
    · next h => rw [h, find?_nil]
    · rfl

theorem fileRemoveAt_frame (t : Tree) (s : Str) (p q : Path) (hq : q ≠ p) :
    find? (fileRemoveAt t s p).1 q = find? t q := by
  unfold fileRemoveAt
  split
  · simp only [find?_erase, hq, ↓reduceIte]
    split
    · next h => rw [h, find?_nil]
    · rfl
  · rfl

theorem fileAppendAt_frame (t : Tree) (s : Str) (p : Path) (text : Str) (q : Path) (hq : q ≠ p) :
    find? (fileAppendAt t s p text).1 q = find? t q := by
  unfold fileAppendAt
  split
  · rfl
  · split
    · simp only [find?_put, hq, ↓reduceIte]
      split
      · next h => rw [h, find?_nil]
      · rfl
    · rfl

theorem fileOverwriteAt_frame (t : Tree) (s : Str) (p : Path) (text : Str) (q : Path) (hq : q ≠ p) :
    find? (fileOverwriteAt t s p text).1 q = find? t q := by
  unfold fileOverwriteAt
  split
  · rfl
  · split
    · simp only [find?_put, hq, ↓reduceIte]
      split
      · next h => rw [h, find?_nil]
      · rfl
    · rfl

theorem dirCreateAt_frame (t : Tree) (s : Str) (p q : Path) (hq : q ≠ p) :
    find? (dirCreateAt t s p).1 q = find? t q := by
  unfold dirCreateAt
  split
  · rfl
  · simp only [find?_put, hq, ↓reduceIte]
    split
    · next h => rw [h, find?_nil]
    · rfl

theorem dirRemoveAt_frame (t : Tree) (s : Str) (p q : Path) (hq : q ≠ p) :
    find? (dirRemoveAt t s p).1 q = find? t q := by
  unfold dirRemoveAt
  split
  · simp only [find?_erase, hq, ↓reduceIte]
    split
    · next h => rw [h, find?_nil]
    · rfl
  · rfl

theorem isPrefixOf_nil_of_ne {p : Path} (h : p ≠ []) : p.isPrefixOf ([] : Path) = false := by
  cases p with
  | nil => exact absurd rfl h
  | cons a as => rfl

theorem isPrefixOf_self (p : Path) : p.isPrefixOf p = true :=
  List.isPrefixOf_iff_prefix.2 (List.prefix_refl p)

/-- `DIRECTORY_REMOVE_ALL` that gets as far as removing (a non-empty path string that names a directory):
every path strictly below the directory disappears, whatever the outcome; every other path, the
directory itself aside, is as before -/
theorem dirRemoveAllAt_frame (t : Tree) (s : Str) (p q : Path) (hq : q ≠ p) :
    find? (dirRemoveAllAt t s p).1 q =
      if (s ≠ [] ∧ isDir t p = true) ∧ p.isPrefixOf q = true then none else find? t q := by
  have hnil : q = [] → p.isPrefixOf q = false := by
    intro h; subst h; exact isPrefixOf_nil_of_ne (Ne.symm hq)
  unfold dirRemoveAllAt
  split
  · next h =>
    have : ¬ (s ≠ [] ∧ isDir t p = true) := by
      simp only [Bool.or_eq_true, beq_iff_eq, Bool.not_eq_eq_eq_not, Bool.not_true] at h
      rintro ⟨h1, h2⟩
      rcases h with h | h
      · exact h1 h
      · rw [h2] at h; cases h
    simp [this]
  · next h =>
    have hg : s ≠ [] ∧ isDir t p = true := by
      simp only [Bool.or_eq_true, beq_iff_eq, Bool.not_eq_eq_eq_not, Bool.not_true, not_or, Bool.not_eq_false] at h
      exact h
    simp only [hg, ne_eq, not_false_eq_true, and_self, true_and]
    have hbelow : find? (eraseBelow t p) q = if p.isPrefixOf q = true then none else find? t q := by
      rw [find?_eraseBelow]
      split
      · next h0 => rw [hnil h0]; simp [h0, find?_nil]
      · simp [hq]
    have hunder : find? (eraseUnder t p) q = if p.isPrefixOf q = true then none else find? t q := by
      rw [find?_eraseUnder]
      split
      · next h0 => rw [hnil h0]; simp [h0, find?_nil]
      · rfl
    split
    · exact hbelow
    · split
      · exact hbelow
      · exact hunder

/-! ## at a resolved path: when an operation succeeds, and what it leaves -/

theorem find?_none_iff_not_exists (t : Tree) (p : Path) : pathExists t p = false ↔ find? t p = none := by
  unfold pathExists; cases find? t p <;> simp

theorem fileCreateAt_success_iff (t : Tree) (s : Str) (p : Path) :
    (fileCreateAt t s p).2 = true ↔
      s ≠ [] ∧ dirOnly s = false ∧ p ≠ [] ∧ find? t p = none ∧ isDir t (parent p) = true := by
  unfold fileCreateAt
  split
  · next h =>
    simp only [Bool.false_eq_true, false_iff]
    rintro ⟨h1, h2, h3, h4, h5⟩
    simp [h1, h2, h3, h5, pathExists, h4] at h
  · next h =>
    simp only [Bool.or_eq_true, beq_iff_eq, Bool.not_eq_eq_eq_not, Bool.not_true, not_or,
      Bool.not_eq_true, Bool.not_eq_false] at h
    obtain ⟨⟨⟨⟨h1, h2⟩, h3⟩, h4⟩, h5⟩ := h
    simp only [true_iff]
    exact ⟨h1, h2, h3, (find?_none_iff_not_exists t _).1 h4, h5⟩

theorem fileCreateAt_only_if_absent (t : Tree) (s : Str) (p : Path) (h : (fileCreateAt t s p).2 = true) :
    find? t p = none ∧ find? (fileCreateAt t s p).1 p = some (.file []) := by
  have h' := (fileCreateAt_success_iff t s p).1 h
  refine ⟨h'.2.2.2.1, ?_⟩
  have hcond : (s == [] || dirOnly s || p == [] || pathExists t p || !isDir t (parent p)) = false := by
    simp [h'.1, h'.2.1, h'.2.2.1, h'.2.2.2.2, pathExists, h'.2.2.2.1]
  unfold fileCreateAt
  simp only [hcond, Bool.false_eq_true, ↓reduceIte]
  simp [find?_put, h'.2.2.1]

theorem dirCreateAt_success_iff (t : Tree) (s : Str) (p : Path) :
    (dirCreateAt t s p).2 = true ↔
      s ≠ [] ∧ lastDots s = false ∧ p ≠ [] ∧ find? t p = none ∧ isDir t (parent p) = true := by
  unfold dirCreateAt
  split
  · next h =>
    simp only [Bool.false_eq_true, false_iff]
    rintro ⟨h1, h2, h3, h4, h5⟩
    simp [h1, h2, h3, h5, pathExists, h4] at h
  · next h =>
    simp only [Bool.or_eq_true, beq_iff_eq, Bool.not_eq_eq_eq_not, Bool.not_true, not_or,
      Bool.not_eq_true, Bool.not_eq_false] at h
    obtain ⟨⟨⟨⟨h1, h2⟩, h3⟩, h4⟩, h5⟩ := h
    simp only [true_iff]
    exact ⟨h1, h2, h3, (find?_none_iff_not_exists t _).1 h4, h5⟩

theorem dirCreateAt_only_if_absent (t : Tree) (s : Str) (p : Path) (h : (dirCreateAt t s p).2 = true) :
    find? t p = none ∧ find? (dirCreateAt t s p).1 p = some .dir := by
  have h' := (dirCreateAt_success_iff t s p).1 h
  refine ⟨h'.2.2.2.1, ?_⟩
  have hcond : (s == [] || lastDots s || p == [] || pathExists t p || !isDir t (parent p)) = false := by
    simp [h'.1, h'.2.1, h'.2.2.1, h'.2.2.2.2, pathExists, h'.2.2.2.1]
  unfold dirCreateAt
  simp only [hcond, Bool.false_eq_true, ↓reduceIte]
  simp [find?_put, h'.2.2.1]

theorem fileAppendAt_success_iff (t : Tree) (s : Str) (p : Path) (text : Str) :
    (fileAppendAt t s p text).2 = true ↔ s ≠ [] ∧ dirOnly s = false ∧ ∃ c, find? t p = some (.file c) := by
  unfold fileAppendAt
  split
  · next h =>
    simp only [Bool.false_eq_true, false_iff]
    rintro ⟨h1, h2, _⟩
    simp [h1, h2] at h
  · next h =>
    simp only [Bool.or_eq_true, beq_iff_eq, not_or, Bool.not_eq_true] at h
    split
    · next c hc => simp [h.1, h.2, hc]
    · next hn =>
      simp only [Bool.false_eq_true, false_iff]
      rintro ⟨_, _, c, hc⟩
      exact hn c hc

theorem fileOverwriteAt_success_iff (t : Tree) (s : Str) (p : Path) (text : Str) :
    (fileOverwriteAt t s p text).2 = true ↔ s ≠ [] ∧ dirOnly s = false ∧ ∃ c, find? t p = some (.file c) := by
  unfold fileOverwriteAt
  split
  · next h =>
    simp only [Bool.false_eq_true, false_iff]
    rintro ⟨h1, h2, _⟩
    simp [h1, h2] at h
  · next h =>
    simp only [Bool.or_eq_true, beq_iff_eq, not_or, Bool.not_eq_true] at h
    split
    · next c hc => simp [h.1, h.2, hc]
    · next hn =>
      simp only [Bool.false_eq_true, false_iff]
      rintro ⟨_, _, c, hc⟩
      exact hn c hc

theorem find?_file_ne_nil {t : Tree} {p : Path} {c : Str} (h : find? t p = some (.file c)) : p ≠ [] := by
  intro hp; rw [hp, find?_nil] at h; cases h

theorem isFileAt_iff (t : Tree) (s : Str) (p : Path) :
    isFileAt t s p = true ↔ s ≠ [] ∧ dirOnly s = false ∧ ∃ c, find? t p = some (.file c) := by
  unfold isFileAt isFile
  cases hf : find? t p with
  | none => simp
  | some n => cases n <;> simp

theorem appendAt_overwriteAt_contents (t : Tree) (s : Str) (p : Path) (text old : Str)
    (h1 : s ≠ []) (h2 : dirOnly s = false) (h3 : find? t p = some (.file old)) :
    find? (fileAppendAt t s p text).1 p = some (.file (old ++ text)) ∧
    find? (fileOverwriteAt t s p text).1 p = some (.file text) := by
  have hp := find?_file_ne_nil h3
  unfold fileAppendAt fileOverwriteAt
  simp [h1, h2, h3, find?_put, hp]

/-! ## at a resolved path: failure leaves the tree as it was -/

theorem fileCreateAt_failure_unchanged (t : Tree) (s : Str) (p : Path) (h : (fileCreateAt t s p).2 = false) :
    (fileCreateAt t s p).1 = t := by
  unfold fileCreateAt at *; split <;> simp_all

theorem fileRemoveAt_failure_unchanged (t : Tree) (s : Str) (p : Path) (h : (fileRemoveAt t s p).2 = false) :
    (fileRemoveAt t s p).1 = t := by
  unfold fileRemoveAt at *; split <;> simp_all

theorem fileAppendAt_failure_unchanged (t : Tree) (s : Str) (p : Path) (text : Str)
    (h : (fileAppendAt t s p text).2 = false) : (fileAppendAt t s p text).1 = t := by
  unfold fileAppendAt at *
  split
  · rfl
  · split
    · next hc => simp [hc] at h; split at h <;> simp_all
    · rfl

theorem fileOverwriteAt_failure_unchanged (t : Tree) (s : Str) (p : Path) (text : Str)
    (h : (fileOverwriteAt t s p text).2 = false) : (fileOverwriteAt t s p text).1 = t := by
  unfold fileOverwriteAt at *
  split
  · rfl
  · split
    · next hc => simp [hc] at h; split at h <;> simp_all
    · rfl

theorem dirCreateAt_failure_unchanged (t : Tree) (s : Str) (p : Path) (h : (dirCreateAt t s p).2 = false) :
    (dirCreateAt t s p).1 = t := by
  unfold dirCreateAt at *; split <;> simp_all

theorem dirRemoveAt_failure_unchanged (t : Tree) (s : Str) (p : Path) (h : (dirRemoveAt t s p).2 = false) :
    (dirRemoveAt t s p).1 = t := by
  unfold dirRemoveAt at *; split <;> simp_all

/-! ## at a resolved path: reading, removal, the predicates -/

theorem fileReadAt_eq (t : Tree) (s : Str) (p : Path) (c : Str) :
    fileReadAt t s p = some c ↔ s ≠ [] ∧ dirOnly s = false ∧ find? t p = some (.file c) := by
  unfold fileReadAt
  split
  · next h =>
    simp only [reduceCtorEq, false_iff]
    rintro ⟨h1, h2, _⟩; simp [h1, h2] at h
  · next h =>
    simp only [Bool.or_eq_true, beq_iff_eq, not_or, Bool.not_eq_true] at h
    split
    · next c' hc => simp [h.1, h.2, hc]
    · next hn =>
      simp only [reduceCtorEq, false_iff]
      rintro ⟨_, _, hc⟩; exact hn c hc

theorem fileRemoveAt_success_iff (t : Tree) (s : Str) (p : Path) :
    (fileRemoveAt t s p).2 = true ↔ isFileAt t s p = true := by
  unfold fileRemoveAt isFileAt; split <;> simp_all

theorem fileRemoveAt_then_absent (t : Tree) (s : Str) (p : Path) (h : (fileRemoveAt t s p).2 = true) :
    find? (fileRemoveAt t s p).1 p = none := by
  have hp : p ≠ [] := by
    obtain ⟨_, _, c, hc⟩ := (isFileAt_iff t s p).1 ((fileRemoveAt_success_iff t s p).1 h)
    exact find?_file_ne_nil hc
  unfold fileRemoveAt at h ⊢
  split
  · simp [find?_erase, hp]
  · next hc => simp [hc] at h

theorem dirRemoveAt_success_iff (t : Tree) (s : Str) (p : Path) :
    (dirRemoveAt t s p).2 = true ↔
      s ≠ [] ∧ lastDots s = false ∧ p ≠ [] ∧ find? t p = some .dir ∧ children t p = [] := by
  unfold dirRemoveAt
  split
  · next h =>
    simp only [Bool.and_eq_true, bne_iff_ne, ne_eq, List.isEmpty_iff, Bool.not_eq_eq_eq_not, Bool.not_true] at h
    simp only [true_iff]
    exact ⟨h.1.1.1.1, h.1.1.1.2, h.1.1.2, (isDir_iff t p).1 h.1.2, h.2⟩
  · next h =>
    simp only [Bool.false_eq_true, false_iff]
    rintro ⟨h1, h2, h3, h4, h5⟩
    simp [h1, h2, h3, (isDir_iff t p).2 h4, h5] at h

theorem dirRemoveAt_then_absent (t : Tree) (s : Str) (p : Path) (h : (dirRemoveAt t s p).2 = true) :
    find? (dirRemoveAt t s p).1 p = none := by
  have hp := ((dirRemoveAt_success_iff t s p).1 h).2.2.1
  unfold dirRemoveAt at h ⊢
  split
  · simp [find?_erase, hp]
  · next hc => simp [hc] at h

theorem dirRemoveAllAt_success_iff (t : Tree) (s : Str) (p : Path) :
    (dirRemoveAllAt t s p).2 = true ↔
      s ≠ [] ∧ find? t p = some .dir ∧
        (resolve (eraseBelow t p) s = none ∨ (p ≠ [] ∧ lastDots s = false)) := by
  unfold dirRemoveAllAt
  split
  · next h =>
    simp only [Bool.or_eq_true, beq_iff_eq, Bool.not_eq_eq_eq_not, Bool.not_true] at h
    simp only [Bool.false_eq_true, false_iff]
    rintro ⟨h1, h2, _⟩
    rcases h with h | h
    · exact h1 h
    · rw [(isDir_iff t p).2 h2] at h; cases h
  · next h =>
    simp only [Bool.or_eq_true, beq_iff_eq, Bool.not_eq_eq_eq_not, Bool.not_true, not_or, Bool.not_eq_false] at h
    have hd := (isDir_iff t p).1 h.2
    cases hres : resolve (eraseBelow t p) s with
    | none => simp [h.1, hd]
    | some p' =>
      simp only [h.1, hd, ne_eq, not_false_eq_true, reduceCtorEq, false_or, true_and]
      by_cases hc : (p == [] || lastDots s) = true
      · simp only [hc, ↓reduceIte, Bool.false_eq_true, false_iff]
        simp only [Bool.or_eq_true, beq_iff_eq] at hc
        rintro ⟨h1, h2⟩
        rcases hc with hc | hc
        · exact h1 hc
        · rw [h2] at hc; cases hc
      · simp only [hc, Bool.false_eq_true, ↓reduceIte, true_iff]
        simp only [Bool.or_eq_true, beq_iff_eq, not_or, Bool.not_eq_true] at hc
        exact hc

theorem existsAt_false_of_absent (t : Tree) (s : Str) (p : Path) (h : find? t p = none) : existsAt t s p = false := by
  unfold existsAt isDir pathExists; simp [h]

theorem predicatesAt_agree_with_find (t : Tree) (s : Str) (p : Path) :
    (existsAt t s p = true ↔
      s ≠ [] ∧ (if dirOnly s = true then find? t p = some .dir else (find? t p).isSome = true)) ∧
    (isFileAt t s p = true ↔ s ≠ [] ∧ dirOnly s = false ∧ ∃ c, find? t p = some (.file c)) ∧
    (isDirAt t s p = true ↔ s ≠ [] ∧ find? t p = some .dir) := by
  unfold existsAt isFileAt isDirAt isDir isFile pathExists
  cases hf : find? t p with
  | none => simp
  | some n => cases n <;> simp

theorem predicatesAt_congr (t t' : Tree) (s : Str) (p : Path) (h : find? t' p = find? t p) :
    existsAt t' s p = existsAt t s p ∧ isFileAt t' s p = isFileAt t s p ∧ isDirAt t' s p = isDirAt t s p := by
  unfold existsAt isFileAt isDirAt isDir isFile pathExists
  rw [h]; simp

theorem dirReadAt_lists_children (t : Tree) (s : Str) (p : Path) (names : List Str)
    (h : dirReadAt t s p = some names) :
    s ≠ [] ∧ find? t p = some .dir ∧
      names = (children t p).map fun q => (if s.getLast? == some '/' then s else s ++ ['/']) ++ q.getLast?.getD [] := by
  unfold dirReadAt at h
  simp only [] at h
  split at h
  · cases h
  · next hc =>
    simp only [Bool.or_eq_true, beq_iff_eq, Bool.not_eq_eq_eq_not, Bool.not_true, not_or,
      Bool.not_eq_false] at hc
    injection h with h
    exact ⟨hc.1, (isDir_iff t p).1 hc.2, h.symm⟩

end Aplang.Fs

namespace Aplang.Fs

/-! ## the operations on path strings are the operations at the resolved path -/

/-- the common shape of the operations that return a flag -/
def onResolved (t : Tree) (s : Str) (k : Path → Tree × Bool) : Tree × Bool :=
  match resolve t s with | none => (t, false) | some p => k p

theorem fileCreate_on (t : Tree) (s : Str) : fileCreate t s = onResolved t s (fileCreateAt t s) := by
  unfold fileCreate onResolved; cases resolve t s <;> rfl
theorem fileRemove_on (t : Tree) (s : Str) : fileRemove t s = onResolved t s (fileRemoveAt t s) := by
  unfold fileRemove onResolved; cases resolve t s <;> rfl
theorem fileAppend_on (t : Tree) (s text : Str) :
    fileAppend t s text = onResolved t s (fun p => fileAppendAt t s p text) := by
  unfold fileAppend onResolved; cases resolve t s <;> rfl
theorem fileOverwrite_on (t : Tree) (s text : Str) :
    fileOverwrite t s text = onResolved t s (fun p => fileOverwriteAt t s p text) := by
  unfold fileOverwrite onResolved; cases resolve t s <;> rfl
theorem dirCreate_on (t : Tree) (s : Str) : dirCreate t s = onResolved t s (dirCreateAt t s) := by
  unfold dirCreate onResolved; cases resolve t s <;> rfl
theorem dirRemove_on (t : Tree) (s : Str) : dirRemove t s = onResolved t s (dirRemoveAt t s) := by
  unfold dirRemove onResolved; cases resolve t s <;> rfl
theorem dirRemoveAll_on (t : Tree) (s : Str) : dirRemoveAll t s = onResolved t s (dirRemoveAllAt t s) := by
  unfold dirRemoveAll onResolved; cases resolve t s <;> rfl

theorem onResolved_some {t : Tree} {s : Str} {k : Path → Tree × Bool} {p : Path} (h : resolve t s = some p) :
    onResolved t s k = k p := by simp [onResolved, h]
theorem onResolved_none {t : Tree} {s : Str} {k : Path → Tree × Bool} (h : resolve t s = none) :
    onResolved t s k = (t, false) := by simp [onResolved, h]

theorem onResolved_flag (t : Tree) (s : Str) (k : Path → Tree × Bool) :
    (onResolved t s k).2 = true ↔ ∃ p, resolve t s = some p ∧ (k p).2 = true := by
  unfold onResolved; cases resolve t s <;> simp

theorem onResolved_frame (t : Tree) (s : Str) (k : Path → Tree × Bool) (q : Path)
    (hk : ∀ p, q ≠ p → find? (k p).1 q = find? t q) (hq : resolve t s ≠ some q) :
    find? (onResolved t s k).1 q = find? t q := by
  unfold onResolved
  cases hr : resolve t s with
  | none => rfl
  | some p => exact hk p (fun e => hq (by rw [hr, e]))

theorem onResolved_unchanged (t : Tree) (s : Str) (k : Path → Tree × Bool)
    (hk : ∀ p, resolve t s = some p → (k p).2 = false → (k p).1 = t) (h : (onResolved t s k).2 = false) :
    (onResolved t s k).1 = t := by
  cases hr : resolve t s with
  | none => rw [onResolved_none hr]
  | some p => rw [onResolved_some hr] at h ⊢; exact hk p hr h

/-- the value-returning operations at the resolved path -/
theorem fileRead_of_resolve {t : Tree} {s : Str} {p : Path} (h : resolve t s = some p) :
    fileRead t s = fileReadAt t s p := by simp [fileRead, h]
theorem dirRead_of_resolve {t : Tree} {s : Str} {p : Path} (h : resolve t s = some p) :
    dirRead t s = dirReadAt t s p := by simp [dirRead, h]
theorem existsS_of_resolve {t : Tree} {s : Str} {p : Path} (h : resolve t s = some p) :
    existsS t s = existsAt t s p := by simp [existsS, h]
theorem isFileS_of_resolve {t : Tree} {s : Str} {p : Path} (h : resolve t s = some p) :
    isFileS t s = isFileAt t s p := by simp [isFileS, h]
theorem isDirS_of_resolve {t : Tree} {s : Str} {p : Path} (h : resolve t s = some p) :
    isDirS t s = isDirAt t s p := by simp [isDirS, h]

/-- a path string that does not resolve (a `..` taken from a missing name or from a file): every
operation that goes through `resolve` reports failure by value and leaves the tree as it was -/
theorem unresolved_fails (t : Tree) (s : Str) (h : resolve t s = none) (text : Str) :
    existsS t s = false ∧ isFileS t s = false ∧ isDirS t s = false ∧
    fileCreate t s = (t, false) ∧ fileRemove t s = (t, false) ∧ fileRead t s = none ∧
    fileAppend t s text = (t, false) ∧ fileOverwrite t s text = (t, false) ∧
    dirCreate t s = (t, false) ∧ dirRemove t s = (t, false) ∧ dirRemoveAll t s = (t, false) ∧
    dirRead t s = none := by
  simp [existsS, isFileS, isDirS, fileCreate, fileRemove, fileRead, fileAppend, fileOverwrite, dirCreate,
    dirRemove, dirRemoveAll, dirRead, h]

theorem ne_resolve_of_noDotDot {t : Tree} {s : Str} {q : Path} (hnd : noDotDot s = true)
    (hq : q ≠ components s) : resolve t s ≠ some q := by
  rw [resolve_eq_components t s hnd]; intro e; exact hq (Option.some.inj e).symm

theorem isDir_erase_mono (t : Tree) (p q : Path) (h : isDir (erase t p) q = true) : isDir t q = true := by
  rw [isDir_iff] at *
  rw [find?_erase] at h
  split at h
  · next h0 => rw [h0, find?_nil]
  · split at h
    · cases h
    · exact h

theorem isDir_eraseUnder_mono (t : Tree) (p q : Path) (h : isDir (eraseUnder t p) q = true) : isDir t q = true := by
  rw [isDir_iff] at *
  rw [find?_eraseUnder] at h
  split at h
  · next h0 => rw [h0, find?_nil]
  · split at h
    · cases h
    · exact h

theorem isDir_eraseBelow_mono (t : Tree) (p q : Path) (h : isDir (eraseBelow t p) q = true) : isDir t q = true := by
  rw [isDir_iff] at *
  rw [find?_eraseBelow] at h
  split at h
  · next h0 => rw [h0, find?_nil]
  · split at h
    · cases h
    · exact h

theorem not_isDir_of_file {t : Tree} {p : Path} {c : Str} (h : find? t p = some (.file c)) : isDir t p = false := by
  unfold isDir; rw [h]
theorem not_isDir_of_absent {t : Tree} {p : Path} (h : find? t p = none) : isDir t p = false := by
  unfold isDir; rw [h]

theorem dropLast_strictly_above {p : Path} (h : p ≠ []) : (parent p).isPrefixOf p = true ∧ p ≠ parent p := by
  unfold parent
  refine ⟨List.isPrefixOf_iff_prefix.2 (List.dropLast_prefix p), fun e => ?_⟩
  have := congrArg List.length e
  rw [List.length_dropLast] at this
  have hl : 0 < p.length := List.length_pos_iff.2 h
  omega

/-- a path string ending in `..`: where the `..` is taken from, and what it gives -/
theorem resolve_ends (t : Tree) (s : Str) (hdd : endsDotDot s = true) :
    resolve t s = (resolveFrom t [] (components s).dropLast).bind fun cur =>
      if isDir t cur then some (parent cur) else none := by
  have hc : components s = (components s).dropLast ++ [dotdot] := by
    unfold endsDotDot at hdd
    exact (dropLast_append_of_getLast? (by simpa using hdd)).symm
  unfold resolve
  conv => lhs; rw [hc]
  rw [resolveFrom_append]
  congr 1

/-- a path string ending in `..` that names a directory other than the root: once everything below that
directory is removed the string no longer resolves — the directory its last `..` is taken from is gone -/
theorem dotdot_unresolved_after (t : Tree) (s : Str) (p : Path) (hdd : endsDotDot s = true)
    (hr : resolve t s = some p) (hp : p ≠ []) : resolve (eraseBelow t p) s = none := by
  have hmono : ∀ q, isDir (eraseBelow t p) q = true → isDir t q = true := fun q => isDir_eraseBelow_mono t p q
  rw [resolve_ends _ s hdd]
  cases hcur2 : resolveFrom (eraseBelow t p) [] (components s).dropLast with
  | none => rfl
  | some cur =>
    have hcur := resolveFrom_mono hmono [] _ cur hcur2
    rw [resolve_ends t s hdd, hcur] at hr
    simp only [Option.bind_some] at hr ⊢
    have hpc : p = parent cur := by
      split at hr
      · exact (Option.some.inj hr).symm
      · cases hr
    have hne : cur ≠ [] := by
      intro e; rw [e] at hpc; exact hp hpc
    obtain ⟨hpre, hne2⟩ := dropLast_strictly_above hne
    have : isDir (eraseBelow t p) cur = false := by
      apply not_isDir_of_absent
      rw [find?_eraseBelow, hpc]
      simp [hne, hpre, hne2]
    rw [this]; rfl

/-! ## frame theorems: only the path the string resolves to changes

General form: every path `q` the string does not resolve to is as before (if the string does not
resolve at all, nothing changes). Under `noDotDot s`: the form about `components s`. -/

theorem fileCreate_frame_resolve (t : Tree) (s : Str) (q : Path) (hq : resolve t s ≠ some q) :
    find? (fileCreate t s).1 q = find? t q := by
  rw [fileCreate_on]; exact onResolved_frame t s _ q (fun p hp => fileCreateAt_frame t s p q hp) hq
theorem fileRemove_frame_resolve (t : Tree) (s : Str) (q : Path) (hq : resolve t s ≠ some q) :
    find? (fileRemove t s).1 q = find? t q := by
  rw [fileRemove_on]; exact onResolved_frame t s _ q (fun p hp => fileRemoveAt_frame t s p q hp) hq
theorem fileAppend_frame_resolve (t : Tree) (s text : Str) (q : Path) (hq : resolve t s ≠ some q) :
    find? (fileAppend t s text).1 q = find? t q := by
  rw [fileAppend_on]; exact onResolved_frame t s _ q (fun p hp => fileAppendAt_frame t s p text q hp) hq
theorem fileOverwrite_frame_resolve (t : Tree) (s text : Str) (q : Path) (hq : resolve t s ≠ some q) :
    find? (fileOverwrite t s text).1 q = find? t q := by
  rw [fileOverwrite_on]; exact onResolved_frame t s _ q (fun p hp => fileOverwriteAt_frame t s p text q hp) hq
theorem dirCreate_frame_resolve (t : Tree) (s : Str) (q : Path) (hq : resolve t s ≠ some q) :
    find? (dirCreate t s).1 q = find? t q := by
  rw [dirCreate_on]; exact onResolved_frame t s _ q (fun p hp => dirCreateAt_frame t s p q hp) hq
theorem dirRemove_frame_resolve (t : Tree) (s : Str) (q : Path) (hq : resolve t s ≠ some q) :
    find? (dirRemove t s).1 q = find? t q := by
  rw [dirRemove_on]; exact onResolved_frame t s _ q (fun p hp => dirRemoveAt_frame t s p q hp) hq

theorem fileCreate_frame (t : Tree) (s : Str) (q : Path) (hnd : noDotDot s = true) (hq : q ≠ components s) :
    find? (fileCreate t s).1 q = find? t q := fileCreate_frame_resolve t s q (ne_resolve_of_noDotDot hnd hq)
theorem fileRemove_frame (t : Tree) (s : Str) (q : Path) (hnd : noDotDot s = true) (hq : q ≠ components s) :
    find? (fileRemove t s).1 q = find? t q := fileRemove_frame_resolve t s q (ne_resolve_of_noDotDot hnd hq)
theorem fileAppend_frame (t : Tree) (s text : Str) (q : Path) (hnd : noDotDot s = true) (hq : q ≠ components s) :
    find? (fileAppend t s text).1 q = find? t q := fileAppend_frame_resolve t s text q (ne_resolve_of_noDotDot hnd hq)
theorem fileOverwrite_frame (t : Tree) (s text : Str) (q : Path) (hnd : noDotDot s = true) (hq : q ≠ components s) :
    find? (fileOverwrite t s text).1 q = find? t q :=
  fileOverwrite_frame_resolve t s text q (ne_resolve_of_noDotDot hnd hq)
theorem dirCreate_frame (t : Tree) (s : Str) (q : Path) (hnd : noDotDot s = true) (hq : q ≠ components s) :
    find? (dirCreate t s).1 q = find? t q := dirCreate_frame_resolve t s q (ne_resolve_of_noDotDot hnd hq)
theorem dirRemove_frame (t : Tree) (s : Str) (q : Path) (hnd : noDotDot s = true) (hq : q ≠ components s) :
    find? (dirRemove t s).1 q = find? t q := dirRemove_frame_resolve t s q (ne_resolve_of_noDotDot hnd hq)

/-! ### `DIRECTORY_CREATE_ALL` -/

/-- the last directory the path string names, which `DIRECTORY_CREATE_ALL("…/x/.")` wants to be there already -/
def lastVisit (s : Str) : Path := (mkdirVisits [] (components s)).getLast?.getD []

/-- the directories `DIRECTORY_CREATE_ALL` makes where nothing is: all of `dirCreateAllVisits` when none of
them is a file; when it meets a file, those visited before the file (its ancestors left out, see
`Fs.mkdirRun`) -/
def dirCreateAllMakes (t : Tree) (s : Str) : List Path :=
  match (dirCreateAllVisits s).find? (fun q => isFile t q) with
  | none => dirCreateAllVisits s
  | some f => ((dirCreateAllVisits s).takeWhile fun q => !isFile t q).filter fun q => !(q.isPrefixOf f)

theorem mkdirRun_snd (t : Tree) (vs : List Path) : (mkdirRun t vs).2 = !vs.any (fun q => isFile t q) := by
  unfold mkdirRun
  cases hf : List.find? (fun q => isFile t q) vs with
  | none =>
    rw [List.find?_eq_none] at hf
    have : vs.any (fun q => isFile t q) = false := by simpa using hf
    simp [this]
  | some f =>
    have : vs.any (fun q => isFile t q) = true := by
      rw [List.any_eq_true]
      exact ⟨f, List.mem_of_find?_eq_some hf, List.find?_some hf⟩
    simp [this]

theorem dirCreateAll_fst (t : Tree) (s : Str) :
    (dirCreateAll t s).1 = (dirCreateAllMakes t s).foldl mkdirStep t := by
  unfold dirCreateAll dirCreateAllMakes mkdirRun
  simp only []
  split <;> cases List.find? (fun q => isFile t q) (dirCreateAllVisits s) <;> rfl

theorem dirCreateAll_snd (t : Tree) (s : Str) :
    (dirCreateAll t s).2 = (!(dirCreateAllVisits s).any (fun q => isFile t q) &&
      (!lastMustExist s || isDir (dirCreateAll t s).1 (lastVisit s))) := by
  unfold dirCreateAll lastVisit
  simp only []
  split
  · next h => simp [h, mkdirRun_snd]
  · next h => simp [h, mkdirRun_snd]

theorem dirCreateAllVisits_sub (s : Str) : ∀ q ∈ dirCreateAllVisits s, q ∈ mkdirVisits [] (components s) := by
  unfold dirCreateAllVisits
  intro q hq
  split at hq
  · exact (List.dropLast_sublist _).subset hq
  · exact hq

theorem dirCreateAllMakes_sub (t : Tree) (s : Str) :
    ∀ q ∈ dirCreateAllMakes t s, q ∈ dirCreateAllVisits s := by
  unfold dirCreateAllMakes
  intro q hq
  split at hq
  · exact hq
  · exact (List.takeWhile_sublist _).subset (List.mem_filter.1 hq).1

/-- `DIRECTORY_CREATE_ALL` succeeds exactly when none of the directories it would make is a file and — for a
path string `…/x/.` — the last directory named is there in the end -/
theorem dirCreateAll_success_iff_visits (t : Tree) (s : Str) :
    (dirCreateAll t s).2 = true ↔
      (∀ q ∈ dirCreateAllVisits s, isFile t q = false) ∧
      (lastMustExist s = true → isDir (dirCreateAll t s).1 (lastVisit s) = true) := by
  rw [dirCreateAll_snd]
  cases lastMustExist s <;> simp

theorem dirCreateAllMakes_of_nofile (t : Tree) (s : Str) (hall : ∀ q ∈ dirCreateAllVisits s, isFile t q = false) :
    dirCreateAllMakes t s = dirCreateAllVisits s := by
  unfold dirCreateAllMakes
  cases hf : List.find? (fun q => isFile t q) (dirCreateAllVisits s) with
  | none => rfl
  | some f =>
    have := hall f (List.mem_of_find?_eq_some hf)
    have h2 := List.find?_some hf
    simp [this] at h2

theorem dirCreateAllMakes_of_success (t : Tree) (s : Str) (h : (dirCreateAll t s).2 = true) :
    dirCreateAllMakes t s = dirCreateAllVisits s :=
  dirCreateAllMakes_of_nofile t s ((dirCreateAll_success_iff_visits t s).1 h).1

theorem dirCreateAll_find? (t : Tree) (s : Str) (q : Path) :
    find? (dirCreateAll t s).1 q =
      if q ∈ dirCreateAllMakes t s ∧ find? t q = none then some .dir else find? t q := by
  rw [dirCreateAll_fst]
  exact find?_foldl_mkdir _ (fun a ha =>
    ne_nil_of_mem_mkdirVisits (dirCreateAllVisits_sub s a (dirCreateAllMakes_sub t s a ha))) t q

/-- `DIRECTORY_CREATE_ALL`, success: exactly the paths of `dirCreateAllVisits` at which nothing was change,
and they become directories; every other path (and every existing entry) is as before -/
theorem dirCreateAll_frame_visits (t : Tree) (s : Str) (q : Path) (h : (dirCreateAll t s).2 = true) :
    find? (dirCreateAll t s).1 q =
      if q ∈ dirCreateAllVisits s ∧ find? t q = none then some .dir else find? t q := by
  rw [dirCreateAll_find?, dirCreateAllMakes_of_success t s h]

/-- `DIRECTORY_CREATE_ALL`, success or not: an entry is as before, or it is a new directory at a visited
path at which nothing was -/
theorem dirCreateAll_only_adds_dirs (t : Tree) (s : Str) (q : Path) :
    find? (dirCreateAll t s).1 q = find? t q ∨
      (q ∈ dirCreateAllVisits s ∧ find? t q = none ∧ find? (dirCreateAll t s).1 q = some .dir) := by
  rw [dirCreateAll_find?]
  by_cases hc : q ∈ dirCreateAllMakes t s ∧ find? t q = none
  · right; rw [if_pos hc]; exact ⟨dirCreateAllMakes_sub t s q hc.1, hc.2, rfl⟩
  · left; rw [if_neg hc]

/-- … in particular what exists stays, and a directory stays a directory -/
theorem dirCreateAll_keeps (t : Tree) (s : Str) (q : Path) (n : FsNode) (h : find? t q = some n) :
    find? (dirCreateAll t s).1 q = some n := by
  rcases dirCreateAll_only_adds_dirs t s q with h' | ⟨_, h', _⟩
  · rw [h', h]
  · rw [h] at h'; cases h'

/-- `DIRECTORY_CREATE_ALL("…/x/.")` never makes `x`: it fails unless `x` is there (as a directory) -/
theorem dirCreateAll_final_dot (t : Tree) (s : Str) (hl : lastMustExist s = true)
    (hx : find? t (lastVisit s) = none) (hnew : lastVisit s ∉ dirCreateAllVisits s) :
    (dirCreateAll t s).2 = false ∧ find? (dirCreateAll t s).1 (lastVisit s) = none := by
  have hfind : find? (dirCreateAll t s).1 (lastVisit s) = none := by
    rw [dirCreateAll_find?]
    have : ¬ (lastVisit s ∈ dirCreateAllMakes t s ∧ find? t (lastVisit s) = none) :=
      fun h => hnew (dirCreateAllMakes_sub t s _ h.1)
    rw [if_neg this, hx]
  refine ⟨?_, hfind⟩
  rw [dirCreateAll_snd, hl, not_isDir_of_absent hfind]
  simp

theorem dirCreateAll_eq (t : Tree) (s : Str) (hpl : plain s = true) :
    dirCreateAll t s =
      if (prefixes (components s)).any (fun q => isFile t q) then (t, false)
      else ((prefixes (components s)).foldl mkdirStep t, true) := by
  rw [dirCreateAll_eq_lexical t s (lexicalOK_of_plain hpl)]; rfl

/-- `DIRECTORY_CREATE_ALL` on a plain path string: exactly the prefixes of the named path that did not exist
change, and they become directories; every other path (and every existing entry) is as before -/
theorem dirCreateAll_frame (t : Tree) (s : Str) (q : Path) (hpl : plain s = true) :
    find? (dirCreateAll t s).1 q =
      if q ∈ prefixes (components s) ∧ find? t q = none ∧ (dirCreateAll t s).2 = true then some .dir
      else find? t q := by
  rw [dirCreateAll_eq t s hpl]
  split
  · simp
  · simp only [and_true]
    exact find?_foldl_mkdir _ (fun a ha => ne_nil_of_mem_prefixes ha) t q

/-! ### `DIRECTORY_REMOVE_ALL` -/

/-- on a path other than the root DIRECTORY_REMOVE_ALL succeeds exactly on a non-empty path string that
names a directory -/
theorem dirRemoveAll_nonroot_success_iff (t : Tree) (s : Str) (p : Path) (hr : resolve t s = some p) (hroot : p ≠ [])
    (hdot : endsDot s = false) :
    (dirRemoveAll t s).2 = true ↔ s ≠ [] ∧ isDir t p = true := by
  rw [dirRemoveAll_on, onResolved_some hr, dirRemoveAllAt_success_iff, ← isDir_iff]
  constructor
  · rintro ⟨h1, h2, _⟩; exact ⟨h1, h2⟩
  · rintro ⟨h1, h2⟩
    refine ⟨h1, h2, ?_⟩
    by_cases hdd : endsDotDot s = true
    · exact Or.inl (dotdot_unresolved_after t s p hdd hr hroot)
    · exact Or.inr ⟨hroot, by simp [lastDots, hdot, hdd]⟩

/-- for `DIRECTORY_REMOVE_ALL` failure leaves the tree as it was on every path string that does not name
the root (see `dirRemoveAll_root_resolve`) and does not end in `.` (see `dirRemoveAll_final_dot`) -/
theorem dirRemoveAll_failure_unchanged_resolve (t : Tree) (s : Str) (hroot : s = [] ∨ resolve t s ≠ some [])
    (hdot : endsDot s = false)
    (h : (dirRemoveAll t s).2 = false) : (dirRemoveAll t s).1 = t := by
  cases hr : resolve t s with
  | none => rw [dirRemoveAll_on, onResolved_none hr]
  | some p =>
    have hp : s = [] ∨ p ≠ [] := by
      rcases hroot with h0 | h0
      · exact Or.inl h0
      · exact Or.inr fun e => h0 (by rw [hr, e])
    by_cases hg : s ≠ [] ∧ isDir t p = true
    · have hpne : p ≠ [] := hp.resolve_left hg.1
      rw [(dirRemoveAll_nonroot_success_iff t s p hr hpne hdot).2 hg] at h; cases h
    · rw [dirRemoveAll_on, onResolved_some hr]
      unfold dirRemoveAllAt
      have : (s == [] || !isDir t p) = true := by
        by_cases hs : s = []
        · simp [hs]
        · have : isDir t p = false := by simpa [hs] using hg
          simp [this]
      simp only [this, ↓reduceIte]

theorem dirRemoveAll_failure_unchanged (t : Tree) (s : Str) (hpl : plain s = true)
    (hroot : s = [] ∨ components s ≠ [])
    (h : (dirRemoveAll t s).2 = false) : (dirRemoveAll t s).1 = t := by
  have hnd := noDotDot_of_plain hpl
  refine dirRemoveAll_failure_unchanged_resolve t s ?_ (endsDot_of_plain hpl) h
  rcases hroot with h0 | h0
  · exact Or.inl h0
  · exact Or.inr (ne_resolve_of_noDotDot hnd (Ne.symm h0))

/-- `DIRECTORY_REMOVE_ALL` that gets as far as removing (a non-empty path string that names a directory):
whatever the outcome every path strictly below the directory disappears and every other path — the
directory itself aside — is as before -/
theorem dirRemoveAll_frame_guard (t : Tree) (s : Str) (p q : Path) (hr : resolve t s = some p) (hq : q ≠ p) :
    find? (dirRemoveAll t s).1 q =
      if (s ≠ [] ∧ isDir t p = true) ∧ p.isPrefixOf q = true then none else find? t q := by
  rw [dirRemoveAll_on, onResolved_some hr]
  exact dirRemoveAllAt_frame t s p q hq

/-- `DIRECTORY_REMOVE_ALL("d/.")` (and any path string ending in `.` that still resolves once the directory
is emptied): the directory is emptied, stays, and the call reports failure (`rmdir("d/.")` is `EINVAL`) -/
theorem dirRemoveAll_final_dot (t : Tree) (s : Str) (p : Path) (hdot : endsDot s = true)
    (hr : resolve t s = some p) (hd : isDir t p = true) (hres : resolve (eraseBelow t p) s ≠ none) :
    dirRemoveAll t s = (eraseBelow t p, false) := by
  have hs : s ≠ [] := by intro e; subst e; simp [endsDot, splitSlash] at hdot
  rw [dirRemoveAll_on, onResolved_some hr]
  unfold dirRemoveAllAt
  have hg : (s == [] || !isDir t p) = false := by simp [hs, hd]
  simp only [hg, Bool.false_eq_true, ↓reduceIte]
  cases h : resolve (eraseBelow t p) s with
  | none => exact absurd h hres
  | some p' => simp [lastDots, hdot]

/-- `DIRECTORY_REMOVE_ALL` on a path other than the root (the string not ending in `.`): on success exactly
the paths below the resolved directory disappear; every other path — the directory itself aside, see
`dirRemoveAll_at_resolved` — is as before -/
theorem dirRemoveAll_frame_resolve (t : Tree) (s : Str) (p q : Path) (hr : resolve t s = some p) (hroot : p ≠ [])
    (hdot : endsDot s = false) (hq : q ≠ p) :
    find? (dirRemoveAll t s).1 q =
      if (dirRemoveAll t s).2 = true ∧ p.isPrefixOf q = true then none else find? t q := by
  have hg := dirRemoveAll_nonroot_success_iff t s p hr hroot hdot
  have hf := dirRemoveAllAt_frame t s p q hq
  rw [dirRemoveAll_on, onResolved_some hr] at hg ⊢
  rw [hf]
  by_cases hgd : s ≠ [] ∧ isDir t p = true
  · simp [hgd, hg.2 hgd]
  · have : ¬ (dirRemoveAllAt t s p).2 = true := fun h => hgd (hg.1 h)
    simp [hgd, this]

/-- … and the directory itself is removed, unless the path string went (with `..`) through one of the
directories below it: then it stays, empty (`DIRECTORY_REMOVE_ALL("d/e/..")`, `("d/e/../../d")`) -/
theorem dirRemoveAll_at_resolved (t : Tree) (s : Str) (p : Path) (hr : resolve t s = some p) (hroot : p ≠ [])
    (h : (dirRemoveAll t s).2 = true) :
    find? (dirRemoveAll t s).1 p = if resolve (eraseBelow t p) s = none then some .dir else none := by
  rw [dirRemoveAll_on, onResolved_some hr] at h ⊢
  obtain ⟨h1, h2, h3⟩ := (dirRemoveAllAt_success_iff t s p).1 h
  unfold dirRemoveAllAt
  have hg : (s == [] || !isDir t p) = false := by simp [h1, (isDir_iff t p).2 h2]
  simp only [hg, Bool.false_eq_true, ↓reduceIte]
  cases hres : resolve (eraseBelow t p) s with
  | none =>
    simp only [↓reduceIte]
    rw [find?_eraseBelow]; simp [hroot, h2]
  | some p' =>
    rcases h3 with h3 | h3
    · rw [hres] at h3; cases h3
    · have hc : (p == [] || lastDots s) = false := by simp [h3.1, h3.2]
      simp only [hc, Bool.false_eq_true, ↓reduceIte, reduceCtorEq]
      rw [find?_eraseUnder]; simp [hroot, isPrefixOf_self]

theorem dirRemoveAll_frame (t : Tree) (s : Str) (q : Path) (hpl : plain s = true) (hroot : components s ≠ []) :
    find? (dirRemoveAll t s).1 q =
      if (dirRemoveAll t s).2 = true ∧ (components s).isPrefixOf q = true then none else find? t q := by
  have hnd := noDotDot_of_plain hpl
  have hr := resolve_eq_components t s hnd
  by_cases hq : q = components s
  · subst hq
    by_cases h : (dirRemoveAll t s).2 = true
    · rw [dirRemoveAll_at_resolved t s _ hr hroot h, resolve_eq_components _ s hnd]
      simp [h, isPrefixOf_self]
    · have h' : (dirRemoveAll t s).2 = false := by simpa using h
      rw [dirRemoveAll_failure_unchanged t s hpl (Or.inr hroot) h']
      simp [h']
  · exact dirRemoveAll_frame_resolve t s _ q hr hroot (endsDot_of_plain hpl) hq

/-- a path that does not lie under the resolved directory is untouched by `DIRECTORY_REMOVE_ALL` -/
theorem dirRemoveAll_frame_outside_resolve (t : Tree) (s : Str) (p q : Path) (hr : resolve t s = some p)
    (hq : p.isPrefixOf q = false) : find? (dirRemoveAll t s).1 q = find? t q := by
  have hne : q ≠ p := by
    intro e; rw [e, isPrefixOf_self] at hq; cases hq
  rw [dirRemoveAll_frame_guard t s p q hr hne]; simp [hq]

theorem dirRemoveAll_frame_outside (t : Tree) (s : Str) (q : Path) (hnd : noDotDot s = true)
    (_hroot : components s ≠ []) (hq : (components s).isPrefixOf q = false) :
    find? (dirRemoveAll t s).1 q = find? t q :=
  dirRemoveAll_frame_outside_resolve t s _ q (resolve_eq_components t s hnd) hq

/-- the exception: `DIRECTORY_REMOVE_ALL` on a path string that names the sandbox root empties the tree.
For `"."`, `"/"`, `"./"` … it then reports failure (src: `remove_dir_all(".")` removes the contents, then
fails on the root itself); for `d/..` it reports success (the final `rmdir("d/..")` is `ENOENT` — `d` is
gone — which `remove_dir_all` takes as done) -/
theorem dirRemoveAll_root_resolve (t : Tree) (s : Str) (hs : s ≠ []) (hr : resolve t s = some []) :
    (dirRemoveAll t s).1 = [] ∧ ((dirRemoveAll t s).2 = true ↔ resolve [] s = none) := by
  rw [dirRemoveAll_on, onResolved_some hr]
  unfold dirRemoveAllAt
  have hg : (s == [] || !isDir t []) = false := by simp [hs, isDir_nil]
  simp only [hg, Bool.false_eq_true, ↓reduceIte, eraseBelow_nil]
  cases resolve [] s with
  | none => simp
  | some p' => simp

theorem dirRemoveAll_root (t : Tree) (s : Str) (hnd : noDotDot s = true) (hs : s ≠ []) (hroot : components s = []) :
    dirRemoveAll t s = ([], false) := by
  rw [dirRemoveAll_eq_lexical t s (by simp [lexicalOK, hnd, hroot])]
  unfold Lexical.dirRemoveAll
  simp [hs, hroot]

/-! ## when an operation succeeds, and what it leaves -/

theorem fileCreate_success_iff_resolve (t : Tree) (s : Str) :
    (fileCreate t s).2 = true ↔
      ∃ p, resolve t s = some p ∧ s ≠ [] ∧ dirOnly s = false ∧ p ≠ [] ∧ find? t p = none ∧
        isDir t (parent p) = true := by
  rw [fileCreate_on, onResolved_flag]; simp only [fileCreateAt_success_iff]

theorem fileCreate_success_iff (t : Tree) (s : Str) (hpl : plain s = true) :
    (fileCreate t s).2 = true ↔
      s ≠ [] ∧ trailingSlash s = false ∧ components s ≠ [] ∧ find? t (components s) = none ∧
        isDir t (parent (components s)) = true := by
  rw [fileCreate_success_iff_resolve, resolve_eq_components t s (noDotDot_of_plain hpl), dirOnly_of_plain hpl]; simp

/-- FILE_CREATE creates an empty file, and only where nothing exists -/
theorem create_only_if_absent_resolve (t : Tree) (s : Str) (h : (fileCreate t s).2 = true) :
    ∃ p, resolve t s = some p ∧ find? t p = none ∧ find? (fileCreate t s).1 p = some (.file []) := by
  rw [fileCreate_on] at h ⊢
  obtain ⟨p, hr, hp⟩ := (onResolved_flag t s _).1 h
  rw [onResolved_some hr]
  exact ⟨p, hr, fileCreateAt_only_if_absent t s p hp⟩

theorem create_only_if_absent (t : Tree) (s : Str) (hnd : noDotDot s = true) (h : (fileCreate t s).2 = true) :
    find? t (components s) = none ∧ find? (fileCreate t s).1 (components s) = some (.file []) := by
  obtain ⟨p, hr, hp⟩ := create_only_if_absent_resolve t s h
  rw [resolve_eq_components t s hnd] at hr
  cases hr; exact hp

theorem dirCreate_success_iff_resolve (t : Tree) (s : Str) :
    (dirCreate t s).2 = true ↔
      ∃ p, resolve t s = some p ∧ s ≠ [] ∧ lastDots s = false ∧ p ≠ [] ∧ find? t p = none ∧
        isDir t (parent p) = true := by
  rw [dirCreate_on, onResolved_flag]; simp only [dirCreateAt_success_iff]

theorem dirCreate_success_iff (t : Tree) (s : Str) (hpl : plain s = true) :
    (dirCreate t s).2 = true ↔
      s ≠ [] ∧ components s ≠ [] ∧ find? t (components s) = none ∧ isDir t (parent (components s)) = true := by
  rw [dirCreate_success_iff_resolve, resolve_eq_components t s (noDotDot_of_plain hpl), lastDots_of_plain hpl]; simp

theorem dirCreate_only_if_absent_resolve (t : Tree) (s : Str) (h : (dirCreate t s).2 = true) :
    ∃ p, resolve t s = some p ∧ find? t p = none ∧ find? (dirCreate t s).1 p = some .dir := by
  rw [dirCreate_on] at h ⊢
  obtain ⟨p, hr, hp⟩ := (onResolved_flag t s _).1 h
  rw [onResolved_some hr]
  exact ⟨p, hr, dirCreateAt_only_if_absent t s p hp⟩

theorem dirCreate_only_if_absent (t : Tree) (s : Str) (hnd : noDotDot s = true) (h : (dirCreate t s).2 = true) :
    find? t (components s) = none ∧ find? (dirCreate t s).1 (components s) = some .dir := by
  obtain ⟨p, hr, hp⟩ := dirCreate_only_if_absent_resolve t s h
  rw [resolve_eq_components t s hnd] at hr
  cases hr; exact hp

/-- FILE_APPEND succeeds exactly on an existing file (named by a string that can name a file) -/
theorem fileAppend_success_iff_resolve (t : Tree) (s text : Str) :
    (fileAppend t s text).2 = true ↔
      ∃ p, resolve t s = some p ∧ s ≠ [] ∧ dirOnly s = false ∧ ∃ c, find? t p = some (.file c) := by
  rw [fileAppend_on, onResolved_flag]; simp only [fileAppendAt_success_iff]

theorem fileAppend_success_iff (t : Tree) (s text : Str) (hpl : plain s = true) :
    (fileAppend t s text).2 = true ↔
      s ≠ [] ∧ trailingSlash s = false ∧ ∃ c, find? t (components s) = some (.file c) := by
  rw [fileAppend_success_iff_resolve, resolve_eq_components t s (noDotDot_of_plain hpl), dirOnly_of_plain hpl]; simp

theorem fileOverwrite_success_iff_resolve (t : Tree) (s text : Str) :
    (fileOverwrite t s text).2 = true ↔
      ∃ p, resolve t s = some p ∧ s ≠ [] ∧ dirOnly s = false ∧ ∃ c, find? t p = some (.file c) := by
  rw [fileOverwrite_on, onResolved_flag]; simp only [fileOverwriteAt_success_iff]

theorem fileOverwrite_success_iff (t : Tree) (s text : Str) (hpl : plain s = true) :
    (fileOverwrite t s text).2 = true ↔
      s ≠ [] ∧ trailingSlash s = false ∧ ∃ c, find? t (components s) = some (.file c) := by
  rw [fileOverwrite_success_iff_resolve, resolve_eq_components t s (noDotDot_of_plain hpl), dirOnly_of_plain hpl]; simp

theorem isFileS_iff_resolve (t : Tree) (s : Str) :
    isFileS t s = true ↔
      ∃ p, resolve t s = some p ∧ s ≠ [] ∧ dirOnly s = false ∧ ∃ c, find? t p = some (.file c) := by
  unfold isFileS
  cases hr : resolve t s with
  | none => simp
  | some p => simp [isFileAt_iff]

/-- FILE_APPEND / FILE_OVERWRITE need an existing file; on success the content is `old ++ text` / `text` -/
theorem append_overwrite_need_existing_file_resolve (t : Tree) (s text : Str) :
    ((fileAppend t s text).2 = true ↔ isFileS t s = true) ∧
    ((fileOverwrite t s text).2 = true ↔ isFileS t s = true) ∧
    (∀ p old, resolve t s = some p → s ≠ [] → dirOnly s = false → find? t p = some (.file old) →
      find? (fileAppend t s text).1 p = some (.file (old ++ text)) ∧
      find? (fileOverwrite t s text).1 p = some (.file text)) := by
  refine ⟨by rw [fileAppend_success_iff_resolve, isFileS_iff_resolve],
    by rw [fileOverwrite_success_iff_resolve, isFileS_iff_resolve], ?_⟩
  intro p old hr h1 h2 h3
  rw [fileAppend_on, fileOverwrite_on, onResolved_some hr, onResolved_some hr]
  exact appendAt_overwriteAt_contents t s p text old h1 h2 h3

theorem append_overwrite_need_existing_file (t : Tree) (s text : Str) (hpl : plain s = true) :
    ((fileAppend t s text).2 = true ↔ isFileS t s = true) ∧
    ((fileOverwrite t s text).2 = true ↔ isFileS t s = true) ∧
    (∀ old, s ≠ [] → trailingSlash s = false → find? t (components s) = some (.file old) →
      find? (fileAppend t s text).1 (components s) = some (.file (old ++ text)) ∧
      find? (fileOverwrite t s text).1 (components s) = some (.file text)) := by
  obtain ⟨h1, h2, h3⟩ := append_overwrite_need_existing_file_resolve t s text
  refine ⟨h1, h2, fun old hs hts hf => ?_⟩
  exact h3 _ old (resolve_eq_components t s (noDotDot_of_plain hpl)) hs (by rw [dirOnly_of_plain hpl]; exact hts) hf

/-! ## failure leaves the tree as it was -/

theorem fileCreate_failure_unchanged (t : Tree) (s : Str) (h : (fileCreate t s).2 = false) :
    (fileCreate t s).1 = t := by
  rw [fileCreate_on] at h ⊢
  exact onResolved_unchanged t s _ (fun p _ => fileCreateAt_failure_unchanged t s p) h

theorem fileRemove_failure_unchanged (t : Tree) (s : Str) (h : (fileRemove t s).2 = false) :
    (fileRemove t s).1 = t := by
  rw [fileRemove_on] at h ⊢
  exact onResolved_unchanged t s _ (fun p _ => fileRemoveAt_failure_unchanged t s p) h

theorem fileAppend_failure_unchanged (t : Tree) (s text : Str) (h : (fileAppend t s text).2 = false) :
    (fileAppend t s text).1 = t := by
  rw [fileAppend_on] at h ⊢
  exact onResolved_unchanged t s _ (fun p _ => fileAppendAt_failure_unchanged t s p text) h

theorem fileOverwrite_failure_unchanged (t : Tree) (s text : Str) (h : (fileOverwrite t s text).2 = false) :
    (fileOverwrite t s text).1 = t := by
  rw [fileOverwrite_on] at h ⊢
  exact onResolved_unchanged t s _ (fun p _ => fileOverwriteAt_failure_unchanged t s p text) h

theorem dirCreate_failure_unchanged (t : Tree) (s : Str) (h : (dirCreate t s).2 = false) :
    (dirCreate t s).1 = t := by
  rw [dirCreate_on] at h ⊢
  exact onResolved_unchanged t s _ (fun p _ => dirCreateAt_failure_unchanged t s p) h

theorem dirRemove_failure_unchanged (t : Tree) (s : Str) (h : (dirRemove t s).2 = false) :
    (dirRemove t s).1 = t := by
  rw [dirRemove_on] at h ⊢
  exact onResolved_unchanged t s _ (fun p _ => dirRemoveAt_failure_unchanged t s p) h

/-- on a plain path string a failing `DIRECTORY_CREATE_ALL` has made nothing. (With `..` or a final `.` it may have:
`dirCreateAll_only_adds_dirs` is what holds then, and `Demo.createAll_partial` shows it happen.) -/
theorem dirCreateAll_failure_unchanged (t : Tree) (s : Str) (hpl : plain s = true)
    (h : (dirCreateAll t s).2 = false) : (dirCreateAll t s).1 = t := by
  rw [dirCreateAll_eq t s hpl] at *; split <;> simp_all

/-! ## reading -/

theorem fileRead_eq_resolve (t : Tree) (s : Str) (c : Str) :
    fileRead t s = some c ↔
      ∃ p, resolve t s = some p ∧ s ≠ [] ∧ dirOnly s = false ∧ find? t p = some (.file c) := by
  unfold fileRead
  cases hr : resolve t s with
  | none => simp
  | some p => simp [fileReadAt_eq]

theorem fileRead_eq (t : Tree) (s : Str) (c : Str) (hpl : plain s = true) :
    fileRead t s = some c ↔ s ≠ [] ∧ trailingSlash s = false ∧ find? t (components s) = some (.file c) := by
  rw [fileRead_eq_resolve, resolve_eq_components t s (noDotDot_of_plain hpl), dirOnly_of_plain hpl]; simp

/-- writing to a file, or creating one, changes no directory: every path string resolves as before -/
theorem resolve_after_file_ops (t : Tree) (s text : Str) (s' : Str) :
    resolve (fileCreate t s).1 s' = resolve t s' ∧ resolve (fileAppend t s text).1 s' = resolve t s' ∧
    resolve (fileOverwrite t s text).1 s' = resolve t s' := by
  refine ⟨resolve_congr (fun q => ?_) s', resolve_congr (fun q => ?_) s', resolve_congr (fun q => ?_) s'⟩
  · rw [fileCreate_on]; unfold onResolved
    cases resolve t s with
    | none => rfl
    | some p =>
      simp only []
      by_cases hc : (fileCreateAt t s p).2 = true
      · have h1 := (fileCreateAt_success_iff t s p).1 hc
        have : fileCreateAt t s p = (put t p (.file []), true) := by
          have hcond : (s == [] || dirOnly s || p == [] || pathExists t p || !isDir t (parent p)) = false := by
            simp [h1.1, h1.2.1, h1.2.2.1, h1.2.2.2.2, pathExists, h1.2.2.2.1]
          unfold fileCreateAt; simp only [hcond, Bool.false_eq_true, ↓reduceIte]
        rw [this]
        exact isDir_put_file t p [] q (not_isDir_of_absent h1.2.2.2.1)
      · rw [fileCreateAt_failure_unchanged t s p (by simpa using hc)]
  · rw [fileAppend_on]; unfold onResolved
    cases resolve t s with
    | none => rfl
    | some p =>
      simp only []
      unfold fileAppendAt
      split
      · rfl
      · split
        · next c hc => exact isDir_put_file t p _ q (not_isDir_of_file hc)
        · rfl
  · rw [fileOverwrite_on]; unfold onResolved
    cases resolve t s with
    | none => rfl
    | some p =>
      simp only []
      unfold fileOverwriteAt
      split
      · rfl
      · split
        · next c hc => exact isDir_put_file t p _ q (not_isDir_of_file hc)
        · rfl

/-- FILE_READ returns exactly what was last written -/
theorem read_returns_exact_contents (t : Tree) (s text : Str) :
    ((fileOverwrite t s text).2 = true → fileRead (fileOverwrite t s text).1 s = some text) ∧
    (∀ old, fileRead t s = some old → fileRead (fileAppend t s text).1 s = some (old ++ text)) ∧
    ((fileCreate t s).2 = true → fileRead (fileCreate t s).1 s = some []) := by
  obtain ⟨rc, ra, ro⟩ := resolve_after_file_ops t s text s
  refine ⟨?_, ?_, ?_⟩
  · intro h
    obtain ⟨p, hr, h1, h2, c, hc⟩ := (fileOverwrite_success_iff_resolve t s text).1 h
    rw [fileRead_eq_resolve]
    exact ⟨p, by rw [ro, hr], h1, h2, ((append_overwrite_need_existing_file_resolve t s text).2.2 p c hr h1 h2 hc).2⟩
  · intro old h
    obtain ⟨p, hr, h1, h2, hc⟩ := (fileRead_eq_resolve t s old).1 h
    rw [fileRead_eq_resolve]
    exact ⟨p, by rw [ra, hr], h1, h2, ((append_overwrite_need_existing_file_resolve t s text).2.2 p old hr h1 h2 hc).1⟩
  · intro h
    obtain ⟨p, hr, h1, h2, _⟩ := (fileCreate_success_iff_resolve t s).1 h
    obtain ⟨p', hr', _, hc⟩ := create_only_if_absent_resolve t s h
    rw [hr] at hr'; cases hr'
    rw [fileRead_eq_resolve]
    exact ⟨p, by rw [rc, hr], h1, h2, hc⟩

/-- a successful append implies the file was readable, and reads back as `old ++ text` -/
theorem read_after_append (t : Tree) (s text : Str) (h : (fileAppend t s text).2 = true) :
    ∃ old, fileRead t s = some old ∧ fileRead (fileAppend t s text).1 s = some (old ++ text) := by
  obtain ⟨p, hr, h1, h2, c, hc⟩ := (fileAppend_success_iff_resolve t s text).1 h
  have hrd : fileRead t s = some c := (fileRead_eq_resolve t s c).2 ⟨p, hr, h1, h2, hc⟩
  exact ⟨c, hrd, (read_returns_exact_contents t s text).2.1 c hrd⟩

/-- reading depends on the tree only through the path the string resolves to and `find?` there -/
theorem fileRead_congr_resolve (t t' : Tree) (s : Str) (hr : resolve t' s = resolve t s)
    (h : ∀ p, resolve t s = some p → find? t' p = find? t p) : fileRead t' s = fileRead t s := by
  unfold fileRead
  rw [hr]
  cases hp : resolve t s with
  | none => rfl
  | some p => simp only []; unfold fileReadAt; rw [h p hp]

theorem fileRead_congr (t t' : Tree) (s : Str) (hnd : noDotDot s = true)
    (h : find? t' (components s) = find? t (components s)) : fileRead t' s = fileRead t s := by
  apply fileRead_congr_resolve
  · rw [resolve_eq_components t s hnd, resolve_eq_components t' s hnd]
  · intro p hp
    rw [resolve_eq_components t s hnd] at hp; cases hp; exact h

/-- a directory that appears where nothing was: whatever resolved before resolves to the same path -/
theorem resolve_after_dirCreate (t : Tree) (s s' : Str) (p' : Path) (h : resolve t s' = some p') :
    resolve (dirCreate t s).1 s' = some p' := by
  refine resolve_mono (t' := t) (fun q hq => ?_) s' p' h
  rw [dirCreate_on]; unfold onResolved
  cases resolve t s with
  | none => exact hq
  | some p =>
    simp only []
    by_cases hc : (dirCreateAt t s p).2 = true
    · by_cases hqp : q = p
      · rw [hqp]; exact (isDir_iff _ _).2 (dirCreateAt_only_if_absent t s p hc).2
      · rw [isDir_congr (dirCreateAt_frame t s p q hqp)]; exact hq
    · rw [dirCreateAt_failure_unchanged t s p (by simpa using hc)]; exact hq

/-- reading a file is unaffected by operations on other paths: `s'` resolves to `p'`, and `s` does not
resolve to `p'`. (For FILE_REMOVE the resolution of `s'` is unaffected as well; DIRECTORY_REMOVE can
take away a directory `s'` passes through with `..` — see `read_after_dirRemove_other`.) -/
theorem read_unaffected_by_other_paths_resolve (t : Tree) (s s' text : Str) (p' : Path)
    (hr' : resolve t s' = some p') (h : resolve t s ≠ some p') :
    fileRead (fileCreate t s).1 s' = fileRead t s' ∧
    fileRead (fileRemove t s).1 s' = fileRead t s' ∧
    fileRead (fileAppend t s text).1 s' = fileRead t s' ∧
    fileRead (fileOverwrite t s text).1 s' = fileRead t s' ∧
    fileRead (dirCreate t s).1 s' = fileRead t s' := by
  obtain ⟨rc, ra, ro⟩ := resolve_after_file_ops t s text s'
  have hone : ∀ p, resolve t s' = some p → p = p' := fun p hp => by rw [hr'] at hp; exact (Option.some.inj hp).symm
  refine ⟨fileRead_congr_resolve _ _ _ rc (fun p hp => ?_), fileRead_congr_resolve _ _ _ ?_ (fun p hp => ?_),
    fileRead_congr_resolve _ _ _ ra (fun p hp => ?_), fileRead_congr_resolve _ _ _ ro (fun p hp => ?_),
    fileRead_congr_resolve _ _ _ ?_ (fun p hp => ?_)⟩
  · rw [hone p hp]; exact fileCreate_frame_resolve t s _ h
  · apply resolve_congr
    intro q
    rw [fileRemove_on]; unfold onResolved
    cases resolve t s with
    | none => rfl
    | some p =>
      simp only []
      unfold fileRemoveAt
      split
      · next hc =>
        simp only [Bool.and_eq_true] at hc
        obtain ⟨c, hfile⟩ := (isFile_iff t p).1 hc.2
        exact isDir_erase_of_not_dir t p q (not_isDir_of_file hfile)
      · rfl
  · rw [hone p hp]; exact fileRemove_frame_resolve t s _ h
  · rw [hone p hp]; exact fileAppend_frame_resolve t s text _ h
  · rw [hone p hp]; exact fileOverwrite_frame_resolve t s text _ h
  · rw [hr']; exact resolve_after_dirCreate t s s' p' hr'
  · rw [hone p hp]; exact dirCreate_frame_resolve t s _ h

/-- DIRECTORY_REMOVE of another path: what can be read afterwards is what could be read before (a path
string with `..` through the removed directory no longer resolves) -/
theorem read_after_dirRemove_other (t : Tree) (s s' : Str) (p' : Path)
    (hr' : resolve t s' = some p') (h : resolve t s ≠ some p') :
    fileRead (dirRemove t s).1 s' = fileRead t s' ∨ resolve (dirRemove t s).1 s' = none := by
  cases hr2 : resolve (dirRemove t s).1 s' with
  | none => exact Or.inr rfl
  | some p2 =>
    left
    have hmono : resolve t s' = some p2 := by
      refine resolve_mono (t' := (dirRemove t s).1) (fun q hq => ?_) s' p2 hr2
      by_cases hqs : resolve t s = some q
      · rw [dirRemove_on, onResolved_some hqs] at hq
        by_cases hc : (dirRemoveAt t s q).2 = true
        · have := (isDir_iff _ _).1 hq
          rw [dirRemoveAt_then_absent t s q hc] at this; cases this
        · rw [dirRemoveAt_failure_unchanged t s q (by simpa using hc)] at hq; exact hq
      · rw [isDir_congr (dirRemove_frame_resolve t s q hqs)] at hq; exact hq
    rw [hr'] at hmono; cases hmono
    exact fileRead_congr_resolve _ _ _ (by rw [hr2, hr']) (fun p hp => by
      rw [hr'] at hp; cases hp; exact dirRemove_frame_resolve t s _ h)

/-- the form before `..`: both strings without `..`, naming different paths -/
theorem read_unaffected_by_other_paths (t : Tree) (s s' text : Str) (hnd : noDotDot s = true)
    (hnd' : noDotDot s' = true) (h : components s' ≠ components s) :
    fileRead (fileCreate t s).1 s' = fileRead t s' ∧
    fileRead (fileRemove t s).1 s' = fileRead t s' ∧
    fileRead (fileAppend t s text).1 s' = fileRead t s' ∧
    fileRead (fileOverwrite t s text).1 s' = fileRead t s' ∧
    fileRead (dirCreate t s).1 s' = fileRead t s' ∧
    fileRead (dirRemove t s).1 s' = fileRead t s' :=
  ⟨fileRead_congr _ _ _ hnd' (fileCreate_frame t s _ hnd h), fileRead_congr _ _ _ hnd' (fileRemove_frame t s _ hnd h),
   fileRead_congr _ _ _ hnd' (fileAppend_frame t s text _ hnd h),
   fileRead_congr _ _ _ hnd' (fileOverwrite_frame t s text _ hnd h),
   fileRead_congr _ _ _ hnd' (dirCreate_frame t s _ hnd h), fileRead_congr _ _ _ hnd' (dirRemove_frame t s _ hnd h)⟩

/-- DIRECTORY_CREATE_ALL changes the contents of no file (it only adds directories where nothing was):
a path string that resolved before reads the same. (One that did not resolve may resolve afterwards:
`DIRECTORY_CREATE_ALL("new")` makes `new/../f` a name of `f`.) -/
theorem read_unaffected_by_dirCreateAll_resolve (t : Tree) (s s' : Str) (hr : resolve t s' ≠ none) :
    fileRead (dirCreateAll t s).1 s' = fileRead t s' := by
  cases hp : resolve t s' with
  | none => exact absurd hp hr
  | some p' =>
    have hr2 : resolve (dirCreateAll t s).1 s' = some p' := by
      refine resolve_mono (t' := t) (fun q hq => ?_) s' p' hp
      exact (isDir_iff _ _).2 (dirCreateAll_keeps t s q _ ((isDir_iff _ _).1 hq))
    rw [fileRead_of_resolve hr2, fileRead_of_resolve hp]
    unfold fileReadAt
    rw [dirCreateAll_find?]
    by_cases hc : p' ∈ dirCreateAllMakes t s ∧ find? t p' = none
    · rw [if_pos hc, hc.2]
    · rw [if_neg hc]

theorem read_unaffected_by_dirCreateAll (t : Tree) (s s' : Str) (hnd' : noDotDot s' = true) :
    fileRead (dirCreateAll t s).1 s' = fileRead t s' :=
  read_unaffected_by_dirCreateAll_resolve t s s' (by rw [resolve_eq_components t s' hnd']; simp)

/-- DIRECTORY_REMOVE_ALL leaves every file outside the named directory readable as before (`s'` without
`..`: with `..` it could pass through a directory that is removed) -/
theorem read_unaffected_by_dirRemoveAll_outside_resolve (t : Tree) (s s' : Str) (p : Path)
    (hr : resolve t s = some p) (hnd' : noDotDot s' = true)
    (h : p.isPrefixOf (components s') = false) :
    fileRead (dirRemoveAll t s).1 s' = fileRead t s' :=
  fileRead_congr _ _ _ hnd' (dirRemoveAll_frame_outside_resolve t s p _ hr h)

theorem read_unaffected_by_dirRemoveAll_outside (t : Tree) (s s' : Str) (hnd : noDotDot s = true)
    (hnd' : noDotDot s' = true) (_hroot : components s ≠ [])
    (h : (components s).isPrefixOf (components s') = false) :
    fileRead (dirRemoveAll t s).1 s' = fileRead t s' :=
  read_unaffected_by_dirRemoveAll_outside_resolve t s s' _ (resolve_eq_components t s hnd) hnd' h

end Aplang.Fs

namespace Aplang.Fs

/-! ## removal -/

theorem dirRemoveAll_nonroot_of_success_resolve (t : Tree) (s : Str) (p : Path) (hr : resolve t s = some p)
    (h : (dirRemoveAll t s).2 = true) : p ≠ [] ∨ resolve (eraseBelow t p) s = none := by
  rw [dirRemoveAll_on, onResolved_some hr, dirRemoveAllAt_success_iff] at h
  rcases h.2.2 with h' | h'
  · exact Or.inr h'
  · exact Or.inl h'.1

theorem dirRemoveAll_nonroot_of_success (t : Tree) (s : Str) (hnd : noDotDot s = true)
    (h : (dirRemoveAll t s).2 = true) : components s ≠ [] := by
  rcases dirRemoveAll_nonroot_of_success_resolve t s _ (resolve_eq_components t s hnd) h with h' | h'
  · exact h'
  · rw [resolve_eq_components _ s hnd] at h'; cases h'

theorem fileRemove_success_iff (t : Tree) (s : Str) :
    (fileRemove t s).2 = true ↔ isFileS t s = true := by
  rw [fileRemove_on, onResolved_flag, isFileS_iff_resolve]
  simp only [fileRemoveAt_success_iff, isFileAt_iff]

/-- removal makes no directories -/
theorem isDir_after_remove_mono (t : Tree) (s : Str) (q : Path) :
    (isDir (fileRemove t s).1 q = true → isDir t q = true) ∧
    (isDir (dirRemove t s).1 q = true → isDir t q = true) ∧
    (isDir (dirRemoveAll t s).1 q = true → isDir t q = true) := by
  refine ⟨?_, ?_, ?_⟩
  · rw [fileRemove_on]; unfold onResolved
    cases resolve t s with
    | none => exact id
    | some p =>
      simp only []; unfold fileRemoveAt
      split
      · exact isDir_erase_mono t p q
      · exact id
  · rw [dirRemove_on]; unfold onResolved
    cases resolve t s with
    | none => exact id
    | some p =>
      simp only []; unfold dirRemoveAt
      split
      · exact isDir_erase_mono t p q
      · exact id
  · rw [dirRemoveAll_on]; unfold onResolved
    cases resolve t s with
    | none => exact id
    | some p =>
      simp only []; unfold dirRemoveAllAt
      split
      · exact id
      · split
        · exact isDir_eraseBelow_mono t p q
        · split
          · exact isDir_eraseBelow_mono t p q
          · exact isDir_eraseUnder_mono t p q

theorem existsS_false_of (t' t : Tree) (s : Str) (hmono : ∀ q, isDir t' q = true → isDir t q = true)
    (h : ∀ p, resolve t s = some p → resolve t' s = some p → find? t' p = none) : existsS t' s = false := by
  unfold existsS
  cases hr : resolve t' s with
  | none => rfl
  | some p =>
    simp only []
    exact existsAt_false_of_absent t' s p (h p (resolve_mono hmono s p hr) hr)

theorem dirRemoveAll_success_iff_resolve (t : Tree) (s : Str) :
    (dirRemoveAll t s).2 = true ↔
      ∃ p, resolve t s = some p ∧ s ≠ [] ∧ find? t p = some .dir ∧
        (resolve (eraseBelow t p) s = none ∨ (p ≠ [] ∧ lastDots s = false)) := by
  rw [dirRemoveAll_on, onResolved_flag]; simp only [dirRemoveAllAt_success_iff]

/-- after a successful FILE_REMOVE / DIRECTORY_REMOVE / DIRECTORY_REMOVE_ALL the path string names nothing;
the path it resolved to is absent (for DIRECTORY_REMOVE_ALL unless the string went, with `..`, through a
directory below the one it names: then that one stays, empty, and the string no longer resolves) -/
theorem remove_then_absent_resolve (t : Tree) (s : Str) :
    ((fileRemove t s).2 = true →
      existsS (fileRemove t s).1 s = false ∧ ∀ p, resolve t s = some p → find? (fileRemove t s).1 p = none) ∧
    ((dirRemove t s).2 = true →
      existsS (dirRemove t s).1 s = false ∧ ∀ p, resolve t s = some p → find? (dirRemove t s).1 p = none) ∧
    ((dirRemoveAll t s).2 = true →
      existsS (dirRemoveAll t s).1 s = false ∧
        ∀ p, resolve t s = some p → resolve (eraseBelow t p) s ≠ none → find? (dirRemoveAll t s).1 p = none) := by
  refine ⟨?_, ?_, ?_⟩
  · intro h
    have habs : ∀ p, resolve t s = some p → find? (fileRemove t s).1 p = none := by
      intro p hr
      rw [fileRemove_on, onResolved_some hr] at h ⊢
      exact fileRemoveAt_then_absent t s p h
    exact ⟨existsS_false_of _ t s (fun q => (isDir_after_remove_mono t s q).1) (fun p hp _ => habs p hp), habs⟩
  · intro h
    have habs : ∀ p, resolve t s = some p → find? (dirRemove t s).1 p = none := by
      intro p hr
      rw [dirRemove_on, onResolved_some hr] at h ⊢
      exact dirRemoveAt_then_absent t s p h
    exact ⟨existsS_false_of _ t s (fun q => (isDir_after_remove_mono t s q).2.1) (fun p hp _ => habs p hp), habs⟩
  · intro h
    have hmono := fun q => (isDir_after_remove_mono t s q).2.2
    obtain ⟨p, hr, h1, h2, h3⟩ := (dirRemoveAll_success_iff_resolve t s).1 h
    have htree : (dirRemoveAll t s).1 =
        if resolve (eraseBelow t p) s = none then eraseBelow t p else eraseUnder t p := by
      rw [dirRemoveAll_on, onResolved_some hr]
      unfold dirRemoveAllAt
      have hg : (s == [] || !isDir t p) = false := by simp [h1, (isDir_iff t p).2 h2]
      simp only [hg, Bool.false_eq_true, ↓reduceIte]
      cases hres : resolve (eraseBelow t p) s with
      | none => simp
      | some p' =>
        rcases h3 with h3 | h3
        · rw [hres] at h3; cases h3
        · simp [h3.1, h3.2]
    have habs : ∀ p', resolve t s = some p' → resolve (eraseBelow t p') s ≠ none →
        find? (dirRemoveAll t s).1 p' = none := by
      intro p' hr' hne
      rw [hr] at hr'; cases hr'
      have hp : p ≠ [] := by
        rcases h3 with h3 | h3
        · exact absurd h3 hne
        · exact h3.1
      rw [htree, if_neg hne, find?_eraseUnder]; simp [hp, isPrefixOf_self]
    refine ⟨?_, habs⟩
    by_cases hres : resolve (eraseBelow t p) s = none
    · unfold existsS
      rw [htree, if_pos hres, hres]
    · exact existsS_false_of _ t s hmono (fun p' hp' _ => habs p' hp' (by
        rw [hr] at hp'; cases hp'; exact hres))

/-- after a successful DIRECTORY_REMOVE_ALL on a path string ending in `..` the string no longer resolves:
the directory the last `..` was taken from has been removed -/
theorem dirRemoveAll_dotdot_unresolved (t : Tree) (s : Str) (hdd : endsDotDot s = true)
    (h : (dirRemoveAll t s).2 = true) : resolve (dirRemoveAll t s).1 s = none := by
  obtain ⟨p, hr, h1, h2, h3⟩ := (dirRemoveAll_success_iff_resolve t s).1 h
  have hres : resolve (eraseBelow t p) s = none := by
    rcases h3 with h3 | h3
    · exact h3
    · have := h3.2; simp [lastDots, hdd] at this
  rw [dirRemoveAll_on, onResolved_some hr]
  unfold dirRemoveAllAt
  have hg : (s == [] || !isDir t p) = false := by simp [h1, (isDir_iff t p).2 h2]
  simp only [hg, Bool.false_eq_true, ↓reduceIte, hres]

theorem remove_then_absent (t : Tree) (s : Str) (hnd : noDotDot s = true) :
    ((fileRemove t s).2 = true →
      find? (fileRemove t s).1 (components s) = none ∧ existsS (fileRemove t s).1 s = false) ∧
    ((dirRemove t s).2 = true →
      find? (dirRemove t s).1 (components s) = none ∧ existsS (dirRemove t s).1 s = false) ∧
    ((dirRemoveAll t s).2 = true →
      find? (dirRemoveAll t s).1 (components s) = none ∧ existsS (dirRemoveAll t s).1 s = false) := by
  obtain ⟨h1, h2, h3⟩ := remove_then_absent_resolve t s
  have hr := resolve_eq_components t s hnd
  exact ⟨fun h => ⟨(h1 h).2 _ hr, (h1 h).1⟩, fun h => ⟨(h2 h).2 _ hr, (h2 h).1⟩,
    fun h => ⟨(h3 h).2 _ hr (by rw [resolve_eq_components _ s hnd]; simp), (h3 h).1⟩⟩

theorem dirRemove_success_iff_resolve (t : Tree) (s : Str) :
    (dirRemove t s).2 = true ↔
      ∃ p, resolve t s = some p ∧ s ≠ [] ∧ lastDots s = false ∧ p ≠ [] ∧ find? t p = some .dir ∧
        children t p = [] := by
  rw [dirRemove_on, onResolved_flag]; simp only [dirRemoveAt_success_iff]

theorem dirRemove_success_iff (t : Tree) (s : Str) (hpl : plain s = true) :
    (dirRemove t s).2 = true ↔
      s ≠ [] ∧ components s ≠ [] ∧ find? t (components s) = some .dir ∧ children t (components s) = [] := by
  rw [dirRemove_success_iff_resolve, resolve_eq_components t s (noDotDot_of_plain hpl), lastDots_of_plain hpl]; simp

/-- DIRECTORY_REMOVE removes only an empty directory -/
theorem dirRemove_only_if_empty_resolve (t : Tree) (s : Str) (h : (dirRemove t s).2 = true) :
    ∃ p, resolve t s = some p ∧ children t p = [] := by
  obtain ⟨p, hr, _, _, _, _, hc⟩ := (dirRemove_success_iff_resolve t s).1 h
  exact ⟨p, hr, hc⟩

theorem dirRemove_only_if_empty (t : Tree) (s : Str) (hpl : plain s = true) (h : (dirRemove t s).2 = true) :
    children t (components s) = [] := ((dirRemove_success_iff t s hpl).1 h).2.2.2

/-- `DIRECTORY_REMOVE` and `DIRECTORY_CREATE` of a path string whose last component is `.` or `..` fail
whatever the tree (Linux: `rmdir` `EINVAL` / `ENOTEMPTY`, `mkdir` `EEXIST`, or `ENOENT` / `ENOTDIR`) -/
theorem dirRemove_lastDots_fails (t : Tree) (s : Str) (h : lastDots s = true) :
    dirRemove t s = (t, false) ∧ dirCreate t s = (t, false) := by
  rw [dirRemove_on, dirCreate_on]; unfold onResolved
  cases resolve t s with
  | none => exact ⟨rfl, rfl⟩
  | some p => simp [dirRemoveAt, dirCreateAt, h]

theorem dirRemove_dotdot_fails (t : Tree) (s : Str) (h : endsDotDot s = true) : dirRemove t s = (t, false) :=
  (dirRemove_lastDots_fails t s (by simp [lastDots, h])).1

/-- a path string that can only name a directory (trailing `/`, last component `.` or `..`): the FILE_*
procedures fail by value whatever it names, and PATH_IS_FILE is FALSE -/
theorem dirOnly_file_ops_fail (t : Tree) (s text : Str) (h : dirOnly s = true) :
    isFileS t s = false ∧ fileCreate t s = (t, false) ∧ fileRemove t s = (t, false) ∧ fileRead t s = none ∧
    fileAppend t s text = (t, false) ∧ fileOverwrite t s text = (t, false) := by
  unfold isFileS fileCreate fileRemove fileRead fileAppend fileOverwrite
  cases resolve t s with
  | none => simp
  | some p => simp [isFileAt, fileCreateAt, fileRemoveAt, fileReadAt, fileAppendAt, fileOverwriteAt, h]

/-- … and it names something only if it resolves to an existing directory: `g/.` with `g` a file names
nothing -/
theorem dirOnly_exists_iff (t : Tree) (s : Str) (h : dirOnly s = true) :
    existsS t s = isDirS t s := by
  unfold existsS isDirS
  cases resolve t s with
  | none => rfl
  | some p => simp [existsAt, isDirAt, h]

theorem dirRemoveAll_success_iff (t : Tree) (s : Str) (hpl : plain s = true) :
    (dirRemoveAll t s).2 = true ↔ s ≠ [] ∧ components s ≠ [] ∧ find? t (components s) = some .dir := by
  have hnd := noDotDot_of_plain hpl
  rw [dirRemoveAll_success_iff_resolve, resolve_eq_components t s hnd, lastDots_of_plain hpl]
  simp only [Option.some.injEq, exists_eq_left', resolve_eq_components _ s hnd, reduceCtorEq, false_or, and_true]
  constructor
  · rintro ⟨h1, h2, h3⟩; exact ⟨h1, h3, h2⟩
  · rintro ⟨h1, h2, h3⟩; exact ⟨h1, h3, h2⟩

theorem dirCreateAllVisits_of_plain (s : Str) (hpl : plain s = true) :
    dirCreateAllVisits s = prefixes (components s) := by
  unfold dirCreateAllVisits
  simp only [lastMustExist_of_plain hpl, Bool.false_eq_true, ↓reduceIte]
  exact mkdirVisits_eq_prefixes s (noDotDot_of_plain hpl)

/-- DIRECTORY_CREATE_ALL on a plain path string fails exactly when some prefix of the path is a file -/
theorem dirCreateAll_success_iff (t : Tree) (s : Str) (hpl : plain s = true) :
    (dirCreateAll t s).2 = true ↔ ∀ q ∈ prefixes (components s), isFile t q = false := by
  rw [dirCreateAll_success_iff_visits, dirCreateAllVisits_of_plain s hpl]
  simp [lastMustExist_of_plain hpl]

/-- after a successful DIRECTORY_CREATE_ALL every directory the path string visits is a directory (for
`…/x/.` the last one because it was there, the others because they were or have been made) -/
theorem dirCreateAll_makes_dirs_visits (t : Tree) (s : Str) (h : (dirCreateAll t s).2 = true) :
    ∀ q ∈ mkdirVisits [] (components s), find? (dirCreateAll t s).1 q = some .dir := by
  obtain ⟨hall, hlast⟩ := (dirCreateAll_success_iff_visits t s).1 h
  have hmade : ∀ q ∈ dirCreateAllVisits s, find? (dirCreateAll t s).1 q = some .dir := by
    intro q hq
    have hf := hall q hq
    rw [dirCreateAll_frame_visits t s q h]
    unfold isFile at hf
    cases hc : find? t q with
    | none => simp [hq]
    | some n => cases n <;> simp_all
  intro q hq
  by_cases hl : lastMustExist s = true
  · cases hg : (mkdirVisits [] (components s)).getLast? with
    | none => rw [List.getLast?_eq_none_iff.1 hg] at hq; cases hq
    | some L =>
      have hsplit := dropLast_append_of_getLast? hg
      rw [← hsplit, List.mem_append] at hq
      rcases hq with hq | hq
      · apply hmade
        unfold dirCreateAllVisits; rw [if_pos hl]; exact hq
      · have hL : lastVisit s = L := by unfold lastVisit; rw [hg]; rfl
        have : q = L := by simpa using hq
        rw [this, ← hL]
        exact (isDir_iff _ _).1 (hlast hl)
  · apply hmade
    unfold dirCreateAllVisits; rw [if_neg hl]; exact hq

theorem dirCreateAll_makes_dirs (t : Tree) (s : Str) (hpl : plain s = true) (h : (dirCreateAll t s).2 = true) :
    ∀ q ∈ prefixes (components s), find? (dirCreateAll t s).1 q = some .dir := by
  have := dirCreateAll_makes_dirs_visits t s h
  rw [mkdirVisits_eq_prefixes s (noDotDot_of_plain hpl)] at this
  exact this

/-! ## the PATH_* predicates agree with `find?` -/

theorem path_predicates_agree_with_find_resolve (t : Tree) (s : Str) :
    (existsS t s = true ↔
      ∃ p, resolve t s = some p ∧ s ≠ [] ∧
        (if dirOnly s = true then find? t p = some .dir else (find? t p).isSome = true)) ∧
    (isFileS t s = true ↔
      ∃ p, resolve t s = some p ∧ s ≠ [] ∧ dirOnly s = false ∧ ∃ c, find? t p = some (.file c)) ∧
    (isDirS t s = true ↔ ∃ p, resolve t s = some p ∧ s ≠ [] ∧ find? t p = some .dir) := by
  unfold existsS isFileS isDirS
  cases hr : resolve t s with
  | none => simp
  | some p =>
    obtain ⟨h1, h2, h3⟩ := predicatesAt_agree_with_find t s p
    simp [h1, h2, h3]

theorem path_predicates_agree_with_find (t : Tree) (s : Str) (hpl : plain s = true) :
    (existsS t s = true ↔
      s ≠ [] ∧ (if trailingSlash s = true then find? t (components s) = some .dir
                else (find? t (components s)).isSome = true)) ∧
    (isFileS t s = true ↔ s ≠ [] ∧ trailingSlash s = false ∧ ∃ c, find? t (components s) = some (.file c)) ∧
    (isDirS t s = true ↔ s ≠ [] ∧ find? t (components s) = some .dir) := by
  obtain ⟨h1, h2, h3⟩ := path_predicates_agree_with_find_resolve t s
  rw [h1, h2, h3, resolve_eq_components t s (noDotDot_of_plain hpl), dirOnly_of_plain hpl]
  simp

/-- PATH_IS_FILE says TRUE exactly for the paths FILE_READ can read -/
theorem isFileS_iff_readable (t : Tree) (s : Str) : isFileS t s = true ↔ ∃ c, fileRead t s = some c := by
  rw [isFileS_iff_resolve]
  simp only [fileRead_eq_resolve]
  constructor
  · rintro ⟨p, hr, h1, h2, c, hc⟩; exact ⟨c, p, hr, h1, h2, hc⟩
  · rintro ⟨c, p, hr, h1, h2, hc⟩; exact ⟨p, hr, h1, h2, c, hc⟩

/-- the predicates only read: they are determined by the path the string resolves to and `find?` there,
so (by the frame theorems) an operation on another path that changes no directory on the way does
not change their answer -/
theorem path_predicates_congr_resolve (t t' : Tree) (s : Str) (hr : resolve t' s = resolve t s)
    (h : ∀ p, resolve t s = some p → find? t' p = find? t p) :
    existsS t' s = existsS t s ∧ isFileS t' s = isFileS t s ∧ isDirS t' s = isDirS t s := by
  unfold existsS isFileS isDirS
  rw [hr]
  cases hp : resolve t s with
  | none => simp
  | some p => exact predicatesAt_congr t t' s p (h p hp)

theorem path_predicates_congr (t t' : Tree) (s : Str) (hnd : noDotDot s = true)
    (h : find? t' (components s) = find? t (components s)) :
    existsS t' s = existsS t s ∧ isFileS t' s = isFileS t s ∧ isDirS t' s = isDirS t s := by
  apply path_predicates_congr_resolve
  · rw [resolve_eq_components t s hnd, resolve_eq_components t' s hnd]
  · intro p hp
    rw [resolve_eq_components t s hnd] at hp; cases hp; exact h

/-- DIRECTORY_READ lists exactly the direct children of the directory the string resolves to, each as the
path string as written joined with the name (`d/../name` for `d/..`) -/
theorem dirRead_lists_children_resolve (t : Tree) (s : Str) (names : List Str) (h : dirRead t s = some names) :
    ∃ p, resolve t s = some p ∧ s ≠ [] ∧ find? t p = some .dir ∧
      names = (children t p).map fun q => (if s.getLast? == some '/' then s else s ++ ['/']) ++ q.getLast?.getD [] := by
  unfold dirRead at h
  cases hr : resolve t s with
  | none => rw [hr] at h; cases h
  | some p => rw [hr] at h; exact ⟨p, rfl, dirReadAt_lists_children t s p names h⟩

theorem dirRead_lists_children (t : Tree) (s : Str) (names : List Str) (hnd : noDotDot s = true)
    (h : dirRead t s = some names) :
    s ≠ [] ∧ find? t (components s) = some .dir ∧ names.length = (children t (components s)).length := by
  obtain ⟨p, hr, h1, h2, h3⟩ := dirRead_lists_children_resolve t s names h
  rw [resolve_eq_components t s hnd] at hr; cases hr
  exact ⟨h1, h2, by rw [h3]; simp⟩

/-! ## well-formedness: no path occurs twice -/

theorem onResolved_noDup (t : Tree) (s : Str) (k : Path → Tree × Bool) (h : NoDupPaths t)
    (hk : ∀ p, NoDupPaths (k p).1) : NoDupPaths (onResolved t s k).1 := by
  unfold onResolved
  cases resolve t s with
  | none => exact h
  | some p => exact hk p

theorem noDup_preserved (t : Tree) (s text : Str) (h : NoDupPaths t) :
    NoDupPaths (fileCreate t s).1 ∧ NoDupPaths (fileRemove t s).1 ∧ NoDupPaths (fileAppend t s text).1 ∧
    NoDupPaths (fileOverwrite t s text).1 ∧ NoDupPaths (dirCreate t s).1 ∧ NoDupPaths (dirCreateAll t s).1 ∧
    NoDupPaths (dirRemove t s).1 ∧ NoDupPaths (dirRemoveAll t s).1 := by
  refine ⟨?_, ?_, ?_, ?_, ?_, ?_, ?_, ?_⟩
  · rw [fileCreate_on]; refine onResolved_noDup t s _ h fun p => ?_
    unfold fileCreateAt; split
    · exact h
    · exact noDup_put _ _ _ h
  · rw [fileRemove_on]; refine onResolved_noDup t s _ h fun p => ?_
    unfold fileRemoveAt; split
    · exact noDup_erase _ _ h
    · exact h
  · rw [fileAppend_on]; refine onResolved_noDup t s _ h fun p => ?_
    unfold fileAppendAt; split
    · exact h
    · split
      · exact noDup_put _ _ _ h
      · exact h
  · rw [fileOverwrite_on]; refine onResolved_noDup t s _ h fun p => ?_
    unfold fileOverwriteAt; split
    · exact h
    · split
      · exact noDup_put _ _ _ h
      · exact h
  · rw [dirCreate_on]; refine onResolved_noDup t s _ h fun p => ?_
    unfold dirCreateAt; split
    · exact h
    · exact noDup_put _ _ _ h
  · rw [dirCreateAll_fst]; exact noDup_foldl_mkdir _ _ h
  · rw [dirRemove_on]; refine onResolved_noDup t s _ h fun p => ?_
    unfold dirRemoveAt; split
    · exact noDup_erase _ _ h
    · exact h
  · rw [dirRemoveAll_on]; refine onResolved_noDup t s _ h fun p => ?_
    unfold dirRemoveAllAt; split
    · exact h
    · split
      · exact noDup_eraseBelow _ _ h
      · split
        · exact noDup_eraseBelow _ _ h
        · exact noDup_eraseUnder _ _ h

end Aplang.Fs

namespace Aplang.Fs

/-! ## `..` -/

/-- the path string `d/..` -/
def up (d : Str) : Str := d ++ '/' :: dotdot

theorem components_up (d : Str) : components (up d) = components d ++ [dotdot] := by
  unfold up
  rw [components_append_slash]
  rfl

/-- `d/..` with `d` an existing directory names the parent of `d` (the root is its own parent) -/
theorem resolve_dotdot_parent (t : Tree) (d : Str) (p : Path) (hr : resolve t d = some p)
    (hd : isDir t p = true) : resolve t (up d) = some (parent p) := by
  unfold resolve at *
  rw [components_up, resolveFrom_append, hr]
  simp [resolveFrom, hd]

/-- `d/../x` with `d` an existing directory: `x` read from the parent of `d` -/
theorem resolve_upFrom (t : Tree) (d x : Str) (p : Path) (hr : resolve t d = some p) (hd : isDir t p = true) :
    resolve t (upFrom d x) = resolveFrom t (parent p) (components x) := by
  unfold resolve at *
  rw [components_upFrom, resolveFrom_append, hr]
  simp [resolveFrom, hd]

/-- `..` needs a directory to be taken from: when `d` does not resolve, or resolves to a missing name or to
a file, neither `d/..` nor any `d/../x` resolves (Linux: `ENOENT` / `ENOTDIR`) -/
theorem resolve_dotdot_needs_directory (t : Tree) (d : Str)
    (hd : ∀ p, resolve t d = some p → isDir t p = false) (x : Str) :
    resolve t (up d) = none ∧ resolve t (upFrom d x) = none := by
  unfold resolve at *
  rw [components_up, components_upFrom, resolveFrom_append, resolveFrom_append]
  cases hr : resolveFrom t [] (components d) with
  | none => exact ⟨rfl, rfl⟩
  | some p => simp [resolveFrom, hd p hr]

/-- through a missing name -/
theorem resolve_dotdot_through_missing (t : Tree) (d : Str) (p : Path) (hr : resolve t d = some p)
    (hm : find? t p = none) (x : Str) : resolve t (up d) = none ∧ resolve t (upFrom d x) = none :=
  resolve_dotdot_needs_directory t d (fun p' hp' => by
    rw [hr] at hp'; cases hp'; exact not_isDir_of_absent hm) x

/-- through a file -/
theorem resolve_dotdot_through_file (t : Tree) (d : Str) (p : Path) (c : Str) (hr : resolve t d = some p)
    (hf : find? t p = some (.file c)) (x : Str) : resolve t (up d) = none ∧ resolve t (upFrom d x) = none :=
  resolve_dotdot_needs_directory t d (fun p' hp' => by
    rw [hr] at hp'; cases hp'; exact not_isDir_of_file hf) x

/-- … and then every operation on `d/../x` reports failure by value — FALSE / NULL — and leaves the tree
as it was (`DIRECTORY_CREATE_ALL` is the one that does not go through `resolve`: it makes what it misses) -/
theorem dotdot_through_nondirectory_fails (t : Tree) (d : Str)
    (hd : ∀ p, resolve t d = some p → isDir t p = false) (x text : Str) :
    existsS t (upFrom d x) = false ∧ isFileS t (upFrom d x) = false ∧ isDirS t (upFrom d x) = false ∧
    fileCreate t (upFrom d x) = (t, false) ∧ fileRemove t (upFrom d x) = (t, false) ∧
    fileRead t (upFrom d x) = none ∧
    fileAppend t (upFrom d x) text = (t, false) ∧ fileOverwrite t (upFrom d x) text = (t, false) ∧
    dirCreate t (upFrom d x) = (t, false) ∧ dirRemove t (upFrom d x) = (t, false) ∧
    dirRemoveAll t (upFrom d x) = (t, false) ∧ dirRead t (upFrom d x) = none :=
  unresolved_fails t _ (resolve_dotdot_needs_directory t d hd x).2 text

/-! ### two path strings that name the same thing -/

/-- what an operation looks at in a path string: what it resolves to, whether it is empty, whether it can
only name a directory, whether it ends in `..` (DIRECTORY_REMOVE_ALL, which resolves the string a second
time in a smaller tree, aside: `dirRemoveAll_congr`) -/
structure SameName (t : Tree) (s s' : Str) : Prop where
  res : resolve t s = resolve t s'
  empty : s = [] ↔ s' = []
  ends : endsDotDot s = endsDotDot s'
  dot : endsDot s = endsDot s'
  slash : trailingSlash s = trailingSlash s'

theorem SameName.lastDots {t : Tree} {s s' : Str} (h : SameName t s s') : lastDots s = lastDots s' := by
  unfold Fs.lastDots; rw [h.dot, h.ends]

theorem SameName.dirOnly {t : Tree} {s s' : Str} (h : SameName t s s') : dirOnly s = dirOnly s' := by
  unfold Fs.dirOnly; rw [h.slash, h.lastDots]

/-- operations on two path strings that name the same thing are the same operation -/
theorem ops_congr (t : Tree) (s s' : Str) (h : SameName t s s') (text : Str) :
    existsS t s = existsS t s' ∧ isFileS t s = isFileS t s' ∧ isDirS t s = isDirS t s' ∧
    fileCreate t s = fileCreate t s' ∧ fileRemove t s = fileRemove t s' ∧ fileRead t s = fileRead t s' ∧
    fileAppend t s text = fileAppend t s' text ∧ fileOverwrite t s text = fileOverwrite t s' text ∧
    dirCreate t s = dirCreate t s' ∧ dirRemove t s = dirRemove t s' ∧
    (dirRead t s).map List.length = (dirRead t s').map List.length := by
  have he : (s == []) = (s' == []) := by
    have := h.empty
    cases s <;> cases s' <;> simp_all
  have hne : (s != []) = (s' != []) := by unfold bne; rw [he]
  have hd := h.dirOnly
  unfold existsS isFileS isDirS fileCreate fileRemove fileRead fileAppend fileOverwrite dirCreate dirRemove
    dirRead
  rw [h.res]
  cases resolve t s' with
  | none => simp
  | some p =>
    simp only []
    unfold existsAt isFileAt isDirAt fileCreateAt fileRemoveAt fileReadAt fileAppendAt fileOverwriteAt dirCreateAt
      dirRemoveAt dirReadAt
    rw [he, hne, hd, h.lastDots]
    refine ⟨rfl, rfl, rfl, rfl, rfl, rfl, rfl, rfl, rfl, rfl, ?_⟩
    simp only []
    split <;> simp

/-- DIRECTORY_REMOVE_ALL resolves the string again once everything below the directory is removed: two
strings that name the same thing, and still both do or both do not after that, are removed alike -/
theorem dirRemoveAll_congr (t : Tree) (s s' : Str) (h : SameName t s s')
    (hafter : ∀ p, resolve t s' = some p →
      (resolve (eraseBelow t p) s).isNone = (resolve (eraseBelow t p) s').isNone) :
    dirRemoveAll t s = dirRemoveAll t s' := by
  have he : (s == []) = (s' == []) := by
    have := h.empty
    cases s <;> cases s' <;> simp_all
  unfold dirRemoveAll
  rw [h.res]
  cases hr : resolve t s' with
  | none => rfl
  | some p =>
    simp only []
    unfold dirRemoveAllAt
    rw [he, h.lastDots]
    split
    · rfl
    · have := hafter p hr
      cases h1 : resolve (eraseBelow t p) s <;> cases h2 : resolve (eraseBelow t p) s' <;> simp_all

theorem ne_nil_of_components_ne_nil {x : Str} (h : components x ≠ []) : x ≠ [] := by
  intro e; subst e; exact h rfl

theorem upFrom_getLast? (d x : Str) (hx : x ≠ []) : (upFrom d x).getLast? = x.getLast? := by
  unfold upFrom
  have : d ++ '/' :: (dotdot ++ '/' :: x) = (d ++ '/' :: (dotdot ++ ['/'])) ++ x := by simp
  rw [this, List.getLast?_append]
  cases hl : x.getLast? with
  | none => exact absurd (List.getLast?_eq_none_iff.1 hl) hx
  | some c => rfl

theorem getLast?_append_cons_of_ne_nil {α} (a : List α) (b : α) (c : List α) (hc : c ≠ []) :
    (a ++ b :: c).getLast? = c.getLast? := by
  have : a ++ b :: c = (a ++ [b]) ++ c := by simp
  rw [this, List.getLast?_append]
  cases hl : c.getLast? with
  | none => exact absurd (List.getLast?_eq_none_iff.1 hl) hc
  | some x => rfl

/-- `d/../x` and `x` name the same thing when `d` is an existing directory directly below the root
(and `x` has a component at all) -/
theorem sameName_upFrom (t : Tree) (d x : Str) (p : Path) (hr : resolve t d = some p) (hd : isDir t p = true)
    (hpar : parent p = []) (hx : components x ≠ []) : SameName t (upFrom d x) x := by
  have hxne := ne_nil_of_components_ne_nil hx
  have hres : ∀ cs, resolveFrom t [] (components d ++ dotdot :: cs) = resolveFrom t [] cs := by
    intro cs
    unfold resolve at hr
    rw [resolveFrom_append, hr]
    simp [resolveFrom, hd, hpar]
  have hends : endsDotDot (upFrom d x) = endsDotDot x := by
    unfold endsDotDot
    rw [components_upFrom, getLast?_append_cons_of_ne_nil _ _ _ hx]
  refine ⟨?_, ?_, hends, endsDot_upFrom d x hx, ?_⟩
  · unfold resolve; rw [components_upFrom]; exact hres _
  · constructor
    · intro e; unfold upFrom at e; simp at e
    · intro e; exact absurd e hxne
  · unfold trailingSlash; rw [upFrom_getLast? d x hxne]

/-- **round trip through an existing directory**: for a directory `d` directly below the root, every
operation on `d/../x` is the operation on `x` (DIRECTORY_READ lists the same entries, each printed with
the path string as written: `d/../x/name`). DIRECTORY_CREATE_ALL and DIRECTORY_REMOVE_ALL, which look at
the string more than once: `dotdot_roundtrip_createAll`, `dotdot_roundtrip_removeAll`. -/
theorem dotdot_roundtrip (t : Tree) (d x : Str) (p : Path) (hr : resolve t d = some p) (hd : isDir t p = true)
    (hpar : parent p = []) (hx : components x ≠ []) (text : Str) :
    existsS t (upFrom d x) = existsS t x ∧ isFileS t (upFrom d x) = isFileS t x ∧
    isDirS t (upFrom d x) = isDirS t x ∧
    fileCreate t (upFrom d x) = fileCreate t x ∧ fileRemove t (upFrom d x) = fileRemove t x ∧
    fileRead t (upFrom d x) = fileRead t x ∧
    fileAppend t (upFrom d x) text = fileAppend t x text ∧
    fileOverwrite t (upFrom d x) text = fileOverwrite t x text ∧
    dirCreate t (upFrom d x) = dirCreate t x ∧ dirRemove t (upFrom d x) = dirRemove t x ∧
    dirRead t (upFrom d x) = (dirRead t x).map (List.map (upFrom d)) := by
  have hs := sameName_upFrom t d x p hr hd hpar hx
  obtain ⟨h1, h2, h3, h4, h5, h6, h7, h8, h9, h10, _⟩ := ops_congr t _ _ hs text
  refine ⟨h1, h2, h3, h4, h5, h6, h7, h8, h9, h10, ?_⟩
  have hxne := ne_nil_of_components_ne_nil hx
  unfold dirRead
  rw [hs.res]
  cases resolve t x with
  | none => rfl
  | some q =>
    simp only []
    unfold dirReadAt
    have he : (upFrom d x == []) = false := by
      have := hs.empty
      simp [hxne] at this ⊢
      exact this
    have hxe : (x == []) = false := by simp [hxne]
    rw [he, hxe, upFrom_getLast? d x hxne]
    simp only [Bool.false_or]
    split
    · rfl
    · simp only [Option.map_some, Option.some.injEq, List.map_map]
      apply List.map_congr_left
      intro c _
      simp only [Function.comp]
      split <;> simp [upFrom]

theorem mkdirRun_cons_dir (t : Tree) (c : Str) (vs : List Path) (hd : isDir t [c] = true) :
    mkdirRun t ([c] :: vs) = mkdirRun t vs := by
  have hnf : isFile t [c] = false := by
    have := (isDir_iff t [c]).1 hd
    unfold isFile; rw [this]
  have hstep : mkdirStep t [c] = t := by
    unfold mkdirStep pathExists
    rw [(isDir_iff t [c]).1 hd]; rfl
  unfold mkdirRun
  simp only [List.find?_cons, hnf]
  cases List.find? (fun q => isFile t q) vs with
  | none => simp only [List.foldl_cons, hstep]
  | some f =>
    simp only [List.takeWhile_cons, hnf, Bool.not_false, ↓reduceIte, List.filter_cons]
    split
    · simp only [List.foldl_cons, hstep]
    · rfl

/-- `DIRECTORY_CREATE_ALL` round trip: `d` a single name that is an existing directory -/
theorem dotdot_roundtrip_createAll (t : Tree) (d x : Str) (c : Str) (hc : components d = [c]) (hcd : c ≠ dotdot)
    (hd : isDir t [c] = true) : dirCreateAll t (upFrom d x) = dirCreateAll t x := by
  have hvis : mkdirVisits [] (components (upFrom d x)) = [c] :: mkdirVisits [] (components x) := by
    rw [components_upFrom, hc]
    have h1 : (c == dotdot) = false := by simpa using hcd
    simp [mkdirVisits, h1, parent]
  have hrun := mkdirRun_cons_dir t c
  by_cases hx : components x = []
  · have h1 : lastMustExist (upFrom d x) = false := by
      have : endsDotDot (upFrom d x) = true := by
        unfold endsDotDot; rw [components_upFrom, hx, hc]; rfl
      simp [lastMustExist, this]
    have h2 : lastMustExist x = false := by simp [lastMustExist, hx]
    unfold dirCreateAll dirCreateAllVisits
    simp only [h1, h2, Bool.false_eq_true, ↓reduceIte, hvis, hrun _ hd]
  · have hl : lastMustExist (upFrom d x) = lastMustExist x := by
      have hends : endsDotDot (upFrom d x) = endsDotDot x := by
        unfold endsDotDot
        rw [components_upFrom, getLast?_append_cons_of_ne_nil _ _ _ hx]
      have hne : (components (upFrom d x) != []) = (components x != []) := by
        rw [components_upFrom, hc]
        have : (components x != []) = true := by simpa using hx
        rw [this]; rfl
      unfold lastMustExist
      rw [endsDot_upFrom d x hx, hends, hne]
    unfold dirCreateAll dirCreateAllVisits
    rw [hl, hvis]
    cases lastMustExist x with
    | false => simp only [Bool.false_eq_true, ↓reduceIte, hrun _ hd]
    | true =>
      simp only [↓reduceIte]
      cases hv : mkdirVisits [] (components x) with
      | nil => simp [mkdirRun, hd, isDir_nil]
      | cons v vs =>
        have h1 : ([c] :: v :: vs).dropLast = [c] :: (v :: vs).dropLast := rfl
        have h2 : ([c] :: v :: vs).getLast? = (v :: vs).getLast? := by simp [List.getLast?_cons_cons]
        rw [h1, h2, hrun _ hd]

theorem resolve_single (t : Tree) (d : Str) (c : Str) (hc : components d = [c]) (hcd : c ≠ dotdot) :
    resolve t d = some [c] := by
  have h1 : (c == dotdot) = false := by simpa using hcd
  unfold resolve; rw [hc]; simp [resolveFrom, h1]

/-- `DIRECTORY_REMOVE_ALL` round trip: `d` a single name that is an existing directory, `x` a string that
does not name the root (`DIRECTORY_REMOVE_ALL("d/../k/..")`, which names the root, succeeds — `d` has gone
when the string is resolved again — where `DIRECTORY_REMOVE_ALL("k/..")` does too, but `".."` alone does not) -/
theorem dotdot_roundtrip_removeAll (t : Tree) (d x : Str) (c : Str) (hc : components d = [c]) (hcd : c ≠ dotdot)
    (hd : isDir t [c] = true) (hx : components x ≠ []) (hroot : resolve t x ≠ some []) :
    dirRemoveAll t (upFrom d x) = dirRemoveAll t x := by
  have hs := sameName_upFrom t d x [c] (resolve_single t d c hc hcd) hd rfl hx
  apply dirRemoveAll_congr t _ _ hs
  intro p hp
  have hpne : p ≠ [] := fun e => hroot (by rw [hp, e])
  have hkeep : isDir (eraseBelow t p) [c] = true := by
    rw [isDir_iff, find?_eraseBelow]
    have : ¬ (p.isPrefixOf [c] = true ∧ [c] ≠ p) := by
      rintro ⟨h1, h2⟩
      cases p with
      | nil => exact hpne rfl
      | cons a as =>
        cases as with
        | nil => simp [List.isPrefixOf] at h1; exact h2 (by rw [h1])
        | cons b bs => simp [List.isPrefixOf] at h1
    simp only [this, ↓reduceIte]
    simpa using (isDir_iff t [c]).1 hd
  rw [resolve_upFrom (eraseBelow t p) d x [c] (resolve_single _ d c hc hcd) hkeep]
  rfl

end Aplang.Fs


namespace Aplang

/-! ## the FS natives: results and state changes -/

/-- the 13 procedures of the FS module -/
def fsNatives : List Native :=
  [.pathExists, .pathIsFile, .pathIsDirectory, .fileRemove, .fileCreate, .fileRead, .fileAppend,
   .fileOverwrite, .directoryRead, .directoryCreate, .directoryCreateAll, .directoryRemove, .directoryRemoveAll]

theorem fsNatives_are_the_FS_module : fsNatives = Native.all.filter (fun n => n.module == "FS") := by decide

/-- the state with another file tree -/
def St.withFs (σ : St) (t : Fs.Tree) : St := { σ with world := { σ.world with fs := t } }

theorem fsFlag_eq (op : Fs.Tree → Str → Fs.Tree × Bool) (p : Str) (σ : St) :
    fsFlag op p σ = .ok (.bool (op σ.world.fs p).2, σ.withFs (op σ.world.fs p).1) := by
  unfold fsFlag St.withFs
  cases op σ.world.fs p
  rfl

section
variable (env : CharEnv) (p : Str) (s1 s2 : Span) (σ : St)

theorem native_pathExists :
    callNative env .pathExists [.str p] [s1] σ = .ok (.bool (Fs.existsS σ.world.fs p), σ) := rfl
theorem native_pathIsFile :
    callNative env .pathIsFile [.str p] [s1] σ = .ok (.bool (Fs.isFileS σ.world.fs p), σ) := rfl
theorem native_pathIsDirectory :
    callNative env .pathIsDirectory [.str p] [s1] σ = .ok (.bool (Fs.isDirS σ.world.fs p), σ) := rfl
theorem native_fileRemove :
    callNative env .fileRemove [.str p] [s1] σ =
      .ok (.bool (Fs.fileRemove σ.world.fs p).2, σ.withFs (Fs.fileRemove σ.world.fs p).1) := by
  have h : callNative env .fileRemove [.str p] [s1] σ = fsFlag Fs.fileRemove p σ := rfl
  rw [h, fsFlag_eq]
theorem native_fileCreate :
    callNative env .fileCreate [.str p] [s1] σ =
      .ok (.bool (Fs.fileCreate σ.world.fs p).2, σ.withFs (Fs.fileCreate σ.world.fs p).1) := by
  have h : callNative env .fileCreate [.str p] [s1] σ = fsFlag Fs.fileCreate p σ := rfl
  rw [h, fsFlag_eq]
theorem native_fileRead :
    callNative env .fileRead [.str p] [s1] σ =
      .ok ((match Fs.fileRead σ.world.fs p with | some c => .str c | none => .null), σ) := rfl
theorem native_fileAppend (v : Value) (text : Str) (hd : display σ v = .ok text) :
    callNative env .fileAppend [.str p, v] [s1, s2] σ =
      .ok (.bool (Fs.fileAppend σ.world.fs p text).2, σ.withFs (Fs.fileAppend σ.world.fs p text).1) := by
  have h : callNative env .fileAppend [.str p, v] [s1, s2] σ =
      (display σ v).bind fun text => fsFlag (fun t s => Fs.fileAppend t s text) p σ := rfl
  rw [h, hd, Res.bind_ok, fsFlag_eq]
theorem native_fileOverwrite (v : Value) (text : Str) (hd : display σ v = .ok text) :
    callNative env .fileOverwrite [.str p, v] [s1, s2] σ =
      .ok (.bool (Fs.fileOverwrite σ.world.fs p text).2, σ.withFs (Fs.fileOverwrite σ.world.fs p text).1) := by
  have h : callNative env .fileOverwrite [.str p, v] [s1, s2] σ =
      (display σ v).bind fun text => fsFlag (fun t s => Fs.fileOverwrite t s text) p σ := rfl
  rw [h, hd, Res.bind_ok, fsFlag_eq]
theorem native_directoryRead :
    callNative env .directoryRead [.str p] [s1] σ =
      (match Fs.dirRead σ.world.fs p with
       | some names => .ok (.list σ.heap.length, { σ with heap := σ.heap ++ [.list (names.map Value.str)] })
       | none => .ok (.null, σ)) := by
  have h : callNative env .directoryRead [.str p] [s1] σ =
      (match Fs.dirRead σ.world.fs p with
       | some names => .ok (mkList σ (names.map Value.str))
       | none => .ok (.null, σ)) := rfl
  rw [h]
  cases Fs.dirRead σ.world.fs p <;> rfl
theorem native_directoryCreate :
    callNative env .directoryCreate [.str p] [s1] σ =
      .ok (.bool (Fs.dirCreate σ.world.fs p).2, σ.withFs (Fs.dirCreate σ.world.fs p).1) := by
  have h : callNative env .directoryCreate [.str p] [s1] σ = fsFlag Fs.dirCreate p σ := rfl
  rw [h, fsFlag_eq]
theorem native_directoryCreateAll :
    callNative env .directoryCreateAll [.str p] [s1] σ =
      .ok (.bool (Fs.dirCreateAll σ.world.fs p).2, σ.withFs (Fs.dirCreateAll σ.world.fs p).1) := by
  have h : callNative env .directoryCreateAll [.str p] [s1] σ = fsFlag Fs.dirCreateAll p σ := rfl
  rw [h, fsFlag_eq]
theorem native_directoryRemove :
    callNative env .directoryRemove [.str p] [s1] σ =
      .ok (.bool (Fs.dirRemove σ.world.fs p).2, σ.withFs (Fs.dirRemove σ.world.fs p).1) := by
  have h : callNative env .directoryRemove [.str p] [s1] σ = fsFlag Fs.dirRemove p σ := rfl
  rw [h, fsFlag_eq]
theorem native_directoryRemoveAll :
    callNative env .directoryRemoveAll [.str p] [s1] σ =
      .ok (.bool (Fs.dirRemoveAll σ.world.fs p).2, σ.withFs (Fs.dirRemoveAll σ.world.fs p).1) := by
  have h : callNative env .directoryRemoveAll [.str p] [s1] σ = fsFlag Fs.dirRemoveAll p σ := rfl
  rw [h, fsFlag_eq]

end

/-- what an FS native may return: a flag, NULL, the contents of a file, or a list of names -/
def FsResultValue : Value → Prop
  | .bool _ | .null | .str _ | .list _ => True
  | _ => False

/-- `σ'` is `σ` except for the file tree and, for DIRECTORY_READ only, one freshly allocated heap cell -/
def FsOnlyChange (n : Native) (σ σ' : St) : Prop :=
  ∃ fs' heap', σ' = { σ with world := { σ.world with fs := fs' }, heap := heap' } ∧
    (heap' = σ.heap ∨ (n = .directoryRead ∧ ∃ c, heap' = σ.heap ++ [c]))

theorem FsOnlyChange.refl (n : Native) (σ : St) : FsOnlyChange n σ σ := ⟨σ.world.fs, σ.heap, rfl, Or.inl rfl⟩
theorem FsOnlyChange.withFs (n : Native) (σ : St) (t : Fs.Tree) : FsOnlyChange n σ (σ.withFs t) :=
  ⟨t, σ.heap, rfl, Or.inl rfl⟩

theorem list_len1 {α} {a : α} {rest : List α} (h : (a :: rest).length = 1) : rest = [] := by
  cases rest <;> simp at h ⊢
theorem list_len2 {α} {a : α} {rest : List α} (h : (a :: rest).length = 2) : ∃ b, rest = [b] := by
  match rest, h with
  | [b], _ => exact ⟨b, rfl⟩

theorem list_len2' {α} {l : List α} (h : l.length = 2) : ∃ a b, l = [a, b] := by
  match l, h with
  | [a, b], _ => exact ⟨a, b, rfl⟩

/-- an operation that cannot be performed is reported through the return value: with a string as the
path argument (and a displayable second argument for FILE_APPEND / FILE_OVERWRITE) every FS native
returns normally — a flag, NULL, a string or a list — and changes nothing but the file tree (and one
fresh heap cell for the list DIRECTORY_READ returns) -/
theorem failure_by_value (env : CharEnv) (n : Native) (hn : n ∈ fsNatives) (p : Str) (rest : List Value)
    (spans : List Span) (σ : St)
    (hlen : (Value.str p :: rest).length = n.arity) (hsp : spans.length = n.arity)
    (hdisp : (n = .fileAppend ∨ n = .fileOverwrite) → ∀ v, rest = [v] → ∃ text, display σ v = .ok text) :
    ∃ v' σ', callNative env n (.str p :: rest) spans σ = .ok (v', σ') ∧ FsResultValue v' ∧
      FsOnlyChange n σ σ' := by
  simp only [fsNatives, List.mem_cons, List.not_mem_nil, or_false] at hn
  rcases hn with rfl | rfl | rfl | rfl | rfl | rfl | rfl | rfl | rfl | rfl | rfl | rfl | rfl
  case' inr.inr.inr.inr.inr.inr.inl | inr.inr.inr.inr.inr.inr.inr.inl =>
    obtain ⟨v, rfl⟩ := list_len2 hlen
    obtain ⟨s1, s2, rfl⟩ := list_len2' hsp
    obtain ⟨text, hd⟩ := hdisp (by simp) v rfl
  case inr.inr.inr.inr.inr.inr.inl =>
    exact ⟨_, _, native_fileAppend env p s1 s2 σ v text hd, trivial, FsOnlyChange.withFs _ _ _⟩
  case inr.inr.inr.inr.inr.inr.inr.inl =>
    exact ⟨_, _, native_fileOverwrite env p s1 s2 σ v text hd, trivial, FsOnlyChange.withFs _ _ _⟩
  all_goals
    have hr := list_len1 hlen
    subst hr
    obtain ⟨s1, rfl⟩ := List.length_eq_one_iff.1 hsp
  · exact ⟨_, _, native_pathExists env p s1 σ, trivial, FsOnlyChange.refl _ _⟩
  · exact ⟨_, _, native_pathIsFile env p s1 σ, trivial, FsOnlyChange.refl _ _⟩
  · exact ⟨_, _, native_pathIsDirectory env p s1 σ, trivial, FsOnlyChange.refl _ _⟩
  · exact ⟨_, _, native_fileRemove env p s1 σ, trivial, FsOnlyChange.withFs _ _ _⟩
  · exact ⟨_, _, native_fileCreate env p s1 σ, trivial, FsOnlyChange.withFs _ _ _⟩
  · refine ⟨_, _, native_fileRead env p s1 σ, ?_, FsOnlyChange.refl _ _⟩
    cases Fs.fileRead σ.world.fs p <;> trivial
  · rw [native_directoryRead]
    cases Fs.dirRead σ.world.fs p with
    | none => exact ⟨_, _, rfl, trivial, FsOnlyChange.refl _ _⟩
    | some names => exact ⟨_, _, rfl, trivial, σ.world.fs, _, rfl, Or.inr ⟨rfl, _, rfl⟩⟩
  · exact ⟨_, _, native_directoryCreate env p s1 σ, trivial, FsOnlyChange.withFs _ _ _⟩
  · exact ⟨_, _, native_directoryCreateAll env p s1 σ, trivial, FsOnlyChange.withFs _ _ _⟩
  · exact ⟨_, _, native_directoryRemove env p s1 σ, trivial, FsOnlyChange.withFs _ _ _⟩
  · exact ⟨_, _, native_directoryRemoveAll env p s1 σ, trivial, FsOnlyChange.withFs _ _ _⟩

/-- a path string that does not resolve (`..` taken from a missing name or from a file): every FS procedure
that goes through `resolve` — all but DIRECTORY_CREATE_ALL — returns FALSE (NULL for FILE_READ and
DIRECTORY_READ), and the state is the one before the call -/
theorem unresolved_path_fails_by_value (env : CharEnv) (p : Str) (s1 s2 : Span) (σ : St) (v : Value) (text : Str)
    (hd : display σ v = .ok text) (hr : Fs.resolve σ.world.fs p = none) :
    callNative env .pathExists [.str p] [s1] σ = .ok (.bool false, σ) ∧
    callNative env .pathIsFile [.str p] [s1] σ = .ok (.bool false, σ) ∧
    callNative env .pathIsDirectory [.str p] [s1] σ = .ok (.bool false, σ) ∧
    callNative env .fileRemove [.str p] [s1] σ = .ok (.bool false, σ) ∧
    callNative env .fileCreate [.str p] [s1] σ = .ok (.bool false, σ) ∧
    callNative env .fileRead [.str p] [s1] σ = .ok (.null, σ) ∧
    callNative env .fileAppend [.str p, v] [s1, s2] σ = .ok (.bool false, σ) ∧
    callNative env .fileOverwrite [.str p, v] [s1, s2] σ = .ok (.bool false, σ) ∧
    callNative env .directoryRead [.str p] [s1] σ = .ok (.null, σ) ∧
    callNative env .directoryCreate [.str p] [s1] σ = .ok (.bool false, σ) ∧
    callNative env .directoryRemove [.str p] [s1] σ = .ok (.bool false, σ) ∧
    callNative env .directoryRemoveAll [.str p] [s1] σ = .ok (.bool false, σ) := by
  obtain ⟨h1, h2, h3, h4, h5, h6, h7, h8, h9, h10, h11, h12⟩ := Fs.unresolved_fails σ.world.fs p hr text
  have hσ : σ.withFs σ.world.fs = σ := rfl
  refine ⟨?_, ?_, ?_, ?_, ?_, ?_, ?_, ?_, ?_, ?_, ?_, ?_⟩
  · rw [native_pathExists, h1]
  · rw [native_pathIsFile, h2]
  · rw [native_pathIsDirectory, h3]
  · rw [native_fileRemove, h5, hσ]
  · rw [native_fileCreate, h4, hσ]
  · rw [native_fileRead, h6]
  · rw [native_fileAppend env p s1 s2 σ v text hd, h7, hσ]
  · rw [native_fileOverwrite env p s1 s2 σ v text hd, h8, hσ]
  · rw [native_directoryRead, h12]
  · rw [native_directoryCreate, h9, hσ]
  · rw [native_directoryRemove, h10, hσ]
  · rw [native_directoryRemoveAll, h11, hσ]

/-- a path argument that is not a string is a runtime error at that argument (never a panic), and the
state is the one before the call -/
theorem nonstring_path_is_runtime_error (env : CharEnv) (n : Native) (hn : n ∈ fsNatives) (a : Value)
    (rest : List Value) (spans : List Span) (σ : St) (ha : ∀ p, a ≠ .str p)
    (hlen : (a :: rest).length = n.arity) (hsp : spans.length = n.arity) :
    ∃ s1 tl, spans = s1 :: tl ∧
      callNative env n (a :: rest) spans σ = .err ⟨"Invalid Argument Cast: STRING", s1⟩ σ := by
  simp only [fsNatives, List.mem_cons, List.not_mem_nil, or_false] at hn
  rcases hn with rfl | rfl | rfl | rfl | rfl | rfl | rfl | rfl | rfl | rfl | rfl | rfl | rfl
  case' inr.inr.inr.inr.inr.inr.inl | inr.inr.inr.inr.inr.inr.inr.inl =>
    obtain ⟨v, rfl⟩ := list_len2 hlen
    obtain ⟨s1, s2, rfl⟩ := list_len2' hsp
    refine ⟨s1, [s2], rfl, ?_⟩
    cases a <;> first | exact absurd rfl (ha _) | rfl
  all_goals
    have hr := list_len1 hlen
    subst hr
    obtain ⟨s1, rfl⟩ := List.length_eq_one_iff.1 hsp
    refine ⟨s1, [], rfl, ?_⟩
    cases a <;> first | exact absurd rfl (ha _) | rfl

/-! ## sequences of FS calls -/

/-- one call of an FS procedure: the procedure, the path string, the remaining arguments, the spans -/
structure FsCall where
  n : Native
  path : Str
  rest : List Value
  spans : List Span

/-- right number of arguments, and the value to write is not a list (so it can always be displayed) -/
def FsCall.WellFormed (c : FsCall) : Prop :=
  c.n ∈ fsNatives ∧ (Value.str c.path :: c.rest).length = c.n.arity ∧ c.spans.length = c.n.arity ∧
    ∀ v ∈ c.rest, ∀ a, v ≠ .list a

def runCalls (env : CharEnv) : List FsCall → St → Res (List Value × St)
  | [], σ => .ok ([], σ)
  | c :: cs, σ =>
    (callNative env c.n (.str c.path :: c.rest) c.spans σ).bind fun (v, σ) =>
    (runCalls env cs σ).bind fun (vs, σ) => .ok (v :: vs, σ)

theorem display_nonlist (σ : St) (v : Value) (h : ∀ a, v ≠ .list a) : ∃ text, display σ v = .ok text := by
  unfold display
  cases v with
  | list a => exact absurd rfl (h a)
  | bool b => cases b <;> simp [displayV]
  | _ => simp [displayV]

/-- every sequence of FS calls runs to its end: each call returns a value, none terminates the program,
and of the state only the file tree and the heap (by fresh cells for the lists returned) change -/
theorem fs_sequence_never_terminates (env : CharEnv) (cs : List FsCall) (σ : St)
    (h : ∀ c ∈ cs, c.WellFormed) :
    ∃ vs σ', runCalls env cs σ = .ok (vs, σ') ∧ vs.length = cs.length ∧ (∀ v ∈ vs, FsResultValue v) ∧
      ∃ fs' heap', σ' = { σ with world := { σ.world with fs := fs' }, heap := σ.heap ++ heap' } := by
  induction cs generalizing σ with
  | nil => exact ⟨[], σ, rfl, rfl, by simp, σ.world.fs, [], by simp⟩
  | cons c cs ih =>
    obtain ⟨hn, hlen, hsp, hv⟩ := h c (by simp)
    obtain ⟨v', σ1, h1, hv', fs1, heap1, hσ1, hheap⟩ :=
      failure_by_value env c.n hn c.path c.rest c.spans σ hlen hsp
        (fun _ v hr => display_nonlist σ v (hv v (by simp [hr])))
    obtain ⟨vs, σ2, h2, hlen2, hvs, fs2, heap2, hσ2⟩ := ih σ1 (fun c' hc' => h c' (by simp [hc']))
    refine ⟨v' :: vs, σ2, ?_, by simp [hlen2], ?_, fs2, ?_⟩
    · simp only [runCalls, h1, Res.bind_ok, h2]
    · intro v hmem
      rcases List.mem_cons.1 hmem with rfl | hmem
      · exact hv'
      · exact hvs v hmem
    · rcases hheap with rfl | ⟨_, cell, rfl⟩
      · exact ⟨heap2, by rw [hσ2, hσ1]⟩
      · exact ⟨cell :: heap2, by rw [hσ2, hσ1]; simp⟩

/-! ## the hypotheses are satisfiable: small trees, kernel-checked

`demoTree2` is the tree of the Linux run the `..` cases were read off from (Rust 1.95, `std::fs` on ext4):
the examples marked *(run)* reproduce the outcome observed there. -/

namespace Fs
/-- `d/` (a directory) and `d/f` (a file containing `hi`) -/
def demoTree : Tree := [([['d']], .dir), ([['d'], ['f']], .file ['h', 'i'])]

example : (fileCreate demoTree ['d', '/', 'g']).2 = true := by decide
example : (fileCreate demoTree ['d', '/', 'f']).2 = false := by decide
example : (fileCreate demoTree ['x', '/', 'g']).2 = false := by decide
example : fileRead demoTree ['d', '/', 'f'] = some ['h', 'i'] := by decide
example : fileRead (fileAppend demoTree ['d', '/', 'f'] ['!']).1 ['d', '/', 'f'] = some ['h', 'i', '!'] := by decide
example : (fileAppend demoTree ['d'] ['!']).2 = false := by decide
example : (dirRemove demoTree ['d']).2 = false := by decide
example : (dirRemoveAll demoTree ['d']).2 = true ∧ fileRead (dirRemoveAll demoTree ['d']).1 ['d', '/', 'f'] = none := by
  decide
example : (dirCreateAll demoTree ['d', '/', 'f', '/', 'x']).2 = false := by decide
example : (dirCreateAll demoTree ['d', '/', 'a', '/', 'b']).2 = true ∧
    isDirS (dirCreateAll demoTree ['d', '/', 'a', '/', 'b']).1 ['d', '/', 'a', '/', 'b'] = true := by decide
example : NoDupPaths demoTree := by simp [NoDupPaths, demoTree]
example : dirRemoveAll demoTree ['.'] = ([], false) := by rfl

namespace Demo

/-- `d/`, `d/e/`, `d/f` = `hi`, `g` = `gg`, `k/` -/
def demoTree2 : Tree :=
  [([['d']], .dir), ([['d'], ['e']], .dir), ([['d'], ['f']], .file ['h', 'i']), ([['g']], .file ['g', 'g']),
   ([['k']], .dir)]

/-- the paths of a tree, in the order of the association list -/
def paths (t : Tree) : List Str := t.map fun e => StrOps.join e.1 ['/']

/-! resolution -/
example : resolve demoTree2 "d/..".toList = some [] := by decide
example : resolve demoTree2 "d/e/..".toList = some [['d']] := by decide
example : resolve demoTree2 "d/e/../f".toList = some [['d'], ['f']] := by decide
example : resolve demoTree2 "d/e/../../g".toList = some [['g']] := by decide
example : resolve demoTree2 "d/./..".toList = some [] := by decide
example : resolve demoTree2 "missing/../g".toList = none := by decide
example : resolve demoTree2 "g/../g".toList = none := by decide
example : resolve demoTree2 "d/f/../f".toList = none := by decide
/-- the simplification: `..` at the root is the root -/
example : resolve demoTree2 "../g".toList = some [['g']] := by decide
example : noDotDot "d/e/f".toList = true ∧ noDotDot "d/../f".toList = false ∧ noDotDot "d/..x/f".toList = true := by
  decide

/-! `d/..` names the root, a directory *(run)* -/
example : existsS demoTree2 "d/..".toList = true ∧ isFileS demoTree2 "d/..".toList = false ∧
    isDirS demoTree2 "d/..".toList = true := by decide
example : (fileRemove demoTree2 "d/..".toList).2 = false ∧ (fileCreate demoTree2 "d/..".toList).2 = false ∧
    fileRead demoTree2 "d/..".toList = none ∧ (fileAppend demoTree2 "d/..".toList ['X']).2 = false ∧
    (fileOverwrite demoTree2 "d/..".toList ['X']).2 = false ∧ (dirCreate demoTree2 "d/..".toList).2 = false ∧
    (dirRemove demoTree2 "d/..".toList).2 = false := by decide
example : dirRead demoTree2 "d/..".toList = some ["d/../d".toList, "d/../g".toList, "d/../k".toList] := by decide
example : dirRead demoTree2 "d/e/..".toList = some ["d/e/../e".toList, "d/e/../f".toList] := by decide
example : dirRead demoTree2 "d/../".toList = some ["d/../d".toList, "d/../g".toList, "d/../k".toList] := by decide
example : (dirCreateAll demoTree2 "d/..".toList).2 = true ∧
    paths (dirCreateAll demoTree2 "d/..".toList).1 = paths demoTree2 := by decide
/-- `remove_dir_all("d/..")` empties the sandbox and reports success *(run)* -/
example : (dirRemoveAll demoTree2 "d/..".toList).2 = true ∧ paths (dirRemoveAll demoTree2 "d/..".toList).1 = [] := by
  decide
/-- `remove_dir_all("d/e/..")` empties `d`, keeps it, and reports success *(run)* -/
example : (dirRemoveAll demoTree2 "d/e/..".toList).2 = true ∧
    paths (dirRemoveAll demoTree2 "d/e/..".toList).1 = ["d".toList, "g".toList, "k".toList] := by decide
/-- the string is resolved again for the final `rmdir`: `d/e/../../d` went through `d/e`, which is gone by
then — success, and `d` stays, empty *(run)*; `d/../d` does not go through anything below `d`: `d` is removed -/
example : (dirRemoveAll demoTree2 "d/e/../../d".toList).2 = true ∧
    paths (dirRemoveAll demoTree2 "d/e/../../d".toList).1 = ["d".toList, "g".toList, "k".toList] ∧
    (dirRemoveAll demoTree2 "d/../d".toList).2 = true ∧
    paths (dirRemoveAll demoTree2 "d/../d".toList).1 = ["g".toList, "k".toList] := by decide
/-- `..` at the root itself, and `"."`: emptied, failure (the first is the simplification) -/
example : (dirRemoveAll demoTree2 "..".toList).2 = false ∧ paths (dirRemoveAll demoTree2 "..".toList).1 = [] ∧
    (dirRemoveAll demoTree2 ".".toList).2 = false ∧ paths (dirRemoveAll demoTree2 ".".toList).1 = [] := by decide

/-! `d/../g` is `g` *(run)* -/
example : fileRead demoTree2 "d/../g".toList = some ['g', 'g'] ∧ isFileS demoTree2 "d/../g".toList = true ∧
    (fileCreate demoTree2 "d/../g".toList).2 = false ∧ dirRead demoTree2 "d/../g".toList = none := by decide
example : (fileRemove demoTree2 "d/../g".toList).2 = true ∧
    paths (fileRemove demoTree2 "d/../g".toList).1 = ["d".toList, "d/e".toList, "d/f".toList, "k".toList] := by decide
example : fileRead (fileAppend demoTree2 "d/../g".toList ['X']).1 "g".toList = some ['g', 'g', 'X'] ∧
    fileRead (fileOverwrite demoTree2 "d/e/../../g".toList ['X']).1 "g".toList = some ['X'] := by decide
example : (fileCreate demoTree2 "d/../new".toList).2 = true ∧
    fileRead (fileCreate demoTree2 "d/../new".toList).1 "new".toList = some [] := by decide
example : (dirCreate demoTree2 "d/../new".toList).2 = true ∧
    isDirS (dirCreate demoTree2 "d/../new".toList).1 "new".toList = true := by decide
example : (dirRemove demoTree2 "d/../k".toList).2 = true ∧ (dirRemoveAll demoTree2 "d/../k".toList).2 = true ∧
    existsS (dirRemove demoTree2 "d/../k".toList).1 "k".toList = false := by decide
example : (dirRemove demoTree2 "d/../k/..".toList).2 = false ∧ (dirRemoveAll demoTree2 "d/../k/..".toList).2 = true ∧
    paths (dirRemoveAll demoTree2 "d/../k/..".toList).1 = [] := by decide

/-! `..` through a missing name or a file: failure by value, tree unchanged *(run)* -/
example : existsS demoTree2 "missing/../g".toList = false ∧ fileRead demoTree2 "missing/../g".toList = none ∧
    (fileCreate demoTree2 "missing/../new".toList).2 = false ∧ (dirCreate demoTree2 "missing/../new".toList).2 = false ∧
    (fileRemove demoTree2 "g/../g".toList).2 = false ∧ fileRead demoTree2 "d/f/../f".toList = none ∧
    (dirRemoveAll demoTree2 "g/../g".toList).2 = false ∧ dirRead demoTree2 "missing/../d".toList = none := by decide

/-! `DIRECTORY_CREATE_ALL` makes what it misses *(run)* -/
example : (dirCreateAll demoTree2 "missing/../new".toList).2 = true ∧
    isDirS (dirCreateAll demoTree2 "missing/../new".toList).1 "missing".toList = true ∧
    isDirS (dirCreateAll demoTree2 "missing/../new".toList).1 "new".toList = true := by decide
example : (dirCreateAll demoTree2 "a/b/../../c/..".toList).2 = true ∧
    paths (dirCreateAll demoTree2 "a/b/../../c/..".toList).1 =
      ["c".toList, "a/b".toList, "a".toList] ++ paths demoTree2 := by decide
/-- a failing DIRECTORY_CREATE_ALL with `..` keeps what it made before it met the file *(run:
`create_dir_all("missing/../g")` → error, `missing/` exists afterwards)* -/
theorem createAll_partial : (dirCreateAll demoTree2 "missing/../g".toList).2 = false ∧
    isDirS (dirCreateAll demoTree2 "missing/../g".toList).1 "missing".toList = true := by decide
example : (dirCreateAll demoTree2 "k/new/../../g/y".toList).2 = false ∧
    paths (dirCreateAll demoTree2 "k/new/../../g/y".toList).1 = "k/new".toList :: paths demoTree2 := by decide
example : (dirCreateAll demoTree2 "g/../x".toList).2 = false ∧
    paths (dirCreateAll demoTree2 "g/../x".toList).1 = paths demoTree2 := by decide
/-- a path string that did not resolve can resolve after DIRECTORY_CREATE_ALL -/
example : fileRead demoTree2 "new/../g".toList = none ∧
    fileRead (dirCreateAll demoTree2 "new".toList).1 "new/../g".toList = some ['g', 'g'] := by decide

/-! a last component `.`: the path string can only name a directory *(run)* -/
example : endsDot "g/.".toList = true ∧ endsDot "g/./".toList = true ∧ endsDot "d/./.".toList = true ∧
    endsDot ".".toList = true ∧ endsDot "d/./e".toList = false ∧ endsDot "d/..".toList = false ∧
    endsDot "d/.x".toList = false ∧ plain "d/./e".toList = true ∧ plain "d/.".toList = false ∧
    lexicalOK "./.".toList = true ∧ lexicalOK "d/.".toList = false := by decide
/-- `g` is a file: `g/.` names nothing, every procedure reports failure, nothing changes -/
example : existsS demoTree2 "g/.".toList = false ∧ isFileS demoTree2 "g/.".toList = false ∧
    isDirS demoTree2 "g/.".toList = false ∧ fileRead demoTree2 "g/.".toList = none ∧
    (fileAppend demoTree2 "g/.".toList ['X']).2 = false ∧ (fileOverwrite demoTree2 "g/.".toList ['X']).2 = false ∧
    (fileRemove demoTree2 "g/.".toList).2 = false ∧ (fileCreate demoTree2 "g/.".toList).2 = false ∧
    (dirCreate demoTree2 "g/.".toList).2 = false ∧ dirRead demoTree2 "g/.".toList = none ∧
    (dirRemove demoTree2 "g/.".toList).2 = false ∧ (dirRemoveAll demoTree2 "g/.".toList).2 = false ∧
    paths (dirRemoveAll demoTree2 "g/.".toList).1 = paths demoTree2 ∧
    (dirCreateAll demoTree2 "g/.".toList).2 = false := by decide
/-- `d` is a directory: `d/.` is `d`, as a directory -/
example : existsS demoTree2 "d/.".toList = true ∧ isFileS demoTree2 "d/.".toList = false ∧
    isDirS demoTree2 "d/.".toList = true ∧ fileRead demoTree2 "d/.".toList = none ∧
    (fileCreate demoTree2 "d/.".toList).2 = false ∧ (fileRemove demoTree2 "d/.".toList).2 = false ∧
    (dirCreate demoTree2 "d/.".toList).2 = false ∧ (dirCreateAll demoTree2 "d/e/.".toList).2 = true ∧
    dirRead demoTree2 "d/.".toList = some ["d/./e".toList, "d/./f".toList] ∧
    dirRead demoTree2 "d/./".toList = some ["d/./e".toList, "d/./f".toList] := by decide
/-- `rmdir("k/.")` is `EINVAL`; `remove_dir_all("d/.")` empties `d`, then fails: `d` stays *(run)* -/
example : (dirRemove demoTree2 "k/.".toList).2 = false ∧ (dirRemove demoTree2 "k/./".toList).2 = false ∧
    (dirRemove demoTree2 "k".toList).2 = true ∧
    (dirRemoveAll demoTree2 "d/.".toList).2 = false ∧
    paths (dirRemoveAll demoTree2 "d/.".toList).1 = ["d".toList, "g".toList, "k".toList] := by decide
/-- … unless the string went through a directory below: `d/e/../.` no longer resolves, success *(run)* -/
example : (dirRemoveAll demoTree2 "d/e/../.".toList).2 = true ∧
    paths (dirRemoveAll demoTree2 "d/e/../.".toList).1 = ["d".toList, "g".toList, "k".toList] ∧
    (dirRemoveAll demoTree2 "d/../.".toList).2 = true ∧ paths (dirRemoveAll demoTree2 "d/../.".toList).1 = [] := by
  decide
/-- a missing name: `new/.` names nothing, and nothing is made — not by DIRECTORY_CREATE, and not by
DIRECTORY_CREATE_ALL either, which makes every directory on the way but the last *(run)* -/
theorem createAll_final_dot : existsS demoTree2 "new/.".toList = false ∧ (fileCreate demoTree2 "new/.".toList).2 = false ∧
    (dirCreate demoTree2 "new/.".toList).2 = false ∧
    (dirCreateAll demoTree2 "new/.".toList).2 = false ∧
    paths (dirCreateAll demoTree2 "new/.".toList).1 = paths demoTree2 ∧
    (dirCreateAll demoTree2 "d/new/.".toList).2 = false ∧
    (dirCreateAll demoTree2 "n1/n2/.".toList).2 = false ∧
    paths (dirCreateAll demoTree2 "n1/n2/.".toList).1 = "n1".toList :: paths demoTree2 ∧
    (dirCreateAll demoTree2 "m1/m2/m3/.".toList).2 = false ∧
    paths (dirCreateAll demoTree2 "m1/m2/m3/.".toList).1 = ["m1/m2".toList, "m1".toList] ++ paths demoTree2 := by
  decide
/-- with `..`: `q/../g/.` makes `q` and fails on the file `g`; `r/../k/.` makes `r` and succeeds (`k` is
there); `w/../w/.` makes `w` and finds it; `z/y/../.` ends in `..` before the `.`: everything is made *(run)* -/
example : (dirCreateAll demoTree2 "q/../g/.".toList).2 = false ∧
    paths (dirCreateAll demoTree2 "q/../g/.".toList).1 = "q".toList :: paths demoTree2 ∧
    (dirCreateAll demoTree2 "r/../k/.".toList).2 = true ∧
    paths (dirCreateAll demoTree2 "r/../k/.".toList).1 = "r".toList :: paths demoTree2 ∧
    (dirCreateAll demoTree2 "w/../w/.".toList).2 = true ∧
    paths (dirCreateAll demoTree2 "w/../w/.".toList).1 = "w".toList :: paths demoTree2 ∧
    (dirCreateAll demoTree2 "z/y/../.".toList).2 = true ∧
    paths (dirCreateAll demoTree2 "z/y/../.".toList).1 = ["z/y".toList, "z".toList] ++ paths demoTree2 ∧
    (dirCreateAll demoTree2 "./.".toList).2 = true ∧ (dirCreate demoTree2 "./.".toList).2 = false ∧
    existsS demoTree2 "./.".toList = true := by decide

/-! the round trip theorem applies: `d` is a directory directly below the root -/
example : fileRead demoTree2 (upFrom "d".toList "g".toList) = fileRead demoTree2 "g".toList :=
  (dotdot_roundtrip demoTree2 "d".toList "g".toList [['d']] (by decide) (by decide) (by decide) (by decide) []).2.2.2.2.2.1
example : upFrom "d".toList "g".toList = "d/../g".toList := by decide

end Demo
end Fs

example : (⟨.fileAppend, ['d', '/', 'f'], [.num 1.0], [(0, 1), (2, 1)]⟩ : FsCall).WellFormed := by
  refine ⟨by decide, by decide, by decide, ?_⟩
  intro v hv a; simp at hv; subst hv; simp

/-- DIRECTORY_READ through `..` in the interpreter's state: NULL when the path does not resolve -/
example (env : CharEnv) (σ : St) (h : σ.world.fs = Fs.Demo.demoTree2) :
    callNative env .fileRead [.str "g/../g".toList] [(0, 1)] σ = .ok (.null, σ) :=
  (unresolved_path_fails_by_value env _ (0, 1) (0, 1) σ .null "NULL".toList (by simp [display, displayV])
    (by rw [h]; decide)).2.2.2.2.2.1

end Aplang
