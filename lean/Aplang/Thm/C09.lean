import Aplang.Proofs.ParserWF
import Aplang.Proofs.ParserEval
import Aplang.Thm.C08
/-!
# C09 — what the parser accepts is statically well-formed; what is malformed is rejected with a diagnostic

* `accepted_wf`: an accepted program satisfies the shared static well-formedness predicate of `Spec/WF`
  (`WFList false false`): RETURN only inside a procedure, BREAK / CONTINUE only inside a loop of the same
  procedure body. Per function: `statement_wf`, `declaration_wf` (well-formed for the flags the function
  was called with; flags restored on success).
* `accepted_balanced`: the tokens of an accepted program, up to the end-of-input token, have balanced
  `() [] {}` (`Bal`, and the stack machine `balCheck`); `unbalanced_rejected` is the contrapositive.
* `missing_operand_rejected`: no rung of the expression ladder succeeds on a token that cannot begin an
  expression — so an operator whose operand is missing makes the expression fail
  (`binary_missing_operand_rejected`); `operator_has_operands`: in every accepted tree both operands of a
  binary operator are rendered by non-empty token stretches.
* `break_outside_loop_rejected`, `continue_outside_loop_rejected`, `return_outside_procedure_rejected`:
  the diagnostics, at any nesting depth.
* `rejections_have_diagnostics`: a rejected program comes with at least one diagnostic (from C08).
* `terminator_at_close`: a statement directly followed by `}` or the end of input needs no separator.
-/
namespace Aplang
open P

/-! ## per function -/

theorem statement_wf (f : Nat) (s : PState) (st : Stmt) (s' : PState) (h : statement f s = .ok st s') :
    WFStmt s.inLoop s.inFn st ∧ s'.inLoop = s.inLoop ∧ s'.inFn = s.inFn := by
  obtain ⟨hwf, hcb⟩ := ((stmtWF f).statement s).elim h
  exact ⟨hwf, hcb.inLoop, hcb.inFn⟩

theorem declaration_wf (f : Nat) (s : PState) (st : Stmt) (s' : PState) (h : declaration f s = .ok st s') :
    WFStmt s.inLoop s.inFn st ∧ s'.inLoop = s.inLoop ∧ s'.inFn = s.inFn := by
  obtain ⟨hwf, hcb⟩ := ((stmtWF f).declaration s).elim h
  exact ⟨hwf, hcb.inLoop, hcb.inFn⟩

theorem blockLoop_wf (f : Nat) (acc : List Stmt) (s : PState) (ss : List Stmt) (s' : PState)
    (hacc : WFList s.inLoop s.inFn acc) (h : blockLoop f acc s = .ok ss s') :
    WFList s.inLoop s.inFn ss ∧ s'.inLoop = s.inLoop ∧ s'.inFn = s.inFn := by
  obtain ⟨hwf, hcb⟩ := ((stmtWF f).blockLoop acc s hacc).elim h
  exact ⟨hwf, hcb.inLoop, hcb.inFn⟩

/-- a procedure declaration is well-formed in every context: its body starts a fresh scope -/
theorem procedure_wf (f : Nat) (t : Token) (s : PState) (st : Stmt) (s' : PState)
    (h : procedure f t s = .ok st s') :
    (∀ a b, WFStmt a b st) ∧ s'.inLoop = s.inLoop ∧ s'.inFn = s.inFn := by
  obtain ⟨hwf, hcb⟩ := ((stmtWF f).procedure t s).elim h
  exact ⟨hwf, hcb.inLoop, hcb.inFn⟩

/-! ## whole programs -/

/-- the statement loop only answers `.ok` when no diagnostic was collected -/
theorem parseLoop_ok_errs : ∀ f stmts errs s prog, parseLoop f stmts errs s = .ok prog → errs = []
  | 0, _, _, _, _ => by simp [parseLoop]
  | f+1, stmts, errs, s, prog => by
    intro h
    simp only [parseLoop] at h
    cases hi : isAtEnd s with
    | panic p => rw [hi] at h; cases h
    | fuel => rw [hi] at h; cases h
    | err e s1 => rw [hi] at h; cases h
    | ok b s1 =>
      rw [hi] at h
      cases b with
      | true =>
        simp only at h
        split at h
        · rename_i he; simpa using he
        · cases h
      | false =>
        simp only at h
        cases hm : matchToken .softSemi s1 with
        | panic p => rw [hm] at h; cases h
        | fuel => rw [hm] at h; cases h
        | err e s2 => rw [hm] at h; cases h
        | ok m s2 =>
          rw [hm] at h
          cases m with
          | some _ => exact parseLoop_ok_errs f _ _ _ _ h
          | none =>
            simp only at h
            cases hd : declaration f s2 with
            | panic p => rw [hd] at h; cases h
            | fuel => rw [hd] at h; cases h
            | ok st s3 => rw [hd] at h; exact parseLoop_ok_errs f _ _ _ _ h
            | err e s3 =>
              rw [hd] at h
              simp only at h
              cases hs : synchronize f s3 with
              | panic p => rw [hs] at h; cases h
              | fuel => rw [hs] at h; cases h
              | err e s4 => rw [hs] at h; cases h
              | ok u s4 =>
                rw [hs] at h
                have := parseLoop_ok_errs f _ _ _ _ h
                simp at this

theorem parseLoop_ok : ∀ f stmts errs s prog, parseLoop f stmts errs s = .ok prog →
    s.inLoop = false → s.inFn = false → WFList false false stmts →
    WFList false false prog ∧ ∃ s', CB s s' ∧ ∃ eof rest, s'.after = eof :: rest ∧ eof.tt = .eof
  | 0, _, _, _, _ => by simp [parseLoop]
  | f+1, stmts, errs, s, prog => by
    intro h hl hf hwf
    simp only [parseLoop] at h
    cases hi : isAtEnd s with
    | panic p => rw [hi] at h; cases h
    | fuel => rw [hi] at h; cases h
    | err e s1 => rw [hi] at h; cases h
    | ok b s1 =>
      rw [hi] at h
      obtain ⟨rfl, t, r, hr, hb⟩ := (isAtEnd_post s).elim hi
      cases b with
      | true =>
        simp only at h
        split at h
        · cases h; exact ⟨hwf, _, CB.refl _, t, r, hr, by simpa using hb.symm⟩
        · cases h
      | false =>
        simp only at h
        cases hm : matchToken .softSemi s1 with
        | panic p => rw [hm] at h; cases h
        | fuel => rw [hm] at h; cases h
        | err e s2 => rw [hm] at h; cases h
        | ok m s2 =>
          rw [hm] at h
          have hcb := ((matchToken_post .softSemi s1).elim hm).cb (by simp [isPlain, isBracket])
          have hl2 : s2.inLoop = false := hcb.inLoop.trans hl
          have hf2 : s2.inFn = false := hcb.inFn.trans hf
          cases m with
          | some _ =>
            obtain ⟨a, s', b, c⟩ := parseLoop_ok f _ _ _ _ h hl2 hf2 hwf
            exact ⟨a, s', hcb.trans b, c⟩
          | none =>
            simp only at h
            cases hd : declaration f s2 with
            | panic p => rw [hd] at h; cases h
            | fuel => rw [hd] at h; cases h
            | ok st s3 =>
              rw [hd] at h
              obtain ⟨hwf3, hcb3⟩ := ((stmtWF f).declaration s2).elim hd
              rw [hl2, hf2] at hwf3
              obtain ⟨a, s', b, c⟩ := parseLoop_ok f _ _ _ _ h (hcb3.inLoop.trans hl2) (hcb3.inFn.trans hf2)
                ((WFList_snoc _ _ _ _).mpr ⟨hwf, hwf3⟩)
              exact ⟨a, s', hcb.trans (hcb3.trans b), c⟩
            | err e s3 =>
              rw [hd] at h
              simp only at h
              cases hs : synchronize f s3 with
              | panic p => rw [hs] at h; cases h
              | fuel => rw [hs] at h; cases h
              | err e s4 => rw [hs] at h; cases h
              | ok u s4 =>
                rw [hs] at h
                have := parseLoop_ok_errs f _ _ _ _ h
                simp at this

/-- **an accepted program is statically well-formed**: RETURN only inside a procedure, BREAK and
CONTINUE only inside a loop of the same procedure body -/
theorem accepted_wf (fuel : Nat) (ts : List Token) (prog : List Stmt) (h : parse fuel ts = .ok prog) :
    WFList false false prog :=
  (parseLoop_ok fuel [] [] _ prog h rfl rfl (by simp [WFList])).1

theorem accepted_wf_each (fuel : Nat) (ts : List Token) (prog : List Stmt) (h : parse fuel ts = .ok prog) :
    ∀ st ∈ prog, WFStmt false false st :=
  (WFList_iff false false prog).mp (accepted_wf fuel ts prog h)

/-- **an accepted program has balanced `() [] {}`**: the token list is a balanced stretch without
end-of-input tokens, followed by an end-of-input token -/
theorem accepted_balanced (fuel : Nat) (ts : List Token) (prog : List Stmt) (h : parse fuel ts = .ok prog) :
    ∃ c eof rest, ts = c ++ eof :: rest ∧ eof.tt = .eof ∧ Bal c ∧ balCheck [] c = true ∧
      ∀ t ∈ c, t.tt ≠ .eof := by
  obtain ⟨_, s', ⟨c, hc, hb⟩, eof, rest, hr, he⟩ := parseLoop_ok fuel [] [] _ prog h rfl rfl (by simp [WFList])
  refine ⟨c, eof, rest, ?_, he, hb, hb.check, hb.no_eof⟩
  have := hc.after
  rw [hr] at this
  exact this

theorem first_eof_unique : ∀ (c c' : List Token) (e e' : Token) (r r' : List Token),
    c ++ e :: r = c' ++ e' :: r' → (∀ t ∈ c, t.tt ≠ .eof) → (∀ t ∈ c', t.tt ≠ .eof) →
    e.tt = .eof → e'.tt = .eof → c = c'
  | [], [], _, _, _, _, _, _, _, _, _ => rfl
  | [], x :: c', e, e', r, r', h, _, h2, he, _ => by
    simp at h; exact absurd (h.1 ▸ he) (h2 x (by simp))
  | x :: c, [], e, e', r, r', h, h1, _, _, he' => by
    simp at h; exact absurd (h.1 ▸ he') (h1 x (by simp))
  | x :: c, y :: c', e, e', r, r', h, h1, h2, he, he' => by
    simp at h
    rw [h.1, first_eof_unique c c' e e' r r' h.2 (fun t ht => h1 t (by simp [ht]))
      (fun t ht => h2 t (by simp [ht])) he he']

/-- **unbalanced `() [] {}` is rejected**: if the tokens before the (first) end-of-input token do not
pass the bracket matcher, the parser does not accept, whatever the fuel -/
theorem unbalanced_rejected (fuel : Nat) (c : List Token) (eof : Token) (rest : List Token)
    (hc : ∀ t ∈ c, t.tt ≠ .eof) (he : eof.tt = .eof) (hb : balCheck [] c = false) :
    ∀ prog, parse fuel (c ++ eof :: rest) ≠ .ok prog := by
  intro prog h
  obtain ⟨c', eof', rest', hts, he', _, hchk, hno⟩ := accepted_balanced fuel _ prog h
  have := first_eof_unique c c' eof eof' rest rest' hts hc hno he he'
  subst this
  rw [hb] at hchk; cases hchk

/-- **a rejected program comes with at least one diagnostic** (re-exported from C08) -/
theorem rejections_have_diagnostics (fuel : Nat) (ts : List Token) (es : List PErr)
    (h : parse fuel ts = .errs es) : es ≠ [] := parse_errs_nonempty fuel ts es h

/-- on lexer output the parser answers with a tree, or with at least one diagnostic, or runs out of the
model's fuel — and a tree is well-formed and balanced -/
theorem accept_or_diagnose (fuel : Nat) (ts : List Token) (h : TokensOK ts) :
    (∃ prog, parse fuel ts = .ok prog ∧ WFList false false prog) ∨
    (∃ e es, parse fuel ts = .errs (e :: es)) ∨ parse fuel ts = .fuel := by
  rcases parse_dichotomy fuel ts h with ⟨prog, hp⟩ | h | h
  · exact Or.inl ⟨prog, hp, accepted_wf fuel ts prog hp⟩
  · exact Or.inr (Or.inl h)
  · exact Or.inr (Or.inr h)

/-! ## an operator missing an operand -/

theorem bind_ok_inv {α β} {r : PRes α} {k : α → PState → PRes β} {b s''} (h : r.bind k = .ok b s'') :
    ∃ a s', r = .ok a s' ∧ k a s' = .ok b s'' := by
  cases r with
  | ok a s' => exact ⟨a, s', rfl, h⟩
  | err e s' => cases h
  | panic m => cases h
  | fuel => cases h

theorem exprQ_start {n s e s'} (h : ExprQ n s e s') : ∃ t r, s.after = t :: r ∧ isExprStart t.tt = true := by
  obtain ⟨c, hc, hs, _, _⟩ := h
  obtain ⟨t, r, rfl, ht⟩ := hs.first
  exact ⟨t, r ++ s'.after, hc.after, ht⟩

/-- **no rung of the expression ladder succeeds on a token that cannot begin an expression**
(a closing bracket, a binary operator other than `-`, a keyword, a separator, the end of input …) -/
theorem missing_operand_rejected (f : Nat) (s : PState) (t : Token) (r : List Token)
    (h : s.after = t :: r) (ht : isExprStart t.tt = false) :
    (∀ e s', expression f s ≠ .ok e s') ∧ (∀ e s', orE f s ≠ .ok e s') ∧ (∀ e s', andE f s ≠ .ok e s') ∧
    (∀ lvl e s', binLevel f lvl s ≠ .ok e s') ∧ (∀ e s', unary f s ≠ .ok e s') ∧
    (∀ e s', primary f s ≠ .ok e s') := by
  have ih := exprSound f
  have key : ∀ {n e s'}, ExprQ n s e s' → False := by
    intro n e s' hq
    obtain ⟨t', r', h', ht'⟩ := exprQ_start hq
    rw [h] at h'; cases h'; rw [ht] at ht'; cases ht'
  refine ⟨fun e s' he => key ((ih.expression s).elim he), fun e s' he => key ((ih.orE s).elim he),
    fun e s' he => key ((ih.andE s).elim he).1, fun lvl e s' he => key ((ih.binLevel lvl s).elim he),
    fun e s' he => key ((ih.unary s).elim he), fun e s' he => key ((ih.primary s).elim he).1⟩

/-- **a binary operator whose right operand is missing**: when the operator loop has matched an operator
and the next token cannot begin an expression, the loop does not succeed -/
theorem binary_missing_operand_rejected (f : Nat) (lvl : BinLevel) (left : Expr) (s : PState)
    (op t : Token) (r : List Token) (h : s.after = op :: t :: r) (hop : op.tt ∈ lvl.ops)
    (ht : isExprStart t.tt = false) : ∀ e s', binLoop f lvl left s ≠ .ok e s' := by
  intro e s' he
  cases f with
  | zero => simp [P.binLoop] at he
  | succ f =>
    simp only [P.binLoop] at he
    have hne : op.tt ≠ .eof := by
      intro e; rw [e] at hop; cases lvl <;> simp [BinLevel.ops] at hop
    rw [matchTokens_hit h hop hne] at he
    simp only [PRes.bind_ok] at he
    obtain ⟨right, s2, hr, _⟩ := bind_ok_inv he
    have hm := missing_operand_rejected f (adv s op (t :: r)) t r rfl ht
    cases lvl with
    | equality => exact hm.2.2.2.1 _ _ _ hr
    | comparison => exact hm.2.2.2.1 _ _ _ hr
    | addition => exact hm.2.2.2.1 _ _ _ hr
    | multiplication => exact hm.2.2.2.2.1 _ _ hr

/-- in every accepted tree both operands of a binary operator are present -/
theorem operator_has_operands {l r : Expr} {op : BinOp} {tok : Token} {c : List Token}
    (h : Shape (.binary l op r tok) c) :
    ∃ cl cr, c = cl ++ tok :: cr ∧ cl ≠ [] ∧ cr ≠ [] ∧ Shape l cl ∧ Shape r cr := by
  cases h with
  | binary hl _ hr => exact ⟨_, _, rfl, hl.ne_nil, hr.ne_nil, hl, hr⟩

/-! ## BREAK / CONTINUE / RETURN in the wrong place: the diagnostics -/

theorem break_outside_loop_rejected (f : Nat) (s : PState) (t : Token) (r : List Token)
    (h : s.after = t :: r) (ht : t.tt = .break_) (hl : s.inLoop = false) :
    statement (f+1) s = .err (err1 "break_outside_loop" []) (adv s t r) := by
  simp only [P.statement]
  rw [matchToken_miss h (by rw [ht]; decide)]; simp only [PRes.bind_ok]
  rw [matchToken_miss h (by rw [ht]; decide)]; simp only [PRes.bind_ok]
  rw [matchToken_miss h (by rw [ht]; decide)]; simp only [PRes.bind_ok]
  rw [matchToken_miss h (by rw [ht]; decide)]; simp only [PRes.bind_ok]
  rw [matchToken_miss h (by rw [ht]; decide)]; simp only [PRes.bind_ok]
  rw [matchToken_miss h (by rw [ht]; decide)]; simp only [PRes.bind_ok]
  rw [matchToken_hit h ht (by decide)]; simp [hl]

theorem continue_outside_loop_rejected (f : Nat) (s : PState) (t : Token) (r : List Token)
    (h : s.after = t :: r) (ht : t.tt = .continue_) (hl : s.inLoop = false) :
    statement (f+1) s = .err (err1 "continue_outside_loop" []) (adv s t r) := by
  simp only [P.statement]
  rw [matchToken_miss h (by rw [ht]; decide)]; simp only [PRes.bind_ok]
  rw [matchToken_miss h (by rw [ht]; decide)]; simp only [PRes.bind_ok]
  rw [matchToken_miss h (by rw [ht]; decide)]; simp only [PRes.bind_ok]
  rw [matchToken_miss h (by rw [ht]; decide)]; simp only [PRes.bind_ok]
  rw [matchToken_miss h (by rw [ht]; decide)]; simp only [PRes.bind_ok]
  rw [matchToken_hit h ht (by decide)]; simp [hl]

theorem return_outside_procedure_rejected (f : Nat) (s : PState) (t : Token) (r : List Token)
    (h : s.after = t :: r) (ht : t.tt = .return_) (hf : s.inFn = false) :
    statement (f+1) s = .err (err1 "return_outside_procedure" []) (adv s t r) := by
  simp only [P.statement]
  rw [matchToken_miss h (by rw [ht]; decide)]; simp only [PRes.bind_ok]
  rw [matchToken_miss h (by rw [ht]; decide)]; simp only [PRes.bind_ok]
  rw [matchToken_miss h (by rw [ht]; decide)]; simp only [PRes.bind_ok]
  rw [matchToken_miss h (by rw [ht]; decide)]; simp only [PRes.bind_ok]
  rw [matchToken_miss h (by rw [ht]; decide)]; simp only [PRes.bind_ok]
  rw [matchToken_miss h (by rw [ht]; decide)]; simp only [PRes.bind_ok]
  rw [matchToken_miss h (by rw [ht]; decide)]; simp only [PRes.bind_ok]
  rw [matchToken_hit h ht (by decide)]; simp [returnStatement, hf]

/-! ## layout: a statement directly before `}` or the end of input -/

/-- the statement terminator accepts a following `}` or the end of the input without consuming anything -/
theorem terminator_at_close (code : String) (lab : Bool) (s : PState) (t : Token) (r : List Token)
    (h : s.after = t :: r) (ht : t.tt = .rightBrace ∨ t.tt = .eof) : terminator code lab s = .ok () s := by
  unfold terminator
  rw [isAtEnd_eq h]
  rcases ht with ht | ht
  · simp [ht, check_eq _ h]
  · simp [ht]

/-- … and a separator otherwise -/
theorem terminator_at_semi (code : String) (lab : Bool) (s : PState) (t : Token) (r : List Token)
    (h : s.after = t :: r) (ht : t.tt = .softSemi) : terminator code lab s = .ok () (adv s t r) := by
  unfold terminator
  rw [isAtEnd_eq h]
  simp [ht, check_eq _ h, consume_hit _ h ht]

/-! ## non-vacuity (kernel-evaluated) -/

private def kw (tt : TT) (off : Nat) : Token := ⟨tt, [], .none, off, 1⟩
private def idt (off : Nat) : Token := ⟨.identifier, ['f'], .none, off, 1⟩
private def num (off : Nat) : Token := ⟨.number, ['7'], .num 7, off, 1⟩

/-- `BREAK` at top level is rejected with one diagnostic -/
example : (match parse 50 [kw .break_ 0, kw .eof 1] with | .errs es => es.length | _ => 0) = 1 := by decide

/-- `RETURN 7` at top level is rejected -/
example : (match parse 50 [kw .return_ 0, num 1, kw .eof 2] with | .errs es => es.length | _ => 0) = 1 := by decide

/-- `REPEAT 7 TIMES { PROCEDURE f ( ) BREAK }` is rejected: a procedure body starts outside of any loop -/
example : (match parse 30 [kw .repeat_ 0, num 1, kw .times 2, kw .leftBrace 3, kw .procedure 4, idt 5,
      kw .leftParen 6, kw .rightParen 7, kw .break_ 8, kw .rightBrace 9, kw .eof 10] with
    | .errs (_ :: _) => true | _ => false) = true := by decide

/-- the same with the body in braces: `REPEAT 7 TIMES { PROCEDURE f ( ) { BREAK } }` (evaluated by the
kernel directly; the elaborator's evaluator needs several seconds for the error-recovery path) -/
example : (match parse 30 [kw .repeat_ 0, num 1, kw .times 2, kw .leftBrace 3, kw .procedure 4, idt 5,
      kw .leftParen 6, kw .rightParen 7, kw .leftBrace 8, kw .break_ 9, kw .rightBrace 10, kw .rightBrace 11,
      kw .eof 12] with
    | .errs (_ :: _) => true | _ => false) = true := by decide +kernel

/-- `REPEAT 7 TIMES { BREAK }` is accepted -/
example : (match parse 80 [kw .repeat_ 0, num 1, kw .times 2, kw .leftBrace 3, kw .break_ 4, kw .rightBrace 5,
      kw .eof 6] with
    | .ok [.repeatTimes _ (.block _ [.brk _] _) _ _ _] => true | _ => false) = true := by decide

/-- `PROCEDURE f ( ) { RETURN 7 }` is accepted: RETURN with a value directly before `}` -/
example : (match parse 80 [kw .procedure 0, idt 1, kw .leftParen 2, kw .rightParen 3, kw .leftBrace 4,
      kw .return_ 5, num 6, kw .rightBrace 7, kw .eof 8] with
    | .ok [.procDecl _ [] (.block _ [.ret _ (some _)] _) false _ _] => true | _ => false) = true := by decide

/-- `{ { } }` is accepted -/
example : (match parse 50 [kw .leftBrace 0, kw .leftBrace 1, kw .rightBrace 2, kw .rightBrace 3, kw .eof 4] with
    | .ok [.block _ [.block _ [] _] _] => true | _ => false) = true := by decide

/-- `( 7` is rejected (unbalanced), `7 +` is rejected (operand missing) -/
example : (match parse 50 [kw .leftParen 0, num 1, kw .eof 2] with | .errs es => es.length | _ => 0) = 1 := by decide
example : (match parse 50 [num 0, kw .plus 1, kw .eof 2] with | .errs es => es.length | _ => 0) = 1 := by decide
example : balCheck [] [kw .leftParen 0, num 1] = false := by decide

/-- the hypothesis of `accepted_wf` is satisfiable with a non-trivial program, and its conclusion excludes
a top-level BREAK -/
example : ¬ WFList false false [.brk (kw .break_ 0)] := by simp [WFList, WFStmt]

end Aplang
