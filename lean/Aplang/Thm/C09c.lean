import Aplang.Thm.C09b
import Aplang.Thm.C05b
/-!
# C09c — the documented grammar with the FULL expression language is accepted

`Thm/C09b` proves statement-level completeness with expressions as a parameter (`P.PExpr.OK`), and gives
instances for a fragment without calls, list literals and indexing. With `Thm/C05b` the parameter can be
instantiated by every expression of the documented grammar:

* `ofMin2_ok`, `ofFull2_ok` — the minimally and the fully parenthesised rendering of any well-formed `P.XExpr`
  (literals, variables, all operators, assignment, calls, list literals, indexing, indexed assignment, written
  parentheses) is accepted by the expression parser in front of every token that cannot continue an expression;
* `SStmt.SynP` / `SSeq.SynP` — the documented statement grammar with a condition `Q` on its expressions in
  place of `PExpr.OK`; `DocExpr lp rp` — "is the minimal or the full rendering of a well-formed `XExpr`";
* `accepts_documented_grammar_full_expressions` — every program derivable from the documented statement grammar
  all of whose expressions are documented-grammar expressions (`q.SynP (DocExpr lp rp)`) and which satisfies the
  static scope rule is accepted, with the tree of the derivation — for all sufficiently large fuel, for every
  fuel that is not exhausted, and for the fuel `runTokens` uses;
* `Demo09c` — a program whose expressions use calls, list literals, nested indexing and indexed assignment.
-/
namespace Aplang
open P

/-- the minimally parenthesised rendering of a documented-grammar expression, with its tree -/
def P.PExpr.ofMin2 (lp rp : Token) (e : XExpr) : PExpr := ⟨renderMin2 lp rp 1 e, treeMin2 lp rp 1 e⟩
/-- the fully parenthesised rendering -/
def P.PExpr.ofFull2 (lp rp : Token) (e : XExpr) : PExpr := ⟨renderFull2 lp rp e, groupAll2 lp rp e⟩

theorem ofMin2_ok (lp rp : Token) (hlp : lp.tt = .leftParen) (hrp : rp.tt = .rightParen) (e : XExpr) (he : e.WF) :
    (PExpr.ofMin2 lp rp e).OK :=
  fun s nxt r h hstop => parse_renderMin2 lp rp hlp hrp e he s nxt r h hstop

theorem ofFull2_ok (lp rp : Token) (hlp : lp.tt = .leftParen) (hrp : rp.tt = .rightParen) (e : XExpr) (he : e.WF) :
    (PExpr.ofFull2 lp rp e).OK :=
  fun s nxt r h hstop => parse_renderFull2 lp rp hlp hrp e he s nxt r h hstop

/-- a printed expression of the documented grammar: the minimal or the full rendering of a well-formed `XExpr` -/
def DocExpr (lp rp : Token) (pe : PExpr) : Prop :=
  ∃ e : XExpr, e.WF ∧ (pe = PExpr.ofMin2 lp rp e ∨ pe = PExpr.ofFull2 lp rp e)

theorem DocExpr.ok {lp rp : Token} (hlp : lp.tt = .leftParen) (hrp : rp.tt = .rightParen) {pe : PExpr}
    (h : DocExpr lp rp pe) : pe.OK := by
  obtain ⟨e, he, rfl | rfl⟩ := h
  · exact ofMin2_ok lp rp hlp hrp e he
  · exact ofFull2_ok lp rp hlp hrp e he

namespace P

mutual
/-- the documented statement grammar (`SStmt.Syn`) with the condition `Q` on expressions -/
def SStmt.SynP (Q : PExpr → Prop) : SStmt → Prop
  | .expr e term => Q e ∧ TermOK term
  | .ifs ifTok lp c rp thn =>
      ifTok.tt = .if_ ∧ lp.tt = .leftParen ∧ Q c ∧ rp.tt = .rightParen ∧ thn.isBlock = true ∧ SStmt.SynP Q thn
  | .ifElse ifTok lp c rp thn et els =>
      ifTok.tt = .if_ ∧ lp.tt = .leftParen ∧ Q c ∧ rp.tt = .rightParen ∧ thn.isBlock = true ∧ SStmt.SynP Q thn ∧
      et.tt = .else_ ∧ (els.isBlock = true ∨ els.isIf = true) ∧ SStmt.SynP Q els
  | .repeatTimes rt c tt body =>
      rt.tt = .repeat_ ∧ Q c ∧ tt.tt = .times ∧ body.isBlock = true ∧ SStmt.SynP Q body
  | .repeatUntil rt ut lp c rp body =>
      rt.tt = .repeat_ ∧ ut.tt = .until_ ∧ lp.tt = .leftParen ∧ Q c ∧ rp.tt = .rightParen ∧
      body.isBlock = true ∧ SStmt.SynP Q body
  | .forEach ft et it int l body =>
      ft.tt = .for_ ∧ et.tt = .each ∧ it.tt = .identifier ∧ int.tt = .in_ ∧ Q l ∧ body.isBlock = true ∧
      SStmt.SynP Q body
  | .procDecl ex pt nt lp ps rp body =>
      (∀ t, ex = some t → t.tt = .export_) ∧ pt.tt = .procedure ∧ nt.tt = .identifier ∧ lp.tt = .leftParen ∧
      (∀ l, ps = some l → l.OK .identifier ∧ l.more.length + 1 ≤ 255) ∧ rp.tt = .rightParen ∧
      body.isBlock = true ∧ SStmt.SynP Q body
  | .block lb q rb => lb.tt = .leftBrace ∧ SSeq.SynP Q q ∧ rb.tt = .rightBrace
  | .ret tok v term => tok.tt = .return_ ∧ (∀ e, v = some e → Q e) ∧ TermOK term
  | .cont tok => tok.tt = .continue_
  | .brk tok => tok.tt = .break_
  | .importAll it mt mn term => it.tt = .import_ ∧ mt.tt = .mod_ ∧ mn.tt = .stringLiteral ∧ TermOK term
  | .importOne it n ft mt mn term =>
      it.tt = .import_ ∧ n.tt = .stringLiteral ∧ ft.tt = .from_ ∧ mt.tt = .mod_ ∧ mn.tt = .stringLiteral ∧
      TermOK term
  | .importList it lb ns rb ft mt mn term =>
      it.tt = .import_ ∧ lb.tt = .leftBracket ∧ ns.OK .stringLiteral ∧ ns.more.length + 1 ≤ 63 ∧
      rb.tt = .rightBracket ∧ ft.tt = .from_ ∧ mt.tt = .mod_ ∧ mn.tt = .stringLiteral ∧ TermOK term
def SSeq.SynP (Q : PExpr → Prop) : SSeq → Prop
  | .nil => True
  | .semi t r => t.tt = .softSemi ∧ SSeq.SynP Q r
  | .cons st r => SStmt.SynP Q st ∧ (st.bare = true → r.isNil = true) ∧ SSeq.SynP Q r
end

mutual
theorem SStmt.SynP.syn {Q : PExpr → Prop} (hQ : ∀ e, Q e → e.OK) : ∀ st : SStmt, st.SynP Q → st.Syn
  | .expr e term, h => by
    simp only [SStmt.SynP, SStmt.Syn] at h ⊢; exact ⟨hQ _ h.1, h.2⟩
  | .ifs ifTok lp c rp thn, h => by
    simp only [SStmt.SynP, SStmt.Syn] at h ⊢
    exact ⟨h.1, h.2.1, hQ _ h.2.2.1, h.2.2.2.1, h.2.2.2.2.1, SStmt.SynP.syn hQ thn h.2.2.2.2.2⟩
  | .ifElse ifTok lp c rp thn et els, h => by
    simp only [SStmt.SynP, SStmt.Syn] at h ⊢
    exact ⟨h.1, h.2.1, hQ _ h.2.2.1, h.2.2.2.1, h.2.2.2.2.1, SStmt.SynP.syn hQ thn h.2.2.2.2.2.1,
      h.2.2.2.2.2.2.1, h.2.2.2.2.2.2.2.1, SStmt.SynP.syn hQ els h.2.2.2.2.2.2.2.2⟩
  | .repeatTimes rt c tt body, h => by
    simp only [SStmt.SynP, SStmt.Syn] at h ⊢
    exact ⟨h.1, hQ _ h.2.1, h.2.2.1, h.2.2.2.1, SStmt.SynP.syn hQ body h.2.2.2.2⟩
  | .repeatUntil rt ut lp c rp body, h => by
    simp only [SStmt.SynP, SStmt.Syn] at h ⊢
    exact ⟨h.1, h.2.1, h.2.2.1, hQ _ h.2.2.2.1, h.2.2.2.2.1, h.2.2.2.2.2.1, SStmt.SynP.syn hQ body h.2.2.2.2.2.2⟩
  | .forEach ft et it int l body, h => by
    simp only [SStmt.SynP, SStmt.Syn] at h ⊢
    exact ⟨h.1, h.2.1, h.2.2.1, h.2.2.2.1, hQ _ h.2.2.2.2.1, h.2.2.2.2.2.1, SStmt.SynP.syn hQ body h.2.2.2.2.2.2⟩
  | .procDecl ex pt nt lp ps rp body, h => by
    simp only [SStmt.SynP, SStmt.Syn] at h ⊢
    exact ⟨h.1, h.2.1, h.2.2.1, h.2.2.2.1, h.2.2.2.2.1, h.2.2.2.2.2.1, h.2.2.2.2.2.2.1,
      SStmt.SynP.syn hQ body h.2.2.2.2.2.2.2⟩
  | .block lb q rb, h => by
    simp only [SStmt.SynP, SStmt.Syn] at h ⊢
    exact ⟨h.1, SSeq.SynP.syn hQ q h.2.1, h.2.2⟩
  | .ret tok v term, h => by
    simp only [SStmt.SynP, SStmt.Syn] at h ⊢
    exact ⟨h.1, fun e he => hQ _ (h.2.1 e he), h.2.2⟩
  | .cont tok, h => by simp only [SStmt.SynP, SStmt.Syn] at h ⊢; exact h
  | .brk tok, h => by simp only [SStmt.SynP, SStmt.Syn] at h ⊢; exact h
  | .importAll it mt mn term, h => by simp only [SStmt.SynP, SStmt.Syn] at h ⊢; exact h
  | .importOne it n ft mt mn term, h => by simp only [SStmt.SynP, SStmt.Syn] at h ⊢; exact h
  | .importList it lb ns rb ft mt mn term, h => by simp only [SStmt.SynP, SStmt.Syn] at h ⊢; exact h
theorem SSeq.SynP.syn {Q : PExpr → Prop} (hQ : ∀ e, Q e → e.OK) : ∀ q : SSeq, q.SynP Q → q.Syn
  | .nil, _ => by simp only [SSeq.Syn]
  | .semi t r, h => by
    simp only [SSeq.SynP, SSeq.Syn] at h ⊢
    exact ⟨h.1, SSeq.SynP.syn hQ r h.2⟩
  | .cons st r, h => by
    simp only [SSeq.SynP, SSeq.Syn] at h ⊢
    exact ⟨SStmt.SynP.syn hQ st h.1, h.2.1, SSeq.SynP.syn hQ r h.2.2⟩
end

end P

/-- **statement-level completeness with the full expression language.** A program derivable from the documented
statement grammar, all of whose expressions are (minimally or fully parenthesised) expressions of the documented
expression grammar — calls, list literals, indexing and indexed assignment included —, and which satisfies the
static scope rule, is accepted; the tree is the one of the derivation. -/
theorem accepts_documented_grammar_full_expressions (lp rp : Token) (hlp : lp.tt = .leftParen)
    (hrp : rp.tt = .rightParen) (q : SSeq) (hq : q.SynP (DocExpr lp rp))
    (hw : WFList false false (treeSeq q)) (eof : Token) (he : eof.tt = .eof) :
    ∃ fuel, ∀ g, fuel ≤ g → parse g (renderSeq q ++ [eof]) = .ok (treeSeq q) :=
  accepts_documented_grammar q (SSeq.SynP.syn (fun _ h => h.ok hlp hrp) q hq) hw eof he

/-- … with any fuel that is not exhausted -/
theorem accepts_documented_grammar_full_expressions_any_fuel (lp rp : Token) (hlp : lp.tt = .leftParen)
    (hrp : rp.tt = .rightParen) (q : SSeq) (hq : q.SynP (DocExpr lp rp))
    (hw : WFList false false (treeSeq q)) (eof : Token) (he : eof.tt = .eof) (g : Nat)
    (hg : parse g (renderSeq q ++ [eof]) ≠ .fuel) :
    parse g (renderSeq q ++ [eof]) = .ok (treeSeq q) :=
  accepts_documented_grammar_any_fuel q (SSeq.SynP.syn (fun _ h => h.ok hlp hrp) q hq) hw eof he g hg

/-- … with the fuel `runTokens` gives the parser -/
theorem accepts_documented_grammar_full_expressions_run (lp rp : Token) (hlp : lp.tt = .leftParen)
    (hrp : rp.tt = .rightParen) (q : SSeq) (hq : q.SynP (DocExpr lp rp))
    (hw : WFList false false (treeSeq q)) (eof : Token) (he : eof.tt = .eof)
    (hlit : ∀ t ∈ renderSeq q ++ [eof], LitOK t) :
    parse (parseFuel (renderSeq q ++ [eof]).length) (renderSeq q ++ [eof]) = .ok (treeSeq q) :=
  accepts_documented_grammar_run q (SSeq.SynP.syn (fun _ h => h.ok hlp hrp) q hq) hw eof he hlit

/-! ## non-vacuity

```
IF ( f ( a [ 1 ] , [ b , g ( ) ] ) [ 2 ] ) { m [ 1 ] [ 2 ] <- f ( ) ; }
REPEAT len ( [ a , b ] ) TIMES { x <- [ ] }
```
-/
namespace Demo09c
open Demo09 Demo05b

def k (tt : TT) : Token := kwTok tt 0
def num (n : Float) : Token := numTok n 0
def idt (c : Char) : Token := idTok [c] 0

/-- `f(a[1], [b, g()])[2]` -/
def cond : XExpr :=
  .index
    (.call (idt 'f') (k .leftParen)
      (.cons (.index (.var (idt 'a')) (k .leftBracket) (.lit (.num 1) (num 1)) (k .rightBracket)) (k .comma)
        (.one (.list (k .leftBracket)
          (.cons (.var (idt 'b')) (k .comma) (.one (.call0 (idt 'g') (k .leftParen) (k .rightParen))))
          (k .rightBracket))))
      (k .rightParen))
    (k .leftBracket) (.lit (.num 2) (num 2)) (k .rightBracket)

/-- `m[1][2] <- f()` -/
def asg2 : XExpr :=
  .set (.index (.var (idt 'm')) (k .leftBracket) (.lit (.num 1) (num 1)) (k .rightBracket))
    (k .leftBracket) (.lit (.num 2) (num 2)) (k .rightBracket) (k .arrow)
    (.call0 (idt 'f') (k .leftParen) (k .rightParen))

/-- `len([a, b])` -/
def count : XExpr :=
  .call (idTok ['l', 'e', 'n'] 0) (k .leftParen)
    (.one (.list (k .leftBracket) (.cons (.var (idt 'a')) (k .comma) (.one (.var (idt 'b')))) (k .rightBracket)))
    (k .rightParen)

/-- `x <- []` -/
def asg3 : XExpr := .assign (idt 'x') (k .arrow) (.list0 (k .leftBracket) (k .rightBracket))

theorem cond_wf : cond.WF := by
  simp only [cond, XExpr.WF, XArgs.WF, XArgs.length]
  repeat' apply And.intro
  all_goals first | rfl | decide
theorem asg2_wf : asg2.WF := by
  simp only [asg2, XExpr.WF]
  repeat' apply And.intro
  all_goals first | rfl | decide
theorem count_wf : count.WF := by
  simp only [count, XExpr.WF, XArgs.WF, XArgs.length]
  repeat' apply And.intro
  all_goals first | rfl | decide
theorem asg3_wf : asg3.WF := by
  simp only [asg3, XExpr.WF]
  repeat' apply And.intro
  all_goals first | rfl | decide

def pcond : PExpr := PExpr.ofMin2 lp rp cond
def pasg2 : PExpr := PExpr.ofMin2 lp rp asg2
def pcount : PExpr := PExpr.ofFull2 lp rp count
def pasg3 : PExpr := PExpr.ofMin2 lp rp asg3

def prog2 : SSeq :=
  .cons (.ifs (k .if_) lp pcond rp (.block lbr (.cons (.expr pasg2 (some semi)) .nil) rbr)) <|
  .cons (.repeatTimes (k .repeat_) pcount (k .times) (.block lbr (.cons (.expr pasg3 none) .nil) rbr)) .nil

theorem prog2_syn : prog2.SynP (DocExpr lp rp) := by
  simp only [prog2, SSeq.SynP, SStmt.SynP]
  repeat' apply And.intro
  all_goals first
    | rfl
    | trivial
    | exact ⟨cond, cond_wf, Or.inl rfl⟩ | exact ⟨asg2, asg2_wf, Or.inl rfl⟩
    | exact ⟨count, count_wf, Or.inr rfl⟩ | exact ⟨asg3, asg3_wf, Or.inl rfl⟩
    | exact termOK_none | exact termOK_semi
    | decide
    | (intro _; rfl)
    | (intro h; cases h; done)

theorem prog2_wf : WFList false false (treeSeq prog2) := by
  simp [prog2, treeSeq, treeStmt, WFList, WFStmt, WFOpt]

theorem prog2_lit : ∀ t ∈ renderSeq prog2 ++ [kwTok .eof 0], LitOK t := fun t ht =>
  litOKb_sound (List.all_eq_true.mp (by decide +kernel : (renderSeq prog2 ++ [kwTok .eof 0]).all litOKb = true) t ht)

/-- the theorem applied: with the fuel of `runTokens` the program is parsed to the two statements of its derivation -/
theorem prog2_accepted :
    parse (parseFuel (renderSeq prog2 ++ [kwTok .eof 0]).length) (renderSeq prog2 ++ [kwTok .eof 0]) =
      .ok (treeSeq prog2) :=
  accepts_documented_grammar_full_expressions_run lp rp rfl rfl prog2 prog2_syn prog2_wf (kwTok .eof 0) rfl prog2_lit

/-- and the kernel agrees -/
example : (match parse 900 (renderSeq prog2 ++ [kwTok .eof 0]) with
    | .ok [.ifs (.access (.call _ [_, _] _ _ _ _) _ _ _ _) (.block _ [.expr (.set (.access _ _ _ _ _) _ _ _ _ (.call _ [] _ _ _ _) _)] _) none _ none,
           .repeatTimes (.call _ [.grouping (.list [_, _] _ _) _ _] _ _ _ _) (.block _ [.expr (.assign _ _ (.list [] _ _) _)] _) _ _ _] => true
    | _ => false) = true := by decide +kernel
example : (renderSeq prog2).length = 53 := by decide +kernel

end Demo09c

end Aplang
