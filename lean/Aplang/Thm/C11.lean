import Aplang.Thm.C02
import Aplang.Thm.C07
/-!
# C11 — diagnostics point into the source, at the construct that failed

The runtime-error sites of the evaluator (shared by model and reference semantics) and the byte range
each one labels: the operator token, the name token, the bracket interior, the argument list, the argument
span, the count / collection token. Token ranges are exact and on character boundaries by C07
(`lex_spans_exact`); the tokens stored in syntax-tree nodes are the source's tokens by C05 (`parse_sound`).
-/
namespace Aplang

/-- the interior of a bracket pair lies between the brackets -/
theorem interior_within (lb rb : Token) (h : lb.endOff ≤ rb.off) :
    lb.off ≤ (interior lb rb).1 ∧ (interior lb rb).1 + (interior lb rb).2 = rb.off := by
  simp only [interior, Token.endOff] at *
  omega

/-- an argument span lies between the two tokens that delimit the argument -/
theorem arg_span_within (l r : Token) (h : l.endOff ≤ r.off) :
    (spanBetween l r).1 = l.endOff ∧ (spanBetween l r).1 + (spanBetween l r).2 = r.off := by
  simp only [spanBetween, Token.endOff] at *
  exact ⟨trivial, by omega⟩

/-- arithmetic / type errors and division by zero are labelled at the operator token -/
theorem binop_error_at_operator (op : BinOp) (tok : Token) (a b : Value) (σ σ' : St) (e : RtErr)
    (h : binop op tok a b σ = .err e σ') : e.span = tok.span ∧ σ' = σ := by
  unfold binop at h
  split at h <;> try (cases h; done)
  all_goals first
    | (split at h <;> first | (cases h; done) | (cases h; exact ⟨rfl, rfl⟩))
    | (cases h; exact ⟨rfl, rfl⟩)
    | (cases hd : display σ b <;> rw [hd] at h <;> simp only [Res.bind] at h <;> first | (cases h; done) | skip
       all_goals (simp only [display] at hd; split at hd <;> cases hd))

theorem unop_error_at_operator (op : UnOp) (tok : Token) (v : Value) (σ σ' : St) (e : RtErr)
    (h : unop op tok v σ = .err e σ') : e.span = tok.span ∧ σ' = σ := by
  unfold unop at h
  split at h <;> first | (cases h; done) | (cases h; exact ⟨rfl, rfl⟩)

/-- index errors are labelled at the bracketed index; indexing a non-indexable at the token of the indexed expression -/
theorem index_read_error_span (l k : Value) (lt lb rb : Token) (σ σ' : St) (e : RtErr)
    (h : indexRead l k lt lb rb σ = .err e σ') :
    (e.span = interior lb rb ∨ e.span = lt.span) ∧ σ' = σ := by
  unfold indexRead at h
  repeat' split at h
  all_goals first | (cases h; done) | (cases h; exact ⟨Or.inl rfl, rfl⟩) | (cases h; exact ⟨Or.inr rfl, rfl⟩)

theorem index_write_error_span (l k v : Value) (lt lb rb : Token) (σ σ' : St) (e : RtErr)
    (h : indexWrite l k v lt lb rb σ = .err e σ') :
    (e.span = interior lb rb ∨ e.span = lt.span) ∧ σ' = σ := by
  unfold indexWrite at h
  repeat' split at h
  all_goals first | (cases h; done) | (cases h; exact ⟨Or.inl rfl, rfl⟩) | (cases h; exact ⟨Or.inr rfl, rfl⟩)

/-- an argument that cannot be cast is labelled with that argument's range -/
theorem cast_error_at_argument (v : Value) (sp : Span) (σ σ' : St) (e : RtErr) :
    (castNum v sp σ = .err e σ' → e.span = sp ∧ σ' = σ) ∧
    (castStr v sp σ = .err e σ' → e.span = sp ∧ σ' = σ) ∧
    (castList v sp σ = .err e σ' → e.span = sp ∧ σ' = σ) ∧
    (castMap v sp σ = .err e σ' → e.span = sp ∧ σ' = σ) ∧
    (castRobot v sp σ = .err e σ' → e.span = sp ∧ σ' = σ) := by
  refine ⟨?_, ?_, ?_, ?_, ?_⟩ <;> intro h
  · unfold castNum at h; split at h <;> first | (cases h; done) | (cases h; exact ⟨rfl, rfl⟩)
  · unfold castStr at h; split at h <;> first | (cases h; done) | (cases h; exact ⟨rfl, rfl⟩)
  · unfold castList at h; repeat' split at h
    all_goals first | (cases h; done) | (cases h; exact ⟨rfl, rfl⟩)
  · unfold castMap at h; repeat' split at h
    all_goals first | (cases h; done) | (cases h; exact ⟨rfl, rfl⟩)
  · unfold castRobot at h; repeat' split at h
    all_goals first | (cases h; done) | (cases h; exact ⟨rfl, rfl⟩)

/-- the sites in `expr`: an undefined variable / procedure is labelled at its name, a wrong argument count
at the argument list (the parentheses' interior) -/
theorem var_error_at_name (cfg : Cfg) (f : Nat) (name : Str) (tok : Token) (σ : St) (h : lookupVar σ name = none) :
    Spec.expr cfg (f+1) (.var name tok) σ = .err ⟨"Invalid Variable", tok.span⟩ σ := by
  simp only [Spec.expr, h]; rfl

theorem call_errors_labelled (cfg : Cfg) (f : Nat) (name : Str) (args spans tok lp rp) (σ : St) (vs : List Value) (σ1 : St)
    (ha : Spec.exprs cfg f args σ = .ok (vs, σ1)) :
    (σ1.procs.find? name = none →
      Spec.expr cfg (f+1) (.call name args spans tok lp rp) σ = .err ⟨"Invalid PROCEDURE", tok.span⟩ σ1) ∧
    (∀ params body, σ1.procs.find? name = some (.user params body) → params.length ≠ vs.length →
      Spec.expr cfg (f+1) (.call name args spans tok lp rp) σ =
        .err ⟨"Incorrect Number Of Args", interior lp rp⟩ σ1) ∧
    (∀ n, σ1.procs.find? name = some (.native n) → n.arity ≠ vs.length →
      Spec.expr cfg (f+1) (.call name args spans tok lp rp) σ =
        .err ⟨"Incorrect Number Of Args", interior lp rp⟩ σ1) := by
  refine ⟨?_, ?_, ?_⟩
  · intro h; simp only [Spec.expr, ha, Res.bind_ok, h]; rfl
  · intro params body h hne; simp only [Spec.expr, ha, Res.bind_ok, h]; simp [hne]; rfl
  · intro n h hne; simp only [Spec.expr, ha, Res.bind_ok, h]; simp [hne]; rfl

/-- every lexical diagnostic's labels lie in the source: offsets of the scanner are byte lengths of consumed prefixes
(`scanLoop_spans`); stated for the tokens the diagnostics of the parser point at -/
theorem token_labels_in_source (cfg : LexCfg) (src : Str) (t : Token) (ht : t ∈ (lex cfg src).tokens) (hne : t.tt ≠ .eof) :
    ∃ pre post, src = pre ++ t.lexeme ++ post ∧ ulen pre = t.span.1 ∧ ulen t.lexeme = t.span.2 :=
  lex_spans_exact cfg src t ht hne

end Aplang
