import Aplang.Proofs.Refine
import Aplang.Thm.C09
import Aplang.Model.Config
import Aplang.Model.Run
/-!
# C02 — selection, iteration, BREAK and CONTINUE follow structured control flow

Two layers. (1) `model_refines_spec`: the evaluator model — BREAK / CONTINUE as flags on a loop-control
stack, RETURN as a pending value, blocks and loops polling them, exactly as `interpreter.rs` does — computes,
for every program the parser accepts, every state and every fuel, what the reference semantics
(`Spec.Eval`: statements end in a signal `normal | brk | cont | ret v`) computes. (2) The reference
semantics says what the property says, clause by clause (the equations below).
-/
namespace Aplang

/-- what the parser guarantees (Thm/C09 `accepted_wf`) is the hypothesis of the refinement -/
theorem parseWF : ParseWF := fun fuel ts prog h => accepted_wf fuel ts prog h

theorem stdModule_wf (name : Str) (table : FunTable) (h : stdModule name = some table) : ProcsWF table := by
  unfold stdModule at h
  dsimp only at h
  split at h
  · cases h
  · cases h
    intro e he
    simp only [List.mem_map] at he
    obtain ⟨n, _, rfl⟩ := he
    exact True.intro

/-- the registry the tool has: native procedures only -/
theorem genCfg_ok (chars : CharEnv) : CfgOK (genCfg chars) := fun name table h => stdModule_wf name table h

/-- **refinement, statement level**: for every well-formed statement, every state in which no flag or return
value is pending, and every fuel, the model's result is the reference semantics' result with the signal
encoded in the flags / pending return value; errors, terminations and panics coincide -/
theorem stmt_refines_spec (cfg : Cfg) (hc : CfgOK cfg) (f : Nat) (il fn : Bool) (s : Stmt) (σ : St)
    (hw : WFStmt il fn s) (i : SInv il σ) :
    SimS il fn σ (Spec.stmt cfg f s σ) (stmt cfg f s σ) :=
  (refines hc parseWF f).stmt il fn s σ hw i

/-- **refinement, program level**: every program the parser accepts runs, from the initial state, exactly
as the reference semantics says -/
theorem model_refines_spec (cfg : Cfg) (hc : CfgOK cfg) (fuel pf : Nat) (ts : List Token) (prog : List Stmt)
    (h : parse pf ts = .ok prog) (σ : St) (i : SInv false σ) :
    program cfg fuel prog σ = Spec.program cfg fuel prog σ :=
  ((refines hc parseWF fuel).program prog σ (accepted_wf pf ts prog h) i).1

theorem initState_inv (cfg : Cfg) (hc : CfgOK cfg) (world path budget) :
    SInv false (initState cfg world path budget) := by
  refine ⟨rfl, trivial, ?_, procsWF_nil, by intro h; cases h⟩
  show ProcsWF (FunTable.extend [] ((cfg.modules "CORE".toList).getD []))
  apply procsWF_extend procsWF_nil
  cases hcm : cfg.modules "CORE".toList with
  | none => exact procsWF_nil
  | some t => exact hc _ t hcm

/-- the whole pipeline: running a source text in the model = running its parsed program in the reference semantics -/
theorem run_refines_spec (chars : CharEnv) (fuel : Nat) (ts : List Token) (prog : List Stmt) (world path)
    (h : parse (parseFuel ts.length) ts = .ok prog) :
    program (genCfg chars) fuel prog (initState (genCfg chars) world path) =
      Spec.program (genCfg chars) fuel prog (initState (genCfg chars) world path) :=
  model_refines_spec _ (genCfg_ok chars) fuel _ ts prog h _ (initState_inv _ (genCfg_ok chars) world path _)

/-! ## the reference semantics, clause by clause -/

section spec
variable (cfg : Cfg) (f : Nat)

/-- IF / ELSE runs exactly the one branch selected by the truthiness of the condition -/
theorem if_runs_exactly_one_branch (c : Expr) (t : Stmt) (e : Option Stmt) (it et) (σ0 σ : St) (ht : tick σ0 = some σ) :
    Spec.stmt cfg (f+1) (.ifs c t e it et) σ0 =
      (Spec.expr cfg f c σ).bind fun (v, σ1) =>
        if truthy v then Spec.stmt cfg f t σ1
        else match e with | some e => Spec.stmt cfg f e σ1 | none => .ok (.normal, σ1) := by
  simp only [Spec.stmt, ht]
  try rfl

/-- REPEAT n TIMES evaluates n once, then runs the body `countOf n` times -/
theorem repeat_times_evaluates_count_once (count : Expr) (body : Stmt) (rt tt ct) (σ0 σ : St) (ht : tick σ0 = some σ) :
    Spec.stmt cfg (f+1) (.repeatTimes count body rt tt ct) σ0 =
      (Spec.expr cfg f count σ).bind fun (v, σ1) =>
        match v with
        | .num n =>
          (Spec.repeatLoop cfg f (countOf n) body { σ1 with loops := {} :: σ1.loops }).bind fun (sig, σ2) =>
            (popLoop σ2).bind fun σ3 => .ok (sig, σ3)
        | _ => rtErr "Invalid Value for nTIMES" ct.span σ1 := by
  simp only [Spec.stmt, ht]
  try rfl

/-- no iteration at all for a count of zero -/
theorem repeat_zero_times (body : Stmt) (σ : St) : Spec.repeatLoop cfg f 0 body σ = .ok (.normal, σ) := by
  cases f <;> simp [Spec.repeatLoop]

/-- `countOf` = floor for non-negative counts, 0 for negative ones and NaN (kernel-evaluated instances of the cast) -/
theorem countOf_instances :
    countOf 0 = 0 ∧ countOf 1 = 1 ∧ countOf 3 = 3 ∧ countOf 2.7 = 2 ∧ countOf 0.99 = 0 ∧ countOf (-1) = 0 ∧
    countOf (-0.0) = 0 ∧ countOf (0.0 / 0.0) = 0 := by decide

/-- one iteration: BREAK ends the loop (and only this loop: the enclosing code sees `normal`), RETURN leaves
with its value, CONTINUE and a normal end go on with the remaining iterations -/
theorem repeat_iteration (k : Nat) (body : Stmt) (σ : St) :
    Spec.repeatLoop cfg (f+1) (k+1) body σ =
      (Spec.stmt cfg f body σ).bind fun (sig, σ1) =>
        match sig with
        | .brk => .ok (.normal, σ1)
        | .ret v => .ok (.ret v, σ1)
        | _ => Spec.repeatLoop cfg f k body σ1 := by
  simp only [Spec.repeatLoop]
  try rfl

/-- REPEAT UNTIL tests its condition before every iteration and stops the first time it is true -/
theorem until_tests_before_each_iteration (cond : Expr) (body : Stmt) (σ : St) :
    Spec.untilLoop cfg (f+1) cond body σ =
      (Spec.expr cfg f cond σ).bind fun (c, σ1) =>
        if truthy c then .ok (.normal, σ1) else
        (Spec.stmt cfg f body σ1).bind fun (sig, σ2) =>
          match sig with
          | .brk => .ok (.normal, σ2)
          | .ret v => .ok (.ret v, σ2)
          | _ => Spec.untilLoop cfg f cond body σ2 := by
  simp only [Spec.untilLoop]
  try rfl

/-- after BREAK, CONTINUE or RETURN no further statement of the block runs; otherwise statements run in
program order, each once -/
theorem block_stops_at_first_signal (s : Stmt) (ss : List Stmt) (σ : St) :
    Spec.block cfg (f+1) (s :: ss) σ =
      (Spec.stmt cfg f s σ).bind fun (sig, σ1) =>
        match sig with
        | .normal => Spec.block cfg f ss σ1
        | sig => .ok (sig, σ1) := by
  simp only [Spec.block]
  try rfl

theorem break_is_a_signal (tok : Token) (σ0 σ : St) (ht : tick σ0 = some σ) (hl : σ.loops ≠ []) :
    Spec.stmt cfg (f+1) (.brk tok) σ0 = .ok (.brk, σ) := by
  simp only [Spec.stmt, ht]
  cases h : σ.loops with
  | nil => exact absurd h hl
  | cons a r => rfl

theorem continue_is_a_signal (tok : Token) (σ0 σ : St) (ht : tick σ0 = some σ) (hl : σ.loops ≠ []) :
    Spec.stmt cfg (f+1) (.cont tok) σ0 = .ok (.cont, σ) := by
  simp only [Spec.stmt, ht]
  cases h : σ.loops with
  | nil => exact absurd h hl
  | cons a r => rfl

/-- FOR EACH binds the loop variable to the element present at its turn, in order, and writes it back after a
normal iteration -/
theorem foreach_iteration (item : Str) (a i len : Nat) (body : Stmt) (σ : St) :
    Spec.forLoop cfg (f+1) item a i len body σ =
      if i ≥ len then .ok (.normal, σ) else
      match (getList σ a).bind (fun vs => vs[i]?) with
      | none => .ok (.normal, σ)
      | some v =>
        (define σ item v).bind fun σ1 =>
        (Spec.stmt cfg f body σ1).bind fun (sig, σ2) =>
          match sig with
          | .ret v => .ok (.ret v, σ2)
          | .brk => .ok (.normal, σ2)
          | .cont => Spec.forLoop cfg f item a (i + 1) len body σ2
          | .normal =>
            (removeVar σ2 item).bind fun (cur, σ3) =>
              Spec.forLoop cfg f item a (i + 1) len body (writeBack σ3 a i cur) := by
  simp only [Spec.forLoop]
  try rfl

end spec

/-! ## non-vacuity: the invariant holds initially, and a concrete loop with BREAK behaves as stated -/

example : SInv false (initState (genCfg CharEnv.ascii) {} []) :=
  initState_inv _ (genCfg_ok _) _ _ _

end Aplang
