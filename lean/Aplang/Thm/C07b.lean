import Aplang.Proofs.LexicalSeg
import Aplang.Model.Config
/-!
# C07 (second part) — the scanner computes the lexical grammar's segmentation

`Spec.Lexical.Seg cfg src us` is the reference segmentation of `src` into lexical units (blank, newline,
comment, continuation, tokens of every class with maximal munch, and the six error units), written without
reference to the scanner.  Here:

* `seg_exists`, `seg_unique` (Proofs/LexicalSeg.lean): every string has exactly one segmentation;
* `lex_seg`: the tokens (kind, lexeme, literal) and the error classes `lex` reports are exactly the token
  units and the error units of the segmentation, in order; the statement-terminator rule is `unitToks`;
* `lex_error_iff`: tokenisation fails iff the segmentation contains an error unit;
* `lex_classes` and the per-class corollaries: identifiers / keywords / numbers (value = nearest double of
  the digits, maximal) / strings (escapes decoded);
* the statement-terminator rule.

All statements hold for every configuration `cfg` (keyword table, ender set, alphanumeric class) and every
source string; nothing is assumed about `cfg` except where `KwProper` is named.
-/
namespace Aplang
open Spec.Lexical

/-- kind, lexeme and literal of the end-of-input marker -/
def eofStrip : TT × Str × Lit := (.eof, "<EOF>".toList, .none)

/-- **the scanner computes the segmentation**: tokens and error classes of `lex` are those of the reference
segmentation, in order -/
theorem lex_seg (cfg : LexCfg) (src : Str) (us : List LUnit) (h : Seg cfg src us) :
    (lex cfg src).tokens.map strip = unitToks cfg none us ++ [eofStrip] ∧
    (lex cfg src).errors.map (·.kind) = unitErrs us := by
  have := scanLoop_seg cfg src 0 none 0 us h
  unfold lex
  simp only
  generalize scanLoop cfg src 0 none 0 = res at this
  obtain ⟨ts, es, ls⟩ := res
  simp only at this
  simp only [List.map_append, this.1, this.2, List.map_cons, List.map_nil, and_true]
  rfl

/-- the list of error classes `lex` reports is the list of error units of *the* segmentation -/
theorem lex_error_kinds (cfg : LexCfg) (src : Str) :
    ∃ us, Seg cfg src us ∧ (∀ us', Seg cfg src us' → us' = us) ∧
      (lex cfg src).errors.map (·.kind) = unitErrs us ∧
      (lex cfg src).tokens.map strip = unitToks cfg none us ++ [eofStrip] := by
  obtain ⟨us, h⟩ := seg_exists cfg src
  exact ⟨us, h, fun us' h' => seg_unique cfg src us' us h' h, (lex_seg cfg src us h).2, (lex_seg cfg src us h).1⟩

theorem unitErrs_ne_nil_iff (us : List LUnit) : unitErrs us ≠ [] ↔ ∃ u ∈ us, ∃ k, u.kind = .error k := by
  induction us with
  | nil => simp [unitErrs]
  | cons u us ih =>
    obtain ⟨k, text⟩ := u
    cases k <;> simp [unitErrs, ih]

/-- **tokenisation fails exactly when the string contains a lexical error**: a lone `!` or `=`, a `\` not
followed by a newline, a character in no class, an unknown escape, an unterminated string -/
theorem lex_error_iff (cfg : LexCfg) (src : Str) (us : List LUnit) (h : Seg cfg src us) :
    (lex cfg src).errors ≠ [] ↔ ∃ u ∈ us, ∃ k, u.kind = .error k := by
  rw [← unitErrs_ne_nil_iff, ← (lex_seg cfg src us h).2]
  simp

/-- the same without naming the segmentation -/
theorem lex_error_iff' (cfg : LexCfg) (src : Str) :
    (lex cfg src).errors ≠ [] ↔ ∃ us, Seg cfg src us ∧ ∃ u ∈ us, ∃ k, u.kind = .error k := by
  obtain ⟨us, h⟩ := seg_exists cfg src
  constructor
  · intro he; exact ⟨us, h, (lex_error_iff cfg src us h).mp he⟩
  · rintro ⟨us', h', he⟩; exact (lex_error_iff cfg src us' h').mpr he

/-- "fails with at least one diagnostic": `lex` reports as many diagnostics as there are error units -/
theorem lex_error_count (cfg : LexCfg) (src : Str) (us : List LUnit) (h : Seg cfg src us) :
    (lex cfg src).errors.length = (unitErrs us).length := by
  rw [← (lex_seg cfg src us h).2]; simp

/-! ## classes of the tokens -/

/-- every token of `lex` (but the end marker) sits at its offset in the source and is a token unit of the
grammar given the text that follows it — or is the terminator a newline stands for -/
theorem lex_classes (cfg : LexCfg) (src : Str) :
    ∀ t ∈ (lex cfg src).tokens.dropLast,
      ∃ pre post, src = pre ++ t.lexeme ++ post ∧ ulen pre = t.off ∧
        (IsUnit cfg (.token t.tt t.lit) t.lexeme post ∨
         (t.lexeme = ['\n'] ∧ t.tt = .softSemi ∧ t.lit = .none)) := by
  intro t ht
  unfold lex at ht
  simp only at ht
  generalize hsl : scanLoop cfg src 0 none 0 = res at ht
  obtain ⟨ts, es, ls⟩ := res
  simp only [List.dropLast_concat] at ht
  obtain ⟨pre, c, cs, prev', r, hw, hoff, hone⟩ :=
    scanLoop_token_origin cfg src src 0 none 0 [] (by simp) (by simp) t (by rw [hsl]; exact ht)
  obtain ⟨used, hused, _, _, htok⟩ := scanOne_consumes cfg prev' t.off c cs
  have hl := (htok t r hone).1
  rw [hone] at hused
  simp only [Step.rest] at hused
  refine ⟨pre, r, by rw [hw, hused, hl]; simp, hoff, ?_⟩
  rcases scanOne_tok_unit cfg prev' t.off c cs t r hone with ⟨_, hu⟩ | ⟨_, _, ht', _⟩
  · exact Or.inl hu
  · right; rw [ht']; exact ⟨rfl, rfl, rfl⟩

/-- an identifier: first character alphanumeric and not a digit, then alphanumerics or `_`, maximal, not a
keyword; no literal -/
theorem isUnit_identifier_inv {cfg : LexCfg} (hk : KwProper cfg) {lit text post}
    (h : IsUnit cfg (.token .identifier lit) text post) :
    ∃ c cs, text = c :: cs ∧ wordStart cfg c = true ∧ (∀ d ∈ cs, wordChar cfg d = true) ∧
      startsWith (wordChar cfg) post = false ∧ cfg.kw text = none ∧ lit = .none := by
  cases h with
  | punct c tt rest hm => simp [punct] at hm
  | op2 a b tt rest hm => simp [op2] at hm
  | keyword c cs k rest hs hall hr hkw => have := hk _ _ hkw; simp [isKeywordKind] at this
  | identifier c cs rest hs hall hr hkw => exact ⟨c, cs, rfl, hs, hall, hr, hkw, rfl⟩

/-- a keyword: spelled like an identifier, and the table maps the spelling to the kind -/
theorem isUnit_keyword_inv {cfg : LexCfg} {k lit text post} (hkk : isKeywordKind k = true)
    (h : IsUnit cfg (.token k lit) text post) :
    ∃ c cs, text = c :: cs ∧ wordStart cfg c = true ∧ (∀ d ∈ cs, wordChar cfg d = true) ∧
      startsWith (wordChar cfg) post = false ∧ cfg.kw text = some k ∧ lit = .none := by
  cases h with
  | punct c tt rest hm =>
    simp only [punct, List.mem_cons, Prod.mk.injEq, List.not_mem_nil, or_false] at hm
    rcases hm with ⟨_, rfl⟩ | ⟨_, rfl⟩ | ⟨_, rfl⟩ | ⟨_, rfl⟩ | ⟨_, rfl⟩ | ⟨_, rfl⟩ | ⟨_, rfl⟩ | ⟨_, rfl⟩ |
      ⟨_, rfl⟩ | ⟨_, rfl⟩ | ⟨_, rfl⟩ | ⟨_, rfl⟩ <;> simp [isKeywordKind] at hkk
  | op2 a b tt rest hm =>
    simp only [op2, List.mem_cons, Prod.mk.injEq, List.not_mem_nil, or_false] at hm
    rcases hm with ⟨_, _, rfl⟩ | ⟨_, _, rfl⟩ | ⟨_, _, rfl⟩ | ⟨_, _, rfl⟩ | ⟨_, _, rfl⟩ <;>
      simp [isKeywordKind] at hkk
  | less | greater | slash | numberInt | numberFrac | string | identifier => simp [isKeywordKind] at hkk
  | keyword c cs k rest hs hall hr hkw => exact ⟨c, cs, rfl, hs, hall, hr, hkw, rfl⟩

/-- a number: `digits` or `digits.digits`, maximal (the next character is not a digit; a `.` after the integer
form is not followed by a digit); its literal is `Float.ofScientific` of the digits — the nearest double -/
theorem isUnit_number_inv {cfg : LexCfg} (hk : KwProper cfg) {lit text post}
    (h : IsUnit cfg (.token .number lit) text post) :
    ∃ ds fs, IsDigits ds ∧ lit = .num (numberValue ds fs) ∧ startsWith isAsciiDigit post = false ∧
      ((fs = [] ∧ text = ds ∧ ∀ r, post = '.' :: r → startsWith isAsciiDigit r = false) ∨
       (IsDigits fs ∧ text = ds ++ '.' :: fs)) := by
  cases h with
  | punct c tt rest hm => simp [punct] at hm
  | op2 a b tt rest hm => simp [op2] at hm
  | keyword c cs k rest hs hall hr hkw => have := hk _ _ hkw; simp [isKeywordKind] at this
  | numberInt ds rest hd hr hdot => exact ⟨text, [], hd, rfl, hr, Or.inl ⟨rfl, rfl, hdot⟩⟩
  | numberFrac ds fs rest hd hf hr => exact ⟨ds, fs, hd, rfl, hr, Or.inr ⟨hf, rfl⟩⟩

/-- a string literal: quote, body, quote; its literal is the decoded body -/
theorem isUnit_string_inv {cfg : LexCfg} (hk : KwProper cfg) {lit text post}
    (h : IsUnit cfg (.token .stringLiteral lit) text post) :
    ∃ body v, text = '"' :: body ++ ['"'] ∧ decode body = some v ∧ lit = .str v := by
  cases h with
  | punct c tt rest hm => simp [punct] at hm
  | op2 a b tt rest hm => simp [op2] at hm
  | keyword c cs k rest hs hall hr hkw => have := hk _ _ hkw; simp [isKeywordKind] at this
  | string body v rest hd => exact ⟨body, v, rfl, hd, rfl⟩

/-! ### the same at the level of `lex` -/

theorem lex_identifier (cfg : LexCfg) (hk : KwProper cfg) (src : Str) :
    ∀ t ∈ (lex cfg src).tokens.dropLast, t.tt = .identifier →
      ∃ pre post c cs, src = pre ++ t.lexeme ++ post ∧ ulen pre = t.off ∧ t.lexeme = c :: cs ∧
        wordStart cfg c = true ∧ (∀ d ∈ cs, wordChar cfg d = true) ∧ startsWith (wordChar cfg) post = false ∧
        cfg.kw t.lexeme = none ∧ t.lit = .none := by
  intro t ht hid
  obtain ⟨pre, post, hsrc, hoff, hu | ⟨_, hs, _⟩⟩ := lex_classes cfg src t ht
  · rw [hid] at hu
    obtain ⟨c, cs, h1, h2, h3, h4, h5, h6⟩ := isUnit_identifier_inv hk hu
    exact ⟨pre, post, c, cs, hsrc, hoff, h1, h2, h3, h4, h5, h6⟩
  · rw [hid] at hs; cases hs

theorem lex_keyword (cfg : LexCfg) (src : Str) :
    ∀ t ∈ (lex cfg src).tokens.dropLast, isKeywordKind t.tt = true →
      ∃ pre post c cs, src = pre ++ t.lexeme ++ post ∧ ulen pre = t.off ∧ t.lexeme = c :: cs ∧
        wordStart cfg c = true ∧ (∀ d ∈ cs, wordChar cfg d = true) ∧ startsWith (wordChar cfg) post = false ∧
        cfg.kw t.lexeme = some t.tt ∧ t.lit = .none := by
  intro t ht hkk
  obtain ⟨pre, post, hsrc, hoff, hu | ⟨_, hs, _⟩⟩ := lex_classes cfg src t ht
  · obtain ⟨c, cs, h1, h2, h3, h4, h5, h6⟩ := isUnit_keyword_inv hkk hu
    exact ⟨pre, post, c, cs, hsrc, hoff, h1, h2, h3, h4, h5, h6⟩
  · rw [hs] at hkk; cases hkk

/-- number tokens: lexeme `ds` or `ds.fs`, value the nearest double of the digits, maximal -/
theorem lex_number (cfg : LexCfg) (hk : KwProper cfg) (src : Str) :
    ∀ t ∈ (lex cfg src).tokens.dropLast, t.tt = .number →
      ∃ pre post ds fs, src = pre ++ t.lexeme ++ post ∧ ulen pre = t.off ∧ IsDigits ds ∧
        t.lit = .num (numberValue ds fs) ∧ startsWith isAsciiDigit post = false ∧
        ((fs = [] ∧ t.lexeme = ds ∧ ∀ r, post = '.' :: r → startsWith isAsciiDigit r = false) ∨
         (IsDigits fs ∧ t.lexeme = ds ++ '.' :: fs)) := by
  intro t ht hid
  obtain ⟨pre, post, hsrc, hoff, hu | ⟨_, hs, _⟩⟩ := lex_classes cfg src t ht
  · rw [hid] at hu
    obtain ⟨ds, fs, h1, h2, h3, h4⟩ := isUnit_number_inv hk hu
    exact ⟨pre, post, ds, fs, hsrc, hoff, h1, h2, h3, h4⟩
  · rw [hid] at hs; cases hs

/-- string tokens: the literal is the body with the escapes `\n \r \t \\ \"` decoded -/
theorem lex_string (cfg : LexCfg) (hk : KwProper cfg) (src : Str) :
    ∀ t ∈ (lex cfg src).tokens.dropLast, t.tt = .stringLiteral →
      ∃ body v, t.lexeme = '"' :: body ++ ['"'] ∧ decode body = some v ∧ t.lit = .str v := by
  intro t ht hid
  obtain ⟨pre, post, hsrc, hoff, hu | ⟨_, hs, _⟩⟩ := lex_classes cfg src t ht
  · rw [hid] at hu
    exact isUnit_string_inv hk hu
  · rw [hid] at hs; cases hs

/-- `scanString` computes `decode` (the two directions, from Proofs/LexicalSeg.lean) -/
theorem scanString_decodes (body v rest : Str) (h : decode body = some v) :
    scanString (body ++ '"' :: rest) = .ok v (body ++ ['"']) rest := scanString_ok body v rest h

theorem scanString_ok_inv (s v consumed rest : Str) (h : scanString s = .ok v consumed rest) :
    ∃ body, consumed = body ++ ['"'] ∧ s = body ++ '"' :: rest ∧ decode body = some v := by
  have h1 := scanString_spec s
  have h2 := scanString_split s
  rw [h] at h1 h2
  obtain ⟨body, rfl, hb⟩ := h1
  exact ⟨body, rfl, by simpa [StrRes.consumed, StrRes.rest] using h2.symm, hb⟩

/-- the five escapes and nothing else -/
theorem unescape_table : ∀ e, unescape e =
    if e = 'n' then some '\n' else if e = 'r' then some '\r' else if e = 't' then some '\t'
    else if e = '\\' then some '\\' else if e = '"' then some '"' else none := by
  intro e; rw [← dec_eq]; simp only [beq_iff_eq]

/-! ## the statement-terminator rule -/

/-- `;` always produces a terminator -/
theorem scanOne_semicolon (cfg : LexCfg) (prev : Option TT) (pos : Nat) (cs : Str) :
    scanOne cfg prev pos ';' cs = .tok (mkTok .softSemi [';'] .none pos) cs := rfl

/-- a newline produces a terminator iff a previous token exists and its kind is a statement ender;
otherwise it produces nothing -/
theorem scanOne_newline_iff (cfg : LexCfg) (prev : Option TT) (pos : Nat) (cs : Str) :
    (prev.any cfg.ender = true → scanOne cfg prev pos '\n' cs = .tok (mkTok .softSemi ['\n'] .none pos) cs) ∧
    (prev.any cfg.ender = false → scanOne cfg prev pos '\n' cs = .skip 1 cs) := by
  rw [scanOne_newline]
  cases prev with
  | none => simp; rfl
  | some p => cases hp : cfg.ender p <;> simp [hp] <;> rfl

theorem unitToks_append (cfg : LexCfg) (prev : Option TT) (us vs : List LUnit) :
    unitToks cfg prev (us ++ vs) = unitToks cfg prev us ++ unitToks cfg (lastTT cfg prev us) vs := by
  induction us generalizing prev with
  | nil => rfl
  | cons u us ih =>
    obtain ⟨k, text⟩ := u
    cases k with
    | token tt lit => simp [unitToks, lastTT, ih]
    | newline =>
      simp only [List.cons_append, unitToks, lastTT]
      split <;> simp [ih]
    | blank => simp [unitToks, lastTT, ih]
    | comment => simp [unitToks, lastTT, ih]
    | continuation => simp [unitToks, lastTT, ih]
    | error e => simp [unitToks, lastTT, ih]

/-- `lastTT` is the kind of the last token produced so far -/
theorem lastTT_eq (cfg : LexCfg) (prev : Option TT) (us : List LUnit) :
    lastTT cfg prev us = (((unitToks cfg prev us).getLast?).map (·.1)).or prev := by
  have key : ∀ (x : TT × Str × Lit) (l : List (TT × Str × Lit)) (p : Option TT),
      (((x :: l).getLast?).map (·.1)).or p = ((l.getLast?).map (·.1)).or (some x.1) := by
    intro x l p
    rw [List.getLast?_cons]
    cases l.getLast? <;> simp
  induction us generalizing prev with
  | nil => simp [lastTT, unitToks]
  | cons u us ih =>
    obtain ⟨k, text⟩ := u
    cases k with
    | token tt lit => simp only [unitToks, lastTT, ih, key]
    | newline =>
      simp only [unitToks, lastTT]
      split
      · simp only [ih, key]
      · exact ih prev
    | blank => simpa [unitToks, lastTT] using ih prev
    | comment => simpa [unitToks, lastTT] using ih prev
    | continuation => simpa [unitToks, lastTT] using ih prev
    | error e => simpa [unitToks, lastTT] using ih prev

/-- **terminator rule for `lex`**: where the segmentation has a newline unit, the token list has a `softSemi`
iff the last token before it is a statement ender; otherwise the newline leaves no trace -/
theorem lex_newline_rule (cfg : LexCfg) (src : Str) (us vs : List LUnit) (text : Str)
    (h : Seg cfg src (us ++ ⟨.newline, text⟩ :: vs)) :
    (lex cfg src).tokens.map strip =
      unitToks cfg none us ++
        (if (lastTT cfg none us).any cfg.ender then
            (.softSemi, text, .none) :: unitToks cfg (some .softSemi) vs
          else unitToks cfg (lastTT cfg none us) vs) ++ [eofStrip] := by
  rw [(lex_seg cfg src _ h).1, unitToks_append]
  simp only [unitToks]

/-- … and a `;` unit always yields one -/
theorem lex_semicolon_rule (cfg : LexCfg) (src : Str) (us vs : List LUnit)
    (h : Seg cfg src (us ++ ⟨.token .softSemi .none, [';']⟩ :: vs)) :
    (lex cfg src).tokens.map strip =
      unitToks cfg none us ++ (.softSemi, [';'], .none) :: unitToks cfg (some .softSemi) vs ++ [eofStrip] := by
  rw [(lex_seg cfg src _ h).1, unitToks_append]
  simp only [unitToks, List.append_assoc, List.cons_append]

/-! ## the live keyword table -/

theorem genKw_proper (isAlnum) : KwProper (genLexCfg isAlnum) := by
  intro s k h
  have hall : Gen.keywords.all (fun e => isKeywordKind e.2) = true := by decide
  simp only [genLexCfg, genKw, Option.map_eq_some_iff] at h
  obtain ⟨e, he, rfl⟩ := h
  exact List.all_eq_true.mp hall e (List.mem_of_find?_eq_some he)

/-! ## non-vacuity -/

/-- a small self-contained configuration for the examples (does not depend on the extracted tables) -/
def exCfg : LexCfg where
  kw s := if s = ['I', 'F'] then some .if_ else none
  ender t := t == .identifier || t == .number || t == .stringLiteral
  isAlnum := Char.isAlphanum

/-- `IF x1<=2.50 // c⏎"a\n"\⏎;` : keyword, blank, identifier, two-character operator, number with fraction,
comment, newline, string with an escape, continuation, terminator -/
example : Seg exCfg
    ['I','F',' ','x','1','<','=','2','.','5','0',' ','/','/',' ','c','\n','"','a','\\','n','"','\\','\n',';']
    [⟨.token .if_ .none, ['I','F']⟩, ⟨.blank, [' ']⟩, ⟨.token .identifier .none, ['x','1']⟩,
     ⟨.token .lessEqual .none, ['<','=']⟩, ⟨.token .number (.num (numberValue ['2'] ['5','0'])), ['2','.','5','0']⟩,
     ⟨.blank, [' ']⟩, ⟨.comment, ['/','/',' ','c']⟩, ⟨.newline, ['\n']⟩,
     ⟨.token .stringLiteral (.str ['a','\n']), ['"','a','\\','n','"']⟩, ⟨.continuation, ['\\','\n']⟩,
     ⟨.token .softSemi .none, [';']⟩] :=
  .cons _ ['I','F'] _ _ (.keyword 'I' ['F'] .if_ _ (by decide) (by decide) (by decide) (by decide)) <|
  .cons _ [' '] _ _ (.blank ' ' _ (by decide)) <|
  .cons _ ['x','1'] _ _ (.identifier 'x' ['1'] _ (by decide) (by decide) (by decide) (by decide)) <|
  .cons _ ['<','='] _ _ (.op2 '<' '=' .lessEqual _ (by decide)) <|
  .cons _ ['2','.','5','0'] _ _ (.numberFrac ['2'] ['5','0'] _ ⟨by simp, by decide⟩ ⟨by simp, by decide⟩ (by decide)) <|
  .cons _ [' '] _ _ (.blank ' ' _ (by decide)) <|
  .cons _ ['/','/',' ','c'] _ _ (.comment [' ','c'] _ (by decide) (by decide)) <|
  .cons _ ['\n'] _ _ (.newline _) <|
  .cons _ ['"','a','\\','n','"'] _ _ (.string ['a','\\','n'] ['a','\n'] _ (by decide)) <|
  .cons _ ['\\','\n'] _ _ (.continuation _) <|
  .cons _ [';'] _ _ (.punct ';' .softSemi _ (by decide)) .nil

/-- `1.x`: the dot is not part of the number (maximal munch stops, `.` is a token of its own) -/
example : Seg exCfg ['1','.','x']
    [⟨.token .number (.num (numberValue ['1'] [])), ['1']⟩, ⟨.token .dot .none, ['.']⟩,
     ⟨.token .identifier .none, ['x']⟩] :=
  .cons _ ['1'] _ _ (.numberInt ['1'] _ ⟨by simp, by decide⟩ (by decide) (by intro r e; cases e; decide)) <|
  .cons _ ['.'] _ _ (.punct '.' .dot _ (by decide)) <|
  .cons _ ['x'] _ _ (.identifier 'x' [] _ (by decide) (by decide) (by decide) (by decide)) .nil

/-- the error units: `a=!_\ "b\q"c` : lone `=`, lone `!`, `_` in no class, `\` before a blank, unknown escape
(the unit ends after the backslash; `q` is then an identifier), unterminated string -/
theorem ex_errors_seg : Seg exCfg ['a','=','!','_','\\',' ','"','b','\\','q','"','c']
    [⟨.token .identifier .none, ['a']⟩, ⟨.error .loneEq, ['=']⟩, ⟨.error .loneBang, ['!']⟩,
     ⟨.error .unknownSymbol, ['_']⟩, ⟨.error .badBackslash, ['\\']⟩, ⟨.blank, [' ']⟩,
     ⟨.error .badEscape, ['"','b','\\']⟩, ⟨.token .identifier .none, ['q']⟩,
     ⟨.error .unterminated, ['"','c']⟩] :=
  .cons _ ['a'] _ _ (.identifier 'a' [] _ (by decide) (by decide) (by decide) (by decide)) <|
  .cons _ ['='] _ _ (.loneEq _ (by decide)) <|
  .cons _ ['!'] _ _ (.loneBang _ (by decide)) <|
  .cons _ ['_'] _ _ (.unknownSymbol '_' _ (by decide)) <|
  .cons _ ['\\'] _ _ (.badBackslash _ (by decide)) <|
  .cons _ [' '] _ _ (.blank ' ' _ (by decide)) <|
  .cons _ ['"','b','\\'] _ _ (.badEscape ['b'] _ (by decide) (by decide)) <|
  .cons _ ['q'] _ _ (.identifier 'q' [] _ (by decide) (by decide) (by decide) (by decide)) <|
  .cons _ ['"','c'] _ _ (.unterminated ['c'] (by decide)) .nil

/-- hence `lex` reports exactly these five error classes on that string, in this order -/
example : (lex exCfg ['a','=','!','_','\\',' ','"','b','\\','q','"','c']).errors.map (·.kind) =
    [.loneEq, .loneBang, .unknownSymbol, .badBackslash, .badEscape, .unterminated] :=
  (lex_seg exCfg _ _ ex_errors_seg).2

/-- terminator rule, both ways: `x⏎+⏎` — the first newline (after an identifier) is a terminator, the
second (after `+`) is not -/
theorem ex_newline_seg : Seg exCfg ['x','\n','+','\n']
    [⟨.token .identifier .none, ['x']⟩, ⟨.newline, ['\n']⟩, ⟨.token .plus .none, ['+']⟩, ⟨.newline, ['\n']⟩] :=
  .cons _ ['x'] _ _ (.identifier 'x' [] _ (by decide) (by decide) (by decide) (by decide)) <|
  .cons _ ['\n'] _ _ (.newline _) <|
  .cons _ ['+'] _ _ (.punct '+' .plus _ (by decide)) <|
  .cons _ ['\n'] _ _ (.newline _) .nil

example : (lex exCfg ['x','\n','+','\n']).tokens.map (fun t => (t.tt, t.lexeme)) =
    [(.identifier, ['x']), (.softSemi, ['\n']), (.plus, ['+']), (.eof, "<EOF>".toList)] := by
  have := (lex_seg exCfg _ _ ex_newline_seg).1
  have h2 := congrArg (List.map (fun x : TT × Str × Lit => (x.1, x.2.1))) this
  simp only [List.map_map] at h2
  exact h2

/-- observation (reported): a continuation in a CRLF file — `\` CR LF — is a lexical error: the backslash is not
*directly* followed by the newline; the CR is then a blank and the LF a newline -/
example : Seg exCfg ['x', '\\', '\r', '\n']
    [⟨.token .identifier .none, ['x']⟩, ⟨.error .badBackslash, ['\\']⟩, ⟨.blank, ['\r']⟩, ⟨.newline, ['\n']⟩] :=
  .cons _ ['x'] _ _ (.identifier 'x' [] _ (by decide) (by decide) (by decide) (by decide)) <|
  .cons _ ['\\'] _ _ (.badBackslash _ (by decide)) <|
  .cons _ ['\r'] _ _ (.blank '\r' _ (by decide)) <|
  .cons _ ['\n'] _ _ (.newline _) .nil

example (cfg : LexCfg) (prev : Option TT) (pos : Nat) (cs : Str) :
    scanOne cfg prev pos '\\' ('\r' :: '\n' :: cs) = .err ⟨.badBackslash, [(pos, 1)]⟩ 1 ('\r' :: '\n' :: cs) := rfl

/-- observation (reported): a character that is alphanumeric but not an ASCII digit — e.g. a non-ASCII digit such
as `٣` (U+0663) or `½`, for Unicode's `is_alphanumeric` — starts an identifier -/
example (cfg : LexCfg) (c : Char) (h1 : cfg.isAlnum c = true) (h2 : isAsciiDigit c = false)
    (h3 : isSpecial c = false) (rest : Str) (h4 : startsWith (wordChar cfg) rest = false)
    (h5 : cfg.kw [c] = none) : IsUnit cfg (.token .identifier .none) [c] rest :=
  .identifier c [] rest (by simp [wordStart, h1, h2, h3]) (by simp) h4 h5

end Aplang
