import Aplang.Proofs.ParserFuel
import Aplang.Proofs.ParserStable
import Aplang.Thm.C08
import Aplang.Model.Run
/-!
# C08b — the parser's fuel is adequate: parsing terminates with a tree or with diagnostics

The parser model is structurally recursive on a fuel argument (the counterpart of the native stack and of
the iteration count of the `while` loops); `.fuel` is an outcome of its own. `runTokens` calls
`parse (parseFuel tokens.length) tokens` with `parseFuel n = 16 * n + 64`.

`parse_fuel_adequate`: for every token list the lexer can produce this fuel is never exhausted. The budget
actually needed is `12 * n + 14` (`parse_fuel_bound`): 12 = the longest chain of calls between two token
consumptions (`primary` consumes `[`, then `listItems → expression → assignment → orE → andE → binLevel × 4 →
unary → access → primary`), 14 = `parseLoop → declaration → statement → expressionStatement / expression …`
down to `primary` on the first token. So the model's constant (16, 64) is adequate, with room to spare;
no counterexample exists. `fuel_is_needed` shows that a bound linear in the number of tokens is necessary
(a list literal nested `k` deep, `2 * k + 1` tokens, needs `12 * k + 2` units).

Together with `parse_no_panic`, `parse_dichotomy` (C08) and `lex_tokens_ok`: the front end of `run` ends in a
lexical error count, in ≥ 1 parser diagnostic, or in a syntax tree that is handed to the interpreter
(`front_end_total`) — never in a parser panic, never in parser fuel exhaustion.
-/
namespace Aplang
open P

theorem parseLoop_nf : ∀ f stmts errs s, Good s → 12 * s.after.length + 14 ≤ f →
    parseLoop f stmts errs s ≠ .fuel
  | 0, _, _, _, _, h => by omega
  | f+1, stmts, errs, s, g, hb => by
    simp only [parseLoop]
    have hi := isAtEnd_safe g
    cases he : isAtEnd s with
    | panic m => simp
    | fuel => exact absurd he (isAtEnd_nf s)
    | err e s' => simp
    | ok b s1 =>
      rw [he] at hi
      obtain ⟨g1, _, rfl, t0, r0, h0, hb0⟩ := hi
      cases b with
      | true => simp only; split <;> simp
      | false =>
        simp only
        have hm := matchToken_safe g1 .softSemi
        cases hms : matchToken .softSemi s1 with
        | panic m => simp
        | fuel => exact absurd hms (matchToken_nf _ _)
        | err e s' => simp
        | ok m s2 =>
          rw [hms] at hm
          obtain ⟨g2, _, hm1, hm2, _⟩ := hm
          cases m with
          | some _ =>
            have l2 := matchToken_some_len hms
            exact parseLoop_nf f stmts errs s2 g2 (by omega)
          | none =>
            simp only
            have e2 := hm2 rfl; subst e2
            have hd := declaration_fewer f s2 g2
            cases hds : declaration f s2 with
            | panic m => simp
            | fuel => exact absurd hds (declaration_nf f s2 g2 (by omega))
            | ok st s3 =>
              rw [hds] at hd
              have l3 := hd.2.2
              exact parseLoop_nf f _ errs s3 hd.1 (by omega)
            | err e s3 =>
              rw [hds] at hd
              obtain ⟨g3, pr3⟩ := hd
              have hsync : NB s3 ∨ ∃ t r, s3.after = t :: r ∧ (t.tt == .eof) = false := by
                rcases pr3 with ⟨_, h⟩ | ⟨ha, _⟩
                · exact Or.inl h
                · exact Or.inr ⟨t0, r0, by rw [ha, h0], hb0.symm⟩
              have hs := synchronize_safe f s3 g3 hsync
              have l3 := pr3.len_le
              simp only
              cases hss : synchronize f s3 with
              | panic m => simp
              | fuel => exact absurd hss (synchronize_nf f s3 g3 hsync (by omega))
              | ok u s4 =>
                rw [hss] at hs
                have l4 := recovery_progress f s2 e s3 u s4 g2 t0 r0 h0 hb0.symm hds hss
                exact parseLoop_nf f stmts _ s4 hs.1 (by omega)
              | err e s4 => simp

/-- **the budget the parser needs**: 12 units of fuel per token plus 14 are never exhausted -/
theorem parse_fuel_bound (fuel : Nat) (ts : List Token) (h : TokensOK ts) (hf : 12 * ts.length + 14 ≤ fuel) :
    parse fuel ts ≠ .fuel := by
  unfold parse
  exact parseLoop_nf fuel [] [] ⟨[], ts, false, false⟩ h hf

/-- **fuel adequacy**: the fuel `runTokens` gives the parser, `parseFuel n = 16 * n + 64`, is never
exhausted on a token list that ends with an end-of-input token and whose literal tokens carry their
literals (`TokensOK`: what the lexer guarantees, `lex_tokens_ok`) -/
theorem parse_fuel_adequate (ts : List Token) (h : TokensOK ts) : parse (parseFuel ts.length) ts ≠ .fuel :=
  parse_fuel_bound _ ts h (by unfold parseFuel; omega)

/-- with the fuel of `runTokens`, parsing yields a syntax tree or a non-empty list of diagnostics -/
theorem parse_total (ts : List Token) (h : TokensOK ts) :
    (∃ prog, parse (parseFuel ts.length) ts = .ok prog) ∨
    (∃ e es, parse (parseFuel ts.length) ts = .errs (e :: es)) := by
  rcases parse_dichotomy (parseFuel ts.length) ts h with h1 | h2 | h3
  · exact Or.inl h1
  · exact Or.inr h2
  · exact absurd h3 (parse_fuel_adequate ts h)

/-- **the amount of fuel is irrelevant** from the proved bound on: every fuel `g ≥ 12 * n + 14` gives the
answer `runTokens` gets with `parseFuel n` (`parse_stable`, `Proofs/ParserStable`: more fuel never changes an
outcome other than `.fuel`) — the fuel argument is a proof device, not a parameter of the behaviour -/
theorem parse_fuel_irrelevant (ts : List Token) (h : TokensOK ts) (g : Nat) (hg : 12 * ts.length + 14 ≤ g) :
    parse g ts = parse (parseFuel ts.length) ts := by
  have hb := parse_fuel_bound (12 * ts.length + 14) ts h (Nat.le_refl _)
  have h2 : 12 * ts.length + 14 ≤ parseFuel ts.length := by unfold parseFuel; omega
  rw [parse_stable hg ts hb, parse_stable h2 ts hb]

/-- what `runTokens` does with the interpreter's result -/
def execOut : Res St → RunOut
  | .ok σ => ⟨.ok, σ.output, some σ⟩
  | .err e σ => ⟨.rtErr e, σ.output, some σ⟩
  | .terminate w σ => ⟨.terminate w, σ.output, some σ⟩
  | .panic p out => ⟨.panic p, out.reverse.flatten, none⟩
  | .fuel => ⟨.fuel, [], none⟩

/-- **`runTokens` never ends in the parser's fuel exhaustion or in a parser panic**: it reports ≥ 1 syntax
diagnostics, or the parser returned a tree and the outcome is the interpreter's -/
theorem runTokens_parse_never_out_of_fuel (cfg : Cfg) (fuel : Nat) (ts : List Token) (world : World) (fp : Str)
    (h : TokensOK ts) :
    (∃ e es, parse (parseFuel ts.length) ts = .errs (e :: es) ∧
      runTokens cfg fuel ts world fp = ⟨.parseErr (es.length + 1), [], none⟩) ∨
    (∃ prog, parse (parseFuel ts.length) ts = .ok prog ∧
      runTokens cfg fuel ts world fp = execOut (program cfg fuel prog (initState cfg world fp))) := by
  rcases parse_total ts h with ⟨prog, hp⟩ | ⟨e, es, hp⟩
  · refine Or.inr ⟨prog, hp, ?_⟩
    unfold runTokens
    rw [hp]
    simp only [execOut]
    cases program cfg fuel prog (initState cfg world fp) <;> rfl
  · refine Or.inl ⟨e, es, hp, ?_⟩
    unfold runTokens
    rw [hp]
    simp

/-- **the front end is total**: for every source text, `run` ends with a lexical error count, or the parser
(with the fuel `run` gives it) reports at least one diagnostic, or it returns a syntax tree and the outcome
is the interpreter's. `KwPlain`: no keyword is spelled as a literal or end-of-input kind (true of the live
table: `genKw_plain`). -/
theorem front_end_total (cfg : Cfg) (hk : KwPlain cfg.lex) (fuel : Nat) (src : Str) (world : World) (fp : Str) :
    ((lex cfg.lex src).errors ≠ [] ∧
      run cfg fuel src world fp = ⟨.lexErr (lex cfg.lex src).errors.length, [], none⟩) ∨
    ((lex cfg.lex src).errors = [] ∧ ∃ e es,
      parse (parseFuel (lex cfg.lex src).tokens.length) (lex cfg.lex src).tokens = .errs (e :: es) ∧
      run cfg fuel src world fp = ⟨.parseErr (es.length + 1), [], none⟩) ∨
    ((lex cfg.lex src).errors = [] ∧ ∃ prog,
      parse (parseFuel (lex cfg.lex src).tokens.length) (lex cfg.lex src).tokens = .ok prog ∧
      run cfg fuel src world fp = execOut (program cfg fuel prog (initState cfg world fp))) := by
  have hok := lex_tokens_ok cfg.lex hk src
  unfold run
  cases herr : (lex cfg.lex src).errors with
  | cons e es => exact Or.inl ⟨by simp, by simp [herr]⟩
  | nil =>
    rcases runTokens_parse_never_out_of_fuel cfg fuel _ world fp hok with ⟨e, es, hp, hr⟩ | ⟨prog, hp, hr⟩
    · exact Or.inr (Or.inl ⟨rfl, e, es, hp, by simp [herr, hr]⟩)
    · exact Or.inr (Or.inr ⟨rfl, prog, hp, by simp [herr, hr]⟩)

/-- the same with the live keyword table -/
theorem front_end_total_live (chars : CharEnv) (fuel : Nat) (src : Str) (world : World) (fp : Str) :
    let cfg := genCfg chars
    ((lex cfg.lex src).errors ≠ [] ∧
      run cfg fuel src world fp = ⟨.lexErr (lex cfg.lex src).errors.length, [], none⟩) ∨
    ((lex cfg.lex src).errors = [] ∧ ∃ e es,
      parse (parseFuel (lex cfg.lex src).tokens.length) (lex cfg.lex src).tokens = .errs (e :: es) ∧
      run cfg fuel src world fp = ⟨.parseErr (es.length + 1), [], none⟩) ∨
    ((lex cfg.lex src).errors = [] ∧ ∃ prog,
      parse (parseFuel (lex cfg.lex src).tokens.length) (lex cfg.lex src).tokens = .ok prog ∧
      run cfg fuel src world fp = execOut (program cfg fuel prog (initState cfg world fp))) :=
  front_end_total (genCfg chars) (genKw_plain chars.isAlnum) fuel src world fp

/-! ## the bound is linear for a reason (kernel-evaluated) -/

/-- `[[[…[ ]…]]]`: `k` opening brackets, `k` closing brackets, end of input -/
def nestedList (k : Nat) : List Token :=
  List.replicate k (demoTok .leftBracket 0) ++ List.replicate k (demoTok .rightBracket 0) ++ [demoTok .eof 0]

def isFuel : ParseOut → Bool | .fuel => true | _ => false
def isOk : ParseOut → Bool | .ok _ => true | _ => false

/-- **fuel is needed in proportion to the input**: a list literal nested 8 deep (17 tokens) exhausts
`12 * 8 + 1 = 97` units and is parsed with `12 * 8 + 2 = 98` — each `[` costs the whole ladder of 12 calls
(the same thresholds `12 * k + 1` / `12 * k + 2` are observed for other depths `k`). The fuel
`parseFuel 17 = 336` of `runTokens` and the proved bound `12 * 17 + 14 = 218` are both above. -/
theorem fuel_is_needed :
    isFuel (parse 97 (nestedList 8)) = true ∧ isOk (parse 98 (nestedList 8)) = true ∧
    isOk (parse (parseFuel (nestedList 8).length) (nestedList 8)) = true := by decide

end Aplang
