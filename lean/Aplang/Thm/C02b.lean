import Aplang.Thm.C02
import Aplang.Proofs.LoopLemmas
import Aplang.Proofs.LoopsKeep
/-!
# C02b — whole loops, whole chains, whole blocks

`Thm/C02.lean` proves that the evaluator model computes what the reference semantics (`Spec/Eval.lean`) computes,
and states the reference semantics clause by clause as *one-step* equations. Here the clauses are iterated into
statements about **whole** constructs, in the words of the property:

1. `countOf_floor` (+ `countOf_cases`, `countOf_nan`, `countOf_lt_one`, `countOf_pos_iff`, `countOf_ofNat`) — the
   REPEAT count `n as usize` for every float: 0 for NaN and everything below 1, `⌊n⌋` (saturated at `2^64 - 1`) otherwise.
2. `repeatLoop_trace` / `repeatLoop_runs_k_times` (iteration abstraction `BodyStep`, exact fuel `f0 + k`),
   `repeat_times_runs_floor_n_times` — REPEAT n TIMES evaluates `n` once and applies the body's state function
   exactly `countOf n` times; `repeat_times_none_below_one`; `repeat_times_break_at` / `repeat_times_return_at`:
   BREAK / RETURN in run `j` ends the loop after `j + 1` runs; the loop-control stack is balanced
   (`stmt_keeps_loop_stack`, unconditional, from `Proofs/LoopsKeep.lean`).
3. `until_stops_first_time_true` (+ `until_runs_j_times`, `untilLoop_break_at`, `untilLoop_return_at`,
   `repeat_until_stmt`) — the condition is tested before every iteration; `j` falsy tests and one truthy test mean
   `j` runs of the body and `j + 1` evaluations of the condition.
4. `foreach_visits_every_element_in_order`, `foreach_stmt_visits_every_element`, `foreach_restores_outer_variable`
   (unconditional; `_var` for `FOR EACH x IN l`), `foreach_string_runs_over_characters` / `iterCell_str`,
   `forLoop_break_at`, `forLoop_return_at`, `forLoop_stops_at_shortened_list`.
5. `loop_stmt_signal_is_normal_or_ret` (unconditional), `break_and_continue_stay_in_innermost_loop`,
   `break_ends_only_innermost`, `continue_restarts_only_innermost`, `no_statement_after_signal`,
   `block_continues_after_normal`.
6. `if_chain_selects_first_truthy`, `if_chain_none_truthy`.
7. `block_runs_each_once_in_order`, `block_stmt_runs_each_once_in_order`.

**Level.** All theorems are about the reference semantics `Spec.*` and hold for every program, state, configuration
and fuel that satisfies the stated fuel bound — no well-formedness hypothesis. A hypothesis "the body ends"
(`StmtEnds cfg f0 body σ sig σ'`: for every fuel `≥ f0`, `Spec.stmt cfg f body σ = .ok (sig, σ')`) follows from one
evaluation (`StmtEnds.of_eval`, by fuel stability `Proofs/SpecStable.lean`). Every `Spec.stmt` call first takes one
unit of the statement budget (`tick`); the state functions below include that. `model_of_spec_ok` transports any
`Spec.stmt … = .ok (sig, σ')` to the evaluator model for parser-accepted statements (`WFStmt`, `SInv`), and
`model_repeat_times_runs_floor_n_times`, `model_loop_stmt_leaves_outer_flags`, `model_foreach_restores_outer_variable`
are such transports.
-/
namespace Aplang

/-! ## 1. the REPEAT count -/

/-- **`n as usize`, for every float `n`.** (a) everything that is not `≥ 1.0` in the float order — NaN, `-∞`, the
negative numbers, `-0.0`, `0.0`, the fractions below 1 — gives 0; (b) a finite non-negative `n` gives its integer
part `⌊n⌋`, saturated at `2^64 - 1`; (c) `+∞` gives `2^64 - 1`. Every float falls under (a), (b) or (c)
(`countOf_cases`). -/
theorem countOf_floor (n : Float) :
    (¬ n >= 1.0 → countOf n = 0) ∧
    (∀ k, F64.intPart n = some k → countOf n = min k (2 ^ 64 - 1)) ∧
    (F64.isPosInf n → countOf n = 2 ^ 64 - 1) :=
  ⟨toUSize_zero_of_not_ge_one n, F64.toUSize_eq n, F64.toUSize_inf n⟩

/-- the three cases of `countOf_floor` are exhaustive -/
theorem countOf_cases (n : Float) : ¬ n >= 1.0 ∨ (∃ k, F64.intPart n = some k ∧ 1 ≤ k) ∨ F64.isPosInf n := by
  by_cases h : n >= 1.0
  · rcases (F64.ge_one_iff n).mp h with h | h
    · exact Or.inr (Or.inr h)
    · exact Or.inr (Or.inl h)
  · exact Or.inl h

theorem countOf_nan (n : Float) (h : n.isNaN = true) : countOf n = 0 :=
  (countOf_floor n).1 (not_ge_one_of_isNaN n h)

/-- none when `n < 1`: in particular for `n ≤ 0` -/
theorem countOf_lt_one (n : Float) (h : n < 1.0) : countOf n = 0 :=
  (countOf_floor n).1 (not_ge_one_of_lt_one n h)

/-- the body runs at all exactly when `n ≥ 1.0` -/
theorem countOf_pos_iff (n : Float) : 0 < countOf n ↔ n >= 1.0 := by
  constructor
  · intro h
    apply Classical.byContradiction
    intro hn
    rw [(countOf_floor n).1 hn] at h
    exact absurd h (by decide)
  · intro h
    rcases (F64.ge_one_iff n).mp h with h | ⟨k, hk, h1⟩
    · rw [(countOf_floor n).2.2 h]; decide
    · rw [(countOf_floor n).2.1 k hk]
      have : 1 ≤ 2 ^ 64 - 1 := by decide
      omega

/-- a whole-number count below `2^53` is taken as it is -/
theorem countOf_ofNat (k : Nat) (hk : k < 2 ^ 53) : countOf k.toFloat = k := by
  rw [(countOf_floor _).2.1 k (F64.intPart_toFloat k hk)]
  have : (2:Nat) ^ 53 ≤ 2 ^ 64 - 1 := by decide
  omega

/-! non-vacuity: each case of `countOf_floor` on a concrete float -/
example : ¬ (0.5 : Float) >= 1.0 ∧ countOf 0.5 = 0 := by decide
example : ¬ (-3.0 : Float) >= 1.0 ∧ countOf (-3.0) = 0 := by decide
example : (0.0 / 0.0 : Float).isNaN = true ∧ countOf (0.0 / 0.0) = 0 := by decide
example : (-0.0 : Float) < 1.0 ∧ countOf (-0.0) = 0 := by decide
example : F64.intPart 2.7 = some 2 ∧ countOf 2.7 = 2 := by decide
example : F64.isPosInf (1.0 / 0.0) ∧ countOf (1.0 / 0.0) = 2 ^ 64 - 1 := ⟨by rfl, by decide⟩
example : countOf (5 : Nat).toFloat = 5 := countOf_ofNat 5 (by decide)

/-! ## 2. REPEAT n TIMES -/

/-- **the iteration abstraction**: `I r σ` reads "`σ` is good for `r` more runs of the body". From every state good
for `r + 1` more runs the body ends normally or with CONTINUE — with any fuel from `f0` on — in the state `step σ`,
which is good for `r` more runs. (The index is needed because every statement takes one unit of the statement
budget: no invariant that guarantees a run can be preserved forever.) -/
structure BodyStep (cfg : Cfg) (f0 : Nat) (body : Stmt) (I : Nat → St → Prop) (step : St → St) : Prop where
  ends : ∀ r σ, I (r+1) σ → ∃ sig, Sig.goesOn sig ∧ StmtEnds cfg f0 body σ sig (step σ)
  inv : ∀ r σ, I (r+1) σ → I r (step σ)

/-- the runs of a body along a sequence of states: run `i` starts in `st i`, goes on, and ends in `st (i+1)` -/
def RunsOn (cfg : Cfg) (f0 : Nat) (body : Stmt) (st : Nat → St) (j : Nat) : Prop :=
  ∀ i, i < j → ∃ sig, Sig.goesOn sig ∧ StmtEnds cfg f0 body (st i) sig (st (i+1))

theorem BodyStep.runsOn {cfg : Cfg} {f0 : Nat} {body : Stmt} {I : Nat → St → Prop} {step : St → St}
    (hb : BodyStep cfg f0 body I step) (σ : St) (j : Nat) (hσ : I j σ) :
    RunsOn cfg f0 body (fun i => iter step i σ) j := by
  have hI : ∀ i, i ≤ j → I (j - i) (iter step i σ) := by
    intro i
    induction i with
    | zero => intro _; exact hσ
    | succ i ih =>
      intro hi
      have h := ih (by omega)
      have e : j - i = (j - (i+1)) + 1 := by omega
      rw [e] at h
      rw [iter_succ_apply]
      exact hb.inv _ _ h
  intro i hi
  have h := hI i (by omega)
  have e : j - i = (j - (i+1)) + 1 := by omega
  rw [e] at h
  obtain ⟨sig, hs, he⟩ := hb.ends _ _ h
  refine ⟨sig, hs, ?_⟩
  show StmtEnds cfg f0 body (iter step i σ) sig (iter step (i+1) σ)
  rw [iter_succ_apply]; exact he

/-- **`k` iterations, all going on: the loop ends normally after exactly `k` runs of the body.**
Fuel: exactly `f0 + k` suffices — `repeatLoop` spends one unit per iteration and the last run needs `f0`. -/
theorem repeatLoop_trace (cfg : Cfg) {f0 : Nat} (body : Stmt) (st : Nat → St) (k : Nat)
    (h : RunsOn cfg f0 body st k) {fuel : Nat} (hf : f0 + k ≤ fuel) :
    Spec.repeatLoop cfg fuel k body (st 0) = .ok (.normal, st k) := by
  obtain ⟨g, rfl⟩ : ∃ g, fuel = g + k := ⟨fuel - k, by omega⟩
  have := repeatLoop_prefix cfg body (g := g) (by omega) k 0 st h
  rw [Nat.add_zero] at this
  rw [this, Spec.repeatLoop_zero]

/-- the same with a state function: `Spec.repeatLoop … k body σ = .ok (.normal, step^[k] σ)` -/
theorem repeatLoop_runs_k_times (cfg : Cfg) {f0 : Nat} {body : Stmt} {I : Nat → St → Prop} {step : St → St}
    (hb : BodyStep cfg f0 body I step) (k : Nat) (σ : St) (hσ : I k σ) {fuel : Nat} (hf : f0 + k ≤ fuel) :
    Spec.repeatLoop cfg fuel k body σ = .ok (.normal, iter step k σ) :=
  repeatLoop_trace cfg body (fun i => iter step i σ) k (hb.runsOn σ k hσ) hf

/-- **BREAK in run `j < k`** (the first run that does not go on): the loop ends with `.normal` after `j + 1` runs -/
theorem repeatLoop_break_at (cfg : Cfg) {f0 : Nat} (body : Stmt) (st : Nat → St) (j k : Nat) (hjk : j < k)
    (h : RunsOn cfg f0 body st j) (hb : StmtEnds cfg f0 body (st j) .brk (st (j+1)))
    {fuel : Nat} (hf : f0 + j < fuel) :
    Spec.repeatLoop cfg fuel k body (st 0) = .ok (.normal, st (j+1)) := by
  obtain ⟨g, rfl⟩ : ∃ g, fuel = (g + 1) + j := ⟨fuel - j - 1, by omega⟩
  obtain ⟨r, rfl⟩ : ∃ r, k = j + (r + 1) := ⟨k - j - 1, by omega⟩
  rw [repeatLoop_prefix cfg body (g := g + 1) (by omega) j (r + 1) st h]
  simp only [Spec.repeatLoop]
  rw [hb g (by omega)]
  rfl

/-- **RETURN in run `j < k`**: the loop ends at once with `.ret v` -/
theorem repeatLoop_return_at (cfg : Cfg) {f0 : Nat} (body : Stmt) (st : Nat → St) (j k : Nat) (hjk : j < k) (v : Value)
    (h : RunsOn cfg f0 body st j) (hb : StmtEnds cfg f0 body (st j) (.ret v) (st (j+1)))
    {fuel : Nat} (hf : f0 + j < fuel) :
    Spec.repeatLoop cfg fuel k body (st 0) = .ok (.ret v, st (j+1)) := by
  obtain ⟨g, rfl⟩ : ∃ g, fuel = (g + 1) + j := ⟨fuel - j - 1, by omega⟩
  obtain ⟨r, rfl⟩ : ∃ r, k = j + (r + 1) := ⟨k - j - 1, by omega⟩
  rw [repeatLoop_prefix cfg body (g := g + 1) (by omega) j (r + 1) st h]
  simp only [Spec.repeatLoop]
  rw [hb g (by omega)]
  rfl

/-- **the loop-control stack is balanced** (unconditional): whatever a statement does — loops nested to any depth,
BREAK, CONTINUE, RETURN, calls, IMPORT — if it ends, the stack of loop-control records is the one it started with -/
theorem stmt_keeps_loop_stack (cfg : Cfg) (f : Nat) (s : Stmt) (σ σ' : St) (sig : Sig)
    (h : Spec.stmt cfg f s σ = .ok (sig, σ')) : σ'.loops = σ.loops :=
  Spec.stmt_loops cfg h

/-- the statement around the loop: the count is evaluated once (from `σ` to `σ1`), a loop-control record is
pushed, the loop runs from there, the record is popped -/
theorem repeatTimes_wrap (cfg : Cfg) {fc f1 : Nat} (count : Expr) (body : Stmt) (rt tt ct : Token) {σ0 σ σ1 σ2 : St}
    {n : Float} {sig : Sig} (ht : tick σ0 = some σ) (hc : ExprEnds cfg fc count σ (.num n) σ1)
    (hl : ∀ f, f1 ≤ f →
      Spec.repeatLoop cfg f (countOf n) body { σ1 with loops := {} :: σ1.loops } = .ok (sig, σ2))
    {fuel : Nat} (hf : fc < fuel) (hf1 : f1 < fuel) :
    Spec.stmt cfg fuel (.repeatTimes count body rt tt ct) σ0 = .ok (sig, { σ2 with loops := σ1.loops }) := by
  obtain ⟨F, rfl⟩ : ∃ F, fuel = F + 1 := ⟨fuel - 1, by omega⟩
  rw [repeat_times_evaluates_count_once cfg F count body rt tt ct σ0 σ ht, hc F (by omega)]
  simp only [Res.bind_ok]
  have hl' := hl F (by omega)
  have h2 : σ2.loops = {} :: σ1.loops := ((Spec.loopsAll cfg F).repeatLoop _ body _).getP hl'
  rw [hl']
  simp only [Res.bind_ok, popLoop, h2]

/-- **REPEAT n TIMES evaluates `n` once and runs its body exactly `countOf n` = ⌊n⌋ times** (none when `n < 1`,
see `countOf_floor`): the count expression is evaluated exactly once — from `σ`, the state after the statement's
tick, to `σ1` —, the loop starts in `σ1` with a fresh loop-control record, the body's state function `step` is
applied exactly `countOf n` times, the record is popped and the statement ends `.normal`.
Fuel: any `fuel > max fc (f0 + countOf n)`. -/
theorem repeat_times_runs_floor_n_times (cfg : Cfg) {fc f0 : Nat} (count : Expr) (body : Stmt) (rt tt ct : Token)
    {σ0 σ σ1 : St} {n : Float} {I : Nat → St → Prop} {step : St → St}
    (ht : tick σ0 = some σ) (hc : ExprEnds cfg fc count σ (.num n) σ1)
    (hb : BodyStep cfg f0 body I step) (hI : I (countOf n) { σ1 with loops := {} :: σ1.loops })
    {fuel : Nat} (hf : fc < fuel) (hf0 : f0 + countOf n < fuel) :
    Spec.stmt cfg fuel (.repeatTimes count body rt tt ct) σ0 =
      .ok (.normal, { iter step (countOf n) { σ1 with loops := {} :: σ1.loops } with loops := σ1.loops }) :=
  repeatTimes_wrap cfg count body rt tt ct ht hc
    (fun _ hf' => repeatLoop_runs_k_times cfg hb (countOf n) _ hI hf') hf hf0

/-- … and that final state has the loop-control stack the statement started with -/
theorem repeat_times_loop_stack (cfg : Cfg) {fc : Nat} (count : Expr) {σ0 σ σ1 : St} {v : Value}
    (ht : tick σ0 = some σ) (hc : ExprEnds cfg fc count σ v σ1) : σ1.loops = σ0.loops :=
  (Spec.expr_loops cfg (hc fc (Nat.le_refl _))).trans (tick_loops ht)

/-- a count below 1 (NaN, negative, zero, a fraction): the body does not run at all -/
theorem repeat_times_none_below_one (cfg : Cfg) {fc : Nat} (count : Expr) (body : Stmt) (rt tt ct : Token)
    {σ0 σ σ1 : St} {n : Float} (ht : tick σ0 = some σ) (hc : ExprEnds cfg fc count σ (.num n) σ1)
    (hn : ¬ n >= 1.0) {fuel : Nat} (hf : fc < fuel) :
    Spec.stmt cfg fuel (.repeatTimes count body rt tt ct) σ0 = .ok (.normal, σ1) := by
  have h := repeatTimes_wrap cfg (f1 := 0) count body rt tt ct (sig := .normal) ht hc
    (σ2 := { σ1 with loops := {} :: σ1.loops })
    (fun f _ => by rw [(countOf_floor n).1 hn, Spec.repeatLoop_zero]) hf (by omega)
  rw [h]

/-- **BREAK in run `j`** of the `countOf n` runs: the statement ends `.normal` after `j + 1` runs -/
theorem repeat_times_break_at (cfg : Cfg) {fc f0 : Nat} (count : Expr) (body : Stmt) (rt tt ct : Token)
    {σ0 σ σ1 : St} {n : Float} (st : Nat → St) (j : Nat)
    (ht : tick σ0 = some σ) (hc : ExprEnds cfg fc count σ (.num n) σ1)
    (h0 : st 0 = { σ1 with loops := {} :: σ1.loops }) (hj : j < countOf n)
    (h : RunsOn cfg f0 body st j) (hb : StmtEnds cfg f0 body (st j) .brk (st (j+1)))
    {fuel : Nat} (hf : fc < fuel) (hf0 : f0 + j + 1 < fuel) :
    Spec.stmt cfg fuel (.repeatTimes count body rt tt ct) σ0 = .ok (.normal, { st (j+1) with loops := σ1.loops }) :=
  repeatTimes_wrap cfg (f1 := f0 + j + 1) count body rt tt ct ht hc
    (fun _ hf' => by rw [← h0]; exact repeatLoop_break_at cfg body st j _ hj h hb (by omega)) hf hf0

/-- **RETURN in run `j`**: the statement propagates `.ret v` at once -/
theorem repeat_times_return_at (cfg : Cfg) {fc f0 : Nat} (count : Expr) (body : Stmt) (rt tt ct : Token)
    {σ0 σ σ1 : St} {n : Float} (st : Nat → St) (j : Nat) (v : Value)
    (ht : tick σ0 = some σ) (hc : ExprEnds cfg fc count σ (.num n) σ1)
    (h0 : st 0 = { σ1 with loops := {} :: σ1.loops }) (hj : j < countOf n)
    (h : RunsOn cfg f0 body st j) (hb : StmtEnds cfg f0 body (st j) (.ret v) (st (j+1)))
    {fuel : Nat} (hf : fc < fuel) (hf0 : f0 + j + 1 < fuel) :
    Spec.stmt cfg fuel (.repeatTimes count body rt tt ct) σ0 = .ok (.ret v, { st (j+1) with loops := σ1.loops }) :=
  repeatTimes_wrap cfg (f1 := f0 + j + 1) count body rt tt ct ht hc
    (fun _ hf' => by rw [← h0]; exact repeatLoop_return_at cfg body st j _ hj v h hb (by omega)) hf hf0

/-! ## 3. REPEAT UNTIL -/

/-- `j` iterations of REPEAT UNTIL along two sequences of states: test `i` of the condition goes from `st i` to
`ct i` and is falsy, run `i` of the body goes from `ct i` to `st (i+1)` and goes on -/
def UntilRunsOn (cfg : Cfg) (f0 : Nat) (cond : Expr) (body : Stmt) (st ct : Nat → St) (j : Nat) : Prop :=
  ∀ i, i < j → ∃ v sig, ExprEnds cfg f0 cond (st i) v (ct i) ∧ truthy v = false ∧
    Sig.goesOn sig ∧ StmtEnds cfg f0 body (ct i) sig (st (i+1))

/-- **REPEAT UNTIL tests its condition before every iteration and stops the first time it is true**: if the
condition is falsy at tests `0 … j-1` and truthy at test `j`, the body runs exactly `j` times, the condition is
evaluated exactly `j + 1` times (`st 0 → ct 0 → st 1 → … → st j → ct j`), and the loop ends `.normal` in the state
right after the truthy test. Fuel: any `fuel > f0 + j`. For `j = 0`: a condition that is true at once means no run. -/
theorem until_stops_first_time_true (cfg : Cfg) {f0 : Nat} (cond : Expr) (body : Stmt) (st ct : Nat → St) (j : Nat)
    (h : UntilRunsOn cfg f0 cond body st ct j) {v : Value} (hc : ExprEnds cfg f0 cond (st j) v (ct j))
    (hv : truthy v = true) {fuel : Nat} (hf : f0 + j < fuel) :
    Spec.untilLoop cfg fuel cond body (st 0) = .ok (.normal, ct j) := by
  obtain ⟨g, rfl⟩ : ∃ g, fuel = (g + 1) + j := ⟨fuel - j - 1, by omega⟩
  rw [untilLoop_prefix cfg cond body (g := g + 1) (by omega) j st ct h]
  simp only [Spec.untilLoop]
  rw [hc g (by omega)]
  simp only [Res.bind_ok, hv, if_true]

/-- BREAK in run `j` (after `j + 1` falsy tests): the loop ends `.normal` there -/
theorem untilLoop_break_at (cfg : Cfg) {f0 : Nat} (cond : Expr) (body : Stmt) (st ct : Nat → St) (j : Nat)
    (h : UntilRunsOn cfg f0 cond body st ct j) {v : Value} (hc : ExprEnds cfg f0 cond (st j) v (ct j))
    (hv : truthy v = false) (hb : StmtEnds cfg f0 body (ct j) .brk (st (j+1))) {fuel : Nat} (hf : f0 + j < fuel) :
    Spec.untilLoop cfg fuel cond body (st 0) = .ok (.normal, st (j+1)) := by
  obtain ⟨g, rfl⟩ : ∃ g, fuel = (g + 1) + j := ⟨fuel - j - 1, by omega⟩
  rw [untilLoop_prefix cfg cond body (g := g + 1) (by omega) j st ct h]
  simp only [Spec.untilLoop]
  rw [hc g (by omega)]
  simp only [Res.bind_ok, hv, Bool.false_eq_true, if_false]
  rw [hb g (by omega)]
  rfl

/-- RETURN in run `j`: the loop propagates `.ret w` -/
theorem untilLoop_return_at (cfg : Cfg) {f0 : Nat} (cond : Expr) (body : Stmt) (st ct : Nat → St) (j : Nat) (w : Value)
    (h : UntilRunsOn cfg f0 cond body st ct j) {v : Value} (hc : ExprEnds cfg f0 cond (st j) v (ct j))
    (hv : truthy v = false) (hb : StmtEnds cfg f0 body (ct j) (.ret w) (st (j+1))) {fuel : Nat} (hf : f0 + j < fuel) :
    Spec.untilLoop cfg fuel cond body (st 0) = .ok (.ret w, st (j+1)) := by
  obtain ⟨g, rfl⟩ : ∃ g, fuel = (g + 1) + j := ⟨fuel - j - 1, by omega⟩
  rw [untilLoop_prefix cfg cond body (g := g + 1) (by omega) j st ct h]
  simp only [Spec.untilLoop]
  rw [hc g (by omega)]
  simp only [Res.bind_ok, hv, Bool.false_eq_true, if_false]
  rw [hb g (by omega)]
  rfl

/-- the same with state functions: the condition maps `σ` to the value `cval σ` and the state `cstep σ`, the body
maps a state to `step` of it. If the condition is falsy before iterations `0 … j-1` and truthy before iteration `j`,
the final state is `cstep ((step ∘ cstep)^[j] σ)`: `j` runs of the body, `j + 1` tests. -/
theorem until_runs_j_times (cfg : Cfg) {f0 : Nat} (cond : Expr) (body : Stmt) (I : St → Prop)
    (cval : St → Value) (cstep step : St → St)
    (hc : ∀ σ, I σ → ExprEnds cfg f0 cond σ (cval σ) (cstep σ))
    (hb : ∀ σ, I σ → truthy (cval σ) = false →
      I (step (cstep σ)) ∧ ∃ sig, Sig.goesOn sig ∧ StmtEnds cfg f0 body (cstep σ) sig (step (cstep σ)))
    (σ : St) (hσ : I σ) (j : Nat)
    (hfalse : ∀ i, i < j → truthy (cval (iter (fun s => step (cstep s)) i σ)) = false)
    (htrue : truthy (cval (iter (fun s => step (cstep s)) j σ)) = true)
    {fuel : Nat} (hf : f0 + j < fuel) :
    Spec.untilLoop cfg fuel cond body σ = .ok (.normal, cstep (iter (fun s => step (cstep s)) j σ)) := by
  have hI : ∀ i, i ≤ j → I (iter (fun s => step (cstep s)) i σ) := by
    intro i
    induction i with
    | zero => intro _; exact hσ
    | succ i ih =>
      intro hi
      rw [iter_succ_apply]
      exact (hb _ (ih (by omega)) (hfalse i (by omega))).1
  refine until_stops_first_time_true cfg cond body (fun i => iter (fun s => step (cstep s)) i σ)
    (fun i => cstep (iter (fun s => step (cstep s)) i σ)) j ?_ (hc _ (hI j (Nat.le_refl _))) htrue hf
  intro i hi
  obtain ⟨_, sig, hs, he⟩ := hb _ (hI i (by omega)) (hfalse i hi)
  refine ⟨_, sig, hc _ (hI i (by omega)), hfalse i hi, hs, ?_⟩
  show StmtEnds cfg f0 body (cstep (iter (fun s => step (cstep s)) i σ)) sig (iter (fun s => step (cstep s)) (i+1) σ)
  rw [iter_succ_apply]; exact he

/-- the statement around the loop: a loop-control record is pushed, the loop runs, the record is popped -/
theorem repeatUntil_wrap (cfg : Cfg) {f1 : Nat} (cond : Expr) (body : Stmt) (rt ut : Token) {σ0 σ σ2 : St}
    {sig : Sig} (ht : tick σ0 = some σ)
    (hl : ∀ f, f1 ≤ f → Spec.untilLoop cfg f cond body { σ with loops := {} :: σ.loops } = .ok (sig, σ2))
    {fuel : Nat} (hf1 : f1 < fuel) :
    Spec.stmt cfg fuel (.repeatUntil cond body rt ut) σ0 = .ok (sig, { σ2 with loops := σ0.loops }) := by
  obtain ⟨F, rfl⟩ : ∃ F, fuel = F + 1 := ⟨fuel - 1, by omega⟩
  have hl' := hl F (by omega)
  have h2 : σ2.loops = {} :: σ.loops := ((Spec.loopsAll cfg F).untilLoop cond body _).getP hl'
  simp only [Spec.stmt, ht]
  rw [hl']
  simp only [Res.bind_ok, popLoop, h2, tick_loops ht]

/-- the REPEAT UNTIL statement as a whole: `j` falsy tests, then a truthy one -/
theorem repeat_until_stmt (cfg : Cfg) {f0 : Nat} (cond : Expr) (body : Stmt) (rt ut : Token) {σ0 σ : St}
    (st ct : Nat → St) (j : Nat) (ht : tick σ0 = some σ) (h0 : st 0 = { σ with loops := {} :: σ.loops })
    (h : UntilRunsOn cfg f0 cond body st ct j) {v : Value} (hc : ExprEnds cfg f0 cond (st j) v (ct j))
    (hv : truthy v = true) {fuel : Nat} (hf : f0 + j + 1 < fuel) :
    Spec.stmt cfg fuel (.repeatUntil cond body rt ut) σ0 = .ok (.normal, { ct j with loops := σ0.loops }) :=
  repeatUntil_wrap cfg (f1 := f0 + j + 1) cond body rt ut ht
    (fun _ hf' => by rw [← h0]; exact until_stops_first_time_true cfg cond body st ct j h hc hv (by omega)) hf

/-! ## 4. FOR EACH -/

/-- the list after the write-backs of iterations `0 … i-1`: positions below `i` hold the loop variable's final
values `ws 0 … ws (i-1)`, positions from `i` on are untouched -/
def overwrite (ws : Nat → Value) : Nat → List Value → List Value
  | 0, vs => vs
  | i+1, vs => (overwrite ws i vs).set i (ws i)

theorem overwrite_length (ws : Nat → Value) : ∀ (i : Nat) (vs : List Value), (overwrite ws i vs).length = vs.length
  | 0, _ => rfl
  | i+1, vs => by simp only [overwrite, List.length_set]; exact overwrite_length ws i vs

/-- positions not yet visited hold the original elements -/
theorem overwrite_get_ge (ws : Nat → Value) : ∀ (i : Nat) (vs : List Value) (p : Nat), i ≤ p →
    (overwrite ws i vs)[p]? = vs[p]?
  | 0, _, _, _ => rfl
  | i+1, vs, p, h => by
    simp only [overwrite]
    rw [List.getElem?_set_ne (by omega)]
    exact overwrite_get_ge ws i vs p (by omega)

/-- visited positions hold what was written back -/
theorem overwrite_get_lt (ws : Nat → Value) : ∀ (i : Nat) (vs : List Value) (p : Nat), p < i → p < vs.length →
    (overwrite ws i vs)[p]? = some (ws p)
  | i+1, vs, p, h, hl => by
    simp only [overwrite]
    by_cases hp : p = i
    · subst hp
      rw [List.getElem?_set_self (by rw [overwrite_length]; exact hl)]
    · rw [List.getElem?_set_ne (by omega)]
      exact overwrite_get_lt ws i vs p (by omega) hl

/-- **one FOR EACH iteration at position `i`, for a body that ends normally and leaves the list cell `a` as it
is**: the loop variable is bound to `v`, the body runs from there (`σb`) to `σe` without changing cell `a`, the loop
variable — whose value is `w` by then — is unbound again and `w` is written to position `i` of the cell -/
def ForIterF (cfg : Cfg) (f0 : Nat) (item : Str) (a i : Nat) (body : Stmt) (v w : Value) (σ σ' : St) : Prop :=
  ∃ σb σe σr, define σ item v = .ok σb ∧ StmtEnds cfg f0 body σb .normal σe ∧ getList σe a = getList σb a ∧
    removeVar σe item = .ok (some w, σr) ∧ σ' = writeBack σr a i (some w)

/-- the run of the body in such an iteration starts with the loop variable bound to `v` and ends with it bound to `w` -/
theorem ForIterF.bound {cfg : Cfg} {f0 : Nat} {item : Str} {a i : Nat} {body : Stmt} {v w : Value} {σ σ' : St}
    (h : ForIterF cfg f0 item a i body v w σ σ') :
    ∃ σb σe, lookupVar σb item = some v ∧ StmtEnds cfg f0 body σb .normal σe ∧ lookupVar σe item = some w := by
  obtain ⟨σb, σe, σr, h1, h2, _, h4, _⟩ := h
  exact ⟨σb, σe, define_lookup_self h1, h2, ((removeVar_facts h4).1).symm⟩

/-- what the iteration does to the cell and to the loop variable -/
theorem ForIterF.cell {cfg : Cfg} {f0 : Nat} {item : Str} {a i : Nat} {body : Stmt} {v w : Value} {σ σ' : St}
    (h : ForIterF cfg f0 item a i body v w σ σ') {L : List Value} (hL : getList σ a = some L) (hi : i < L.length) :
    getList σ' a = some (L.set i w) ∧ lookupVar σ' item = none := by
  obtain ⟨σb, σe, σr, h1, _, h3, h4, h5⟩ := h
  have hb : getList σb a = some L := by rw [getList_of_heap_eq (define_heap h1) a]; exact hL
  have hr : getList σr a = some L := by rw [getList_of_heap_eq (removeVar_facts h4).2.2.1 a, h3]; exact hb
  subst h5
  exact ⟨getList_writeBack w hr hi, by rw [lookupVar_writeBack]; exact (removeVar_facts h4).2.1⟩

/-- **FOR EACH binds the loop variable to every element of the list, in order.** Cell `a` holds `vs` when the
loop starts (`st 0`). If, for every position `i < vs.length`, the iteration that binds the loop variable to the
`i`-th element `vs[i]` runs its body normally without touching cell `a` (`ForIterF`, from `st i` to `st (i+1)`), then:
the loop runs the body exactly `vs.length` times and ends `.normal` in `st vs.length`; at turn `i` the cell holds
`overwrite ws i vs` — so the element bound at turn `i` is the one *present at its turn*, and it is the original `vs[i]`;
after the loop position `p` holds the loop variable's final value `ws p` of run `p`; the loop variable is unbound after
every iteration. Fuel: any `fuel > f0 + vs.length`. -/
theorem foreach_visits_every_element_in_order (cfg : Cfg) {f0 : Nat} (item : Str) (a : Nat) (body : Stmt)
    (vs : List Value) (ws : Nat → Value) (st : Nat → St) (h0 : getList (st 0) a = some vs)
    (hit : ∀ i (hi : i < vs.length), ForIterF cfg f0 item a i body vs[i] (ws i) (st i) (st (i+1)))
    {fuel : Nat} (hf : f0 + vs.length < fuel) :
    Spec.forLoop cfg fuel item a 0 vs.length body (st 0) = .ok (.normal, st vs.length) ∧
    (∀ i, i ≤ vs.length → getList (st i) a = some (overwrite ws i vs)) ∧
    (∀ i, i < vs.length → lookupVar (st (i+1)) item = none) := by
  have hcell : ∀ i, i ≤ vs.length → getList (st i) a = some (overwrite ws i vs) := by
    intro i
    induction i with
    | zero => intro _; exact h0
    | succ i ih =>
      intro hi
      exact ((hit i (by omega)).cell (ih (by omega)) (by rw [overwrite_length]; omega)).1
  refine ⟨?_, hcell, ?_⟩
  · obtain ⟨g, rfl⟩ : ∃ g, fuel = (g + 1) + vs.length := ⟨fuel - vs.length - 1, by omega⟩
    have hp := forLoop_prefix cfg (f0 := f0) item a vs.length body (g := g + 1) (by omega) vs.length 0 st (by omega) (by
      intro i hi
      rw [Nat.zero_add]
      obtain ⟨σb, σe, σr, h1, h2, _, h4, h5⟩ := hit i hi
      refine Or.inl ⟨overwrite ws i vs, vs[i], σb, σe, some (ws i), σr, hcell i (by omega), ?_, h1, h2, h4, h5⟩
      rw [overwrite_get_ge ws i vs i (Nat.le_refl _)]
      exact List.getElem?_eq_getElem hi)
    rw [hp, Nat.zero_add, Spec.forLoop_done cfg g item a _ _ body _ (Nat.le_refl _)]
  · intro i hi
    exact ((hit i hi).cell (hcell i (by omega)) (by rw [overwrite_length]; omega)).2

/-- the cell a FOR EACH runs over: a list value's own cell (the loop sees and changes the list itself), or — for a
string — a fresh cell holding the one-character strings of the string, in order -/
def iterCell (v : Value) (σ : St) : Option (Nat × St) :=
  match v with
  | .list a => some (a, σ)
  | .str s => some (allocCell σ (.list ((StrOps.charsToStrs s).map Value.str)))
  | _ => none

/-- **strings**: the loop runs over a *fresh* cell (no variable or list refers to it) that holds the characters of
the string as one-character strings, in order; nothing else in the state changes -/
theorem iterCell_str (s : Str) (σ : St) :
    ∃ σ', iterCell (.str s) σ = some (σ.heap.length, σ') ∧ getList σ σ.heap.length = none ∧
      getList σ' σ.heap.length = some ((StrOps.charsToStrs s).map Value.str) ∧
      σ'.scopes = σ.scopes ∧ σ'.loops = σ.loops ∧
      ((StrOps.charsToStrs s).map Value.str).length = s.length ∧
      ∀ i (hi : i < s.length), ((StrOps.charsToStrs s).map Value.str)[i]? = some (.str [s[i]]) := by
  refine ⟨_, rfl, getList_fresh σ, ?_, rfl, rfl, by simp [StrOps.charsToStrs], ?_⟩
  · simp [getList]
  · intro i hi
    simp [StrOps.charsToStrs, hi]

theorem iterCell_scopes {v : Value} {σ σ' : St} {a : Nat} (h : iterCell v σ = some (a, σ')) :
    σ'.scopes = σ.scopes := by
  cases v <;> simp only [iterCell, Option.some.injEq, Prod.mk.injEq, reduceCtorEq] at h
  · obtain ⟨_, rfl⟩ := h; rfl
  · obtain ⟨_, rfl⟩ := h; rfl

/-- the statement around the loop: the list expression is evaluated once, an outer variable named like the loop
variable is set aside (`cached`), the length of the list is read once, a loop-control record is pushed, the loop
runs, the record is popped and the outer variable is put back -/
theorem forEach_wrap (cfg : Cfg) {fc f1 : Nat} (item : Str) (itok : Token) (list : Expr) (body : Stmt)
    (ft et int lt : Token) {σ0 σ σ1 σ1' σ2 σ3 σ4 : St} {v : Value} {a : Nat} {cached : Option Value}
    {vs : List Value} {sig : Sig}
    (ht : tick σ0 = some σ) (hl : ExprEnds cfg fc list σ v σ1) (hi : iterCell v σ1 = some (a, σ1'))
    (hr : removeVar σ1' item = .ok (cached, σ2)) (hg : getList σ2 a = some vs)
    (hloop : ∀ f, f1 ≤ f →
      Spec.forLoop cfg f item a 0 vs.length body { σ2 with loops := {} :: σ2.loops } = .ok (sig, σ3))
    (hd : (match cached with
           | some w => define { σ3 with loops := σ2.loops } item w
           | none => .ok { σ3 with loops := σ2.loops }) = .ok σ4)
    {fuel : Nat} (hf : fc < fuel) (hf1 : f1 < fuel) :
    Spec.stmt cfg fuel (.forEach item itok list body ft et int lt) σ0 = .ok (sig, σ4) := by
  obtain ⟨F, rfl⟩ : ∃ F, fuel = F + 1 := ⟨fuel - 1, by omega⟩
  have hloop' := hloop F (by omega)
  have h3 : σ3.loops = {} :: σ2.loops := ((Spec.loopsAll cfg F).forLoop item a 0 _ body _).getP hloop'
  simp only [Spec.stmt, ht]
  rw [hl F (by omega)]
  simp only [Res.bind_ok]
  cases v with
  | list b =>
    simp only [iterCell, Option.some.injEq, Prod.mk.injEq] at hi
    obtain ⟨rfl, rfl⟩ := hi
    simp only [Res.bind_ok, hr, hg]
    rw [hloop']
    simp only [Res.bind_ok, popLoop, h3]
    cases cached <;> (dsimp only at hd ⊢; rw [hd]; rfl)
  | str s =>
    simp only [iterCell, Option.some.injEq] at hi
    simp only [Res.bind_ok]
    rw [hi]
    simp only [Res.bind_ok, hr, hg]
    rw [hloop']
    simp only [Res.bind_ok, popLoop, h3]
    cases cached <;> (dsimp only at hd ⊢; rw [hd]; rfl)
  | null => simp only [iterCell, reduceCtorEq] at hi
  | bool b => simp only [iterCell, reduceCtorEq] at hi
  | num n => simp only [iterCell, reduceCtorEq] at hi
  | obj o => simp only [iterCell, reduceCtorEq] at hi


theorem lookupVar_congr {σ τ : St} (h : τ.scopes = σ.scopes) (x : Str) : lookupVar τ x = lookupVar σ x := by
  simp only [lookupVar, h]

/-- **the FOR EACH statement, all iterations ending normally** (list or string; `iterCell` says which cell the loop
runs over): the list expression is evaluated exactly once; the body runs once per element, in order, the `i`-th run
with the loop variable bound to `vs[i]` (`ForIterF`, `ForIterF.bound`); afterwards the cell holds the loop variable's
final values (`overwrite ws vs.length vs`, see `overwrite_get_lt`), and **the variable named like the loop variable is
as it was before the loop** — bound to the same value, or unbound if it was unbound (`σ1`: the state right after the
list expression; for a list expression that does not assign to that variable this is its value before the statement).
Fuel: any `fuel > max fc (f0 + vs.length + 1)`. -/
theorem foreach_stmt_visits_every_element (cfg : Cfg) {fc f0 : Nat} (item : Str) (itok : Token) (list : Expr)
    (body : Stmt) (ft et int lt : Token) {σ0 σ σ1 σ1' σ2 σ4 : St} {v : Value} {a : Nat} {cached : Option Value}
    {vs : List Value} (ws : Nat → Value) (st : Nat → St)
    (ht : tick σ0 = some σ) (hl : ExprEnds cfg fc list σ v σ1) (hi : iterCell v σ1 = some (a, σ1'))
    (hr : removeVar σ1' item = .ok (cached, σ2)) (hg : getList σ2 a = some vs)
    (h0 : st 0 = { σ2 with loops := {} :: σ2.loops })
    (hit : ∀ i (hi : i < vs.length), ForIterF cfg f0 item a i body vs[i] (ws i) (st i) (st (i+1)))
    (hd : (match cached with
           | some w => define { st vs.length with loops := σ2.loops } item w
           | none => .ok { st vs.length with loops := σ2.loops }) = .ok σ4)
    {fuel : Nat} (hf : fc < fuel) (hf0 : f0 + vs.length + 1 < fuel) :
    Spec.stmt cfg fuel (.forEach item itok list body ft et int lt) σ0 = .ok (.normal, σ4) ∧
    getList σ4 a = some (overwrite ws vs.length vs) ∧
    lookupVar σ4 item = lookupVar σ1 item := by
  have hg0 : getList (st 0) a = some vs := by rw [h0]; exact hg
  obtain ⟨_, hcell, hnone⟩ :=
    foreach_visits_every_element_in_order cfg item a body vs ws st hg0 hit (fuel := f0 + vs.length + 1) (by omega)
  refine ⟨?_, ?_, ?_⟩
  · exact forEach_wrap cfg (f1 := f0 + vs.length + 1) item itok list body ft et int lt ht hl hi hr hg
      (fun _ hf' => by
        rw [← h0]
        exact (foreach_visits_every_element_in_order cfg item a body vs ws st hg0 hit (by omega)).1) hd hf hf0
  · have hc := hcell vs.length (Nat.le_refl _)
    cases cached with
    | none => dsimp only at hd; cases hd; exact hc
    | some w => dsimp only at hd; rw [getList_of_heap_eq (define_heap hd) a]; exact hc
  · have hc1 : cached = lookupVar σ1 item := by
      rw [(removeVar_facts hr).1, lookupVar_congr (iterCell_scopes hi)]
    have hn : lookupVar (st vs.length) item = none := by
      cases hlen : vs.length with
      | zero => rw [h0]; exact (removeVar_facts hr).2.1
      | succ m => exact hnone m (by omega)
    cases cached with
    | none => dsimp only at hd; cases hd; rw [← hc1]; exact hn
    | some w => dsimp only at hd; rw [← hc1]; exact define_lookup_self hd

/-- **FOR EACH over a string runs over its characters, in order**: the string `s` the list expression yields is
turned into a *fresh* list cell (address `σ1.heap.length`, not referred to by any variable or list) holding the
one-character strings of `s`; the body runs `s.length` times, run `i` with the loop variable bound to the one-character
string `[s[i]]`; afterwards a variable named like the loop variable is as it was before. -/
theorem foreach_string_runs_over_characters (cfg : Cfg) {fc f0 : Nat} (item : Str) (itok : Token) (list : Expr)
    (body : Stmt) (ft et int lt : Token) {σ0 σ σ1 σ2 σ4 : St} {s : Str} {cached : Option Value}
    (ws : Nat → Value) (st : Nat → St)
    (ht : tick σ0 = some σ) (hl : ExprEnds cfg fc list σ (.str s) σ1)
    (hr : removeVar (allocCell σ1 (.list ((StrOps.charsToStrs s).map Value.str))).2 item = .ok (cached, σ2))
    (h0 : st 0 = { σ2 with loops := {} :: σ2.loops })
    (hit : ∀ i (hi : i < s.length),
      ForIterF cfg f0 item σ1.heap.length i body (.str [s[i]]) (ws i) (st i) (st (i+1)))
    (hd : (match cached with
           | some w => define { st s.length with loops := σ2.loops } item w
           | none => .ok { st s.length with loops := σ2.loops }) = .ok σ4)
    {fuel : Nat} (hf : fc < fuel) (hf0 : f0 + s.length + 1 < fuel) :
    Spec.stmt cfg fuel (.forEach item itok list body ft et int lt) σ0 = .ok (.normal, σ4) ∧
    getList σ1 σ1.heap.length = none ∧
    lookupVar σ4 item = lookupVar σ1 item := by
  have hlen : ((StrOps.charsToStrs s).map Value.str).length = s.length := by simp [StrOps.charsToStrs]
  have hg : getList σ2 σ1.heap.length = some ((StrOps.charsToStrs s).map Value.str) := by
    rw [getList_of_heap_eq (removeVar_facts hr).2.2.1]
    simp [getList, allocCell]
  have h := foreach_stmt_visits_every_element cfg (fc := fc) (f0 := f0) item itok list body ft et int lt
    (v := .str s) (a := σ1.heap.length) (vs := (StrOps.charsToStrs s).map Value.str) ws st ht hl rfl hr hg h0
    (fun i hi => by
      have hi' : i < s.length := by rw [hlen] at hi; exact hi
      have e : ((StrOps.charsToStrs s).map Value.str)[i] = .str [s[i]] := by simp [StrOps.charsToStrs]
      rw [e]; exact hit i hi')
    (by rw [hlen]; exact hd) hf (by rw [hlen]; exact hf0)
  exact ⟨h.1, getList_fresh σ1, h.2.2⟩

/-- **FOR EACH leaves an outer variable of the same name as it was** — unconditionally: however the statement ends
(all elements visited, BREAK, RETURN, a list the body made shorter), if it ends at all and a variable named like
the loop variable was bound (to `w`) when the loop started — i.e. right after the list expression was evaluated, in
`σ1` —, it is bound to `w` afterwards. (If none was bound, none is bound after a loop whose iterations all end
normally — `foreach_stmt_visits_every_element` —, but the loop variable stays bound after a BREAK, a CONTINUE in
the last iteration or a RETURN: see `LoopDemo.loop_variable_leaks_after_break`.) -/
theorem foreach_restores_outer_variable (cfg : Cfg) (f : Nat) (item : Str) (itok : Token) (list : Expr)
    (body : Stmt) (ft et int lt : Token) {σ0 σ' : St} {sig : Sig}
    (h : Spec.stmt cfg f (.forEach item itok list body ft et int lt) σ0 = .ok (sig, σ')) :
    ∃ σ v σ1, tick σ0 = some σ ∧ Spec.expr cfg (f - 1) list σ = .ok (v, σ1) ∧
      ∀ w, lookupVar σ1 item = some w → lookupVar σ' item = some w := by
  cases f with
  | zero => simp only [Spec.stmt] at h; cases h
  | succ F =>
    simp only [Spec.stmt] at h
    cases ht : tick σ0 with
    | none => simp only [ht] at h; cases h
    | some σ =>
      simp only [ht] at h
      obtain ⟨⟨v, σ1⟩, he, h1⟩ := Res.bind_eq_ok h
      obtain ⟨⟨a, σ1'⟩, hi, h2⟩ := Res.bind_eq_ok h1
      obtain ⟨⟨cached, σ2⟩, hr, h3⟩ := Res.bind_eq_ok h2
      obtain ⟨len, _, h4⟩ := Res.bind_eq_ok h3
      obtain ⟨⟨sig', σ3⟩, _, h5⟩ := Res.bind_eq_ok h4
      obtain ⟨σ4, _, h6⟩ := Res.bind_eq_ok h5
      obtain ⟨σ5, hd, h7⟩ := Res.bind_eq_ok h6
      cases h7
      refine ⟨σ, v, σ1, rfl, he, ?_⟩
      intro w hw
      have hsc : σ1'.scopes = σ1.scopes := by
        cases v <;> first | (cases hi; rfl) | (simp [rtErr] at hi)
      have hc : cached = some w := by
        rw [(removeVar_facts hr).1, lookupVar_congr hsc]; exact hw
      subst hc
      exact define_lookup_self hd

/-- the common case `FOR EACH x IN l` (the list expression is a variable): a bound `x` has its old value afterwards -/
theorem foreach_restores_outer_variable_var (cfg : Cfg) (f : Nat) (item : Str) (itok : Token) (l : Str) (ltok : Token)
    (body : Stmt) (ft et int lt : Token) {σ0 σ' : St} {sig : Sig} {w : Value}
    (h : Spec.stmt cfg f (.forEach item itok (.var l ltok) body ft et int lt) σ0 = .ok (sig, σ'))
    (hw : lookupVar σ0 item = some w) : lookupVar σ' item = some w := by
  obtain ⟨σ, v, σ1, ht, he, hr⟩ := foreach_restores_outer_variable cfg f item itok _ body ft et int lt h
  apply hr
  have hs : σ.scopes = σ0.scopes := tick_scopes ht
  have h1 : σ1 = σ := by
    cases hf : f - 1 with
    | zero => rw [hf] at he; simp only [Spec.expr] at he; cases he
    | succ g =>
      rw [hf] at he
      simp only [Spec.expr] at he
      split at he
      · cases he; rfl
      · simp [rtErr] at he
  rw [h1, lookupVar_congr hs]; exact hw

/-- **BREAK in the run for position `j`** of FOR EACH: the loop ends `.normal` right there, the later elements
are not visited (and the loop variable is not written back for this run) -/
theorem forLoop_break_at (cfg : Cfg) {f0 : Nat} (item : Str) (a len : Nat) (body : Stmt) (st : Nat → St) (j : Nat)
    (hj : j < len) (h : ∀ i, i < j → ForIter cfg f0 item a i body (st i) (st (i+1)))
    {vs : List Value} {v : Value} {σb σe : St} (h1 : getList (st j) a = some vs) (h2 : vs[j]? = some v)
    (h3 : define (st j) item v = .ok σb) (h4 : StmtEnds cfg f0 body σb .brk σe)
    {fuel : Nat} (hf : f0 + j < fuel) :
    Spec.forLoop cfg fuel item a 0 len body (st 0) = .ok (.normal, σe) := by
  obtain ⟨g, rfl⟩ : ∃ g, fuel = (g + 1) + j := ⟨fuel - j - 1, by omega⟩
  have hp := forLoop_prefix cfg (f0 := f0) item a len body (g := g + 1) (by omega) j 0 st (by omega)
    (by intro i hi; rw [Nat.zero_add]; exact h i hi)
  have hlt : ¬ j ≥ len := by omega
  rw [hp, Nat.zero_add]
  simp only [Spec.forLoop, hlt, if_false, h1, Option.bind_some, h2, h3, Res.bind_ok]
  rw [h4 g (by omega)]
  rfl

/-- RETURN in the run for position `j`: the loop propagates `.ret w` -/
theorem forLoop_return_at (cfg : Cfg) {f0 : Nat} (item : Str) (a len : Nat) (body : Stmt) (st : Nat → St) (j : Nat)
    (hj : j < len) (h : ∀ i, i < j → ForIter cfg f0 item a i body (st i) (st (i+1)))
    {vs : List Value} {v w : Value} {σb σe : St} (h1 : getList (st j) a = some vs) (h2 : vs[j]? = some v)
    (h3 : define (st j) item v = .ok σb) (h4 : StmtEnds cfg f0 body σb (.ret w) σe)
    {fuel : Nat} (hf : f0 + j < fuel) :
    Spec.forLoop cfg fuel item a 0 len body (st 0) = .ok (.ret w, σe) := by
  obtain ⟨g, rfl⟩ : ∃ g, fuel = (g + 1) + j := ⟨fuel - j - 1, by omega⟩
  have hp := forLoop_prefix cfg (f0 := f0) item a len body (g := g + 1) (by omega) j 0 st (by omega)
    (by intro i hi; rw [Nat.zero_add]; exact h i hi)
  have hlt : ¬ j ≥ len := by omega
  rw [hp, Nat.zero_add]
  simp only [Spec.forLoop, hlt, if_false, h1, Option.bind_some, h2, h3, Res.bind_ok]
  rw [h4 g (by omega)]
  rfl

/-- a list the body made shorter: the loop stops (normally) at the first position that no longer exists -/
theorem forLoop_stops_at_shortened_list (cfg : Cfg) {f0 : Nat} (item : Str) (a len : Nat) (body : Stmt)
    (st : Nat → St) (j : Nat) (hj : j ≤ len) (h : ∀ i, i < j → ForIter cfg f0 item a i body (st i) (st (i+1)))
    (h1 : (getList (st j) a).bind (fun vs => vs[j]?) = none) {fuel : Nat} (hf : f0 + j < fuel) :
    Spec.forLoop cfg fuel item a 0 len body (st 0) = .ok (.normal, st j) := by
  obtain ⟨g, rfl⟩ : ∃ g, fuel = (g + 1) + j := ⟨fuel - j - 1, by omega⟩
  have hp := forLoop_prefix cfg (f0 := f0) item a len body (g := g + 1) (by omega) j 0 st (by omega)
    (by intro i hi; rw [Nat.zero_add]; exact h i hi)
  rw [hp, Nat.zero_add]
  simp only [Spec.forLoop, h1]
  split <;> rfl


/-! ## 5. BREAK and CONTINUE concern the innermost loop only; nothing runs after a signal -/

/-- the three loop statements -/
def Stmt.isLoop : Stmt → Prop
  | .repeatTimes .. => True
  | .repeatUntil .. => True
  | .forEach .. => True
  | _ => False

theorem Sig.leavesLoop_iff (sig : Sig) : Sig.leavesLoop sig ↔ (sig = .normal ∨ ∃ v, sig = .ret v) := by
  cases sig <;> simp [Sig.leavesLoop]

/-- **a loop statement never hands `brk` or `cont` to its context**: whatever happens inside — BREAK or CONTINUE at
any statement position of any nested block of its body — a REPEAT TIMES / REPEAT UNTIL / FOR EACH statement that
ends does so with `.normal` or with `.ret v`. Unconditional. -/
theorem loop_stmt_signal_is_normal_or_ret (cfg : Cfg) (f : Nat) (s : Stmt) (hs : s.isLoop) {σ0 σ' : St} {sig : Sig}
    (h : Spec.stmt cfg f s σ0 = .ok (sig, σ')) : sig = .normal ∨ ∃ v, sig = .ret v := by
  rw [← Sig.leavesLoop_iff]
  cases f with
  | zero => simp only [Spec.stmt] at h; cases h
  | succ F =>
    simp only [Spec.stmt] at h
    cases ht : tick σ0 with
    | none => simp only [ht] at h; cases h
    | some σ =>
      simp only [ht] at h
      cases s with
      | repeatTimes count body rt tt ct =>
        obtain ⟨⟨v, σ1⟩, _, h1⟩ := Res.bind_eq_ok h
        cases v with
        | num n =>
          obtain ⟨⟨s1, σ2⟩, hl, h2⟩ := Res.bind_eq_ok h1
          obtain ⟨σ3, _, h3⟩ := Res.bind_eq_ok h2
          cases h3
          exact repeatLoop_sig cfg _ _ _ _ _ _ hl
        | null => simp [rtErr] at h1
        | bool b => simp [rtErr] at h1
        | str x => simp [rtErr] at h1
        | list a => simp [rtErr] at h1
        | obj a => simp [rtErr] at h1
      | repeatUntil cond body rt ut =>
        obtain ⟨⟨s1, σ2⟩, hl, h2⟩ := Res.bind_eq_ok h
        obtain ⟨σ3, _, h3⟩ := Res.bind_eq_ok h2
        cases h3
        exact untilLoop_sig cfg _ _ _ _ _ _ hl
      | forEach item itok list body ft et int lt =>
        obtain ⟨⟨v, σ1⟩, _, h1⟩ := Res.bind_eq_ok h
        obtain ⟨⟨a, σ1'⟩, _, h2⟩ := Res.bind_eq_ok h1
        obtain ⟨⟨cached, σ2⟩, _, h3⟩ := Res.bind_eq_ok h2
        obtain ⟨len, _, h4⟩ := Res.bind_eq_ok h3
        obtain ⟨⟨s1, σ3⟩, hl, h5⟩ := Res.bind_eq_ok h4
        obtain ⟨σ4, _, h6⟩ := Res.bind_eq_ok h5
        obtain ⟨σ5, _, h7⟩ := Res.bind_eq_ok h6
        cases h7
        exact forLoop_sig cfg _ _ _ _ _ _ _ _ _ hl
      | expr e => exact absurd hs (by simp [Stmt.isLoop])
      | ifs c t e it et => exact absurd hs (by simp [Stmt.isLoop])
      | procDecl name params body exported pt nt => exact absurd hs (by simp [Stmt.isLoop])
      | block lb stmts rb => exact absurd hs (by simp [Stmt.isLoop])
      | ret tok value => exact absurd hs (by simp [Stmt.isLoop])
      | cont tok => exact absurd hs (by simp [Stmt.isLoop])
      | brk tok => exact absurd hs (by simp [Stmt.isLoop])
      | import_ it mt ft only mn => exact absurd hs (by simp [Stmt.isLoop])

/-- **nothing of a block runs after a signal** — at any position: if the statements `pre` all end normally
(leading from `σ` to `σ1`) and the next statement `s` ends with a signal other than `normal` (BREAK, CONTINUE or
RETURN, directly or from inside nested IFs / blocks), the block ends with that signal in exactly the state `s`
left — whatever `post` is: no statement of `post` is evaluated. Exact fuel. -/
theorem no_statement_after_signal (cfg : Cfg) (g : Nat) (pre : List Stmt) (s : Stmt) (post : List Stmt)
    {σ σ1 σ2 : St} {sig : Sig}
    (hpre : Spec.block cfg (g + 1 + pre.length) pre σ = .ok (.normal, σ1))
    (hs : Spec.stmt cfg g s σ1 = .ok (sig, σ2)) (hsig : sig ≠ .normal) :
    Spec.block cfg (g + 1 + pre.length) (pre ++ s :: post) σ = .ok (sig, σ2) := by
  rw [block_append cfg (g + 1) pre (s :: post) σ, hpre]
  simp only [Res.bind_ok, Spec.block, hs]

/-- … and after a statement that ends normally the block goes on with the next one -/
theorem block_continues_after_normal (cfg : Cfg) (g : Nat) (pre : List Stmt) (s : Stmt) (post : List Stmt)
    {σ σ1 σ2 : St} (hpre : Spec.block cfg (g + 1 + pre.length) pre σ = .ok (.normal, σ1))
    (hs : Spec.stmt cfg g s σ1 = .ok (.normal, σ2)) :
    Spec.block cfg (g + 1 + pre.length) (pre ++ s :: post) σ = Spec.block cfg g post σ2 := by
  rw [block_append cfg (g + 1) pre (s :: post) σ, hpre]
  simp only [Res.bind_ok, Spec.block, hs]

/-- **BREAK ends only the innermost loop; CONTINUE restarts only the innermost loop** — seen from the enclosing
block (e.g. the body of an OUTER loop): an inner loop statement `inner` at any position of the block, whatever its
body did (BREAK in some run, CONTINUE in others), ends `.normal` or `.ret v`. After `.normal` — in particular after
its body's BREAK — the enclosing block goes on with its next statement: the outer loop's current iteration
continues. The enclosing block ends with `brk` / `cont` only if one of its *own* later statements says so. -/
theorem break_and_continue_stay_in_innermost_loop (cfg : Cfg) (g : Nat) (pre : List Stmt) (inner : Stmt)
    (post : List Stmt) (hi : inner.isLoop) {σ σ1 σ2 : St} {sig : Sig}
    (hpre : Spec.block cfg (g + 1 + pre.length) pre σ = .ok (.normal, σ1))
    (hs : Spec.stmt cfg g inner σ1 = .ok (sig, σ2)) :
    (sig = .normal ∧ Spec.block cfg (g + 1 + pre.length) (pre ++ inner :: post) σ = Spec.block cfg g post σ2) ∨
    (∃ v, sig = .ret v ∧ Spec.block cfg (g + 1 + pre.length) (pre ++ inner :: post) σ = .ok (.ret v, σ2)) := by
  rcases loop_stmt_signal_is_normal_or_ret cfg g inner hi hs with rfl | ⟨v, rfl⟩
  · exact Or.inl ⟨rfl, block_continues_after_normal cfg g pre inner post hpre hs⟩
  · exact Or.inr ⟨v, rfl, no_statement_after_signal cfg g pre inner post hpre hs (by intro h; cases h)⟩

/-- **BREAK ends only the innermost loop** — seen from the loop: when the body of a loop signals `brk` in run `j`
(the earlier runs going on), the loop *statement* ends `.normal` — for all three loop forms. Together with
`loop_stmt_signal_is_normal_or_ret` / `break_and_continue_stay_in_innermost_loop`: the enclosing loop goes on. -/
theorem break_ends_only_innermost (cfg : Cfg) {f0 : Nat} (body : Stmt) :
    -- REPEAT n TIMES
    (∀ (fc : Nat) (count : Expr) (rt tt ct : Token) (σ0 σ σ1 : St) (n : Float) (st : Nat → St) (j fuel : Nat),
      tick σ0 = some σ → ExprEnds cfg fc count σ (.num n) σ1 → st 0 = { σ1 with loops := {} :: σ1.loops } →
      j < countOf n → RunsOn cfg f0 body st j → StmtEnds cfg f0 body (st j) .brk (st (j+1)) →
      fc < fuel → f0 + j + 1 < fuel →
      Spec.stmt cfg fuel (.repeatTimes count body rt tt ct) σ0 = .ok (.normal, { st (j+1) with loops := σ1.loops })) ∧
    -- REPEAT UNTIL
    (∀ (cond : Expr) (rt ut : Token) (σ0 σ : St) (st ct : Nat → St) (j fuel : Nat) (v : Value),
      tick σ0 = some σ → st 0 = { σ with loops := {} :: σ.loops } → UntilRunsOn cfg f0 cond body st ct j →
      ExprEnds cfg f0 cond (st j) v (ct j) → truthy v = false → StmtEnds cfg f0 body (ct j) .brk (st (j+1)) →
      f0 + j + 1 < fuel →
      Spec.stmt cfg fuel (.repeatUntil cond body rt ut) σ0 = .ok (.normal, { st (j+1) with loops := σ0.loops })) ∧
    -- FOR EACH (the loop function; the statement adds the pop and the restore, `forEach_wrap`)
    (∀ (item : Str) (a len : Nat) (st : Nat → St) (j fuel : Nat) (vs : List Value) (v : Value) (σb σe : St),
      j < len → (∀ i, i < j → ForIter cfg f0 item a i body (st i) (st (i+1))) →
      getList (st j) a = some vs → vs[j]? = some v → define (st j) item v = .ok σb →
      StmtEnds cfg f0 body σb .brk σe → f0 + j < fuel →
      Spec.forLoop cfg fuel item a 0 len body (st 0) = .ok (.normal, σe)) := by
  refine ⟨?_, ?_, ?_⟩
  · intro fc count rt tt ct σ0 σ σ1 n st j fuel ht hc h0 hj h hb hf hf0
    exact repeat_times_break_at cfg count body rt tt ct st j ht hc h0 hj h hb hf hf0
  · intro cond rt ut σ0 σ st ct j fuel v ht h0 h hc hv hb hf
    exact repeatUntil_wrap cfg (f1 := f0 + j + 1) cond body rt ut ht
      (fun _ hf' => by rw [← h0]; exact untilLoop_break_at cfg cond body st ct j h hc hv hb (by omega)) hf
  · intro item a len st j fuel vs v σb σe hj h h1 h2 h3 h4 hf
    exact forLoop_break_at cfg item a len body st j hj h h1 h2 h3 h4 hf

/-- **CONTINUE restarts only the innermost loop**: when the body signals `cont`, the same loop goes on with its
next iteration from the state the CONTINUE left — REPEAT TIMES with one iteration less to go, REPEAT UNTIL with the
next test of its condition, FOR EACH with the next position (without writing the loop variable back) — and (by
`loop_stmt_signal_is_normal_or_ret`) the signal never reaches an enclosing loop. -/
theorem continue_restarts_only_innermost (cfg : Cfg) {f0 : Nat} (body : Stmt) {σ σ' : St}
    (hb : StmtEnds cfg f0 body σ .cont σ') (f : Nat) (hf : f0 ≤ f) :
    (∀ k, Spec.repeatLoop cfg (f+1) (k+1) body σ = Spec.repeatLoop cfg f k body σ') ∧
    (∀ cond σc v, ExprEnds cfg f0 cond σc v σ → truthy v = false →
      Spec.untilLoop cfg (f+1) cond body σc = Spec.untilLoop cfg f cond body σ') ∧
    (∀ item a i len σs vs v, i < len → getList σs a = some vs → vs[i]? = some v → define σs item v = .ok σ →
      Spec.forLoop cfg (f+1) item a i len body σs = Spec.forLoop cfg f item a (i+1) len body σ') := by
  refine ⟨?_, ?_, ?_⟩
  · intro k
    simp only [Spec.repeatLoop, hb f hf, Res.bind_ok]
  · intro cond σc v hc hv
    simp only [Spec.untilLoop, hc f hf, Res.bind_ok, hv, Bool.false_eq_true, if_false, hb f hf]
  · intro item a i len σs vs v hi h1 h2 h3
    have hlt : ¬ i ≥ len := by omega
    simp only [Spec.forLoop, hlt, if_false, h1, Option.bind_some, h2, h3, Res.bind_ok, hb f hf]

/-! ## 6. IF / ELSE IF / ELSE -/

/-- an ELSE IF chain: `IF (c₀) t₀ ELSE IF (c₁) t₁ … ELSE e` is `.ifs c₀ t₀ (some (.ifs c₁ t₁ (… e)))` -/
def ifChain (tok : Token) : Expr × Stmt → List (Expr × Stmt) → Option Stmt → Stmt
  | (c, t), [], els => .ifs c t els tok (els.map fun _ => tok)
  | (c, t), arm :: arms, els => .ifs c t (some (ifChain tok arm arms els)) tok (some tok)

/-- arm `j` of the chain `arm :: arms` -/
def armAt : Expr × Stmt → List (Expr × Stmt) → Nat → Expr × Stmt
  | arm, _, 0 => arm
  | arm, [], _+1 => arm
  | _, a :: as, j+1 => armAt a as j

theorem armAt_eq_getElem : ∀ (arm : Expr × Stmt) (arms : List (Expr × Stmt)) (j : Nat) (h : j < (arm :: arms).length),
    armAt arm arms j = (arm :: arms)[j]
  | _, _, 0, _ => by cases ‹List _› <;> rfl
  | _, [], j+1, h => by simp only [List.length_cons, List.length_nil] at h; omega
  | _, a :: as, j+1, h => by
    simp only [armAt, List.getElem_cons_succ]
    exact armAt_eq_getElem a as j (by simp only [List.length_cons] at h ⊢; omega)

/-- `ChainSelects … arm arms σ0 j σb`: started in `σ0`, the chain evaluates the conditions of arms `0 … j` once
each, in order (each nested IF statement takes its tick first); those of arms `0 … j-1` are falsy, that of arm `j`
is truthy; `σb` is the state right after the test of arm `j` -/
inductive ChainSelects (cfg : Cfg) (f0 : Nat) : Expr × Stmt → List (Expr × Stmt) → St → Nat → St → Prop
  | here {c t arms σ0 σ v σ1} : tick σ0 = some σ → ExprEnds cfg f0 c σ v σ1 → truthy v = true →
      ChainSelects cfg f0 (c, t) arms σ0 0 σ1
  | next {c t arm arms σ0 σ v σ1 j σb} : tick σ0 = some σ → ExprEnds cfg f0 c σ v σ1 → truthy v = false →
      ChainSelects cfg f0 arm arms σ1 j σb → ChainSelects cfg f0 (c, t) (arm :: arms) σ0 (j+1) σb

/-- all conditions of the chain are falsy (evaluated once each, in order); `σb` is the state after the last test -/
inductive ChainNone (cfg : Cfg) (f0 : Nat) : Expr × Stmt → List (Expr × Stmt) → St → St → Prop
  | last {c t σ0 σ v σ1} : tick σ0 = some σ → ExprEnds cfg f0 c σ v σ1 → truthy v = false →
      ChainNone cfg f0 (c, t) [] σ0 σ1
  | next {c t arm arms σ0 σ v σ1 σb} : tick σ0 = some σ → ExprEnds cfg f0 c σ v σ1 → truthy v = false →
      ChainNone cfg f0 arm arms σ1 σb → ChainNone cfg f0 (c, t) (arm :: arms) σ0 σb

/-- **IF / ELSE IF / ELSE runs exactly the branch of the first truthy condition**: if the conditions before arm `j`
are falsy and that of arm `j` is truthy, the whole chain *is* the run of arm `j`'s branch from the state after its
test — the conditions before it are evaluated once each, in order, and neither a later condition nor another
branch nor the ELSE part is evaluated (the result does not depend on them: they are arbitrary here).
Exact fuel: each arm passed costs one unit. -/
theorem if_chain_selects_first_truthy (cfg : Cfg) {f0 : Nat} (tok : Token) (els : Option Stmt) :
    ∀ (arm : Expr × Stmt) (arms : List (Expr × Stmt)) (σ0 : St) (j : Nat) (σb : St),
      ChainSelects cfg f0 arm arms σ0 j σb → ∀ (g : Nat), f0 ≤ g →
      Spec.stmt cfg (g + j + 1) (ifChain tok arm arms els) σ0 = Spec.stmt cfg g (armAt arm arms j).2 σb := by
  intro arm arms σ0 j σb h
  induction h with
  | @here c t arms σ0 σ v σ1 ht hc hv =>
    intro g hg
    cases arms with
    | nil => simp only [ifChain, Spec.stmt, ht, hc g hg, Res.bind_ok, hv, if_true, armAt]
    | cons a as => simp only [ifChain, Spec.stmt, ht, hc g hg, Res.bind_ok, hv, if_true, armAt]
  | @next c t arm arms σ0 σ v σ1 j σb ht hc hv _ ih =>
    intro g hg
    have e : g + (j + 1) + 1 = (g + j + 1) + 1 := by omega
    rw [e]
    simp only [ifChain]
    rw [if_runs_exactly_one_branch cfg (g + j + 1) c t _ tok _ σ0 σ ht, hc (g + j + 1) (by omega)]
    simp only [Res.bind_ok, hv, Bool.false_eq_true, if_false, armAt]
    exact ih g hg

/-- no condition is truthy: exactly the ELSE part runs (after all conditions were evaluated once, in order), or
nothing when there is none -/
theorem if_chain_none_truthy (cfg : Cfg) {f0 : Nat} (tok : Token) (els : Option Stmt) :
    ∀ (arm : Expr × Stmt) (arms : List (Expr × Stmt)) (σ0 σb : St),
      ChainNone cfg f0 arm arms σ0 σb → ∀ (g : Nat), f0 ≤ g →
      Spec.stmt cfg (g + arms.length + 1) (ifChain tok arm arms els) σ0 =
        (match els with | some e => Spec.stmt cfg g e σb | none => .ok (.normal, σb)) := by
  intro arm arms σ0 σb h
  induction h with
  | @last c t σ0 σ v σ1 ht hc hv =>
    intro g hg
    simp only [ifChain, List.length_nil, Nat.add_zero, Spec.stmt, ht, hc g hg, Res.bind_ok, hv,
      Bool.false_eq_true, if_false]
    cases els <;> rfl
  | @next c t arm arms σ0 σ v σ1 σb ht hc hv _ ih =>
    intro g hg
    have e : g + (arm :: arms).length + 1 = (g + arms.length + 1) + 1 := by simp only [List.length_cons]; omega
    rw [e]
    simp only [ifChain]
    rw [if_runs_exactly_one_branch cfg (g + arms.length + 1) c t _ tok _ σ0 σ ht, hc (g + arms.length + 1) (by omega)]
    simp only [Res.bind_ok, hv, Bool.false_eq_true, if_false]
    exact ih g hg

/-! ## 7. statements run in program order, each exactly once per activation of its block -/

/-- the statements `ss`, run one after the other from `σ`, all end normally, the `i`-th one mapping the state it
finds by the `i`-th function of `gs` -/
inductive RunsInOrder (cfg : Cfg) (f0 : Nat) : List Stmt → List (St → St) → St → Prop
  | nil (σ) : RunsInOrder cfg f0 [] [] σ
  | cons {s ss g gs σ} : StmtEnds cfg f0 s σ .normal (g σ) → RunsInOrder cfg f0 ss gs (g σ) →
      RunsInOrder cfg f0 (s :: ss) (g :: gs) σ

/-- **a block of statements that end normally is the left-to-right composition of their state functions**: each
statement runs exactly once per activation of the block, in program order, the next one from the state the previous
one left. Fuel: any `fuel ≥ f0 + ss.length`. -/
theorem block_runs_each_once_in_order (cfg : Cfg) {f0 : Nat} : ∀ (ss : List Stmt) (gs : List (St → St)) (σ : St),
    RunsInOrder cfg f0 ss gs σ → ∀ (fuel : Nat), f0 + ss.length ≤ fuel →
    Spec.block cfg fuel ss σ = .ok (.normal, gs.foldl (fun τ g => g τ) σ) := by
  intro ss gs σ h
  induction h with
  | nil σ => intro fuel _; exact Spec.block_nil cfg fuel σ
  | @cons s ss g gs σ hs _ ih =>
    intro fuel hf
    obtain ⟨F, rfl⟩ : ∃ F, fuel = F + 1 := ⟨fuel - 1, by simp only [List.length_cons] at hf; omega⟩
    simp only [List.length_cons] at hf
    simp only [Spec.block, hs F (by omega), Res.bind_ok, List.foldl_cons]
    exact ih F (by omega)

/-- the block *statement* `{ … }`: the same between `createNested` and `flattenNested` -/
theorem block_stmt_runs_each_once_in_order (cfg : Cfg) {f0 : Nat} (lb rb : Token) (ss : List Stmt)
    (gs : List (St → St)) {σ0 σ σn σ' : St} (ht : tick σ0 = some σ) (hn : createNested σ = .ok σn)
    (h : RunsInOrder cfg f0 ss gs σn) (hfl : flattenNested (gs.foldl (fun τ g => g τ) σn) = .ok σ')
    {fuel : Nat} (hf : f0 + ss.length < fuel) :
    Spec.stmt cfg fuel (.block lb ss rb) σ0 = .ok (.normal, σ') := by
  obtain ⟨F, rfl⟩ : ∃ F, fuel = F + 1 := ⟨fuel - 1, by omega⟩
  simp only [Spec.stmt, ht, hn, Res.bind_ok, block_runs_each_once_in_order cfg ss gs σn h F (by omega), hfl]


theorem ChainSelects.lt {cfg : Cfg} {f0 : Nat} {arm : Expr × Stmt} {arms : List (Expr × Stmt)} {σ0 σb : St} {j : Nat}
    (h : ChainSelects cfg f0 arm arms σ0 j σb) : j < (arm :: arms).length := by
  induction h with
  | here _ _ _ => simp only [List.length_cons]; omega
  | next _ _ _ _ ih => simp only [List.length_cons] at ih ⊢; omega

/-! ## transport to the evaluator model

`stmt_refines_spec` (Thm/C02): for a statement the parser accepts (`WFStmt il fn s`: BREAK / CONTINUE only inside
loops, RETURN only inside procedures) run in a state where no flag and no return value is pending (`SInv il σ`), the
evaluator model and the reference semantics agree. So every `Spec.stmt … = .ok (sig, σ')` derived above is a fact
about the model (the Rust interpreter's structure: flags on a loop-control stack, polled by blocks and loops). -/

/-- whatever the reference semantics computes for an accepted statement, the evaluator model computes — the signal
encoded as BREAK / CONTINUE flag of the innermost loop-control record or as pending return value (`enc`) -/
theorem model_of_spec_ok (cfg : Cfg) (hc : CfgOK cfg) {f : Nat} {il fn : Bool} {s : Stmt} {σ σ' : St} {sig : Sig}
    (hw : WFStmt il fn s) (i : SInv il σ) (h : Spec.stmt cfg f s σ = .ok (sig, σ')) :
    stmt cfg f s σ = .ok (enc sig σ') := by
  have hs := stmt_refines_spec cfg hc f il fn s σ hw i
  rw [h] at hs
  cases hm : stmt cfg f s σ with
  | ok τ => rw [hm] at hs; rw [hs.1]
  | err e a => rw [hm] at hs; exact hs.elim
  | terminate w a => rw [hm] at hs; exact hs.elim
  | panic p a => rw [hm] at hs; exact hs.elim
  | fuel => rw [hm] at hs; exact hs.elim

/-- and conversely: a successful run of the model is a successful run of the reference semantics -/
theorem spec_of_model_ok (cfg : Cfg) (hc : CfgOK cfg) {f : Nat} {il fn : Bool} {s : Stmt} {σ τ : St}
    (hw : WFStmt il fn s) (i : SInv il σ) (h : stmt cfg f s σ = .ok τ) :
    ∃ sig σ', Spec.stmt cfg f s σ = .ok (sig, σ') ∧ τ = enc sig σ' ∧ sigOK il fn sig ∧ Keeps σ σ' := by
  have hs := stmt_refines_spec cfg hc f il fn s σ hw i
  rw [h] at hs
  cases hm : Spec.stmt cfg f s σ with
  | ok p => obtain ⟨sig, σ'⟩ := p; rw [hm] at hs; exact ⟨sig, σ', rfl, hs.1, hs.2.1, hs.2.2⟩
  | err e a => rw [hm] at hs; exact hs.elim
  | terminate w a => rw [hm] at hs; exact hs.elim
  | panic p a => rw [hm] at hs; exact hs.elim
  | fuel => rw [hm] at hs; exact hs.elim

/-- **model level: REPEAT n TIMES runs its body exactly ⌊n⌋ times** — the evaluator model's `stmt`, for an accepted
REPEAT statement whose body behaves (in the reference semantics) as `BodyStep` says -/
theorem model_repeat_times_runs_floor_n_times (cfg : Cfg) (hcfg : CfgOK cfg) {fc f0 : Nat} (count : Expr) (body : Stmt)
    (rt tt ct : Token) {il fn : Bool} {σ0 σ σ1 : St} {n : Float} {I : Nat → St → Prop} {step : St → St}
    (hw : WFStmt il fn (.repeatTimes count body rt tt ct)) (i : SInv il σ0)
    (ht : tick σ0 = some σ) (hc : ExprEnds cfg fc count σ (.num n) σ1)
    (hb : BodyStep cfg f0 body I step) (hI : I (countOf n) { σ1 with loops := {} :: σ1.loops })
    {fuel : Nat} (hf : fc < fuel) (hf0 : f0 + countOf n < fuel) :
    stmt cfg fuel (.repeatTimes count body rt tt ct) σ0 =
      .ok { iter step (countOf n) { σ1 with loops := {} :: σ1.loops } with loops := σ1.loops } :=
  model_of_spec_ok cfg hcfg hw i (repeat_times_runs_floor_n_times cfg count body rt tt ct ht hc hb hI hf hf0)

theorem enc_scopes (sig : Sig) (σ : St) : (enc sig σ).scopes = σ.scopes := by cases sig <;> rfl

theorem enc_loops_of_leaves (sig : Sig) (σ : St) (h : sig = .normal ∨ ∃ v, sig = .ret v) :
    (enc sig σ).loops = σ.loops := by
  rcases h with rfl | ⟨v, rfl⟩ <;> rfl

/-- **model level: an inner loop leaves the flags of the enclosing loop alone.** When the evaluator model has run an
accepted loop statement — whatever BREAKs and CONTINUEs happened inside —, the loop-control stack is exactly the one
before the statement: the enclosing loop's `should_break` / `should_continue` flags are still clear, so the enclosing
block does not stop and the enclosing loop neither ends nor skips; only a RETURN (inside a procedure) is pending. -/
theorem model_loop_stmt_leaves_outer_flags (cfg : Cfg) (hc : CfgOK cfg) {f : Nat} {il fn : Bool} {s : Stmt} {σ τ : St}
    (hl : s.isLoop) (hw : WFStmt il fn s) (i : SInv il σ) (h : stmt cfg f s σ = .ok τ) :
    τ.loops = σ.loops ∧ (τ.ret = none ∨ fn = true) := by
  obtain ⟨sig, σ', hs, rfl, hok, hk⟩ := spec_of_model_ok cfg hc hw i h
  have hsig := loop_stmt_signal_is_normal_or_ret cfg f s hl hs
  refine ⟨(enc_loops_of_leaves sig σ' hsig).trans hk.loops, ?_⟩
  rcases hsig with rfl | ⟨v, rfl⟩
  · exact Or.inl hk.ret
  · exact Or.inr hok

/-- **model level: FOR EACH leaves an outer variable of the same name as it was** (`FOR EACH x IN l`) -/
theorem model_foreach_restores_outer_variable (cfg : Cfg) (hc : CfgOK cfg) {f : Nat} {il fn : Bool} (item : Str)
    (itok : Token) (l : Str) (ltok : Token) (body : Stmt) (ft et int lt : Token) {σ0 τ : St} {w : Value}
    (hw : WFStmt il fn (.forEach item itok (.var l ltok) body ft et int lt)) (i : SInv il σ0)
    (h : stmt cfg f (.forEach item itok (.var l ltok) body ft et int lt) σ0 = .ok τ)
    (hx : lookupVar σ0 item = some w) : lookupVar τ item = some w := by
  obtain ⟨sig, σ', hs, rfl, _, _⟩ := spec_of_model_ok cfg hc hw i h
  rw [lookupVar_congr (enc_scopes sig σ')]
  exact foreach_restores_outer_variable_var cfg f item itok l ltok body ft et int lt hs hx


/-! ## non-vacuity: the hypotheses of every headline theorem hold for concrete programs, and the conclusions say what
the kernel computes for them -/

namespace LoopDemo

def cfg0 : Cfg := genCfg CharEnv.ascii
def tk : Token := default
def num (n : Float) : Expr := .lit (.num n) tk
def var (x : Str) : Expr := .var x tk
def asg (x : Str) (e : Expr) : Stmt := .expr (.assign x tk e tk)
def bin (a : Expr) (op : BinOp) (b : Expr) : Expr := .binary a op b tk
def blk (ss : List Stmt) : Stmt := .block tk ss tk

def okSt (r : Res (Sig × St)) : St := match r with | .ok (_, σ) => σ | _ => default
def isNormal (r : Res (Sig × St)) : Bool := match r with | .ok (.normal, _) => true | _ => false
def isBrk (r : Res (Sig × St)) : Bool := match r with | .ok (.brk, _) => true | _ => false
def isCont (r : Res (Sig × St)) : Bool := match r with | .ok (.cont, _) => true | _ => false
def exOr (r : Res (Value × St)) : Value × St := match r with | .ok p => p | _ => (.null, default)
def isOkE (r : Res (Value × St)) : Bool := match r with | .ok _ => true | _ => false
def numIs (o : Option Value) (n : Float) : Bool := match o with | some (.num x) => x == n | _ => false
def strIs (o : Option Value) (s : Str) : Bool := match o with | some (.str x) => x == s | _ => false
def isNone (o : Option Value) : Bool := match o with | none => true | _ => false
def numsAre (o : Option (List Value)) (ns : List Float) : Bool :=
  match o with
  | some vs => vs.length == ns.length && (vs.zip ns).all fun p => match p.1 with | .num x => x == p.2 | _ => false
  | none => false

theorem eq_of_isNormal {r : Res (Sig × St)} (h : isNormal r = true) : r = .ok (.normal, okSt r) := by
  cases r with
  | ok p => obtain ⟨sig, σ⟩ := p; cases sig <;> first | rfl | cases h
  | _ => cases h
theorem eq_of_isBrk {r : Res (Sig × St)} (h : isBrk r = true) : r = .ok (.brk, okSt r) := by
  cases r with
  | ok p => obtain ⟨sig, σ⟩ := p; cases sig <;> first | rfl | cases h
  | _ => cases h
theorem eq_of_isCont {r : Res (Sig × St)} (h : isCont r = true) : r = .ok (.cont, okSt r) := by
  cases r with
  | ok p => obtain ⟨sig, σ⟩ := p; cases sig <;> first | rfl | cases h
  | _ => cases h
theorem eq_of_isOkE {r : Res (Value × St)} (h : isOkE r = true) : r = .ok ((exOr r).1, (exOr r).2) := by
  cases r <;> first | rfl | cases h

/-- a literal evaluates to itself, with any fuel from 1 on, and leaves the state alone -/
theorem lit_ends (n : Float) (σ : St) : ExprEnds cfg0 1 (num n) σ (.num n) σ := by
  intro f hf
  obtain ⟨g, rfl⟩ : ∃ g, f = g + 1 := ⟨f - 1, by omega⟩
  rfl

/-! ### REPEAT n TIMES — a body with a closed-form state function

`x <- x + 1`: from every state with at least `r + 1` units of statement budget in which `x` is a number, the body
ends normally in the state with one unit less and `x` one more. -/

def incX : Stmt := asg ['x'] (bin (var ['x']) .add (num 1))

def GoodX (r : Nat) (σ : St) : Prop :=
  r ≤ σ.budget ∧ ∃ fr rest n, σ.scopes = fr :: rest ∧ fr.get? ['x'] = some (.num n)

def stepX (σ : St) : St :=
  match σ.scopes with
  | fr :: rest =>
    (match fr.get? ['x'] with
     | some (.num n) => { σ with budget := σ.budget - 1, scopes := fr.set ['x'] (.num (n + 1)) :: rest }
     | _ => σ)
  | [] => σ

theorem incX_step : BodyStep cfg0 4 incX GoodX stepX where
  ends := by
    intro r σ ⟨hb, fr, rest, n, hs, hx⟩
    refine ⟨.normal, trivial, ?_⟩
    intro f hf
    obtain ⟨g, rfl⟩ : ∃ g, f = g + 4 := ⟨f - 4, by omega⟩
    have hne : ¬ σ.budget = 0 := by omega
    have ht : tick σ = some { σ with budget := σ.budget - 1 } := by simp only [tick, hne, if_false]
    simp only [incX, asg, bin, var, num, Spec.stmt, ht, Spec.expr, lookupVar, hs, hx, litValue, binop, Res.bind_ok,
      assignVar, define, stepX]
  inv := by
    intro r σ ⟨hb, fr, rest, n, hs, hx⟩
    refine ⟨?_, fr.set ['x'] (.num (n + 1)), rest, n + 1, ?_, Frame.get?_set_self _ _ _⟩
    · simp only [stepX, hs, hx]; omega
    · simp only [stepX, hs, hx]

def σx : St := { scopes := [[(['x'], .num 0)]] }
def σxt : St := { σx with budget := 999999 }

/-- `REPEAT 3.7 TIMES x <- x + 1` from `x = 0`: the count is evaluated once, the body's state function is applied
`countOf 3.7 = 3` times, the loop-control stack is empty again, and `x` is 3 -/
example : Spec.stmt cfg0 10 (.repeatTimes (num 3.7) incX tk tk tk) σx =
      .ok (.normal, { iter stepX 3 { σxt with loops := [{}] } with loops := [] }) ∧
    numIs (lookupVar (iter stepX 3 { σxt with loops := [{}] }) ['x']) 3 = true := by
  have hc : countOf 3.7 = 3 := by decide
  have h := repeat_times_runs_floor_n_times cfg0 (num 3.7) incX tk tk tk (σ0 := σx) (σ := σxt) (σ1 := σxt)
    (n := 3.7) rfl (lit_ends 3.7 σxt) incX_step
    (by rw [hc]; exact ⟨by decide, _, _, 0, rfl, rfl⟩) (fuel := 10) (by decide) (by rw [hc]; decide)
  rw [hc] at h
  exact ⟨h, by decide +kernel⟩

/-- the same at the level of the evaluator model (`stmt`): the statement is one the parser accepts, no flag is pending -/
example : stmt cfg0 10 (.repeatTimes (num 3.7) incX tk tk tk) σx =
    .ok { iter stepX (countOf 3.7) { σxt with loops := [{}] } with loops := [] } :=
  model_repeat_times_runs_floor_n_times cfg0 (genCfg_ok _) (num 3.7) incX tk tk tk (il := false) (fn := false)
    (σ0 := σx) (σ := σxt) (σ1 := σxt) (n := 3.7) (by simp [WFStmt, incX, asg])
    ⟨rfl, trivial, procsWF_nil, procsWF_nil, by intro h; cases h⟩ rfl (lit_ends 3.7 σxt) incX_step
    (by rw [show countOf 3.7 = 3 by decide]; exact ⟨by decide, _, _, 0, rfl, rfl⟩) (fuel := 10) (by decide)
    (by rw [show countOf 3.7 = 3 by decide]; decide)

/-- a count below 1: `REPEAT 0.99 TIMES …` and `REPEAT -2 TIMES …` do not run the body -/
example : Spec.stmt cfg0 5 (.repeatTimes (num 0.99) incX tk tk tk) σx = .ok (.normal, σxt) ∧
    Spec.stmt cfg0 5 (.repeatTimes (num (-2)) incX tk tk tk) σx = .ok (.normal, σxt) :=
  ⟨repeat_times_none_below_one cfg0 (num 0.99) incX tk tk tk (σ := σxt) rfl (lit_ends _ σxt) (by decide) (by decide),
   repeat_times_none_below_one cfg0 (num (-2)) incX tk tk tk (σ := σxt) rfl (lit_ends _ σxt) (by decide) (by decide)⟩

end LoopDemo


namespace LoopDemo

/-! ### REPEAT with BREAK: `REPEAT 5 TIMES { x <- x + 1 ; IF (x == 2) { BREAK } }`

The states are computed by the kernel (`stB (i+1)` is what the body makes of `stB i`); the theorem says what the
statement as a whole does with them. -/

def bodyB : Stmt := blk [incX, .ifs (bin (var ['x']) .eqeq (num 2)) (blk [.brk tk]) none tk none]

def stB : Nat → St
  | 0 => { σxt with loops := {} :: σxt.loops }
  | i+1 => okSt (Spec.stmt cfg0 12 bodyB (stB i))

/-- run 0 ends normally (x = 1), run 1 ends with BREAK (x = 2): the statement ends `.normal` after 2 of its 5 runs,
`x` is 2 and the loop-control stack is empty again -/
example : Spec.stmt cfg0 30 (.repeatTimes (num 5) bodyB tk tk tk) σx = .ok (.normal, { stB 2 with loops := [] }) ∧
    numIs (lookupVar (stB 2) ['x']) 2 = true := by
  refine ⟨?_, by decide +kernel⟩
  refine repeat_times_break_at cfg0 (f0 := 12) (num 5) bodyB tk tk tk (σ := σxt) (σ1 := σxt) (n := 5) stB 1 rfl
    (lit_ends 5 σxt) rfl (by decide) ?_ (StmtEnds.of_eval (eq_of_isBrk (by decide +kernel))) (by decide) (by decide)
  intro i hi
  obtain rfl : i = 0 := by omega
  exact ⟨.normal, trivial, StmtEnds.of_eval (eq_of_isNormal (by decide +kernel))⟩

/-! ### REPEAT UNTIL: `REPEAT UNTIL (x >= 3) { x <- x + 1 }` from `x = 0` -/

def condU : Expr := bin (var ['x']) .ge (num 3)
def bodyU : Stmt := blk [incX]

/-- `stU i`: the state before test `i`; `ctU i`: the state after it -/
def stU : Nat → St
  | 0 => { σxt with loops := {} :: σxt.loops }
  | i+1 => okSt (Spec.stmt cfg0 10 bodyU (exOr (Spec.expr cfg0 10 condU (stU i))).2)
def ctU (i : Nat) : St := (exOr (Spec.expr cfg0 10 condU (stU i))).2
def cvU (i : Nat) : Value := (exOr (Spec.expr cfg0 10 condU (stU i))).1

theorem untilDemo_runs : UntilRunsOn cfg0 10 condU bodyU stU ctU 3 := by
  intro i hi
  have step : ∀ k, isOkE (Spec.expr cfg0 10 condU (stU k)) = true → truthy (cvU k) = false →
      isNormal (Spec.stmt cfg0 10 bodyU (ctU k)) = true →
      ∃ v sig, ExprEnds cfg0 10 condU (stU k) v (ctU k) ∧ truthy v = false ∧ Sig.goesOn sig ∧
        StmtEnds cfg0 10 bodyU (ctU k) sig (stU (k+1)) :=
    fun k h1 h2 h3 => ⟨cvU k, .normal, ExprEnds.of_eval (eq_of_isOkE h1), h2, trivial,
      StmtEnds.of_eval (eq_of_isNormal h3)⟩
  match i, hi with
  | 0, _ => exact step 0 (by decide +kernel) (by decide +kernel) (by decide +kernel)
  | 1, _ => exact step 1 (by decide +kernel) (by decide +kernel) (by decide +kernel)
  | 2, _ => exact step 2 (by decide +kernel) (by decide +kernel) (by decide +kernel)
  | i+3, h => exact absurd h (by omega)

/-- three falsy tests (x = 0, 1, 2), then a truthy one (x = 3): the body ran 3 times, the condition was evaluated 4
times, the statement ends `.normal` in the state right after the fourth test -/
example : Spec.stmt cfg0 40 (.repeatUntil condU bodyU tk tk) σx = .ok (.normal, { ctU 3 with loops := [] }) ∧
    numIs (lookupVar (ctU 3) ['x']) 3 = true := by
  refine ⟨?_, by decide +kernel⟩
  exact repeat_until_stmt cfg0 condU bodyU tk tk (σ := σxt) stU ctU 3 rfl rfl untilDemo_runs
    (v := cvU 3) (ExprEnds.of_eval (eq_of_isOkE (by decide +kernel))) (by decide +kernel) (by decide)

/-- a condition that is true at once: no run of the body (`j = 0`) -/
example : Spec.untilLoop cfg0 5 (bin (num 1) .eqeq (num 1)) bodyU σx = .ok (.normal, σx) :=
  until_stops_first_time_true cfg0 (f0 := 2) _ bodyU (fun _ => σx) (fun _ => σx) 0
    (fun i hi => absurd hi (by omega)) (v := .bool true)
    (fun f hf => by obtain ⟨g, rfl⟩ : ∃ g, f = g + 2 := ⟨f - 2, by omega⟩; rfl) rfl (by decide)

end LoopDemo


namespace LoopDemo

/-- decidable equality of values — for the kernel-evaluated checks of this section only (a local instance) -/
@[instance_reducible] def valueDecEq : DecidableEq Value := by
  intro a b
  cases a <;> cases b <;>
    first
    | exact isTrue rfl
    | (rename_i x y; exact if h : x = y then isTrue (by rw [h]) else isFalse (by intro e; cases e; exact h rfl))
    | exact isFalse (by intro e; cases e)
attribute [local instance] valueDecEq

/-! ### REPEAT UNTIL with state functions (`until_runs_j_times`): the same loop, the evaluator as state function -/

def cvalU (σ : St) : Value := (exOr (Spec.expr cfg0 10 condU σ)).1
def cstepU (σ : St) : St := (exOr (Spec.expr cfg0 10 condU σ)).2
def stepU (σ : St) : St := okSt (Spec.stmt cfg0 10 bodyU σ)
/-- the states in which the condition is tested -/
def IU (σ : St) : Prop := σ = stU 0 ∨ σ = stU 1 ∨ σ = stU 2 ∨ σ = stU 3

example : Spec.untilLoop cfg0 20 condU bodyU (stU 0) =
    .ok (.normal, cstepU (iter (fun s => stepU (cstepU s)) 3 (stU 0))) := by
  refine until_runs_j_times cfg0 (f0 := 10) condU bodyU IU cvalU cstepU stepU ?_ ?_ (stU 0) (Or.inl rfl) 3 ?_
    (by decide +kernel) (by decide)
  · intro σ hσ
    rcases hσ with rfl | rfl | rfl | rfl <;> exact ExprEnds.of_eval (eq_of_isOkE (by decide +kernel))
  · intro σ hσ hf
    rcases hσ with rfl | rfl | rfl | rfl
    · exact ⟨Or.inr (Or.inl rfl), .normal, trivial, StmtEnds.of_eval (eq_of_isNormal (by decide +kernel))⟩
    · exact ⟨Or.inr (Or.inr (Or.inl rfl)), .normal, trivial, StmtEnds.of_eval (eq_of_isNormal (by decide +kernel))⟩
    · exact ⟨Or.inr (Or.inr (Or.inr rfl)), .normal, trivial, StmtEnds.of_eval (eq_of_isNormal (by decide +kernel))⟩
    · exact absurd hf (by decide +kernel)
  · intro i hi
    match i, hi with
    | 0, _ => decide +kernel
    | 1, _ => decide +kernel
    | 2, _ => decide +kernel
    | i+3, h => exact absurd h (by omega)

/-! ### FOR EACH over a list: `FOR EACH e IN l { s <- s + e ; e <- e * 2 }` with `l = [1, 2, 3]`, `s = 0` -/

def σL : St := { heap := [.list [.num 1, .num 2, .num 3]], scopes := [[(['l'], .list 0), (['s'], .num 0)]] }
def σLt : St := { σL with budget := 999999 }
def bodyF : Stmt := blk [asg ['s'] (bin (var ['s']) .add (var ['e'])), asg ['e'] (bin (var ['e']) .mul (num 2))]
def vsF : List Value := [.num 1, .num 2, .num 3]
/-- iteration `i` from `σ`: the state after binding the loop variable, after the body, the loop variable's value
then, the state after unbinding it -/
def sbF (i : Nat) (σ : St) : St := match define σ ['e'] (vsF.getD i .null) with | .ok τ => τ | _ => default
def seF (i : Nat) (σ : St) : St := okSt (Spec.stmt cfg0 12 bodyF (sbF i σ))
def wF (i : Nat) (σ : St) : Value := (lookupVar (seF i σ) ['e']).getD .null
def srF (i : Nat) (σ : St) : St := match removeVar (seF i σ) ['e'] with | .ok (_, τ) => τ | _ => default
def stF : Nat → St
  | 0 => { σLt with loops := {} :: σLt.loops }
  | i+1 => writeBack (srF i (stF i)) 0 i (some (wF i (stF i)))
def wsF (i : Nat) : Value := wF i (stF i)

theorem define_eq_of_some {σ : St} {x : Str} {v : Value} (h : σ.scopes ≠ []) :
    define σ x v = .ok (match define σ x v with | .ok τ => τ | _ => default) := by
  unfold define
  cases hs : σ.scopes with
  | nil => exact absurd hs h
  | cons fr rest => rfl

theorem removeVar_eq_of_bound {σ : St} {x : Str} (h : (lookupVar σ x).isSome = true) :
    removeVar σ x = .ok (some ((lookupVar σ x).getD .null), match removeVar σ x with | .ok (_, τ) => τ | _ => default) := by
  unfold removeVar lookupVar at *
  cases hs : σ.scopes with
  | nil => rw [hs] at h; cases h
  | cons fr rest =>
    rw [hs] at h
    dsimp only at h ⊢
    cases hg : fr.get? x with
    | none => rw [hg] at h; cases h
    | some w => rfl

theorem forDemo_iter (i : Nat) (hi : i < vsF.length)
    (h1 : (stF i).scopes ≠ []) (h2 : isNormal (Spec.stmt cfg0 12 bodyF (sbF i (stF i))) = true)
    (h3 : getList (seF i (stF i)) 0 = getList (sbF i (stF i)) 0)
    (h4 : (lookupVar (seF i (stF i)) ['e']).isSome = true) :
    ForIterF cfg0 12 ['e'] 0 i bodyF vsF[i] (wsF i) (stF i) (stF (i+1)) := by
  refine ⟨sbF i (stF i), seF i (stF i), srF i (stF i), ?_, StmtEnds.of_eval (eq_of_isNormal h2), h3,
    removeVar_eq_of_bound h4, rfl⟩
  have : vsF.getD i .null = vsF[i] := by simp [List.getD, hi]
  rw [← this]
  exact define_eq_of_some h1

theorem forDemo_all : ∀ i (hi : i < vsF.length), ForIterF cfg0 12 ['e'] 0 i bodyF vsF[i] (wsF i) (stF i) (stF (i+1))
  | 0, h => forDemo_iter 0 h (by decide +kernel) (by decide +kernel) (by decide +kernel) (by decide +kernel)
  | 1, h => forDemo_iter 1 h (by decide +kernel) (by decide +kernel) (by decide +kernel) (by decide +kernel)
  | 2, h => forDemo_iter 2 h (by decide +kernel) (by decide +kernel) (by decide +kernel) (by decide +kernel)
  | i+3, h => absurd h (by simp [vsF])

def forStmt : Stmt := .forEach ['e'] tk (var ['l']) bodyF tk tk tk tk

/-- the hypotheses of `foreach_stmt_visits_every_element` hold; its conclusion: the statement ends `.normal`, the
list is `[2, 4, 6]` (each element was visited and doubled, in order), `s` is `1 + 2 + 3 = 6` (each was seen), and
the loop variable `e` — unbound before — is unbound after -/
example : Spec.stmt cfg0 40 forStmt σL = .ok (.normal, { stF 3 with loops := [] }) ∧
    getList { stF 3 with loops := [] } 0 = some (overwrite wsF 3 vsF) ∧
    lookupVar { stF 3 with loops := [] } ['e'] = none ∧
    numsAre (some (overwrite wsF 3 vsF)) [2, 4, 6] = true ∧
    numIs (lookupVar (stF 3) ['s']) 6 = true := by
  have h := foreach_stmt_visits_every_element cfg0 (fc := 1) (f0 := 12) ['e'] tk (var ['l']) bodyF tk tk tk tk
    (σ0 := σL) (σ := σLt) (σ1 := σLt) (σ1' := σLt) (σ2 := σLt) (σ4 := { stF 3 with loops := [] }) (v := .list 0)
    (a := 0) (cached := none) (vs := vsF) wsF stF rfl
    (fun f hf => by obtain ⟨g, rfl⟩ : ∃ g, f = g + 1 := ⟨f - 1, by omega⟩; rfl)
    rfl rfl rfl rfl forDemo_all rfl (fuel := 40) (by decide) (by decide)
  exact ⟨h.1, h.2.1, h.2.2, by decide +kernel, by decide +kernel⟩

/-- the loop variable at the start of each run is the element at that position: 1, then 2, then 3 -/
example : numIs (lookupVar (sbF 0 (stF 0)) ['e']) 1 = true ∧ numIs (lookupVar (sbF 1 (stF 1)) ['e']) 2 = true ∧
    numIs (lookupVar (sbF 2 (stF 2)) ['e']) 3 = true := by decide +kernel

/-! ### FOR EACH restores an outer variable; strings; BREAK -/

/-- `e` is bound to 7 before `FOR EACH e IN l { … }`: it is 7 afterwards (`foreach_restores_outer_variable_var`
applied to what the kernel computes for the statement) -/
def σL7 : St := { σL with scopes := [[(['l'], .list 0), (['s'], .num 0), (['e'], .num 7)]] }

example : ∃ σ', Spec.stmt cfg0 40 forStmt σL7 = .ok (.normal, σ') ∧ lookupVar σ' ['e'] = some (.num 7) := by
  have h := eq_of_isNormal (r := Spec.stmt cfg0 40 forStmt σL7) (by decide +kernel)
  exact ⟨_, h, foreach_restores_outer_variable_var cfg0 40 ['e'] tk ['l'] tk bodyF tk tk tk tk h rfl⟩

/-- the same in the evaluator model -/
example : ∃ τ, stmt cfg0 40 forStmt σL7 = .ok τ ∧ lookupVar τ ['e'] = some (.num 7) := by
  have hw : WFStmt false false forStmt := by simp [forStmt, WFStmt, bodyF, blk, asg, WFList]
  have hi : SInv false σL7 := ⟨rfl, trivial, procsWF_nil, procsWF_nil, by intro h; cases h⟩
  have h := model_of_spec_ok cfg0 (genCfg_ok _) hw hi
    (eq_of_isNormal (r := Spec.stmt cfg0 40 forStmt σL7) (by decide +kernel))
  exact ⟨_, h, model_foreach_restores_outer_variable cfg0 (genCfg_ok _) ['e'] tk ['l'] tk bodyF tk tk tk tk hw hi h rfl⟩

/-- `FOR EACH c IN "ab" { n <- n + 1 ; IF (n == 1) { first <- c } ; last <- c }` from `n = 0`: the loop runs over
the characters, in order — two runs, the first with `c = "a"`, the last with `c = "b"` — and `c` is unbound afterwards -/
def strStmt : Stmt := .forEach ['c'] tk (.lit (.str ['a', 'b']) tk)
  (blk [asg ['n'] (bin (var ['n']) .add (num 1)),
        .ifs (bin (var ['n']) .eqeq (num 1)) (blk [asg ['f'] (var ['c'])]) none tk none,
        asg ['z'] (var ['c'])]) tk tk tk tk
def σS : St := { scopes := [[(['n'], .num 0)]] }

example : isNormal (Spec.stmt cfg0 40 strStmt σS) = true ∧
    numIs (lookupVar (okSt (Spec.stmt cfg0 40 strStmt σS)) ['n']) 2 = true ∧
    strIs (lookupVar (okSt (Spec.stmt cfg0 40 strStmt σS)) ['f']) ['a'] = true ∧
    strIs (lookupVar (okSt (Spec.stmt cfg0 40 strStmt σS)) ['z']) ['b'] = true ∧
    isNone (lookupVar (okSt (Spec.stmt cfg0 40 strStmt σS)) ['c']) = true := by decide +kernel

/-- the cell the loop runs over is fresh and holds `"a"`, `"b"` -/
example : ∃ σ', iterCell (.str ['a', 'b']) σS = some (0, σ') ∧ getList σS 0 = none ∧
    getList σ' 0 = some [.str ['a'], .str ['b']] := by
  obtain ⟨σ', h1, h2, h3, _⟩ := iterCell_str ['a', 'b'] σS
  exact ⟨σ', h1, h2, h3⟩

/-- **a finding about the unbound case**: after `FOR EACH e IN l { BREAK }` with `e` unbound before, `e` is bound
(to the first element) after the loop — the loop variable is only removed after an iteration that ends normally.
An outer variable is restored in every case (above); a loop variable that shadowed nothing can stay behind. -/
theorem loop_variable_leaks_after_break :
    isNormal (Spec.stmt cfg0 40 (.forEach ['e'] tk (var ['l']) (blk [.brk tk]) tk tk tk tk) σL) = true ∧
    isNone (lookupVar σL ['e']) = true ∧
    numIs (lookupVar (okSt (Spec.stmt cfg0 40 (.forEach ['e'] tk (var ['l']) (blk [.brk tk]) tk tk tk tk) σL)) ['e']) 1
      = true := by decide +kernel

/-- BREAK at position 1 of FOR EACH (`forLoop_break_at`): `FOR EACH e IN l { IF (e == 2) { BREAK } ; s <- s + e }` -/
def bodyFB : Stmt := blk [.ifs (bin (var ['e']) .eqeq (num 2)) (blk [.brk tk]) none tk none,
  asg ['s'] (bin (var ['s']) .add (var ['e']))]
def sbFB (i : Nat) (σ : St) : St := match define σ ['e'] (vsF.getD i .null) with | .ok τ => τ | _ => default
def stFB : Nat → St
  | 0 => { σLt with loops := {} :: σLt.loops }
  | i+1 => writeBack (match removeVar (okSt (Spec.stmt cfg0 12 bodyFB (sbFB i (stFB i)))) ['e'] with
                      | .ok (_, τ) => τ | _ => default) 0 i
             (some ((lookupVar (okSt (Spec.stmt cfg0 12 bodyFB (sbFB i (stFB i)))) ['e']).getD .null))

example : Spec.forLoop cfg0 30 ['e'] 0 0 3 bodyFB (stFB 0) =
      .ok (.normal, okSt (Spec.stmt cfg0 12 bodyFB (sbFB 1 (stFB 1)))) ∧
    numIs (lookupVar (okSt (Spec.stmt cfg0 12 bodyFB (sbFB 1 (stFB 1)))) ['s']) 1 = true := by
  refine ⟨?_, by decide +kernel⟩
  refine forLoop_break_at cfg0 (f0 := 12) ['e'] 0 3 bodyFB stFB 1 (by decide) ?_ (vs := vsF) (v := .num 2)
    (σb := sbFB 1 (stFB 1)) (by decide +kernel) rfl (define_eq_of_some (by decide +kernel))
    (StmtEnds.of_eval (eq_of_isBrk (by decide +kernel))) (by decide)
  intro i hi
  obtain rfl : i = 0 := by omega
  exact Or.inl ⟨vsF, .num 1, sbFB 0 (stFB 0), _, _, _, by decide +kernel, rfl, define_eq_of_some (by decide +kernel),
    StmtEnds.of_eval (eq_of_isNormal (by decide +kernel)), removeVar_eq_of_bound (by decide +kernel), rfl⟩

end LoopDemo


namespace LoopDemo

/-! ### BREAK / CONTINUE and nesting -/

def σxy : St := { scopes := [[(['x'], .num 0), (['y'], .num 0)]] }
/-- inside the body of an outer loop: one loop-control record is active -/
def σin : St := { σxy with loops := [{}] }
def incY : Stmt := asg ['y'] (bin (var ['y']) .add (num 1))
def plus100 : Stmt := asg ['x'] (bin (var ['x']) .add (num 100))
/-- `REPEAT 3 TIMES { x <- x + 1 ; BREAK ; x <- x + 100 }` -/
def innerB : Stmt := .repeatTimes (num 3) (blk [incX, .brk tk, plus100]) tk tk tk
/-- `REPEAT 2 TIMES { REPEAT 3 TIMES { x <- x + 1 ; BREAK ; x <- x + 100 } ; y <- y + 1 }` -/
def outerB : Stmt := .repeatTimes (num 2) (blk [innerB, incY]) tk tk tk

/-- the inner BREAK ends the inner loop only: the outer loop makes both its iterations (`y = 2`), each running the
inner body once up to its BREAK (`x = 2`, never `+ 100`) -/
example : isNormal (Spec.stmt cfg0 60 outerB σxy) = true ∧
    numIs (lookupVar (okSt (Spec.stmt cfg0 60 outerB σxy)) ['x']) 2 = true ∧
    numIs (lookupVar (okSt (Spec.stmt cfg0 60 outerB σxy)) ['y']) 2 = true := by decide +kernel

/-- `loop_stmt_signal_is_normal_or_ret` / `break_and_continue_stay_in_innermost_loop` on the outer body
`[inner ; y <- y + 1]`: the inner loop (whose body BREAKs) ends `.normal`, and the block goes on with `y <- y + 1` -/
example : Spec.block cfg0 31 ([] ++ innerB :: [incY]) σin = Spec.block cfg0 30 [incY] (okSt (Spec.stmt cfg0 30 innerB σin)) := by
  have hs := eq_of_isNormal (r := Spec.stmt cfg0 30 innerB σin) (by decide +kernel)
  rcases break_and_continue_stay_in_innermost_loop cfg0 30 [] innerB [incY] trivial (σ := σin) (σ1 := σin)
    (Spec.block_nil cfg0 _ σin) hs with ⟨_, h⟩ | ⟨v, hv, _⟩
  · exact h
  · cases hv

/-- the evaluator model: after the inner loop statement the outer loop's control record is as before — both flags clear -/
example : ∃ τ, stmt cfg0 30 innerB σin = .ok τ ∧ τ.loops = [{}] := by
  have hw : WFStmt true false innerB := by simp [innerB, WFStmt, blk, WFList, incX, plus100, asg]
  have hi : SInv true σin := ⟨rfl, rfl, procsWF_nil, procsWF_nil, by intro _ h; cases h⟩
  have h := model_of_spec_ok cfg0 (genCfg_ok _) hw hi
    (eq_of_isNormal (r := Spec.stmt cfg0 30 innerB σin) (by decide +kernel))
  exact ⟨_, h, (model_loop_stmt_leaves_outer_flags cfg0 (genCfg_ok _) (s := innerB) trivial hw hi h).1⟩

/-- `break_ends_only_innermost`, REPEAT TIMES component, on the loop of `repeat_times_break_at`'s example -/
example : Spec.stmt cfg0 30 (.repeatTimes (num 5) bodyB tk tk tk) σx = .ok (.normal, { stB 2 with loops := [] }) :=
  (break_ends_only_innermost cfg0 (f0 := 12) bodyB).1 1 (num 5) tk tk tk σx σxt σxt 5 stB 1 30 rfl (lit_ends 5 σxt) rfl
    (by decide)
    (fun i hi => by
      obtain rfl : i = 0 := by omega
      exact ⟨.normal, trivial, StmtEnds.of_eval (eq_of_isNormal (by decide +kernel))⟩)
    (StmtEnds.of_eval (eq_of_isBrk (by decide +kernel))) (by decide) (by decide)

/-- `no_statement_after_signal`: in `{ x <- x + 1 ; BREAK ; x <- x + 100 }` the statement after BREAK is not
evaluated: the block ends with `brk` in the state the BREAK statement left, where `x` is 1 -/
example : Spec.block cfg0 12 ([incX] ++ .brk tk :: [plus100]) σin =
      .ok (.brk, okSt (Spec.stmt cfg0 10 (.brk tk) (okSt (Spec.block cfg0 12 [incX] σin)))) ∧
    numIs (lookupVar (okSt (Spec.stmt cfg0 10 (.brk tk) (okSt (Spec.block cfg0 12 [incX] σin)))) ['x']) 1 = true :=
  ⟨no_statement_after_signal cfg0 10 [incX] (.brk tk) [plus100]
    (eq_of_isNormal (r := Spec.block cfg0 12 [incX] σin) (by decide +kernel))
    (eq_of_isBrk (by decide +kernel)) (by intro h; cases h), by decide +kernel⟩

/-- `continue_restarts_only_innermost`: after `{ x <- x + 1 ; CONTINUE ; x <- x + 100 }` the REPEAT loop goes on with
its remaining iterations from the state the CONTINUE left -/
def bodyC : Stmt := blk [incX, .cont tk, plus100]

example : ∀ k, Spec.repeatLoop cfg0 21 (k+1) bodyC σin = Spec.repeatLoop cfg0 20 k bodyC (okSt (Spec.stmt cfg0 12 bodyC σin)) :=
  (continue_restarts_only_innermost cfg0 (f0 := 12) bodyC
    (StmtEnds.of_eval (eq_of_isCont (r := Spec.stmt cfg0 12 bodyC σin) (by decide +kernel))) 20 (by decide)).1

/-- … so `REPEAT 3 TIMES { x <- x + 1 ; CONTINUE ; x <- x + 100 }` makes all three iterations: `x = 3` -/
example : numIs (lookupVar (okSt (Spec.stmt cfg0 40 (.repeatTimes (num 3) bodyC tk tk tk) σxy)) ['x']) 3 = true := by
  decide +kernel

/-! ### IF / ELSE IF / ELSE: `IF (x == 1) y <- 10 ELSE IF (x == 2) y <- 20 ELSE IF (boom == 1) y <- 99 ELSE y <- 30`, `x = 2` -/

def σx2 : St := { scopes := [[(['x'], .num 2), (['y'], .num 0)]] }
def arm0 : Expr × Stmt := (bin (var ['x']) .eqeq (num 1), asg ['y'] (num 10))
def arm1 : Expr × Stmt := (bin (var ['x']) .eqeq (num 2), asg ['y'] (num 20))
/-- its condition reads an undefined variable: evaluating it would be a runtime error -/
def arm2 : Expr × Stmt := (bin (var ['b', 'o', 'o', 'm']) .eqeq (num 1), asg ['y'] (num 99))
def chain : Stmt := ifChain tk arm0 [arm1, arm2] (some (asg ['y'] (num 30)))

def tickOr (σ : St) : St := match tick σ with | some τ => τ | none => default
theorem tick_eq_of_budget {σ : St} (h : (σ.budget != 0) = true) : tick σ = some (tickOr σ) := by
  have : ¬ σ.budget = 0 := by simpa using h
  simp only [tickOr, tick, this, if_false]

def a0 : St := tickOr σx2
def b0 : St := (exOr (Spec.expr cfg0 5 arm0.1 a0)).2
def a1 : St := tickOr b0
def b1 : St := (exOr (Spec.expr cfg0 5 arm1.1 a1)).2

theorem chain_selects : ChainSelects cfg0 5 arm0 [arm1, arm2] σx2 1 b1 :=
  .next (tick_eq_of_budget (by decide +kernel)) (ExprEnds.of_eval (eq_of_isOkE (by decide +kernel))) (by decide +kernel)
    (.here (tick_eq_of_budget (by decide +kernel)) (ExprEnds.of_eval (eq_of_isOkE (by decide +kernel)))
      (by decide +kernel))

/-- the chain is the run of the second branch `y <- 20` from the state after the second test: the first condition was
evaluated (falsy), the third — which would fail — and the ELSE part were not -/
example : Spec.stmt cfg0 12 chain σx2 = Spec.stmt cfg0 10 (asg ['y'] (num 20)) b1 ∧
    numIs (lookupVar (okSt (Spec.stmt cfg0 12 chain σx2)) ['y']) 20 = true ∧
    isOkE (Spec.expr cfg0 5 arm2.1 b1) = false :=
  ⟨if_chain_selects_first_truthy cfg0 tk _ arm0 [arm1, arm2] σx2 1 b1 chain_selects 10 (by decide),
   by decide +kernel, by decide +kernel⟩

/-- no condition truthy (`x = 2` against `x == 1` only): the ELSE part runs -/
example : Spec.stmt cfg0 11 (ifChain tk arm0 [] (some (asg ['y'] (num 30)))) σx2 = Spec.stmt cfg0 10 (asg ['y'] (num 30)) b0 :=
  if_chain_none_truthy cfg0 tk (some (asg ['y'] (num 30))) arm0 [] σx2 b0
    (.last (tick_eq_of_budget (by decide +kernel)) (ExprEnds.of_eval (eq_of_isOkE (by decide +kernel))) (by decide +kernel))
    10 (by decide)

/-! ### a block: `x <- 1 ; y <- x + 1 ; x <- y + 1` -/

def s1 : Stmt := asg ['x'] (num 1)
def s2 : Stmt := asg ['y'] (bin (var ['x']) .add (num 1))
def s3 : Stmt := asg ['x'] (bin (var ['y']) .add (num 1))
def g1 (σ : St) : St := okSt (Spec.stmt cfg0 6 s1 σ)
def g2 (σ : St) : St := okSt (Spec.stmt cfg0 6 s2 σ)
def g3 (σ : St) : St := okSt (Spec.stmt cfg0 6 s3 σ)
def σe : St := {}

theorem blockDemo_runs : RunsInOrder cfg0 6 [s1, s2, s3] [g1, g2, g3] σe :=
  .cons (StmtEnds.of_eval (eq_of_isNormal (r := Spec.stmt cfg0 6 s1 σe) (by decide +kernel)))
    (.cons (StmtEnds.of_eval (eq_of_isNormal (r := Spec.stmt cfg0 6 s2 (g1 σe)) (by decide +kernel)))
      (.cons (StmtEnds.of_eval (eq_of_isNormal (r := Spec.stmt cfg0 6 s3 (g2 (g1 σe))) (by decide +kernel)))
        (.nil _)))

/-- the block is `g3 ∘ g2 ∘ g1`: each statement once, in order — `y = 2` (from the first `x`), then `x = 3` -/
example : Spec.block cfg0 9 [s1, s2, s3] σe = .ok (.normal, g3 (g2 (g1 σe))) ∧
    numIs (lookupVar (g3 (g2 (g1 σe))) ['x']) 3 = true ∧ numIs (lookupVar (g3 (g2 (g1 σe))) ['y']) 2 = true :=
  ⟨block_runs_each_once_in_order cfg0 _ _ σe blockDemo_runs 9 (by decide), by decide +kernel, by decide +kernel⟩

end LoopDemo

namespace LoopDemo
attribute [local instance] valueDecEq

/-! ### FOR EACH over a string with the theorem: `FOR EACH c IN "ab" { z <- c }` -/

def dOr (r : Res St) : St := match r with | .ok τ => τ | _ => default
def rOr (r : Res (Option Value × St)) : St := match r with | .ok (_, τ) => τ | _ => default
/-- one normal iteration, computed: bind, run the body (fuel 12), unbind, write back -/
def endOf (item : Str) (body : Stmt) (v : Value) (σ : St) : St := okSt (Spec.stmt cfg0 12 body (dOr (define σ item v)))
def lastOf (item : Str) (body : Stmt) (v : Value) (σ : St) : Value := (lookupVar (endOf item body v σ) item).getD .null
def nextOf (item : Str) (a i : Nat) (body : Stmt) (v : Value) (σ : St) : St :=
  writeBack (rOr (removeVar (endOf item body v σ) item)) a i (some (lastOf item body v σ))

theorem forIterF_of_checks (item : Str) (a i : Nat) (body : Stmt) (v : Value) (σ : St) (h1 : σ.scopes ≠ [])
    (h2 : isNormal (Spec.stmt cfg0 12 body (dOr (define σ item v))) = true)
    (h3 : getList (endOf item body v σ) a = getList (dOr (define σ item v)) a)
    (h4 : (lookupVar (endOf item body v σ) item).isSome = true) :
    ForIterF cfg0 12 item a i body v (lastOf item body v σ) σ (nextOf item a i body v σ) :=
  ⟨dOr (define σ item v), endOf item body v σ, rOr (removeVar (endOf item body v σ) item), define_eq_of_some h1,
    StmtEnds.of_eval (eq_of_isNormal h2), h3, removeVar_eq_of_bound h4, rfl⟩

def sAB : Str := ['a', 'b']
def bodyS : Stmt := blk [asg ['z'] (var ['c'])]
def σSt : St := { σS with budget := 999999 }
def σSa : St := (allocCell σSt (.list ((StrOps.charsToStrs sAB).map Value.str))).2
def stS : Nat → St
  | 0 => { σSa with loops := {} :: σSa.loops }
  | i+1 => nextOf ['c'] 0 i bodyS (.str [sAB.getD i 'x']) (stS i)
def wsS (i : Nat) : Value := lastOf ['c'] bodyS (.str [sAB.getD i 'x']) (stS i)

theorem strDemo_all : ∀ i (hi : i < sAB.length),
    ForIterF cfg0 12 ['c'] σSt.heap.length i bodyS (.str [sAB[i]]) (wsS i) (stS i) (stS (i+1))
  | 0, _ => forIterF_of_checks ['c'] 0 0 bodyS (.str ['a']) (stS 0) (by decide +kernel) (by decide +kernel)
      (by decide +kernel) (by decide +kernel)
  | 1, _ => forIterF_of_checks ['c'] 0 1 bodyS (.str ['b']) (stS 1) (by decide +kernel) (by decide +kernel)
      (by decide +kernel) (by decide +kernel)
  | i+2, h => absurd h (by simp [sAB])

/-- the hypotheses of `foreach_string_runs_over_characters` hold for this loop; its conclusion, here: the statement
ends `.normal`, the cell the loop ran over was fresh, `c` is unbound as before, and `z` is the last character -/
example : Spec.stmt cfg0 40 (.forEach ['c'] tk (.lit (.str sAB) tk) bodyS tk tk tk tk) σS =
      .ok (.normal, { stS 2 with loops := [] }) ∧
    getList σSt 0 = none ∧ lookupVar { stS 2 with loops := [] } ['c'] = none ∧
    strIs (lookupVar (stS 2) ['z']) ['b'] = true := by
  have h := foreach_string_runs_over_characters cfg0 (fc := 1) (f0 := 12) ['c'] tk (.lit (.str sAB) tk) bodyS tk tk tk tk
    (σ0 := σS) (σ := σSt) (σ1 := σSt) (σ2 := σSa) (σ4 := { stS 2 with loops := [] }) (s := sAB) (cached := none)
    wsS stS rfl
    (fun f hf => by obtain ⟨g, rfl⟩ : ∃ g, f = g + 1 := ⟨f - 1, by omega⟩; rfl)
    rfl rfl
    strDemo_all
    rfl (fuel := 40) (by decide) (by decide)
  exact ⟨h.1, h.2.1, h.2.2, by decide +kernel⟩

end LoopDemo

/-! ## axioms -/

#print axioms countOf_floor
#print axioms countOf_pos_iff
#print axioms repeatLoop_runs_k_times
#print axioms repeat_times_runs_floor_n_times
#print axioms repeat_times_break_at
#print axioms repeat_times_return_at
#print axioms stmt_keeps_loop_stack
#print axioms until_stops_first_time_true
#print axioms until_runs_j_times
#print axioms repeat_until_stmt
#print axioms foreach_visits_every_element_in_order
#print axioms foreach_stmt_visits_every_element
#print axioms foreach_restores_outer_variable
#print axioms foreach_restores_outer_variable_var
#print axioms iterCell_str
#print axioms foreach_string_runs_over_characters
#print axioms forLoop_break_at
#print axioms forLoop_stops_at_shortened_list
#print axioms loop_stmt_signal_is_normal_or_ret
#print axioms no_statement_after_signal
#print axioms break_and_continue_stay_in_innermost_loop
#print axioms break_ends_only_innermost
#print axioms continue_restarts_only_innermost
#print axioms if_chain_selects_first_truthy
#print axioms if_chain_none_truthy
#print axioms block_runs_each_once_in_order
#print axioms block_stmt_runs_each_once_in_order
#print axioms model_of_spec_ok
#print axioms model_repeat_times_runs_floor_n_times
#print axioms model_loop_stmt_leaves_outer_flags
#print axioms model_foreach_restores_outer_variable
#print axioms LoopDemo.loop_variable_leaks_after_break
#print axioms Spec.spStable
#print axioms Spec.loopsAll

end Aplang
