import Aplang.Proofs.NativeEqns
import Aplang.Model.Lexer
/-!
# C15 — the MATH module, number ↔ text, RANDOM

Model: `callMath`, the `RANDOM` arm of `callCore` (`Model/Natives.lean`; src `standard_library/math.rs`,
`mod.rs`), `numberValue` (`Model/Lexer.lean`), `display` (`Model/State.lean`), `F64.fmt` / `F64.parse`
(`Prim/F64.lean`).

## What is proved, and at which strength

* MATH (all general, for every `Float` argument, state and span):
  `math_total` (never an error, never a state change), `math1_table` + `math1_call` (which `f64` method each
  one-argument procedure is), `native_log` / `native_clamp` / `native_atan2` (argument order), `math_constants`
  (bit patterns of `std::f64::consts`), `math_cast_leftmost` (non-number ⇒ error at that argument).
  The transcendental functions (`Float.sin`, …) are opaque in Lean: the theorems say *which* function is
  applied to *which* arguments, not what its value is.  `Float.asinh`/`acosh` are replaced by `rustAsinh` /
  `rustAcosh`, the formulas Rust's `std` uses (they overflow to `inf` for `|x| ≥ 2^1023`; instance below).
* Number text:
  `literal_is_nearest` (general, definitional: a literal is `Float.ofScientific digits (-#fraction digits)`;
  `Float.ofScientific` is *specified* as the correctly rounded value — `Init/Data/OfScientific.lean`,
  `Float.Model.UnpackedFloat.ofScientific`: exact product/quotient by the power of ten followed by one
  round-to-nearest-even — that specification is Lean's, it is not re-proved here);
  `display_of_number` (general: DISPLAY of a number prints `F64.fmt x`);
  `to_number_of_display` (general *reduction*: TO_NUMBER(text of x) = x follows from `F64.parse (F64.fmt x) = some x`);
  general facts about `F64.fmt`: `fmt_charset` (only the characters `-0123456789.`, or one of `inf`, `-inf`,
  `NaN`: never an exponent), `fmt_nan`, `fmt_inf`, `fmt_neg_inf`, `fmt_zero`, `fmt_neg_zero` (in terms of
  the bit pattern), `integers_without_point` (an integer `1 ≤ |x| < 2^53`, recognised by `F64.smallInt?` on the bit
  pattern, prints without a decimal point).
  **Instances only** (kernel evaluation, `by decide`; tests of the primitive, not theorems): the shapes
  `3 ↦ "3"`, `0.1`, `0.1+0.2 ↦ "0.30000000000000004"`, `1e21`, `5e-324`, … and `parse (fmt x) = some x`
  for those `x`.
  **Open** (not proved, named here): `display_reads_back : ∀ x, ¬ x.isNaN → F64.parse (F64.fmt x) = some x`
  and `fmt_shortest : ∀ x s, F64.parse s = some x → (digits of F64.fmt x) ≤ (digits of s)`.  Their evidence is
  the differential validation of `Prim/F64.lean` against rustc (3 million cases) and the instances below.
* RANDOM (general, for every choice list in `σ.world.rng`): `random_in_range`, `random_hits_both_ends`,
  `random_hits_every_value`, `random_empty_range_errors`, `random_state` (only `world.rng` changes).

No theorem of this file is `_partial`.
-/
namespace Aplang.C15
open Aplang

variable (env : CharEnv) (σ : St)

/-! ## MATH: every procedure is total on numbers -/

/-- the procedures of the MATH module -/
def mathNatives : List Native := Native.all.filter fun n => n.module == "MATH"

theorem mathNatives_eq :
    mathNatives = [.sin, .cos, .tan, .asin, .acos, .atan, .atan2, .sinh, .cosh, .tanh, .asinh, .acosh, .atanh,
      .exp, .log, .log10, .log2, .round, .floor, .ceil, .int, .clamp, .pi, .e, .tau] := by decide

theorem mathNatives_length : mathNatives.length = 25 := by decide

theorem mem_mathNatives (n : Native) : n ∈ mathNatives ↔ n.module = "MATH" := by
  cases n <;> decide

/-- all MATH arguments are numbers -/
theorem math_sig (n : Native) (h : n.module = "MATH") : n.sig = List.replicate n.arity .num := by
  cases n <;> first | rfl | exact absurd h (by decide)

/-- **MATH is total**: on numbers, every MATH procedure returns a number, never an error, and leaves the
state alone — for all doubles, infinities, NaN, zeros and out-of-domain values included. -/
theorem math_total (n : Native) (hm : n.module = "MATH") (args : List Value) (spans : List Span)
    (hl : args.length = n.arity) (hs : spans.length = n.arity) (hnum : ∀ v ∈ args, ∃ x, v = .num x) :
    ∃ r, callNative env n args spans σ = .ok (.num r, σ) := by
  cases n <;> first | exact absurd hm (by decide) | skip
  all_goals
    simp only [Native.arity, Native.info] at hl hs
    rcases args with _ | ⟨a, _ | ⟨b, _ | ⟨c, _ | ⟨d, args⟩⟩⟩⟩ <;> simp at hl
    rcases spans with _ | ⟨s1, _ | ⟨s2, _ | ⟨s3, _ | ⟨s4, spans⟩⟩⟩⟩ <;> simp at hs
  all_goals try (obtain ⟨x, rfl⟩ := hnum a (by simp))
  all_goals try (obtain ⟨y, rfl⟩ := hnum b (by simp))
  all_goals try (obtain ⟨z, rfl⟩ := hnum c (by simp))
  all_goals
    simp only [callNative_sin, callNative_cos, callNative_tan, callNative_asin, callNative_acos, callNative_atan,
      callNative_atan2, callNative_sinh, callNative_cosh, callNative_tanh, callNative_asinh, callNative_acosh,
      callNative_atanh, callNative_exp, callNative_log, callNative_log10, callNative_log2, callNative_round,
      callNative_floor, callNative_ceil, callNative_int, callNative_clamp, callNative_pi, callNative_e,
      callNative_tau, castNum, Res.bind_ok]
    exact ⟨_, rfl⟩

/-! ## MATH: which function, which argument order -/

/-- the one-argument procedures and the `f64` method each one names.  `INT` is `f64::trunc`; `ASINH` / `ACOSH`
are the formulas of Rust's `std` (`rustAsinh`, `rustAcosh`), see `Model/Natives.lean`. -/
theorem math1_table :
    math1 .sin = some Float.sin ∧ math1 .cos = some Float.cos ∧ math1 .tan = some Float.tan ∧
    math1 .asin = some Float.asin ∧ math1 .acos = some Float.acos ∧ math1 .atan = some Float.atan ∧
    math1 .sinh = some Float.sinh ∧ math1 .cosh = some Float.cosh ∧ math1 .tanh = some Float.tanh ∧
    math1 .asinh = some rustAsinh ∧ math1 .acosh = some rustAcosh ∧ math1 .atanh = some Float.atanh ∧
    math1 .exp = some Float.exp ∧ math1 .log10 = some Float.log10 ∧ math1 .log2 = some Float.log2 ∧
    math1 .round = some Float.round ∧ math1 .floor = some Float.floor ∧ math1 .ceil = some Float.ceil ∧
    math1 .int = some F64.trunc :=
  ⟨rfl, rfl, rfl, rfl, rfl, rfl, rfl, rfl, rfl, rfl, rfl, rfl, rfl, rfl, rfl, rfl, rfl, rfl, rfl⟩

/-- the table covers exactly the one-argument MATH procedures -/
theorem math1_isSome_iff (n : Native) : (math1 n).isSome = true ↔ n.module = "MATH" ∧ n.arity = 1 := by
  cases n <;> decide

/-- **dispatch**: a one-argument MATH procedure applies its table entry to its argument -/
theorem math1_call (n : Native) (f : Float → Float) (h : math1 n = some f) (x : Float) (s : Span) :
    callNative env n [.num x] [s] σ = .ok (.num (f x), σ) := by
  rw [callNative_math1 env σ h]; rfl

/-- `LOG(value, base)` = `f64::log(value, base)` = `ln value / ln base` -/
theorem native_log (v b : Float) (s1 s2 : Span) :
    callNative env .log [.num v, .num b] [s1, s2] σ = .ok (.num (Float.log v / Float.log b), σ) := rfl

/-- `CLAMP(value, min, max)` = `value.max(min).min(max)` -/
theorem native_clamp (v lo hi : Float) (s1 s2 s3 : Span) :
    callNative env .clamp [.num v, .num lo, .num hi] [s1, s2, s3] σ =
      .ok (.num (F64.minF (F64.maxF v lo) hi), σ) := rfl

/-- `ATAN2(y, x)` = `f64::atan2(y, x)` -/
theorem native_atan2 (y x : Float) (s1 s2 : Span) :
    callNative env .atan2 [.num y, .num x] [s1, s2] σ = .ok (.num (Float.atan2 y x), σ) := rfl

/-- the order matters and is the documented one: a swapped call is a different term -/
example (v b : Float) (s1 s2 : Span) :
    callNative env .log [.num b, .num v] [s1, s2] σ = .ok (.num (Float.log b / Float.log v), σ) := rfl

/-- `PI`, `E`, `TAU`: the doubles of `std::f64::consts` (bit patterns), which are also the doubles nearest to
the decimal expansions -/
theorem math_constants (sp : List Span) :
    callNative env .pi [] sp σ = .ok (.num (Float.ofBits 0x400921FB54442D18), σ) ∧
    callNative env .e [] sp σ = .ok (.num (Float.ofBits 0x4005BF0A8B145769), σ) ∧
    callNative env .tau [] sp σ = .ok (.num (Float.ofBits 0x401921FB54442D18), σ) := ⟨rfl, rfl, rfl⟩

theorem math_constants_decimal :
    (3.14159265358979323846264338327950288 : Float).toBits = 0x400921FB54442D18 ∧
    (2.71828182845904523536028747135266250 : Float).toBits = 0x4005BF0A8B145769 ∧
    (6.28318530717958647692528676655900577 : Float).toBits = 0x401921FB54442D18 := by decide

/-! ## MATH: a non-number argument -/

theorem castFail_num_iff (v : Value) (sp : Span) :
    (ArgTy.castFail .num v sp σ = none ↔ ∃ x, v = .num x) ∧
    ((∀ x, v ≠ .num x) → ArgTy.castFail .num v sp σ = some (.err ⟨"Invalid Argument Cast: NUMBER", sp⟩ σ)) := by
  cases v <;> simp [ArgTy.castFail, castErr]

/-- **a non-number argument is a runtime error at the span of that argument** (the left-most one, if there
are several): for a MATH procedure, if argument `i` is not a number and the arguments before it are. -/
theorem math_cast_leftmost (n : Native) (hm : n.module = "MATH") (args : List Value) (spans : List Span)
    (hl : args.length = n.arity) (hs : spans.length = n.arity)
    (i : Nat) (v : Value) (sp : Span) (hv : args[i]? = some v) (hsp : spans[i]? = some sp)
    (hprev : ∀ j v', j < i → args[j]? = some v' → ∃ x, v' = .num x)
    (hbad : ∀ x, v ≠ .num x) :
    callNative env n args spans σ = .err ⟨"Invalid Argument Cast: NUMBER", sp⟩ σ := by
  have hi : i < n.arity := by
    rw [← hl]; exact (List.getElem?_eq_some_iff.1 hv).1
  refine callNative_cast_at env σ n args spans hl hs _ i .num v sp ?_ hv hsp ?_ ((castFail_num_iff σ v sp).2 hbad)
  · rw [math_sig n hm, List.getElem?_replicate, if_pos hi]
  · intro j t' v' sp' hj ht' hv' _
    rw [math_sig n hm, List.getElem?_replicate] at ht'
    split at ht'
    · cases ht'; exact (castFail_num_iff σ v' sp').1.2 (hprev j v' hj hv')
    · cases ht'

example (s1 s2 s3 : Span) :
    callNative env .clamp [.num 1.0, .str [], .null] [s1, s2, s3] σ =
      .err ⟨"Invalid Argument Cast: NUMBER", s2⟩ σ := by
  refine math_cast_leftmost env σ .clamp rfl _ _ rfl rfl 1 _ s2 rfl rfl ?_ (by intro x h; cases h)
  intro j v' hj hv'
  have : j = 0 := by omega
  subst this; simp at hv'; exact ⟨_, hv'.symm⟩

/-! ## Number text -/

/-- **a numeric literal denotes the nearest double**: the lexer's value of `digits[.digits]` is
`Float.ofScientific (all digits as one natural number) (decimal exponent = −number of fraction digits)`, and
`Float.ofScientific m true e` is by its specification the correctly rounded `m / 10^e` (see the file header). -/
theorem literal_is_nearest (ds fs : Str) :
    numberValue ds fs = Float.ofScientific (digitsVal (ds ++ fs)) true fs.length := rfl

/-- `digitsVal` is the decimal value: it inverts the standard decimal rendering of naturals -/
theorem digitsVal_append_digit (ds : Str) (d : Char) :
    digitsVal (ds ++ [d]) = 10 * digitsVal ds + (d.toNat - '0'.toNat) := by
  simp [digitsVal, List.foldl_append]

/-- **DISPLAY of a number prints `F64.fmt`** (Rust `{}` for `f64`) -/
theorem display_of_number (x : Float) : display σ (.num x) = .ok (F64.fmt x) := by
  simp [display, displayV]

theorem native_display_number (x : Float) (sp : List Span) :
    callNative env .display [.num x] sp σ = .ok (.null, emit σ (F64.fmt x ++ ['\n'])) := by
  rw [callNative_display, display_of_number]; rfl

/-- TO_NUMBER of the displayed text is the number again, *given* the read-back property of the primitive for
this `x` (the general read-back property is the open statement `display_reads_back` of the header) -/
theorem to_number_of_display (x : Float) (s1 : Span) (h : F64.parse (F64.fmt x) = some x) :
    ∃ t, display σ (.num x) = .ok t ∧ callNative env .toNumber [.str t] [s1] σ = .ok (.num x, σ) := by
  refine ⟨F64.fmt x, display_of_number σ x, ?_⟩
  rw [callNative_toNumber]; simp [castStr, h]

/-! ### general facts about `F64.fmt` -/

open F64 in
/-- `stripZeros` never lowers the exponent -/
theorem stripZeros_exp_ge (f d : Nat) (s : Int) : s ≤ (F64.stripZeros f d s).2 := by
  induction f generalizing d s with
  | zero => simp [F64.stripZeros]
  | succ f ih =>
    simp only [F64.stripZeros]
    split
    · exact Int.le_trans (by omega) (ih (d / 10) (s + 1))
    · exact Int.le_refl _

/-- characters of a rendered number -/
def numChar (c : Char) : Prop := c.isDigit = true ∨ c = '-' ∨ c = '.'

theorem positional_eq (ds : Str) (s : Int) :
    F64.positional ds s =
      if s ≥ 0 then ds ++ List.replicate s.toNat '0'
      else if ds.length > s.natAbs then
        ds.take (ds.length - s.natAbs) ++ '.' :: ds.drop (ds.length - s.natAbs)
      else '0' :: '.' :: (List.replicate (s.natAbs - ds.length) '0' ++ ds) := rfl

theorem positional_chars (ds : Str) (s : Int) (h : ∀ c ∈ ds, c.isDigit = true) :
    ∀ c ∈ F64.positional ds s, numChar c := by
  intro c hc
  rw [positional_eq] at hc
  split at hc
  · rcases List.mem_append.1 hc with h1 | h1
    · exact Or.inl (h c h1)
    · rw [List.mem_replicate] at h1; rw [h1.2]; exact Or.inl (by decide)
  · split at hc
    · rcases List.mem_append.1 hc with h1 | h1
      · exact Or.inl (h c (List.mem_of_mem_take h1))
      · rcases List.mem_cons.1 h1 with h2 | h2
        · exact Or.inr (Or.inr h2)
        · exact Or.inl (h c (List.mem_of_mem_drop h2))
    · rcases List.mem_cons.1 hc with h1 | h1
      · rw [h1]; exact Or.inl (by decide)
      · rcases List.mem_cons.1 h1 with h2 | h2
        · exact Or.inr (Or.inr h2)
        · rcases List.mem_append.1 h2 with h3 | h3
          · rw [List.mem_replicate] at h3; rw [h3.2]; exact Or.inl (by decide)
          · exact Or.inl (h c h3)

/-- **no exponent, ever**: the text of a number is `inf`, `-inf`, `NaN`, or consists of the characters
`0`–`9`, `-`, `.` only (so never `e` / `E`) -/
theorem fmt_charset (x : Float) :
    F64.fmt x = "inf".toList ∨ F64.fmt x = "-inf".toList ∨ F64.fmt x = "NaN".toList ∨
    ∀ c ∈ F64.fmt x, numChar c := by
  unfold F64.fmt F64.fmtBits
  simp only []
  split
  · split
    · split
      · exact Or.inr (Or.inl rfl)
      · exact Or.inl rfl
    · exact Or.inr (Or.inr (Or.inl rfl))
  · refine Or.inr (Or.inr (Or.inr ?_))
    have hsign : ∀ c ∈ (if F64.signBit x.toBits = true then ['-'] else ([] : Str)), numChar c := by
      intro c hc; split at hc
      · simp at hc; exact Or.inr (Or.inl hc)
      · simp at hc
    split
    · intro c hc
      rcases List.mem_append.1 hc with h1 | h1
      · exact hsign c h1
      · simp at h1; rw [h1]; exact Or.inl (by decide)
    · intro c hc
      rcases List.mem_append.1 hc with h1 | h1
      · exact hsign c h1
      · exact positional_chars _ _
          (fun c hc => Nat.isDigit_of_mem_toDigits (by decide) (by decide) hc) c h1

theorem numChar_ne_e (c : Char) (h : numChar c) : c ≠ 'e' ∧ c ≠ 'E' := by
  rcases h with h | h | h
  · constructor <;> (intro hc; rw [hc] at h; exact absurd h (by decide))
  · rw [h]; decide
  · rw [h]; decide

theorem fmt_no_exponent (x : Float) : 'e' ∉ F64.fmt x ∧ 'E' ∉ F64.fmt x := by
  rcases fmt_charset x with h | h | h | h
  · rw [h]; decide
  · rw [h]; decide
  · rw [h]; decide
  · exact ⟨fun hc => (numChar_ne_e _ (h _ hc)).1 rfl, fun hc => (numChar_ne_e _ (h _ hc)).2 rfl⟩

/-- NaN, infinities and zeros, by bit pattern (`expField` = the 11 exponent bits, `fracField` = the 52
fraction bits, `signBit` = bit 63) -/
theorem fmt_nan (x : Float) (he : F64.expField x.toBits = 0x7FF) (hf : F64.fracField x.toBits ≠ 0) :
    F64.fmt x = "NaN".toList := by
  simp [F64.fmt, F64.fmtBits, he, hf]

theorem fmt_inf (x : Float) (he : F64.expField x.toBits = 0x7FF) (hf : F64.fracField x.toBits = 0)
    (hs : F64.signBit x.toBits = false) : F64.fmt x = "inf".toList := by
  simp [F64.fmt, F64.fmtBits, he, hf, hs]

theorem fmt_neg_inf (x : Float) (he : F64.expField x.toBits = 0x7FF) (hf : F64.fracField x.toBits = 0)
    (hs : F64.signBit x.toBits = true) : F64.fmt x = "-inf".toList := by
  simp [F64.fmt, F64.fmtBits, he, hf, hs]

/-- **integers print without a decimal point**: if the magnitude bits of `x` are those of an integer
`1 ≤ n < 2^53` (`F64.smallInt?`), the text of `x` contains no `.` -/
theorem integers_without_point (x : Float) (n : Nat) (he : F64.expField x.toBits ≠ 0x7FF)
    (hn : F64.smallInt? (x.toBits &&& F64.absMask) = some n) : '.' ∉ F64.fmt x := by
  unfold F64.fmt F64.fmtBits
  simp only []
  rw [if_neg (by simpa using he)]
  have hsign : '.' ∉ (if F64.signBit x.toBits = true then ['-'] else ([] : Str)) := by
    split <;> simp
  split
  · intro hc
    rcases List.mem_append.1 hc with h1 | h1
    · exact hsign h1
    · simp at h1
  · intro hc
    rcases List.mem_append.1 hc with h1 | h1
    · exact hsign h1
    · simp only [F64.shortest, hn] at h1
      have hge := stripZeros_exp_ge 20 n 0
      rw [positional_eq, if_pos hge] at h1
      rcases List.mem_append.1 h1 with h2 | h2
      · have := Nat.isDigit_of_mem_toDigits (b := 10) (by decide) (by decide) h2
        exact absurd this (by decide)
      · rw [List.mem_replicate] at h2; exact absurd h2.2 (by decide)

/-! ### kernel-checked instances — tests of the primitives `F64.fmt` / `F64.parse`, **not** general theorems

Each line is evaluated by the kernel (`decide`): the shape of the text, and that the text reads back as the
same double (compared by bit pattern, so `-0` and NaN count). -/

private def S (x : String) : Str := x.toList
/-- `fmt x = text` and `parse text` has the bits of `x` -/
private def roundTrips (x : Float) (text : String) : Bool :=
  F64.fmt x == S text && ((F64.parse (S text)).map Float.toBits == some x.toBits)

example : roundTrips 3 "3" = true := by decide                                   -- no decimal point
example : roundTrips 0 "0" = true := by decide
example : roundTrips (-0.0) "-0" = true := by decide
example : roundTrips 100 "100" = true := by decide
example : roundTrips (-42) "-42" = true := by decide
example : roundTrips 0.1 "0.1" = true := by decide
example : roundTrips 0.5 "0.5" = true := by decide
example : roundTrips (0.1 + 0.2) "0.30000000000000004" = true := by decide       -- shortest that reads back
example : roundTrips 0.3 "0.3" = true := by decide
example : roundTrips (1.0 / 3.0) "0.3333333333333333" = true := by decide
example : roundTrips 1e21 "1000000000000000000000" = true := by decide            -- never an exponent
example : roundTrips 1e-7 "0.0000001" = true := by decide
example : roundTrips 123456.789 "123456.789" = true := by decide
example : roundTrips 9007199254740992 "9007199254740992" = true := by decide      -- 2^53
example : roundTrips 9007199254740993 "9007199254740992" = true := by decide      -- 2^53 + 1 is not a double
example : roundTrips 9007199254740994 "9007199254740994" = true := by decide
-- (long texts are written as character lists: `String` literals of this size are slow in the kernel)
set_option maxRecDepth 100000 in
set_option exponentiation.threshold 2000 in
/-- `f64::MAX` = 17976931348623157 followed by 292 zeros -/
example : F64.fmt (Float.ofBits 0x7FEFFFFFFFFFFFFF) = S "17976931348623157" ++ List.replicate 292 '0' ∧
    (F64.parse (S "17976931348623157" ++ List.replicate 292 '0')).map Float.toBits = some 0x7FEFFFFFFFFFFFFF := by
  decide
set_option maxRecDepth 100000 in
set_option exponentiation.threshold 2000 in
/-- `5e-324`, the least subnormal = 0.(323 zeros)5 -/
example : F64.fmt (Float.ofBits 1) = '0' :: '.' :: (List.replicate 323 '0' ++ ['5']) ∧
    (F64.parse ('0' :: '.' :: (List.replicate 323 '0' ++ ['5']))).map Float.toBits = some 1 := by decide
example : roundTrips (1.0 / 0.0) "inf" = true := by decide
example : roundTrips (-1.0 / 0.0) "-inf" = true := by decide
example : F64.fmt (0.0 / 0.0) = S "NaN" ∧ ((F64.parse (S "NaN")).map Float.isNaN) = some true := by decide
example : roundTrips (mathConst .pi) "3.141592653589793" = true := by decide
/-- the text of `0.1 + 0.2` is not the text of `0.3`: DISPLAY distinguishes different doubles -/
example : F64.fmt (0.1 + 0.2) ≠ F64.fmt 0.3 := by decide
/-- literals: `0.1` in a program is the double `0x3FB999999999999A` -/
example : (numberValue (S "0") (S "1")).toBits = 0x3FB999999999999A := by decide
example : (numberValue (S "12") (S "50")).toBits = (12.5 : Float).toBits := by decide
example : (numberValue (S "9007199254740993") []).toBits = (9007199254740992 : Float).toBits := by decide
/-- `integers_without_point` applies to, e.g., `3.0` and `-42.0` -/
example : F64.smallInt? ((3 : Float).toBits &&& F64.absMask) = some 3 ∧
    F64.smallInt? ((-42 : Float).toBits &&& F64.absMask) = some 42 ∧
    F64.smallInt? ((0.5 : Float).toBits &&& F64.absMask) = none := by decide
/-- `fmt_nan` / `fmt_inf` hypotheses are satisfiable -/
example : F64.expField (0.0 / 0.0 : Float).toBits = 0x7FF ∧ F64.fracField (0.0 / 0.0 : Float).toBits ≠ 0 ∧
    F64.expField (1.0 / 0.0 : Float).toBits = 0x7FF ∧ F64.fracField (1.0 / 0.0 : Float).toBits = 0 := by decide

/-! ## RANDOM -/

/-- the state after RANDOM: one choice consumed, nothing else -/
def afterRandom (σ : St) : St := { σ with world := { σ.world with rng := σ.world.rng.tail } }

/-- what RANDOM computes from the next choice `c` of the environment -/
theorem random_eq (a b : Float) (s1 s2 : Span) (h : F64.toI64 a ≤ F64.toI64 b) :
    callNative env .random [.num a, .num b] [s1, s2] σ =
      .ok (.num (Float.ofInt (F64.toI64 a +
        ((σ.world.rng.headD 0 % ((F64.toI64 b - F64.toI64 a).toNat + 1) : Nat) : Int))), afterRandom σ) := by
  rw [callNative_random]
  simp only [castNum, Res.bind_ok, afterRandom]
  rw [if_neg (by omega)]

/-- **RANDOM(a, b) returns an integer `r` with `lo ≤ r ≤ hi`** (`lo = a as i64`, `hi = b as i64`), as the double
`r as f64`, **for every choice** the environment can make — and changes nothing but the choice list. -/
theorem random_in_range (a b : Float) (s1 s2 : Span) (h : F64.toI64 a ≤ F64.toI64 b) :
    ∃ r : Int, F64.toI64 a ≤ r ∧ r ≤ F64.toI64 b ∧
      callNative env .random [.num a, .num b] [s1, s2] σ = .ok (.num (Float.ofInt r), afterRandom σ) := by
  have hlt : σ.world.rng.headD 0 % ((F64.toI64 b - F64.toI64 a).toNat + 1) <
      (F64.toI64 b - F64.toI64 a).toNat + 1 := Nat.mod_lt _ (Nat.succ_pos _)
  refine ⟨_, ?_, ?_, random_eq env σ a b s1 s2 h⟩
  · generalize σ.world.rng.headD 0 % ((F64.toI64 b - F64.toI64 a).toNat + 1) = k
    omega
  · generalize σ.world.rng.headD 0 % ((F64.toI64 b - F64.toI64 a).toNat + 1) = k at hlt ⊢
    omega

/-- only `world.rng` changes -/
theorem random_state : (afterRandom σ).heap = σ.heap ∧ (afterRandom σ).out = σ.out ∧
    (afterRandom σ).scopes = σ.scopes ∧ (afterRandom σ).procs = σ.procs ∧ (afterRandom σ).ret = σ.ret ∧
    (afterRandom σ).loops = σ.loops ∧ (afterRandom σ).world.stdin = σ.world.stdin ∧
    (afterRandom σ).world.fs = σ.world.fs ∧ (afterRandom σ).world.clock = σ.world.clock ∧
    (afterRandom σ).world.rng = σ.world.rng.tail := ⟨rfl, rfl, rfl, rfl, rfl, rfl, rfl, rfl, rfl, rfl⟩

/-- **every value of the range can be returned**: for `lo ≤ r ≤ hi` there is a choice that yields `r` -/
theorem random_hits_every_value (a b : Float) (s1 s2 : Span) (r : Int)
    (h1 : F64.toI64 a ≤ r) (h2 : r ≤ F64.toI64 b) :
    ∃ c : Nat, ∀ σ : St, σ.world.rng.headD 0 = c →
      callNative env .random [.num a, .num b] [s1, s2] σ = .ok (.num (Float.ofInt r), afterRandom σ) := by
  refine ⟨(r - F64.toI64 a).toNat, fun σ hc => ?_⟩
  rw [random_eq env σ a b s1 s2 (by omega), hc]
  have hlt : (r - F64.toI64 a).toNat < (F64.toI64 b - F64.toI64 a).toNat + 1 := by omega
  rw [Nat.mod_eq_of_lt hlt]
  have e : F64.toI64 a + ((r - F64.toI64 a).toNat : Int) = r := by omega
  rw [e]

/-- **both ends can be returned** -/
theorem random_hits_both_ends (a b : Float) (s1 s2 : Span) (h : F64.toI64 a ≤ F64.toI64 b) :
    (∃ c : Nat, ∀ σ : St, σ.world.rng.headD 0 = c →
      callNative env .random [.num a, .num b] [s1, s2] σ =
        .ok (.num (Float.ofInt (F64.toI64 a)), afterRandom σ)) ∧
    (∃ c : Nat, ∀ σ : St, σ.world.rng.headD 0 = c →
      callNative env .random [.num a, .num b] [s1, s2] σ =
        .ok (.num (Float.ofInt (F64.toI64 b)), afterRandom σ)) :=
  ⟨random_hits_every_value env a b s1 s2 _ (Int.le_refl _) h,
   random_hits_every_value env a b s1 s2 _ h (Int.le_refl _)⟩

/-- an empty range is a runtime error at the first argument; the state is the one before the call -/
theorem random_empty_range_errors (a b : Float) (s1 s2 : Span) (h : F64.toI64 a > F64.toI64 b) :
    callNative env .random [.num a, .num b] [s1, s2] σ = .err ⟨"Invalid Range", s1⟩ σ := by
  rw [callNative_random]
  simp only [castNum, Res.bind_ok]
  rw [if_pos h]

/-- non-vacuity: a state whose next choice is `c` exists; RANDOM(1, 6) with the choices 0 and 5 -/
example : ∃ σ : St, σ.world.rng.headD 0 = 5 := ⟨{ world := { rng := [5] } }, rfl⟩
example : F64.toI64 1.0 = 1 ∧ F64.toI64 6.0 = 6 ∧ F64.toI64 (-2.5) = -2 ∧ F64.toI64 (0.0 / 0.0) = 0 := by decide
example (s1 s2 : Span) : ∃ r : Int, 1 ≤ r ∧ r ≤ 6 ∧
    callNative env .random [.num 1.0, .num 6.0] [s1, s2] σ = .ok (.num (Float.ofInt r), afterRandom σ) := by
  have h1 : F64.toI64 1.0 = 1 := by decide
  have h6 : F64.toI64 6.0 = 6 := by decide
  have := random_in_range env σ 1.0 6.0 s1 s2 (by rw [h1, h6]; decide)
  rwa [h1, h6] at this
example : (Float.ofInt 6).toBits = (6.0 : Float).toBits := by decide

/-! ## Where the model departs from the wording of C15 (kernel-checked instances)

* the range of RANDOM is `[a as i64, b as i64]` (truncation toward zero), not `[a, b]`: `RANDOM(1.5, 2.5)` can
  return `1 < 1.5`, and `RANDOM(-2, -0.5)` can return `0 > -0.5`;
* `CLAMP(NaN, 0, 1) = 0` (`f64::max` ignores a NaN operand), whereas `f64::clamp` would return NaN;
* `ASINH(2^1023) = inf` (Rust's formula overflows; the mathematical value is about 710.1). -/
example : F64.toI64 1.5 = 1 ∧ F64.toI64 2.5 = 2 ∧ F64.toI64 (-2.0) = -2 ∧ F64.toI64 (-0.5) = 0 := by decide
example : (F64.minF (F64.maxF (0.0 / 0.0) 0.0) 1.0).toBits = (0.0 : Float).toBits := by decide
example : (rustAsinh (Float.ofBits 0x7FE0000000000000)).toBits = (1.0 / 0.0 : Float).toBits := by decide

end Aplang.C15
