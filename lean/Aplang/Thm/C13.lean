import Aplang.Proofs.ImportLemmas
import Aplang.Thm.C19
import Aplang.Model.Config
import Aplang.Model.Run
/-!
# C13 — IMPORT

The theorems are about `importStmt cfg runModule only modName σ` (the `Stmt::Import` arm of the
evaluator) for an arbitrary registry `cfg.modules` and an arbitrary interpreter `runModule` for the
statements of a user module; `stmt_import` transfers them to `stmt cfg (f+1) (.import_ …) σ0`, where
`runModule` is `program cfg f` and one statement tick is taken from the budget.

A module name is the string literal of the token `modName`; an import list is a list of string tokens
(`tokName`); "callable" is `σ.procs.find? n ≠ none`.

The file of a user module is named by the text `joinPath (dirOf σ.filePath) name` (src: `PathBuf::pop` and
`PathBuf::join` are textual); `Fs.fileRead` resolves that text as the kernel does, `..` included
(`Fs.resolve`). The module runs with that text as its own file path, so its own imports are joined to the
directory part of the text as written (section "module names with `..`").
-/
namespace Aplang

section
variable (cfg : Cfg) (runModule : List Stmt → St → Res St)

/-! ## the pieces of the IMPORT statement -/

/-- which procedures of the module are taken: all of them, or the listed ones (src: `only_functions`) -/
def selectProcs (only : Option (List Token)) (module : FunTable) (σ : St) : Res FunTable :=
  match only with
  | some names => trimModule names module [] σ
  | none => .ok module

/-- the file a user module name denotes: relative to the directory of the importing file -/
def modulePath (σ : St) (name : Str) : Str := joinPath (dirOf σ.filePath) name

/-- the IMPORT statement inside `stmt`: one tick, then `importStmt` with `program` as the module runner -/
theorem stmt_import (f : Nat) (it mt : Token) (ft : Option Token) (only : Option (List Token)) (modName : Token)
    (σ0 : St) :
    stmt cfg (f+1) (.import_ it mt ft only modName) σ0 =
      match tick σ0 with
      | none => .fuel
      | some σ => importStmt cfg (fun prog σm => program cfg f prog σm) only modName σ := by
  simp only [stmt]
  cases tick σ0 <;> rfl

theorem stmt_import_of_budget (f : Nat) (it mt : Token) (ft : Option Token) (only : Option (List Token))
    (modName : Token) (σ0 : St) (hb : σ0.budget ≠ 0) :
    stmt cfg (f+1) (.import_ it mt ft only modName) σ0 =
      importStmt cfg (fun prog σm => program cfg f prog σm) only modName { σ0 with budget := σ0.budget - 1 } := by
  rw [stmt_import]; simp [tick, hb]

/-- IMPORT of a library module (one the registry knows): the selected procedures are added to the
importer's table; nothing is run -/
theorem importStmt_library (only : Option (List Token)) (modName : Token) (σ : St) (name : Str)
    (table : FunTable) (hlit : modName.lit = .str name) (hreg : cfg.modules name = some table) :
    importStmt cfg runModule only modName σ =
      (selectProcs only table σ).bind fun m => .ok { σ with procs := σ.procs.extend m } := by
  unfold importStmt selectProcs
  simp only [hlit, Res.bind_ok, hreg]
  cases only <;> rfl

/-- the characterisation of IMPORT of a user module: `runModule` is applied exactly once, to the parsed
statements of the file and the fresh module state; the importer then takes the module's exports (all or
the listed ones) and keeps the module's effects on heap, output and world -/
theorem importStmt_user (only : Option (List Token)) (modName : Token) (σ : St) (name src : Str) (prog : List Stmt)
    (hlit : modName.lit = .str name) (hreg : cfg.modules name = none)
    (hext : hasApExtension (modulePath σ name) = true)
    (hread : Fs.fileRead σ.world.fs (modulePath σ name) = some src)
    (hlex : (lex cfg.lex src).errors = [])
    (hparse : parse (parseFuel (lex cfg.lex src).tokens.length) (lex cfg.lex src).tokens = .ok prog) :
    importStmt cfg runModule only modName σ =
      (runModule prog (moduleState cfg σ (modulePath σ name))).bind fun σm =>
      (selectProcs only σm.exports (afterModule σ σm)).bind fun m =>
      .ok { afterModule σ σm with procs := σ.procs.extend m } := by
  unfold modulePath at hext hread
  unfold importStmt selectProcs modulePath
  simp only [hlit, Res.bind_ok, hreg, hext, Bool.not_true, Bool.false_eq_true, ↓reduceIte, hread, hlex,
    List.isEmpty_nil, hparse]
  cases runModule prog _ <;> rfl

/-! ## lookup tables -/

/-- `find?_insert`, `find?_extend` and `find?_extend_of_noDup` are in `Proofs/ImportLemmas.lean`; restated
here for the record -/
theorem funTable_find?_insert (t : FunTable) (n : Str) (p : Proc) (m : Str) :
    (t.insert n p).find? m = if m = n then some p else t.find? m := FunTable.find?_insert t n p m

theorem funTable_find?_extend (t more : FunTable) (m : Str) :
    (t.extend more).find? m = (FunTable.find? more.reverse m).or (t.find? m) := FunTable.find?_extend t more m

theorem funTable_find?_extend_of_noDup (t more : FunTable) (h : FunTable.NoDupKeys more) (m : Str) :
    (t.extend more).find? m = (more.find? m).or (t.find? m) := FunTable.find?_extend_of_noDup t more h m

/-! ## library modules -/

/-- IMPORT MOD m: the importer's state changes in `procs` only, and callable′ = callable ∪ procedures(m),
the module's definitions winning (were a registry table to define a name twice, the later entry wins) -/
theorem import_mod_exact (modName : Token) (σ : St) (name : Str) (table : FunTable)
    (hlit : modName.lit = .str name) (hreg : cfg.modules name = some table) :
    importStmt cfg runModule none modName σ = .ok { σ with procs := σ.procs.extend table } ∧
    ∀ n, (σ.procs.extend table).find? n =
      match FunTable.find? table.reverse n with
      | some p => some p
      | none => σ.procs.find? n := by
  refine ⟨by rw [importStmt_library cfg runModule none modName σ name table hlit hreg]; rfl, ?_⟩
  intro n
  rw [FunTable.find?_extend]
  cases FunTable.find? table.reverse n <;> rfl

/-- the same for a registry table without duplicate names (every table of `stdModule` is one) -/
theorem import_mod_exact_noDup (modName : Token) (σ σ' : St) (name : Str) (table : FunTable)
    (hlit : modName.lit = .str name) (hreg : cfg.modules name = some table) (hnd : FunTable.NoDupKeys table)
    (h : importStmt cfg runModule none modName σ = .ok σ') :
    (∀ n, σ'.procs.find? n = match table.find? n with | some p => some p | none => σ.procs.find? n) ∧
    σ'.scopes = σ.scopes ∧ σ'.heap = σ.heap ∧ σ'.out = σ.out ∧ σ'.exports = σ.exports ∧ σ'.ret = σ.ret ∧
    σ'.loops = σ.loops ∧ σ'.world = σ.world ∧ σ'.filePath = σ.filePath ∧ σ'.budget = σ.budget := by
  rw [(import_mod_exact cfg runModule modName σ name table hlit hreg).1] at h
  injection h with h
  subst h
  refine ⟨?_, rfl, rfl, rfl, rfl, rfl, rfl, rfl, rfl, rfl⟩
  intro n
  show (σ.procs.extend table).find? n = _
  rw [FunTable.find?_extend_of_noDup _ _ hnd]
  cases table.find? n <;> rfl

/-- the statement itself: besides `procs`, one tick of the statement budget -/
theorem import_mod_exact_stmt (f : Nat) (it mt : Token) (ft : Option Token) (modName : Token) (σ0 σ' : St)
    (name : Str) (table : FunTable) (hlit : modName.lit = .str name) (hreg : cfg.modules name = some table)
    (h : stmt cfg (f+1) (.import_ it mt ft none modName) σ0 = .ok σ') :
    σ0.budget ≠ 0 ∧ σ' = { σ0 with budget := σ0.budget - 1, procs := σ0.procs.extend table } := by
  by_cases hb : σ0.budget = 0
  · rw [stmt_import] at h; simp [tick, hb] at h
  · rw [stmt_import_of_budget cfg f it mt ft none modName σ0 hb,
      (import_mod_exact cfg _ modName _ name table hlit hreg).1] at h
    injection h with h
    exact ⟨hb, h.symm⟩

/-- IMPORT [f, g] FROM MOD m with distinct names that m defines: it succeeds, changes `procs` only, and
callable′ = callable ∪ exactly the named ones -/
theorem import_names_exact (toks : List Token) (modName : Token) (σ : St) (name : Str) (table : FunTable)
    (hlit : modName.lit = .str name) (hreg : cfg.modules name = some table)
    (hstr : ∀ t ∈ toks, IsStrTok t) (hnd : (toks.map tokName).Nodup)
    (hin : ∀ nm ∈ toks.map tokName, table.find? nm ≠ none) :
    ∃ m, importStmt cfg runModule (some toks) modName σ = .ok { σ with procs := σ.procs.extend m } ∧
      ∀ n, (σ.procs.extend m).find? n = if n ∈ toks.map tokName then table.find? n else σ.procs.find? n := by
  obtain ⟨m, h1, h2, h3⟩ := trimModule_ok toks table [] σ hstr hnd hin
  refine ⟨m, ?_, ?_⟩
  · rw [importStmt_library cfg runModule (some toks) modName σ name table hlit hreg]
    simp only [selectProcs, h1, Res.bind_ok]
  · intro n
    rw [FunTable.find?_extend_of_noDup _ _ (h3 FunTable.noDup_nil), h2 n]
    split
    · next hn =>
      cases hf : table.find? n with
      | none => exact absurd hf (hin n hn)
      | some p => rfl
    · rfl

/-- the converse reading: whenever IMPORT [f, g] FROM MOD m succeeds, the names were distinct and defined
by m, and callable′ = callable ∪ exactly the named ones; everything but `procs` is unchanged -/
theorem import_names_exact_of_ok (toks : List Token) (modName : Token) (σ σ' : St) (name : Str) (table : FunTable)
    (hlit : modName.lit = .str name) (hreg : cfg.modules name = some table)
    (h : importStmt cfg runModule (some toks) modName σ = .ok σ') :
    (toks.map tokName).Nodup ∧ (∀ nm ∈ toks.map tokName, table.find? nm ≠ none) ∧
    (∀ n, σ'.procs.find? n = if n ∈ toks.map tokName then table.find? n else σ.procs.find? n) ∧
    σ' = { σ with procs := σ'.procs } := by
  rw [importStmt_library cfg runModule (some toks) modName σ name table hlit hreg] at h
  simp only [selectProcs] at h
  cases ht : trimModule toks table [] σ with
  | ok m =>
    obtain ⟨i1, i2, i3⟩ := trimModule_ok_inv toks table [] m σ ht
    obtain ⟨m', e1, e2⟩ := import_names_exact cfg runModule toks modName σ name table hlit hreg i1 i2 i3
    rw [importStmt_library cfg runModule (some toks) modName σ name table hlit hreg] at e1
    simp only [selectProcs, ht, Res.bind_ok] at e1 h
    injection h with h
    injection e1 with e1
    have hm : σ.procs.extend m = σ.procs.extend m' := congrArg St.procs e1
    subst h
    exact ⟨i2, i3, fun n => by show (σ.procs.extend m).find? n = _; rw [hm]; exact e2 n, rfl⟩
  | err e s => simp [ht] at h
  | terminate w s => simp [ht] at h
  | panic w s => simp [ht] at h
  | fuel => simp [ht] at h

/-- procedures of a library module that were not imported stay undefined: a name that is not callable
before, and is not in the module (whole-module import) / not among the listed names, is not callable after -/
theorem nothing_else_visible (only : Option (List Token)) (modName : Token) (σ σ' : St) (name : Str)
    (table : FunTable) (hlit : modName.lit = .str name) (hreg : cfg.modules name = some table)
    (h : importStmt cfg runModule only modName σ = .ok σ') (n : Str) (hn : σ.procs.find? n = none)
    (hnot : match only with
      | none => table.find? n = none
      | some toks => n ∉ toks.map tokName) :
    σ'.procs.find? n = none := by
  cases only with
  | none =>
    rw [(import_mod_exact cfg runModule modName σ name table hlit hreg).1] at h
    injection h with h
    subst h
    exact FunTable.find?_extend_eq_none _ _ _ hnot hn
  | some toks =>
    have := (import_names_exact_of_ok cfg runModule toks modName σ σ' name table hlit hreg h).2.2.1 n
    rw [this]; simp only [] at hnot; simp [hnot, hn]

/-! ### several imports of one library module: what is callable afterwards is the union -/

/-- IMPORT [..] FROM MOD m and then IMPORT MOD m: everything of m is callable, as after the whole import alone (the
selective import leaves nothing behind that could narrow the later one) -/
theorem selective_then_whole (toks : List Token) (modName : Token) (σ σ₁ σ₂ : St) (name : Str) (table : FunTable)
    (hlit : modName.lit = .str name) (hreg : cfg.modules name = some table) (hnd : FunTable.NoDupKeys table)
    (h1 : importStmt cfg runModule (some toks) modName σ = .ok σ₁)
    (h2 : importStmt cfg runModule none modName σ₁ = .ok σ₂) :
    ∀ n, σ₂.procs.find? n = match table.find? n with | some p => some p | none => σ.procs.find? n := by
  intro n
  have e1 := import_names_exact_of_ok cfg runModule toks modName σ σ₁ name table hlit hreg h1
  have e2 := (import_mod_exact_noDup cfg runModule modName σ₁ σ₂ name table hlit hreg hnd h2).1 n
  rw [e2]
  cases ht : table.find? n with
  | some p => rfl
  | none =>
    simp only []
    rw [e1.2.2.1 n]
    split
    · next hn => exact absurd ht (e1.2.1 n hn)
    · rfl

/-- IMPORT MOD m and then IMPORT [..] FROM MOD m: still everything of m -/
theorem whole_then_selective (toks : List Token) (modName : Token) (σ σ₁ σ₂ : St) (name : Str) (table : FunTable)
    (hlit : modName.lit = .str name) (hreg : cfg.modules name = some table) (hnd : FunTable.NoDupKeys table)
    (h1 : importStmt cfg runModule none modName σ = .ok σ₁)
    (h2 : importStmt cfg runModule (some toks) modName σ₁ = .ok σ₂) :
    ∀ n, σ₂.procs.find? n = match table.find? n with | some p => some p | none => σ.procs.find? n := by
  intro n
  have e1 := (import_mod_exact_noDup cfg runModule modName σ σ₁ name table hlit hreg hnd h1).1 n
  have e2 := import_names_exact_of_ok cfg runModule toks modName σ₁ σ₂ name table hlit hreg h2
  rw [e2.2.2.1 n]
  split
  · next hn =>
    cases ht : table.find? n with
    | some p => rfl
    | none => exact absurd ht (e2.2.1 n hn)
  · exact e1

/-- two selective imports: exactly the names of either list come from m, every other name is as before -/
theorem selective_twice_union (toks₁ toks₂ : List Token) (modName : Token) (σ σ₁ σ₂ : St) (name : Str) (table : FunTable)
    (hlit : modName.lit = .str name) (hreg : cfg.modules name = some table)
    (h1 : importStmt cfg runModule (some toks₁) modName σ = .ok σ₁)
    (h2 : importStmt cfg runModule (some toks₂) modName σ₁ = .ok σ₂) :
    ∀ n, σ₂.procs.find? n =
      if n ∈ toks₁.map tokName ∨ n ∈ toks₂.map tokName then table.find? n else σ.procs.find? n := by
  intro n
  have e1 := import_names_exact_of_ok cfg runModule toks₁ modName σ σ₁ name table hlit hreg h1
  have e2 := import_names_exact_of_ok cfg runModule toks₂ modName σ₁ σ₂ name table hlit hreg h2
  rw [e2.2.2.1 n, e1.2.2.1 n]
  by_cases a : n ∈ toks₂.map tokName <;> by_cases b : n ∈ toks₁.map tokName <;> simp [a, b]

/-- an unknown name in the import list — or a name listed a second time — is reported at that token; the
error carries the state before the import (nothing was added to `procs`) -/
theorem unknown_name_reported (pre : List Token) (t : Token) (post : List Token) (modName : Token) (σ : St)
    (name nm : Str) (table : FunTable) (hlit : modName.lit = .str name) (hreg : cfg.modules name = some table)
    (hstr : ∀ u ∈ pre, IsStrTok u) (hnd : (pre.map tokName).Nodup)
    (hin : ∀ n ∈ pre.map tokName, table.find? n ≠ none) (htl : t.lit = .str nm)
    (hbad : table.find? nm = none ∨ nm ∈ pre.map tokName) :
    importStmt cfg runModule (some (pre ++ t :: post)) modName σ = .err ⟨"Invalid Function", t.span⟩ σ := by
  rw [importStmt_library cfg runModule _ modName σ name table hlit hreg]
  simp only [selectProcs, trimModule_err pre t post table [] σ nm hstr hnd hin htl hbad, Res.bind_err]

/-- with a list of string tokens, IMPORT … FROM a library module either succeeds or reports "Invalid
Function" at one of the listed tokens — there is no third outcome -/
theorem import_names_ok_or_reported (toks : List Token) (modName : Token) (σ : St) (name : Str) (table : FunTable)
    (hlit : modName.lit = .str name) (hreg : cfg.modules name = some table) (hstr : ∀ t ∈ toks, IsStrTok t) :
    (∃ σ', importStmt cfg runModule (some toks) modName σ = .ok σ') ∨
    (∃ t ∈ toks, importStmt cfg runModule (some toks) modName σ = .err ⟨"Invalid Function", t.span⟩ σ) := by
  rw [importStmt_library cfg runModule _ modName σ name table hlit hreg]
  rcases trimModule_ok_or_err toks table [] σ hstr with ⟨m, h⟩ | ⟨t, ht, h⟩
  · refine Or.inl ⟨{ σ with procs := σ.procs.extend m }, ?_⟩
    simp only [selectProcs, h, Res.bind_ok]
  · exact Or.inr ⟨t, ht, by simp only [selectProcs, h, Res.bind_err]⟩

/-! ## diagnostics for modules that cannot be loaded -/

/-- a name that is neither a library module nor a path with the extension `.ap` -/
theorem unknown_module_reported (only : Option (List Token)) (modName : Token) (σ : St) (name : Str)
    (hlit : modName.lit = .str name) (hreg : cfg.modules name = none)
    (hext : hasApExtension (modulePath σ name) = false) :
    importStmt cfg runModule only modName σ = .err ⟨"std module not found", modName.span⟩ σ := by
  unfold modulePath at hext
  unfold importStmt
  simp only [hlit, Res.bind_ok, hreg, hext, Bool.not_false, ↓reduceIte, rtErr, Res.bind_err]

/-- the module file does not exist, is a directory, or cannot be read -/
theorem missing_module_file_reported (only : Option (List Token)) (modName : Token) (σ : St) (name : Str)
    (hlit : modName.lit = .str name) (hreg : cfg.modules name = none)
    (hext : hasApExtension (modulePath σ name) = true)
    (hread : Fs.fileRead σ.world.fs (modulePath σ name) = none) :
    importStmt cfg runModule only modName σ = .err ⟨"module file does not exist", modName.span⟩ σ := by
  unfold modulePath at hext hread
  unfold importStmt
  simp only [hlit, Res.bind_ok, hreg, hext, Bool.not_true, Bool.false_eq_true, ↓reduceIte, hread, rtErr,
    Res.bind_err]

/-- the module file has lexical errors -/
theorem module_lex_error_reported (only : Option (List Token)) (modName : Token) (σ : St) (name src : Str)
    (hlit : modName.lit = .str name) (hreg : cfg.modules name = none)
    (hext : hasApExtension (modulePath σ name) = true)
    (hread : Fs.fileRead σ.world.fs (modulePath σ name) = some src)
    (hlex : (lex cfg.lex src).errors ≠ []) :
    importStmt cfg runModule only modName σ = .err ⟨"module has lexical errors", modName.span⟩ σ := by
  unfold modulePath at hext hread
  unfold importStmt
  have : (lex cfg.lex src).errors.isEmpty = false := by simpa using hlex
  simp only [hlit, Res.bind_ok, hreg, hext, Bool.not_true, Bool.false_eq_true, ↓reduceIte, hread, this,
    Bool.not_false, rtErr, Res.bind_err]

/-- the module file does not parse -/
theorem module_syntax_error_reported (only : Option (List Token)) (modName : Token) (σ : St) (name src : Str)
    (reports : _)
    (hlit : modName.lit = .str name) (hreg : cfg.modules name = none)
    (hext : hasApExtension (modulePath σ name) = true)
    (hread : Fs.fileRead σ.world.fs (modulePath σ name) = some src)
    (hlex : (lex cfg.lex src).errors = [])
    (hparse : parse (parseFuel (lex cfg.lex src).tokens.length) (lex cfg.lex src).tokens = .errs reports) :
    importStmt cfg runModule only modName σ = .err ⟨"module has syntax errors", modName.span⟩ σ := by
  unfold modulePath at hext hread
  unfold importStmt
  simp only [hlit, Res.bind_ok, hreg, hext, Bool.not_true, Bool.false_eq_true, ↓reduceIte, hread, hlex,
    List.isEmpty_nil, hparse, rtErr, Res.bind_err]

/-- in none of these cases is the module run: the diagnostics above hold for every `runModule`, and the
error carries the importer's state unchanged -/
theorem unloadable_module_runs_nothing (only : Option (List Token)) (modName : Token) (σ : St) (name : Str)
    (hlit : modName.lit = .str name) (hreg : cfg.modules name = none)
    (hbad : hasApExtension (modulePath σ name) = false ∨ Fs.fileRead σ.world.fs (modulePath σ name) = none)
    (run₁ run₂ : List Stmt → St → Res St) :
    importStmt cfg run₁ only modName σ = importStmt cfg run₂ only modName σ := by
  cases hx : hasApExtension (modulePath σ name) with
  | false =>
    rw [unknown_module_reported cfg run₁ only modName σ name hlit hreg hx,
      unknown_module_reported cfg run₂ only modName σ name hlit hreg hx]
  | true =>
    have hr : Fs.fileRead σ.world.fs (modulePath σ name) = none := by
      rcases hbad with h | h
      · rw [hx] at h; cases h
      · exact h
    rw [missing_module_file_reported cfg run₁ only modName σ name hlit hreg hx hr,
      missing_module_file_reported cfg run₂ only modName σ name hlit hreg hx hr]


/-! ## module names with `..` -/

/-- the module runs with the joined path *as written* as its file path (src: `ApLang::new_from_file(maybe_path)`),
so a module it imports is looked up at the text `dirOf (that path) / name2` — `..` components stay in the
text and are resolved by the file system at each read -/
theorem module_file_path_is_textual (σ : St) (name name2 : Str) :
    (moduleState cfg σ (modulePath σ name)).filePath = modulePath σ name ∧
    modulePath (moduleState cfg σ (modulePath σ name)) name2 =
      joinPath (dirOf (joinPath (dirOf σ.filePath) name)) name2 := ⟨rfl, rfl⟩

/-- a name joined to no directory is the name -/
theorem modulePath_of_root (σ : St) (name : Str) (hfp : dirOf σ.filePath = []) : modulePath σ name = name := by
  unfold modulePath joinPath
  rw [hfp]
  split
  · rfl
  · rfl

/-- `IMPORT MOD "d/../x"` from a file in the sandbox root, `d` an existing directory directly below it,
reads what `IMPORT MOD "x"` reads -/
theorem import_through_dotdot_reads_same (σ : St) (d x : Str) (p : Fs.Path) (hfp : dirOf σ.filePath = [])
    (hr : Fs.resolve σ.world.fs d = some p) (hd : Fs.isDir σ.world.fs p = true) (hpar : Fs.parent p = [])
    (hx : Fs.components x ≠ []) :
    Fs.fileRead σ.world.fs (modulePath σ (Fs.upFrom d x)) = Fs.fileRead σ.world.fs (modulePath σ x) := by
  rw [modulePath_of_root σ _ hfp, modulePath_of_root σ _ hfp]
  exact (Fs.dotdot_roundtrip σ.world.fs d x p hr hd hpar hx []).2.2.2.2.2.1

/-- `..` through something that is not an existing directory: the module file is reported missing, nothing
is run, the importer's state is unchanged -/
theorem import_through_missing_directory_reported (only : Option (List Token)) (modName : Token) (σ : St)
    (name : Str) (hlit : modName.lit = .str name) (hreg : cfg.modules name = none)
    (hext : hasApExtension (modulePath σ name) = true)
    (hres : Fs.resolve σ.world.fs (modulePath σ name) = none) :
    importStmt cfg runModule only modName σ = .err ⟨"module file does not exist", modName.span⟩ σ :=
  missing_module_file_reported cfg runModule only modName σ name hlit hreg hext
    (Fs.unresolved_fails σ.world.fs _ hres []).2.2.2.2.2.1

/-! ## user modules -/

/-- the module's top-level code sees neither the importer's variables nor its procedures: it starts
with one empty frame, the CORE procedures and no exports, whatever the importer has -/
theorem importer_not_visible_to_module (σ : St) (name x : Str) :
    lookupVar (moduleState cfg σ (modulePath σ name)) x = none ∧
    (moduleState cfg σ (modulePath σ name)).procs = FunTable.extend [] ((cfg.modules "CORE".toList).getD []) ∧
    (moduleState cfg σ (modulePath σ name)).exports = [] := ⟨rfl, rfl, rfl⟩

section user
variable (only : Option (List Token)) (modName : Token) (σ σ' : St) (name src : Str) (prog : List Stmt)
  (hlit : modName.lit = .str name) (hreg : cfg.modules name = none)
  (hext : hasApExtension (modulePath σ name) = true)
  (hread : Fs.fileRead σ.world.fs (modulePath σ name) = some src)
  (hlex : (lex cfg.lex src).errors = [])
  (hparse : parse (parseFuel (lex cfg.lex src).tokens.length) (lex cfg.lex src).tokens = .ok prog)
include hlit hreg hext hread hlex hparse

/-- a user module's top-level code runs once per import, in a fresh state (`importStmt_user` is the
equation): if the IMPORT succeeds, the one run of the module succeeded in `σm`, the importer has its own
`scopes`, `exports`, `ret`, `loops`, `filePath`, the module's `heap`, `out`, `world`, `budget`, and its
`procs` extended by the selected exports of the module -/
theorem module_runs_once_per_import (h : importStmt cfg runModule only modName σ = .ok σ') :
    ∃ σm m, runModule prog (moduleState cfg σ (modulePath σ name)) = .ok σm ∧
      selectProcs only σm.exports (afterModule σ σm) = .ok m ∧
      σ' = { afterModule σ σm with procs := σ.procs.extend m } := by
  rw [importStmt_user cfg runModule only modName σ name src prog hlit hreg hext hread hlex hparse] at h
  cases hr : runModule prog (moduleState cfg σ (modulePath σ name)) with
  | ok σm =>
    simp only [hr, Res.bind_ok] at h
    cases hs : selectProcs only σm.exports (afterModule σ σm) with
    | ok m =>
      simp only [hs, Res.bind_ok] at h
      injection h with h
      exact ⟨σm, m, rfl, hs, h.symm⟩
    | err e s => simp [hs] at h
    | terminate w s => simp [hs] at h
    | panic w s => simp [hs] at h
    | fuel => simp [hs] at h
  | err e s => simp [hr] at h
  | terminate w s => simp [hr] at h
  | panic w s => simp [hr] at h
  | fuel => simp [hr] at h

/-- a module whose top-level code fails makes the IMPORT fail the same way (its diagnostic, its state) -/
theorem module_failure_propagates (e : RtErr) (σe : St)
    (hrun : runModule prog (moduleState cfg σ (modulePath σ name)) = .err e σe) :
    importStmt cfg runModule only modName σ = .err e σe := by
  rw [importStmt_user cfg runModule only modName σ name src prog hlit hreg hext hread hlex hparse, hrun]
  rfl

/-- the importer's variables are unaffected -/
theorem importer_variables_unchanged (h : importStmt cfg runModule only modName σ = .ok σ') :
    σ'.scopes = σ.scopes ∧ σ'.exports = σ.exports ∧ σ'.ret = σ.ret ∧ σ'.loops = σ.loops ∧
    σ'.filePath = σ.filePath := by
  obtain ⟨σm, m, _, _, rfl⟩ :=
    module_runs_once_per_import cfg runModule only modName σ σ' name src prog hlit hreg hext hread hlex hparse h
  exact ⟨rfl, rfl, rfl, rfl, rfl⟩

/-- a module's variables are not visible to the importer: every variable reads after the import as it did
before — in particular one that only the module defined is still undefined -/
theorem module_variables_not_visible (h : importStmt cfg runModule only modName σ = .ok σ') (x : Str) :
    lookupVar σ' x = lookupVar σ x := by
  have := (importer_variables_unchanged cfg runModule only modName σ σ' name src prog hlit hreg hext hread
    hlex hparse h).1
  unfold lookupVar; rw [this]

/-- the module's effects on heap, output and world are kept -/
theorem module_effects_kept (h : importStmt cfg runModule only modName σ = .ok σ') :
    ∃ σm, runModule prog (moduleState cfg σ (modulePath σ name)) = .ok σm ∧
      σ'.heap = σm.heap ∧ σ'.out = σm.out ∧ σ'.world = σm.world ∧ σ'.budget = σm.budget := by
  obtain ⟨σm, m, hr, _, rfl⟩ :=
    module_runs_once_per_import cfg runModule only modName σ σ' name src prog hlit hreg hext hread hlex hparse h
  exact ⟨σm, hr, rfl, rfl, rfl, rfl⟩

/-- IMPORT MOD "file.ap": callable′ = callable ∪ the EXPORTed procedures of the module (`exports` never
holds a name twice when it is built by `procDecl`; in general the later entry wins) -/
theorem import_user_mod_exact (h : importStmt cfg runModule none modName σ = .ok σ') :
    ∃ σm, runModule prog (moduleState cfg σ (modulePath σ name)) = .ok σm ∧
      ∀ n, σ'.procs.find? n = (FunTable.find? σm.exports.reverse n).or (σ.procs.find? n) := by
  obtain ⟨σm, m, hr, hs, rfl⟩ :=
    module_runs_once_per_import cfg runModule none modName σ σ' name src prog hlit hreg hext hread hlex hparse h
  simp only [selectProcs] at hs
  injection hs with hs
  subst hs
  exact ⟨σm, hr, fun n => FunTable.find?_extend _ _ n⟩

/-- IMPORT [f, g] FROM MOD "file.ap": callable′ = callable ∪ exactly the named exports -/
theorem import_user_names_exact (toks : List Token)
    (h : importStmt cfg runModule (some toks) modName σ = .ok σ') :
    ∃ σm, runModule prog (moduleState cfg σ (modulePath σ name)) = .ok σm ∧
      (toks.map tokName).Nodup ∧ (∀ nm ∈ toks.map tokName, σm.exports.find? nm ≠ none) ∧
      ∀ n, σ'.procs.find? n = if n ∈ toks.map tokName then σm.exports.find? n else σ.procs.find? n := by
  obtain ⟨σm, m, hr, hs, rfl⟩ :=
    module_runs_once_per_import cfg runModule (some toks) modName σ σ' name src prog hlit hreg hext hread hlex
      hparse h
  simp only [selectProcs] at hs
  obtain ⟨i1, i2, i3⟩ := trimModule_ok_inv toks _ [] m _ hs
  obtain ⟨m', e1, e2, e3⟩ := trimModule_ok toks σm.exports [] (afterModule σ σm) i1 i2 i3
  rw [hs] at e1
  injection e1 with e1
  subst e1
  refine ⟨σm, hr, i2, i3, ?_⟩
  intro n
  show (σ.procs.extend m).find? n = _
  rw [FunTable.find?_extend_of_noDup _ _ (e3 FunTable.noDup_nil), e2 n]
  split
  · next hn =>
    cases hf : σm.exports.find? n with
    | none => exact absurd hf (i3 n hn)
    | some p => rfl
  · rfl

/-- a procedure the module defines without EXPORT (it may be in `σm.procs`, it is not in `σm.exports`), and
any exported procedure that was not listed, is not callable in the importer unless it already was -/
theorem private_procedures_not_visible (h : importStmt cfg runModule only modName σ = .ok σ') (n : Str)
    (hn : σ.procs.find? n = none) :
    ∃ σm, runModule prog (moduleState cfg σ (modulePath σ name)) = .ok σm ∧
      ((σm.exports.find? n = none ∨ match only with | some toks => n ∉ toks.map tokName | none => False) →
        σ'.procs.find? n = none) := by
  cases only with
  | none =>
    obtain ⟨σm, hr, hfind⟩ :=
      import_user_mod_exact cfg runModule modName σ σ' name src prog hlit hreg hext hread hlex hparse h
    refine ⟨σm, hr, ?_⟩
    rintro (hp | hp)
    · rw [hfind n, (FunTable.find?_reverse_eq_none_iff _ _).2 hp, hn]; rfl
    · exact hp.elim
  | some toks =>
    obtain ⟨σm, hr, _, _, hfind⟩ :=
      import_user_names_exact cfg runModule modName σ σ' name src prog hlit hreg hext hread hlex hparse toks h
    refine ⟨σm, hr, ?_⟩
    rintro (hp | hp)
    · rw [hfind n]; split
      · exact hp
      · exact hn
    · simp only [] at hp
      rw [hfind n]; simp [hp, hn]

/-- an unknown (or not exported, or repeated) name in the import list of a user module is reported at its
token; the module has run by then, so the state carried is the importer's with the module's effects -/
theorem unknown_name_in_user_module_reported (pre : List Token) (t : Token) (post : List Token) (nm : Str)
    (σm : St) (hrun : runModule prog (moduleState cfg σ (modulePath σ name)) = .ok σm)
    (hstr : ∀ u ∈ pre, IsStrTok u) (hnd : (pre.map tokName).Nodup)
    (hin : ∀ n ∈ pre.map tokName, σm.exports.find? n ≠ none) (htl : t.lit = .str nm)
    (hbad : σm.exports.find? nm = none ∨ nm ∈ pre.map tokName) :
    importStmt cfg runModule (some (pre ++ t :: post)) modName σ =
      .err ⟨"Invalid Function", t.span⟩ (afterModule σ σm) := by
  rw [importStmt_user cfg runModule _ modName σ name src prog hlit hreg hext hread hlex hparse, hrun]
  simp only [Res.bind_ok, selectProcs,
    trimModule_err pre t post σm.exports [] (afterModule σ σm) nm hstr hnd hin htl hbad, Res.bind_err]

end user

end

/-! ## "an exported procedure behaves in the importer as in its own module"

FALSE in general for the code (and for the model): the body of a procedure is evaluated with the CALLER's
procedure table, so an exported procedure that calls a private helper of its module (or an export the
importer did not list) fails in the importer with "Invalid PROCEDURE" — the kernel-checked counterexample is
the last `example` of this file. What does hold (`_partial`): if everything the procedure can reach —
its own calls, and transitively the calls of the user procedures it calls — lies within a set `names` on
which the importer's table and the module's table agree, then the call gives the same value / the same
diagnostic and the same effects in both. `Expr.CallsWithin`, `Stmt.CallsWithin`, `Closed`, `AgreeOn`, `RelR`
are defined in `Proofs/ImportLemmas.lean`; the mutual induction over the eight evaluators is `obl_all`. -/

section behaves
variable (cfg : Cfg)

/-- `σ₂` is `σ₁` except for the procedure table -/
def EqExceptProcs (σ₁ σ₂ : St) : Prop := σ₂ = { σ₁ with procs := σ₂.procs }

/-- evaluating code that calls only procedures in `names` depends on the procedure table only through
the lookups of `names`: in two states that are otherwise equal the results have the same shape, the same
value or diagnostic, and final states that again differ in `procs` only and agree on `names` -/
theorem eval_depends_on_called_names_only (names : List Str) (f : Nat) (σ₁ σ₂ : St)
    (heq : EqExceptProcs σ₁ σ₂) (hagree : ∀ n ∈ names, σ₁.procs.find? n = σ₂.procs.find? n)
    (hclosed : Closed names σ₁.procs) :
    (∀ e, Expr.CallsWithin names e → RelR (RV names) (expr cfg f e σ₁) (expr cfg f e σ₂)) ∧
    (∀ st, Stmt.CallsWithin names st → RelR (RelSt names) (stmt cfg f st σ₁) (stmt cfg f st σ₂)) ∧
    (∀ ss, Stmt.CallsWithinL names ss → RelR (RelSt names) (program cfg f ss σ₁) (program cfg f ss σ₂)) := by
  have r : RelSt names σ₁ σ₂ := ⟨σ₂.procs, heq, hagree, hclosed⟩
  have h := obl_all cfg names f
  exact ⟨fun e he => h.expr e σ₁ σ₂ he r, fun st hs => h.stmt st σ₁ σ₂ hs r,
    fun ss hs => h.program ss σ₁ σ₂ hs r⟩

/-- what `RelR (RV names)` says, spelled out: equal values and final states equal except `procs` on
success; the same diagnostic on a runtime error; termination, panic and fuel exhaustion alike -/
theorem relR_spelled_out {α} (names : List Str) (r₁ r₂ : Res (α × St)) (h : RelR (RV names) r₁ r₂) :
    (∀ v σ₁', r₁ = .ok (v, σ₁') → ∃ σ₂', r₂ = .ok (v, σ₂') ∧ EqExceptProcs σ₁' σ₂' ∧
      ∀ n ∈ names, σ₁'.procs.find? n = σ₂'.procs.find? n) ∧
    (∀ e σ₁', r₁ = .err e σ₁' → ∃ σ₂', r₂ = .err e σ₂' ∧ EqExceptProcs σ₁' σ₂') ∧
    (∀ w σ₁', r₁ = .terminate w σ₁' → ∃ σ₂', r₂ = .terminate w σ₂' ∧ EqExceptProcs σ₁' σ₂') ∧
    (∀ p o, r₁ = .panic p o → r₂ = .panic p o) ∧ (r₁ = .fuel → r₂ = .fuel) := by
  refine ⟨?_, ?_, ?_, ?_, ?_⟩
  · rintro v s1 rfl
    cases r₂ with
    | ok x =>
      obtain ⟨v', s2⟩ := x
      obtain ⟨hv, Q, rfl, ha, _⟩ := h
      dsimp only at hv; subst hv
      exact ⟨_, rfl, rfl, ha⟩
    | _ => exact False.elim h
  · rintro e s1 rfl
    cases r₂ with
    | err e' s2 => obtain ⟨rfl, Q, rfl⟩ := h; exact ⟨_, rfl, rfl⟩
    | _ => exact False.elim h
  · rintro w s1 rfl
    cases r₂ with
    | terminate w' s2 => obtain ⟨rfl, Q, rfl⟩ := h; exact ⟨_, rfl, rfl⟩
    | _ => exact False.elim h
  · rintro p o rfl
    cases r₂ with
    | panic p' o' => obtain ⟨rfl, rfl⟩ := h; rfl
    | _ => exact False.elim h
  · rintro rfl
    cases r₂ with
    | fuel => rfl
    | _ => exact False.elim h

/-- after IMPORT MOD of a user module: the importer's table agrees with the module's own table on every
name that the module exports as it defines it last, and on every name the module does not export and the
importer defines as the module does (the CORE procedures, unless one side redefined them) -/
theorem agreeOn_after_import (σ σm : St) (names : List Str) (hnd : FunTable.NoDupKeys σm.exports)
    (h : ∀ n ∈ names,
      (σm.exports.find? n ≠ none ∧ σm.exports.find? n = σm.procs.find? n) ∨
      (σm.exports.find? n = none ∧ σ.procs.find? n = σm.procs.find? n)) :
    AgreeOn names σm.procs (σ.procs.extend σm.exports) := by
  intro n hn
  rw [FunTable.find?_extend_of_noDup _ _ hnd]
  rcases h n hn with ⟨h1, h2⟩ | ⟨h1, h2⟩
  · rw [← h2]
    cases hf : σm.exports.find? n with
    | none => exact absurd hf h1
    | some p => rfl
  · rw [h1, ← h2]; rfl

/-- PARTIAL version of "an exported procedure behaves when called from the importer as it does inside its
own module". Missing for the full statement: it is restricted to calls whose reachable procedures all lie
in `names` (hypotheses `hclosed`, `g ∈ names`, `hargs`) with the two tables agreeing on `names` (`hagree`,
see `agreeOn_after_import`) — without that restriction the statement is false (counterexample below); and
the two calls are compared in states that are equal except for the procedure table (same variables, heap,
output and world), i.e. "called from the importer" is modelled as "called with the importer's table" -/
theorem exported_behaves_as_in_module_partial (names : List Str) (f : Nat) (σmod σimp : St)
    (heq : EqExceptProcs σmod σimp) (hagree : ∀ n ∈ names, σmod.procs.find? n = σimp.procs.find? n)
    (hclosed : Closed names σmod.procs)
    (g : Str) (hg : g ∈ names) (args : List Expr) (hargs : Expr.CallsWithinL names args)
    (spans : List Span) (tok lp rp : Token) :
    RelR (RV names) (expr cfg f (.call g args spans tok lp rp) σmod)
      (expr cfg f (.call g args spans tok lp rp) σimp) :=
  (eval_depends_on_called_names_only cfg names f σmod σimp heq hagree hclosed).1 _
    (by simp only [Expr.CallsWithin]; exact ⟨hg, hargs⟩)

/-- the same, instantiated at an IMPORT MOD of a user module that succeeded: in the importer's state `σ'`
the call of `g` behaves as it would with the module's own final table `σm.procs` in force -/
theorem exported_behaves_after_import_partial (names : List Str) (f : Nat) (σ σm σ' : St)
    (hσ' : σ' = { afterModule σ σm with procs := σ.procs.extend σm.exports })
    (hnd : FunTable.NoDupKeys σm.exports)
    (hnames : ∀ n ∈ names,
      (σm.exports.find? n ≠ none ∧ σm.exports.find? n = σm.procs.find? n) ∨
      (σm.exports.find? n = none ∧ σ.procs.find? n = σm.procs.find? n))
    (hclosed : Closed names σm.procs)
    (g : Str) (hg : g ∈ names) (args : List Expr) (hargs : Expr.CallsWithinL names args)
    (spans : List Span) (tok lp rp : Token) :
    RelR (RV names) (expr cfg f (.call g args spans tok lp rp) (σ'.withProcs σm.procs))
      (expr cfg f (.call g args spans tok lp rp) σ') := by
  refine exported_behaves_as_in_module_partial cfg names f (σ'.withProcs σm.procs) σ' ?_ ?_ hclosed g hg args hargs
    spans tok lp rp
  · subst hσ'; rfl
  · subst hσ'; exact agreeOn_after_import σ σm names hnd hnames

end behaves

/-! ## the real registry -/

/-- no two native procedures share a name, so no table of `stdModule` defines a name twice -/
theorem stdModule_noDup (m : Str) (table : FunTable) (h : stdModule m = some table) : FunTable.NoDupKeys table := by
  unfold stdModule at h
  simp only [] at h
  split at h
  · cases h
  · injection h with h
    subst h
    unfold FunTable.NoDupKeys FunTable.keys
    rw [List.map_map]
    have hall : (Native.all.map Native.name).Nodup := by decide +kernel
    exact List.Nodup.sublist (List.Sublist.map _ List.filter_sublist) hall

/-! ## the hypotheses are satisfiable: the real registry `stdModule` -/

namespace C13Demo

def strTok (s : Str) (off : Nat) : Token := { tt := .stringLiteral, lexeme := s, lit := .str s, off := off, len := s.length }

/-- the table of the library module MATH -/
def mathTable : FunTable := (stdModule "MATH".toList).getD []

theorem math_registered : stdModule "MATH".toList = some mathTable := by
  have h : (stdModule "MATH".toList).isSome = true := by decide +kernel
  unfold mathTable
  cases hm : stdModule "MATH".toList with
  | none => rw [hm] at h; cases h
  | some t => rfl

theorem nope_not_registered : stdModule "NOPE".toList = none := by
  have h : (stdModule "NOPE".toList).isNone = true := by decide +kernel
  cases hm : stdModule "NOPE".toList with
  | none => rfl
  | some t => rw [hm] at h; cases h

variable (lx : LexCfg) (ch : CharEnv) (rm : List Stmt → St → Res St) (σ : St)

/-- IMPORT MOD "MATH" makes SIN callable, and leaves a name MATH does not define (SPLIT, of STRING) as it was -/
example : ∃ σ', importStmt ⟨lx, ch, stdModule⟩ rm none (strTok "MATH".toList 11) σ = .ok σ' ∧
    (σ'.procs.find? "SIN".toList).isSome = true ∧ σ'.procs.find? "SPLIT".toList = σ.procs.find? "SPLIT".toList ∧
    σ'.scopes = σ.scopes := by
  obtain ⟨h1, h2⟩ := import_mod_exact ⟨lx, ch, stdModule⟩ rm (strTok "MATH".toList 11) σ "MATH".toList mathTable rfl
    math_registered
  refine ⟨_, h1, ?_, ?_, rfl⟩
  · show ((σ.procs.extend mathTable).find? "SIN".toList).isSome = true
    rw [h2]
    have : (FunTable.find? mathTable.reverse "SIN".toList).isSome = true := by decide +kernel
    cases hf : FunTable.find? mathTable.reverse "SIN".toList with
    | none => rw [hf] at this; cases this
    | some p => rfl
  · show (σ.procs.extend mathTable).find? "SPLIT".toList = _
    rw [h2]
    have : (FunTable.find? mathTable.reverse "SPLIT".toList).isNone = true := by decide +kernel
    cases hf : FunTable.find? mathTable.reverse "SPLIT".toList with
    | none => rfl
    | some p => rw [hf] at this; cases this

/-- IMPORT "SIN" FROM MOD "MATH" makes SIN callable and COS not (when it was not before) -/
example (hcos : σ.procs.find? "COS".toList = none) :
    ∃ σ', importStmt ⟨lx, ch, stdModule⟩ rm (some [strTok "SIN".toList 7]) (strTok "MATH".toList 22) σ = .ok σ' ∧
      (σ'.procs.find? "SIN".toList).isSome = true ∧ σ'.procs.find? "COS".toList = none := by
  have hin : ∀ nm ∈ [strTok "SIN".toList 7].map tokName, mathTable.find? nm ≠ none := by
    intro nm hnm
    simp only [List.map_cons, List.map_nil, List.mem_cons, List.not_mem_nil, or_false] at hnm
    subst hnm
    have : (mathTable.find? (tokName (strTok "SIN".toList 7))).isSome = true := by decide +kernel
    intro h0; rw [h0] at this; cases this
  obtain ⟨m, h1, h2⟩ := import_names_exact ⟨lx, ch, stdModule⟩ rm [strTok "SIN".toList 7] (strTok "MATH".toList 22) σ
    "MATH".toList mathTable rfl math_registered (by intro t ht; simp at ht; subst ht; exact ⟨_, rfl⟩) (by simp) hin
  refine ⟨_, h1, ?_, ?_⟩
  · show ((σ.procs.extend m).find? "SIN".toList).isSome = true
    rw [h2]
    have hmem : "SIN".toList ∈ [strTok "SIN".toList 7].map tokName := by decide +kernel
    rw [if_pos hmem]
    have := hin _ hmem
    cases hf : mathTable.find? "SIN".toList with
    | none => exact absurd hf this
    | some p => rfl
  · show (σ.procs.extend m).find? "COS".toList = none
    rw [h2]
    have hmem : ¬ "COS".toList ∈ [strTok "SIN".toList 7].map tokName := by decide +kernel
    rw [if_neg hmem, hcos]

/-- IMPORT "NOPE" FROM MOD "MATH" is reported at the token NOPE -/
example : importStmt ⟨lx, ch, stdModule⟩ rm (some [strTok "SIN".toList 7, strTok "NOPE".toList 14])
      (strTok "MATH".toList 30) σ = .err ⟨"Invalid Function", (14, 4)⟩ σ := by
  have hsin : ∀ n ∈ [strTok "SIN".toList 7].map tokName, mathTable.find? n ≠ none := by
    intro nm hnm
    simp only [List.map_cons, List.map_nil, List.mem_cons, List.not_mem_nil, or_false] at hnm
    subst hnm
    have : (mathTable.find? (tokName (strTok "SIN".toList 7))).isSome = true := by decide +kernel
    intro h0; rw [h0] at this; cases this
  have hnope : mathTable.find? "NOPE".toList = none := by
    have : (mathTable.find? "NOPE".toList).isNone = true := by decide +kernel
    cases hf : mathTable.find? "NOPE".toList with
    | none => rfl
    | some p => rw [hf] at this; cases this
  exact unknown_name_reported ⟨lx, ch, stdModule⟩ rm [strTok "SIN".toList 7] (strTok "NOPE".toList 14) []
    (strTok "MATH".toList 30) σ "MATH".toList "NOPE".toList mathTable rfl math_registered
    (by intro t ht; simp at ht; subst ht; exact ⟨_, rfl⟩) (by simp) hsin rfl (Or.inl hnope)

/-- IMPORT MOD "NOPE": neither a library module nor an `.ap` path -/
example (hfp : σ.filePath = "main.ap".toList) :
    importStmt ⟨lx, ch, stdModule⟩ rm none (strTok "NOPE".toList 11) σ =
      .err ⟨"std module not found", (11, 4)⟩ σ := by
  refine unknown_module_reported ⟨lx, ch, stdModule⟩ rm none (strTok "NOPE".toList 11) σ "NOPE".toList rfl
    nope_not_registered ?_
  unfold modulePath; rw [hfp]; decide +kernel

/-! ### a user module, through the lexer, the parser and the evaluator of the model -/

def cfg0 : Cfg := genCfg CharEnv.ascii

/-- `m.ap`: a private helper, an exported procedure that calls it, an exported procedure that calls nothing -/
def modSrc : Str :=
  "PROCEDURE helper() { RETURN \"x\" }\nEXPORT PROCEDURE f() { RETURN helper() }\nEXPORT PROCEDURE g() { RETURN \"y\" }\n".toList

def world0 : World := { fs := [(["m.ap".toList], .file modSrc)] }

/-- the run ends normally and the variable `r` holds the string `v` -/
def endsWithVar (out : RunOut) (v : Str) : Bool :=
  (match out.status with | .ok => true | _ => false) &&
  (match out.final with
   | some σ => (match lookupVar σ ['r'] with | some (.str s) => s == v | _ => false)
   | none => false)

/-- the run ends with the runtime error `kind` -/
def endsWithErr (out : RunOut) (kind : String) : Bool :=
  match out.status with | .rtErr e => e.kind.toList == kind.toList | _ => false

/-- the hypotheses of the user-module theorems hold here: `m.ap` is found, lexes and parses -/
example : hasApExtension (modulePath (initState cfg0 world0 "main.ap".toList) "m.ap".toList) = true ∧
    Fs.fileRead world0.fs (modulePath (initState cfg0 world0 "main.ap".toList) "m.ap".toList) = some modSrc ∧
    (lex cfg0.lex modSrc).errors.isEmpty = true ∧
    (match parse (parseFuel (lex cfg0.lex modSrc).tokens.length) (lex cfg0.lex modSrc).tokens with
     | .ok prog => prog.length == 3 | _ => false) = true := by decide +kernel

/-- an exported procedure that calls nothing behaves in the importer as in the module -/
example : endsWithVar (Aplang.run cfg0 50 (modSrc ++ "r <- g()\n".toList) world0 "m.ap".toList) ['y'] = true ∧
    endsWithVar (Aplang.run cfg0 50 "IMPORT MOD \"m.ap\"\nr <- g()\n".toList world0 "main.ap".toList) ['y'] = true := by
  decide +kernel

/-- the private procedure is not visible to the importer; nor is `g` when only `f` is imported -/
example : endsWithErr (Aplang.run cfg0 50 "IMPORT MOD \"m.ap\"\nr <- helper()\n".toList world0 "main.ap".toList)
      "Invalid PROCEDURE" = true ∧
    endsWithErr (Aplang.run cfg0 50 "IMPORT \"f\" FROM MOD \"m.ap\"\nr <- g()\n".toList world0 "main.ap".toList)
      "Invalid PROCEDURE" = true := by decide +kernel

/-- COUNTEREXAMPLE to "an exported procedure behaves when called from the importer as it does inside its
own module": inside `m.ap` the call `f()` returns "x"; from the importer the same call fails with
"Invalid PROCEDURE", because the body of `f` looks `helper` up in the importer's table -/
example : endsWithVar (Aplang.run cfg0 50 (modSrc ++ "r <- f()\n".toList) world0 "m.ap".toList) ['x'] = true ∧
    endsWithErr (Aplang.run cfg0 50 "IMPORT MOD \"m.ap\"\nr <- f()\n".toList world0 "main.ap".toList)
      "Invalid PROCEDURE" = true := by decide +kernel


/-! ### module names with `..`: `sub/` is a directory, `sub/n.ap` imports `../m.ap` -/

def nSrc : Str := "IMPORT MOD \"../m.ap\"\nEXPORT PROCEDURE h() { RETURN g() }\n".toList

def world1 : World :=
  { fs := [(["m.ap".toList], .file modSrc), (["sub".toList], .dir), (["sub".toList, "n.ap".toList], .file nSrc)] }

/-- `sub/../m.ap` is `m.ap`; the name as written has the `.ap` extension -/
example : hasApExtension (modulePath (initState cfg0 world1 "main.ap".toList) "sub/../m.ap".toList) = true ∧
    Fs.fileRead world1.fs (modulePath (initState cfg0 world1 "main.ap".toList) "sub/../m.ap".toList) = some modSrc := by
  decide +kernel

example : endsWithVar (Aplang.run cfg0 50 "IMPORT MOD \"sub/../m.ap\"\nr <- g()\n".toList world1 "main.ap".toList)
    ['y'] = true := by decide +kernel

/-- through a missing directory, and through a file: the module file does not exist -/
example : endsWithErr (Aplang.run cfg0 50 "IMPORT MOD \"nosub/../m.ap\"\nr <- g()\n".toList world1 "main.ap".toList)
      "module file does not exist" = true ∧
    endsWithErr (Aplang.run cfg0 50 "IMPORT MOD \"m.ap/../m.ap\"\nr <- g()\n".toList world1 "main.ap".toList)
      "module file does not exist" = true := by decide +kernel

/-- a module in `sub/` imports `../m.ap`: the text joined is `sub/../m.ap`. The procedures a module imports
are not re-exported, so `h` (which calls `g`) fails in the importer exactly as `f` does above — but the
import inside `sub/n.ap` itself went through: the run gets as far as the call -/
example : endsWithErr (Aplang.run cfg0 80 "IMPORT MOD \"sub/n.ap\"\nr <- h()\n".toList world1 "main.ap".toList)
      "Invalid PROCEDURE" = true ∧
    endsWithVar (Aplang.run cfg0 80 "IMPORT MOD \"sub/n.ap\"\nr <- \"ok\"\n".toList world1 "main.ap".toList)
      ['o', 'k'] = true := by decide +kernel

/-- the text stays as written: imported as `sub/../sub/n.ap`, the module `n.ap` looks `../m.ap` up at
`sub/../sub/../m.ap` -/
example : modulePath (moduleState cfg0 (initState cfg0 world1 "main.ap".toList)
      (modulePath (initState cfg0 world1 "main.ap".toList) "sub/../sub/n.ap".toList)) "../m.ap".toList =
      "sub/../sub/../m.ap".toList ∧
    Fs.fileRead world1.fs "sub/../sub/../m.ap".toList = some modSrc ∧
    endsWithVar (Aplang.run cfg0 80 "IMPORT MOD \"sub/../sub/n.ap\"\nr <- \"ok\"\n".toList world1 "main.ap".toList)
      ['o', 'k'] = true := by decide +kernel

/-- with `sub/` missing the same import inside `n.ap` would fail — here `n.ap` sits in the root and imports
`nosub/../m.ap` -/
example : endsWithErr (Aplang.run cfg0 80 "IMPORT MOD \"n2.ap\"\nr <- \"ok\"\n".toList
      { fs := [(["m.ap".toList], .file modSrc),
               (["n2.ap".toList], .file "IMPORT MOD \"nosub/../m.ap\"\n".toList)] } "main.ap".toList)
      "module file does not exist" = true := by decide +kernel

/-! ### the hypotheses of `exported_behaves_as_in_module_partial` are satisfiable -/

/-- `RETURN "y"` -/
def gBody : Stmt := .ret default (some (.lit (.str ['y']) default))
/-- the module's table: the exported `g` and a private `h`; the importer's table: `g` only -/
def modTable : FunTable := [(['g'], .user [] gBody), (['h'], .native .sin)]
def impTable : FunTable := [(['g'], .user [] gBody)]

example : Closed [['g']] modTable ∧ AgreeOn [['g']] modTable impTable ∧
    EqExceptProcs ({ procs := modTable } : St) { procs := impTable } ∧ Expr.CallsWithinL [['g']] [] := by
  refine ⟨?_, ?_, rfl, trivial⟩
  · intro n hn p hp
    simp only [List.mem_singleton] at hn; subst hn
    have h : modTable.find? ['g'] = some (.user [] gBody) := rfl
    rw [h] at hp; injection hp with hp; subst hp
    simp [Proc.CallsWithin, gBody, Stmt.CallsWithin, Expr.CallsWithin]
  · intro n hn
    simp only [List.mem_singleton] at hn; subst hn
    rfl

end C13Demo

end Aplang
