import Aplang.Proofs.StrOpsLaws
import Aplang.Proofs.NativeEqns
import Aplang.Model.Interp
/-!
# C14 — the STRING module and character positions

Model: the STRING arms of `callNative` (`Model/Natives.lean`, src `standard_library/strings.rs`), the string
operations of `Prim/StrOps.lean` (laws in `Proofs/StrOpsLaws.lean`), `indexRead` and the `FOR EACH` arm of
`stmt` (`Model/Interp.lean`).

All statements are about `callNative` itself and hold for **every** input, state and `CharEnv` (the Unicode
white-space predicate and the case-mapping tables are parameters of the model: `env.isWs`, `env.upper`,
`env.lower`).  A string is a `List Char`, so *position* means *character* (Unicode scalar value) position
everywhere.

* `native_to_upper`, `native_to_lower`, `native_trim`, `native_contains`, `native_starts_with`,
  `native_ends_with`, `native_replace`, `native_split`, `native_join`, `native_to_char_array`,
  `native_to_number`, `native_to_bool` — each procedure returns its documented model.
* `substring_spec` and corollaries — 1-based start, clipped at the end, start below 1 (or NaN) is an error at the
  second argument.
* `native_join_split` — `JOIN(SPLIT(s, p), p) = s` for every non-empty `p`, through the heap.
* `position_length`, `forEach_string_cell`, `forEach_string_visits`, `index_str_ok_iff`, `index_str_value`, `index_integral_iff_partial` —
  LENGTH / FOR EACH / indexing agree.
* `string_cast_leftmost` — a wrong argument type is a runtime error at the span of that argument, the
  left-most one first.

`_partial` theorems: `index_integral_iff_partial` only (hypothesis `natIndex n.toFloat = some (n - 1)`:
a fact about `Float` subtraction that is kernel-checked for instances below but not proved for all `n`).
-/
namespace Aplang.C14
open Aplang StrOps

variable (env : CharEnv) (σ : St)

/-! ## displaying strings, fresh list cells -/

theorem display_str (s : Str) : display σ (.str s) = .ok s := by simp [display, displayV]

/-- `JOIN` shows every element with `Display`; a string is shown as itself -/
theorem displayAll_strs (parts : List Str) : displayAll σ (parts.map Value.str) = .ok parts := by
  induction parts with
  | nil => rfl
  | cons p ps ih => simp [displayAll, display_str, ih]

/-- what `mkList` does: one new cell at the end of the heap, nothing else changes -/
theorem mkList_eq (vs : List Value) :
    mkList σ vs = (.list σ.heap.length, { σ with heap := σ.heap ++ [.list vs] }) := rfl

theorem getList_mkList (vs : List Value) :
    getList (mkList σ vs).2 σ.heap.length = some vs := by
  simp [mkList_eq, getList]

/-- cells that existed before are not touched -/
theorem getList_mkList_old (vs : List Value) (a : Nat) (h : a < σ.heap.length) :
    getList (mkList σ vs).2 a = getList σ a := by
  simp [mkList_eq, getList, List.getElem?_append_left h]

/-! ## Boolean tests: CONTAINS, STARTS_WITH, ENDS_WITH -/

theorem contains_eq_decide (s p : Str) : StrOps.contains s p = decide (p <:+: s) := by
  rw [Bool.eq_iff_iff]; simp [contains_iff_infix]
theorem startsWith_eq_decide (s p : Str) : StrOps.startsWith s p = decide (p <+: s) := by
  rw [Bool.eq_iff_iff]; simp [startsWith_iff_prefix]
theorem endsWith_eq_decide (s p : Str) : StrOps.endsWith s p = decide (p <:+ s) := by
  rw [Bool.eq_iff_iff]; simp [endsWith_iff_suffix]

/-- `CONTAINS(s, p)`: `p` occurs in `s` as a contiguous block of characters (`∃ x y, s = x ++ p ++ y`) -/
theorem native_contains (s p : Str) (a b : Span) :
    callNative env .contains [.str s, .str p] [a, b] σ = .ok (.bool (decide (p <:+: s)), σ) := by
  rw [callNative_contains, ← contains_eq_decide]; rfl

theorem native_contains_iff (s p : Str) (a b : Span) :
    callNative env .contains [.str s, .str p] [a, b] σ = .ok (.bool true, σ) ↔ ∃ x y, s = x ++ p ++ y := by
  rw [callNative_contains, ← contains_iff]
  show Res.ok (Value.bool (StrOps.contains s p), σ) = _ ↔ _
  cases StrOps.contains s p <;> simp

/-- `STARTS_WITH(s, p)`: `p` is a prefix of `s` (`∃ y, s = p ++ y`) -/
theorem native_starts_with (s p : Str) (a b : Span) :
    callNative env .startsWith [.str s, .str p] [a, b] σ = .ok (.bool (decide (p <+: s)), σ) := by
  rw [callNative_startsWith, ← startsWith_eq_decide]; rfl

/-- `ENDS_WITH(s, p)`: `p` is a suffix of `s` (`∃ x, s = x ++ p`) -/
theorem native_ends_with (s p : Str) (a b : Span) :
    callNative env .endsWith [.str s, .str p] [a, b] σ = .ok (.bool (decide (p <:+ s)), σ) := by
  rw [callNative_endsWith, ← endsWith_eq_decide]; rfl

/-! ## TO_UPPER, TO_LOWER, TRIM -/

/-- `TO_UPPER`: every character replaced by its upper-case mapping (1–3 characters, `char::to_uppercase`) -/
theorem native_to_upper (s : Str) (a : Span) :
    callNative env .toUpper [.str s] [a] σ = .ok (.str (s.flatMap env.upper), σ) := rfl

/-- `TO_LOWER` is Rust's `str::to_lowercase`: every character replaced by its lower-case mapping, except that a
capital sigma becomes the final sigma `ς` at the end of a word (a cased letter before it, none after it, skipping
case-ignorable characters) and `σ` elsewhere -/
theorem native_to_lower (s : Str) (a : Span) :
    callNative env .toLower [.str s] [a] σ = .ok (.str (StrOps.toLowerSigma env env.caseIgn env.cased s), σ) := rfl

/-- without a capital sigma it is the character-wise mapping -/
theorem native_to_lower_plain (s : Str) (a : Span) (h : StrOps.capSigma ∉ s) :
    callNative env .toLower [.str s] [a] σ = .ok (.str (s.flatMap env.lower), σ) := by
  rw [native_to_lower, StrOps.toLowerSigma_eq_toLower env env.caseIgn env.cased s h]; rfl

/-- the specification of trimming: `t` is `s` without its longest white-space prefix and suffix -/
structure IsTrimOf (w : Char → Bool) (s t : Str) : Prop where
  split : ∃ pre post, s = pre ++ t ++ post ∧ (∀ c ∈ pre, w c = true) ∧ (∀ c ∈ post, w c = true)
  head : ∀ c r, t = c :: r → w c = false
  last : ∀ c, t.getLast? = some c → w c = false

theorem trim_isTrimOf (w : Char → Bool) (s : Str) : IsTrimOf w s (trim w s) := by
  refine ⟨?_, trim_head_not_ws w s, fun c h => trimEnd_getLast_not_ws w _ c h⟩
  refine ⟨s.takeWhile w, ((s.dropWhile w).reverse.takeWhile w).reverse, ?_, ?_, ?_⟩
  · have h1 : s = s.takeWhile w ++ s.dropWhile w := List.takeWhile_append_dropWhile.symm
    have h2 : (s.dropWhile w).reverse =
        (s.dropWhile w).reverse.takeWhile w ++ (s.dropWhile w).reverse.dropWhile w :=
      List.takeWhile_append_dropWhile.symm
    have h3 : s.dropWhile w =
        ((s.dropWhile w).reverse.dropWhile w).reverse ++ ((s.dropWhile w).reverse.takeWhile w).reverse := by
      rw [← List.reverse_append, ← h2, List.reverse_reverse]
    simp only [trim, trimEnd, trimStart, List.append_assoc]
    rw [← h3]; exact h1
  · intro c hc
    have := List.all_takeWhile (l := s) (p := w)
    rw [List.all_eq_true] at this; exact this c hc
  · intro c hc
    have := List.all_takeWhile (l := (s.dropWhile w).reverse) (p := w)
    rw [List.all_eq_true] at this; exact this c (List.mem_reverse.1 hc)

theorem dropWhile_eq_nil_of_all (w : Char → Bool) (l : Str) (h : ∀ c ∈ l, w c = true) : l.dropWhile w = [] := by
  induction l with
  | nil => rfl
  | cons c l ih =>
    rw [List.dropWhile_cons, h c (List.mem_cons_self ..)]
    exact ih fun d hd => h d (List.mem_cons_of_mem _ hd)

/-- the specification determines the result: trimming is a function of `s` -/
theorem isTrimOf_unique (w : Char → Bool) (s t : Str) (h : IsTrimOf w s t) : t = trim w s := by
  obtain ⟨⟨pre, post, hs, hpre, hpost⟩, hh, hl⟩ := h
  subst hs
  have e1 : trimStart w (pre ++ t ++ post) = trimStart w (t ++ post) := by
    simp only [trimStart, List.append_assoc]
    rw [List.dropWhile_append_of_pos hpre]
  have e2 : trimStart w (t ++ post) = (if t = [] then [] else t ++ post) := by
    cases t with
    | nil =>
      simp only [trimStart, List.nil_append, if_true]
      exact dropWhile_eq_nil_of_all w post hpost
    | cons c r =>
      have := hh c r rfl
      simp [trimStart, this]
  unfold trim
  rw [e1, e2]
  cases t with
  | nil => simp [trimEnd]
  | cons c r =>
    simp only [List.cons_ne_nil, if_false, trimEnd, List.reverse_append]
    have hp : ∀ x ∈ post.reverse, w x = true := fun x hx => hpost x (List.mem_reverse.1 hx)
    rw [List.dropWhile_append_of_pos hp]
    have hne : (c :: r).reverse ≠ [] := by simp
    cases hr : (c :: r).reverse with
    | nil => exact absurd hr hne
    | cons d q =>
      have hd : (c :: r).getLast? = some d := by
        rw [← List.head?_reverse, hr]; rfl
      have := hl d hd
      rw [List.dropWhile_cons, this]
      simp only [Bool.false_eq_true, if_false]
      rw [← hr, List.reverse_reverse]

/-- `TRIM(s)`: `s` without its longest white-space prefix and suffix -/
theorem native_trim (s : Str) (a : Span) :
    ∃ t, callNative env .trim [.str s] [a] σ = .ok (.str t, σ) ∧ IsTrimOf env.isWs s t ∧ t <:+: s := by
  refine ⟨trim env.isWs s, rfl, trim_isTrimOf _ _, ?_⟩
  obtain ⟨pre, post, h, _⟩ := (trim_isTrimOf env.isWs s).split
  exact ⟨pre, post, h.symm⟩

/-! ## REPLACE, SPLIT, JOIN, TO_CHAR_ARRAY -/

/-- `REPLACE(s, f, t)`: cut `s` at the left-most non-overlapping occurrences of `f`, glue with `t` — for
every `f`, the empty one included (where Rust inserts `t` at every character boundary) -/
theorem native_replace (s f t : Str) (a b c : Span) :
    callNative env .replace [.str s, .str f, .str t] [a, b, c] σ =
      .ok (.str (join (split s f) t), σ) := by
  rw [callNative_replace, ← replace_eq_join_split']; rfl

/-- a pattern that does not occur: nothing is replaced -/
theorem native_replace_absent (s f t : Str) (a b c : Span) (hf : f ≠ []) (h : ¬ f <:+: s) :
    callNative env .replace [.str s, .str f, .str t] [a, b, c] σ = .ok (.str s, σ) := by
  rw [native_replace, split_eq_singleton_of_not_contains s f hf]; · rfl
  rw [contains_eq_decide]; simpa using h

/-- `SPLIT(s, p)`: a new list cell holding the pieces of `StrOps.split`; nothing else changes.
The pieces: glued with `p` they give back `s` (`join_split'`), and for `p ≠ []` no piece contains `p`
(`split_no_pat`), i.e. the cuts are exactly at the left-most non-overlapping occurrences. -/
theorem native_split (s p : Str) (a b : Span) :
    callNative env .split [.str s, .str p] [a, b] σ =
      .ok (.list σ.heap.length, { σ with heap := σ.heap ++ [.list ((split s p).map Value.str)] }) := rfl

theorem split_pieces (s p : Str) :
    join (split s p) p = s ∧ split s p ≠ [] ∧ (p ≠ [] → ∀ piece ∈ split s p, ¬ p <:+: piece) := by
  refine ⟨join_split' s p, split_ne_nil s p, fun hp piece hm => ?_⟩
  have := split_no_pat s p hp piece hm
  rw [contains_eq_decide] at this; simpa using this

/-- `JOIN(l, sep)` on a live list cell: every element is displayed, the texts are glued with `sep` -/
theorem native_join (l : Nat) (vs : List Value) (sep : Str) (a b : Span) (h : getList σ l = some vs) :
    callNative env .join [.list l, .str sep] [a, b] σ =
      (displayAll σ vs).bind fun parts => .ok (.str (join parts sep), σ) := by
  rw [callNative_join]; simp [castList, h, castStr]

/-- … in particular on a list of strings -/
theorem native_join_strs (l : Nat) (parts : List Str) (sep : Str) (a b : Span)
    (h : getList σ l = some (parts.map Value.str)) :
    callNative env .join [.list l, .str sep] [a, b] σ = .ok (.str (join parts sep), σ) := by
  rw [native_join env σ l _ sep a b h, displayAll_strs]; rfl

/-- **`JOIN(SPLIT(s, p), p) = s`** for every non-empty `p` (and, in this model, for the empty one too):
SPLIT returns a fresh list `l` in the state `σ₁`; JOIN of that list in `σ₁` is `s` and leaves `σ₁` alone. -/
theorem native_join_split (s p : Str) (a b a' b' : Span) :
    ∃ l σ₁, callNative env .split [.str s, .str p] [a, b] σ = .ok (.list l, σ₁) ∧
      callNative env .join [.list l, .str p] [a', b'] σ₁ = .ok (.str s, σ₁) := by
  refine ⟨_, _, native_split env σ s p a b, ?_⟩
  have h := getList_mkList σ ((split s p).map Value.str)
  exact (native_join_strs env _ _ (split s p) p a' b' h).trans (by rw [join_split']; rfl)

/-- `TO_CHAR_ARRAY(s)`: a new list cell with one one-character string per character of `s`, in order -/
theorem native_to_char_array (s : Str) (a : Span) :
    callNative env .toCharArray [.str s] [a] σ =
      .ok (.list σ.heap.length, { σ with heap := σ.heap ++ [.list (s.map fun c => Value.str [c])] }) := by
  rw [callNative_toCharArray]; simp [castStr, mkList_eq, charsToStrs]

/-- … which `JOIN(·, "")` turns back into `s` -/
theorem native_join_to_char_array (s : Str) (a a' b' : Span) :
    ∃ l σ₁, callNative env .toCharArray [.str s] [a] σ = .ok (.list l, σ₁) ∧
      callNative env .join [.list l, .str []] [a', b'] σ₁ = .ok (.str s, σ₁) := by
  refine ⟨_, _, rfl, ?_⟩
  have h := getList_mkList σ ((charsToStrs s).map Value.str)
  exact (native_join_strs env _ _ (charsToStrs s) [] a' b' h).trans (by rw [join_chars]; rfl)

/-! ## SUBSTRING -/

/-- `SUBSTRING(s, start, n)`: for `start ≥ 1` the `n` characters from the 1-based position `start`
(`as usize` conversions: `F64.toUSize` truncates toward zero and saturates); otherwise — `start < 1`, and
also NaN — a runtime error at the second argument. -/
theorem substring_spec (s : Str) (st len : Float) (a b c : Span) :
    callNative env .substring [.str s, .num st, .num len] [a, b, c] σ =
      if st >= 1.0 then .ok (.str ((s.drop (F64.toUSize st - 1)).take (F64.toUSize len)), σ)
      else .err ⟨"Invalid String Index", b⟩ σ := rfl

theorem substring_ok (s : Str) (st len : Float) (a b c : Span) (h : st >= 1.0) :
    callNative env .substring [.str s, .num st, .num len] [a, b, c] σ =
      .ok (.str ((s.drop (F64.toUSize st - 1)).take (F64.toUSize len)), σ) := by
  rw [substring_spec, if_pos h]

theorem substring_err (s : Str) (st len : Float) (a b c : Span) (h : ¬ st >= 1.0) :
    callNative env .substring [.str s, .num st, .num len] [a, b, c] σ =
      .err ⟨"Invalid String Index", b⟩ σ := by
  rw [substring_spec, if_neg h]

/-- the result is the window `[start-1, start-1+n)` of `s`, clipped at the end of `s` -/
theorem substring_clipped (s : Str) (start n : Nat) :
    ((s.drop (start - 1)).take n).length = min n (s.length - (start - 1)) ∧
    (s.drop (start - 1)).take n <:+: s ∧
    ∀ i, i < min n (s.length - (start - 1)) → ((s.drop (start - 1)).take n)[i]? = s[start - 1 + i]? := by
  refine ⟨by simp, ?_, fun i hi => ?_⟩
  · exact List.IsInfix.trans (List.take_prefix _ _).isInfix (List.drop_suffix _ _).isInfix
  · rw [List.getElem?_take_of_lt (by omega), List.getElem?_drop]

/-- a start past the end gives the empty string (no error) -/
theorem substring_past_end (s : Str) (st len : Float) (a b c : Span) (h : st >= 1.0)
    (hp : s.length ≤ F64.toUSize st - 1) :
    callNative env .substring [.str s, .num st, .num len] [a, b, c] σ = .ok (.str [], σ) := by
  rw [substring_ok env σ s st len a b c h, List.drop_eq_nil_of_le hp, List.take_nil]

/-- no comparison with NaN holds -/
theorem not_ge_of_isNaN (x y : Float) (h : x.isNaN = true) : ¬ x >= y := by
  have h' : x.toModel.unpack.isNaN = true := h
  intro hge
  have h1 : Float.le y x = true := hge
  unfold Float.le at h1
  have h2 : y.toModel.unpack.le x.toModel.unpack = true := of_decide_eq_true h1
  revert h2
  unfold Float.Model.UnpackedFloat.le
  revert h'
  cases x.toModel.unpack <;> cases y.toModel.unpack <;>
    simp [Float.Model.UnpackedFloat.isNaN, Float.Model.UnpackedFloat.compare]

theorem substring_nan (s : Str) (st len : Float) (a b c : Span) (h : st.isNaN = true) :
    callNative env .substring [.str s, .num st, .num len] [a, b, c] σ =
      .err ⟨"Invalid String Index", b⟩ σ :=
  substring_err env σ s st len a b c (not_ge_of_isNaN st 1.0 h)

/-! ## TO_NUMBER, TO_BOOL -/

/-- `TO_NUMBER(s)`: the parsed double (`F64.parse` = `str::parse::<f64>`), else NULL -/
theorem native_to_number (s : Str) (a : Span) :
    callNative env .toNumber [.str s] [a] σ =
      .ok ((match F64.parse s with | some x => .num x | none => .null), σ) := rfl

theorem native_to_number_some (s : Str) (x : Float) (a : Span) (h : F64.parse s = some x) :
    callNative env .toNumber [.str s] [a] σ = .ok (.num x, σ) := by rw [native_to_number, h]

theorem native_to_number_none (s : Str) (a : Span) (h : F64.parse s = none) :
    callNative env .toNumber [.str s] [a] σ = .ok (.null, σ) := by rw [native_to_number, h]

/-- `TO_BOOL(s)`: exactly `"true"` ↦ TRUE, exactly `"false"` ↦ FALSE, everything else NULL -/
theorem native_to_bool (s : Str) (a : Span) :
    callNative env .toBool [.str s] [a] σ =
      .ok ((if s = ['t', 'r', 'u', 'e'] then .bool true
            else if s = ['f', 'a', 'l', 's', 'e'] then .bool false else .null), σ) := by
  rw [callNative_toBool]
  simp only [castStr, Res.bind_ok, parseBool]
  by_cases h1 : s = ['t', 'r', 'u', 'e']
  · simp [h1]
  · by_cases h2 : s = ['f', 'a', 'l', 's', 'e']
    · simp [h2]
    · simp [h1, h2]

/-! ## Character positions: LENGTH, FOR EACH, indexing -/

/-- (a) `LENGTH(s)` is the number of characters -/
theorem position_length (s : Str) (sp : List Span) :
    callNative env .length [.str s] sp σ = .ok (.num s.length.toFloat, σ) := rfl

/-- (b) `FOR EACH c IN s`: the `.forEach` arm of `stmt` (`Model/Interp.lean`) allocates, for a string `s`,
the cell `.list ((StrOps.charsToStrs s).map Value.str)` and then runs `forLoop` over that cell with
`len` = its length.  That cell has exactly `s.length` elements and the `i`-th is the one-character string
of the `i`-th character: the loop visits `LENGTH(s)` values, the characters of `s` in order. -/
theorem forEach_string_cell (s : Str) :
    let aσ := allocCell σ (.list ((charsToStrs s).map Value.str))
    ∃ vs, getList aσ.2 aσ.1 = some vs ∧ vs.length = s.length ∧
      ∀ i (h : i < s.length), vs[i]? = some (.str [s[i]]) := by
  refine ⟨(charsToStrs s).map Value.str, ?_, by simp [charsToStrs], fun i h => ?_⟩
  · simp [allocCell, getList]
  · simp [charsToStrs, h]

/-- (b′) the same at the level of the interpreter: `FOR EACH item IN e`, where `e` evaluates to the string `s`
in the state `σ₁` (with an active scope `fr`), **is** the loop `forLoop … 0 s.length` over the fresh cell
`(charsToStrs s).map .str` at address `σ₁.heap.length` — `LENGTH(s)` is the iteration bound, and by
`forEach_string_cell` the value visited at step `i` is the one-character string `[s[i]]`. -/
theorem forEach_string_visits (cfg : Cfg) (f : Nat) (item : Str) (t1 : Token) (list : Expr) (body : Stmt)
    (t2 t3 t4 listTok : Token) (σ0 σ σ₁ : St) (s : Str) (fr : Frame) (rest : List Frame)
    (htick : tick σ0 = some σ) (hl : expr cfg f list σ = .ok (.str s, σ₁)) (hsc : σ₁.scopes = fr :: rest) :
    stmt cfg (f+1) (.forEach item t1 list body t2 t3 t4 listTok) σ0 =
      (forLoop cfg f item σ₁.heap.length 0 s.length body
        { σ₁ with heap := σ₁.heap ++ [.list ((charsToStrs s).map Value.str)],
                  scopes := fr.erase item :: rest, loops := {} :: σ₁.loops }).bind fun σ' =>
      (popLoop σ').bind fun σ' =>
        match fr.get? item with
        | some v => define σ' item v
        | none => .ok σ' := by
  rw [stmt]
  simp only [htick, hl, Res.bind_ok]
  simp [removeVar, allocCell, hsc, getList, charsToStrs]
  rfl

/-- (c) indexing a string: `s[idx]` succeeds exactly for the indices whose 0-based position `natIndex idx`
is below `s.length` … -/
theorem index_str_ok_iff (s : Str) (idx : Float) (lt lb rb : Token) :
    (∃ v σ', indexRead (.str s) (.num idx) lt lb rb σ = .ok (v, σ')) ↔
      ∃ i, natIndex idx = some i ∧ i < s.length := by
  simp only [indexRead]
  cases hn : natIndex idx with
  | none => simp [rtErr]
  | some i =>
    simp only [Option.bind_some]
    by_cases hi : i < s.length
    · simp [hi]
    · have : s[i]? = none := List.getElem?_eq_none (Nat.le_of_not_lt hi)
      simp [hi, rtErr]

/-- … the value is the one-character string at that position, the state is unchanged … -/
theorem index_str_value (s : Str) (idx : Float) (lt lb rb : Token) (i : Nat)
    (hn : natIndex idx = some i) (hi : i < s.length) :
    indexRead (.str s) (.num idx) lt lb rb σ = .ok (.str [s[i]], σ) := by
  simp [indexRead, hn, List.getElem?_eq_getElem hi]

/-- … and every other index is the runtime error "Invalid List Index" at the bracket interior. -/
theorem index_str_err (s : Str) (idx : Float) (lt lb rb : Token)
    (h : ¬ ∃ i, natIndex idx = some i ∧ i < s.length) :
    indexRead (.str s) (.num idx) lt lb rb σ = rtErr "Invalid List Index" (interior lb rb) σ := by
  simp only [indexRead]
  cases hn : natIndex idx with
  | none => rfl
  | some i =>
    have : s[i]? = none := List.getElem?_eq_none (Nat.le_of_not_lt fun hi => h ⟨i, hn, hi⟩)
    simp [this]

/-- the same positions as FOR EACH and SUBSTRING: index `idx` reads the element that FOR EACH visits at
step `natIndex idx`, and `SUBSTRING(s, idx, 1)` is the same one-character string (for `idx ≥ 1`, where
`natIndex idx = toUSize (idx - 1)`; `SUBSTRING` itself uses `toUSize idx - 1`). -/
theorem index_eq_forEach_element (s : Str) (idx : Float) (lt lb rb : Token) (i : Nat)
    (hn : natIndex idx = some i) (hi : i < s.length) :
    ∃ v, ((charsToStrs s).map Value.str)[i]? = some v ∧
      indexRead (.str s) (.num idx) lt lb rb σ = .ok (v, σ) :=
  ⟨.str [s[i]], by simp [charsToStrs, hi], index_str_value σ s idx lt lb rb i hn hi⟩

/-- For an integral index `n` (as the double `n.toFloat`): valid iff `1 ≤ n ≤ LENGTH(s)`, so `LENGTH(s)` is the
largest valid index.  `_partial`: the hypothesis `hF` — `natIndex` of the double `n` is `n - 1`, i.e.
`n.toFloat ≥ 1.0` and `toUSize (n.toFloat - 1.0) = n - 1` — is a fact of IEEE arithmetic (exact for
`n < 2^53`) that is not proved here for all `n`; instances are kernel-checked below. -/
theorem index_integral_iff_partial (s : Str) (n : Nat) (lt lb rb : Token) (h1 : 1 ≤ n)
    (hF : natIndex n.toFloat = some (n - 1)) :
    (∃ v σ', indexRead (.str s) (.num n.toFloat) lt lb rb σ = .ok (v, σ')) ↔ n ≤ s.length := by
  rw [index_str_ok_iff, hF]
  constructor
  · rintro ⟨i, hi, hlt⟩; cases hi; omega
  · intro h; exact ⟨n - 1, rfl, by omega⟩

/-- index 0, negative indices and NaN are never valid -/
theorem natIndex_none_of_not_ge (idx : Float) (h : ¬ idx >= 1.0) : natIndex idx = none := by
  simp [natIndex, h]

/-! ### kernel-checked instances of the `Float` facts (tests of the primitive, not theorems about all `n`) -/

example : natIndex (1 : Nat).toFloat = some 0 := by decide
example : natIndex (2 : Nat).toFloat = some 1 := by decide
example : natIndex (3 : Nat).toFloat = some 2 := by decide
example : natIndex (1000000 : Nat).toFloat = some 999999 := by decide
example : natIndex (2 ^ 53 - 1 : Nat).toFloat = some (2 ^ 53 - 2) := by decide
example : natIndex (0 : Nat).toFloat = none := by decide
example : natIndex 0.5 = none ∧ natIndex (-1.0) = none ∧ natIndex (0.0 / 0.0) = none := by decide
/-- a fractional index is truncated: `s[2.9]` is `s[2]` -/
example : natIndex 2.9 = some 1 := by decide

/-! ## Argument casts -/

/-- the casts of the STRING procedures (the table `Native.sig` restricted to the module) -/
theorem string_sigs :
    Native.sig .toNumber = [.str] ∧ Native.sig .toBool = [.str] ∧ Native.sig .split = [.str, .str] ∧
    Native.sig .toUpper = [.str] ∧ Native.sig .toLower = [.str] ∧ Native.sig .trim = [.str] ∧
    Native.sig .contains = [.str, .str] ∧ Native.sig .replace = [.str, .str, .str] ∧
    Native.sig .startsWith = [.str, .str] ∧ Native.sig .endsWith = [.str, .str] ∧
    Native.sig .join = [.list, .str] ∧ Native.sig .substring = [.str, .num, .num] ∧
    Native.sig .toCharArray = [.str] := by decide

/-- a value that is not a string fails the STRING cast with "Invalid Argument Cast: STRING" at its span;
a string passes -/
theorem castFail_str_iff (v : Value) (sp : Span) :
    (ArgTy.castFail .str v sp σ = none ↔ ∃ s, v = .str s) ∧
    ((∀ s, v ≠ .str s) → ArgTy.castFail .str v sp σ = some (.err ⟨"Invalid Argument Cast: STRING", sp⟩ σ)) := by
  cases v <;> simp [ArgTy.castFail, castErr]

/-- **a non-string where a string is required is a runtime error at the span of that argument, the
left-most failing argument first.**  For a STRING procedure `n`, if argument `i` is declared `.str` and is
not a string while the arguments before it pass their casts, the result is that error — independent of the
arguments after it. -/
theorem string_cast_leftmost (n : Native) (_hm : n.module = "STRING") (args : List Value) (spans : List Span)
    (hl : args.length = n.arity) (hs : spans.length = n.arity)
    (i : Nat) (v : Value) (sp : Span)
    (ht : n.sig[i]? = some .str) (hv : args[i]? = some v) (hsp : spans[i]? = some sp)
    (hprev : ∀ j t' v' sp', j < i → n.sig[j]? = some t' → args[j]? = some v' → spans[j]? = some sp' →
      t'.castFail v' sp' σ = none)
    (hbad : ∀ s, v ≠ .str s) :
    callNative env n args spans σ = .err ⟨"Invalid Argument Cast: STRING", sp⟩ σ :=
  callNative_cast_at env σ n args spans hl hs _ i .str v sp ht hv hsp hprev ((castFail_str_iff σ v sp).2 hbad)

/-- same for the numeric arguments of SUBSTRING -/
theorem substring_cast_num (s : Str) (st len : Value) (a b c : Span) :
    ((∀ x, st ≠ .num x) →
      callNative env .substring [.str s, st, len] [a, b, c] σ = .err ⟨"Invalid Argument Cast: NUMBER", b⟩ σ) ∧
    (∀ x, st = .num x → (∀ y, len ≠ .num y) →
      callNative env .substring [.str s, st, len] [a, b, c] σ = .err ⟨"Invalid Argument Cast: NUMBER", c⟩ σ) := by
  rw [callNative_substring]
  constructor
  · intro h; cases st <;> simp_all [castStr, castNum, castErr]
  · rintro x rfl h; cases len <;> simp_all [castStr, castNum, castErr]

/-- JOIN's first argument must be a list -/
theorem join_cast_list (v sep : Value) (a b : Span) (h : ∀ l, v ≠ .list l) :
    callNative env .join [v, sep] [a, b] σ = .err ⟨"Invalid Argument Cast: LIST", a⟩ σ := by
  rw [callNative_join]; cases v <;> simp_all [castList, castErr]

/-! ### instances of `string_cast_leftmost` -/

/-- first argument wrong: error at the first span, even if later arguments are wrong too -/
example (p : Value) (a b c : Span) :
    callNative env .replace [.num 1.0, p, .null] [a, b, c] σ = .err ⟨"Invalid Argument Cast: STRING", a⟩ σ :=
  string_cast_leftmost env σ .replace rfl _ _ rfl rfl 0 _ a rfl rfl rfl (by intro j _ _ _ hj; omega)
    (by intro s h; cases h)

/-- second argument wrong, first one fine: error at the second span -/
example (s : Str) (a b c : Span) :
    callNative env .replace [.str s, .bool true, .null] [a, b, c] σ =
      .err ⟨"Invalid Argument Cast: STRING", b⟩ σ := by
  refine string_cast_leftmost env σ .replace rfl _ _ rfl rfl 1 _ b rfl rfl rfl ?_ (by intro s h; cases h)
  intro j t' v' sp' hj h1 h2 h3
  have : j = 0 := by omega
  subst this
  simp only [Native.sig, List.getElem?_cons_zero, Option.some.injEq] at h1 h2
  subst h1 h2; rfl

/-! ## Non-vacuity: the procedures on concrete inputs (ASCII tables)

`Res (Value × St)` has no decidable equality (states contain functions' worth of data); the examples project
the result to decidable data and are checked by kernel evaluation of `callNative` itself. -/

section examples
open CharEnv

private def S (x : String) : Str := x.toList
private def σ0 : St := {}
private def sp : Span := (0, 0)

/-- the returned value, as decidable data (numbers by bit pattern) -/
private inductive Out | null | num (bits : UInt64) | bool (b : Bool) | str (s : Str) | list (a : Nat) | obj (a : Nat)
  | err (kind : String) (sp : Span) | other
deriving DecidableEq

private def out : Res (Value × St) → Out
  | .ok (.null, _) => .null | .ok (.num x, _) => .num x.toBits | .ok (.bool b, _) => .bool b
  | .ok (.str s, _) => .str s | .ok (.list a, _) => .list a | .ok (.obj a, _) => .obj a
  | .err e _ => .err e.kind e.span | _ => .other

example : out (callNative ascii .toUpper [.str (S "abc-é1")] [sp] σ0) = .str (S "ABC-é1") := by decide
example : out (callNative ascii .toLower [.str (S "AbC")] [sp] σ0) = .str (S "abc") := by decide
example : out (callNative ascii .trim [.str (S " \t a b \n")] [sp] σ0) = .str (S "a b") := by decide
example : out (callNative ascii .contains [.str (S "hello"), .str (S "ell")] [sp, sp] σ0) = .bool true := by decide
example : out (callNative ascii .contains [.str (S "hello"), .str (S "")] [sp, sp] σ0) = .bool true := by decide
example : out (callNative ascii .contains [.str (S "hello"), .str (S "elo")] [sp, sp] σ0) = .bool false := by decide
example : out (callNative ascii .startsWith [.str (S "hello"), .str (S "he")] [sp, sp] σ0) = .bool true := by decide
example : out (callNative ascii .endsWith [.str (S "hello"), .str (S "lo")] [sp, sp] σ0) = .bool true := by decide
example : out (callNative ascii .replace [.str (S "aaa"), .str (S "aa"), .str (S "b")] [sp, sp, sp] σ0) =
    .str (S "ba") := by decide
example : out (callNative ascii .substring [.str (S "héllo"), .num 2.0, .num 3.0] [sp, sp, sp] σ0) =
    .str (S "éll") := by decide
example : out (callNative ascii .substring [.str (S "hello"), .num 4.0, .num 10.0] [sp, sp, sp] σ0) =
    .str (S "lo") := by decide
example : out (callNative ascii .substring [.str (S "hello"), .num 9.0, .num 1.0] [sp, sp, sp] σ0) = .str [] := by
  decide
example : out (callNative ascii .substring [.str (S "hello"), .num 0.0, .num 1.0] [sp, (7, 1), sp] σ0) =
    .err "Invalid String Index" (7, 1) := by decide
example : out (callNative ascii .substring [.str (S "hello"), .num (0.0 / 0.0), .num 1.0] [sp, (7, 1), sp] σ0) =
    .err "Invalid String Index" (7, 1) := by decide
example : out (callNative ascii .toBool [.str (S "true")] [sp] σ0) = .bool true ∧
    out (callNative ascii .toBool [.str (S "false")] [sp] σ0) = .bool false ∧
    out (callNative ascii .toBool [.str (S "True")] [sp] σ0) = .null := by decide
example : out (callNative ascii .toNumber [.str (S "12.5")] [sp] σ0) = .num (12.5 : Float).toBits ∧
    out (callNative ascii .toNumber [.str (S "12,5")] [sp] σ0) = .null := by decide
example : out (callNative ascii .length [.str (S "héllo")] [sp] σ0) = .num (5 : Float).toBits := by decide
example : out (callNative ascii .replace [.str (S "a"), .num 1.0, .null] [sp, (3, 1), sp] σ0) =
    .err "Invalid Argument Cast: STRING" (3, 1) := by decide
example : StrOps.split (S "a,b,,c") (S ",") = [S "a", S "b", S "", S "c"] := by decide
example : StrOps.split (S "ab") (S "") = [S "", S "a", S "b", S ""] := by decide

/-- SPLIT then JOIN through the heap (`display` is defined by well-founded recursion and does not evaluate in
the kernel, so this instance goes through the theorem) -/
example : ∃ l σ₁, callNative ascii .split [.str (S "a,b"), .str (S ",")] [sp, sp] σ0 = .ok (.list l, σ₁) ∧
    callNative ascii .join [.list l, .str (S ",")] [sp, sp] σ₁ = .ok (.str (S "a,b"), σ₁) :=
  native_join_split ascii σ0 (S "a,b") (S ",") sp sp sp sp
example : ∃ σ₁, callNative ascii .split [.str (S "a,b"), .str (S ",")] [sp, sp] σ0 = .ok (.list 0, σ₁) ∧
    getList σ₁ 0 = some [.str (S "a"), .str (S "b")] :=
  ⟨_, rfl, rfl⟩

/-- indexing, LENGTH and FOR EACH on `"héllo"`: 5 positions, index 2 is `é`, index 5 is the last, 6 is out -/
example : ∃ t : Token,
    out (indexRead (.str (S "héllo")) (.num 2.0) t t t σ0) = .str (S "é") ∧
    out (indexRead (.str (S "héllo")) (.num 5.0) t t t σ0) = .str (S "o") ∧
    out (indexRead (.str (S "héllo")) (.num 6.0) t t t σ0) = .err "Invalid List Index" (interior t t) ∧
    out (indexRead (.str (S "héllo")) (.num 0.0) t t t σ0) = .err "Invalid List Index" (interior t t) :=
  ⟨default, by decide, by decide, by decide, by decide⟩

/-- `IsTrimOf` is satisfiable by a non-trivial trim -/
example : IsTrimOf ascii.isWs (S "  x y ") (S "x y") := by
  have := trim_isTrimOf ascii.isWs (S "  x y ")
  have e : trim ascii.isWs (S "  x y ") = S "x y" := by decide
  rwa [e] at this

end examples

end Aplang.C14
