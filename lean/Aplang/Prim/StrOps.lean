import Aplang.Prim.Text
/-!
# String operations (stand-ins for Rust `str` methods) over `Str = List Char`

Every definition is total, executable, core-only and *structurally* recursive (so that closed examples
are decidable by kernel evaluation: `by decide`). The scanning functions (`split`, `replace`) use a
"skip counter" instead of recursing on `s.drop p.length`: after a match at `c :: cs` the remaining
`p.length - 1` characters of the match are skipped one at a time. `Proofs/StrOpsLaws.lean` proves the
`drop`-style unfolding equations (`splitGo_zero_cons`, `replaceGo_zero_cons`) and the algebraic laws.

Differentially validated against rustc 1.95 `str::{split, replace, contains, starts_with, ends_with,
trim, trim_end, lines, to_ascii_uppercase, to_ascii_lowercase, to_lowercase (Σ rule), parse::<bool>}`
(generator and checker: `/verif/harness_data/strops/{gen.rs,Check.lean}`).

Deviations / parameters (Rust behaviour that is *not* fixed here):
* White space (`trim*`) and case mapping tables (`toUpper`, `toLower`) are parameters
  (`isWs`, `CharEnv.upper/lower`); Rust uses the Unicode `White_Space` property and
  `char::to_uppercase/to_lowercase`.
* `toLower env s = s.flatMap env.lower` is context-free. Rust's `str::to_lowercase` has exactly one
  context-sensitive rule (`Σ` U+03A3 ↦ `ς` at the end of a word, else `σ`). `toLowerSigma` implements
  that rule exactly as `alloc::str::to_lowercase` does; it needs two more Unicode predicates
  (`Cased`, `Case_Ignorable`) that are not fields of `CharEnv`, so they are explicit parameters.
  `toLower env s = toLowerSigma env ign cased s` whenever `'Σ' ∉ s`
  (theorem `toLowerSigma_eq_toLower`).
-/
namespace Aplang.StrOps
open Aplang

/-! ## prefix / suffix / infix tests -/

/-- `p` is a prefix of `s` -/
def isPrefix : (p s : Str) → Bool
  | [], _ => true
  | _ :: _, [] => false
  | a :: p, b :: s => a == b && isPrefix p s

/-- Rust `s.starts_with(p)` (`p : &str`) -/
def startsWith (s p : Str) : Bool := isPrefix p s

/-- Rust `s.ends_with(p)` -/
def endsWith (s p : Str) : Bool := isPrefix p.reverse s.reverse

/-- Rust `s.contains(p)`; the empty pattern is contained in every string -/
def contains : (s p : Str) → Bool
  | [], p => isPrefix p []
  | c :: cs, p => isPrefix p (c :: cs) || contains cs p

/-! ## join -/

/-- Rust `parts.join(sep)` -/
def join : (parts : List Str) → (sep : Str) → Str
  | [], _ => []
  | [x], _ => x
  | x :: y :: r, sep => x ++ sep ++ join (y :: r) sep

/-- `s.chars().map(|c| c.to_string())` -/
def charsToStrs (s : Str) : List Str := s.map (fun c => [c])

/-! ## split -/

/-- Scanner for a non-empty pattern `p`.
`splitGo p s k acc`: `k` characters of `s` still belong to the match found last and are skipped;
`acc` is the current piece, reversed. -/
def splitGo (p : Str) : (s : Str) → (skip : Nat) → (acc : Str) → List Str
  | [], _, acc => [acc.reverse]
  | _ :: cs, k + 1, acc => splitGo p cs k acc
  | c :: cs, 0, acc =>
    if isPrefix p (c :: cs) then acc.reverse :: splitGo p cs (p.length - 1) []
    else splitGo p cs 0 (c :: acc)

/-- Rust `s.split(pat).collect::<Vec<&str>>()` for a `&str` pattern: pieces between the leftmost,
non-overlapping occurrences of `pat`. For the empty pattern Rust reports a match at every char boundary
(including both ends): `"ab".split("") = ["", "a", "b", ""]`, `"".split("") = ["", ""]`. -/
def split (s pat : Str) : List Str :=
  match pat with
  | [] => [] :: (charsToStrs s ++ [[]])
  | _ :: _ => splitGo pat s 0 []

/-! ## replace -/

/-- Scanner for a non-empty pattern `f` (same skip-counter scheme as `splitGo`) -/
def replaceGo (f t : Str) : (s : Str) → (skip : Nat) → Str
  | [], _ => []
  | _ :: cs, k + 1 => replaceGo f t cs k
  | c :: cs, 0 =>
    if isPrefix f (c :: cs) then t ++ replaceGo f t cs (f.length - 1)
    else c :: replaceGo f t cs 0

/-- Rust `s.replace(from, to)` (all leftmost non-overlapping matches). For the empty pattern `to` is
inserted before every char and at the end: `"ab".replace("", "-") = "-a-b-"`. -/
def replace (s «from» to : Str) : Str :=
  match «from» with
  | [] => to ++ s.flatMap (fun c => c :: to)
  | _ :: _ => replaceGo «from» to s 0

/-! ## trim -/

/-- Rust `trim_start` (w.r.t. the white-space predicate `isWs`) -/
def trimStart (isWs : Char → Bool) (s : Str) : Str := s.dropWhile isWs

/-- Rust `trim_end` -/
def trimEnd (isWs : Char → Bool) (s : Str) : Str := (s.reverse.dropWhile isWs).reverse

/-- Rust `trim` -/
def trim (isWs : Char → Bool) (s : Str) : Str := trimEnd isWs (trimStart isWs s)

/-! ## lines -/

/-- finish a line that was terminated by `\n`: `acc` is the reversed line content; one `\r` directly
before the `\n` is removed (Rust: `line.strip_suffix('\n')?.strip_suffix('\r')`) -/
def finishLine : (acc : Str) → Str
  | [] => []
  | c :: r => if c = '\r' then r.reverse else (c :: r).reverse

/-- `linesGo s acc`: `acc` is the current (unterminated) line, reversed -/
def linesGo : (s acc : Str) → List Str
  | [], [] => []
  | [], a :: acc => [(a :: acc).reverse]
  | c :: cs, acc => if c = '\n' then finishLine acc :: linesGo cs [] else linesGo cs (c :: acc)

/-- Rust `s.lines().collect::<Vec<_>>()` = `split_inclusive('\n')` with the line ending `\n` or `\r\n`
stripped from each piece. Consequences (checked against rustc): a `\r` is removed only when it is
directly followed by `\n` (`"a\r".lines() = ["a\r"]`, `"a\r\r\n".lines() = ["a\r"]`); no empty last line
after a final `\n` (`"a\n".lines() = ["a"]`, `"\n".lines() = [""]`); `"".lines() = []`. -/
def lines (s : Str) : List Str := linesGo s []

/-! ## case mapping -/

/-- Rust `to_uppercase` with the table `env.upper` (`char::to_uppercase`, 1–3 chars) -/
def toUpper (env : CharEnv) (s : Str) : Str := s.flatMap env.upper

/-- context-free lower-casing; equals Rust `to_lowercase` on every string without `Σ` (U+03A3) -/
def toLower (env : CharEnv) (s : Str) : Str := s.flatMap env.lower

/-- `Σ` GREEK CAPITAL LETTER SIGMA -/
def capSigma : Char := Char.ofNat 0x3A3
/-- `σ` GREEK SMALL LETTER SIGMA -/
def smallSigma : Char := Char.ofNat 0x3C3
/-- `ς` GREEK SMALL LETTER FINAL SIGMA -/
def finalSigma : Char := Char.ofNat 0x3C2

/-- Rust `case_ignorable_then_cased(iter)`: skip case-ignorable chars; is the next char cased? -/
def ignThenCased (ign cased : Char → Bool) (s : Str) : Bool :=
  match s.dropWhile ign with
  | [] => false
  | c :: _ => cased c

/-- `toLowerSigmaGo env ign cased before s`: `before` = the chars already consumed, reversed -/
def toLowerSigmaGo (env : CharEnv) (ign cased : Char → Bool) : (before s : Str) → Str
  | _, [] => []
  | before, c :: cs =>
    (if c = capSigma then
      [if ignThenCased ign cased before && !ignThenCased ign cased cs then finalSigma else smallSigma]
     else env.lower c) ++ toLowerSigmaGo env ign cased (c :: before) cs

/-- Rust `str::to_lowercase`, including the `Final_Sigma` rule exactly as implemented in
`alloc::str::to_lowercase::map_uppercase_sigma`: `Σ` ↦ `ς` iff (going backwards from it, after skipping
case-ignorable chars, there is a cased char) and not (going forwards, after skipping case-ignorable
chars, there is a cased char); otherwise `σ`. `ign` = `char::is_case_ignorable`, `cased` = `char::is_cased`. -/
def toLowerSigma (env : CharEnv) (ign cased : Char → Bool) (s : Str) : Str :=
  toLowerSigmaGo env ign cased [] s

/-- Rust `to_ascii_uppercase` (`Char.toUpper` only maps `a`–`z`) -/
def toAsciiUpper (s : Str) : Str := s.map Char.toUpper

/-- Rust `to_ascii_lowercase` (`Char.toLower` only maps `A`–`Z`) -/
def toAsciiLower (s : Str) : Str := s.map Char.toLower

/-! ## misc -/

/-- Rust `s.parse::<bool>().ok()`: exactly `"true"` / `"false"` -/
def parseBool (s : Str) : Option Bool :=
  if s = ['t', 'r', 'u', 'e'] then some true
  else if s = ['f', 'a', 'l', 's', 'e'] then some false
  else none

/-- `SUBSTRING(s, start, len)` on chars, `start` is 1-based -/
def substringChars (s : Str) (start len : Nat) : Str := (s.drop (start - 1)).take len

/-- `seg₀ ++ arg₀ ++ seg₁ ++ arg₁ ++ … ++ segₙ`; `none` when the arguments run out -/
def interleave : (segs args : List Str) → Option Str
  | [], _ => some []
  | [seg], _ => some seg
  | _ :: _ :: _, [] => none
  | seg :: seg' :: rest, a :: as => (interleave (seg' :: rest) as).map (fun r => seg ++ a ++ r)

/-- `FORMAT`/`DISPLAYF` (`/repo/src/standard_library/io.rs: format`): the segments of
`fmt.split("{}")` interleaved with the (already displayed) arguments. `none` iff there are fewer
arguments than `segments − 1` (the Rust code indexes `args[i]` out of bounds there); extra arguments
are ignored. -/
def formatBraces (fmt : Str) (args : List Str) : Option Str :=
  interleave (split fmt ['{', '}']) args

end Aplang.StrOps
