import Aplang.Prim.Text
/-! STUB — replaced by the real module -/
namespace Aplang.StrOps
def startsWith (s p : Str) : Bool := p.isPrefixOf s
def endsWith (s p : Str) : Bool := p.isSuffixOf s
def contains (_s _p : Str) : Bool := false
def split (s _pat : Str) : List Str := [s]
def join (parts : List Str) (sep : Str) : Str := sep.intercalate parts
def replace (s _f _t : Str) : Str := s
def trim (_isWs : Char → Bool) (s : Str) : Str := s
def trimEnd (_isWs : Char → Bool) (s : Str) : Str := s
def lines (s : Str) : List Str := [s]
def toUpper (env : CharEnv) (s : Str) : Str := s.flatMap env.upper
def toLower (env : CharEnv) (s : Str) : Str := s.flatMap env.lower
def toAsciiUpper (s : Str) : Str := s.map Char.toUpper
def toAsciiLower (s : Str) : Str := s.map Char.toLower
def parseBool (s : Str) : Option Bool := if s == "true".toList then some true else if s == "false".toList then some false else none
def charsToStrs (s : Str) : List Str := s.map (fun c => [c])
def substringChars (s : Str) (start len : Nat) : Str := (s.drop (start - 1)).take len
def formatBraces (_fmt : Str) (_args : List Str) : Option Str := none
end Aplang.StrOps
