import Aplang.Prim.Text
/-!
# IEEE-754 binary64 primitives with the behaviour of Rust's `std` on x86-64

* `fmt`     — `format!("{}", x)`
* `parse`   — `str::parse::<f64>` (`f64::from_str`)
* `fmod`    — `x % y`
* `trunc`   — `f64::trunc`
* `toUSize`, `toU64`, `toI64` — `x as usize`, `x as u64`, `x as i64`
* `maxF`, `minF` — `f64::max`, `f64::min`

Everything is total (structural recursion, explicit fuel) and is defined through the part of
Lean 4.33's `Float` that has a logical model (`toBits`, `ofBits`, `ofScientific`, `toUInt64`,
`neg`, `<`, `isNaN`): no opaque / libm function (`floor`, `scaleB`, `toInt64`, …) is used, so
closed instances are provable by `decide`.
Validated differentially against rustc 1.95 on x86-64: generator and checker are in
`/verif/harness_data/f64` (`gen.rs`, `Check.lean`).
-/
namespace Aplang.F64

/-! ## bit-level helpers -/

def signMask : UInt64 := 0x8000000000000000
def absMask : UInt64 := 0x7FFFFFFFFFFFFFFF
def infBits : UInt64 := 0x7FF0000000000000
def nanBits : UInt64 := 0x7FF8000000000000

def posInf : Float := Float.ofBits infBits
def nan : Float := Float.ofBits nanBits

/-- sign bit of a bit pattern -/
def signBit (b : UInt64) : Bool := (b >>> 63) == 1
/-- biased exponent field (0..2047) -/
def expField (b : UInt64) : Nat := ((b >>> 52) &&& 0x7FF).toNat
/-- 52-bit fraction field -/
def fracField (b : UInt64) : Nat := (b &&& 0xFFFFFFFFFFFFF).toNat

/-- For the bit pattern of a *finite* double: `|x| = m * 2^e` with `m < 2^53`. -/
def decompose (b : UInt64) : Nat × Int :=
  let frac := fracField b
  let ex := expField b
  if ex == 0 then (frac, -1074) else (frac + 2 ^ 52, (ex : Int) - 1075)

/-- The double with sign `neg` and magnitude `r * 2^e`, built directly as a bit pattern.
Exact whenever `r * 2^e` is representable (the only way it is used); otherwise it truncates
toward zero, and gives infinity on overflow. -/
def ofExact (neg : Bool) (r : Nat) (e : Int) : Float :=
  let sgn : UInt64 := if neg then signMask else 0
  if r == 0 then Float.ofBits sgn else
  -- bring `r` below 2^53
  let b := r.log2 + 1                       -- bit length
  let down := b - 53                        -- 0 if b ≤ 53
  let r1 := r >>> down
  let e1 : Int := e + down
  if e1 < -1074 then
    -- below the subnormal grid: shift right
    let r2 := r1 >>> (-1074 - e1).toNat
    Float.ofBits (sgn ||| r2.toUInt64)
  else
  -- normalise to the left as far as the exponent allows
  let b1 := r1.log2 + 1                     -- ≤ 53
  let up := min (53 - b1) (e1 + 1074).toNat
  let r2 := r1 <<< up
  let e2 : Int := e1 - up
  if r2 < 2 ^ 52 then
    Float.ofBits (sgn ||| r2.toUInt64)      -- subnormal (e2 = -1074)
  else
    let biased := (e2 + 1075).toNat
    if biased ≥ 2047 then Float.ofBits (sgn ||| infBits)
    else Float.ofBits (sgn ||| (biased.toUInt64 <<< 52) ||| (r2 - 2 ^ 52).toUInt64)

/-! ## `fmt` : Rust's `{}` for `f64`

Shortest round-trip digits, computed exactly with natural numbers.  A finite positive double
`x = m * 2^e` is the unique double nearest to every real in its *rounding interval*
`[x - gapBelow/2, x + gapAbove/2]` (end points included iff `m` is even: ties go to even).
The shortest decimal is the one with the fewest digits inside that interval, and among those
the one closest to `x`.  Everything is scaled by a power of ten `10^s0` such that `x / 10^s0`
has 17 or 18 integer digits, so the digit search runs on machine-size naturals. -/

/-- `10 ^ n`. (Compiled code uses the table lookup `pow10Fast`, see `pow10_eq_pow10Fast`.) -/
def pow10 (n : Nat) : Nat := 10 ^ n

/-- `10^0 .. 10^399`, computed once -/
def pow10Table : Array Nat := Array.ofFn (n := 400) fun i => 10 ^ i.val

/-- `10 ^ n`, by table lookup for `n < 400` -/
def pow10Fast (n : Nat) : Nat :=
  if h : n < pow10Table.size then pow10Table[n] else 10 ^ n

/-- proved replacement of `pow10` by `pow10Fast` in compiled code -/
@[csimp] theorem pow10_eq_pow10Fast : @pow10 = @pow10Fast := by
  funext n
  unfold pow10 pow10Fast
  split
  · simp [pow10Table]
  · rfl

/-- `x` and its rounding interval in units of `10^s0` -/
structure Scaled where
  /-- `⌊x / 10^s0⌋` -/
  v : Nat
  /-- `x / 10^s0 = v + rv / den` -/
  rv : Nat
  den : Nat
  /-- least integer multiple of `10^s0` inside the rounding interval -/
  lo : Nat
  /-- greatest integer multiple of `10^s0` inside the rounding interval -/
  hi : Nat
  s0 : Int

/-- `m * 2^e` (`m > 0`), `asym` = the gap below is half the gap above (`m = 2^52`, not the least
normal binade) -/
def scale (m : Nat) (e : Int) (asym : Bool) : Scaled :=
  -- ⌊log10 x⌋ ∈ {est, est+1}
  let est : Int := (((m.log2 : Nat) : Int) + e) * 30103 / 100000
  let s0 : Int := est - 16
  -- in quarter units 2^(e-2):  x = 4m, lower end = 4m-2 (4m-1 if asym), upper end = 4m+2
  let e2 : Int := e - 2
  let v4 := 4 * m
  let l4 := if asym then v4 - 1 else v4 - 2
  let h4 := v4 + 2
  -- 2^e2 / 10^s0 = a / den
  let a : Nat := (if s0 < 0 then pow10 s0.natAbs else 1) <<< (if e2 ≥ 0 then e2.toNat else 0)
  let den : Nat := (if s0 ≥ 0 then pow10 s0.toNat else 1) <<< (if e2 < 0 then e2.natAbs else 0)
  let vN := v4 * a
  let lN := l4 * a
  let hN := h4 * a
  let incl := m % 2 == 0
  let lo := if incl then (lN + den - 1) / den else lN / den + 1
  let hi := if incl then hN / den else (hN + den - 1) / den - 1
  { v := vN / den, rv := vN % den, den := den, lo := lo, hi := hi, s0 := s0 }

/-- Try units `t = 10^j`, largest first: the two multiples of `t` next to `x` are `⌊v/t⌋*t` and
`⌊v/t⌋*t + t`; the first `t` for which one of them lies in `[lo, hi]` gives the shortest digits;
if both do, take the closer (the upper on a tie). Returns `(digits, s)`, value `digits * 10^s`. -/
def pick (sc : Scaled) : Nat → Nat → Int → Nat × Int
  | 0, _, _ => (0, 0)
  | fuel + 1, t, s =>
    let cl := sc.v / t
    let r := sc.v % t
    let xl := sc.v - r
    let xh := xl + t
    let okLo := cl > 0 && sc.lo ≤ xl && xl ≤ sc.hi
    let okHi := sc.lo ≤ xh && xh ≤ sc.hi
    if okLo || okHi then
      let c :=
        if okLo && okHi then
          (if 2 * (r * sc.den + sc.rv) < t * sc.den then cl else cl + 1)
        else if okLo then cl else cl + 1
      (c, s)
    else pick sc fuel (t / 10) (s - 1)

/-- General case of `shortest`. -/
def shortestGen (ab : UInt64) : Nat × Int :=
  let (m, e) := decompose ab
  let sc := scale m e (fracField ab == 0 && expField ab > 1)
  pick sc 19 1000000000000000000 (sc.s0 + 18)

/-- If `ab` is the pattern of an integer `n` with `1 ≤ n < 2^53`, that integer. -/
def smallInt? (ab : UInt64) : Option Nat :=
  let ex := expField ab
  if 1023 ≤ ex && ex ≤ 1075 then
    let mant : UInt64 := (ab &&& 0xFFFFFFFFFFFFF) ||| 0x10000000000000
    let sh : UInt64 := (1075 - ex).toUInt64
    let n := mant >>> sh
    if n <<< sh == mant then some n.toNat else none
  else none

/-- Shortest round-trip decimal of the finite non-zero double with bit pattern `ab`
(sign bit clear): `(digits, s)` with value `digits * 10^s` (`digits` may end in zeros).

Integers below `2^53` are their own shortest decimal (their rounding interval is at most
`[n - 1/2, n + 1/2]`, and any non-integer in it has more significant digits than `n`), so they
bypass the general computation; `shortestGen` gives the same result up to trailing zeros. -/
def shortest (ab : UInt64) : Nat × Int :=
  match smallInt? ab with
  | some n => (n, 0)
  | none => shortestGen ab

/-- remove trailing decimal zeros of `d` (fuel-bounded), adjusting the exponent -/
def stripZeros : Nat → Nat → Int → Nat × Int
  | 0, d, s => (d, s)
  | f + 1, d, s => if d != 0 && d % 10 == 0 then stripZeros f (d / 10) (s + 1) else (d, s)

/-- positional rendering of `digits * 10^s`, no exponent ever -/
def positional (ds : Str) (s : Int) : Str :=
  if s ≥ 0 then ds ++ List.replicate s.toNat '0'
  else
    let k := s.natAbs
    if ds.length > k then ds.take (ds.length - k) ++ '.' :: ds.drop (ds.length - k)
    else '0' :: '.' :: (List.replicate (k - ds.length) '0' ++ ds)

def fmtBits (bits : UInt64) : Str :=
  let neg := signBit bits
  let ab := bits &&& absMask
  if expField bits == 0x7FF then
    (if fracField bits == 0 then (if neg then "-inf".toList else "inf".toList) else "NaN".toList)
  else
    let sign : Str := if neg then ['-'] else []
    if ab == 0 then sign ++ ['0'] else
    let (d0, s0) := shortest ab
    let (d, s) := stripZeros 20 d0 s0
    sign ++ positional (Nat.toDigits 10 d) s

/-- Rust `format!("{}", x)` for `x : f64` -/
def fmt (x : Float) : Str := fmtBits x.toBits

/-! ### Reference definition of the shortest digits (not used at run time)

The same result characterised through `Float.ofScientific` (which is correctly rounded): the
least `k` such that one of the two `k`-digit neighbours of `x` reads back as `x`.  About 200×
slower than `shortest`; the checker compares the two (`f64check <dir> --ref`). -/

/-- `n / d ≥ 10^p` (for `d > 0`) -/
def geP10 (n d : Nat) (p : Int) : Bool :=
  if p ≥ 0 then decide (n ≥ d * pow10 p.toNat) else decide (n * pow10 p.natAbs ≥ d)

/-- correct an estimate `p` of `⌊log10 (n/d)⌋` (fuel = maximal distance) -/
def fixLog10 (n d : Nat) : Nat → Int → Int
  | 0, p => p
  | f + 1, p =>
    if !geP10 n d p then fixLog10 n d f (p - 1)
    else if geP10 n d (p + 1) then fixLog10 n d f (p + 1)
    else p

/-- the double nearest to `d * 10^s` -/
def readBack (d : Nat) (s : Int) : Float :=
  if s ≥ 0 then Float.ofScientific (d * pow10 s.toNat) false 0
  else Float.ofScientific d true s.natAbs

def searchRef (xb : UInt64) (n d : Nat) (p : Int) : Nat → Nat → Nat × Int
  | 0, _ => (0, 0)
  | fuel + 1, k =>
    let s : Int := p - (k : Int) + 1
    let num := if s ≥ 0 then n else n * pow10 s.natAbs
    let den := if s ≥ 0 then d * pow10 s.toNat else d
    let q := num / den
    let r := num % den
    let okLo := q > 0 && (readBack q s).toBits == xb
    let okHi := (readBack (q + 1) s).toBits == xb
    if okLo || okHi then
      let c :=
        if okLo && okHi then (if 2 * r < den then q else q + 1)
        else if okLo then q else q + 1
      (c, s)
    else searchRef xb n d p fuel (k + 1)

/-- `shortest`, by read-back -/
def shortestRef (ab : UInt64) : Nat × Int :=
  let (m, e) := decompose ab
  let n := if e ≥ 0 then m * 2 ^ e.toNat else m
  let d := if e ≥ 0 then 1 else 2 ^ e.natAbs
  let est : Int := (((m.log2 : Nat) : Int) + e) * 30103 / 100000
  searchRef ab n d (fixLog10 n d 4 est) 17 1

/-! ## `parse` : Rust's `f64::from_str` -/

def digitsToNat (ds : Str) : Nat := ds.foldl (fun a c => a * 10 + (c.toNat - 48)) 0

def lowerAscii (c : Char) : Char :=
  if 'A' ≤ c && c ≤ 'Z' then Char.ofNat (c.toNat + 32) else c

/-- the correctly rounded double nearest to `m * 10^e`; huge exponents are clamped before any
power of ten is computed -/
def ofDecimal (m : Nat) (e : Int) : Float :=
  if m == 0 then Float.ofBits 0
  else if e > 400 then posInf                                   -- m ≥ 1
  else if e < -((m.log2 : Int) + 401) then Float.ofBits 0       -- m < 10^(log2 m + 1)
  else if e ≥ 0 then Float.ofScientific m false e.toNat
  else Float.ofScientific m true e.natAbs

/-- exponent part after the `e`: optional sign, at least one digit, nothing else -/
def parseExp (s : Str) : Option Int :=
  let (neg, r) : Bool × Str :=
    match s with
    | '+' :: r => (false, r)
    | '-' :: r => (true, r)
    | _ => (false, s)
  let (ds, rest) := spanWhile isAsciiDigit r
  if ds.isEmpty || !rest.isEmpty then none
  else some (if neg then -(digitsToNat ds : Int) else (digitsToNat ds : Int))

/-- unsigned decimal number -/
def parseDecimal (s : Str) : Option Float :=
  let (ip, r1) := spanWhile isAsciiDigit s
  let (fp, r2) : Str × Str :=
    match r1 with
    | '.' :: r => spanWhile isAsciiDigit r
    | _ => ([], r1)
  if ip.isEmpty && fp.isEmpty then none else
  let ex : Option Int :=
    match r2 with
    | [] => some 0
    | c :: r => if c == 'e' || c == 'E' then parseExp r else none
  ex.map fun ex => ofDecimal (digitsToNat (ip ++ fp)) (ex - (fp.length : Int))

/-- unsigned `inf` / `infinity` / `nan`, any letter case -/
def parseSpecial (s : Str) : Option Float :=
  let l := s.map lowerAscii
  if l == "inf".toList || l == "infinity".toList then some posInf
  else if l == "nan".toList then some nan
  else none

def parseUnsigned (s : Str) : Option Float :=
  match parseDecimal s with
  | some v => some v
  | none => parseSpecial s

/-- Rust `s.parse::<f64>().ok()` -/
def parse (s : Str) : Option Float :=
  match s with
  | '-' :: r => (parseUnsigned r).map Float.neg
  | '+' :: r => parseUnsigned r
  | _ => parseUnsigned s

/-! ## `fmod` : Rust's `%` on `f64` -/

/-- C `fmod`: `x - trunc(x/y) * y` computed exactly, with the sign of `x` -/
def fmod (x y : Float) : Float :=
  let bx := x.toBits
  let ax := bx &&& absMask
  let ay := y.toBits &&& absMask
  if ax ≥ infBits || ay > infBits || ay == 0 then nan      -- x inf/NaN, y NaN, y zero
  else if ay == infBits then x                              -- finite % inf
  else if ax < ay then x                                    -- |x| < |y|
  else
    let (mx, ex) := decompose ax
    let (my, ey) := decompose ay
    if ex ≥ ey then ofExact (signBit bx) ((mx <<< (ex - ey).toNat) % my) ey
    else ofExact (signBit bx) (mx % (my <<< (ey - ex).toNat)) ex

/-! ## `trunc` -/

/-- Rust `f64::trunc`: round toward zero (clears the fractional bits of the pattern) -/
def trunc (x : Float) : Float :=
  let b := x.toBits
  let ex := expField b
  if ex < 1023 then Float.ofBits (b &&& signMask)           -- |x| < 1
  else if ex ≥ 1075 then x                                  -- already integral, inf, NaN
  else
    let sh : UInt64 := (1075 - ex).toUInt64                 -- number of fractional bits, 1..52
    Float.ofBits ((b >>> sh) <<< sh)

/-! ## casts -/

/-- Rust `x as u64` (saturating, NaN ↦ 0, toward zero) -/
def toU64 (x : Float) : Nat := x.toUInt64.toNat

/-- Rust `x as usize` on a 64-bit target -/
def toUSize (x : Float) : Nat := x.toUInt64.toNat

/-- Rust `x as i64` (saturating to `[-2^63, 2^63-1]`, NaN ↦ 0, toward zero) -/
def toI64 (x : Float) : Int :=
  if x < 0 then -((min (-x).toUInt64.toNat (2 ^ 63) : Nat) : Int)
  else ((min x.toUInt64.toNat (2 ^ 63 - 1) : Nat) : Int)

/-! ## `max` / `min` -/

/-- Rust `f64::max` -/
def maxF (a b : Float) : Float :=
  if a.isNaN then b else if b.isNaN then a else if a < b then b else a

/-- Rust `f64::min` -/
def minF (a b : Float) : Float :=
  if a.isNaN then b else if b.isNaN then a else if b < a then b else a

end Aplang.F64
