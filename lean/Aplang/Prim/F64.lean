import Aplang.Prim.Text
/-! STUB — replaced by the real module -/
namespace Aplang.F64
def fmt (x : Float) : Str := x.toString.toList
def parse (_s : Str) : Option Float := none
def fmod (x _y : Float) : Float := x
def trunc (x : Float) : Float := if x < 0 then x.ceil else x.floor
def toUSize (x : Float) : Nat := x.toUInt64.toNat
def toU64 (x : Float) : Nat := x.toUInt64.toNat
def toI64 (x : Float) : Int := x.toInt64.toInt
def maxF (a b : Float) : Float := if a.isNaN then b else if b.isNaN then a else if a < b then b else a
def minF (a b : Float) : Float := if a.isNaN then b else if b.isNaN then a else if b < a then b else a
end Aplang.F64
