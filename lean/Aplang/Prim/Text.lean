/-!
# Text primitives

One representation of text everywhere: `List Char`. Byte offsets (what the Rust code's `usize`
cursor and `SourceSpan`s are) are sums of UTF-8 sizes.
-/
namespace Aplang

abbrev Str := List Char

/-- UTF-8 length in bytes (`str::len`) -/
def ulen (cs : Str) : Nat := (cs.map Char.utf8Size).sum

@[simp] theorem ulen_nil : ulen [] = 0 := rfl
@[simp] theorem ulen_cons (c : Char) (cs : Str) : ulen (c :: cs) = c.utf8Size + ulen cs := by
  simp [ulen]
theorem ulen_append (a b : Str) : ulen (a ++ b) = ulen a + ulen b := by
  simp [ulen, List.map_append, List.sum_append]

theorem utf8Size_pos (c : Char) : 0 < c.utf8Size := Char.utf8Size_pos c

/-- take the longest prefix satisfying `p`; returns (prefix, rest) -/
def spanWhile (p : Char → Bool) : Str → Str × Str
  | [] => ([], [])
  | c :: cs => if p c then let (a, b) := spanWhile p cs; (c :: a, b) else ([], c :: cs)

theorem spanWhile_append (p) (cs : Str) : (spanWhile p cs).1 ++ (spanWhile p cs).2 = cs := by
  induction cs with
  | nil => rfl
  | cons c cs ih => simp only [spanWhile]; split <;> simp [ih]

theorem spanWhile_len (p) (cs : Str) : (spanWhile p cs).2.length ≤ cs.length := by
  have := congrArg List.length (spanWhile_append p cs); simp at this; omega

theorem spanWhile_all (p) (cs : Str) : ∀ c ∈ (spanWhile p cs).1, p c = true := by
  induction cs with
  | nil => simp [spanWhile]
  | cons c cs ih =>
    simp only [spanWhile]; split
    · rename_i h; intro d hd; simp at hd; rcases hd with rfl | hd
      · exact h
      · exact ih d hd
    · simp

theorem spanWhile_stop (p) (cs : Str) : ∀ c r, (spanWhile p cs).2 = c :: r → p c = false := by
  induction cs with
  | nil => simp [spanWhile]
  | cons c cs ih =>
    simp only [spanWhile]; split
    · exact ih
    · rename_i h; intro d r hd; simp at hd; rcases hd with ⟨rfl, _⟩; simpa using h

def isAsciiDigit (c : Char) : Bool := '0' ≤ c && c ≤ '9'

/-- Unicode classification and case mapping tables: parameters of the model (Rust's `char` methods). -/
structure CharEnv where
  isAlnum : Char → Bool
  isWs : Char → Bool
  upper : Char → Str
  lower : Char → Str
  /-- Rust `char::is_case_ignorable` (private to core; extracted behaviourally, see harness extract.rs) -/
  caseIgn : Char → Bool := fun _ => false
  /-- Rust `char::is_cased`, restricted to characters that are not case-ignorable (only those are ever asked) -/
  cased : Char → Bool := fun c => c.isAlpha

/-- ASCII-only environment (used in examples and kernel evaluation) -/
def CharEnv.ascii : CharEnv where
  isAlnum c := c.isAlphanum
  isWs c := c == ' ' || c == '\t' || c == '\n' || c == '\r' || c.val == 11 || c.val == 12
  upper c := [c.toUpper]
  lower c := [c.toLower]

end Aplang
