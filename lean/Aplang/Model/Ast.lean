import Aplang.Model.Token
/-!
# Syntax trees  (src: parser/ast.rs). Nodes keep their tokens, as in the Rust.
-/
namespace Aplang

inductive BinOp | eqeq | ne | lt | le | gt | ge | add | sub | mul | div | mod
deriving DecidableEq, Repr, Inhabited
inductive LogOp | or | and
deriving DecidableEq, Repr, Inhabited
inductive UnOp | neg | not
deriving DecidableEq, Repr, Inhabited

inductive LitV
  | num (f : Float) | str (s : Str) | true | false | null
deriving Inhabited

/-- byte range (offset, length) -/
abbrev Span := Nat × Nat

inductive Expr
  | lit (v : LitV) (tok : Token)
  | binary (l : Expr) (op : BinOp) (r : Expr) (tok : Token)
  | logical (l : Expr) (op : LogOp) (r : Expr) (tok : Token)
  | unary (op : UnOp) (r : Expr) (tok : Token)
  | grouping (e : Expr) (lp rp : Token)
  | call (name : Str) (args : List Expr) (argSpans : List Span) (tok lp rp : Token)
  | access (list : Expr) (listTok : Token) (key : Expr) (lb rb : Token)
  | list (items : List Expr) (lb rb : Token)
  | var (name : Str) (tok : Token)
  | assign (name : Str) (nameTok : Token) (value : Expr) (arrow : Token)
  | set (list : Expr) (listTok : Token) (idx : Expr) (lb rb : Token) (value : Expr) (arrow : Token)
deriving Inhabited

inductive Stmt
  | expr (e : Expr)
  | ifs (cond : Expr) (thn : Stmt) (els : Option Stmt) (ifTok : Token) (elseTok : Option Token)
  | repeatTimes (count : Expr) (body : Stmt) (repeatTok timesTok countTok : Token)
  | repeatUntil (cond : Expr) (body : Stmt) (repeatTok untilTok : Token)
  | forEach (item : Str) (itemTok : Token) (list : Expr) (body : Stmt) (forTok eachTok inTok listTok : Token)
  | procDecl (name : Str) (params : List (Str × Token)) (body : Stmt) (exported : Bool) (procTok nameTok : Token)
  | block (lb : Token) (stmts : List Stmt) (rb : Token)
  | ret (tok : Token) (value : Option Expr)
  | cont (tok : Token)
  | brk (tok : Token)
  | import_ (importTok modTok : Token) (fromTok : Option Token) (only : Option (List Token)) (modName : Token)
deriving Inhabited

def Token.span (t : Token) : Span := (t.off, t.len)

/-- src: token.rs `span_between` (`SourceSpan::from(a..b)`; an empty range when `b < a`) -/
def spanBetween (l r : Token) : Span := (l.endOff, r.off - l.endOff)

end Aplang
