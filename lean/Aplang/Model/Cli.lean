import Aplang.Model.Run
/-!
# Command-line driver  (src: main.rs `run`, arguments.rs)

The decision logic of the tool: which phases run, what reaches standard output, when the exit status
is zero. Argument parsing (`clap`), the exit-code plumbing (`miette` report → 1, panic → 101) and the
operating system are parameters: the model says "zero / non-zero" and "standard error empty / not".
-/
namespace Aplang

inductive SourceMode | file | eval | evalStdin
deriving DecidableEq, Repr

inductive DebugMode | none | time | all | lexer | parser | interpreter
deriving DecidableEq, Repr

structure CliConfig where
  mode : SourceMode
  debug : DebugMode
  check : Bool
deriving Repr

structure CliOut where
  exitZero : Bool
  stdout : Str
  stderrNonEmpty : Bool

/-- what the end of the run means for the process: status, standard output, diagnostics -/
def execOutcome (debugOn : Bool) : Res St → CliOut
  | .ok σ => ⟨true, σ.output, debugOn⟩
  | .err _ σ => ⟨false, σ.output, true⟩
  | .terminate _ σ => ⟨false, σ.output, true⟩
  | .panic _ out => ⟨false, out.reverse.flatten, true⟩
  | .fuel => ⟨false, [], true⟩

/-- the bytes a run displayed before it ended -/
def displayedBy : Res St → Str
  | .ok σ => σ.output | .err _ σ => σ.output | .terminate _ σ => σ.output | .panic _ out => out.reverse.flatten | .fuel => []

/-- src: `run(args)`: lex, parse, stop under `--check`, execute, dump the debug buffer to stderr -/
def cliRun (cfg : Cfg) (fuel : Nat) (c : CliConfig) (src : Str) (world : World) (filePath : Str) : CliOut :=
  let lexed := lex cfg.lex src
  if !lexed.errors.isEmpty then ⟨false, [], true⟩ else
  match parse (parseFuel lexed.tokens.length) lexed.tokens with
  | .errs _ => ⟨false, [], true⟩
  | .panic _ => ⟨false, [], true⟩
  | .fuel => ⟨false, [], true⟩
  | .ok prog =>
    if c.check then ⟨true, [], false⟩ else
    execOutcome (c.debug != .none) (program cfg fuel prog (initState cfg world filePath))

end Aplang
