import Aplang.Prim.Text
/-!
# Tokens  (src: lexer/token.rs)
-/
namespace Aplang

/-- src: token.rs `TokenType` -/
inductive TT
  | softSemi
  | leftParen | rightParen | leftBracket | rightBracket | leftBrace | rightBrace
  | comma | dot | minus | plus | slash | star
  | arrow | equalEqual | bangEqual | greater | greaterEqual | less | lessEqual
  | identifier | number | stringLiteral
  | mod_ | if_ | else_ | repeat_ | times | until_ | for_ | each | continue_ | break_ | in_
  | procedure | return_ | not_ | and_ | or_
  | true_ | false_ | null
  | import_ | export_ | from_
  | eof
deriving DecidableEq, Repr, Inhabited

def TT.all : List TT :=
  [.softSemi, .leftParen, .rightParen, .leftBracket, .rightBracket, .leftBrace, .rightBrace,
   .comma, .dot, .minus, .plus, .slash, .star,
   .arrow, .equalEqual, .bangEqual, .greater, .greaterEqual, .less, .lessEqual,
   .identifier, .number, .stringLiteral,
   .mod_, .if_, .else_, .repeat_, .times, .until_, .for_, .each, .continue_, .break_, .in_,
   .procedure, .return_, .not_, .and_, .or_, .true_, .false_, .null,
   .import_, .export_, .from_, .eof]

/-- the Rust variant name, used by the table extractor and the line protocol -/
def TT.name : TT → String
  | .softSemi => "SoftSemi" | .leftParen => "LeftParen" | .rightParen => "RightParen"
  | .leftBracket => "LeftBracket" | .rightBracket => "RightBracket" | .leftBrace => "LeftBrace"
  | .rightBrace => "RightBrace" | .comma => "Comma" | .dot => "Dot" | .minus => "Minus"
  | .plus => "Plus" | .slash => "Slash" | .star => "Star" | .arrow => "Arrow"
  | .equalEqual => "EqualEqual" | .bangEqual => "BangEqual" | .greater => "Greater"
  | .greaterEqual => "GreaterEqual" | .less => "Less" | .lessEqual => "LessEqual"
  | .identifier => "Identifier" | .number => "Number" | .stringLiteral => "StringLiteral"
  | .mod_ => "Mod" | .if_ => "If" | .else_ => "Else" | .repeat_ => "Repeat" | .times => "Times"
  | .until_ => "Until" | .for_ => "For" | .each => "Each" | .continue_ => "Continue"
  | .break_ => "Break" | .in_ => "In" | .procedure => "Procedure" | .return_ => "Return"
  | .not_ => "Not" | .and_ => "And" | .or_ => "Or" | .true_ => "True" | .false_ => "False"
  | .null => "Null" | .import_ => "Import" | .export_ => "Export" | .from_ => "From" | .eof => "Eof"

def TT.ofName? (s : String) : Option TT := TT.all.find? (fun t => t.name == s)

/-- src: token.rs `LiteralValue` (as `Option`) -/
inductive Lit
  | none
  | num (f : Float)
  | str (s : Str)
deriving Inhabited

/-- src: token.rs `Token` (without `line_number` and the `source` pointer) -/
structure Token where
  tt : TT
  lexeme : Str
  lit : Lit
  off : Nat
  len : Nat
deriving Inhabited

def Token.endOff (t : Token) : Nat := t.off + t.len

end Aplang
