import Aplang.Model.State
import Aplang.Model.Fs
/-!
# Native procedures  (src: standard_library/*.rs, std_macros.rs)

Each native procedure is a function from the evaluated arguments (with the byte range of each
argument, for diagnostics) and the state to a result. Argument casts are performed left to right, as
the `std_function!` macro does; the first failing cast is the runtime error.
-/
set_option linter.unusedVariables false
namespace Aplang

def Native.all : List Native :=
  [.display, .displayNoln, .input, .insert, .append, .remove, .length, .random,
   .sin, .cos, .tan, .asin, .acos, .atan, .atan2, .sinh, .cosh, .tanh, .asinh, .acosh, .atanh,
   .exp, .log, .log10, .log2, .round, .floor, .ceil, .int, .clamp, .pi, .e, .tau,
   .toNumber, .toBool, .split, .toUpper, .toLower, .trim, .contains, .replace, .startsWith, .endsWith,
   .join, .substring, .toCharArray,
   .mapNew, .mapInsert, .mapGet, .mapContainsKey, .mapValues, .mapKeys,
   .inputPrompt, .format, .displayf, .style, .clearStyle, .time, .sleep,
   .robotMap, .moveFoward, .canMove, .moveForward, .rotateLeft, .rotateRight, .formatRobot, .formatRobotAscii,
   .pathExists, .pathIsFile, .pathIsDirectory, .fileRemove, .fileCreate, .fileRead, .fileAppend,
   .fileOverwrite, .directoryRead, .directoryCreate, .directoryCreateAll, .directoryRemove, .directoryRemoveAll]

/-- (module, procedure name, arity) — compared with the registry extracted from the live code -/
def Native.info : Native → String × String × Nat
  | .display => ("CORE", "DISPLAY", 1) | .displayNoln => ("CORE", "DISPLAY_NOLN", 1)
  | .input => ("CORE", "INPUT", 0) | .insert => ("CORE", "INSERT", 3) | .append => ("CORE", "APPEND", 2)
  | .remove => ("CORE", "REMOVE", 2) | .length => ("CORE", "LENGTH", 1) | .random => ("CORE", "RANDOM", 2)
  | .sin => ("MATH", "SIN", 1) | .cos => ("MATH", "COS", 1) | .tan => ("MATH", "TAN", 1)
  | .asin => ("MATH", "ASIN", 1) | .acos => ("MATH", "ACOS", 1) | .atan => ("MATH", "ATAN", 1)
  | .atan2 => ("MATH", "ATAN2", 2) | .sinh => ("MATH", "SINH", 1) | .cosh => ("MATH", "COSH", 1)
  | .tanh => ("MATH", "TANH", 1) | .asinh => ("MATH", "ASINH", 1) | .acosh => ("MATH", "ACOSH", 1)
  | .atanh => ("MATH", "ATANH", 1) | .exp => ("MATH", "EXP", 1) | .log => ("MATH", "LOG", 2)
  | .log10 => ("MATH", "LOG10", 1) | .log2 => ("MATH", "LOG2", 1) | .round => ("MATH", "ROUND", 1)
  | .floor => ("MATH", "FLOOR", 1) | .ceil => ("MATH", "CEIL", 1) | .int => ("MATH", "INT", 1)
  | .clamp => ("MATH", "CLAMP", 3) | .pi => ("MATH", "PI", 0) | .e => ("MATH", "E", 0) | .tau => ("MATH", "TAU", 0)
  | .toNumber => ("STRING", "TO_NUMBER", 1) | .toBool => ("STRING", "TO_BOOL", 1) | .split => ("STRING", "SPLIT", 2)
  | .toUpper => ("STRING", "TO_UPPER", 1) | .toLower => ("STRING", "TO_LOWER", 1) | .trim => ("STRING", "TRIM", 1)
  | .contains => ("STRING", "CONTAINS", 2) | .replace => ("STRING", "REPLACE", 3)
  | .startsWith => ("STRING", "STARTS_WITH", 2) | .endsWith => ("STRING", "ENDS_WITH", 2)
  | .join => ("STRING", "JOIN", 2) | .substring => ("STRING", "SUBSTRING", 3) | .toCharArray => ("STRING", "TO_CHAR_ARRAY", 1)
  | .mapNew => ("MAP", "MAP", 0) | .mapInsert => ("MAP", "MAP_INSERT", 3) | .mapGet => ("MAP", "MAP_GET", 2)
  | .mapContainsKey => ("MAP", "MAP_CONTAINS_KEY", 2) | .mapValues => ("MAP", "MAP_VALUES", 2) | .mapKeys => ("MAP", "MAP_KEYS", 2)
  | .inputPrompt => ("IO", "INPUT_PROMPT", 1) | .format => ("IO", "FORMAT", 2) | .displayf => ("IO", "DISPLAYF", 2)
  | .style => ("STYLE", "STYLE", 1) | .clearStyle => ("STYLE", "CLEAR_STYLE", 0)
  | .time => ("TIME", "TIME", 0) | .sleep => ("TIME", "SLEEP", 1)
  | .robotMap => ("ROBOT", "ROBOT_MAP", 1) | .moveFoward => ("ROBOT", "MOVE_FOWARD", 1) | .canMove => ("ROBOT", "CAN_MOVE", 2)
  | .moveForward => ("ROBOT", "MOVE_FORWARD", 1) | .rotateLeft => ("ROBOT", "ROTATE_LEFT", 1)
  | .rotateRight => ("ROBOT", "ROTATE_RIGHT", 1) | .formatRobot => ("ROBOT", "FORMAT_ROBOT", 1)
  | .formatRobotAscii => ("ROBOT", "FORMAT_ROBOT_ASCII", 1)
  | .pathExists => ("FS", "PATH_EXISTS", 1) | .pathIsFile => ("FS", "PATH_IS_FILE", 1)
  | .pathIsDirectory => ("FS", "PATH_IS_DIRECTORY", 1) | .fileRemove => ("FS", "FILE_REMOVE", 1)
  | .fileCreate => ("FS", "FILE_CREATE", 1) | .fileRead => ("FS", "FILE_READ", 1) | .fileAppend => ("FS", "FILE_APPEND", 2)
  | .fileOverwrite => ("FS", "FILE_OVERWRITE", 2) | .directoryRead => ("FS", "DIRECTORY_READ", 1)
  | .directoryCreate => ("FS", "DIRECTORY_CREATE", 1) | .directoryCreateAll => ("FS", "DIRECTORY_CREATE_ALL", 1)
  | .directoryRemove => ("FS", "DIRECTORY_REMOVE", 1) | .directoryRemoveAll => ("FS", "DIRECTORY_REMOVE_ALL", 1)

def Native.arity (n : Native) : Nat := n.info.2.2
def Native.name (n : Native) : Str := n.info.2.1.toList
def Native.module (n : Native) : String := n.info.1

/-- the model's registry: module name ↦ its procedures (src: `Modules::inject`) -/
def stdModule (m : Str) : Option FunTable :=
  let ns := Native.all.filter (fun n => n.module.toList == m)
  if ns.isEmpty then none else some (ns.map fun n => (n.name, Proc.native n))

/-- src: style.rs table -/
def styleTable : List (String × String) :=
  [("clear", "\x1b[0m"), ("default_color", "\x1b[39m"), ("bg_default_color", "\x1b[49m"),
   ("black", "\x1b[30m"), ("red", "\x1b[31m"), ("green", "\x1b[32m"), ("yellow", "\x1b[33m"),
   ("blue", "\x1b[34m"), ("magenta", "\x1b[35m"), ("cyan", "\x1b[36m"), ("white", "\x1b[37m"),
   ("bright_black", "\x1b[90m"), ("bright_red", "\x1b[91m"), ("bright_green", "\x1b[92m"),
   ("bright_yellow", "\x1b[93m"), ("bright_blue", "\x1b[94m"), ("bright_magenta", "\x1b[95m"),
   ("bright_cyan", "\x1b[96m"), ("bright_white", "\x1b[97m"),
   ("bg_black", "\x1b[40m"), ("bg_red", "\x1b[41m"), ("bg_green", "\x1b[42m"), ("bg_yellow", "\x1b[43m"),
   ("bg_blue", "\x1b[44m"), ("bg_magenta", "\x1b[45m"), ("bg_cyan", "\x1b[46m"), ("bg_white", "\x1b[47m"),
   ("bg_bright_black", "\x1b[100m"), ("bg_bright_red", "\x1b[101m"), ("bg_bright_green", "\x1b[102m"),
   ("bg_bright_yellow", "\x1b[103m"), ("bg_bright_blue", "\x1b[104m"), ("bg_bright_magenta", "\x1b[105m"),
   ("bg_bright_cyan", "\x1b[106m"), ("bg_bright_white", "\x1b[107m"),
   ("bold", "\x1b[1m"), ("faint", "\x1b[2m"), ("underline", "\x1b[4m"), ("blink", "\x1b[5m")]

/-! ## argument casts (src: `unwrap_arg_type!`) -/

def castErr {α} (what : String) (sp : Span) (σ : St) : Res α := .err ⟨"Invalid Argument Cast: " ++ what, sp⟩ σ

def castNum (v : Value) (sp : Span) (σ : St) : Res Float :=
  match v with | .num x => .ok x | _ => castErr "NUMBER" sp σ
def castStr (v : Value) (sp : Span) (σ : St) : Res Str :=
  match v with | .str x => .ok x | _ => castErr "STRING" sp σ
/-- `Value::List`: the address and the current contents -/
def castList (v : Value) (sp : Span) (σ : St) : Res (Nat × List Value) :=
  match v with
  | .list a => (match getList σ a with | some vs => .ok (a, vs) | none => .panic "dangling list" σ.out)
  | _ => castErr "LIST" sp σ
def castMap (v : Value) (sp : Span) (σ : St) : Res (Nat × MapCell.AMap) :=
  match v with
  | .obj a => (match σ.heap[a]? with
      | some (.map m) => .ok (a, m)
      | some _ => .err ⟨"Invalid NATIVE_OBJECT variety for function", sp⟩ σ
      | none => .panic "dangling object" σ.out)
  | _ => castErr "NATIVE_OBJECT" sp σ
def castRobot (v : Value) (sp : Span) (σ : St) : Res (Nat × Robot.Robot) :=
  match v with
  | .obj a => (match σ.heap[a]? with
      | some (.robot r) => .ok (a, r)
      | some _ => .err ⟨"Invalid NATIVE_OBJECT variety for function", sp⟩ σ
      | none => .panic "dangling object" σ.out)
  | _ => castErr "NATIVE_OBJECT" sp σ

def mkList (σ : St) (vs : List Value) : Value × St :=
  (.list (allocCell σ (.list vs)).1, (allocCell σ (.list vs)).2)

/-- src: io.rs `input`: show the prompt, read one line, `trim_end` -/
def readInput (env : CharEnv) (prompt : Str) (σ : St) : Str × St :=
  let σ := emit σ prompt
  let (line, rest) := spanWhile (fun c => c != '\n') σ.world.stdin
  let rest := match rest with | _ :: r => r | [] => []
  (StrOps.trimEnd env.isWs line, { σ with world := { σ.world with stdin := rest } })

def displayAll (σ : St) : List Value → Res (List Str)
  | [] => .ok []
  | v :: vs => (display σ v).bind fun a => (displayAll σ vs).bind fun b => .ok (a :: b)

def mathConst : Native → Float
  | .pi => Float.ofBits 0x400921FB54442D18
  | .e => Float.ofBits 0x4005BF0A8B145769
  | .tau => Float.ofBits 0x401921FB54442D18
  | _ => 0

/-- Rust's `f64::asinh` / `acosh` are computed by formulas (`ln_1p(ax + ax / (hypot(1, 1/ax) + 1/ax))`,
`ln(x + sqrt(x-1) * sqrt(x+1))`) whose intermediate `ax + ax` overflows for |x| >= 2^1023: the result is
an infinity there (the true value is about 710). Elsewhere they agree with libm within a few ulp. -/
def rustAsinh (x : Float) : Float :=
  if (x.abs + x.abs).isInf then (if x < 0 then -(x.abs + x.abs) else x.abs + x.abs) else Float.asinh x
def rustAcosh (x : Float) : Float :=
  if x < 1.0 then Float.acosh x else Float.log (x + Float.sqrt (x - 1.0) * Float.sqrt (x + 1.0))

/-- one-argument MATH procedures: the `f64` method each one names -/
def math1 : Native → Option (Float → Float)
  | .sin => some Float.sin | .cos => some Float.cos | .tan => some Float.tan
  | .asin => some Float.asin | .acos => some Float.acos | .atan => some Float.atan
  | .sinh => some Float.sinh | .cosh => some Float.cosh | .tanh => some Float.tanh
  | .asinh => some rustAsinh | .acosh => some rustAcosh | .atanh => some Float.atanh
  | .exp => some Float.exp | .log10 => some Float.log10 | .log2 => some Float.log2
  | .round => some Float.round | .floor => some Float.floor | .ceil => some Float.ceil
  | .int => some F64.trunc
  | _ => none

def boolV (b : Bool) : Value := .bool b

/-- FS procedures whose result is a success flag -/
def fsFlag (op : Fs.Tree → Str → Fs.Tree × Bool) (path : Str) (σ : St) : Res (Value × St) :=
  .ok (.bool (op σ.world.fs path).2, { σ with world := { σ.world with fs := (op σ.world.fs path).1 } })

/-- which module's source file a native procedure lives in -/
inductive NGroup | core | math | string | map | io | style | time | robot | fs
deriving DecidableEq, Repr

def Native.group : Native → NGroup
  | .display | .displayNoln | .input | .insert | .append | .remove | .length | .random => .core
  | .sin | .cos | .tan | .asin | .acos | .atan | .atan2 | .sinh | .cosh | .tanh | .asinh | .acosh | .atanh
  | .exp | .log | .log10 | .log2 | .round | .floor | .ceil | .int | .clamp | .pi | .e | .tau => .math
  | .toNumber | .toBool | .split | .toUpper | .toLower | .trim | .contains | .replace | .startsWith | .endsWith
  | .join | .substring | .toCharArray => .string
  | .mapNew | .mapInsert | .mapGet | .mapContainsKey | .mapValues | .mapKeys => .map
  | .inputPrompt | .format | .displayf => .io
  | .style | .clearStyle => .style
  | .time | .sleep => .time
  | .robotMap | .moveFoward | .canMove | .moveForward | .rotateLeft | .rotateRight | .formatRobot | .formatRobotAscii => .robot
  | .pathExists | .pathIsFile | .pathIsDirectory | .fileRemove | .fileCreate | .fileRead | .fileAppend
  | .fileOverwrite | .directoryRead | .directoryCreate | .directoryCreateAll | .directoryRemove | .directoryRemoveAll => .fs

/-- src: robot.rs MOVE_FORWARD / MOVE_FOWARD -/
def moveRobot (v : Value) (s1 : Span) (σ : St) : Res (Value × St) :=
  (castRobot v s1 σ).bind fun (a, rb) =>
  match Robot.moveForward rb with
  | .moved rb' res => .ok (.bool res, setCell σ a (.robot rb'))
  | .blocked => .terminate "robot attempted to move into a wall" σ
  | .panic site => .panic site σ.out

def callCore (env : CharEnv) (n : Native) (args : List Value) (spans : List Span) (σ : St) :
    Res (Value × St) :=
  match n, args, spans with
  -- CORE (src: standard_library/mod.rs)
  | .display, [v], _ => (display σ v).bind fun s => .ok (.null, emit σ (s ++ ['\n']))
  | .displayNoln, [v], _ => (display σ v).bind fun s => .ok (.null, emit σ s)
  | .input, [], _ => .ok (.str (readInput env [] σ).1, (readInput env [] σ).2)
  | .insert, [l, i, v], [s1, s2, _] =>
    (castList l s1 σ).bind fun (a, vs) => (castNum i s2 σ).bind fun i =>
    if i >= 1.0 && F64.toUSize i ≤ vs.length + 1 then
      .ok (.null, setCell σ a (.list (vs.insertIdx (F64.toUSize i - 1) v)))
    else .err ⟨"Invalid List Index", s2⟩ σ
  | .append, [l, v], [s1, _] =>
    (castList l s1 σ).bind fun (a, vs) => .ok (.null, setCell σ a (.list (vs ++ [v])))
  | .remove, [l, i], [s1, s2] =>
    (castList l s1 σ).bind fun (a, vs) => (castNum i s2 σ).bind fun i =>
    if i >= 1.0 then
      match vs[F64.toUSize i - 1]? with
      | some old => .ok (old, setCell σ a (.list (vs.eraseIdx (F64.toUSize i - 1))))
      | none => .err ⟨"Invalid List Index", s2⟩ σ
    else .err ⟨"Invalid List Index", s2⟩ σ
  | .length, [v], _ =>
    (match v with
     | .list a => (match getList σ a with
        | some vs => .ok (.num vs.length.toFloat, σ)
        | none => .panic "dangling list" σ.out)
     | .str s => .ok (.num s.length.toFloat, σ)
     | _ => .ok (.null, σ))
  | .random, [a, b], [s1, s2] =>
    (castNum a s1 σ).bind fun a => (castNum b s2 σ).bind fun b =>
    if F64.toI64 a > F64.toI64 b then .err ⟨"Invalid Range", s1⟩ σ else
    .ok (.num (Float.ofInt (F64.toI64 a + (σ.world.rng.headD 0 % ((F64.toI64 b - F64.toI64 a).toNat + 1) : Nat))),
         { σ with world := { σ.world with rng := σ.world.rng.tail } })
  | _, _, _ => .panic "native: arity" σ.out

def callMath (env : CharEnv) (n : Native) (args : List Value) (spans : List Span) (σ : St) :
    Res (Value × St) :=
  match n, args, spans with
  -- MATH (src: math.rs)
  | .atan2, [y, x], [s1, s2] =>
    (castNum y s1 σ).bind fun y => (castNum x s2 σ).bind fun x => .ok (.num (Float.atan2 y x), σ)
  | .log, [v, b], [s1, s2] =>
    (castNum v s1 σ).bind fun v => (castNum b s2 σ).bind fun b => .ok (.num (Float.log v / Float.log b), σ)
  | .clamp, [v, lo, hi], [s1, s2, s3] =>
    (castNum v s1 σ).bind fun v => (castNum lo s2 σ).bind fun lo => (castNum hi s3 σ).bind fun hi =>
    .ok (.num (F64.minF (F64.maxF v lo) hi), σ)
  | .pi, [], _ => .ok (.num (mathConst .pi), σ)
  | .e, [], _ => .ok (.num (mathConst .e), σ)
  | .tau, [], _ => .ok (.num (mathConst .tau), σ)
  | n, [v], [s1] =>
    -- the one-argument procedures: the `f64` method each one names
    (match math1 n with
     | some f => (castNum v s1 σ).bind fun x => .ok (.num (f x), σ)
     | none => .panic "native: arity" σ.out)
  | _, _, _ => .panic "native: arity" σ.out

def callString (env : CharEnv) (n : Native) (args : List Value) (spans : List Span) (σ : St) :
    Res (Value × St) :=
  match n, args, spans with
  -- STRING (src: strings.rs)
  | .toNumber, [v], [s1] => (castStr v s1 σ).bind fun s =>
    .ok ((match F64.parse s with | some x => .num x | none => .null), σ)
  | .toBool, [v], [s1] => (castStr v s1 σ).bind fun s =>
    .ok ((match StrOps.parseBool s with | some b => .bool b | none => .null), σ)
  | .split, [v, p], [s1, s2] =>
    (castStr v s1 σ).bind fun s => (castStr p s2 σ).bind fun p =>
    .ok (mkList σ ((StrOps.split s p).map Value.str))
  | .toUpper, [v], [s1] => (castStr v s1 σ).bind fun s => .ok (.str (StrOps.toUpper env s), σ)
  | .toLower, [v], [s1] => (castStr v s1 σ).bind fun s => .ok (.str (StrOps.toLowerSigma env env.caseIgn env.cased s), σ)
  | .trim, [v], [s1] => (castStr v s1 σ).bind fun s => .ok (.str (StrOps.trim env.isWs s), σ)
  | .contains, [v, p], [s1, s2] =>
    (castStr v s1 σ).bind fun s => (castStr p s2 σ).bind fun p => .ok (.bool (StrOps.contains s p), σ)
  | .replace, [v, f, t], [s1, s2, s3] =>
    (castStr v s1 σ).bind fun s => (castStr f s2 σ).bind fun f => (castStr t s3 σ).bind fun t =>
    .ok (.str (StrOps.replace s f t), σ)
  | .startsWith, [v, p], [s1, s2] =>
    (castStr v s1 σ).bind fun s => (castStr p s2 σ).bind fun p => .ok (.bool (StrOps.startsWith s p), σ)
  | .endsWith, [v, p], [s1, s2] =>
    (castStr v s1 σ).bind fun s => (castStr p s2 σ).bind fun p => .ok (.bool (StrOps.endsWith s p), σ)
  | .join, [l, sep], [s1, s2] =>
    (castList l s1 σ).bind fun (_, vs) => (castStr sep s2 σ).bind fun sep =>
    (displayAll σ vs).bind fun parts => .ok (.str (StrOps.join parts sep), σ)
  | .substring, [v, st, len], [s1, s2, s3] =>
    (castStr v s1 σ).bind fun s => (castNum st s2 σ).bind fun st => (castNum len s3 σ).bind fun len =>
    if st >= 1.0 then .ok (.str (StrOps.substringChars s (F64.toUSize st) (F64.toUSize len)), σ)
    else .err ⟨"Invalid String Index", s2⟩ σ
  | .toCharArray, [v], [s1] => (castStr v s1 σ).bind fun s =>
    .ok (mkList σ ((StrOps.charsToStrs s).map Value.str))
  | _, _, _ => .panic "native: arity" σ.out

def callMap (env : CharEnv) (n : Native) (args : List Value) (spans : List Span) (σ : St) :
    Res (Value × St) :=
  match n, args, spans with
  -- MAP (src: map.rs)
  | .mapNew, [], _ => .ok (.obj (allocCell σ (.map [])).1, (allocCell σ (.map [])).2)
  | .mapInsert, [m, k, v], [s1, _, _] =>
    (castMap m s1 σ).bind fun (a, mp) =>
    .ok ((MapCell.insert mp k v).2, setCell σ a (.map (MapCell.insert mp k v).1))
  | .mapGet, [m, k], [s1, _] => (castMap m s1 σ).bind fun (_, mp) => .ok (MapCell.get mp k, σ)
  | .mapContainsKey, [m, k], [s1, _] =>
    (castMap m s1 σ).bind fun (_, mp) => .ok (.bool (MapCell.containsKey mp k), σ)
  | .mapValues, [m, _], [s1, _] => (castMap m s1 σ).bind fun (_, mp) => .ok (mkList σ (MapCell.values mp))
  | .mapKeys, [m, _], [s1, _] => (castMap m s1 σ).bind fun (_, mp) => .ok (mkList σ (MapCell.keys mp))
  | _, _, _ => .panic "native: arity" σ.out

def callIo (env : CharEnv) (n : Native) (args : List Value) (spans : List Span) (σ : St) :
    Res (Value × St) :=
  match n, args, spans with
  -- IO (src: io.rs)
  | .inputPrompt, [p], [s1] => (castStr p s1 σ).bind fun p =>
    .ok (.str (readInput env p σ).1, (readInput env p σ).2)
  | .format, [f, l], [s1, s2] =>
    (castStr f s1 σ).bind fun f => (castList l s2 σ).bind fun (_, vs) =>
    (displayAll σ vs).bind fun parts =>
    (match StrOps.formatBraces f parts with
     | some s => .ok (.str s, σ)
     | none => .err ⟨"Incorrect Number Of Format Args", s2⟩ σ)
  | .displayf, [f, l], [s1, s2] =>
    (castStr f s1 σ).bind fun f => (castList l s2 σ).bind fun (_, vs) =>
    (displayAll σ vs).bind fun parts =>
    (match StrOps.formatBraces f parts with
     | some s => .ok (.null, emit σ (s ++ ['\n']))
     | none => .err ⟨"Incorrect Number Of Format Args", s2⟩ σ)
  | _, _, _ => .panic "native: arity" σ.out

def callStyle (env : CharEnv) (n : Native) (args : List Value) (spans : List Span) (σ : St) :
    Res (Value × St) :=
  match n, args, spans with
  -- STYLE (src: style.rs)
  | .style, [v], [s1] => (castStr v s1 σ).bind fun s =>
    (match styleTable.find? (fun e => e.1.toList == StrOps.toAsciiLower s) with
     | some (_, code) => .ok (.bool true, emit σ code.toList)
     | none => .ok (.bool false, σ))
  | .clearStyle, [], _ => .ok (.null, emit σ "\x1b[0m".toList)
  | _, _, _ => .panic "native: arity" σ.out

def callTime (env : CharEnv) (n : Native) (args : List Value) (spans : List Span) (σ : St) :
    Res (Value × St) :=
  match n, args, spans with
  -- TIME (src: time.rs)
  | .time, [], _ => .ok (.num σ.world.clock.toFloat, σ)
  | .sleep, [d], [s1] => (castNum d s1 σ).bind fun d =>
    .ok (.null, { σ with world := { σ.world with clock := σ.world.clock + F64.toU64 d } })
  | _, _, _ => .panic "native: arity" σ.out

def callRobot (env : CharEnv) (n : Native) (args : List Value) (spans : List Span) (σ : St) :
    Res (Value × St) :=
  match n, args, spans with
  -- ROBOT (src: robot.rs)
  | .robotMap, [v], [s1] => (castStr v s1 σ).bind fun s =>
    -- a text of 2^63 bytes or more does not fit a 64-bit address space (Rust caps allocations at
    -- isize::MAX): outside the resource envelope, like the statement budget
    if 2 ^ 63 ≤ ulen s then .fuel else
    (match Robot.parse s with
     | some r => .ok (.obj (allocCell σ (.robot r)).1, (allocCell σ (.robot r)).2)
     | none => .ok (.null, σ))
  | .canMove, [r, d], [s1, s2] =>
    (castRobot r s1 σ).bind fun (_, rb) => (castStr d s2 σ).bind fun d =>
    (match Robot.parseRel d with
     | some rel => .ok (.bool (Robot.canMove rb rel), σ)
     | none => .ok (.null, σ))
  | .rotateLeft, [r], [s1] => (castRobot r s1 σ).bind fun (a, rb) =>
    .ok (.null, setCell σ a (.robot (Robot.rotateLeft rb)))
  | .rotateRight, [r], [s1] => (castRobot r s1 σ).bind fun (a, rb) =>
    .ok (.null, setCell σ a (.robot (Robot.rotateRight rb)))
  | .formatRobot, [r], [s1] => (castRobot r s1 σ).bind fun (_, rb) => .ok (.str (Robot.fmtUnicode rb), σ)
  | .formatRobotAscii, [r], [s1] => (castRobot r s1 σ).bind fun (_, rb) => .ok (.str (Robot.fmtAscii rb), σ)
  | .moveForward, [v], [s1] => moveRobot v s1 σ
  | .moveFoward, [v], [s1] => moveRobot v s1 σ
  | _, _, _ => .panic "native: arity" σ.out

def callFs (env : CharEnv) (n : Native) (args : List Value) (spans : List Span) (σ : St) :
    Res (Value × St) :=
  match n, args, spans with
  -- FS (src: file_system.rs)
  | .pathExists, [p], [s1] => (castStr p s1 σ).bind fun p => .ok (.bool (Fs.existsS σ.world.fs p), σ)
  | .pathIsFile, [p], [s1] => (castStr p s1 σ).bind fun p => .ok (.bool (Fs.isFileS σ.world.fs p), σ)
  | .pathIsDirectory, [p], [s1] => (castStr p s1 σ).bind fun p => .ok (.bool (Fs.isDirS σ.world.fs p), σ)
  | .fileRemove, [p], [s1] => (castStr p s1 σ).bind fun p => fsFlag Fs.fileRemove p σ
  | .fileCreate, [p], [s1] => (castStr p s1 σ).bind fun p => fsFlag Fs.fileCreate p σ
  | .fileRead, [p], [s1] => (castStr p s1 σ).bind fun p =>
    .ok ((match Fs.fileRead σ.world.fs p with | some c => .str c | none => .null), σ)
  | .fileAppend, [p, v], [s1, _] => (castStr p s1 σ).bind fun p =>
    (display σ v).bind fun text => fsFlag (fun t s => Fs.fileAppend t s text) p σ
  | .fileOverwrite, [p, v], [s1, _] => (castStr p s1 σ).bind fun p =>
    (display σ v).bind fun text => fsFlag (fun t s => Fs.fileOverwrite t s text) p σ
  | .directoryRead, [p], [s1] => (castStr p s1 σ).bind fun p =>
    (match Fs.dirRead σ.world.fs p with
     | some names => .ok (mkList σ (names.map Value.str))
     | none => .ok (.null, σ))
  | .directoryCreate, [p], [s1] => (castStr p s1 σ).bind fun p => fsFlag Fs.dirCreate p σ
  | .directoryCreateAll, [p], [s1] => (castStr p s1 σ).bind fun p => fsFlag Fs.dirCreateAll p σ
  | .directoryRemove, [p], [s1] => (castStr p s1 σ).bind fun p => fsFlag Fs.dirRemove p σ
  | .directoryRemoveAll, [p], [s1] => (castStr p s1 σ).bind fun p => fsFlag Fs.dirRemoveAll p σ
  | _, _, _ => .panic "native: arity" σ.out

/-- src: the closure each `std_function!` expands to -/
def callNative (env : CharEnv) (n : Native) (args : List Value) (spans : List Span) (σ : St) :
    Res (Value × St) :=
  match n.group with
  | .core => callCore env n args spans σ
  | .math => callMath env n args spans σ
  | .string => callString env n args spans σ
  | .map => callMap env n args spans σ
  | .io => callIo env n args spans σ
  | .style => callStyle env n args spans σ
  | .time => callTime env n args spans σ
  | .robot => callRobot env n args spans σ
  | .fs => callFs env n args spans σ

end Aplang
