import Aplang.Model.Interp
/-!
# The whole pipeline  (src: aplang.rs `lex` → `parse` → `execute`)
-/
namespace Aplang

inductive RunEnd
  | ok
  | lexErr (n : Nat)
  | parseErr (n : Nat)
  | rtErr (e : RtErr)
  | terminate (why : String)
  | panic (site : String)
  | fuel

structure RunOut where
  status : RunEnd
  output : Str
  final : Option St

/-- src: `Interpreter::new`: a base context and the CORE procedures -/
def initState (cfg : Cfg) (world : World) (filePath : Str) (budget : Nat := 40000) : St :=
  { procs := FunTable.extend [] ((cfg.modules "CORE".toList).getD []), world := world, filePath := filePath,
    budget := budget }

def runTokens (cfg : Cfg) (fuel : Nat) (tokens : List Token) (world : World) (filePath : Str) : RunOut :=
  match parse (parseFuel tokens.length) tokens with
  | .errs es => ⟨.parseErr es.length, [], none⟩
  | .panic p => ⟨.panic p, [], none⟩
  | .fuel => ⟨.fuel, [], none⟩
  | .ok prog =>
    match program cfg fuel prog (initState cfg world filePath) with
    | .ok σ => ⟨.ok, σ.output, some σ⟩
    | .err e σ => ⟨.rtErr e, σ.output, some σ⟩
    | .terminate w σ => ⟨.terminate w, σ.output, some σ⟩
    | .panic p out => ⟨.panic p, out.reverse.flatten, none⟩
    | .fuel => ⟨.fuel, [], none⟩

/-- behaviour depends on the source only through its token sequence -/
def run (cfg : Cfg) (fuel : Nat) (src : Str) (world : World) (filePath : Str) : RunOut :=
  let lexed := lex cfg.lex src
  if !lexed.errors.isEmpty then ⟨.lexErr lexed.errors.length, [], none⟩
  else runTokens cfg fuel lexed.tokens world filePath

end Aplang
