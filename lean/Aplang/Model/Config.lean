import Aplang.Model.Interp
import Aplang.Gen.Keywords
import Aplang.Gen.Enders
import Aplang.Gen.Registry
/-!
# The configuration the code actually has: tables regenerated from the live source
-/
namespace Aplang

/-- keyword lookup in the extracted table (src: `get_keywords_hashmap`) -/
def genKw (s : Str) : Option TT := (Gen.keywords.find? (fun e => e.1.toList == s)).map (·.2)

def genLexCfg (isAlnum : Char → Bool) : LexCfg where
  kw := genKw
  ender := fun t => Gen.enders.contains t
  isAlnum := isAlnum

def genCfg (chars : CharEnv) : Cfg := { lex := genLexCfg chars.isAlnum, chars := chars, modules := stdModule }

end Aplang
