import Aplang.Model.Value
/-! STUB — replaced by the real module -/
namespace Aplang.MapCell
abbrev AMap := List (Value × Value)
def find? (m : AMap) (k : Value) : Option (Value × Value) := m.find? (fun e => keyEq e.1 k)
def insert (m : AMap) (k v : Value) : AMap × Value := (m ++ [(k, v)], .null)
def get (m : AMap) (k : Value) : Value := match find? m k with | some e => e.2 | none => .null
def containsKey (m : AMap) (k : Value) : Bool := (find? m k).isSome
def keys (m : AMap) : List Value := m.map (·.1)
def values (m : AMap) : List Value := m.map (·.2)
end Aplang.MapCell
