import Aplang.Model.Value
/-!
# MAP cells  (src: standard_library/map.rs, `type ApLangMap = HashMap<Value, Value>`)

One map cell is an association list.  What of `std::collections::HashMap<Value, Value>` is modelled:

* `get` / `contains_key` / `insert` find an entry iff its key has the same hash **and** is `Eq`-equal to the
  query key.  `Eq for Value` is `keyEq` (IEEE `==` on numbers: `NaN ≠ NaN`, `0 == -0`).
  **Assumption of the model: `Hash for Value` is consistent with `Eq for Value`** (`a == b → hash a = hash b`),
  so the hash never hides an `Eq`-equal entry and lookup is "first entry whose key is `keyEq` to the query".
  (The shipped `Hash` writes `n.to_bits()` for numbers, so `0.0` and `-0.0` hash differently although they are
  `Eq`; the repository fix hashes `-0.0` as `0.0`.  In `Thm/C16.lean`: `hashOrig_inconsistent` is the kernel-checked
  witness, `hashFixed_consistent` proves the assumption for the fixed hash, and `findH?_eq_find?` shows that under a
  consistent hash the hashed lookup is this `find?`.)
* `insert(k, v)` on a map that already has an `Eq`-equal key keeps the **old key object** and replaces only the
  value, returning the old value; otherwise it adds the entry and returns `None` (→ `NULL` in map.rs).
* iteration order (`keys()`, `values()`) is unspecified in Rust; here it is insertion order and
  `MAP_KEYS` / `MAP_VALUES` are compared as multisets.  `keys()` and `values()` iterate the same table, so the
  i-th key belongs to the i-th value.

The direction of the comparison (`stored == query` or `query == stored`) is immaterial: `keyEq` is symmetric
(`Proofs/FloatEq.lean`).
-/
namespace Aplang.MapCell

/-- one map cell; insertion order kept -/
abbrev AMap := List (Value × Value)

/-- first entry whose key is `keyEq` to `k` -/
def find? : AMap → Value → Option (Value × Value)
  | [], _ => none
  | e :: m, k => if keyEq e.1 k then some e else find? m k

/-- src: `map.insert(key, value).unwrap_or(Value::Null)` — (new map, old value or NULL);
existing key object kept, value replaced in place; new entries go to the end -/
def insert : AMap → Value → Value → AMap × Value
  | [], k, v => ([(k, v)], .null)
  | e :: m, k, v =>
    if keyEq e.1 k then ((e.1, v) :: m, e.2)
    else ((e :: (insert m k v).1), (insert m k v).2)

/-- src: `map.get(key).cloned().unwrap_or(Value::Null)` -/
def get (m : AMap) (k : Value) : Value :=
  match find? m k with
  | some e => e.2
  | none => .null

/-- src: `map.contains_key(key)` -/
def containsKey (m : AMap) (k : Value) : Bool := (find? m k).isSome

/-- src: `map.keys().cloned().collect()` (order: see module doc) -/
def keys (m : AMap) : List Value := m.map (·.1)

/-- src: `map.values().cloned().collect()` -/
def values (m : AMap) : List Value := m.map (·.2)

/-! ## the map argument (src: std_macros.rs `unwrap_arg_type!(… => Value::NativeObject<ApLangMap>)`) -/

/-- the two "Invalid Argument Cast" / "Invalid NATIVE_OBJECT variety" runtime errors -/
inductive ArgErr
  | notNativeObject     -- "Argument Value (map) is not of type NATIVE_OBJECT<A>"
  | wrongVariety        -- "This argument is a NATIVE_OBJECT but not the correct variety"
deriving DecidableEq, Repr

/-- first argument of every MAP_* function: must be a native object whose cell is a map
(`isMap addr` = `downcast_ref::<ApLangMap>().is_some()`); yields the address of the map cell -/
def mapArg (isMap : Nat → Bool) : Value → Except ArgErr Nat
  | .obj a => if isMap a then .ok a else .error .wrongVariety
  | _ => .error .notNativeObject

end Aplang.MapCell
